(* LoadWf.v — everything the two file readers produce is VALID in the sense of C08
   (Validate.v: decision-variable ids pairwise distinct, constraint ids pairwise distinct,
   every id used by the objective or a constraint is the id of a declared variable).

   Both reader models return their OWN instance records (Qplib.inst, Mps.inst).  For each reader
   the three facts are stated directly on the reader's record (choice (b)), AND the obvious
   conversion into Inst.v's [instance] is defined and [validate (to_instance R) = true] is
   derived (choice (a)); the conversion keeps ids and functions verbatim. *)
Require Ommx.Num Ommx.Poly Ommx.Msg Ommx.Eval Ommx.Tree Ommx.Inst Ommx.Relax Ommx.Transform
        Ommx.Validate Ommx.ValidateProofs.
Require Ommx.Mps Ommx.MpsSpec Ommx.MpsProofs Ommx.Qplib Ommx.QplibProofs.
From Coq Require Import String Ascii List Lia NArith ZArith Bool.
Import ListNotations.

(* ====================================================================== *)
(* generic list facts                                                      *)

Lemma NoDup_map_of_nat_seq k n : NoDup (map N.of_nat (seq k n)).
Proof.
  apply FinFun.Injective_map_NoDup; [|apply seq_NoDup].
  intros a b H. apply Nat2N.inj. exact H.
Qed.

Lemma Forall_flat_map_in {A B} (f : A -> list B) (P : B -> Prop) l :
  (forall a, In a l -> Forall P (f a)) -> Forall P (flat_map f l).
Proof.
  induction l as [|a l IH]; intro H; cbn [flat_map]; [constructor|].
  apply Forall_app. split; [apply H; left; reflexivity|apply IH; intros; apply H; right; assumption].
Qed.

Lemma NoDup_app_disj {A} (a b : list A) :
  NoDup a -> NoDup b -> (forall x, In x a -> In x b -> False) -> NoDup (a ++ b).
Proof.
  induction a as [|x a IH]; intros Ha Hb Hd; cbn [app]; [exact Hb|].
  inversion Ha; subst. constructor.
  - intro Hin. apply in_app_or in Hin. destruct Hin as [Hin|Hin]; [contradiction|].
    apply (Hd x); [left; reflexivity|exact Hin].
  - apply IH; [assumption|assumption|]. intros y Hy. apply Hd. right. exact Hy.
Qed.

Lemma NoDup_app_r {A} (a b : list A) : NoDup (a ++ b) -> NoDup b.
Proof. induction a as [|x a IH]; cbn [app]; intro H; [exact H|]. inversion H; subst. apply IH. assumption. Qed.

Lemma existsb_map' {A B} (f : A -> B) (p : B -> bool) l :
  existsb p (map f l) = existsb (fun x => p (f x)) l.
Proof. induction l as [|x l IH]; cbn; [reflexivity|]. rewrite IH. reflexivity. Qed.

(* ====================================================================== *)
(*                                QPLIB                                    *)
(* ====================================================================== *)
Module QplibWf.
Import Ommx.Num Ommx.Poly Ommx.Msg Ommx.Qplib Ommx.QplibProofs.
Close Scope string_scope. Close Scope Qc_scope. Open Scope list_scope.

(* ---- postconditions of the cursor monad (success only) ---- *)
Definition post {A} (P : A -> Prop) (m : M A) : Prop :=
  forall c a c', m c = Ok (a, c') -> P a.

Lemma post_bind {A B} (P : A -> Prop) (Q : B -> Prop) (m : M A) (f : A -> M B) :
  post P m -> (forall a, P a -> post Q (f a)) -> post Q (bind m f).
Proof.
  intros Hm Hf c b c' H. unfold bind in H.
  destruct (m c) as [[a c1]|] eqn:E; [|discriminate H].
  eapply Hf; [eapply Hm; exact E|exact H].
Qed.
Lemma post_ret {A} (P : A -> Prop) a : P a -> post P (ret a).
Proof. intros H c b c' E. unfold ret in E. inversion E; subst. exact H. Qed.
Lemma post_fail {A} (P : A -> Prop) k : post P (fail k).
Proof. intros c b c' E. discriminate E. Qed.
Lemma post_any {A} (m : M A) : post (fun _ => True) m.
Proof. intros c a c' _. exact Logic.I. Qed.
Lemma post_weaken {A} (P Q : A -> Prop) m : (forall a, P a -> Q a) -> post P m -> post Q m.
Proof. intros H Hm c a c' E. apply H. eapply Hm. exact E. Qed.
Lemma post_repeatM {A} (P : A -> Prop) m n : post P m -> post (Forall P) (repeatM n m).
Proof.
  intro Hm. induction n as [|n IH]; cbn [repeatM].
  - apply post_ret. constructor.
  - eapply post_bind; [exact Hm|]. intros a Pa.
    eapply post_bind; [exact IH|]. intros l Pl. apply post_ret. constructor; assumption.
Qed.

(* an index below the declared size *)
Definition below (bound : nat) (k : N) : Prop := (N.to_nat k < bound)%nat.

Lemma post_idx bound i : post (below bound) (idx bound i).
Proof.
  unfold idx. destruct ((i =? 0)%N || (N.of_nat bound <? i)%N) eqn:E.
  - apply post_fail.
  - apply post_ret. apply orb_false_iff in E. destruct E as [E1 E2].
    apply N.eqb_neq in E1. apply N.ltb_ge in E2. unfold below. lia.
Qed.

Lemma ains_Forall {K V} keqb (Q : K * V -> Prop) k v m :
  Q (k, v) -> Forall Q m -> Forall Q (ains keqb k v m).
Proof.
  intros Hq. induction 1 as [|[k0 v0] m H Hm IH]; cbn [ains].
  - constructor; [exact Hq|constructor].
  - destruct (keqb k k0); constructor; assumption.
Qed.
Lemma of_entries_Forall {K V} keqb (Q : K * V -> Prop) (es : list (K * V)) :
  Forall Q es -> Forall Q (of_entries keqb es).
Proof.
  unfold of_entries. intro H.
  assert (G : forall acc, Forall Q acc ->
            Forall Q (fold_left (fun m kv => ains keqb (fst kv) (snd kv) m) es acc)).
  { induction H as [|[k v] es Hq Hes IH]; intros acc Hf; cbn [fold_left]; [exact Hf|].
    apply IH. apply ains_Forall; assumption. }
  apply G. constructor.
Qed.

Lemma set_nth_Forall {A} (Q : A -> Prop) v : forall l i, Q v -> Forall Q l -> Forall Q (set_nth i v l).
Proof.
  induction l as [|x l IH]; intros i Hv Hl; destruct i; cbn [set_nth]; try assumption.
  - inversion Hl; subst. constructor; assumption.
  - inversion Hl; subst. constructor; [assumption|apply IH; assumption].
Qed.
Lemma nth_Forall {A} (Q : A -> Prop) d : forall l i, Q d -> Forall Q l -> Q (nth i l d).
Proof.
  induction l as [|x l IH]; intros i Hd Hl; destruct i; cbn [nth]; try assumption.
  - inversion Hl; assumption.
  - inversion Hl; subst. apply IH; assumption.
Qed.

(* keys of the tables *)
Definition Q1 {A} (n : nat) (e : N * A) : Prop := below n (fst e).
Definition Q2 {A} (n : nat) (e : N * N * A) : Prop := below n (fst (fst e)) /\ below n (snd (fst e)).

Lemma post_collect_i_val {A} bound (p : pv A) : post (Forall (Q1 bound)) (collect_i_val bound p).
Proof.
  unfold collect_i_val.
  eapply post_bind; [apply post_any|]. intros cnt _.
  eapply post_bind.
  - apply (post_repeatM (Q1 bound)).
    eapply post_bind; [apply post_any|]. intros parts _.
    eapply post_bind; [apply post_any|]. intros i _.
    eapply post_bind; [apply post_any|]. intros v _.
    eapply post_bind; [apply post_idx|]. intros k Hk.
    apply post_ret. exact Hk.
  - intros es Hes. apply post_ret. apply of_entries_Forall. exact Hes.
Qed.
Lemma post_collect_ij_val bound : post (Forall (Q2 bound)) (collect_ij_val bound).
Proof.
  unfold collect_ij_val.
  eapply post_bind; [apply post_any|]. intros cnt _.
  eapply post_bind.
  - apply (post_repeatM (Q2 bound)).
    eapply post_bind; [apply post_any|]. intros parts _.
    eapply post_bind; [apply post_any|]. intros i _.
    eapply post_bind; [apply post_any|]. intros j _.
    eapply post_bind; [apply post_any|]. intros v _.
    eapply post_bind; [apply post_idx|]. intros i' Hi.
    eapply post_bind; [apply post_idx|]. intros j' Hj.
    apply post_ret. split; assumption.
  - intros es Hes. apply post_ret. apply of_entries_Forall. exact Hes.
Qed.

Lemma put_in_inv {K} keqb (Q : K * num -> Prop) size out (mkv : N * K * num) :
  Q (snd (fst mkv), snd mkv) ->
  List.length out = size /\ Forall (Forall Q) out ->
  List.length (put_in keqb out mkv) = size /\ Forall (Forall Q) (put_in keqb out mkv).
Proof.
  intros Hq [Hl Hf]. unfold put_in. split.
  - rewrite set_nth_length. exact Hl.
  - apply set_nth_Forall; [|exact Hf]. apply ains_Forall; [exact Hq|].
    apply nth_Forall; [constructor|exact Hf].
Qed.
Lemma fold_put_in_inv {K} keqb (Q : K * num -> Prop) size (es : list (N * K * num)) :
  Forall (fun mkv => Q (snd (fst mkv), snd mkv)) es -> forall out,
  List.length out = size /\ Forall (Forall Q) out ->
  List.length (fold_left (put_in keqb) es out) = size /\
  Forall (Forall Q) (fold_left (put_in keqb) es out).
Proof.
  induction 1 as [|e es He Hes IH]; intros out Ho; cbn [fold_left]; [exact Ho|].
  apply IH. apply put_in_inv; assumption.
Qed.
Lemma repeat_nil_inv {A} (Q : A -> Prop) size :
  List.length (repeat (@nil A) size) = size /\ Forall (Forall Q) (repeat [] size).
Proof.
  split; [apply repeat_length|]. apply Forall_forall. intros x Hx.
  apply repeat_spec in Hx. subst x. constructor.
Qed.

Lemma post_collect_list_of_i_val size bound :
  post (fun out => List.length out = size /\ Forall (Forall (Q1 bound)) out)
       (collect_list_of_i_val size bound).
Proof.
  unfold collect_list_of_i_val.
  eapply post_bind; [apply post_any|]. intros cnt _.
  eapply post_bind.
  - apply (post_repeatM (fun mkv : N * N * num => Q1 bound (snd (fst mkv), snd mkv))).
    eapply post_bind; [apply post_any|]. intros parts _.
    eapply post_bind; [apply post_any|]. intros m _.
    eapply post_bind; [apply post_any|]. intros i _.
    eapply post_bind; [apply post_any|]. intros v _.
    eapply post_bind; [apply post_any|]. intros m' _.
    eapply post_bind; [apply post_idx|]. intros i' Hi.
    apply post_ret. exact Hi.
  - intros es Hes. apply post_ret. apply fold_put_in_inv; [exact Hes|apply repeat_nil_inv].
Qed.
Lemma post_collect_list_of_ij_val size bound :
  post (fun out => List.length out = size /\ Forall (Forall (Q2 bound)) out)
       (collect_list_of_ij_val size bound).
Proof.
  unfold collect_list_of_ij_val.
  eapply post_bind; [apply post_any|]. intros cnt _.
  eapply post_bind.
  - apply (post_repeatM (fun mkv : N * (N * N) * num => Q2 bound (snd (fst mkv), snd mkv))).
    eapply post_bind; [apply post_any|]. intros parts _.
    eapply post_bind; [apply post_any|]. intros m _.
    eapply post_bind; [apply post_any|]. intros i _.
    eapply post_bind; [apply post_any|]. intros j _.
    eapply post_bind; [apply post_any|]. intros v _.
    eapply post_bind; [apply post_any|]. intros m' _.
    eapply post_bind; [apply post_idx|]. intros i' Hi.
    eapply post_bind; [apply post_idx|]. intros j' Hj.
    apply post_ret. split; assumption.
  - intros es Hes. apply post_ret. apply fold_put_in_inv; [exact Hes|apply repeat_nil_inv].
Qed.
Lemma post_collect_list {A} size (p : pv A) :
  post (fun l => List.length l = size) (collect_list size p).
Proof.
  unfold collect_list.
  eapply post_bind; [apply post_any|]. intros d _.
  eapply post_bind; [apply post_any|]. intros cnt _.
  eapply post_bind; [apply post_any|]. intros es _. apply post_ret.
  assert (G : forall acc, List.length acc = size ->
            List.length (fold_left (fun out kv => set_nth (N.to_nat (fst kv)) (snd kv) out) es acc)
            = size).
  { induction es as [|e es IH]; intros acc Ha; cbn [fold_left]; [exact Ha|].
    apply IH. rewrite set_nth_length. exact Ha. }
  apply G. apply repeat_length.
Qed.

Lemma integer_to_binary_length : forall ts lb ub,
  List.length (integer_to_binary ts lb ub) = List.length ts.
Proof.
  induction ts as [|t ts IH]; intros lb ub; [reflexivity|].
  destruct lb as [|l lb]; [reflexivity|]. destruct ub as [|u ub]; [reflexivity|].
  cbn [integer_to_binary List.length]. rewrite IH. reflexivity.
Qed.

(* what a successfully read file satisfies (sizes of the dense vectors, ranges of all indices) *)
Definition file_wf (F : qfile) : Prop :=
  List.length (f_vtypes F) = f_nvars F /\ List.length (f_lb F) = f_nvars F /\
  List.length (f_ub F) = f_nvars F /\
  List.length (f_bs F) = f_ncons F /\ List.length (f_cl F) = f_ncons F /\
  List.length (f_cu F) = f_ncons F /\
  Forall (Q2 (f_nvars F)) (f_q0 F) /\ Forall (Q1 (f_nvars F)) (f_b0 F) /\
  Forall (Forall (Q2 (f_nvars F))) (f_qs F) /\ Forall (Forall (Q1 (f_nvars F))) (f_bs F).

Lemma post_read_body name : post file_wf (read_body name).
Proof.
  unfold read_body.
  eapply post_bind; [apply post_any|]. intros [[ok vk] ck] _.
  eapply post_bind; [apply post_any|]. intros sense _.
  eapply post_bind; [apply post_any|]. intros nv _.
  eapply post_bind.
  { instantiate (1 := fun ncs => has_cons ck = false -> ncs = 0%N).
    destruct (has_cons ck); [eapply post_weaken; [|apply post_any]; intros; discriminate|].
    apply post_ret. reflexivity. }
  intros ncs Hncs.
  eapply post_bind.
  { instantiate (1 := Forall (Q2 (N.to_nat nv))). destruct ok;
      try apply post_collect_ij_val. apply post_ret. constructor. }
  intros q0 Hq0.
  eapply post_bind; [apply post_any|]. intros b0d _.
  eapply post_bind; [apply post_collect_i_val|]. intros b0 Hb0.
  eapply post_bind; [apply post_any|]. intros q0c _.
  eapply post_bind.
  { instantiate (1 := Forall (Forall (Q2 (N.to_nat nv)))). destruct ck;
      try (apply post_ret; constructor);
      (eapply post_weaken; [|apply post_collect_list_of_ij_val]; intros a Ha; exact (proj2 Ha)). }
  intros qs Hqs.
  eapply post_bind.
  { instantiate (1 := fun out => List.length out = N.to_nat ncs /\ Forall (Forall (Q1 (N.to_nat nv))) out).
    destruct (has_cons ck); [apply post_collect_list_of_i_val|].
    apply post_ret. rewrite (Hncs eq_refl). split; [reflexivity|constructor]. }
  intros bs [Hbl Hbs].
  eapply post_bind; [apply post_any|]. intros inf _.
  eapply post_bind.
  { instantiate (1 := fun l => List.length l = N.to_nat ncs).
    destruct (has_cons ck); [apply post_collect_list|].
    apply post_ret. rewrite (Hncs eq_refl). reflexivity. }
  intros cl Hcl.
  eapply post_bind.
  { instantiate (1 := fun l => List.length l = N.to_nat ncs).
    destruct (has_cons ck); [apply post_collect_list|].
    apply post_ret. rewrite (Hncs eq_refl). reflexivity. }
  intros cu Hcu.
  eapply post_bind.
  { instantiate (1 := fun l => List.length l = N.to_nat nv). destruct vk;
      try apply post_collect_list. apply post_ret. apply repeat_length. }
  intros lb Hlb.
  eapply post_bind.
  { instantiate (1 := fun l => List.length l = N.to_nat nv). destruct vk;
      try apply post_collect_list. apply post_ret. apply repeat_length. }
  intros ub Hub.
  eapply post_bind.
  { instantiate (1 := fun l => match vk with VM | VG => List.length l = N.to_nat nv | _ => True end).
    destruct vk; try (apply post_ret; exact Logic.I); apply post_collect_list. }
  intros listed Hlisted.
  eapply post_bind; [apply post_any|]. intros x0d _.
  eapply post_bind; [apply post_any|]. intros x0 _.
  eapply post_bind; [apply post_any|]. intros y0 _.
  eapply post_bind; [apply post_any|]. intros z0d _.
  eapply post_bind; [apply post_any|]. intros z0 _.
  eapply post_bind; [apply post_any|]. intros vnames _.
  eapply post_bind; [apply post_any|]. intros cnames _.
  apply post_ret. unfold file_wf. cbn.
  repeat split; try assumption.
  destruct vk; cbn [resolve_types]; rewrite ?integer_to_binary_length, ?repeat_length; auto.
Qed.

Lemma from_lines_wf ls F : from_lines ls = Ok F -> file_wf F.
Proof.
  unfold from_lines. destruct (read_file (ls, 0%nat)) as [[F' c]|] eqn:E; [|discriminate].
  intro H. inversion H; subst F'. clear H.
  revert E. unfold read_file. apply (post_bind (fun _ => True)); [apply post_any|].
  intros name _. apply post_read_body.
Qed.

(* ---- conversion ---- *)
Lemma zip3e_length {A B C} : forall (a : list A) (b : list B) (c : list C) n,
  List.length a = n -> List.length b = n -> List.length c = n -> List.length (zip3e a b c) = n.
Proof.
  induction a as [|x a IH]; intros b c n Ha Hb Hc; destruct b, c; cbn in *; try lia.
  destruct n; [lia|]. f_equal. apply IH; lia.
Qed.
Lemma zip3e_in1 {A B C} : forall (a : list A) (b : list B) (c : list C) x y z,
  In (x, y, z) (zip3e a b c) -> In x a.
Proof.
  induction a as [|x0 a IH]; intros b c x y z H; destruct b, c; cbn in H; try contradiction.
  destruct H as [H|H]; [inversion H; left; reflexivity|right; eapply IH; exact H].
Qed.
Lemma map_fst_enumerate {A} (l : list A) : forall k, map fst (enumerate_from k l) = seq k (List.length l).
Proof. induction l as [|x l IH]; intro k; cbn; [reflexivity|]. rewrite IH. reflexivity. Qed.

Lemma dvar_ids F : file_wf F ->
  map dv_id (convert_dvars F) = map N.of_nat (seq 0 (f_nvars F)).
Proof.
  intros (Hv & Hl & Hu & _). unfold convert_dvars. rewrite map_map.
  rewrite <- (zip3e_length _ _ _ _ Hv Hl Hu) at 1.
  rewrite <- (map_fst_enumerate (zip3e (f_vtypes F) (f_lb F) (f_ub F)) 0), map_map.
  apply map_ext. intros [i [[t l] u]]. reflexivity.
Qed.
Lemma dvar_id_in F i : file_wf F -> below (f_nvars F) i -> In i (map dv_id (convert_dvars F)).
Proof.
  intros HF Hi. rewrite (dvar_ids F HF). apply in_map_iff. exists (N.to_nat i).
  split; [apply N2Nat.id|]. apply in_seq. unfold below in Hi. lia.
Qed.

Definition fn_used := Ommx.Transform.fn_used.

Lemma wrap_used quad lin c i : In i (fn_used (wrap_function quad lin c)) ->
  In i (map fst lin) \/ In i (map (fun e => fst (fst e)) quad) \/ In i (map (fun e => snd (fst e)) quad).
Proof.
  unfold wrap_function. destruct quad as [|e quad].
  - destruct lin; cbn; [intros []|]. intro H. left. exact H.
  - cbn [fn_used Transform.fn_used q_lin q_cols q_rows l_terms]. intro H.
    apply in_app_or in H. destruct H as [H|H]; [left; exact H|].
    apply in_app_or in H. destruct H as [H|H]; [right; right; exact H|right; left; exact H].
Qed.

Definition used_below (n : nat) (f : function) : Prop := forall i, In i (fn_used f) -> below n i.

Lemma wrap_below n quad lin c : Forall (Q2 n) quad -> Forall (Q1 n) lin ->
  used_below n (wrap_function quad lin c).
Proof.
  intros Hq Hl i Hi. apply wrap_used in Hi. rewrite Forall_forall in Hq, Hl.
  destruct Hi as [H|[H|H]]; apply in_map_iff in H; destruct H as (e & <- & He).
  - apply (Hl e He).
  - apply (Hq e He).
  - apply (Hq e He).
Qed.
Lemma to_quadratic_Q2 n q : Forall (Q2 n) q -> Forall (Q2 n) (to_quadratic q).
Proof.
  unfold to_quadratic. intro H. apply Forall_forall. intros e He. apply in_map_iff in He.
  destruct He as ([[i j] v] & <- & He). rewrite Forall_forall in H. exact (H _ He).
Qed.
Lemma neg_quad_Q2 n q : Forall (Q2 n) q -> Forall (Q2 n) (neg_quad q).
Proof.
  unfold neg_quad. intro H. apply Forall_forall. intros e He. apply in_map_iff in He.
  destruct He as (e0 & <- & He). rewrite Forall_forall in H. exact (H _ He).
Qed.
Lemma neg_lin_Q1 n q : Forall (Q1 (A:=num) n) q -> Forall (Q1 n) (neg_lin q).
Proof.
  unfold neg_lin. intro H. apply Forall_forall. intros e He. apply in_map_iff in He.
  destruct He as (e0 & <- & He). rewrite Forall_forall in H. exact (H _ He).
Qed.

Lemma objective_below F : file_wf F -> used_below (f_nvars F) (convert_objective F).
Proof.
  intros (_ & _ & _ & _ & _ & _ & Hq0 & Hb0 & _). unfold convert_objective.
  apply wrap_below; [apply to_quadratic_Q2; exact Hq0|].
  destruct (qeqb (f_b0d F) 0); [exact Hb0|]. unfold dense_b0.
  apply Forall_forall. intros x Hx. apply filter_In in Hx. destruct Hx as [Hx _]. revert x Hx.
  apply Forall_forall.
  assert (G : forall es base, Forall (Q1 (f_nvars F)) es -> Forall (Q1 (f_nvars F)) base ->
     Forall (Q1 (f_nvars F)) (fold_left (fun ts (ic : N * num) => set_nth (N.to_nat (fst ic)) (fst ic, snd ic) ts) es base)).
  { induction es as [|e es IH]; intros base He Hb; cbn [fold_left]; [exact Hb|].
    inversion He; subst. apply IH; [assumption|]. apply set_nth_Forall; assumption. }
  apply G; [exact Hb0|]. apply Forall_forall. intros x Hx. apply in_map_iff in Hx.
  destruct Hx as (i & <- & Hi). apply in_seq in Hi. unfold Q1, below. cbn [fst]. lia.
Qed.

(* the constraints: ids and used variables *)
Definition row_fun (F : qfile) (x : nat * (list (N * num) * ext * ext)) : option (list cons) :=
  let '(i, (bs, lo, up)) := x in
  convert_constraint F i bs (thr_lo (f_inf F) lo) (thr_hi (f_inf F) up).

Lemma convert_constraint_inv F i bs lo up l : convert_constraint F i bs lo up = Some l ->
  Forall (Q1 (f_nvars F)) bs -> Forall (Forall (Q2 (f_nvars F))) (f_qs F) ->
  (i < f_ncons F)%nat ->
  NoDup (map c_id l) /\
  Forall (fun c => (c_id c = N.of_nat i \/ c_id c = N.of_nat (f_ncons F + i)) /\
                   used_below (f_nvars F) (c_fn c)) l.
Proof.
  intros H Hbs Hqs Hi. unfold convert_constraint in H.
  assert (Hquad : Forall (Q2 (f_nvars F)) (to_quadratic (nth i (f_qs F) []))).
  { apply to_quadratic_Q2. apply nth_Forall; [constructor|exact Hqs]. }
  set (quad := to_quadratic (nth i (f_qs F) [])) in *.
  assert (Hne : N.of_nat i <> N.of_nat (f_ncons F + i)) by lia.
  destruct up as [|cu| |]; try discriminate H; destruct lo as [|cl| |]; try discriminate H;
    inversion H; subst l; clear H; cbn [app map c_id].
  - split; [constructor; [intros []|constructor]|].
    constructor; [|constructor]. cbn [c_id c_fn]. split; [left; reflexivity|].
    apply wrap_below; assumption.
  - split; [constructor; [intros [E|[]]; congruence|constructor; [intros []|constructor]]|].
    constructor; [|constructor; [|constructor]]; cbn [c_id c_fn].
    + split; [left; reflexivity|]. apply wrap_below; assumption.
    + split; [right; reflexivity|]. apply wrap_below; [apply neg_quad_Q2|apply neg_lin_Q1]; assumption.
  - split; constructor.
  - split; [constructor; [intros []|constructor]|].
    constructor; [|constructor]. cbn [c_id c_fn]. split; [right; reflexivity|].
    apply wrap_below; [apply neg_quad_Q2|apply neg_lin_Q1]; assumption.
Qed.

Lemma constraints_inv F : Forall (Forall (Q2 (f_nvars F))) (f_qs F) ->
  forall l k cs,
  (k + List.length l <= f_ncons F)%nat ->
  Forall (fun x : list (N * num) * ext * ext => Forall (Q1 (f_nvars F)) (fst (fst x))) l ->
  concat_opt (map (row_fun F) (enumerate_from k l)) = Some cs ->
  NoDup (map c_id cs) /\
  Forall (fun c => (exists j, (k <= j < k + List.length l)%nat /\
                      (c_id c = N.of_nat j \/ c_id c = N.of_nat (f_ncons F + j))) /\
                   used_below (f_nvars F) (c_fn c)) cs.
Proof.
  intros Hqs. induction l as [|[[bs lo] up] l IH]; intros k cs Hk Hl H.
  - cbn in H. inversion H; subst. split; constructor.
  - cbn [enumerate_from map concat_opt] in H. cbn [List.length] in Hk.
    destruct (row_fun F (k, (bs, lo, up))) as [a|] eqn:Ea; [|discriminate H].
    destruct (concat_opt (map (row_fun F) (enumerate_from (S k) l))) as [b|] eqn:Eb; [|discriminate H].
    inversion H; subst cs; clear H. inversion Hl as [|? ? Hbs Hl']; subst.
    cbn [fst] in Hbs. cbn [row_fun] in Ea.
    apply convert_constraint_inv in Ea; [|assumption|assumption|lia].
    destruct Ea as [Na Fa]. specialize (IH (S k) b ltac:(lia) Hl' Eb). destruct IH as [Nb Fb].
    rewrite Forall_forall in Fa, Fb. split.
    + rewrite map_app. apply NoDup_app_disj; try assumption.
      intros id Ha Hb'. apply in_map_iff in Ha. destruct Ha as (ca & Eca & Ha).
      apply in_map_iff in Hb'. destruct Hb' as (cb & Ecb & Hb').
      destruct (Fa _ Ha) as [Ia _]. destruct (Fb _ Hb') as [(j & Hj & Ib) _].
      rewrite Eca in Ia. rewrite Ecb in Ib. destruct Ia, Ib; lia.
    + apply Forall_forall. intros c Hc. apply in_app_or in Hc. destruct Hc as [Hc|Hc].
      * destruct (Fa _ Hc) as [Ia Ua]. split; [|exact Ua]. exists k. cbn [List.length]. split; [lia|exact Ia].
      * destruct (Fb _ Hc) as [(j & Hj & Ib) Ub]. split; [|exact Ub]. exists j. cbn [List.length].
        split; [lia|exact Ib].
Qed.

(* ---- the three C08 facts on the reader's own record (choice (b)) ---- *)
Definition inst_used (R : inst) : list N :=
  fn_used (i_obj R) ++ flat_map (fun c => fn_used (c_fn c)) (i_cons R).
Definition inst_wf (R : inst) : Prop :=
  NoDup (map dv_id (i_vars R)) /\ NoDup (map c_id (i_cons R)) /\
  (forall i, In i (inst_used R) -> In i (map dv_id (i_vars R))).

Theorem convert_wf F R : file_wf F -> convert F = Some R -> inst_wf R.
Proof.
  intros HF H. unfold convert in H. destruct (convert_constraints F) as [cs|] eqn:E; [|discriminate H].
  inversion H; subst R; clear H. unfold inst_wf, inst_used. cbn [i_vars i_cons i_obj].
  pose proof HF as (Hv & Hl & Hu & Hbl & Hcl & Hcu & Hq0 & Hb0 & Hqs & Hbs).
  assert (E' : concat_opt (map (row_fun F) (enumerate_from 0 (zip3e (f_bs F) (f_cl F) (f_cu F)))) = Some cs).
  { rewrite <- E. reflexivity. }
  apply constraints_inv in E'; [|exact Hqs| |].
  - destruct E' as [Nc Fc]. split; [rewrite (dvar_ids F HF); apply NoDup_map_of_nat_seq|].
    split; [exact Nc|]. intros i Hi. apply dvar_id_in; [exact HF|].
    apply in_app_or in Hi. destruct Hi as [Hi|Hi].
    + apply (objective_below F HF i Hi).
    + apply in_flat_map in Hi. destruct Hi as (c & Hc & Hi). rewrite Forall_forall in Fc.
      apply (proj2 (Fc c Hc) i Hi).
  - rewrite (zip3e_length _ _ _ _ Hbl Hcl Hcu). lia.
  - apply Forall_forall. intros [[bs lo] up] Hx. cbn [fst]. apply zip3e_in1 in Hx.
    rewrite Forall_forall in Hbs. apply Hbs. exact Hx.
Qed.

(* MAIN THEOREM (QPLIB, choice (b)): whatever the reader model accepts is well formed *)
Theorem qplib_load_wf : forall ls R, load ls = Loaded R -> inst_wf R.
Proof.
  intros ls R H. unfold load in H. destruct (from_lines ls) as [F|l k] eqn:E.
  - destruct (convert F) as [ins|] eqn:C; [|discriminate H]. inversion H; subst ins.
    apply (convert_wf F R (from_lines_wf ls F E) C).
  - destruct k; discriminate H.
Qed.

(* ---- choice (a): the obvious conversion into Inst.v's instance, ids and functions verbatim;
   names travel as opaque metadata, every QPLIB constraint is "<= 0" ---- *)
Definition e_optstr (o : option string) : Tree.tree :=
  match o with Some s => Tree.L [Tree.A s] | None => Tree.L [] end.
Definition to_dvar (v : dvar) : Inst.dvar :=
  {| Inst.dv_id := dv_id v;
     Inst.dv_kind := match dv_kind v with TBin => Inst.KIND_BINARY | TInt => Inst.KIND_INTEGER
                                        | TCont => Inst.KIND_CONTINUOUS end;
     Inst.dv_bound := Some (dv_lower v, dv_upper v); Inst.dv_subst := None;
     Inst.dv_meta := [e_optstr (dv_name v); Tree.L []; Tree.L []; Tree.L []] |}.
Definition to_constr (c : cons) : Inst.constr :=
  {| Inst.c_id := c_id c; Inst.c_eq := Inst.LE_ZERO; Inst.c_fn := Some (c_fn c);
     Inst.c_meta := [e_optstr (Some (c_name c)); Tree.L []; Tree.L []; Tree.L []] |}.
Definition to_instance (R : inst) : Inst.instance :=
  {| Inst.i_sense := match i_sense R with Minimize => Inst.SENSE_MIN | Maximize => Inst.SENSE_MAX end;
     Inst.i_obj := Some (i_obj R);
     Inst.i_dvs := map to_dvar (i_vars R);
     Inst.i_cs := map to_constr (i_cons R);
     Inst.i_rs := []; Inst.i_deps := []; Inst.i_params := None;
     Inst.i_hints := Tree.L []; Inst.i_desc := e_optstr (i_name R) |}.

Lemma to_instance_valid R : inst_wf R -> Validate.validate (to_instance R) = true.
Proof.
  intros (Hv & Hc & Hu). apply ValidateProofs.validate_iff.
  unfold Relax.all_constrs, Validate.inst_used. cbn [to_instance Inst.i_dvs Inst.i_cs Inst.i_rs Inst.i_obj
    Relax.removed_constrs Inst.fn_or_zero flat_map]. rewrite !app_nil_r, !map_map.
  cbn [to_dvar to_constr Inst.dv_id Inst.c_id].
  split; [exact Hv|]. split; [exact Hc|]. intros i Hi. apply Hu. unfold inst_used.
  apply in_app_or in Hi. apply in_or_app. destruct Hi as [Hi|Hi]; [left; exact Hi|right].
  rewrite flat_map_concat_map, map_map, <- flat_map_concat_map in Hi. exact Hi.
Qed.

Theorem qplib_load_valid : forall ls R, load ls = Loaded R -> Validate.validate (to_instance R) = true.
Proof. intros ls R H. apply to_instance_valid. apply (qplib_load_wf ls R H). Qed.

(* non-vacuity: the example of the QPLIB paper loads, has 3 variables and 2 constraints, and its
   image validates *)
Example qplib_nonvacuous :
  match load mipband with
  | Loaded R => map dv_id (i_vars R) = [0; 1; 2]%N /\ map c_id (i_cons R) = [2; 3]%N /\
                Validate.validate (to_instance R) = true
  | _ => False
  end.
Proof. vm_compute. repeat split. Qed.

End QplibWf.

(* ====================================================================== *)
(*                                  MPS                                    *)
(* ====================================================================== *)
Module MpsWf.
Import Ommx.Num Ommx.Poly Ommx.Msg Ommx.Mps Ommx.MpsProofs.
Close Scope string_scope. Close Scope Qc_scope. Open Scope list_scope.

Definition fn_used := Ommx.Transform.fn_used.

(* ---- the three C08 facts on the reader's own record ---- *)
Definition inst_used (R : inst) : list N :=
  fn_used (in_obj R) ++ flat_map (fun c => fn_used (cn_fn c)) (in_cons R).
Definition vars_distinct (R : inst) : Prop := NoDup (map dv_id (in_dvars R)).
Definition cons_distinct (R : inst) : Prop := NoDup (map cn_id (in_cons R)).
Definition used_defined (R : inst) : Prop :=
  forall i, In i (inst_used R) -> In i (map dv_id (in_dvars R)).
Definition inst_wf (R : inst) : Prop := vars_distinct R /\ cons_distinct R /\ used_defined R.

(* ---- the id assignment of convert.rs, as a function of the list of names ---- *)
Definition tag_of (prefix x : string) : list N :=
  match parse_id_tag prefix x with Some i => [i] | None => [] end.
Definition tags (prefix : string) (names : list string) : list N := flat_map (tag_of prefix) names.
Definition some_untagged (prefix : string) (names : list string) : bool :=
  existsb (fun x => match parse_id_tag prefix x with None => true | Some _ => false end) names.
(* positions if some name is foreign, the recovered numbers if every name carries the tag *)
Definition assigned_ids (prefix : string) (names : list string) : list N :=
  if some_untagged prefix names then map fst (enumerate_from 0%N names) else tags prefix names.

Lemma enumerate_ge {X} (l : list X) : forall i j, In j (map fst (enumerate_from i l)) -> (i <= j)%N.
Proof.
  induction l as [|x l IH]; intros i j H; cbn in H; [contradiction|].
  destruct H as [<-|H]; [lia|]. apply IH in H. lia.
Qed.
Lemma enumerate_nodup {X} (l : list X) : forall i, NoDup (map fst (enumerate_from i l)).
Proof.
  induction l as [|x l IH]; intro i; cbn; constructor; [|apply IH].
  intro H. apply enumerate_ge in H. lia.
Qed.

Lemma dvar_ids c : map dv_id (fst (convert_dvars c)) = assigned_ids VAR_PREFIX (c_vars c).
Proof.
  unfold convert_dvars, assigned_ids, some_untagged.
  destruct (existsb _ (c_vars c)); cbn [fst]; rewrite map_map; cbn [dv_id]; [reflexivity|].
  unfold tags. induction (c_vars c) as [|x l IH]; [reflexivity|].
  cbn [flat_map]. rewrite !map_app, IH. f_equal. unfold tag_of.
  destruct (parse_id_tag VAR_PREFIX x); reflexivity.
Qed.
Lemma dvar_idmap c : map snd (snd (convert_dvars c)) = map dv_id (fst (convert_dvars c)).
Proof.
  unfold convert_dvars. destruct (existsb _ (c_vars c)); cbn [fst snd]; rewrite !map_map; reflexivity.
Qed.

(* ---- used ids are defined: every id comes out of the name -> id map ---- *)
Lemma lookup_in_snd {V} x (ids : list (string * V)) i : lookup x ids = Some i -> In i (map snd ids).
Proof.
  induction ids as [|[k v] ids IH]; cbn [lookup map snd In]; [discriminate|].
  destruct (String.eqb x k); [intro H; inversion H; left; reflexivity|intro H; right; apply IH; exact H].
Qed.
Lemma convert_terms_in ids : forall l ts, convert_terms ids l = Ok ts ->
  forall i, In i (map fst ts) -> In i (map snd ids).
Proof.
  induction l as [|[x q] l IH]; intros ts H i Hi; cbn [convert_terms] in H.
  - inversion H; subst. contradiction.
  - destruct (lookup x ids) as [j|] eqn:E; [|discriminate H].
    destruct (convert_terms ids l) as [ts'|] eqn:E'; cbn [rbind] in H; [|discriminate H].
    inversion H; subst ts. cbn [map fst In] in Hi. destruct Hi as [<-|Hi].
    + eapply lookup_in_snd; exact E.
    + eapply IH; [reflexivity|exact Hi].
Qed.
Lemma mk_function_used ts c i : In i (fn_used (mk_function ts c)) -> In i (map fst ts).
Proof. unfold mk_function. destruct ts; cbn; [intros []|auto]. Qed.
Lemma neg_terms_fst ts : map fst (neg_terms ts) = map fst ts.
Proof. unfold neg_terms. rewrite map_map. reflexivity. Qed.

Lemma convert_constraint_inv r ids id name row entries c :
  convert_constraint r ids id name row entries = Ok c ->
  cn_id c = id /\ forall i, In i (fn_used (cn_fn c)) -> In i (map snd ids).
Proof.
  unfold convert_constraint. destruct (convert_terms ids entries) as [ts|] eqn:E; cbn [rbind]; [|discriminate].
  pose proof (convert_terms_in ids entries ts E) as Hts.
  destruct (convert_row_type r row); cbn [convert_inequality]; intro H; inversion H; subst c; cbn [cn_id cn_fn];
    (split; [reflexivity|]); intros i Hi; apply mk_function_used in Hi; rewrite ?neg_terms_fst in Hi;
    apply Hts; exact Hi.
Qed.

Lemma rmap_inv {X Y} (f : X -> res Y) : forall l ys, rmap f l = Ok ys ->
  Forall2 (fun x y => f x = Ok y) l ys.
Proof.
  induction l as [|x l IH]; intros ys H; cbn [rmap] in H.
  - inversion H; subst. constructor.
  - destruct (f x) as [y|] eqn:E; cbn [rbind] in H; [|discriminate H].
    destruct (rmap f l) as [ys'|] eqn:E'; cbn [rbind] in H; [|discriminate H].
    inversion H; subst ys. constructor; [exact E|apply IH; reflexivity].
Qed.

Lemma tags_of_pairs {V} prefix (a : list (string * V)) :
  map fst (flat_map (fun e => match parse_id_tag prefix (fst e) with
                              | Some i => [(i, e)] | None => [] end) a)
  = tags prefix (map fst a).
Proof.
  unfold tags. induction a as [|e a IH]; [reflexivity|]. cbn [flat_map map].
  rewrite map_app, IH. f_equal. unfold tag_of. destruct (parse_id_tag prefix (fst e)); reflexivity.
Qed.

Lemma convert_constraints_inv r ids cs : convert_constraints r ids = Ok cs ->
  map cn_id cs = assigned_ids CONSTR_PREFIX (map fst (r_a r)) /\
  Forall (fun c => forall i, In i (fn_used (cn_fn c)) -> In i (map snd ids)) cs.
Proof.
  unfold convert_constraints, assigned_ids, some_untagged. rewrite existsb_map'.
  destruct (existsb _ (r_a r)); intro H; apply rmap_inv in H.
  - assert (G : forall l cs, Forall2 (fun (x : N * (string * list (string * num))) y =>
        convert_constraint r ids (fst x) (Some (fst (snd x))) (fst (snd x)) (snd (snd x)) = Ok y) l cs ->
        map cn_id cs = map fst l /\
        Forall (fun c => forall i, In i (fn_used (cn_fn c)) -> In i (map snd ids)) cs).
    { induction 1 as [|x y l ys Hxy Hl IH]; [split; [reflexivity|constructor]|].
      apply convert_constraint_inv in Hxy. destruct Hxy as [Hid Hu]. destruct IH as [I1 I2].
      split; [cbn [map]; rewrite Hid, I1; reflexivity|constructor; assumption]. }
    apply G in H. destruct H as [H1 H2]. split; [|exact H2]. rewrite H1.
    clear. generalize 0%N. induction (r_a r) as [|e a IH]; intro k; [reflexivity|].
    cbn [enumerate_from map fst]. rewrite IH. reflexivity.
  - assert (G : forall l cs, Forall2 (fun (x : N * (string * list (string * num))) y =>
        convert_constraint r ids (fst x) None (fst (snd x)) (snd (snd x)) = Ok y) l cs ->
        map cn_id cs = map fst l /\
        Forall (fun c => forall i, In i (fn_used (cn_fn c)) -> In i (map snd ids)) cs).
    { induction 1 as [|x y l ys Hxy Hl IH]; [split; [reflexivity|constructor]|].
      apply convert_constraint_inv in Hxy. destruct Hxy as [Hid Hu]. destruct IH as [I1 I2].
      split; [cbn [map]; rewrite Hid, I1; reflexivity|constructor; assumption]. }
    apply G in H. destruct H as [H1 H2]. split; [|exact H2]. rewrite H1. apply tags_of_pairs.
Qed.

(* what [convert] gives, for ANY table: the ids are the assigned ones, and every used id is defined *)
Theorem convert_ids m R : convert m = Ok R ->
  map dv_id (in_dvars R) = assigned_ids VAR_PREFIX (c_vars (m_cols m)) /\
  map cn_id (in_cons R) = assigned_ids CONSTR_PREFIX (map fst (r_a (m_rows m))) /\
  used_defined R.
Proof.
  unfold convert. pose proof (dvar_ids (m_cols m)) as Hd. pose proof (dvar_idmap (m_cols m)) as Hm.
  destruct (convert_dvars (m_cols m)) as [dvs ids]. cbn [fst snd] in Hd, Hm.
  destruct (convert_objective m ids) as [obj|] eqn:Eo; cbn [rbind]; [|discriminate].
  destruct (convert_constraints (m_rows m) ids) as [cs|] eqn:Ec; cbn [rbind]; [|discriminate].
  intro H. inversion H; subst R; clear H. unfold used_defined, inst_used. cbn [in_dvars in_cons in_obj].
  apply convert_constraints_inv in Ec. destruct Ec as [Ec1 Ec2].
  split; [exact Hd|]. split; [exact Ec1|]. intros i Hi. rewrite <- Hm.
  apply in_app_or in Hi. destruct Hi as [Hi|Hi].
  - unfold convert_objective in Eo. destruct (convert_terms ids (m_c m)) as [ts|] eqn:Et; cbn [rbind] in Eo;
      [|discriminate Eo]. inversion Eo; subst obj. apply mk_function_used in Hi.
    eapply convert_terms_in; [exact Et|exact Hi].
  - apply in_flat_map in Hi. destruct Hi as (c & Hc & Hi). rewrite Forall_forall in Ec2.
    apply (Ec2 c Hc i Hi).
Qed.

(* (3) used ids are defined: unconditional *)
Theorem mps_load_used_defined : forall lines R, load_lines lines = Ok R -> used_defined R.
Proof.
  intros lines R H. unfold load_lines in H. destruct (parse_lines lines) as [m|]; cbn [rbind] in H;
    [|discriminate H]. apply (convert_ids m R H).
Qed.

(* ---- when are the assigned ids pairwise distinct? ---- *)
(* no two DIFFERENT names of the list carry the same number *)
Definition tag_inj (prefix : string) (names : list string) : Prop :=
  forall x y i, In x names -> In y names ->
    parse_id_tag prefix x = Some i -> parse_id_tag prefix y = Some i -> x = y.
(* ... required only when the id-recovery branch is taken (every name carries the tag) *)
Definition ids_ok (prefix : string) (names : list string) : Prop :=
  some_untagged prefix names = false -> tag_inj prefix names.

Lemma in_tags prefix names i :
  In i (tags prefix names) <-> exists x, In x names /\ parse_id_tag prefix x = Some i.
Proof.
  unfold tags. rewrite in_flat_map. unfold tag_of. split; intros (x & Hx & H); exists x; (split; [exact Hx|]).
  - destruct (parse_id_tag prefix x) as [j|]; [|contradiction]. destruct H as [<-|[]]. reflexivity.
  - rewrite H. left. reflexivity.
Qed.
Lemma tags_nodup prefix names : NoDup names -> tag_inj prefix names -> NoDup (tags prefix names).
Proof.
  induction names as [|a l IH]; intros Hn Hi; [constructor|].
  inversion Hn as [|? ? Ha Hl]; subst.
  assert (IHl : NoDup (tags prefix l)).
  { apply IH; [exact Hl|]. intros x y i Hx Hy. apply Hi; right; assumption. }
  unfold tags. cbn [flat_map]. fold (tags prefix l). unfold tag_of at 1.
  destruct (parse_id_tag prefix a) as [i|] eqn:E; cbn [app]; [|exact IHl].
  constructor; [|exact IHl]. intro Hin. apply in_tags in Hin. destruct Hin as (y & Hy & Ey).
  assert (a = y) by (apply (Hi a y i); [left; reflexivity|right; exact Hy|exact E|exact Ey]).
  subst y. contradiction.
Qed.
Lemma tags_nodup_inv prefix names : NoDup (tags prefix names) -> tag_inj prefix names.
Proof.
  induction names as [|a l IH]; intros Hn x y i Hx Hy Ex Ey; [destruct Hx|].
  unfold tags in Hn. cbn [flat_map] in Hn. fold (tags prefix l) in Hn.
  assert (Hl : NoDup (tags prefix l)) by (eapply NoDup_app_r; exact Hn).
  destruct Hx as [<-|Hx], Hy as [<-|Hy]; [reflexivity| | |apply (IH Hl x y i); assumption]; exfalso.
  - unfold tag_of in Hn. rewrite Ex in Hn. cbn [app] in Hn. inversion Hn as [|? ? Hni _]; subst.
    apply Hni. apply in_tags. exists y. split; assumption.
  - unfold tag_of in Hn. rewrite Ey in Hn. cbn [app] in Hn. inversion Hn as [|? ? Hni _]; subst.
    apply Hni. apply in_tags. exists x. split; assumption.
Qed.
Lemma assigned_nodup prefix names : NoDup names ->
  (NoDup (assigned_ids prefix names) <-> ids_ok prefix names).
Proof.
  intro Hn. unfold assigned_ids, ids_ok. destruct (some_untagged prefix names).
  - split; [discriminate|]. intros _. apply enumerate_nodup.
  - split; [intros H _; apply tags_nodup_inv; exact H|intro H; apply tags_nodup; auto].
Qed.

(* [parse_id_tag] only accepts the canonical decimal rendering of a number after the prefix
   (convert.rs: `id.to_string() == digits`), so the name IS determined by the number it carries
   (MpsProofs.parse_id_tag_canonical): no two different names carry the same number, whatever
   the list of names is *)
Lemma tag_inj_all prefix names : tag_inj prefix names.
Proof. intros x y i _ _ Ex Ey. exact (parse_id_tag_inj prefix x y i Ex Ey). Qed.
Lemma ids_ok_all prefix names : ids_ok prefix names.
Proof. intros _. apply tag_inj_all. Qed.

(* ---- the parser keeps both name tables duplicate-free ---- *)
Definition minv (m : mps) : Prop := NoDup (c_vars (m_cols m)) /\ keys_nodup (r_a (m_rows m)).

Lemma smem_of_in k l : In k l -> smem k l = true.
Proof.
  intro H. unfold smem. apply existsb_exists. exists k. split; [exact H|apply String.eqb_refl].
Qed.
Lemma sadd_nodup k l : NoDup l -> NoDup (sadd k l).
Proof.
  intro H. unfold sadd. destruct (smem k l) eqn:E; [exact H|].
  apply NoDup_app_disj; [exact H|constructor; [intros []|constructor]|].
  intros x Hx [<-|[]]. apply smem_of_in in Hx. congruence.
Qed.

Lemma add_row_inv ty name free m : minv m -> minv (fst (add_row ty name free m)).
Proof.
  intros [H1 H2]. unfold add_row.
  destruct ty; try (cbn [fst m_cols m_rows r_a]; split; [exact H1|apply insert_nodup; exact H2]).
  destruct (sempty (m_obj m)); [split; assumption|].
  destruct (String.eqb name (m_obj m)); split; assumption.
Qed.
Lemma add_coef_inv free col rv m m' : add_coef free col rv m = Ok m' -> minv m -> minv m'.
Proof.
  destruct rv as [row v]. unfold add_coef. destruct (read_fin v) as [q|]; cbn [rbind]; [|discriminate].
  destruct (String.eqb row (m_obj m)); [intro H; inversion H; subst m'; intro G; exact G|].
  destruct (smem row free); [intro H; inversion H; subst m'; intro G; exact G|].
  destruct (lookup row (r_a (m_rows m))) as [entries|]; [|discriminate].
  intro H; inversion H; subst m'. intros [H1 H2]. split; [exact H1|].
  cbn [m_rows r_a]. apply insert_nodup. exact H2.
Qed.
Lemma add_coefs_inv free col : forall l m m', add_coefs free col l m = Ok m' -> minv m -> minv m'.
Proof.
  induction l as [|rv l IH]; intros m m' H Hm; cbn [add_coefs] in H.
  - inversion H; subst. exact Hm.
  - destruct (add_coef free col rv m) as [m1|] eqn:E; cbn [rbind] in H; [|discriminate H].
    eapply IH; [exact H|]. eapply add_coef_inv; [exact E|exact Hm].
Qed.
Lemma declare_col_inv col b m : minv m -> minv (declare_col col b m).
Proof. intros [H1 H2]. split; [cbn [declare_col m_cols c_vars]; apply sadd_nodup; exact H1|exact H2]. Qed.
Lemma fold_add_rhs_inv ps : forall m, minv m -> minv (fold_left add_rhs ps m).
Proof.
  induction ps as [|p ps IH]; intros m Hm; cbn [fold_left]; [exact Hm|]. apply IH.
  destruct Hm as [H1 H2]. split; assumption.
Qed.
Lemma add_range_inv m rv m' : add_range m rv = Ok m' -> minv m -> minv m'.
Proof.
  destruct rv as [row rg]. unfold add_range. destruct (qeqb rg 0); [discriminate|].
  destruct (lookup row (r_a (m_rows m))) as [entries|]; [|discriminate].
  intro H; inversion H; subst m'; clear H. intros [H1 H2]. split; [exact H1|].
  cbn [m_rows].
  match goal with |- keys_nodup (r_a ?r') =>
    assert (E : r_a r' = insert (fresh_row_name (S (S (List.length (r_a (m_rows m))))) (r_a (m_rows m))
                                 (m_obj m) (sapp row "_"%string)) entries (r_a (m_rows m))) end.
  { destruct (range_rule _ _ _) as [[[ty1 ty2] b2]|]; [|reflexivity].
    destruct (row_type (m_rows m) row); reflexivity. }
  rewrite E. apply insert_nodup. exact H2.
Qed.
Lemma add_range_fields_inv : forall l,
  (forall m m', add_range_fields l m = Ok m' -> minv m -> minv m') /\
  (forall x m m', add_range_fields (x :: l) m = Ok m' -> minv m -> minv m').
Proof.
  induction l as [|a l [IH1 IH2]]; split.
  - intros m m' H Hm. inversion H; subst. exact Hm.
  - intros x m m' H. discriminate H.
  - exact (IH2 a).
  - intros x m m' H Hm. cbn [add_range_fields] in H.
    destruct (read_fin a) as [q|]; cbn [rbind] in H; [|discriminate H].
    destruct (add_range m (x, q)) as [m1|] eqn:E; cbn [rbind] in H; [|discriminate H].
    eapply IH1; [exact H|]. eapply add_range_inv; [exact E|exact Hm].
Qed.
Lemma apply_bound_vars c s : c_vars (apply_bound c s) = c_vars c.
Proof. unfold apply_bound. destruct (b_kw s); reflexivity. Qed.
Lemma finish_cols_vars c : c_vars (finish_cols c) = c_vars c.
Proof. unfold finish_cols. destruct (fold_left _ _ _). reflexivity. Qed.

Lemma read_header_inv st line st' : read_header st line = Ok st' -> minv (p_mps st) -> minv (p_mps st').
Proof.
  unfold read_header. destruct (strip_prefix _ line).
  { intro H; inversion H; subst st'. intro G; exact G. }
  destruct (strip_prefix _ line).
  - destruct (sempty _); [intro H; inversion H; subst st'; intro G; exact G|].
    destruct (parse_sense _); cbn [rbind]; [|discriminate].
    intro H; inversion H; subst st'. intro G; exact G.
  - destruct (parse_cursor _); cbn [rbind]; [|discriminate].
    intro H; inversion H; subst st'. intro G; exact G.
Qed.
Lemma read_fields_inv st line fields st' :
  read_fields st line fields = Ok st' -> minv (p_mps st) -> minv (p_mps st').
Proof.
  unfold read_fields. destruct (p_cur st).
  - discriminate.
  - destruct (parse_row fields) as [[ty name]|]; cbn [rbind]; [|discriminate].
    pose proof (add_row_inv ty name (p_free st) (p_mps st)) as A.
    destruct (add_row ty name (p_free st) (p_mps st)) as [m1 free1]. cbn [fst] in A.
    intro H; inversion H; subst st'. exact A.
  - destruct (parse_column fields) as [[on|col pairs]|]; cbn [rbind]; [| |discriminate].
    + intro H; inversion H; subst st'. intro G; exact G.
    + destruct (add_coefs _ _ _ _) as [m1|] eqn:E; cbn [rbind]; [|discriminate].
      intro H; inversion H; subst st'. intro G. cbn [with_mps p_mps].
      eapply add_coefs_inv; [exact E|]. apply declare_col_inv. exact G.
  - destruct (negb (len35 fields)); [discriminate|].
    destruct (parse_pairs (tl fields)) as [ps|]; cbn [rbind]; [|discriminate].
    intro H; inversion H; subst st'. intro G. cbn [with_mps p_mps]. apply fold_add_rhs_inv. exact G.
  - destruct (negb (len35 fields)); [discriminate|].
    destruct (add_range_fields (tl fields) (p_mps st)) as [m1|] eqn:E; cbn [rbind]; [|discriminate].
    intro H; inversion H; subst st'. intro G. cbn [with_mps p_mps].
    eapply (proj1 (add_range_fields_inv (tl fields))); [exact E|exact G].
  - destruct (parse_bound fields) as [s|]; cbn [rbind]; [|discriminate].
    intro H; inversion H; subst st'. intros [G1 G2]. cbn [with_mps p_mps]. split; [|exact G2].
    cbn [set_cols m_cols]. rewrite apply_bound_vars. exact G1.
  - intro H; inversion H; subst st'. intro G; exact G.
Qed.
Lemma step_inv st line st' : step st line = Ok st' -> minv (p_mps st) -> minv (p_mps st').
Proof.
  unfold step. destruct (p_done st); [intro H; inversion H; subst; auto|].
  destruct (blank line); [intro H; inversion H; subst; auto|].
  destruct (first_is _ line); [intro H; inversion H; subst; auto|].
  destruct (negb (first_is _ line)); [apply read_header_inv|].
  destruct (p_wait st); [|apply read_fields_inv].
  destruct (split_ws line) as [|f0 fs]; [discriminate|].
  destruct (parse_sense f0); cbn [rbind]; [|discriminate].
  intro H; inversion H; subst st'. intro G; exact G.
Qed.
Lemma run_lines_inv : forall lines st st', run_lines lines st = Ok st' ->
  minv (p_mps st) -> minv (p_mps st').
Proof.
  induction lines as [|l ls IH]; intros st st' H Hm; cbn [run_lines] in H.
  - inversion H; subst. exact Hm.
  - destruct (step st l) as [st1|] eqn:E; cbn [rbind] in H; [|discriminate H].
    eapply IH; [exact H|]. eapply step_inv; [exact E|exact Hm].
Qed.
Theorem parse_lines_inv lines m : parse_lines lines = Ok m -> minv m.
Proof.
  unfold parse_lines. destruct (run_lines lines pstate0) as [st|] eqn:E; cbn [rbind]; [|discriminate].
  intro H; inversion H; subst m. apply run_lines_inv in E.
  - destruct E as [E1 E2]. split; [|exact E2]. unfold finish. cbn [set_cols m_cols].
    rewrite finish_cols_vars. exact E1.
  - split; constructor.
Qed.

(* ---- MAIN THEOREM (MPS): exact characterisation of validity of what the reader produces ---- *)
Theorem mps_load_wf_iff : forall lines m R, parse_lines lines = Ok m -> convert m = Ok R ->
  (vars_distinct R <-> ids_ok VAR_PREFIX (c_vars (m_cols m))) /\
  (cons_distinct R <-> ids_ok CONSTR_PREFIX (map fst (r_a (m_rows m)))) /\
  used_defined R.
Proof.
  intros lines m R Hp Hc. apply parse_lines_inv in Hp. destruct Hp as [Hv Ha].
  apply convert_ids in Hc. destruct Hc as (Ev & Ec & Hu). unfold vars_distinct, cons_distinct.
  rewrite Ev, Ec. split; [apply assigned_nodup; exact Hv|]. split; [apply assigned_nodup; exact Ha|exact Hu].
Qed.

(* the conditional theorem in the shape of the task *)
Theorem mps_load_wf : forall lines m R, parse_lines lines = Ok m -> load_lines lines = Ok R ->
  ids_ok VAR_PREFIX (c_vars (m_cols m)) -> ids_ok CONSTR_PREFIX (map fst (r_a (m_rows m))) ->
  inst_wf R.
Proof.
  intros lines m R Hp Hl Hv Hc. unfold load_lines in Hl. rewrite Hp in Hl. cbn [rbind] in Hl.
  destruct (mps_load_wf_iff lines m R Hp Hl) as (A & B & C).
  split; [apply A; exact Hv|]. split; [apply B; exact Hc|exact C].
Qed.

(* ---- MAIN THEOREM (MPS), unconditional: whatever the reader accepts is well formed ---- *)
Theorem mps_load_wf_all : forall lines R, load_lines lines = Ok R -> inst_wf R.
Proof.
  intros lines R Hl. pose proof Hl as Hl'. unfold load_lines in Hl'.
  destruct (parse_lines lines) as [m|] eqn:Hp; cbn [rbind] in Hl'; [|discriminate Hl'].
  apply (mps_load_wf lines m R Hp Hl); apply ids_ok_all.
Qed.
Corollary mps_load_vars_distinct : forall lines R, load_lines lines = Ok R -> vars_distinct R.
Proof. intros lines R H. apply (mps_load_wf_all lines R H). Qed.
Corollary mps_load_cons_distinct : forall lines R, load_lines lines = Ok R -> cons_distinct R.
Proof. intros lines R H. apply (mps_load_wf_all lines R H). Qed.


(* ---- choice (a): the obvious conversion into Inst.v's instance (ids, kinds, bounds, functions
   verbatim; an unset function is an absent one; names travel as opaque metadata) ---- *)
Definition e_optstr (o : option string) : Tree.tree :=
  match o with Some s => Tree.L [Tree.A s] | None => Tree.L [] end.
Definition optfn (f : function) : option function := match f with FUnset => None | _ => Some f end.
Definition to_dvar (v : dvar) : Inst.dvar :=
  {| Inst.dv_id := dv_id v; Inst.dv_kind := Z.of_N (dv_kind v); Inst.dv_bound := dv_bound v;
     Inst.dv_subst := None;
     Inst.dv_meta := [e_optstr (dv_name v); Tree.L []; Tree.L []; Tree.L []] |}.
Definition to_constr (c : cons) : Inst.constr :=
  {| Inst.c_id := cn_id c; Inst.c_eq := Z.of_N (cn_eq c); Inst.c_fn := optfn (cn_fn c);
     Inst.c_meta := [e_optstr (cn_name c); Tree.L []; Tree.L []; Tree.L []] |}.
Definition to_instance (R : inst) : Inst.instance :=
  {| Inst.i_sense := Z.of_N (in_sense R); Inst.i_obj := optfn (in_obj R);
     Inst.i_dvs := map to_dvar (in_dvars R); Inst.i_cs := map to_constr (in_cons R);
     Inst.i_rs := []; Inst.i_deps := []; Inst.i_params := None;
     Inst.i_hints := Tree.L []; Inst.i_desc := e_optstr (in_name R) |}.

Lemma used_optfn f : Transform.fn_used (Inst.fn_or_zero (optfn f)) = fn_used f.
Proof. destruct f; reflexivity. Qed.

Theorem to_instance_valid_iff R : Validate.validate (to_instance R) = true <-> inst_wf R.
Proof.
  rewrite ValidateProofs.validate_iff. unfold inst_wf, vars_distinct, cons_distinct, used_defined.
  unfold Relax.all_constrs, Validate.inst_used. cbn [to_instance Inst.i_dvs Inst.i_cs Inst.i_rs Inst.i_obj
    Relax.removed_constrs flat_map]. rewrite !app_nil_r, !map_map.
  cbn [to_dvar to_constr Inst.dv_id Inst.c_id].
  assert (E : flat_map Validate.constr_used (map to_constr (in_cons R))
              = flat_map (fun c => fn_used (cn_fn c)) (in_cons R)).
  { rewrite flat_map_concat_map, map_map, <- flat_map_concat_map. apply flat_map_ext.
    intro c. unfold Validate.constr_used. cbn [to_constr Inst.c_fn]. apply used_optfn. }
  rewrite E, used_optfn. unfold inst_used. tauto.
Qed.

Theorem mps_load_valid : forall lines m R, parse_lines lines = Ok m -> load_lines lines = Ok R ->
  ids_ok VAR_PREFIX (c_vars (m_cols m)) -> ids_ok CONSTR_PREFIX (map fst (r_a (m_rows m))) ->
  Validate.validate (to_instance R) = true.
Proof. intros. apply to_instance_valid_iff. eapply mps_load_wf; eassumption. Qed.

Theorem mps_load_valid_all : forall lines R, load_lines lines = Ok R ->
  Validate.validate (to_instance R) = true.
Proof. intros lines R H. apply to_instance_valid_iff. apply (mps_load_wf_all lines R H). Qed.

(* ---- REGRESSION TEXTS.  Before the fix of parse_id_tag the tag was whatever u64::from_str
   accepts (leading zeros, a '+'), so the two names of each text below carried the same number
   and the loaded instance had a duplicated id (validate = false).  Now a non-canonical suffix is
   not a tag: the name is an ordinary (foreign) one and the reader falls back to positions ---- *)
Open Scope string_scope.
Definition dup_vars_text : list string :=
  [ "NAME t"; "ROWS"; " N OBJ"; " L OMMX_CONSTR_0"; "COLUMNS";
    "    OMMX_VAR_1  OBJ  1  OMMX_CONSTR_0  1";
    "    OMMX_VAR_01  OBJ  2  OMMX_CONSTR_0  1";
    "RHS"; "    RHS1  OMMX_CONSTR_0  4"; "ENDATA" ].
Definition dup_cons_text : list string :=
  [ "NAME t"; "ROWS"; " N OBJ"; " L OMMX_CONSTR_7"; " G OMMX_CONSTR_+7"; "COLUMNS";
    "    x  OBJ  1  OMMX_CONSTR_7  1";
    "    y  OBJ  2  OMMX_CONSTR_+7  1";
    "RHS"; "    RHS1  OMMX_CONSTR_7  4"; "ENDATA" ].
(* a text in the id-recovery branch with canonical names, and one with foreign names *)
Definition good_text : list string :=
  [ "NAME t"; "ROWS"; " N OBJ"; " L OMMX_CONSTR_4"; " E OMMX_CONSTR_2"; "COLUMNS";
    "    OMMX_VAR_3  OBJ  1  OMMX_CONSTR_4  1";
    "    OMMX_VAR_5  OBJ  2  OMMX_CONSTR_2  1";
    "RHS"; "    RHS1  OMMX_CONSTR_4  4"; "ENDATA" ].
Definition foreign_text : list string :=
  [ "NAME t"; "ROWS"; " N COST"; " L lim"; " G OMMX_CONSTR_2"; "COLUMNS";
    "    x  COST  1  lim  1";
    "    OMMX_VAR_5  COST  2  OMMX_CONSTR_2  1";
    "RHS"; "    RHS1  lim  4"; "RANGES"; "    RNG  lim  2"; "ENDATA" ].
Close Scope string_scope.

Example mps_dup_vars_regression :
  match load_lines dup_vars_text with
  | Ok R => map dv_id (in_dvars R) = [0; 1]%N /\
            map dv_name (in_dvars R) = [Some "OMMX_VAR_1"%string; Some "OMMX_VAR_01"%string] /\
            map cn_id (in_cons R) = [0]%N /\
            Validate.validate (to_instance R) = true
  | Err _ => False
  end.
Proof. vm_compute. repeat split. Qed.
Example mps_dup_cons_regression :
  match load_lines dup_cons_text with
  | Ok R => map cn_id (in_cons R) = [0; 1]%N /\
            map cn_name (in_cons R) = [Some "OMMX_CONSTR_7"%string; Some "OMMX_CONSTR_+7"%string] /\
            map dv_id (in_dvars R) = [0; 1]%N /\
            Validate.validate (to_instance R) = true
  | Err _ => False
  end.
Proof. vm_compute. repeat split. Qed.
(* the names that used to collide: only the canonical one is a tag *)
Example mps_tag_examples :
  parse_id_tag VAR_PREFIX "OMMX_VAR_1" = Some 1%N /\ parse_id_tag VAR_PREFIX "OMMX_VAR_01" = None /\
  parse_id_tag CONSTR_PREFIX "OMMX_CONSTR_7" = Some 7%N /\ parse_id_tag CONSTR_PREFIX "OMMX_CONSTR_+7" = None /\
  parse_id_tag VAR_PREFIX "OMMX_VAR_0" = Some 0%N /\ parse_id_tag VAR_PREFIX "OMMX_VAR_00" = None /\
  parse_id_tag VAR_PREFIX "OMMX_VAR_18446744073709551615" = Some 18446744073709551615%N /\
  parse_id_tag VAR_PREFIX "OMMX_VAR_18446744073709551616" = None /\ parse_id_tag VAR_PREFIX "OMMX_VAR_" = None.
Proof. vm_compute. repeat split. Qed.

Example mps_nonvacuous :
  match parse_lines good_text, load_lines good_text with
  | Ok m, Ok R =>
      some_untagged VAR_PREFIX (c_vars (m_cols m)) = false /\
      some_untagged CONSTR_PREFIX (map fst (r_a (m_rows m))) = false /\
      map dv_id (in_dvars R) = [3; 5]%N /\ map cn_id (in_cons R) = [4; 2]%N /\
      Validate.validate (to_instance R) = true
  | _, _ => False
  end.
Proof. vm_compute. repeat split. Qed.
Example mps_nonvacuous_foreign :
  match parse_lines foreign_text, load_lines foreign_text with
  | Ok m, Ok R =>
      some_untagged VAR_PREFIX (c_vars (m_cols m)) = true /\
      some_untagged CONSTR_PREFIX (map fst (r_a (m_rows m))) = true /\
      map dv_id (in_dvars R) = [0; 1]%N /\ map cn_id (in_cons R) = [0; 1; 2]%N /\
      Validate.validate (to_instance R) = true
  | _, _ => False
  end.
Proof. vm_compute. repeat split. Qed.

End MpsWf.

Print Assumptions QplibWf.qplib_load_wf.
Print Assumptions QplibWf.qplib_load_valid.
Print Assumptions QplibWf.qplib_nonvacuous.
Print Assumptions MpsWf.mps_load_used_defined.
Print Assumptions MpsWf.mps_load_wf_iff.
Print Assumptions MpsWf.mps_load_wf.
Print Assumptions MpsWf.to_instance_valid_iff.
Print Assumptions MpsWf.mps_load_valid.
Print Assumptions MpsWf.mps_load_wf_all.
Print Assumptions MpsWf.mps_load_vars_distinct.
Print Assumptions MpsWf.mps_load_cons_distinct.
Print Assumptions MpsWf.mps_load_valid_all.
Print Assumptions MpsWf.mps_dup_vars_regression.
Print Assumptions MpsWf.mps_dup_cons_regression.
Print Assumptions MpsWf.mps_tag_examples.
Print Assumptions MpsWf.mps_nonvacuous.
Print Assumptions MpsWf.mps_nonvacuous_foreign.
