(* Artifact.v — list-state-machine model of ommx::artifact (builder.rs, artifact.rs,
   annotations.rs, media_types.rs).

   What is modelled: the *logic* of Builder / Artifact — typed layers appended with a media type
   and an annotation map, the blob store of the archive (first entry with a given digest path
   wins), lookup of a layer by digest (first matching descriptor wins), the media-type check of
   every typed getter, the artifact-type check of the manifest, and the annotation accessors as
   reads/writes of a string map (authors joined with ",").
   What is NOT modelled: the bytes (tar layout, JSON manifest, sha256, protobuf): [digest],
   [size], [decode] are Section variables; the digest is only assumed injective on the blobs that
   are stored in one archive, and [decode] is only assumed to invert the encoder on the stored
   messages (that is C07's round trip).  RFC3339 rendering/parsing (chrono) likewise. *)
From Coq Require Import List String Ascii Arith NArith Bool Lia DecimalString DecimalN Decimal.
Import ListNotations.
Open Scope string_scope.

(* ------------------------------------------------------------------------------ *)
(* annotation maps: HashMap<String,String> as an association list with unique keys  *)

Definition amap := list (string * string).

Fixpoint aget (k : string) (m : amap) : option string :=
  match m with
  | [] => None
  | (k', v) :: m' => if String.eqb k' k then Some v else aget k m'
  end.

(* HashMap::insert: replace the value of an existing key, else add the entry *)
Fixpoint aset (k v : string) (m : amap) : amap :=
  match m with
  | [] => [(k, v)]
  | (k', v') :: m' => if String.eqb k' k then (k, v) :: m' else (k', v') :: aset k v m'
  end.

Lemma aget_aset_same k v m : aget k (aset k v m) = Some v.
Proof.
  induction m as [|[k' v'] m IH]; cbn.
  - now rewrite String.eqb_refl.
  - destruct (String.eqb k' k) eqn:E; cbn.
    + now rewrite String.eqb_refl.
    + now rewrite E.
Qed.

Lemma aget_aset_other k k' v m : k' <> k -> aget k' (aset k v m) = aget k' m.
Proof.
  intro N. induction m as [|[k0 v0] m IH]; cbn.
  - destruct (String.eqb k k') eqn:E; [apply String.eqb_eq in E; congruence|reflexivity].
  - destruct (String.eqb k0 k) eqn:E; cbn.
    + apply String.eqb_eq in E. subst k0.
      destruct (String.eqb k k') eqn:E2; [apply String.eqb_eq in E2; congruence|reflexivity].
    + destruct (String.eqb k0 k'); [reflexivity|exact IH].
Qed.

Lemma aset_keys_nodup k v m : NoDup (map fst m) -> NoDup (map fst (aset k v m)).
Proof.
  induction m as [|[k0 v0] m IH]; cbn; intro H.
  - constructor; [intros []|constructor].
  - destruct (String.eqb k0 k) eqn:E; cbn.
    + apply String.eqb_eq in E. now subst k0.
    + inversion H as [|? ? Hn Hd]; subst. constructor; [|now apply IH].
      intro Hin. apply Hn. clear -Hin E.
      induction m as [|[k1 v1] m IH]; cbn in *.
      * destruct Hin as [<-|[]]. now rewrite String.eqb_refl in E.
      * destruct (String.eqb k1 k) eqn:E1; cbn in Hin.
        -- apply String.eqb_eq in E1. subst k1. destruct Hin as [<-|Hin]; [|now right].
           now rewrite String.eqb_refl in E.
        -- destruct Hin as [<-|Hin]; [now left|right; now apply IH].
Qed.

(* ------------------------------------------------------------------------------ *)
(* "a,b,c": Vec::join(",") and str::split(',')                                      *)

Definition is_sep (sep c : ascii) : bool := Ascii.eqb c sep.

Fixpoint no_sep (sep : ascii) (s : string) : bool :=
  match s with
  | EmptyString => true
  | String c s' => negb (is_sep sep c) && no_sep sep s'
  end.

(* str::split: always at least one piece; "" splits into [""] *)
Fixpoint split_on (sep : ascii) (s : string) : list string :=
  match s with
  | EmptyString => [EmptyString]
  | String c s' =>
      if is_sep sep c then EmptyString :: split_on sep s'
      else match split_on sep s' with
           | h :: t => String c h :: t
           | [] => [String c EmptyString]
           end
  end.

Lemma split_on_app sep n s :
  no_sep sep n = true -> split_on sep (n ++ String sep s) = n :: split_on sep s.
Proof.
  induction n as [|c n IH]; cbn; intro H.
  - unfold is_sep. now rewrite Ascii.eqb_refl.
  - apply andb_true_iff in H. destruct H as [Hc Hn].
    destruct (is_sep sep c); [discriminate|]. now rewrite (IH Hn).
Qed.

Lemma split_on_single sep n : no_sep sep n = true -> split_on sep n = [n].
Proof.
  induction n as [|c n IH]; cbn; intro H; [reflexivity|].
  apply andb_true_iff in H. destruct H as [Hc Hn].
  destruct (is_sep sep c); [discriminate|]. now rewrite (IH Hn).
Qed.

Lemma split_on_concat sep l :
  l <> [] -> Forall (fun n => no_sep sep n = true) l ->
  split_on sep (String.concat (String sep EmptyString) l) = l.
Proof.
  induction l as [|n l IH]; intros Hne H; [congruence|].
  inversion H as [|? ? Hn Hl]; subst.
  destruct l as [|n' l'].
  - cbn. now apply split_on_single.
  - change (String.concat (String sep "") (n :: n' :: l'))
      with (n ++ String sep (String.concat (String sep "") (n' :: l'))).
    rewrite (split_on_app _ _ _ Hn). f_equal. apply IH; [discriminate|exact Hl].
Qed.

Definition comma : ascii := ","%char.
Definition nonempty (s : string) : bool := match s with EmptyString => false | _ => true end.

Definition join_authors (l : list string) : string := String.concat "," l.
(* authors(): split(',') and drop empty names (so that the empty list reads back empty) *)
Definition authors_of (s : string) : list string := filter nonempty (split_on comma s).

Definition good_name (n : string) : Prop := n <> "" /\ no_sep comma n = true.

Lemma filter_all {X} (f : X -> bool) l : (forall x, In x l -> f x = true) -> filter f l = l.
Proof.
  induction l as [|x l IH]; intro H; [reflexivity|]. cbn.
  rewrite (H x (or_introl eq_refl)). f_equal. apply IH. intros y Hy. apply H. now right.
Qed.

Lemma authors_roundtrip l : Forall good_name l -> authors_of (join_authors l) = l.
Proof.
  intro H. unfold authors_of, join_authors.
  destruct l as [|n l]; [reflexivity|].
  change "," with (String comma "").
  rewrite split_on_concat.
  - apply filter_all. intros x Hx.
    rewrite Forall_forall in H. destruct (H x Hx) as [Hne _]. now destruct x.
  - discriminate.
  - eapply Forall_impl; [|exact H]. now intros a [_ Ha].
Qed.

(* ------------------------------------------------------------------------------ *)
(* usize::to_string / str::parse::<usize>                                           *)

Definition render_usize (n : N) : string := NilEmpty.string_of_uint (N.to_uint n).

Definition usize_max_succ : N := 18446744073709551616.   (* 2^64 *)

Definition parse_usize (s : string) : option N :=
  let body := match s with String "+" r => r | _ => s end in
  match body with
  | EmptyString => None
  | _ => match NilEmpty.uint_of_string body with
         | Some d => let n := N.of_uint d in if N.ltb n usize_max_succ then Some n else None
         | None => None
         end
  end.

Lemma to_uint_head n : exists c r, render_usize n = String c r /\ c <> "+"%char.
Proof.
  unfold render_usize.
  assert (Hn : N.to_uint n <> Nil).
  { destruct n as [|p]; [discriminate|]. cbn. unfold Pos.to_uint.
    intro E. pose proof (DecimalPos.Unsigned.of_to p) as H. unfold Pos.to_uint in H.
    rewrite E in H. discriminate. }
  destruct (N.to_uint n); [congruence| | | | | | | | | |];
    cbn; eexists; eexists; (split; [reflexivity|discriminate]).
Qed.

Lemma parse_usize_nonplus c r :
  c <> "+"%char ->
  parse_usize (String c r) =
    match NilEmpty.uint_of_string (String c r) with
    | Some d => if N.ltb (N.of_uint d) usize_max_succ then Some (N.of_uint d) else None
    | None => None
    end.
Proof.
  intro Hc. unfold parse_usize.
  destruct c as [[] [] [] [] [] [] [] []]; try reflexivity. congruence.
Qed.

Lemma usize_roundtrip n : (n < usize_max_succ)%N -> parse_usize (render_usize n) = Some n.
Proof.
  intro H. destruct (to_uint_head n) as (c & r & E & Hc). rewrite E.
  rewrite (parse_usize_nonplus _ _ Hc). rewrite <- E. unfold render_usize.
  rewrite NilEmpty.usu, DecimalN.Unsigned.of_to. apply N.ltb_lt in H. now rewrite H.
Qed.

(* ------------------------------------------------------------------------------ *)
(* kinds, media types, annotation keys                                              *)

Inductive kind := KInstance | KParametric | KSolution | KSampleSet.

Definition kind_eqb (a b : kind) : bool :=
  match a, b with
  | KInstance, KInstance | KParametric, KParametric | KSolution, KSolution
  | KSampleSet, KSampleSet => true
  | _, _ => false
  end.
Lemma kind_eqb_eq a b : kind_eqb a b = true <-> a = b.
Proof. destruct a, b; cbn; split; congruence. Qed.

Definition ommx_artifact_type : string := "application/org.ommx.v1.artifact".

Definition media_type (k : kind) : string :=
  match k with
  | KInstance => "application/org.ommx.v1.instance"
  | KParametric => "application/org.ommx.v1.parametric-instance"
  | KSolution => "application/org.ommx.v1.solution"
  | KSampleSet => "application/org.ommx.v1.sample-set"
  end.

Lemma media_type_eqb a b : String.eqb (media_type a) (media_type b) = kind_eqb a b.
Proof. destruct a, b; reflexivity. Qed.

Definition key_prefix (k : kind) : string :=
  match k with
  | KInstance => "org.ommx.v1.instance."
  | KParametric => "org.ommx.v1.parametric-instance."
  | KSolution => "org.ommx.v1.solution."
  | KSampleSet => "org.ommx.v1.sample-set."
  end.
Definition key (k : kind) (field : string) : string := key_prefix k ++ field.

(* Digest::new: exactly one ':' and at least one character of [a-zA-Z0-9=_-] after it *)
Definition enc_char (c : ascii) : bool :=
  let n := nat_of_ascii c in
  ((48 <=? n) && (n <=? 57) || (65 <=? n) && (n <=? 90) || (97 <=? n) && (n <=? 122)
   || (n =? 61) || (n =? 95) || (n =? 45))%nat.
Fixpoint has_enc_char (s : string) : bool :=
  match s with EmptyString => false | String c s' => enc_char c || has_enc_char s' end.
Definition parse_digest (s : string) : option string :=
  match split_on ":"%char s with
  | [alg; enc] => if has_enc_char enc then Some (alg ++ ":" ++ enc) else None
  | _ => None
  end.

(* ------------------------------------------------------------------------------ *)

Inductive aerr := ENotFound | EMissingBlob | EWrongMedia | EDecode | ENotOmmx.
Inductive result (X : Type) := Ok (x : X) | Err (e : aerr).
Arguments Ok {X} x.
Arguments Err {X} e.

Open Scope list_scope.

Section Model.
  Variable blob : Type.              (* encoded message bytes *)
  Variable msg : Type.               (* decoded messages of the four kinds *)
  Variable dg : Type.                (* digests, "sha256:<hex>" *)
  Variable time : Type.              (* chrono::DateTime<Local> *)
  Variable digest : blob -> dg.
  Variable size : blob -> N.
  Variable dg_eqb : dg -> dg -> bool.
  Hypothesis dg_eqb_spec : forall x y, dg_eqb x y = true <-> x = y.
  Variable decode : kind -> blob -> option msg.     (* prost Message::decode per kind *)
  Variable render_time : time -> string.            (* DateTime::to_rfc3339 *)
  Variable parse_time : string -> option time.      (* DateTime::parse_from_rfc3339 *)
  Variable empty_json : blob.                       (* the "{}" config blob of every artifact *)

  (* ---- typed annotation setters and accessors (annotations.rs) ---- *)
  Inductive aop :=
  | ATitle (s : string) | ACreated (t : time) | AAuthors (l : list string) | ALicense (s : string)
  | ADataset (s : string) | AVariables (n : N) | AConstraints (n : N)
  | AStart (t : time) | AEnd (t : time) | AInstance (d : string) | ASolver (d : string)
  | AOther (k v : string).

  Definition apply_aop (k : kind) (o : aop) (a : amap) : amap :=
    match o with
    | ATitle s => aset (key k "title") s a
    | ACreated t => aset (key k "created") (render_time t) a
    | AAuthors l => aset (key k "authors") (join_authors l) a
    | ALicense s => aset (key k "license") s a
    | ADataset s => aset (key k "dataset") s a
    | AVariables n => aset (key k "variables") (render_usize n) a
    | AConstraints n => aset (key k "constraints") (render_usize n) a
    | AStart t => aset (key k "start") (render_time t) a
    | AEnd t => aset (key k "end") (render_time t) a
    | AInstance d => aset (key k "instance") d a
    | ASolver d => aset (key k "solver") d a
    | AOther k' v => aset k' v a
    end.
  Definition apply_aops (k : kind) (os : list aop) : amap :=
    fold_left (fun a o => apply_aop k o a) os [].

  Definition obind' {X Y} (o : option X) (f : X -> option Y) : option Y :=
    match o with Some x => f x | None => None end.

  Definition acc_string (k : kind) (field : string) (a : amap) : option string := aget (key k field) a.
  Definition acc_time (k : kind) (field : string) (a : amap) : option time :=
    obind' (aget (key k field) a) parse_time.
  Definition acc_authors (k : kind) (a : amap) : option (list string) :=
    option_map authors_of (aget (key k "authors") a).
  Definition acc_usize (k : kind) (field : string) (a : amap) : option N :=
    obind' (aget (key k field) a) parse_usize.
  Definition acc_digest (k : kind) (field : string) (a : amap) : option string :=
    obind' (aget (key k field) a) parse_digest.

  (* ---- builder.rs / ocipkg OciArtifactBuilder + OciArchiveBuilder ---- *)
  Record descriptor := { d_media : string; d_digest : dg; d_size : N; d_ann : amap }.

  Record artifact := {
    a_type : option string;            (* manifest.artifactType *)
    a_layers : list descriptor;        (* manifest.layers, in insertion order *)
    a_store : list (dg * blob)         (* blobs/<alg>/<hex> entries of the archive, in write order *)
  }.

  Definition new_builder (ty : option string) : artifact :=
    {| a_type := ty; a_layers := []; a_store := [(digest empty_json, empty_json)] |}.

  Definition add_layer (mt : string) (b : blob) (ann : amap) (s : artifact) : artifact :=
    {| a_type := a_type s;
       a_layers := a_layers s ++ [ {| d_media := mt; d_digest := digest b; d_size := size b; d_ann := ann |} ];
       a_store := a_store s ++ [(digest b, b)] |}.

  (* one add_instance / add_parametric_instance / add_solution / add_sample_set call:
     the message [o_msg], its encoding [o_blob], the annotations handed over *)
  Record op := { o_kind : kind; o_msg : msg; o_blob : blob; o_ann : amap }.

  Definition add (s : artifact) (o : op) : artifact :=
    add_layer (media_type (o_kind o)) (o_blob o) (o_ann o) s.

  Definition build_with (ty : option string) (ops : list op) : artifact :=
    fold_left add ops (new_builder ty).
  (* Builder::new_archive_unnamed ... build() *)
  Definition build (ops : list op) : artifact := build_with (Some ommx_artifact_type) ops.

  Definition layer_of (o : op) : descriptor :=
    {| d_media := media_type (o_kind o); d_digest := digest (o_blob o);
       d_size := size (o_blob o); d_ann := o_ann o |}.

  (* ---- artifact.rs ---- *)
  Definition get_manifest (a : artifact) : result (string * list descriptor) :=
    match a_type a with
    | None => Err ENotOmmx
    | Some t => if String.eqb t ommx_artifact_type then Ok (t, a_layers a) else Err ENotOmmx
    end.

  Definition get_layer_descriptors (a : artifact) (mt : string) : result (list descriptor) :=
    match get_manifest a with
    | Err e => Err e
    | Ok (_, ls) => Ok (filter (fun d => String.eqb (d_media d) mt) ls)
    end.

  (* OciArchive::get_blob: the first archive entry whose path is the digest's path *)
  Definition get_blob (st : list (dg * blob)) (d : dg) : option blob :=
    match find (fun e => dg_eqb (fst e) d) st with Some e => Some (snd e) | None => None end.

  (* OciArtifact::get_layers *)
  Fixpoint collect (st : list (dg * blob)) (ls : list descriptor) : option (list (descriptor * blob)) :=
    match ls with
    | [] => Some []
    | d :: ls' =>
        match get_blob st (d_digest d) with
        | None => None
        | Some b => match collect st ls' with None => None | Some r => Some ((d, b) :: r) end
        end
    end.

  (* Artifact::get_layer: the first layer whose descriptor carries the digest *)
  Definition get_layer (a : artifact) (d : dg) : result (descriptor * blob) :=
    match collect (a_store a) (a_layers a) with
    | None => Err EMissingBlob
    | Some ls =>
        match find (fun p => dg_eqb (d_digest (fst p)) d) ls with
        | Some p => Ok p
        | None => Err ENotFound
        end
    end.

  (* get_instance / get_parametric_instance / get_solution / get_sample_set *)
  Definition get_as (k : kind) (a : artifact) (d : dg) : result (msg * amap) :=
    match get_layer a d with
    | Err e => Err e
    | Ok (desc, b) =>
        if String.eqb (d_media desc) (media_type k) then
          match decode k b with
          | Some m => Ok (m, d_ann desc)
          | None => Err EDecode
          end
        else Err EWrongMedia
    end.

  (* ================================ proofs ================================ *)

  Lemma dg_eqb_refl x : dg_eqb x x = true.
  Proof. now apply dg_eqb_spec. Qed.

  Definition entry (b : blob) : dg * blob := (digest b, b).
  Definition stored_blobs (ops : list op) : list blob := empty_json :: map o_blob ops.
  Definition inj_on (bs : list blob) : Prop :=
    forall b1 b2, In b1 bs -> In b2 bs -> digest b1 = digest b2 -> b1 = b2.

  Lemma fold_add_layers ops s :
    a_layers (fold_left add ops s) = a_layers s ++ map layer_of ops.
  Proof.
    revert s. induction ops as [|o ops IH]; intro s; cbn [fold_left map].
    - now rewrite app_nil_r.
    - rewrite IH. cbn. now rewrite <- app_assoc.
  Qed.
  Lemma fold_add_store ops s :
    a_store (fold_left add ops s) = a_store s ++ map (fun o => entry (o_blob o)) ops.
  Proof.
    revert s. induction ops as [|o ops IH]; intro s; cbn [fold_left map].
    - now rewrite app_nil_r.
    - rewrite IH. cbn. now rewrite <- app_assoc.
  Qed.
  Lemma fold_add_type ops s : a_type (fold_left add ops s) = a_type s.
  Proof. revert s. induction ops as [|o ops IH]; intro s; cbn; [reflexivity|now rewrite IH]. Qed.

  Lemma build_layers ty ops : a_layers (build_with ty ops) = map layer_of ops.
  Proof. unfold build_with. now rewrite fold_add_layers. Qed.
  Lemma build_store ty ops : a_store (build_with ty ops) = map entry (stored_blobs ops).
  Proof. unfold build_with. rewrite fold_add_store. cbn. now rewrite map_map. Qed.
  Lemma build_type ty ops : a_type (build_with ty ops) = ty.
  Proof. unfold build_with. now rewrite fold_add_type. Qed.

  Lemma get_blob_stored bs b :
    inj_on bs -> In b bs -> get_blob (map entry bs) (digest b) = Some b.
  Proof.
    unfold get_blob. induction bs as [|b0 bs IH]; intros Hinj Hin; [destruct Hin|].
    cbn [map find entry fst]. destruct (dg_eqb (digest b0) (digest b)) eqn:E.
    - apply dg_eqb_spec in E. cbn. f_equal. apply Hinj; [now left|exact Hin|exact E].
    - destruct Hin as [->|Hin]; [now rewrite dg_eqb_refl in E|].
      apply IH; [|exact Hin]. intros x y Hx Hy. apply Hinj; now right.
  Qed.

  Lemma collect_built bs ops :
    inj_on bs -> (forall o, In o ops -> In (o_blob o) bs) ->
    collect (map entry bs) (map layer_of ops) = Some (map (fun o => (layer_of o, o_blob o)) ops).
  Proof.
    intros Hinj. induction ops as [|o ops IH]; intro Hsub; [reflexivity|].
    cbn [map collect layer_of d_digest].
    rewrite (get_blob_stored _ _ Hinj (Hsub o (or_introl eq_refl))).
    rewrite IH; [reflexivity|]. intros o' Ho'. apply Hsub. now right.
  Qed.

  Lemma find_map_comp {X Y} (f : Y -> bool) (g : X -> Y) l :
    find f (map g l) = option_map g (find (fun x => f (g x)) l).
  Proof. induction l as [|x l IH]; cbn; [reflexivity|]. destruct (f (g x)); [reflexivity|exact IH]. Qed.

  (* first-match semantics of get_layer on a built archive *)
  Lemma get_layer_built ty ops d :
    inj_on (stored_blobs ops) ->
    get_layer (build_with ty ops) d =
      match find (fun o => dg_eqb (digest (o_blob o)) d) ops with
      | Some o => Ok (layer_of o, o_blob o)
      | None => Err ENotFound
      end.
  Proof.
    intro Hinj. unfold get_layer. rewrite build_store, build_layers.
    rewrite (collect_built _ _ Hinj).
    - rewrite find_map_comp. cbn [fst layer_of d_digest].
      destruct (find _ ops); reflexivity.
    - intros o Ho. right. now apply in_map.
  Qed.

  Lemma get_as_built ty ops k d :
    inj_on (stored_blobs ops) ->
    get_as k (build_with ty ops) d =
      match find (fun o => dg_eqb (digest (o_blob o)) d) ops with
      | None => Err ENotFound
      | Some o =>
          if kind_eqb (o_kind o) k then
            match decode k (o_blob o) with Some m => Ok (m, o_ann o) | None => Err EDecode end
          else Err EWrongMedia
      end.
  Proof.
    intro Hinj. unfold get_as. rewrite (get_layer_built _ _ _ Hinj).
    destruct (find _ ops) as [o|]; [|reflexivity].
    cbn [layer_of d_media d_ann]. now rewrite media_type_eqb.
  Qed.

  Lemma find_first_occurrence pre o post :
    inj_on (stored_blobs (pre ++ o :: post)) ->
    (forall o', In o' pre -> o_blob o' <> o_blob o) ->
    find (fun x => dg_eqb (digest (o_blob x)) (digest (o_blob o))) (pre ++ o :: post) = Some o.
  Proof.
    intros Hinj Hfirst. induction pre as [|p pre IH]; simpl.
    - now rewrite dg_eqb_refl.
    - destruct (dg_eqb (digest (o_blob p)) (digest (o_blob o))) eqn:E.
      + exfalso. apply dg_eqb_spec in E. apply (Hfirst p (or_introl eq_refl)).
        apply Hinj; [| |exact E]; right; apply in_map; [now left|].
        right. apply in_or_app. right. now left.
      + apply IH.
        * intros x y Hx Hy. apply Hinj.
          -- destruct Hx as [<-|Hx]; [now left|right]. cbn. now right.
          -- destruct Hy as [<-|Hy]; [now left|right]. cbn. now right.
        * intros o' Ho'. apply Hfirst. now right.
  Qed.

  (* a stored op is well-formed when its blob decodes to its message under its own kind
     (prost round trip, C07) *)
  Definition wf_op (o : op) : Prop := decode (o_kind o) (o_blob o) = Some (o_msg o).

  Theorem get_first_occurrence pre o post k :
    let ops := pre ++ o :: post in
    inj_on (stored_blobs ops) -> wf_op o ->
    (forall o', In o' pre -> o_blob o' <> o_blob o) ->
    get_as k (build ops) (digest (o_blob o)) =
      if kind_eqb (o_kind o) k then Ok (o_msg o, o_ann o) else Err EWrongMedia.
  Proof.
    intros ops Hinj Hwf Hfirst. unfold build. rewrite (get_as_built _ _ _ _ Hinj).
    unfold ops. rewrite (find_first_occurrence _ _ _ Hinj Hfirst).
    destruct (kind_eqb (o_kind o) k) eqn:E; [|reflexivity].
    apply kind_eqb_eq in E. subst k. now rewrite Hwf.
  Qed.

  Theorem get_nodup ops o k :
    inj_on (stored_blobs ops) -> NoDup (map o_blob ops) -> In o ops -> wf_op o ->
    get_as k (build ops) (digest (o_blob o)) =
      if kind_eqb (o_kind o) k then Ok (o_msg o, o_ann o) else Err EWrongMedia.
  Proof.
    intros Hinj Hnd Hin Hwf. destruct (in_split _ _ Hin) as (pre & post & ->).
    apply get_first_occurrence; [exact Hinj|exact Hwf|].
    intros o' Ho' E. rewrite map_app in Hnd. cbn in Hnd.
    apply NoDup_remove_2 in Hnd. apply Hnd. apply in_or_app. left.
    rewrite <- E. now apply in_map.
  Qed.

  Theorem get_unknown ops k d :
    inj_on (stored_blobs ops) -> (forall o, In o ops -> digest (o_blob o) <> d) ->
    get_as k (build ops) d = Err ENotFound.
  Proof.
    intros Hinj Hd. unfold build. rewrite (get_as_built _ _ _ _ Hinj).
    destruct (find _ ops) as [o|] eqn:E; [|reflexivity].
    apply find_some in E. destruct E as [Hin E]. apply dg_eqb_spec in E.
    exfalso. exact (Hd o Hin E).
  Qed.

  (* identical blobs: every layer with that blob answers as the first one does *)
  Theorem get_duplicate pre o post o' k :
    let ops := pre ++ o :: post in
    inj_on (stored_blobs ops) -> In o' ops -> o_blob o' = o_blob o ->
    (forall x, In x pre -> o_blob x <> o_blob o) ->
    get_as k (build ops) (digest (o_blob o')) =
      if kind_eqb (o_kind o) k then
        match decode k (o_blob o) with Some m => Ok (m, o_ann o) | None => Err EDecode end
      else Err EWrongMedia.
  Proof.
    intros ops Hinj _ Eb Hfirst. rewrite Eb. unfold build. rewrite (get_as_built _ _ _ _ Hinj).
    unfold ops. now rewrite (find_first_occurrence _ _ _ Hinj Hfirst).
  Qed.

  Theorem layers_in_order ops : a_layers (build ops) = map layer_of ops.
  Proof. apply build_layers. Qed.

  Theorem manifest_accept ops : get_manifest (build ops) = Ok (ommx_artifact_type, map layer_of ops).
  Proof. unfold get_manifest, build. rewrite build_type, build_layers. reflexivity. Qed.

  Theorem manifest_reject a :
    a_type a <> Some ommx_artifact_type ->
    get_manifest a = Err ENotOmmx /\ forall mt, get_layer_descriptors a mt = Err ENotOmmx.
  Proof.
    intro H. assert (E : get_manifest a = Err ENotOmmx).
    { unfold get_manifest. destruct (a_type a) as [t|]; [|reflexivity].
      destruct (String.eqb t ommx_artifact_type) eqn:E; [|reflexivity].
      apply String.eqb_eq in E. congruence. }
    split; [exact E|]. intro mt. unfold get_layer_descriptors. now rewrite E.
  Qed.

  Lemma filter_map_comm {X Y} (f : Y -> bool) (g : X -> Y) l :
    filter f (map g l) = map g (filter (fun x => f (g x)) l).
  Proof. induction l as [|x l IH]; cbn; [reflexivity|]. destruct (f (g x)); cbn; now rewrite IH. Qed.

  Theorem descriptors_by_kind ops k :
    get_layer_descriptors (build ops) (media_type k) =
      Ok (map layer_of (filter (fun o => kind_eqb (o_kind o) k) ops)).
  Proof.
    unfold get_layer_descriptors. rewrite manifest_accept. f_equal.
    rewrite filter_map_comm. f_equal. apply filter_ext. intro o.
    cbn [layer_of d_media]. apply media_type_eqb.
  Qed.

  (* ---- get_instances / get_solutions: the listing accessors ----
     every layer of the kind in manifest order, each with ITS OWN descriptor (annotations) and the
     decoding of its blob -- also when two layers hold the same bytes (they read the raw manifest:
     no artifact-type check) *)
  Definition list_kind (k : kind) (a : artifact) : option (list (descriptor * option msg)) :=
    match collect (a_store a) (a_layers a) with
    | None => None
    | Some ls => Some (map (fun p => (fst p, decode k (snd p)))
                           (filter (fun p => String.eqb (d_media (fst p)) (media_type k)) ls))
    end.

  Theorem list_kind_built ty ops k :
    inj_on (stored_blobs ops) ->
    list_kind k (build_with ty ops) =
      Some (map (fun o => (layer_of o, decode k (o_blob o)))
                (filter (fun o => kind_eqb (o_kind o) k) ops)).
  Proof.
    intro Hinj. unfold list_kind. rewrite build_store, build_layers.
    rewrite (collect_built _ _ Hinj); [|intros o Ho; right; now apply in_map].
    f_equal. rewrite filter_map_comm, map_map. cbn [fst snd].
    f_equal. apply filter_ext. intro o. cbn [fst layer_of d_media]. apply media_type_eqb.
  Qed.

  (* ---- annotation accessors ---- *)
  Hypothesis parse_render_time : forall t, parse_time (render_time t) = Some t.

  Theorem acc_title k s a : acc_string k "title" (apply_aop k (ATitle s) a) = Some s.
  Proof. apply aget_aset_same. Qed.
  Theorem acc_license k s a : acc_string k "license" (apply_aop k (ALicense s) a) = Some s.
  Proof. apply aget_aset_same. Qed.
  Theorem acc_dataset k s a : acc_string k "dataset" (apply_aop k (ADataset s) a) = Some s.
  Proof. apply aget_aset_same. Qed.
  Theorem acc_created k t a : acc_time k "created" (apply_aop k (ACreated t) a) = Some t.
  Proof. unfold acc_time. cbn [apply_aop]. rewrite aget_aset_same. apply parse_render_time. Qed.
  Theorem acc_start k t a : acc_time k "start" (apply_aop k (AStart t) a) = Some t.
  Proof. unfold acc_time. cbn [apply_aop]. rewrite aget_aset_same. apply parse_render_time. Qed.
  Theorem acc_end k t a : acc_time k "end" (apply_aop k (AEnd t) a) = Some t.
  Proof. unfold acc_time. cbn [apply_aop]. rewrite aget_aset_same. apply parse_render_time. Qed.
  Theorem acc_authors_set k l a :
    Forall good_name l -> acc_authors k (apply_aop k (AAuthors l) a) = Some l.
  Proof.
    intro H. unfold acc_authors. cbn [apply_aop]. rewrite aget_aset_same. cbn.
    now rewrite authors_roundtrip.
  Qed.
  Theorem acc_variables k n a :
    (n < usize_max_succ)%N -> acc_usize k "variables" (apply_aop k (AVariables n) a) = Some n.
  Proof. intro H. unfold acc_usize. cbn [apply_aop]. rewrite aget_aset_same. now apply usize_roundtrip. Qed.
  Theorem acc_constraints k n a :
    (n < usize_max_succ)%N -> acc_usize k "constraints" (apply_aop k (AConstraints n) a) = Some n.
  Proof. intro H. unfold acc_usize. cbn [apply_aop]. rewrite aget_aset_same. now apply usize_roundtrip. Qed.
  Theorem acc_other k' v k a : aget k' (apply_aop k (AOther k' v) a) = Some v.
  Proof. apply aget_aset_same. Qed.

  (* the key written by a setter *)
  Definition aop_key (k : kind) (o : aop) : string :=
    match o with
    | ATitle _ => key k "title" | ACreated _ => key k "created" | AAuthors _ => key k "authors"
    | ALicense _ => key k "license" | ADataset _ => key k "dataset"
    | AVariables _ => key k "variables" | AConstraints _ => key k "constraints"
    | AStart _ => key k "start" | AEnd _ => key k "end" | AInstance _ => key k "instance"
    | ASolver _ => key k "solver" | AOther k' _ => k'
    end.
  (* a setter changes no other key *)
  Theorem setter_frame k o a k' : k' <> aop_key k o -> aget k' (apply_aop k o a) = aget k' a.
  Proof. intro H. destruct o; cbn [apply_aop aop_key] in *; now apply aget_aset_other. Qed.
  (* the value written by a setter, and whole setter sequences: the last writer of a key wins,
     a key no setter wrote is absent *)
  Definition aop_value (o : aop) : string :=
    match o with
    | ATitle s | ALicense s | ADataset s | AInstance s | ASolver s => s
    | ACreated t | AStart t | AEnd t => render_time t
    | AAuthors l => join_authors l
    | AVariables n | AConstraints n => render_usize n
    | AOther _ v => v
    end.
  Lemma apply_aop_writes k o a : apply_aop k o a = aset (aop_key k o) (aop_value o) a.
  Proof. destruct o; reflexivity. Qed.

  Lemma fold_aops_frame k os a k' :
    (forall o, In o os -> aop_key k o <> k') ->
    aget k' (fold_left (fun a o => apply_aop k o a) os a) = aget k' a.
  Proof.
    revert a. induction os as [|o os IH]; intros a H; [reflexivity|].
    cbn [fold_left]. rewrite IH.
    - apply setter_frame. intro E. exact (H o (or_introl eq_refl) (eq_sym E)).
    - intros o' Ho'. apply H. now right.
  Qed.

  Theorem apply_aops_last_writer k pre o post :
    (forall o', In o' post -> aop_key k o' <> aop_key k o) ->
    aget (aop_key k o) (apply_aops k (pre ++ o :: post)) = Some (aop_value o).
  Proof.
    intro H. unfold apply_aops. rewrite fold_left_app. cbn [fold_left].
    rewrite (fold_aops_frame _ _ _ _ H). rewrite apply_aop_writes. apply aget_aset_same.
  Qed.

  Theorem apply_aops_untouched k os k' :
    (forall o, In o os -> aop_key k o <> k') -> aget k' (apply_aops k os) = None.
  Proof. intro H. unfold apply_aops. now rewrite (fold_aops_frame _ _ _ _ H). Qed.
End Model.

Arguments Build_op {blob msg}.
Arguments o_kind {blob msg}.
Arguments o_msg {blob msg}.
Arguments o_blob {blob msg}.
Arguments o_ann {blob msg}.
Arguments Build_descriptor {dg}.
Arguments d_media {dg}.
Arguments d_digest {dg}.
Arguments d_size {dg}.
Arguments d_ann {dg}.
Arguments a_type {blob dg}.
Arguments a_layers {blob dg}.
Arguments a_store {blob dg}.
Arguments build_with {blob msg dg}.
Arguments build {blob msg dg}.
Arguments layer_of {blob msg dg}.
Arguments get_manifest {blob dg}.
Arguments get_layer_descriptors {blob dg}.
Arguments get_layer {blob dg}.
Arguments get_as {blob msg dg}.
Arguments list_kind {blob msg dg}.
Arguments stored_blobs {blob msg}.
Arguments inj_on {blob dg}.
Arguments wf_op {blob msg}.
Arguments apply_aop {time}.
Arguments apply_aops {time}.
Arguments acc_time {time}.
Arguments aop_key {time}.
Arguments aop_value {time}.
Arguments ATitle {time}.
Arguments ACreated {time}.
Arguments AAuthors {time}.
Arguments ALicense {time}.
Arguments ADataset {time}.
Arguments AVariables {time}.
Arguments AConstraints {time}.
Arguments AStart {time}.
Arguments AEnd {time}.
Arguments AInstance {time}.
Arguments ASolver {time}.
Arguments AOther {time}.
