(* Codec.v — schema-directed proto3 encoder / decoder over dynamic values (C07).

   [encode sch m v] / [decode sch fuel m bytes] for ANY schema [sch]; the check runs them at the
   schema regenerated from /repo's .proto files.  proto3 rules modelled:
     * implicit scalars are omitted when default, [optional] fields are emitted when present
     * repeated numeric scalars / bools / enums: packed on encode when the schema says packed,
       packed or unpacked accepted on decode; strings and messages one record per element
     * map<K,V>: one entry message per pair (key = 1, value = 2); a default key / value is
       omitted on encode (prost's behaviour; protoc writes them) and both forms are accepted
     * oneof: setting an arm clears the other arms of its group
     * unknown fields are skipped; a repeated occurrence of a singular scalar: last one wins;
       of a singular message: merged (decoded into the value already present)
   Supported scalar kinds: double, uint64, int64, bool, string, bytes and enums — every kind the
   ommx.v1 schema uses ([codec_supports], checked on the regenerated schema); the other kinds are
   rejected by the codec (None / nothing emitted).

   Values: a message is [VMsg fields] with fields keyed by NUMBER, in any order; a repeated field
   is [(n, VList vs)], a map field [(n, VMap kvs)].  A field whose number is not in the
   descriptor is an "unknown-field carrier" (VU64 -> varint, VF64 -> 64-bit, VStr ->
   length-delimited, VBool -> 32-bit record); [norm] drops it. *)
From Coq Require Import NArith ZArith List Lia Bool String.
Require Import Ommx.Schema Ommx.Wire.
Import ListNotations.
Open Scope N_scope.

Inductive value :=
| VU64 (n : N)
| VI64 (z : Z)
| VBool (b : bool)
| VF64 (bits : N)
| VStr (b : list byte)
| VEnum (z : Z)
| VMsg (fs : list (N * value))
| VList (vs : list value)
| VMap (kvs : list (value * value)).

(* ------------------------------------------------------------------ leaves *)
Definition enc_leaf (t : ty) (v : value) : option payload :=
  match t, v with
  | TS SDouble, VF64 n => Some (PI64 n)
  | TS SUInt64, VU64 n => Some (PVarint n)
  | TS SInt64, VI64 z => Some (PVarint (z_to_u64 z))
  | TS SBool, VBool b => Some (PVarint (if b then 1 else 0))
  | TS SString, VStr b => Some (PLen b)
  | TS SBytes, VStr b => Some (PLen b)
  | TE _, VEnum z => Some (PVarint (z_to_u64 z))
  | _, _ => None
  end.

Definition dec_leaf (t : ty) (p : payload) : option value :=
  match t, p with
  | TS SDouble, PI64 n => Some (VF64 n)
  | TS SUInt64, PVarint n => Some (VU64 n)
  | TS SInt64, PVarint n => Some (VI64 (u64_to_z n))
  | TS SBool, PVarint n => Some (VBool (negb (n =? 0)))
  | TS SString, PLen b => Some (VStr b)
  | TS SBytes, PLen b => Some (VStr b)
  | TE _, PVarint n => Some (VEnum (u64_to_i32 n))
  | _, _ => None
  end.

Definition is_default (v : value) : bool :=
  match v with
  | VU64 0 => true
  | VI64 0%Z => true
  | VBool false => true
  | VF64 0 => true           (* +0.0 only: -0.0 has a non-zero bit pattern and is emitted *)
  | VStr [] => true
  | VEnum 0%Z => true
  | VMsg [] => true
  | _ => false
  end.

Definition default_of (t : ty) : value :=
  match t with
  | TS SDouble => VF64 0
  | TS SBool => VBool false
  | TS SString | TS SBytes => VStr []
  | TS SInt64 | TS SInt32 | TS SSInt32 | TS SSInt64 | TS SSFixed32 | TS SSFixed64 => VI64 0
  | TS _ => VU64 0
  | TE _ => VEnum 0
  | TM _ => VMsg []
  end.

Definition leaf_supported (t : ty) : bool :=
  match t with
  | TS SDouble | TS SUInt64 | TS SInt64 | TS SBool | TS SString | TS SBytes | TE _ => true
  | _ => false
  end.

Definition leaf_ok (t : ty) (v : value) : bool :=
  match t, v with
  | TS SDouble, VF64 n => n <? 2 ^ 64
  | TS SUInt64, VU64 n => n <? 2 ^ 64
  | TS SInt64, VI64 z => (- 2 ^ 63 <=? z)%Z && (z <? 2 ^ 63)%Z
  | TS SBool, VBool _ => true
  | TS SString, VStr b | TS SBytes, VStr b => N.of_nat (List.length b) <? 2 ^ 64
  | TE _, VEnum z => (- 2 ^ 31 <=? z)%Z && (z <? 2 ^ 31)%Z
  | _, _ => false
  end.

(* packed elements *)
Definition enc_packed_elem (t : ty) (v : value) : list byte :=
  match enc_leaf t v with
  | Some (PVarint n) => enc_varint n
  | Some (PI64 n) => enc_le 8 n
  | _ => []
  end.

Fixpoint dec_packed (fuel : nat) (t : ty) (bs : list byte) : option (list value) :=
  match bs with
  | [] => Some []
  | _ :: _ =>
      match fuel with
      | O => None
      | S fuel =>
          match t with
          | TS SDouble =>
              if (List.length bs <? 8)%nat then None
              else match dec_packed fuel t (skipn 8 bs) with
                   | Some vs => Some (VF64 (dec_le (firstn 8 bs)) :: vs)
                   | None => None
                   end
          | _ =>
              match dec_varint bs with
              | Some (n, r) =>
                  match dec_leaf t (PVarint n), dec_packed fuel t r with
                  | Some v, Some vs => Some (v :: vs)
                  | _, _ => None
                  end
              | None => None
              end
          end
      end
  end.

(* unknown-field carriers *)
Definition enc_unknown (n : N) (v : value) : list record :=
  match v with
  | VU64 x => [(n, PVarint x)]
  | VF64 x => [(n, PI64 x)]
  | VStr b => [(n, PLen b)]
  | VBool b => [(n, PI32 (if b then 1 else 0))]
  | _ => []
  end.

(* ------------------------------------------------------------------ field lists as finite maps *)
Fixpoint fget (acc : list (N * value)) (n : N) : option value :=
  match acc with
  | [] => None
  | (k, v) :: r => if k =? n then Some v else fget r n
  end.
Fixpoint fset (acc : list (N * value)) (n : N) (v : value) : list (N * value) :=
  match acc with
  | [] => [(n, v)]
  | (k, x) :: r => if k =? n then (k, v) :: r else (k, x) :: fset r n v
  end.
Definition fremove (acc : list (N * value)) (n : N) : list (N * value) :=
  filter (fun kv => negb (fst kv =? n)) acc.

Definition fpush (acc : list (N * value)) (n : N) (vs : list value) : list (N * value) :=
  match vs with
  | [] => acc
  | _ =>
      match fget acc n with
      | Some (VList old) => fset acc n (VList (old ++ vs))
      | _ => fset acc n (VList vs)
      end
  end.

(* equality of map keys (leaf values) *)
Definition key_eqb (a b : value) : bool :=
  match a, b with
  | VU64 x, VU64 y => x =? y
  | VI64 x, VI64 y => Z.eqb x y
  | VBool x, VBool y => Bool.eqb x y
  | VStr x, VStr y => list_eqb N.eqb x y
  | VEnum x, VEnum y => Z.eqb x y
  | _, _ => false
  end.
Fixpoint kv_insert (kvs : list (value * value)) (k v : value) : list (value * value) :=
  match kvs with
  | [] => [(k, v)]
  | (k', v') :: r => if key_eqb k' k then (k', v) :: r else (k', v') :: kv_insert r k v
  end.
Definition fmap_insert (acc : list (N * value)) (n : N) (k v : value) : list (N * value) :=
  match fget acc n with
  | Some (VMap old) => fset acc n (VMap (kv_insert old k v))
  | _ => fset acc n (VMap [(k, v)])
  end.

Definition in_group (desc : list field) (g : string) (n : N) : bool :=
  match lookup_field desc n with
  | Some f => match f_card f with COneof g' => String.eqb g' g | _ => false end
  | None => false
  end.
(* setting arm n of group g clears every other arm of g *)
Definition clear_group (desc : list field) (g : string) (n : N) (acc : list (N * value)) :=
  filter (fun kv => negb (in_group desc g (fst kv) && negb (fst kv =? n))) acc.

Fixpoint fold_opt {X Y} (f : X -> Y -> option X) (a : X) (l : list Y) : option X :=
  match l with
  | [] => Some a
  | y :: r => match f a y with Some a' => fold_opt f a' r | None => None end
  end.

Section Codec.
Variable sch : schema.

(* ------------------------------------------------------------------ encoder
   [enc_field] is the per-field rule, parameterised by the encoder of nested messages *)
Definition enc_entry_leaf (t : ty) (num : N) (x : value) : list record :=
  if is_default x then [] else
  match enc_leaf t x with Some p => [(num, p)] | None => [] end.

Definition enc_entry (enc : string -> value -> list record) (k : scalar) (t : ty)
  (kv : value * value) : list record :=
  enc_entry_leaf (TS k) 1 (fst kv) ++
  match t with
  | TM m' => match enc m' (snd kv) with
             | [] => []
             | rs => [(2, PLen (enc_records rs))]
             end
  | _ => enc_entry_leaf t 2 (snd kv)
  end.

Definition enc_unpacked (n : N) (t : ty) (e : value) : list record :=
  match enc_leaf t e with Some p => [(n, p)] | None => [] end.

Definition is_implicit (c : card) : bool := match c with CImplicit => true | _ => false end.

Definition enc_field (enc : string -> value -> list record) (desc : list field) (nv : N * value)
  : list record :=
  let (n, x) := nv in
  match lookup_field desc n with
  | None => enc_unknown n x
  | Some f =>
      match f_card f, x with
      | CMap k, VMap kvs =>
          map (fun kv : value * value => (n, PLen (enc_records (enc_entry enc k (f_ty f) kv)))) kvs
      | CMap _, _ => []
      | CRepeated packed, VList vs =>
          match f_ty f with
          | TM m' => map (fun e => (n, PLen (enc_records (enc m' e)))) vs
          | t =>
              match vs with
              | [] => []
              | _ => if packed then [(n, PLen (flat_map (enc_packed_elem t) vs))]
                     else flat_map (enc_unpacked n t) vs
              end
          end
      | CRepeated _, _ => []
      | c, _ =>
          match f_ty f with
          | TM m' => [(n, PLen (enc_records (enc m' x)))]
          | t => if is_implicit c && is_default x then [] else enc_unpacked n t x
          end
      end
  end.

Fixpoint enc_msg (m : string) (v : value) {struct v} : list record :=
  match v with
  | VMsg fs =>
      match lookup_msg sch m with
      | None => []
      | Some desc => flat_map (enc_field enc_msg desc) fs
      end
  | _ => []
  end.

Definition encode (m : string) (v : value) : list byte := enc_records (enc_msg m v).

(* ------------------------------------------------------------------ decoder *)
Definition rec_t := string -> list (N * value) -> list byte -> option (list (N * value)).

Definition old_fields (o : option value) : list (N * value) :=
  match o with Some (VMsg fs) => fs | _ => [] end.

(* one record of a map entry; state = (key, value) *)
Definition entry_step (rec : rec_t) (k : scalar) (t : ty) (kv : value * value) (r : record)
  : option (value * value) :=
  let (n, p) := r in
  if n =? 1 then
    match dec_leaf (TS k) p with Some key => Some (key, snd kv) | None => None end
  else if n =? 2 then
    match t with
    | TM m' =>
        match p with
        | PLen b => match rec m' (old_fields (Some (snd kv))) b with
                    | Some fs => Some (fst kv, VMsg fs)
                    | None => None end
        | _ => None
        end
    | _ => match dec_leaf t p with Some x => Some (fst kv, x) | None => None end
    end
  else Some kv.

Definition step (rec : rec_t) (desc : list field) (acc : list (N * value)) (r : record)
  : option (list (N * value)) :=
  let (n, p) := r in
  match lookup_field desc n with
  | None => Some acc                                        (* unknown field: skipped *)
  | Some f =>
      match f_card f, f_ty f with
      | CImplicit, TM m' | COptional, TM m' =>
          match p with
          | PLen b => match rec m' (old_fields (fget acc n)) b with
                      | Some fs => Some (fset acc n (VMsg fs))
                      | None => None end
          | _ => None
          end
      | COneof g, TM m' =>
          match p with
          | PLen b =>
              let acc' := clear_group desc g n acc in
              match rec m' (old_fields (fget acc' n)) b with
              | Some fs => Some (fset acc' n (VMsg fs))
              | None => None end
          | _ => None
          end
      | CImplicit, t =>
          match dec_leaf t p with
          | Some x => Some (if is_default x then fremove acc n else fset acc n x)
          | None => None end
      | COptional, t =>
          match dec_leaf t p with Some x => Some (fset acc n x) | None => None end
      | COneof g, t =>
          match dec_leaf t p with
          | Some x => Some (fset (clear_group desc g n acc) n x)
          | None => None end
      | CRepeated _, TM m' =>
          match p with
          | PLen b => match rec m' [] b with
                      | Some fs => Some (fpush acc n [VMsg fs])
                      | None => None end
          | _ => None
          end
      | CRepeated _, t =>
          match p with
          | PLen b =>
              if packable t then
                match dec_packed (List.length b) t b with
                | Some vs => Some (fpush acc n vs)
                | None => None end
              else match dec_leaf t p with Some x => Some (fpush acc n [x]) | None => None end
          | _ => match dec_leaf t p with Some x => Some (fpush acc n [x]) | None => None end
          end
      | CMap k, t =>
          match p with
          | PLen b =>
              match parse_records b with
              | Some rs =>
                  match fold_opt (entry_step rec k t) (default_of (TS k), default_of t) rs with
                  | Some (key, x) => Some (fmap_insert acc n key x)
                  | None => None end
              | None => None
              end
          | _ => None
          end
      end
  end.

Fixpoint dec_msg (fuel : nat) (m : string) (acc : list (N * value)) (bs : list byte)
  : option (list (N * value)) :=
  match fuel with
  | O => None
  | S fuel =>
      match lookup_msg sch m, parse_records bs with
      | Some desc, Some rs => fold_opt (step (dec_msg fuel) desc) acc rs
      | _, _ => None
      end
  end.

Definition decode (fuel : nat) (m : string) (bs : list byte) : option value :=
  option_map VMsg (dec_msg fuel m [] bs).

(* ------------------------------------------------------------------ normal form and typing *)
Definition norm_field (nrm : string -> value -> value) (desc : list field) (nv : N * value)
  : list (N * value) :=
  let (n, x) := nv in
  match lookup_field desc n with
  | None => []                                   (* unknown-field carrier *)
  | Some f =>
      match f_card f, x with
      | CMap _, VMap [] => []
      | CMap _, VMap kvs =>
          [(n, VMap (match f_ty f with
                     | TM m' => map (fun kv : value * value => (fst kv, nrm m' (snd kv))) kvs
                     | _ => kvs
                     end))]
      | CMap _, _ => []
      | CRepeated _, VList [] => []
      | CRepeated _, VList vs =>
          [(n, VList (match f_ty f with TM m' => map (nrm m') vs | _ => vs end))]
      | CRepeated _, _ => []
      | c, _ =>
          match f_ty f with
          | TM m' => [(n, nrm m' x)]
          | _ => if is_implicit c && is_default x then [] else [(n, x)]
          end
      end
  end.

Fixpoint norm (m : string) (v : value) {struct v} : value :=
  match v with
  | VMsg fs =>
      match lookup_msg sch m with
      | None => VMsg []
      | Some desc => VMsg (flat_map (norm_field norm desc) fs)
      end
  | _ => v
  end.

Definition groups_of (desc : list field) (fs : list (N * value)) : list string :=
  flat_map (fun nv : N * value =>
    match lookup_field desc (fst nv) with
    | Some f => match f_card f with COneof g => [g] | _ => [] end
    | None => []
    end) fs.

Definition len_ok (rs : list record) : bool :=
  N.of_nat (List.length (enc_records rs)) <? 2 ^ 64.

Definition carrier_ok (n : N) (x : value) : bool :=
  (1 <=? n) && (n <? 2 ^ 29) &&
  match x with
  | VU64 a | VF64 a => a <? 2 ^ 64
  | VStr b => N.of_nat (List.length b) <? 2 ^ 64
  | VBool _ => true
  | _ => false
  end.

(* typed: the value is a legal inhabitant of message m — the domain of [codec_roundtrip]:
   unique field numbers, at most one arm per oneof group, every leaf in range, unique map keys,
   every length-delimited payload shorter than 2^64 bytes.
   [ext = true] additionally allows unknown-field carriers. *)
Definition typed_field (ext : bool) (ty : string -> value -> bool) (desc : list field)
  (nv : N * value) : bool :=
  let (n, x) := nv in
  match lookup_field desc n with
  | None => ext && carrier_ok n x
  | Some f =>
      match f_card f, x with
      | CMap k, VMap kvs =>
          nodupb key_eqb (map fst kvs) &&
          forallb (fun kv : value * value =>
                     leaf_ok (TS k) (fst kv) &&
                     match f_ty f with
                     | TM m' => ty m' (snd kv) && len_ok (enc_msg m' (snd kv))
                     | t => leaf_ok t (snd kv)
                     end &&
                     len_ok (enc_entry enc_msg k (f_ty f) kv)) kvs
      | CMap _, _ => false
      | CRepeated packed, VList vs =>
          match f_ty f with
          | TM m' => forallb (fun e => ty m' e && len_ok (enc_msg m' e)) vs
          | t => forallb (leaf_ok t) vs &&
                 (negb packed || (N.of_nat (List.length (flat_map (enc_packed_elem t) vs)) <? 2 ^ 64))
          end
      | CRepeated _, _ => false
      | _, _ =>
          match f_ty f with
          | TM m' => ty m' x && len_ok (enc_msg m' x)
          | t => leaf_ok t x
          end
      end
  end.

Fixpoint typedb (ext : bool) (m : string) (v : value) {struct v} : bool :=
  match v with
  | VMsg fs =>
      match lookup_msg sch m with
      | None => false
      | Some desc =>
          nodupb N.eqb (map fst fs) &&
          nodupb String.eqb (groups_of desc fs) &&
          forallb (typed_field ext (typedb ext) desc) fs
      end
  | _ => false
  end.

Definition typed (m : string) (v : value) : Prop := typedb false m v = true.

End Codec.

(* the codec handles every kind the schema uses *)
Definition field_supported (f : field) : bool :=
  match f_ty f with TM _ => true | t => leaf_supported t end &&
  match f_card f with CMap k => leaf_supported (TS k) | _ => true end.
Definition codec_supports (sch : schema) : bool :=
  forallb (fun d => forallb field_supported (m_fields d)) (s_msgs sch).

(* nesting depth, the fuel the decoder needs *)
Fixpoint depth (v : value) : nat :=
  match v with
  | VMsg fs => S (fold_right (fun nv n => Nat.max (depth (snd nv)) n) O fs)
  | VList vs => fold_right (fun e n => Nat.max (depth e) n) O vs
  | VMap kvs => fold_right (fun kv n => Nat.max (depth (snd kv)) n) O kvs
  | _ => O
  end.
Definition fuel_for (v : value) : nat := S (depth v).

(* ------------------------------------------------------------------ order-insensitive equality
   (fields of a message and entries of a map are finite maps: prost re-encodes HashMaps in an
   arbitrary order and emits fields by number) *)
Fixpoint veqb (a b : value) {struct a} : bool :=
  match a, b with
  | VU64 x, VU64 y => x =? y
  | VI64 x, VI64 y => Z.eqb x y
  | VBool x, VBool y => Bool.eqb x y
  | VF64 x, VF64 y => x =? y
  | VStr x, VStr y => list_eqb N.eqb x y
  | VEnum x, VEnum y => Z.eqb x y
  | VMsg fa, VMsg fb =>
      Nat.eqb (List.length fa) (List.length fb) &&
      forallb (fun nx : N * value =>
                 existsb (fun ny : N * value => (fst nx =? fst ny) && veqb (snd nx) (snd ny)) fb) fa
  | VList xa, VList xb =>
      (fix go (l1 : list value) (l2 : list value) : bool :=
         match l1, l2 with
         | [], [] => true
         | x :: r1, y :: r2 => veqb x y && go r1 r2
         | _, _ => false
         end) xa xb
  | VMap ka, VMap kb =>
      Nat.eqb (List.length ka) (List.length kb) &&
      forallb (fun kx : value * value =>
                 existsb (fun ky : value * value => key_eqb (fst kx) (fst ky) && veqb (snd kx) (snd ky)) kb) ka
  | _, _ => false
  end.

(* -0.0 -> +0.0 everywhere (prost's `!= 0.0` default test drops an implicit -0.0) *)
Fixpoint squash (v : value) : value :=
  match v with
  | VF64 n => if n =? 2 ^ 63 then VF64 0 else v
  | VMsg fs => VMsg (map (fun nv : N * value => (fst nv, squash (snd nv))) fs)
  | VList vs => VList (map squash vs)
  | VMap kvs => VMap (map (fun kv : value * value => (fst kv, squash (snd kv))) kvs)
  | _ => v
  end.

Fixpoint has_map (v : value) : bool :=
  match v with
  | VMsg fs => existsb (fun nv : N * value => has_map (snd nv)) fs
  | VList vs => existsb has_map vs
  | VMap [] => false
  | VMap _ => true
  | _ => false
  end.
Fixpoint has_negzero (v : value) : bool :=
  match v with
  | VF64 n => n =? 2 ^ 63
  | VMsg fs => existsb (fun nv : N * value => has_negzero (snd nv)) fs
  | VList vs => existsb has_negzero vs
  | VMap kvs => existsb (fun kv : value * value => has_negzero (snd kv)) kvs
  | _ => false
  end.
