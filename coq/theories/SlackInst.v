(* SlackInst.v — C13 at instance level: the integer-slack conversions followed by
   Instance::evaluate.

   convert_slack (convert_inequality_to_equality_with_integer_slack), slack-introducing case:
   the converted instance J evaluates at x extended by sid := k for EVERY integer k within the
   bounds of the new variable; the solution has the same objective value, literally the same
   evaluated records for every other constraint (active and removed), the record of constraint
   cid carries the value f(x) + k/a with equality kind, the reported state is the reported state
   of I followed by (sid, k); and at every integer point of the box
       I feasible at x  <->  J feasible at x + (sid := k) for SOME integer 0 <= k <= ub
   both for `feasible_relaxed` (active constraints) and `feasible` (active and removed), where
   feasibility is the SDK's tolerant test (|v| < 1e-6 resp. v < 1e-6).
   add_slack (add_integer_slack_to_inequality): the same with f(x) + b*k <= 0.
   The "always satisfied" case of both (constraint moved to the removed list; no variable added):
   when I and J both evaluate at x, `feasible` is unchanged, and `feasible_relaxed` is unchanged at
   every (integer) point of the box, where the constraint does hold. *)
Require Import Ommx.Num Ommx.Poly Ommx.Msg Ommx.Eval Ommx.Tree Ommx.Arith Ommx.ArithProofs Ommx.Inst
        Ommx.InstProofs Ommx.Relax Ommx.Transform Ommx.TransformProofs Ommx.Subst Ommx.SubstProofs
        Ommx.PEvalIds Ommx.Bound Ommx.BoundProofs Ommx.BoundContent Ommx.BoundEval Ommx.Slack
        Ommx.SlackProofs.
From Coq Require Import String.
From Coq Require Qcabs.
Close Scope string_scope.
Open Scope list_scope.
Open Scope Qc_scope.

(* ================= states extended at the end ================= *)
Lemma sget_app s t i : sget (s ++ t) i = match sget s i with Some w => Some w | None => sget t i end.
Proof.
  induction s as [|[j w] s IH]; cbn [app sget]; [reflexivity|].
  destruct (i =? j)%N; [reflexivity|exact IH].
Qed.

Lemma sext_app s t : sext s (s ++ t).
Proof. intros i v H. rewrite sget_app, H. reflexivity. Qed.

Lemma sget_none_keys s i : sget s i = None -> forall iv, In iv s -> fst iv <> i.
Proof.
  induction s as [|[j w] s IH]; cbn [sget]; intros H iv Hin; [destruct Hin|].
  destruct (i =? j)%N eqn:E; [discriminate|]. apply N.eqb_neq in E.
  destruct Hin as [<-|Hin]; [cbn [fst]; congruence|apply IH; assumption].
Qed.

Lemma sget_app_single_other s j v i : i <> j -> sget (s ++ [(j, v)]) i = sget s i.
Proof.
  intro Ne. rewrite sget_app. destruct (sget s i); [reflexivity|]. cbn [sget].
  apply N.eqb_neq in Ne. rewrite Ne. reflexivity.
Qed.
Lemma sget_app_single_fresh s j v : sget s j = None -> sget (s ++ [(j, v)]) j = Some v.
Proof. intro G. rewrite sget_app, G. cbn [sget]. rewrite N.eqb_refl. reflexivity. Qed.

(* a function that does not mention j evaluates alike (success or failure) *)
Lemma fn_eval_app_fresh g s j v : ~ occurs g j -> fn_eval g (s ++ [(j, v)]) = fn_eval g s.
Proof.
  intro No. destruct (fn_eval g s) as [r|] eqn:E.
  - apply (fn_eval_mono g s _ r (sext_app s _) E).
  - destruct (fn_eval g (s ++ [(j, v)])) as [[w ids]|] eqn:E'; [|reflexivity]. exfalso.
    destruct (fn_eval_total g s) as (w' & ids' & E2); [|congruence].
    intros i Oi G. assert (G' : sget (s ++ [(j, v)]) i = None).
    { rewrite sget_app_single_other; [exact G|]. intro Eij. subst. contradiction. }
    rewrite (fn_eval_missing g _ i Oi G') in E'. discriminate.
Qed.

Lemma constr_eval_mono c s s' e : sext s s' -> constr_eval c s = Some e -> constr_eval c s' = Some e.
Proof.
  intros X. unfold constr_eval. destruct (fn_eval (fn_or_zero (c_fn c)) s) as [[v ids]|] eqn:E; [|discriminate].
  rewrite (fn_eval_mono _ _ _ _ X E). auto.
Qed.
Lemma removed_eval_mono r s s' e : sext s s' -> removed_eval r s = Some e -> removed_eval r s' = Some e.
Proof.
  intros X. unfold removed_eval. destruct (r_c r) as [c|]; [|discriminate].
  destruct (constr_eval c s) as [e0|] eqn:E; [|discriminate].
  rewrite (constr_eval_mono _ _ _ _ X E). auto.
Qed.

(* ================= the dependency pass on an extended state ================= *)
Definition deps_avoid (j : N) (deps : list (N * function)) : Prop :=
  forall d g, In (d, g) deps -> ~ occurs g j.

Lemma deps_round_app j v : forall b s failed, deps_avoid j b ->
  deps_round b (s ++ [(j, v)]) failed
  = (fst (deps_round b s failed) ++ [(j, v)], snd (deps_round b s failed)).
Proof.
  induction b as [|[d g] b IH]; intros s failed Av; cbn [deps_round]; [reflexivity|].
  rewrite (fn_eval_app_fresh g s j v); [|apply (Av d g); left; reflexivity].
  assert (Av' : deps_avoid j b) by (intros d' g' Hin; apply (Av d' g'); right; exact Hin).
  destruct (fn_eval g s) as [[w ids]|].
  - change (sset (s ++ [(j, v)]) d w) with (sset s d w ++ [(j, v)]). apply IH. exact Av'.
  - apply IH. exact Av'.
Qed.

Lemma deps_round_failed_in : forall b s failed s' failed',
  deps_round b s failed = (s', failed') -> forall x, In x failed' -> In x failed \/ In x b.
Proof.
  induction b as [|[d g] b IH]; intros s failed s' failed' H x Hx; cbn [deps_round] in H.
  - inversion H; subst. left. exact Hx.
  - destruct (fn_eval g s) as [[w ids]|].
    + destruct (IH _ _ _ _ H x Hx) as [H1|H1]; [left; exact H1|right; right; exact H1].
    + destruct (IH _ _ _ _ H x Hx) as [H1|H1]; [|right; right; exact H1].
      apply in_app_or in H1. destruct H1 as [H1|[<-|[]]]; [left; exact H1|right; left; reflexivity].
Qed.

Lemma eval_deps_fuel_app j v : forall fuel bucket last s, deps_avoid j bucket ->
  eval_deps_fuel fuel bucket last (s ++ [(j, v)])
  = match eval_deps_fuel fuel bucket last s with Some s1 => Some (s1 ++ [(j, v)]) | None => None end.
Proof.
  induction fuel as [|fuel IH]; intros bucket last s Av; cbn [eval_deps_fuel]; [reflexivity|].
  assert (Avr : deps_avoid j (rev bucket)).
  { intros d g Hin. apply (Av d g). apply in_rev. exact Hin. }
  rewrite (deps_round_app j v (rev bucket) s [] Avr).
  destruct (deps_round (rev bucket) s []) as [s' failed] eqn:Rd. cbn [fst snd].
  destruct failed as [|f0 failed]; [reflexivity|].
  destruct (Nat.eqb last (List.length (f0 :: failed))); [reflexivity|].
  apply IH. intros d g Hin. destruct (deps_round_failed_in _ _ _ _ _ Rd (d, g) Hin) as [[]|H1].
  apply (Avr d g). exact H1.
Qed.

Lemma eval_deps_app j v deps s s1 : deps_avoid j deps ->
  eval_deps deps s = Some s1 -> eval_deps deps (s ++ [(j, v)]) = Some (s1 ++ [(j, v)]).
Proof. intros Av H. unfold eval_deps in *. rewrite (eval_deps_fuel_app j v _ _ _ _ Av), H. reflexivity. Qed.

(* ================= fixed values and vacant variables ================= *)
Lemma insert_subst_app_state t : forall dvs s, insert_subst dvs (s ++ t) = insert_subst dvs s ++ t.
Proof.
  induction dvs as [|d dvs IH]; intro s; cbn [insert_subst]; [reflexivity|].
  destruct (dv_subst d) as [w|]; [|apply IH].
  change (sset (s ++ t) (dv_id d) w) with (sset s (dv_id d) w ++ t). apply IH.
Qed.
Lemma insert_subst_app_dvs : forall a b s, insert_subst (a ++ b) s = insert_subst b (insert_subst a s).
Proof. induction a as [|d a IH]; intros b s; cbn [app insert_subst]; [reflexivity|apply IH]. Qed.

Lemma fill_vacant_app_dvs : forall a b s,
  fill_vacant (a ++ b) s = match fill_vacant a s with Some s' => fill_vacant b s' | None => None end.
Proof.
  induction a as [|d a IH]; intros b s; cbn [app fill_vacant]; [reflexivity|].
  destruct (sget s (dv_id d)); [apply IH|].
  destruct (dv_bound_of d) as [bd|]; [|reflexivity].
  destruct (Inst.nearest_to_zero bd); try reflexivity. apply IH.
Qed.
Lemma fill_vacant_app_state j v : forall dvs s s2, (forall d, In d dvs -> dv_id d <> j) ->
  fill_vacant dvs s = Some s2 -> fill_vacant dvs (s ++ [(j, v)]) = Some (s2 ++ [(j, v)]).
Proof.
  induction dvs as [|d dvs IH]; intros s s2 Fr H; cbn [fill_vacant] in *.
  - inversion H; subst. reflexivity.
  - assert (Fr' : forall d', In d' dvs -> dv_id d' <> j) by (intros d' Hd; apply Fr; right; exact Hd).
    rewrite (sget_app_single_other s j v (dv_id d)); [|apply Fr; left; reflexivity].
    destruct (sget s (dv_id d)); [apply IH; assumption|].
    destruct (dv_bound_of d) as [bd|]; [|discriminate].
    destruct (Inst.nearest_to_zero bd) as [|q| |]; try discriminate.
    change (sset (s ++ [(j, v)]) (dv_id d) q) with (sset s (dv_id d) q ++ [(j, v)]).
    apply IH; assumption.
Qed.

(* ================= the bound check ================= *)
Lemma get_bounds_app a b : forall acc,
  get_bounds (a ++ b) acc = match get_bounds a acc with Some r => get_bounds b r | None => None end.
Proof.
  induction a as [|d a IH]; intro acc; cbn [app get_bounds]; [reflexivity|].
  destruct (dv_bound_of d); [apply IH|reflexivity].
Qed.
Lemma bcheck_fin l u : l <= u -> bcheck (Fin l) (Fin u) = Some (Fin l, Fin u).
Proof.
  intro H. unfold bcheck. cbn [is_nan orb eltb eleb]. rewrite (proj2 (qleb_le _ _) H). reflexivity.
Qed.

Lemma check_bound_slack dvs x sid cid u v :
  sget x sid = None -> 0 <= v -> v <= u -> check_bound dvs x tol7 = true ->
  check_bound (dvs ++ [slack_dv sid cid (Fin 0, Fin u)]) (x ++ [(sid, v)]) tol7 = true.
Proof.
  intros Fx V0 Vu. unfold check_bound. rewrite get_bounds_app.
  destruct (get_bounds dvs []) as [bs|]; [|discriminate]. cbn [get_bounds].
  unfold dv_bound_of. cbn [slack_dv dv_bound]. rewrite (bcheck_fin 0 u (Qcle_trans _ _ _ V0 Vu)).
  intro H. rewrite forallb_app. apply andb_true_iff. split.
  - rewrite forallb_forall in H |- *. intros iv Hin. cbn [slack_dv dv_id lookup].
    pose proof (sget_none_keys x sid Fx iv Hin) as Ne. apply N.eqb_neq in Ne. rewrite Ne.
    apply H. exact Hin.
  - cbn [forallb fst snd lookup slack_dv dv_id]. rewrite N.eqb_refl. rewrite andb_true_r.
    unfold Inst.bcontains. cbn [fst snd eadd eleb]. pose proof tol7_pos as T.
    apply andb_true_iff. split; apply qleb_le; qc2q; lra.
Qed.

(* ================= the constraint loops ================= *)
Definition feas_compat (e e' : evaluated) : Prop :=
  forall b, is_feasible e tol6 = Some b ->
  exists b', is_feasible e' tol6 = Some b' /\ (b' = true -> b = true).
Lemma feas_compat_refl e : feas_compat e e.
Proof. intros b H. exists b. auto. Qed.

(* if the loop over l succeeds, so does the loop over a list that is elementwise "no more
   feasible" started with a flag that is no more true *)
Lemma loop_exists {X Y} (ev : X -> state -> option evaluated) (ev' : Y -> state -> option evaluated) s s' :
  forall l l',
  Forall2 (fun x y => forall e, ev x s = Some e -> exists e', ev' y s' = Some e' /\ feas_compat e e') l l' ->
  forall flag flag' acc acc' fl es, (flag' = true -> flag = true) ->
  eval_loop ev l s flag acc = Some (fl, es) ->
  exists fl' es', eval_loop ev' l' s' flag' acc' = Some (fl', es') /\ (fl' = true -> fl = true).
Proof.
  induction 1 as [|x y l l' Hxy F IH]; intros flag flag' acc acc' fl es Hf H; cbn [eval_loop] in *.
  - inversion H; subst. exists flag', acc'. auto.
  - destruct (ev x s) as [e|] eqn:E; [|discriminate].
    destruct (Hxy e eq_refl) as (e' & E' & C). rewrite E'. destruct flag'.
    + rewrite (Hf eq_refl) in H. destruct (is_feasible e tol6) as [b|] eqn:Fb; [|discriminate].
      destruct (C b Fb) as (b' & Fb' & Hb). rewrite Fb'. exact (IH b b' (acc ++ [e]) (acc' ++ [e']) fl es Hb H).
    + destruct flag.
      * destruct (is_feasible e tol6) as [b|]; [|discriminate].
        apply (IH b false (acc ++ [e]) (acc' ++ [e']) fl es); [intro D; discriminate|exact H].
      * apply (IH false false (acc ++ [e]) (acc' ++ [e']) fl es); [intro D; discriminate|exact H].
Qed.

Lemma Forall2_same {X} (P : X -> X -> Prop) l : (forall x, P x x) -> Forall2 P l l.
Proof. intro H. induction l; constructor; auto. Qed.

Lemma Forall2_fun {X Y} (g : X -> option Y) l : forall l1 l2,
  Forall2 (fun a b => g a = Some b) l l1 -> Forall2 (fun a b => g a = Some b) l l2 -> l1 = l2.
Proof.
  induction l as [|a l IH]; intros l1 l2 H1 H2; inversion H1; inversion H2; subst; [reflexivity|].
  f_equal; [congruence|apply IH; assumption].
Qed.

(* the records behind a solution, in functional form *)
Lemma inst_eval_records I s sol : inst_eval I s = Some sol ->
  exists ea er, so_evaluated sol = ea ++ er /\
    Forall2 (fun c e => constr_eval c s = Some e) (i_cs I) ea /\
    Forall2 (fun r e => removed_eval r s = Some e) (i_rs I) er /\
    (so_feasible_relaxed sol = true <-> Forall holds ea) /\
    (so_feasible sol = true <-> Forall holds (ea ++ er)).
Proof.
  unfold inst_eval. destruct (negb (check_bound (i_dvs I) s tol7)); [discriminate|].
  destruct (eval_loop constr_eval (i_cs I) s true []) as [[fr ev1]|] eqn:L1; [|discriminate].
  destruct (eval_loop removed_eval (i_rs I) s fr ev1) as [[fe ev2]|] eqn:L2; [|discriminate].
  destruct (fn_eval (fn_or_zero (i_obj I)) s) as [[obj ids]|]; [|discriminate].
  destruct (eval_deps (i_deps I) (insert_subst (i_dvs I) s)) as [s1|]; [|discriminate].
  destruct (fill_vacant (i_dvs I) s1) as [s2|]; [|discriminate].
  intro H; inversion H; subst; clear H. cbn [so_evaluated so_feasible so_feasible_relaxed].
  apply eval_loop_spec in L1. destruct L1 as (ea & -> & Fa & Ha). cbn [app] in *.
  apply eval_loop_spec in L2. destruct L2 as (er & -> & Fr & Hr).
  exists ea, er. split; [reflexivity|]. split; [exact Fa|]. split; [exact Fr|]. split.
  - rewrite Ha. tauto.
  - rewrite Hr, Ha. rewrite Forall_app. tauto.
Qed.

(* ================= evaluation of the instance with an appended slack variable ================= *)
(* J = I with the slack variable [0, u] appended and the constraint list replaced by one that is
   elementwise evaluable and no more feasible at the extended state *)
Lemma slack_eval_exists I sid cid u v cs' x solI :
  (forall d, In d (i_dvs I) -> dv_id d <> sid) ->
  sget x sid = None ->
  deps_avoid sid (i_deps I) ->
  0 <= v -> v <= u ->
  Forall2 (fun c c' => forall e, constr_eval c x = Some e ->
             exists e', constr_eval c' (x ++ [(sid, v)]) = Some e' /\ feas_compat e e') (i_cs I) cs' ->
  inst_eval I x = Some solI ->
  exists solJ,
    inst_eval (set_dvs_cs I (i_dvs I ++ [slack_dv sid cid (Fin 0, Fin u)]) cs') (x ++ [(sid, v)]) = Some solJ /\
    so_objective solJ = so_objective solI /\
    so_state solJ = so_state solI ++ [(sid, v)] /\
    so_dvs solJ = i_dvs I ++ [slack_dv sid cid (Fin 0, Fin u)].
Proof.
  intros Fd Fx Av V0 Vu Rel. unfold inst_eval. cbn [set_dvs_cs i_dvs i_cs i_rs i_obj i_deps].
  destruct (check_bound (i_dvs I) x tol7) eqn:Cb; cbn [negb]; [|discriminate].
  rewrite (check_bound_slack _ _ sid cid u v Fx V0 Vu Cb). cbn [negb].
  destruct (eval_loop constr_eval (i_cs I) x true []) as [[fr ev1]|] eqn:L1; [|discriminate].
  destruct (eval_loop removed_eval (i_rs I) x fr ev1) as [[fe ev2]|] eqn:L2; [|discriminate].
  destruct (fn_eval (fn_or_zero (i_obj I)) x) as [[obj ids]|] eqn:Eo; [|discriminate].
  destruct (eval_deps (i_deps I) (insert_subst (i_dvs I) x)) as [s1|] eqn:Ed; [|discriminate].
  destruct (fill_vacant (i_dvs I) s1) as [s2|] eqn:Ef; [|discriminate].
  intro H; inversion H; subst; clear H. cbn [so_objective so_state so_dvs].
  destruct (loop_exists constr_eval constr_eval x (x ++ [(sid, v)]) _ _ Rel true true [] [] fr ev1
              (fun e => e) L1) as (fr' & ev1' & L1' & _).
  rewrite L1'.
  assert (RelR : Forall2 (fun r r' => forall e, removed_eval r x = Some e ->
             exists e', removed_eval r' (x ++ [(sid, v)]) = Some e' /\ feas_compat e e') (i_rs I) (i_rs I)).
  { apply Forall2_same. intros r e E. exists e. split; [|apply feas_compat_refl].
    eapply removed_eval_mono; [apply sext_app|exact E]. }
  assert (Hfl : fr' = true -> fr = true).
  { destruct (loop_exists constr_eval constr_eval x (x ++ [(sid, v)]) _ _ Rel true true [] [] fr ev1
              (fun e => e) L1) as (fr2 & ev2' & L2' & K). rewrite L1' in L2'. inversion L2'; subst. exact K. }
  destruct (loop_exists removed_eval removed_eval x (x ++ [(sid, v)]) _ _ RelR fr fr' ev1 ev1' fe ev2
              Hfl L2) as (fe' & ev2' & L2' & _).
  rewrite L2'.
  rewrite (fn_eval_mono _ _ _ _ (sext_app x _) Eo).
  rewrite insert_subst_app_dvs. cbn [insert_subst slack_dv dv_subst].
  rewrite insert_subst_app_state. rewrite (eval_deps_app sid v _ _ _ Av Ed).
  rewrite fill_vacant_app_dvs. rewrite (fill_vacant_app_state sid v _ _ _ Fd Ef).
  cbn [fill_vacant slack_dv dv_id].
  assert (G : exists w, sget (s2 ++ [(sid, v)]) sid = Some w).
  { rewrite sget_app. destruct (sget s2 sid) as [w|]; [eauto|]. cbn [sget]. rewrite N.eqb_refl. eauto. }
  destruct G as (w & ->).
  eexists. split; [reflexivity|]. cbn [so_objective so_state so_dvs]. auto.
Qed.

(* ================= the replaced constraint ================= *)
Lemma find_replace_split cid c' : forall cs c, find_constr cid cs = Some c ->
  exists pre post, cs = pre ++ c :: post /\ replace_constr cid c' cs = pre ++ c' :: post /\ c_id c = cid.
Proof.
  induction cs as [|c0 cs IH]; intros c H; cbn [find_constr replace_constr] in *; [discriminate|].
  destruct (c_id c0 =? cid)%N eqn:E.
  - inversion H; subst. exists [], cs. apply N.eqb_eq in E. auto.
  - destruct (IH c H) as (pre & post & -> & -> & Ei). exists (c0 :: pre), post. auto.
Qed.

Lemma qabs_lt_upper y t : qabs y < t -> y < t.
Proof. intro H. eapply Qcle_lt_trans; [apply Qcabs.Qcle_Qcabs|exact H]. Qed.

(* the record of the new constraint f' = f + w * s at the extended state *)
Lemma slack_constr_rel c f f' eq' w v sid x :
  c_eq c = LE_ZERO -> c_fn c = Some f -> (eq' = EQ_ZERO \/ eq' = LE_ZERO) ->
  (forall rho, denote f' rho = denote f rho + w * rho sid) ->
  (forall i, occurs f' i -> occurs f i \/ i = sid) ->
  0 <= w * v -> sget x sid = None ->
  forall e, constr_eval c x = Some e ->
  exists e', constr_eval {| c_id := c_id c; c_eq := eq'; c_fn := Some f'; c_meta := c_meta c |} (x ++ [(sid, v)]) = Some e' /\
    ev_id e = c_id c /\ ev_id e' = c_id c /\ ev_eq e = LE_ZERO /\ ev_eq e' = eq' /\
    ev_value e' = ev_value e + w * v /\ ev_meta e' = ev_meta e /\
    ev_removed e = None /\ ev_removed e' = None /\
    (holds e' -> holds e) /\ feas_compat e e'.
Proof.
  intros Hle Hfn Heq Hval Hocc Wv Fx e. unfold constr_eval. cbn [c_fn c_id c_eq c_meta]. rewrite Hfn. cbn [fn_or_zero].
  destruct (fn_eval f x) as [[val ids]|] eqn:E; [|discriminate].
  intro H; inversion H; subst e; clear H.
  destruct (fn_eval_total f' (x ++ [(sid, v)])) as (val' & ids' & E').
  { intros i Oi. destruct (Hocc i Oi) as [Of| ->].
    - intro G. assert (Gx : sget x i = None).
      { destruct (sget x i) as [q|] eqn:Gq; [|reflexivity]. rewrite (sext_app x _ i q Gq) in G. discriminate. }
      rewrite (fn_eval_missing f x i Of Gx) in E. discriminate.
    - rewrite (sget_app_single_fresh x sid v Fx). discriminate. }
  rewrite E'. eexists. split; [reflexivity|].
  assert (Ev : val' = val + w * v).
  { pose proof (total_agrees (x ++ [(sid, v)])) as Ag.
    assert (Agx : agrees (total (x ++ [(sid, v)])) x) by (intros i q G; apply Ag; apply (sext_app x _ i q G)).
    apply fn_eval_sound in E. apply fn_eval_sound in E'.
    rewrite (proj1 E' _ Ag), (proj1 E _ Agx), Hval. f_equal. f_equal.
    unfold total. rewrite (sget_app_single_fresh x sid v Fx). reflexivity. }
  assert (Hh : forall e e' : evaluated, ev_eq e = LE_ZERO -> ev_eq e' = eq' -> ev_value e' = ev_value e + w * v ->
                holds e' -> holds e).
  { intros e0 e1 H0 H1 Hv Hh. right. split; [exact H0|].
    assert (Lt : ev_value e1 < tol6).
    { destruct Hh as [[_ Hh]|[_ Hh]]; [apply qabs_lt_upper; exact Hh|exact Hh]. }
    rewrite Hv in Lt. clear - Lt Wv. qc2q. lra. }
  match goal with |- ev_id ?a = _ /\ ev_id ?b = _ /\ _ => set (e0 := a); set (e1 := b) end.
  assert (Hh01 : holds e1 -> holds e0) by (apply Hh; [exact Hle|reflexivity|exact Ev]).
  split; [reflexivity|]. split; [reflexivity|]. split; [exact Hle|]. split; [reflexivity|].
  split; [exact Ev|]. split; [reflexivity|]. split; [reflexivity|]. split; [reflexivity|].
  split; [exact Hh01|].
  intros b Hb.
  assert (Hs : exists b', is_feasible e1 tol6 = Some b').
  { unfold is_feasible. change (ev_eq e1) with eq'. destruct Heq as [-> | ->].
    - rewrite Z.eqb_refl. eauto.
    - change ((LE_ZERO =? EQ_ZERO)%Z) with false. rewrite Z.eqb_refl. eauto. }
  destruct Hs as (b' & Hb'). exists b'. split; [exact Hb'|]. intros ->.
  apply is_feasible_holds in Hb'. apply Hh01 in Hb'.
  apply is_feasible_holds in Hb'. congruence.
Qed.

(* the value of a polynomial depends on the variables that occur in it only *)
Lemma mono_val_local rho rho' m : (forall i, In i m -> rho i = rho' i) -> mono_val rho m = mono_val rho' m.
Proof.
  induction m as [|i m IH]; intro H; cbn [mono_val]; [reflexivity|].
  rewrite (H i (or_introl eq_refl)), IH; [reflexivity|]. intros k Hk. apply H. right. exact Hk.
Qed.
Lemma val_local rho rho' (t : terms) :
  (forall i, occurs_terms t i -> rho i = rho' i) -> val rho t = val rho' t.
Proof.
  induction t as [|[m c] t IH]; intro H; [reflexivity|]. rewrite !val_cons.
  rewrite (mono_val_local rho rho' m), IH; [reflexivity| |].
  - intros i (m' & c' & Hin & Him). apply H. exists m', c'. split; [right; exact Hin|exact Him].
  - intros i Hi. apply H. exists m, c. split; [left; reflexivity|exact Hi].
Qed.

(* rho gives every variable of f the value it has in x *)
Definition agrees_on (f : function) (rho : valuation) (x : state) : Prop :=
  forall i, occurs f i -> sget x i = Some (rho i).

Lemma denote_agrees_on f rho x : agrees_on f rho x -> denote f rho = denote f (total x).
Proof.
  intro A. unfold denote. apply val_local. intros i Oi. unfold total. rewrite (A i Oi). reflexivity.
Qed.

(* ================= the two solutions, side by side ================= *)
(* solJ is solI with: the same objective value; the reported state followed by (sid, v); the
   evaluated records literally identical except the record of constraint cid, which keeps id and
   metadata, has equality kind eq' and value (old value) + w * v, the old value being f at x; the
   flags judge these records *)
Definition slack_sol_rel (cid sid : N) (eq' : Z) (w v : num) (dvsJ : list dvar) (f : function) (x : state)
           (solI solJ : solution) : Prop :=
  so_objective solJ = so_objective solI /\
  so_state solJ = so_state solI ++ [(sid, v)] /\
  so_dvs solJ = dvsJ /\
  exists pre eI eJ post er,
    so_evaluated solI = (pre ++ eI :: post) ++ er /\
    so_evaluated solJ = (pre ++ eJ :: post) ++ er /\
    ev_id eI = cid /\ ev_id eJ = cid /\ ev_eq eI = LE_ZERO /\ ev_eq eJ = eq' /\
    ev_value eJ = ev_value eI + w * v /\ ev_meta eJ = ev_meta eI /\
    ev_removed eI = None /\ ev_removed eJ = None /\
    (forall rho, agrees_on f rho x -> ev_value eI = denote f rho) /\
    (so_feasible_relaxed solI = true <-> Forall holds (pre ++ eI :: post)) /\
    (so_feasible_relaxed solJ = true <-> Forall holds (pre ++ eJ :: post)) /\
    (so_feasible solI = true <-> Forall holds ((pre ++ eI :: post) ++ er)) /\
    (so_feasible solJ = true <-> Forall holds ((pre ++ eJ :: post) ++ er)).

Lemma Forall_mid {X} (P : X -> Prop) pre a post :
  Forall P (pre ++ a :: post) <-> P a /\ Forall P pre /\ Forall P post.
Proof. rewrite Forall_app, Forall_cons_iff. tauto. Qed.

(* J feasible implies I feasible, whatever the slack value (w * v >= 0) *)
Lemma slack_rel_back cid sid eq' w v dvsJ f x solI solJ :
  slack_sol_rel cid sid eq' w v dvsJ f x solI solJ -> 0 <= w * v ->
  (so_feasible_relaxed solJ = true -> so_feasible_relaxed solI = true) /\
  (so_feasible solJ = true -> so_feasible solI = true).
Proof.
  intros (_ & _ & _ & pre & eI & eJ & post & er & _ & _ & _ & _ & HI & HJ & Hv & _ & _ & _ & _ & F1 & F2 & F3 & F4) Wv.
  assert (Hh : holds eJ -> holds eI).
  { intro Hh. right. split; [exact HI|].
    assert (Lt : ev_value eJ < tol6).
    { destruct Hh as [[_ Hh]|[_ Hh]]; [apply qabs_lt_upper; exact Hh|exact Hh]. }
    rewrite Hv in Lt. clear - Lt Wv. qc2q. lra. }
  rewrite F1, F2, F3, F4, !Forall_app, !Forall_cons_iff. tauto.
Qed.
(* evaluation of the instance in which constraint cid became f + w*s (kind eq') and the slack
   variable s = sid in [0, u] was appended, at x extended by s := v *)
Theorem slack_eval I sid cid c f f' eq' w u v x solI :
  (forall d, In d (i_dvs I) -> dv_id d <> sid) ->
  sget x sid = None ->
  deps_avoid sid (i_deps I) ->
  find_constr cid (i_cs I) = Some c -> c_eq c = LE_ZERO -> c_fn c = Some f ->
  (eq' = EQ_ZERO \/ eq' = LE_ZERO) ->
  (forall rho, denote f' rho = denote f rho + w * rho sid) ->
  (forall i, occurs f' i -> occurs f i \/ i = sid) ->
  0 <= w -> 0 <= v -> v <= u ->
  inst_eval I x = Some solI ->
  let dvsJ := i_dvs I ++ [slack_dv sid cid (Fin 0, Fin u)] in
  let J := set_dvs_cs I dvsJ
             (replace_constr cid {| c_id := c_id c; c_eq := eq'; c_fn := Some f'; c_meta := c_meta c |} (i_cs I)) in
  exists solJ, inst_eval J (x ++ [(sid, v)]) = Some solJ /\ slack_sol_rel cid sid eq' w v dvsJ f x solI solJ.
Proof.
  intros Fd Fx Av Hfc Hle Hfn Heq Hval Hocc W0 V0 Vu HE dvsJ J.
  set (c' := {| c_id := c_id c; c_eq := eq'; c_fn := Some f'; c_meta := c_meta c |}) in *.
  assert (Wv : 0 <= w * v) by (clear - W0 V0; qc2q; nra).
  destruct (find_replace_split cid c' _ _ Hfc) as (pre & post & Ecs & Ecs' & Eid).
  assert (Rsame : forall l, Forall2 (fun c0 c1 => forall e, constr_eval c0 x = Some e ->
             exists e', constr_eval c1 (x ++ [(sid, v)]) = Some e' /\ feas_compat e e') l l).
  { intro l. apply Forall2_same. intros c0 e E. exists e. split; [|apply feas_compat_refl].
    eapply constr_eval_mono; [apply sext_app|exact E]. }
  assert (Rel : Forall2 (fun c0 c1 => forall e, constr_eval c0 x = Some e ->
             exists e', constr_eval c1 (x ++ [(sid, v)]) = Some e' /\ feas_compat e e')
             (i_cs I) (replace_constr cid c' (i_cs I))).
  { rewrite Ecs', Ecs. apply Forall2_app; [apply Rsame|]. constructor; [|apply Rsame].
    intros e E. destruct (slack_constr_rel c f f' eq' w v sid x Hle Hfn Heq Hval Hocc Wv Fx e E)
      as (e' & E' & K). exists e'. split; [exact E'|]. apply K. }
  destruct (slack_eval_exists I sid cid u v _ x solI Fd Fx Av V0 Vu Rel HE) as (solJ & HJ & Ho & Hs & Hd).
  exists solJ. split; [exact HJ|]. split; [exact Ho|]. split; [exact Hs|]. split; [exact Hd|].
  destruct (inst_eval_records _ _ _ HE) as (eaI & erI & SI & FaI & FrI & R1 & R2).
  destruct (inst_eval_records _ _ _ HJ) as (eaJ & erJ & SJ & FaJ & FrJ & R3 & R4).
  cbn [J set_dvs_cs i_cs i_rs] in FaJ, FrJ.
  (* removed records coincide *)
  assert (Er : erJ = erI).
  { apply (Forall2_fun (fun r => removed_eval r (x ++ [(sid, v)])) (i_rs I)); [exact FrJ|].
    eapply Forall2_impl'; [|exact FrI]. intros r e E. cbn beta. eapply removed_eval_mono; [apply sext_app|exact E]. }
  subst erJ.
  (* active records: split at the constraint *)
  rewrite Ecs in FaI. rewrite Ecs' in FaJ.
  apply Forall2_app_inv_l in FaI. destruct FaI as (preI & restI & FpI & FrestI & ->).
  inversion FrestI as [|? eI ? postI EcI FpostI]; subst.
  apply Forall2_app_inv_l in FaJ. destruct FaJ as (preJ & restJ & FpJ & FrestJ & ->).
  inversion FrestJ as [|? eJ ? postJ EcJ FpostJ]; subst.
  assert (Ep : preJ = preI).
  { apply (Forall2_fun (fun c0 => constr_eval c0 (x ++ [(sid, v)])) pre); [exact FpJ|].
    eapply Forall2_impl'; [|exact FpI]. intros c0 e E. cbn beta. eapply constr_eval_mono; [apply sext_app|exact E]. }
  assert (Epo : postJ = postI).
  { apply (Forall2_fun (fun c0 => constr_eval c0 (x ++ [(sid, v)])) post); [exact FpostJ|].
    eapply Forall2_impl'; [|exact FpostI]. intros c0 e E. cbn beta. eapply constr_eval_mono; [apply sext_app|exact E]. }
  subst preJ postJ.
  destruct (slack_constr_rel c f f' eq' w v sid x Hle Hfn Heq Hval Hocc Wv Fx eI EcI)
    as (e' & E' & K1 & K2 & K3 & K4 & K5 & K6 & K7 & K8 & _).
  fold c' in E'. rewrite EcJ in E'. inversion E'; subst e'.
  assert (Kv : forall rho, agrees_on f rho x -> ev_value eI = denote f rho).
  { intros rho A. rewrite (denote_agrees_on f rho x A). revert EcI. unfold constr_eval. rewrite Hfn. cbn [fn_or_zero].
    destruct (fn_eval f x) as [[val ids]|] eqn:Ef; [|discriminate]. intro Hq; inversion Hq; subst eI. cbn [ev_value].
    apply fn_eval_sound in Ef. apply (proj1 Ef). apply total_agrees. }
  exists preI, eI, eJ, postI, erI.
  repeat (split; [assumption|]). exact R4.
Qed.

(* ================= f + w * s : value and variables ================= *)
Section AddSingle.
  Variable tiny : num -> bool.
  Hypothesis TE : tiny_exact tiny.

  Lemma fn_add_single_val f j w f' : fn_add tiny f (FLin (lin_single j w)) = Some f' ->
    forall rho, denote f' rho = denote f rho + w * rho j.
  Proof.
    intros E rho. destruct f as [|a|l|q|p]; cbn [fn_add] in E; try discriminate;
      inversion E; subst f'; clear E; unfold denote; cbn [fn_terms].
    - rewrite (V_lin_add_c rho), (V_lin_single rho), val_cons, val_nil. cbn [mono_val]. ring.
    - rewrite (V_lin_add tiny TE rho), (V_lin_single rho). reflexivity.
    - rewrite (V_quad_add_lin tiny TE rho), (V_lin_single rho). reflexivity.
    - rewrite (V_poly_add tiny TE rho), (V_poly_of_lin tiny TE rho), (V_lin_single rho). reflexivity.
  Qed.

  Lemma lin_add_single_keys l j w i :
    In i (map fst (l_terms (lin_add tiny l (lin_single j w)))) -> In i (map fst (l_terms l)) \/ i = j.
  Proof.
    unfold lin_add; cbn [l_terms lin_single]. intro H.
    apply (merge_keys N.eqb Neqb_spec tiny _ i) in H. unfold keys in H.
    rewrite map_app in H. apply in_app_or in H. destruct H as [H|[<-|[]]]; auto.
  Qed.

  Lemma fn_add_single_occurs f j w f' : fn_add tiny f (FLin (lin_single j w)) = Some f' ->
    forall i, occurs f' i -> occurs f i \/ i = j.
  Proof.
    intros E i. destruct f as [|a|l|q|p]; cbn [fn_add] in E; try discriminate;
      inversion E; subst f'; clear E; unfold occurs; cbn [fn_terms].
    - rewrite occurs_lin_terms. cbn [lin_add_c l_terms lin_single map fst In]. intros [<-|[]]. right. reflexivity.
    - rewrite !occurs_lin_terms. apply lin_add_single_keys.
    - rewrite !occurs_quad_terms. unfold quad_add_lin, q_entries. cbn [set_lin q_rows q_cols q_vals q_lin].
      intros [H|H]; [left; left; exact H|].
      destruct (q_lin q) as [l0|].
      + apply lin_add_single_keys in H. destruct H as [H|H]; [left; right; exact H|right; exact H].
      + cbn [lin_single l_terms map fst In] in H. destruct H as [<-|[]]. right. reflexivity.
    - unfold poly_add. intro H. apply occurs_merge_terms in H. apply occurs_terms_app in H.
      destruct H as [H|H]; [left; exact H|right].
      unfold poly_of_lin, poly_from_iter in H. apply occurs_merge_terms in H.
      assert (H' : occurs_terms (lin_terms (lin_single j w)) i).
      { destruct H as (m & c & Hin & Him). unfold Arith.lin_iter in Hin. apply filter_In in Hin.
        exists m, c. split; [apply Hin|exact Him]. }
      apply occurs_lin_terms in H'. cbn [lin_single l_terms map fst In] in H'. destruct H' as [<-|[]]. reflexivity.
  Qed.
End AddSingle.

(* ================= the prologue and the box ================= *)
Lemma prologue_inv I cid bs c f : slack_prologue I cid true = inr (bs, c, f) ->
  box_of (i_dvs I) [] = Some bs /\ find_constr cid (i_cs I) = Some c /\ c_eq c = LE_ZERO /\ c_fn c = Some f.
Proof.
  unfold slack_prologue. destruct (box_of (i_dvs I) []) as [bs0|]; [|discriminate].
  destruct (find_constr cid (i_cs I)) as [c0|]; [|discriminate].
  destruct (c_eq c0 =? LE_ZERO)%Z eqn:E; cbn [negb]; [|discriminate].
  destruct (c_fn c0) as [f0|] eqn:Ef; [|discriminate].
  destruct (check_kinds (used_sorted f0) (i_dvs I)); [discriminate|].
  intro H; inversion H; subst. apply Z.eqb_eq in E. auto.
Qed.

Lemma bcheck_valid l0 u0 l u : bcheck l0 u0 = Some (l, u) -> valid {| lower := l; upper := u |}.
Proof.
  unfold bcheck. destruct (is_nan l0 || is_nan u0) eqn:En; [discriminate|].
  intro H.
  assert (K : eltb u0 l0 = false /\ l0 <> PInf /\ u0 <> NInf /\ l = l0 /\ u = u0).
  { destruct l0 as [|ql| |], u0 as [|qu| |]; try discriminate;
      (destruct (eltb _ _) eqn:El; [discriminate|]); inversion H; subst;
      repeat split; auto; discriminate. }
  destruct K as (El & N1 & N2 & -> & ->).
  unfold valid, bnew. cbn [lower upper]. rewrite En.
  destruct l0 as [|ql| |], u0 as [|qu| |]; try congruence; cbn [eeqb orb]; rewrite El; reflexivity.
Qed.
Lemma dv_bound_of_valid d l u : dv_bound_of d = Some (l, u) -> valid {| lower := l; upper := u |}.
Proof.
  unfold dv_bound_of. destruct (dv_bound d) as [[l0 u0]|]; [apply bcheck_valid|].
  destruct (dv_kind d =? KIND_BINARY)%Z; intro H; inversion H; subst; reflexivity.
Qed.
Lemma box_of_valid : forall dvs acc bs, box_of dvs acc = Some bs -> valid_box acc -> valid_box bs.
Proof.
  induction dvs as [|d dvs IH]; intros acc bs H V; cbn [box_of] in H.
  - inversion H; subst. exact V.
  - destruct (dv_bound_of d) as [[l u]|] eqn:Ed; [|discriminate].
    apply (IH _ _ H). intros i b. cbn [bget]. destruct (i =? dv_id d)%N.
    + intro Hb; inversion Hb; subst. eapply dv_bound_of_valid; exact Ed.
    + apply V.
Qed.

(* I feasible implies J feasible at a slack value for which the new record holds *)
Lemma holds_upper e : holds e -> ev_value e < tol6.
Proof. intros [[_ H]|[_ H]]; [apply qabs_lt_upper; exact H|exact H]. Qed.

Lemma slack_rel_fwd cid sid eq' w v dvsJ f x solI solJ :
  slack_sol_rel cid sid eq' w v dvsJ f x solI solJ ->
  (forall vI, vI < tol6 -> (forall rho, agrees_on f rho x -> vI = denote f rho) ->
     (eq' = EQ_ZERO /\ qabs (vI + w * v) < tol6) \/ (eq' = LE_ZERO /\ vI + w * v < tol6)) ->
  (so_feasible_relaxed solI = true -> so_feasible_relaxed solJ = true) /\
  (so_feasible solI = true -> so_feasible solJ = true).
Proof.
  intros (_ & _ & _ & pre & eI & eJ & post & er & _ & _ & _ & _ & HI & HJ & Hv & _ & _ & _ & Kv & F1 & F2 & F3 & F4) C.
  assert (Hh : holds eI -> holds eJ).
  { intro Hh. apply holds_upper in Hh. unfold holds. rewrite HJ, Hv. apply (C _ Hh Kv). }
  rewrite F1, F2, F3, F4, !Forall_app, !Forall_cons_iff. tauto.
Qed.

Lemma relax_dvs I id r p J : relax I id r p = Some J -> i_dvs J = i_dvs I.
Proof.
  unfold relax. destruct (extract _ (i_cs I)) as [[c cs]|]; [|discriminate].
  intro H; inversion H; subst. reflexivity.
Qed.

Lemma Z_of_qz_range z k : 0 <= qz k -> qz k <= qz z -> (0 <= k <= z)%Z.
Proof. intros H0 H1. rewrite <- qz_0 in H0. split; apply qz_le_inv; assumption. Qed.

(* ================= convert_inequality_to_equality_with_integer_slack ================= *)
Section Convert.
  Variable tiny : num -> bool.
  Hypothesis TE : tiny_exact tiny.

  (* the slack-introducing case, with the bound of the new variable as an integer *)
  Lemma convert_slack_intro I cid mx J bs c f :
    convert_slack tiny I cid mx = inr J -> slack_prologue I cid true = inr (bs, c, f) ->
    i_dvs J <> i_dvs I ->
    exists a af B0 B z f',
      content_factor f = Some a /\ fn_mul tiny f (FConst a) = Some af /\
      evaluate_bound af bs = Some B0 /\ as_integer_bound B0 = Some B /\
      lower B = Fin (qz z) /\ (z <= 0)%Z /\
      fn_add tiny f (FLin (lin_single (next_id (i_dvs I)) (1 / a))) = Some f' /\
      J = set_dvs_cs I (i_dvs I ++ [slack_dv (next_id (i_dvs I)) cid (Fin 0, Fin (qz (- z)))])
            (replace_constr cid {| c_id := c_id c; c_eq := EQ_ZERO; c_fn := Some f'; c_meta := c_meta c |} (i_cs I)).
  Proof.
    intros HC HP Nd.
    destruct (convert_slack_spec tiny I cid mx J HC) as (bs0 & c0 & f0 & a & af & B0 & B & HP0 & Ha & Hm & He & Hi & Hg & Hcase).
    rewrite HP in HP0. inversion HP0; subst bs0 c0 f0; clear HP0.
    destruct Hcase as [[_ Hr]|(_ & Hrange & f' & Hadd & EJ)].
    { exfalso. apply Nd. eapply relax_dvs; exact Hr. }
    destruct (as_integer_bound_endpoints _ _ Hi) as [Hlo _].
    destruct (lower B) as [|l| |] eqn:El; try contradiction.
    { cbn [eneg eltb eleb negb] in Hrange. discriminate. }
    destruct Hlo as (z & ->).
    assert (Hz : (z <= 0)%Z).
    { unfold ext_gt0 in Hg. cbn [eltb eleb] in Hg. apply negb_false_iff in Hg. apply qleb_le in Hg.
      apply qz_le_inv. rewrite qz_0. exact Hg. }
    exists a, af, B0, B, z, f'. split; [exact Ha|]. split; [exact Hm|]. split; [exact He|].
    split; [exact Hi|]. split; [exact El|]. split; [exact Hz|]. split; [exact Hadd|].
    rewrite EJ. cbn [eneg]. rewrite <- qz_opp. reflexivity.
  Qed.

  Theorem convert_slack_feasible_iff : forall I cid mx J bs c f,
    (* the conversion succeeded on constraint cid (function f, box bs of the decision variables) ... *)
    convert_slack tiny I cid mx = inr J ->
    slack_prologue I cid true = inr (bs, c, f) ->
    (* ... and introduced a slack variable (the other successful case moves the constraint to the
       removed list and leaves the variables alone, see convert_slack_always) *)
    i_dvs J <> i_dvs I ->
    (* no dependent-variable definition of I mentions the id chosen for the slack variable *)
    deps_avoid (next_id (i_dvs I)) (i_deps I) ->
    let sid := next_id (i_dvs I) in
    exists (a : num) (ub : Z),
      content_factor f = Some a /\ 0 < a /\ (0 <= ub)%Z /\
      i_dvs J = i_dvs I ++ [slack_dv sid cid (Fin 0, Fin (qz ub))] /\
      forall x solI,
        (* the state gives no value to the new id and I evaluates at it *)
        sget x sid = None -> inst_eval I x = Some solI ->
        (* (1) J evaluates at x + (sid := k) for every integer k within the bounds of the slack; the
               solution is that of I up to the record of constraint cid (value f(x) + k/a, equality)
               and the extra entry of the state; J feasible implies I feasible *)
        (forall k, (0 <= k <= ub)%Z ->
           exists solJ, inst_eval J (x ++ [(sid, qz k)]) = Some solJ /\
             slack_sol_rel cid sid EQ_ZERO (1 / a) (qz k) (i_dvs J) f x solI solJ /\
             (so_feasible_relaxed solJ = true -> so_feasible_relaxed solI = true) /\
             (so_feasible solJ = true -> so_feasible solI = true)) /\
        (* (2) when the values of the variables of f in x extend to an integer point of the box:
               I feasible at x  <->  J feasible at x + (sid := k) for some integer 0 <= k <= ub *)
        ((exists rho, in_box rho bs /\ int_valued rho /\ agrees_on f rho x) ->
           (so_feasible_relaxed solI = true <->
              exists k solJ, (0 <= k <= ub)%Z /\ inst_eval J (x ++ [(sid, qz k)]) = Some solJ /\
                             so_feasible_relaxed solJ = true) /\
           (so_feasible solI = true <->
              exists k solJ, (0 <= k <= ub)%Z /\ inst_eval J (x ++ [(sid, qz k)]) = Some solJ /\
                             so_feasible solJ = true)).
  Proof.
    intros I cid mx J bs c f HC HP Nd Av sid.
    destruct (convert_slack_intro I cid mx J bs c f HC HP Nd)
      as (a & af & B0 & B & z & f' & Ha & Hm & He & Hi & Hl & Hz & Hadd & EJ).
    destruct (prologue_inv _ _ _ _ _ HP) as (Hbox & Hfc & Hle & Hfn).
    destruct (content_factor_sound _ _ Ha) as (Apos & _).
    assert (Ane : a <> 0) by (apply not_eq_sym; apply Qclt_not_eq; exact Apos).
    assert (Ipos : 0 < 1 / a).
    { apply (inv_pos a (1 / a) Apos). field. exact Ane. }
    assert (Iw : 0 <= 1 / a) by (apply Qclt_le_weak; exact Ipos).
    exists a, (- z)%Z. split; [exact Ha|]. split; [exact Apos|]. split; [lia|].
    split; [rewrite EJ; reflexivity|].
    intros x solI Fx HE.
    assert (Fd : forall d, In d (i_dvs I) -> dv_id d <> sid).
    { intros d Hd. pose proof (next_id_above _ _ Hd). unfold sid. lia. }
    assert (P1 : forall k, (0 <= k <= - z)%Z ->
           exists solJ, inst_eval J (x ++ [(sid, qz k)]) = Some solJ /\
             slack_sol_rel cid sid EQ_ZERO (1 / a) (qz k) (i_dvs J) f x solI solJ).
    { intros k [K0 K1].
      assert (V0 : 0 <= qz k) by (rewrite <- qz_0; apply qz_le; exact K0).
      assert (V1 : qz k <= qz (- z)) by (apply qz_le; exact K1).
      destruct (slack_eval I sid cid c f f' EQ_ZERO (1 / a) (qz (- z)) (qz k) x solI Fd Fx Av Hfc Hle Hfn
                  (or_introl eq_refl) (fn_add_single_val tiny TE _ _ _ _ Hadd)
                  (fn_add_single_occurs tiny _ _ _ _ Hadd) Iw V0 V1 HE) as (solJ & HJ & Rel).
      exists solJ. rewrite EJ. split; [exact HJ|exact Rel]. }
    split.
    - intros k Hk. destruct (P1 k Hk) as (solJ & HJ & Rel). exists solJ. split; [exact HJ|]. split; [exact Rel|].
      apply (slack_rel_back _ _ _ _ _ _ _ _ _ _ Rel).
      assert (V0 : 0 <= qz k) by (rewrite <- qz_0; apply qz_le; apply Hk).
      clear - Iw V0. qc2q. nra.
    - intros (rho & Ib & Ir & Ao).
      assert (Vb : valid_box bs).
      { eapply box_of_valid; [exact Hbox|]. intros i b Hb. discriminate. }
      pose proof (convert_equiv tiny TE f a af bs B0 B (qz z) rho Ha Hm He Hi Hl Vb Ib Ir) as Equiv.
      (* the slack value that works when I is feasible *)
      assert (Wit : exists k, (0 <= k <= - z)%Z /\
                forall vI, vI < tol6 -> (forall rho', agrees_on f rho' x -> vI = denote f rho') ->
                  (EQ_ZERO = EQ_ZERO /\ qabs (vI + 1 / a * qz k) < tol6) \/
                  (EQ_ZERO = LE_ZERO /\ vI + 1 / a * qz k < tol6)).
      { destruct (Qclt_le_dec 0 (denote f rho)) as [Pos|Npos].
        - exists 0%Z. split; [lia|]. intros vI Lt Hv. left. split; [reflexivity|].
          rewrite qz_0. replace (vI + 1 / a * 0) with vI by ring.
          rewrite (Hv rho Ao) in *. unfold qabs. rewrite Qcabs.Qcabs_pos; [exact Lt|apply Qclt_le_weak; exact Pos].
        - destruct (proj1 Equiv Npos) as (s & S0 & S1 & Seq). exists s. split.
          + rewrite <- qz_opp in S1. apply Z_of_qz_range; assumption.
          + intros vI Lt Hv. left. split; [reflexivity|]. rewrite (Hv rho Ao).
            replace (denote f rho + 1 / a * qz s) with (denote f rho + qz s * (1 / a)) by ring.
            rewrite Seq, qabs_0. exact tol6_pos. }
      destruct Wit as (k0 & Hk0 & Cond).
      split; split.
      + intro Hf. destruct (P1 k0 Hk0) as (solJ & HJ & Rel). exists k0, solJ. split; [exact Hk0|]. split; [exact HJ|].
        apply (proj1 (slack_rel_fwd _ _ _ _ _ _ _ _ _ _ Rel Cond)). exact Hf.
      + intros (k & solJ & Hk & HJ & Hf). destruct (P1 k Hk) as (solJ' & HJ' & Rel).
        rewrite HJ in HJ'. inversion HJ'; subst solJ'.
        assert (V0 : 0 <= qz k) by (rewrite <- qz_0; apply qz_le; apply Hk).
        apply (proj1 (slack_rel_back _ _ _ _ _ _ _ _ _ _ Rel ltac:(clear - Iw V0; qc2q; nra))). exact Hf.
      + intro Hf. destruct (P1 k0 Hk0) as (solJ & HJ & Rel). exists k0, solJ. split; [exact Hk0|]. split; [exact HJ|].
        apply (proj2 (slack_rel_fwd _ _ _ _ _ _ _ _ _ _ Rel Cond)). exact Hf.
      + intros (k & solJ & Hk & HJ & Hf). destruct (P1 k Hk) as (solJ' & HJ' & Rel).
        rewrite HJ in HJ'. inversion HJ'; subst solJ'.
        assert (V0 : 0 <= qz k) by (rewrite <- qz_0; apply qz_le; apply Hk).
        apply (proj2 (slack_rel_back _ _ _ _ _ _ _ _ _ _ Rel ltac:(clear - Iw V0; qc2q; nra))). exact Hf.
  Qed.
End Convert.

(* ================= add_integer_slack_to_inequality ================= *)
Section AddSlack.
  Variable tiny : num -> bool.
  Hypothesis TE : tiny_exact tiny.

  Lemma add_slack_intro I cid U J bcoef bs c f :
    add_slack tiny I cid U = inr (J, Some bcoef) -> slack_prologue I cid true = inr (bs, c, f) ->
    exists B l f',
      evaluate_bound f bs = Some B /\ lower B = Fin l /\ ext_gt0 (lower B) = false /\ (0 < Z.of_N U)%Z /\
      bcoef = Fin ((- l) / qz (Z.of_N U)) /\
      fn_add tiny f (FLin (lin_single (next_id (i_dvs I)) ((- l) / qz (Z.of_N U)))) = Some f' /\
      J = set_dvs_cs I (i_dvs I ++ [slack_dv (next_id (i_dvs I)) cid (Fin 0, Fin (qz (Z.of_N U)))])
            (replace_constr cid {| c_id := c_id c; c_eq := c_eq c; c_fn := Some f'; c_meta := c_meta c |} (i_cs I)).
  Proof.
    intros HA HP. unfold add_slack in HA. rewrite HP in HA.
    destruct (evaluate_bound f bs) as [B|] eqn:He; [|discriminate].
    destruct (ext_gt0 (lower B)) eqn:Hg; [discriminate|].
    destruct (ext_le0 (upper B)).
    { destruct (relaxed_with I cid _) as [e|I']; [discriminate|]. inversion HA. }
    destruct (lower B) as [|l| |] eqn:El; try discriminate.
    destruct U as [|pu]; [discriminate|].
    destruct (fn_add tiny f (FLin (lin_single (next_id (i_dvs I)) ((- l) / qz (Z.of_N (N.pos pu)))))) as [f'|] eqn:Hadd;
      [|discriminate].
    inversion HA; subst J bcoef; clear HA.
    exists B, l, f'. split; [reflexivity|]. split; [exact El|]. split; [rewrite El; exact Hg|].
    split; [reflexivity|]. split; [reflexivity|]. split; [exact Hadd|reflexivity].
  Qed.

  Theorem add_slack_feasible_iff : forall I cid U J bcoef bs c f,
    (* the operation succeeded on constraint cid and introduced a slack variable (it reports the
       coefficient of the slack; otherwise the constraint was moved to the removed list) *)
    add_slack tiny I cid U = inr (J, Some bcoef) ->
    slack_prologue I cid true = inr (bs, c, f) ->
    deps_avoid (next_id (i_dvs I)) (i_deps I) ->
    let sid := next_id (i_dvs I) in
    exists (b : num) B l,
      evaluate_bound f bs = Some B /\ lower B = Fin l /\ b = (- l) / qz (Z.of_N U) /\
      bcoef = Fin b /\ 0 <= b /\ (0 < Z.of_N U)%Z /\
      i_dvs J = i_dvs I ++ [slack_dv sid cid (Fin 0, Fin (qz (Z.of_N U)))] /\
      forall x solI,
        sget x sid = None -> inst_eval I x = Some solI ->
        (* (1) J evaluates at x + (sid := k) for every integer 0 <= k <= U: same solution up to the
               record of constraint cid (value f(x) + b*k, still an inequality) and the state *)
        (forall k, (0 <= k <= Z.of_N U)%Z ->
           exists solJ, inst_eval J (x ++ [(sid, qz k)]) = Some solJ /\
             slack_sol_rel cid sid LE_ZERO b (qz k) (i_dvs J) f x solI solJ /\
             (so_feasible_relaxed solJ = true -> so_feasible_relaxed solI = true) /\
             (so_feasible solJ = true -> so_feasible solI = true)) /\
        (* (2) I feasible at x  <->  J feasible at x + (sid := k) for some integer 0 <= k <= U *)
        (so_feasible_relaxed solI = true <->
           exists k solJ, (0 <= k <= Z.of_N U)%Z /\ inst_eval J (x ++ [(sid, qz k)]) = Some solJ /\
                          so_feasible_relaxed solJ = true) /\
        (so_feasible solI = true <->
           exists k solJ, (0 <= k <= Z.of_N U)%Z /\ inst_eval J (x ++ [(sid, qz k)]) = Some solJ /\
                          so_feasible solJ = true).
  Proof.
    intros I cid U J bcoef bs c f HA HP Av sid.
    destruct (add_slack_intro I cid U J bcoef bs c f HA HP) as (B & l & f' & He & Hl & Hg & HU & Eb & Hadd & EJ).
    destruct (prologue_inv _ _ _ _ _ HP) as (Hbox & Hfc & Hle & Hfn).
    destruct (add_equiv f bs B l (Z.of_N U) (fun _ => 0) He Hl Hg HU) as [Hb _].
    set (b := (- l) / qz (Z.of_N U)) in *.
    exists b, B, l. split; [exact He|]. split; [exact Hl|]. split; [reflexivity|]. split; [exact Eb|].
    split; [exact Hb|]. split; [exact HU|]. split; [rewrite EJ; reflexivity|].
    intros x solI Fx HE.
    assert (Fd : forall d, In d (i_dvs I) -> dv_id d <> sid).
    { intros d Hd. pose proof (next_id_above _ _ Hd). unfold sid. lia. }
    assert (P1 : forall k, (0 <= k <= Z.of_N U)%Z ->
           exists solJ, inst_eval J (x ++ [(sid, qz k)]) = Some solJ /\
             slack_sol_rel cid sid LE_ZERO b (qz k) (i_dvs J) f x solI solJ).
    { intros k [K0 K1].
      assert (V0 : 0 <= qz k) by (rewrite <- qz_0; apply qz_le; exact K0).
      assert (V1 : qz k <= qz (Z.of_N U)) by (apply qz_le; exact K1).
      destruct (slack_eval I sid cid c f f' LE_ZERO b (qz (Z.of_N U)) (qz k) x solI Fd Fx Av Hfc Hle Hfn
                  (or_intror eq_refl) (fn_add_single_val tiny TE _ _ _ _ Hadd)
                  (fn_add_single_occurs tiny _ _ _ _ Hadd) Hb V0 V1 HE) as (solJ & HJ & Rel).
      exists solJ. rewrite EJ, Hle. split; [exact HJ|exact Rel]. }
    assert (Back : forall k solJ, (0 <= k <= Z.of_N U)%Z ->
              slack_sol_rel cid sid LE_ZERO b (qz k) (i_dvs J) f x solI solJ ->
              (so_feasible_relaxed solJ = true -> so_feasible_relaxed solI = true) /\
              (so_feasible solJ = true -> so_feasible solI = true)).
    { intros k solJ Hk Rel. apply (slack_rel_back _ _ _ _ _ _ _ _ _ _ Rel).
      assert (V0 : 0 <= qz k) by (rewrite <- qz_0; apply qz_le; apply Hk).
      clear - Hb V0. qc2q. nra. }
    assert (Cond : forall vI, vI < tol6 -> (forall rho', agrees_on f rho' x -> vI = denote f rho') ->
                  (LE_ZERO = EQ_ZERO /\ qabs (vI + b * qz 0) < tol6) \/
                  (LE_ZERO = LE_ZERO /\ vI + b * qz 0 < tol6)).
    { intros vI Lt _. right. split; [reflexivity|]. rewrite qz_0. replace (vI + b * 0) with vI by ring. exact Lt. }
    assert (H0 : (0 <= 0 <= Z.of_N U)%Z) by lia.
    split; [|split; split].
    - intros k Hk. destruct (P1 k Hk) as (solJ & HJ & Rel). exists solJ. split; [exact HJ|]. split; [exact Rel|].
      apply (Back k solJ Hk Rel).
    - intro Hf. destruct (P1 0%Z H0) as (solJ & HJ & Rel). exists 0%Z, solJ. split; [exact H0|]. split; [exact HJ|].
      apply (proj1 (slack_rel_fwd _ _ _ _ _ _ _ _ _ _ Rel Cond)). exact Hf.
    - intros (k & solJ & Hk & HJ & Hf). destruct (P1 k Hk) as (solJ' & HJ' & Rel).
      rewrite HJ in HJ'. inversion HJ'; subst solJ'. apply (proj1 (Back k solJ Hk Rel)). exact Hf.
    - intro Hf. destruct (P1 0%Z H0) as (solJ & HJ & Rel). exists 0%Z, solJ. split; [exact H0|]. split; [exact HJ|].
      apply (proj2 (slack_rel_fwd _ _ _ _ _ _ _ _ _ _ Rel Cond)). exact Hf.
    - intros (k & solJ & Hk & HJ & Hf). destruct (P1 k Hk) as (solJ' & HJ' & Rel).
      rewrite HJ in HJ'. inversion HJ'; subst solJ'. apply (proj2 (Back k solJ Hk Rel)). exact Hf.
  Qed.
End AddSlack.

(* ================= the "always satisfied" case ================= *)
Lemma find_constr_first cid a c0 b :
  forallb (fun y => negb (c_id y =? cid)%N) a = true -> (c_id c0 =? cid)%N = true ->
  find_constr cid (a ++ c0 :: b) = Some c0.
Proof.
  induction a as [|y a IH]; cbn [forallb app find_constr]; intros Fa P0; [rewrite P0; reflexivity|].
  apply andb_true_iff in Fa. destruct Fa as [Fy Fa]. apply negb_true_iff in Fy. rewrite Fy. apply IH; assumption.
Qed.

Lemma bool_eq_iff (a b : bool) : (a = true <-> b = true) -> a = b.
Proof.
  destruct a, b; intros [H1 H2]; try reflexivity.
  - symmetry. apply H1. reflexivity.
  - apply H2. reflexivity.
Qed.

(* moving the inequality cid to the removed list: `feasible` is unchanged, and so is
   `feasible_relaxed` at every state where the inequality holds exactly *)
Lemma relax_always I cid r p J c f x solI solJ :
  relax I cid r p = Some J -> find_constr cid (i_cs I) = Some c -> c_eq c = LE_ZERO -> c_fn c = Some f ->
  inst_eval I x = Some solI -> inst_eval J x = Some solJ ->
  so_feasible solJ = so_feasible solI /\
  (denote f (total x) <= 0 -> so_feasible_relaxed solJ = so_feasible_relaxed solI).
Proof.
  intros Hr Hfc Hle Hfn HE HJ. split.
  - apply (run_feasible_invariant I [Relax cid r p] x solI solJ HE).
    unfold run. cbn [fold_left]. unfold step. rewrite Hr. exact HJ.
  - intro Hv. destruct (flags_iff_all_hold _ _ _ HE) as [FI _]. destruct (flags_iff_all_hold _ _ _ HJ) as [FJ _].
    destruct (inst_eval_records _ _ _ HE) as (ea & er & _ & Fa & _).
    unfold relax in Hr. destruct (extract (fun c1 => (c_id c1 =? cid)%N) (i_cs I)) as [[c0 cs']|] eqn:Ex; [|discriminate].
    inversion Hr; subst J; clear Hr. cbn [set_lists i_cs] in FJ.
    destruct (extract_spec _ _ _ _ Ex) as (P0 & _ & a & b & Ea & Eb & Fna).
    rewrite Ea, (find_constr_first cid a c0 b Fna P0) in Hfc. inversion Hfc; subst c0; clear Hfc.
    rewrite Ea in Fa. apply Forall2_app_inv_l in Fa. destruct Fa as (ea1 & ea2 & _ & F2 & _).
    inversion F2 as [|? e ? ? Ec _]; subst.
    assert (Hc : chold x c).
    { exists e. split; [exact Ec|]. revert Ec. unfold constr_eval. rewrite Hfn. cbn [fn_or_zero].
      destruct (fn_eval f x) as [[val ids]|] eqn:Ef; [|discriminate]. intro Hq; inversion Hq; subst e.
      right. cbn [ev_eq ev_value]. split; [exact Hle|].
      apply fn_eval_sound in Ef. rewrite (proj1 Ef _ (total_agrees x)).
      eapply Qcle_lt_trans; [exact Hv|exact tol6_pos]. }
    apply bool_eq_iff. rewrite FI, FJ, Ea, !Forall_app, Forall_cons_iff. tauto.
Qed.

Section Always.
  Variable tiny : num -> bool.
  Hypothesis TE : tiny_exact tiny.

  (* convert: the successful case that introduces no variable.  The constraint holds at every
     integer point of the box (C13_always), it is moved to the removed list, and the flags of J
     are those of I *)
  Theorem convert_slack_always_inst : forall I cid mx J bs c f,
    convert_slack tiny I cid mx = inr J -> slack_prologue I cid true = inr (bs, c, f) ->
    i_dvs J = i_dvs I ->
    relax I cid (A "convert_inequality_to_equality_with_integer_slack"%string) (L []) = Some J /\
    forall x solI solJ, inst_eval I x = Some solI -> inst_eval J x = Some solJ ->
      so_feasible solJ = so_feasible solI /\
      ((exists rho, in_box rho bs /\ int_valued rho /\ agrees_on f rho x) ->
         so_feasible_relaxed solJ = so_feasible_relaxed solI).
  Proof.
    intros I cid mx J bs c f HC HP Ed.
    destruct (convert_slack_spec tiny I cid mx J HC) as (bs0 & c0 & f0 & a & af & B0 & B & HP0 & Ha & Hm & He & Hi & Hg & Hcase).
    rewrite HP in HP0. inversion HP0; subst bs0 c0 f0; clear HP0.
    destruct (prologue_inv _ _ _ _ _ HP) as (Hbox & Hfc & Hle & Hfn).
    destruct Hcase as [[Hu Hr]|(_ & _ & f' & _ & EJ)].
    2:{ exfalso. rewrite EJ in Ed. cbn [set_dvs_cs i_dvs] in Ed.
        apply (f_equal (@List.length dvar)) in Ed. rewrite app_length in Ed. cbn [List.length] in Ed. lia. }
    split; [exact Hr|]. intros x solI solJ HE HJ.
    destruct (relax_always _ _ _ _ _ _ _ _ _ _ Hr Hfc Hle Hfn HE HJ) as [K1 K2]. split; [exact K1|].
    intros (rho & Ib & Ir & Ao). apply K2. rewrite <- (denote_agrees_on f rho x Ao).
    assert (Vb : valid_box bs).
    { eapply box_of_valid; [exact Hbox|]. intros i b Hb. discriminate. }
    exact (convert_always tiny TE f a af bs B0 B rho Ha Hm He Hi Hu Vb Ib Ir).
  Qed.

  (* add_slack: the case that reports no coefficient.  Interval analysis shows f <= 0 on the whole
     box, the constraint is moved to the removed list *)
  Theorem add_slack_always_inst : forall I cid U J bs c f,
    add_slack tiny I cid U = inr (J, None) -> slack_prologue I cid true = inr (bs, c, f) ->
    relax I cid (A "add_integer_slack_to_inequality"%string) (L []) = Some J /\
    forall x solI solJ, inst_eval I x = Some solI -> inst_eval J x = Some solJ ->
      so_feasible solJ = so_feasible solI /\
      ((exists rho, in_box rho bs /\ agrees_on f rho x) ->
         so_feasible_relaxed solJ = so_feasible_relaxed solI).
  Proof.
    intros I cid U J bs c f HA HP. unfold add_slack in HA. rewrite HP in HA.
    destruct (prologue_inv _ _ _ _ _ HP) as (Hbox & Hfc & Hle & Hfn).
    destruct (evaluate_bound f bs) as [B|] eqn:He; [|discriminate].
    destruct (ext_gt0 (lower B)); [discriminate|].
    destruct (ext_le0 (upper B)) eqn:Hu.
    2:{ destruct (lower B) as [|l| |]; try discriminate. destruct U as [|pu]; [discriminate|].
        destruct (fn_add tiny f _); discriminate. }
    unfold relaxed_with in HA.
    destruct (relax I cid (A "add_integer_slack_to_inequality"%string) (L [])) as [I'|] eqn:Hr; [|discriminate].
    inversion HA; subst I'; clear HA. split; [reflexivity|]. intros x solI solJ HE HJ.
    destruct (relax_always _ _ _ _ _ _ _ _ _ _ Hr Hfc Hle Hfn HE HJ) as [K1 K2]. split; [exact K1|].
    intros (rho & Ib & Ao). apply K2. rewrite <- (denote_agrees_on f rho x Ao).
    assert (Vb : valid_box bs).
    { eapply box_of_valid; [exact Hbox|]. intros i b Hb. discriminate. }
    destruct (evaluate_bound_encloses f bs rho B Vb Ib He) as [_ M].
    apply bmem_inv in M. destruct M as [_ Mhi]. unfold ext_le0 in Hu.
    destruct (upper B) as [|u| |]; cbn [eleb] in *; try discriminate.
    apply (proj1 (qleb_le _ _)) in Mhi. apply (proj1 (qleb_le _ _)) in Hu. exact (Qcle_trans _ _ _ Mhi Hu).
  Qed.
End Always.

(* ================= non-vacuity ================= *)
(* x1 in [0,3], x2 in [0,4] integer, x3 := x1 + x2 a dependent (continuous) variable;
   minimise x1 + x2; active constraints 7: 2 x1 + x2 - 5 <= 0 and 8: x1 - x2 <= 0; removed
   constraint 9: x1 - 3 <= 0.  Converting 7: a = 1, 2 x1 + x2 - 5 in [-5, 5], new variable
   x4 in [0, 5], constraint 7 becomes 2 x1 + x2 - 5 + x4 = 0. *)
Definition ex_idv (i : N) (u : Z) : dvar :=
  {| dv_id := i; dv_kind := KIND_INTEGER; dv_bound := Some (Fin 0, Fin (qz u)); dv_subst := None; dv_meta := [] |}.
Definition ex_f : function := FLin {| l_terms := [(1%N, qz 2); (2%N, 1)]; l_const := qz (-5) |}.
Definition ex_c : constr := {| c_id := 7; c_eq := LE_ZERO; c_fn := Some ex_f; c_meta := [A "c7"%string] |}.
Definition ex_I : instance :=
  {| i_sense := SENSE_MIN;
     i_obj := Some (FLin {| l_terms := [(1%N, 1); (2%N, 1)]; l_const := 0 |});
     i_dvs := [ ex_idv 1 3; ex_idv 2 4;
                {| dv_id := 3; dv_kind := KIND_CONTINUOUS; dv_bound := None; dv_subst := None; dv_meta := [] |} ];
     i_cs := [ ex_c;
               {| c_id := 8; c_eq := LE_ZERO; c_fn := Some (FLin {| l_terms := [(1%N, 1); (2%N, qz (-1))]; l_const := 0 |});
                  c_meta := [] |} ];
     i_rs := [ {| r_c := Some {| c_id := 9; c_eq := LE_ZERO;
                                 c_fn := Some (FLin {| l_terms := [(1%N, 1)]; l_const := qz (-3) |}); c_meta := [] |};
                  r_reason := A "why"%string; r_params := L [] |} ];
     i_deps := [ (3%N, FLin {| l_terms := [(1%N, 1); (2%N, 1)]; l_const := 0 |}) ];
     i_params := None; i_hints := L []; i_desc := L [] |}.
Definition ex_bs : bounds :=
  [ (3%N, {| lower := NInf; upper := PInf |}); (2%N, {| lower := Fin 0; upper := Fin (qz 4) |});
    (1%N, {| lower := Fin 0; upper := Fin (qz 3) |}) ].
Definition ex_point (a b : Z) : state := [ (1%N, qz a); (2%N, qz b) ].
Definition ex_rho (a b : Z) : valuation :=
  fun i => qz (if (i =? 1)%N then a else if (i =? 2)%N then b else 0).

Lemma ex_rho_ok a b : (0 <= a <= 3)%Z -> (0 <= b <= 4)%Z ->
  in_box (ex_rho a b) ex_bs /\ int_valued (ex_rho a b) /\ agrees_on ex_f (ex_rho a b) (ex_point a b).
Proof.
  intros Ha Hb. split; [|split].
  - intro i. unfold ex_rho.
    assert (Q : forall z lo hi, (lo <= z <= hi)%Z ->
              bmem (qz z) {| lower := Fin (qz lo); upper := Fin (qz hi) |} = true).
    { intros z lo hi [H1 H2]. unfold bmem. cbn [lower upper eleb]. apply andb_true_iff.
      split; apply qleb_le; apply qz_le; assumption. }
    destruct (N.eq_dec i 1) as [->|N1]; [apply (Q a 0%Z 3%Z Ha)|].
    destruct (N.eq_dec i 2) as [->|N2]; [apply (Q b 0%Z 4%Z Hb)|].
    destruct (N.eq_dec i 3) as [->|N3]; [reflexivity|].
    apply N.eqb_neq in N1, N2, N3. unfold bget_d, ex_bs. cbn [bget]. rewrite N1, N2, N3. reflexivity.
  - intro i. eexists. reflexivity.
  - intros i O. unfold occurs in O. cbn [ex_f fn_terms] in O. apply occurs_lin_terms in O.
    cbn [l_terms map fst In] in O. destruct O as [<-|[<-|[]]]; reflexivity.
Qed.

Lemma ex_deps_avoid : deps_avoid (next_id (i_dvs ex_I)) (i_deps ex_I).
Proof.
  change (next_id (i_dvs ex_I)) with 4%N. intros d g [E|[]]. inversion E; subst. intro O.
  unfold occurs in O. cbn [fn_terms] in O. apply occurs_lin_terms in O. cbn [l_terms map fst In] in O.
  destruct O as [O|[O|[]]]; discriminate.
Qed.

(* every hypothesis of convert_slack_feasible_iff holds for ex_I; at the feasible point (1,2)
   (f = -1) the slack 1 makes J feasible, same objective, records 0 / -1 / -2; at the infeasible
   point (3,1) (f = 2) no slack 0..5 makes J feasible *)
Example convert_slack_inst_nonvacuous :
  exists J,
    convert_slack tiny_0 ex_I 7 100 = inr J /\
    slack_prologue ex_I 7 true = inr (ex_bs, ex_c, ex_f) /\
    i_dvs J <> i_dvs ex_I /\
    deps_avoid (next_id (i_dvs ex_I)) (i_deps ex_I) /\
    next_id (i_dvs ex_I) = 4%N /\
    map (fun v => (dv_id v, dv_bound v)) (i_dvs J)
      = [(1%N, Some (Fin 0, Fin (qz 3))); (2%N, Some (Fin 0, Fin (qz 4))); (3%N, None);
         (4%N, Some (Fin 0, Fin (qz 5)))] /\
    (* feasible point *)
    (sget (ex_point 1 2) 4 = None /\
     (exists rho, in_box rho ex_bs /\ int_valued rho /\ agrees_on ex_f rho (ex_point 1 2)) /\
     exists solI solJ,
       inst_eval ex_I (ex_point 1 2) = Some solI /\ so_feasible_relaxed solI = true /\ so_feasible solI = true /\
       inst_eval J (ex_point 1 2 ++ [(4%N, qz 1)]) = Some solJ /\
       so_feasible_relaxed solJ = true /\ so_feasible solJ = true /\
       so_objective solJ = so_objective solI /\ so_objective solI = qz 3 /\
       map ev_value (so_evaluated solI) = [qz (-1); qz (-1); qz (-2)] /\
       map ev_value (so_evaluated solJ) = [0; qz (-1); qz (-2)] /\
       map ev_eq (so_evaluated solJ) = [EQ_ZERO; LE_ZERO; LE_ZERO] /\
       so_state solJ = so_state solI ++ [(4%N, qz 1)] /\
       sget (so_state solJ) 3 = Some (qz 3)) /\
    (* infeasible point *)
    (sget (ex_point 3 1) 4 = None /\
     (exists rho, in_box rho ex_bs /\ int_valued rho /\ agrees_on ex_f rho (ex_point 3 1)) /\
     (exists solI, inst_eval ex_I (ex_point 3 1) = Some solI /\ so_feasible_relaxed solI = false) /\
     forallb (fun k => match inst_eval J (ex_point 3 1 ++ [(4%N, qz k)]) with
                       | Some s => negb (so_feasible_relaxed s)
                       | None => false end) [0; 1; 2; 3; 4; 5]%Z = true).
Proof.
  eexists. split; [vm_compute; reflexivity|].
  split; [vm_compute; reflexivity|].
  split. { intro H. apply (f_equal (@List.length dvar)) in H. vm_compute in H. discriminate. }
  split; [exact ex_deps_avoid|].
  split; [vm_compute; reflexivity|].
  split; [vm_compute; reflexivity|].
  split.
  - split; [reflexivity|]. split.
    { exists (ex_rho 1 2). apply ex_rho_ok; lia. }
    eexists. eexists. split; [vm_compute; reflexivity|].
    split; [reflexivity|]. split; [reflexivity|]. split; [vm_compute; reflexivity|].
    repeat split; vm_compute; reflexivity.
  - split; [reflexivity|]. split.
    { exists (ex_rho 3 1). apply ex_rho_ok; lia. }
    split; [eexists; split; [vm_compute; reflexivity|reflexivity]|].
    vm_compute. reflexivity.
Qed.

(* add_integer_slack_to_inequality on the same instance with U = 5: b = 5/5 = 1, constraint 7
   becomes 2 x1 + x2 - 5 + x4 <= 0 with x4 in [0,5]; feasible at (1,2) with slack 0 and 1, not with 2;
   at the infeasible point (3,1) with no slack *)
Example add_slack_inst_nonvacuous :
  exists J b,
    add_slack tiny_0 ex_I 7 5 = inr (J, Some (Fin b)) /\ b = 1 /\
    slack_prologue ex_I 7 true = inr (ex_bs, ex_c, ex_f) /\
    deps_avoid (next_id (i_dvs ex_I)) (i_deps ex_I) /\
    sget (ex_point 1 2) 4 = None /\ sget (ex_point 3 1) 4 = None /\
    map (fun k => match inst_eval J (ex_point 1 2 ++ [(4%N, qz k)]) with
                  | Some s => Some (so_feasible_relaxed s, map ev_value (so_evaluated s))
                  | None => None end) [0; 1; 2]%Z
      = [Some (true, [qz (-1); qz (-1); qz (-2)]); Some (true, [0; qz (-1); qz (-2)]);
         Some (false, [1; qz (-1); qz (-2)])] /\
    (exists solI, inst_eval ex_I (ex_point 3 1) = Some solI /\ so_feasible_relaxed solI = false) /\
    forallb (fun k => match inst_eval J (ex_point 3 1 ++ [(4%N, qz k)]) with
                      | Some s => negb (so_feasible_relaxed s)
                      | None => false end) [0; 1; 2; 3; 4; 5]%Z = true.
Proof.
  eexists. eexists. split; [vm_compute; reflexivity|].
  split; [apply Qc_is_canon; reflexivity|].
  split; [vm_compute; reflexivity|].
  split; [exact ex_deps_avoid|].
  split; [reflexivity|]. split; [reflexivity|].
  split; [vm_compute; reflexivity|].
  split; [eexists; split; [vm_compute; reflexivity|reflexivity]|].
  vm_compute. reflexivity.
Qed.

(* the reported state: the slack variable carries k, every other id its value in I's solution *)
Lemma slack_state_lookup cid sid eq' w v dvsJ f x solI solJ :
  slack_sol_rel cid sid eq' w v dvsJ f x solI solJ ->
  (forall i, i <> sid -> sget (so_state solJ) i = sget (so_state solI) i) /\
  (sget (so_state solI) sid = None -> sget (so_state solJ) sid = Some v).
Proof.
  intros (_ & Hs & _). rewrite Hs. split.
  - intros i Ne. apply sget_app_single_other. exact Ne.
  - apply sget_app_single_fresh.
Qed.

(* the theorem instantiated: for ALL 20 integer points of the box of ex_I, feasibility of ex_I is
   feasibility of the converted instance for some slack 0..5 *)
Example convert_slack_theorem_applies : forall J, convert_slack tiny_0 ex_I 7 100 = inr J ->
  forall a b solI, (0 <= a <= 3)%Z -> (0 <= b <= 4)%Z -> inst_eval ex_I (ex_point a b) = Some solI ->
  (so_feasible_relaxed solI = true <->
     exists k solJ, (0 <= k <= 5)%Z /\ inst_eval J (ex_point a b ++ [(4%N, qz k)]) = Some solJ /\
                    so_feasible_relaxed solJ = true) /\
  (so_feasible solI = true <->
     exists k solJ, (0 <= k <= 5)%Z /\ inst_eval J (ex_point a b ++ [(4%N, qz k)]) = Some solJ /\
                    so_feasible solJ = true).
Proof.
  intros J HC a b solI Ha Hb HE.
  assert (HP : slack_prologue ex_I 7 true = inr (ex_bs, ex_c, ex_f)) by (vm_compute; reflexivity).
  assert (Dv : map dv_bound (i_dvs J) = [Some (Fin 0, Fin (qz 3)); Some (Fin 0, Fin (qz 4)); None; Some (Fin 0, Fin (qz 5))]).
  { vm_compute in HC. inversion HC; subst J. vm_compute. reflexivity. }
  assert (Nd : i_dvs J <> i_dvs ex_I).
  { intro H. apply (f_equal (fun l => List.length (map dv_bound l))) in H. rewrite Dv in H. vm_compute in H. discriminate. }
  destruct (convert_slack_feasible_iff tiny_0 tiny_0_exact ex_I 7 100 J ex_bs ex_c ex_f HC HP Nd ex_deps_avoid)
    as (a0 & ub & _ & _ & _ & EJ & Hx).
  assert (Eub : ub = 5%Z).
  { rewrite EJ, map_app in Dv. cbn [map ex_I i_dvs ex_idv dv_bound slack_dv app] in Dv.
    apply (f_equal (fun l => nth 3 l None)) in Dv. cbn [nth] in Dv. apply qz_inj. congruence. }
  subst ub.
  destruct (Hx (ex_point a b) solI eq_refl HE) as [_ H2].
  apply H2. exists (ex_rho a b). apply ex_rho_ok; assumption.
Qed.

Print Assumptions slack_eval.
Print Assumptions convert_slack_feasible_iff.
Print Assumptions add_slack_feasible_iff.
Print Assumptions convert_slack_always_inst.
Print Assumptions add_slack_always_inst.
Print Assumptions convert_slack_inst_nonvacuous.
Print Assumptions convert_slack_theorem_applies.
Print Assumptions add_slack_inst_nonvacuous.
