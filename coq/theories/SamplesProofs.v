(* SamplesProofs.v — theorems for the best-sample selection (C15) and the compressed sample
   representation (C06). *)
Require Import Ommx.Num Ommx.Poly Ommx.Msg Ommx.Eval Ommx.Tree Ommx.Inst Ommx.Samples.
From Coq Require Import String.
Close Scope string_scope.
Open Scope list_scope.
Open Scope Qc_scope.

(* ---------------- best ---------------- *)
Lemma better_irrefl sense a : better sense a a = false.
Proof. unfold better. destruct (sense =? SENSE_MIN)%Z; apply qltb_ge; apply Qcle_refl. Qed.

(* "w does not beat v" is v <= w in the order of the sense: transitive *)
Lemma not_better_trans sense a b c :
  better sense b a = false -> better sense c b = false -> better sense c a = false.
Proof.
  unfold better. destruct (sense =? SENSE_MIN)%Z; intros H1 H2;
    apply qltb_ge in H1; apply qltb_ge in H2; apply qltb_ge; eapply Qcle_trans; eauto.
Qed.
Lemma better_or_not sense a b : better sense a b = true -> better sense b a = false.
Proof.
  unfold better. destruct (sense =? SENSE_MIN)%Z; intro H; apply qltb_lt in H; apply qltb_ge;
    apply Qclt_le_weak; exact H.
Qed.

Lemma first_best_inv sense : forall l k0 v0 k v,
  first_best sense l (Some (k0, v0)) = Some (k, v) ->
  (In (k, v) l \/ (k, v) = (k0, v0)) /\ better sense v0 v = false /\
  forall j w, In (j, w) l -> better sense w v = false.
Proof.
  induction l as [|[j w] l IH]; intros k0 v0 k v H; cbn [first_best] in H.
  - inversion H; subst. split; [right; reflexivity|]. split; [apply better_irrefl|].
    intros j0 w0 Hin0. destruct Hin0.
  - destruct (better sense w v0) eqn:B.
    + apply IH in H. destruct H as (Hin & Hb & Hall). split; [|split].
      * destruct Hin as [Hin|Hin]; [left; right; exact Hin|left; left; congruence].
      * eapply not_better_trans; [exact Hb|]. apply better_or_not. exact B.
      * intros j' w' [E|Hin']; [inversion E; subst; exact Hb|apply (Hall j' w'); exact Hin'].
    + apply IH in H. destruct H as (Hin & Hb & Hall). split; [|split].
      * destruct Hin as [Hin|Hin]; [left; right; exact Hin|right; exact Hin].
      * exact Hb.
      * intros j' w' [E|Hin']; [inversion E; subst; eapply not_better_trans; [exact Hb|exact B]|apply (Hall j' w'); exact Hin'].
Qed.

Theorem first_best_is_best sense l k v : first_best sense l None = Some (k, v) -> is_best sense l k.
Proof.
  destruct l as [|[k0 v0] l]; cbn [first_best]; [discriminate|].
  intro H. apply first_best_inv in H. destruct H as (Hin & Hb & Hall).
  exists v. split.
  - destruct Hin as [Hin|Hin]; [right; exact Hin|left; congruence].
  - intros j w [E|Hin']; [inversion E; subst; exact Hb|apply (Hall j w); exact Hin'].
Qed.
Lemma first_best_none sense l : first_best sense l None = None <-> l = [].
Proof.
  destruct l as [|[k0 v0] l]; cbn [first_best]; [tauto|].
  split; [|discriminate]. intro H.
  assert (G : forall l c, first_best sense l (Some c) <> None).
  { induction l0 as [|[j w] l0 IH]; intros [k1 v1]; cbn [first_best]; [discriminate|].
    destruct (better sense w v1); apply IH. }
  exfalso. eapply G. exact H.
Qed.

Lemma is_best_b_spec sense objs k : is_best_b sense objs k = true <-> is_best sense objs k.
Proof.
  unfold is_best_b, is_best. rewrite existsb_exists. split.
  - intros ([k' v] & Hin & H). apply andb_true_iff in H. destruct H as [E F]. cbn [fst snd] in *.
    apply N.eqb_eq in E. subst k'. exists v. split; [exact Hin|].
    intros j w Hj. rewrite forallb_forall in F. specialize (F (j, w) Hj). cbn [snd] in F.
    apply negb_true_iff in F. exact F.
  - intros (v & Hin & H). exists (k, v). split; [exact Hin|]. cbn [fst snd]. rewrite N.eqb_refl. cbn [andb].
    apply forallb_forall. intros [j w] Hj. cbn [snd]. apply negb_true_iff. apply (H j w Hj).
Qed.

(* candidates = ids with their objective values *)
Definition cands (o : sampled_values) (ids : list N) : option (list (N * num)) :=
  omap (fun k => match sv_get o k with Some v => Some (k, v) | None => None end) ids.

Lemma cands_keys o ids objs : cands o ids = Some objs -> map fst objs = ids.
Proof.
  unfold cands. revert objs; induction ids as [|k ids IH]; intros objs H; cbn [omap obind] in H.
  - inversion H. reflexivity.
  - destruct (sv_get o k) as [v|]; cbn [obind] in H; [|discriminate].
    destruct (omap _ ids) as [r|] eqn:E; cbn [obind] in H; [|discriminate].
    inversion H; subst. cbn [map fst]. f_equal. apply IH. reflexivity.
Qed.

(* the selected sample is a candidate that no candidate strictly beats under the set's sense;
   selection fails exactly when there is no candidate (given objectives for all candidates and a
   decodable sense) *)
Theorem best_spec ss ids k : best ss ids = Some k ->
  exists o objs, ss_objectives ss = Some o /\ cands o ids = Some objs /\
                 In k ids /\ is_best (ss_sense ss) objs k.
Proof.
  unfold best. destruct (ss_objectives ss) as [o|]; [|discriminate].
  fold (cands o ids). destruct (cands o ids) as [objs|] eqn:C; [|discriminate].
  destruct (negb _); [discriminate|].
  destruct (first_best (ss_sense ss) objs None) as [[k' v]|] eqn:F; [|discriminate].
  intro H; inversion H; subst k'. exists o, objs. repeat split; auto.
  - apply first_best_is_best in F. destruct F as (v' & Hin & _).
    rewrite <- (cands_keys _ _ _ C). apply (in_map fst) in Hin. exact Hin.
  - eapply first_best_is_best. exact F.
Qed.
Theorem best_none_iff ss ids o objs :
  ss_objectives ss = Some o -> cands o ids = Some objs ->
  (0 <= ss_sense ss <= 2)%Z ->
  (best ss ids = None <-> ids = []).
Proof.
  intros Ho C Hs. unfold best. rewrite Ho. fold (cands o ids). rewrite C.
  assert (E : negb ((0 <=? ss_sense ss)%Z && (ss_sense ss <=? 2)%Z) = false).
  { apply negb_false_iff. apply andb_true_iff. split; apply Z.leb_le; lia. }
  rewrite E.
  destruct (first_best (ss_sense ss) objs None) as [[k v]|] eqn:F.
  - split; [discriminate|]. intro Hn. subst ids. cbn in C. inversion C; subst. discriminate.
  - split; [|reflexivity]. intros _. apply first_best_none in F. subst objs.
    apply cands_keys in C. cbn in C. auto.
Qed.

(* feasible ids: exactly the sample ids whose flag is true *)
Lemma dedup_keys_in k l : In k (dedup_keys l) <-> In k l.
Proof.
  induction l as [|j l IH]; cbn [dedup_keys]; [tauto|].
  destruct (mem j l) eqn:M.
  - rewrite IH. cbn [In]. split; [auto|]. intros [->|H]; [apply mem_In; exact M|exact H].
  - cbn [In]. rewrite IH. tauto.
Qed.
Lemma bget_in_keys m k b : bget m k = Some b -> In k (map fst m).
Proof.
  induction m as [|[j c] m IH]; cbn [bget map fst In]; [discriminate|].
  destruct (k =? j)%N eqn:E; [apply N.eqb_eq in E; auto|intro H; right; apply IH; exact H].
Qed.
Theorem true_ids_spec m k : In k (true_ids m) <-> bget m k = Some true.
Proof.
  unfold true_ids. rewrite sort_ids_in, filter_In, dedup_keys_in. split.
  - intros [_ H]. destruct (bget m k) as [[|]|]; congruence.
  - intro H. split; [eapply bget_in_keys; exact H|rewrite H; reflexivity].
Qed.

(* which tables are read: the current fields, or the fields of releases that used the older
   feasibility fields (feasible_relaxed empty) *)
Theorem legacy_fields ss :
  (ss_feasible_relaxed ss = [] ->
     ss_relaxed_map ss = ss_feasible ss /\ ss_unrelaxed_map ss = ss_feasible_unrelaxed ss) /\
  (ss_feasible_relaxed ss <> [] ->
     ss_relaxed_map ss = ss_feasible_relaxed ss /\ ss_unrelaxed_map ss = ss_feasible ss).
Proof.
  unfold ss_relaxed_map, ss_unrelaxed_map. destruct (ss_feasible_relaxed ss); split; intro H;
    try discriminate; try contradiction; auto.
Qed.

(* ---------------- the compressed sample representation ---------------- *)
(* the value stored for sample id k by Samples::map is f of the state stored for k *)
Theorem sv_get_samples_map f : forall S sv k, samples_map f S = Some sv ->
  sv_get sv k = match samples_state S k with Some st => f st | None => None end.
Proof.
  induction S as [|[st ids] S IH]; intros sv k H; cbn [samples_map] in H.
  - inversion H; subst. reflexivity.
  - destruct (f st) as [v|] eqn:E; [|discriminate].
    destruct (samples_map f S) as [r|] eqn:R; [|discriminate].
    inversion H; subst. cbn [sv_get samples_state].
    destruct (mem k ids); [symmetry; exact E|apply IH; reflexivity].
Qed.

(* grouping by value does not matter: a grouped table returns for each id the value it was
   given, whatever the grouping order *)
Fixpoint alookup (k : N) (l : list (N * num)) : option num :=
  match l with
  | [] => None
  | (j, v) :: l' => if (k =? j)%N then Some v else alookup k l'
  end.

Definition sv_wf (g : sampled_values) : Prop :=
  (* an id occurs in at most one group *)
  forall k v w, In (v, k) (flat_map (fun e => map (fun i => (fst e, i)) (snd e)) g) ->
                In (w, k) (flat_map (fun e => map (fun i => (fst e, i)) (snd e)) g) -> v = w.

Lemma sv_get_group_add v k g j : sv_get g k = None ->
  sv_get (group_add v k g) j = if (j =? k)%N then Some v else sv_get g j.
Proof.
  induction g as [|[w ids] g IH]; intro Hk; cbn [group_add sv_get].
  - cbn [mem existsb]. rewrite orb_false_r. reflexivity.
  - cbn [sv_get] in Hk. destruct (mem k ids) eqn:Mk; [discriminate|].
    destruct (qeqb w v) eqn:E.
    + apply qeqb_eq in E. subst w. cbn [sv_get].
      assert (M : mem j (ids ++ [k]) = mem j ids || (j =? k)%N).
      { unfold mem. rewrite existsb_app. cbn [existsb]. rewrite orb_false_r. reflexivity. }
      rewrite M. destruct (j =? k)%N eqn:Ejk.
      * apply N.eqb_eq in Ejk. subst j. rewrite Mk. reflexivity.
      * rewrite orb_false_r. reflexivity.
    + cbn [sv_get]. destruct (mem j ids) eqn:Mj.
      * destruct (j =? k)%N eqn:Ejk; [apply N.eqb_eq in Ejk; subst; congruence|reflexivity].
      * apply IH. exact Hk.
Qed.

Theorem sv_get_group l : NoDup (map fst l) -> forall k, sv_get (group l) k = alookup k l.
Proof.
  unfold group.
  assert (G : forall l g, NoDup (map fst l) -> (forall k, In k (map fst l) -> sv_get g k = None) ->
              forall k, sv_get (fold_left (fun g kv => group_add (snd kv) (fst kv) g) l g) k
                        = match alookup k l with Some v => Some v | None => sv_get g k end).
  { induction l0 as [|[j v] l0 IH]; intros g ND Hg k; cbn [fold_left alookup fst snd]; [reflexivity|].
    inversion ND as [|? ? Hn ND']; subst.
    rewrite IH; [|exact ND'|].
    - destruct (alookup k l0) as [w|] eqn:A.
      + destruct (k =? j)%N eqn:E; [|reflexivity].
        apply N.eqb_eq in E. subst k. exfalso. apply Hn.
        clear - A. induction l0 as [|[i x] l0 IH]; cbn [alookup] in A; [discriminate|].
        destruct (j =? i)%N eqn:E; [apply N.eqb_eq in E; subst; left; reflexivity|right; apply IH; exact A].
      + rewrite sv_get_group_add by (apply Hg; left; reflexivity). destruct (k =? j)%N; reflexivity.
    - intros i Hi. rewrite sv_get_group_add; [|apply Hg; left; reflexivity].
      destruct (i =? j)%N eqn:E; [apply N.eqb_eq in E; subst; contradiction|].
      apply Hg. right. exact Hi. }
  intros ND k. rewrite (G l [] ND); [destruct (alookup k l); reflexivity|reflexivity].
Qed.
