(* Transform.v — problem transforms of v1_ext/instance.rs and parametric_instance.rs:
   as_minimization_problem, penalty_method, uniform_penalty_method, with_parameters,
   From<Instance> for ParametricInstance, as_pubo_format, as_qubo_format, log_encode. *)
Require Import Ommx.Num Ommx.Poly Ommx.Msg Ommx.Eval Ommx.Tree Ommx.Arith Ommx.PEval Ommx.Inst.
From Coq Require Import String DecimalString.
Open Scope string_scope.

Definition N_to_string (n : N) : string := NilZero.string_of_uint (N.to_uint n).

Definition with_obj_sense (I : instance) (se : Z) (o : option function) : instance :=
  {| i_sense := se; i_obj := o; i_dvs := i_dvs I; i_cs := i_cs I; i_rs := i_rs I;
     i_deps := i_deps I; i_params := i_params I; i_hints := i_hints I; i_desc := i_desc I |}.

(* ---------------- as_minimization_problem ---------------- *)
(* `if self.sense() == Minimize { return }`; otherwise sense := Minimize and objective := -objective;
   negation of an unset oneof panics (None) *)
Definition as_min (tiny : num -> bool) (I : instance) : option instance :=
  if (i_sense I =? SENSE_MIN)%Z then Some I
  else match fn_neg tiny (fn_or_zero (i_obj I)) with
       | Some f => Some (with_obj_sense I SENSE_MIN (Some f))
       | None => None
       end.

(* ---------------- parametric instances ---------------- *)
Record param := { pa_id : N; pa_meta : list tree }.   (* meta = [name; subscripts; params; description] *)
Record pinstance := {
  p_sense : Z; p_obj : option function; p_dvs : list dvar; p_params : list param;
  p_cs : list constr; p_rs : list removed; p_deps : list (N * function);
  p_hints : tree; p_desc : tree }.

Definition d_param (t : tree) : option param :=
  match t with
  | L [i; n; su; pa; de] => do i' <- d_N i; Some {| pa_id := i'; pa_meta := [n; su; pa; de] |}
  | _ => None
  end.
Definition d_pinstance (t : tree) : option pinstance :=
  match t with
  | L [se; ob; dvs; ps; cs; rs; deps; hi; de] =>
      do se' <- d_Z se; do ob' <- d_opt d_function ob; do dvs' <- d_list d_dvar dvs;
      do ps' <- d_list d_param ps; do cs' <- d_list d_constr cs; do rs' <- d_list d_removed rs;
      do deps' <- d_list (d_pair d_N d_function) deps;
      Some {| p_sense := se'; p_obj := ob'; p_dvs := dvs'; p_params := ps'; p_cs := cs'; p_rs := rs';
              p_deps := deps'; p_hints := hi; p_desc := de |}
  | _ => None
  end.

(* max defined decision-variable id + 1, or 0 *)
Definition next_id (dvs : list dvar) : N :=
  match dvs with
  | [] => 0
  | _ => fold_left (fun m v => N.max m (dv_id v)) dvs 0 + 1
  end%N.

Section Penalty.
  Variable tiny : num -> bool.

  (* objective + (&parameter * f.clone()) * f ; &Parameter * Function goes through
     Linear::from(parameter) and the inverse / from macros: Function * Function::from(Linear) *)
  Definition penalty_term (p : N) (f : function) : option function :=
    match fn_mul tiny f (FLin (lin_single p 1)) with
    | Some pf => fn_mul tiny pf f
    | None => None
    end.

  Fixpoint penalty_loop (cs : list constr) (k : N) (obj : function) (ps : list param) (rs : list removed)
    : option (function * list param * list removed) :=
    match cs with
    | [] => Some (obj, ps, rs)
    | c :: cs' =>
        let f := fn_or_zero (c_fn c) in
        match penalty_term k f with
        | None => None
        | Some t =>
            match fn_add tiny obj t with
            | None => None
            | Some obj' =>
                penalty_loop cs' (k + 1)%N obj'
                  (ps ++ [{| pa_id := k;
                             pa_meta := [L [A "penalty_weight"]; L [I (Z.of_N (c_id c))]; L []; L []] |}])%list
                  (rs ++ [{| r_c := Some c; r_reason := A "penalty_method";
                             r_params := L [L [A "parameter_id"; A (N_to_string k)]] |}])%list
            end
        end
    end.

  Definition penalty (I : instance) : option pinstance :=
    match penalty_loop (i_cs I) (next_id (i_dvs I)) (fn_or_zero (i_obj I)) [] (i_rs I) with
    | None => None
    | Some (obj, ps, rs) =>
        Some {| p_sense := i_sense I; p_obj := Some obj; p_dvs := i_dvs I; p_params := ps; p_cs := [];
                p_rs := rs; p_deps := i_deps I; p_hints := i_hints I; p_desc := i_desc I |}
    end.

  (* quad_sum = 0; for c: quad_sum = quad_sum + f.clone() * f; objective = objective + &parameter * quad_sum *)
  Fixpoint uniform_loop (cs : list constr) (qs : function) (rs : list removed)
    : option (function * list removed) :=
    match cs with
    | [] => Some (qs, rs)
    | c :: cs' =>
        let f := fn_or_zero (c_fn c) in
        match fn_mul tiny f f with
        | None => None
        | Some ff =>
            match fn_add tiny qs ff with
            | None => None
            | Some qs' =>
                uniform_loop cs' qs'
                  (rs ++ [{| r_c := Some c; r_reason := A "uniform_penalty_method"; r_params := L [] |}])%list
            end
        end
    end.
  Definition uniform_penalty (I : instance) : option pinstance :=
    let p := next_id (i_dvs I) in
    match uniform_loop (i_cs I) (FConst 0) (i_rs I) with
    | None => None
    | Some (qs, rs) =>
        match fn_mul tiny qs (FLin (lin_single p 1)) with
        | None => None
        | Some t =>
            match fn_add tiny (fn_or_zero (i_obj I)) t with
            | None => None
            | Some obj =>
                Some {| p_sense := i_sense I; p_obj := Some obj; p_dvs := i_dvs I;
                        p_params := [{| pa_id := p; pa_meta := [L [A "uniform_penalty_weight"]; L []; L []; L []] |}];
                        p_cs := []; p_rs := rs; p_deps := i_deps I; p_hints := i_hints I; p_desc := i_desc I |}
            end
        end
    end.

  (* ---------------- with_parameters ---------------- *)
  Definition opt_fn_pe (o : option function) (s : state) : option (option function) :=
    match o with
    | None => Some None
    | Some f => match fn_pe tiny f s with Some (f', _) => Some (Some f') | None => None end
    end.
  Fixpoint constrs_pe (cs : list constr) (s : state) : option (list constr) :=
    match cs with
    | [] => Some []
    | c :: cs' =>
        match opt_fn_pe (c_fn c) s, constrs_pe cs' s with
        | Some f', Some r =>
            Some ({| c_id := c_id c; c_eq := c_eq c; c_fn := f'; c_meta := c_meta c |} :: r)
        | _, _ => None
        end
    end.
  Definition with_parameters (P : pinstance) (theta : state) : option instance :=
    if negb (forallb (fun p => match sget theta (pa_id p) with Some _ => true | None => false end) (p_params P))
    then None
    else
      match opt_fn_pe (p_obj P) theta, constrs_pe (p_cs P) theta with
      | Some o, Some cs =>
          Some {| i_sense := p_sense P; i_obj := o; i_dvs := p_dvs P; i_cs := cs; i_rs := p_rs P;
                  i_deps := p_deps P; i_params := Some theta; i_hints := p_hints P; i_desc := p_desc P |}
      | _, _ => None
      end.
End Penalty.

(* From<Instance> for ParametricInstance: previous parameters dropped *)
Definition of_instance (I : instance) : pinstance :=
  {| p_sense := i_sense I; p_obj := i_obj I; p_dvs := i_dvs I; p_params := []; p_cs := i_cs I;
     p_rs := i_rs I; p_deps := i_deps I; p_hints := i_hints I; p_desc := i_desc I |}.

(* ---------------- PUBO / QUBO ---------------- *)
(* the term iterator of a Function, as used by as_pubo_format / as_qubo_format *)
Definition fn_iter (f : function) : terms :=
  match f with
  | FUnset => []
  | FConst c => [([], c)]
  | FLin l => lin_iter l
  | FQuad q => quad_iter q
  | FPoly p => poly_iter p
  end.
(* Function::used_decision_variable_ids (all ids stored in the message) *)
Definition fn_used (f : function) : list N :=
  match f with
  | FUnset | FConst _ => []
  | FLin l => map fst (l_terms l)
  | FQuad q => (match q_lin q with Some l => map fst (l_terms l) | None => [] end ++ q_cols q ++ q_rows q)%list
  | FPoly p => flat_map fst p
  end.
Definition binary_ids (dvs : list dvar) : list N :=
  map dv_id (filter (fun v => (dv_kind v =? KIND_BINARY)%Z) dvs).

(* BinaryIds::from(SortedIds): the set of ids, as a strictly increasing list *)
Fixpoint dedup_sorted (l : list N) : list N :=
  match l with
  | [] => []
  | i :: l' =>
      match l' with
      | j :: _ => if (i =? j)%N then dedup_sorted l' else i :: dedup_sorted l'
      | [] => [i]
      end
  end.
Definition bin_key (ids : list N) : list N := dedup_sorted (sort_ids ids).

Section Pubo.
  (* enter: `c.abs() > f64::EPSILON`;  leave: `value.abs() < f64::EPSILON` *)
  Variable enter : num -> bool.
  Variable leave : num -> bool.

  Definition pubo_terms (f : function) : terms :=
    map (fun mc => (bin_key (fst mc), snd mc)) (filter (fun mc => enter (snd mc)) (fn_iter f)).

  Inductive pubo_err := PConstraints | PMaximize | PNonBinary | PDegree.

  Definition as_pubo (I : instance) : pubo_err + terms :=
    match i_cs I with
    | _ :: _ => inl PConstraints
    | [] =>
        if (i_sense I =? SENSE_MAX)%Z then inl PMaximize
        else if negb (subset (fn_used (fn_or_zero (i_obj I))) (binary_ids (i_dvs I))) then inl PNonBinary
        else inr (merge ids_eqb leave (pubo_terms (fn_or_zero (i_obj I))))
    end.

  (* QUBO: terms with |c| <= eps are skipped before the arity check; the constant accumulates
     without dropping; a key with more than two distinct ids is an error *)
  Fixpoint qubo_loop (t : terms) (const : num) (m : terms) : option (num * terms) :=
    match t with
    | [] => Some (const, m)
    | (ids, c) :: t' =>
        if negb (enter c) then qubo_loop t' const m
        else
          match ids with
          | [] => qubo_loop t' (const + c) m
          | _ =>
              match bin_key ids with
              | [a] => qubo_loop t' const (mstep ids_eqb leave m ([a; a], c))
              | [a; b] => qubo_loop t' const (mstep ids_eqb leave m ([a; b], c))
              | _ => None
              end
          end
    end.
  Definition as_qubo (I : instance) : pubo_err + (terms * num) :=
    if (i_sense I =? SENSE_MAX)%Z then inl PMaximize
    else match i_cs I with
         | _ :: _ => inl PConstraints
         | [] =>
             if negb (subset (fn_used (fn_or_zero (i_obj I))) (binary_ids (i_dvs I))) then inl PNonBinary
             else match qubo_loop (fn_iter (fn_or_zero (i_obj I))) 0 [] with
                  | Some (c, m) => inr (m, c)
                  | None => inl PDegree
                  end
         end.
End Pubo.

Definition enter_eps (c : num) : bool := qltb eps (qabs c).
Definition leave_eps (c : num) : bool := qltb (qabs c) eps.
Definition enter_0 (c : num) : bool := negb (qeqb c 0).
Definition leave_0 (c : num) : bool := qeqb c 0.

(* ---------------- log_encode ---------------- *)
Inductive le_err := LENotFound | LENotInteger | LENoBound | LENotFinite | LEEmpty.

(* coefficients 2^0 .. 2^(n-2) and the capped last one, for u_l = K >= 1 *)
Definition le_nbits (K : N) : nat := N.to_nat (N.log2_up (K + 1)).
Fixpoint le_pows (i : N) (k : nat) : list N :=
  match k with O => [] | S k' => (2 ^ i)%N :: le_pows (i + 1) k' end.
Definition le_coeffs (K : N) : list N :=
  let n := le_nbits K in
  (le_pows 0 (pred n) ++ [(K - 2 ^ (N.of_nat (pred n)) + 1)%N])%list.

Fixpoint find_dv (id : N) (dvs : list dvar) : option dvar :=
  match dvs with
  | [] => None
  | v :: dvs' => if (dv_id v =? id)%N then Some v else find_dv id dvs'
  end.

(* `id as i64`: the two's-complement image of a u64 (ids >= 2^63 become negative subscripts) *)
Definition as_i64 (n : N) : Z :=
  let z := Z.of_N n in if (z <? 9223372036854775808)%Z then z else (z - 18446744073709551616)%Z.

Fixpoint new_bits (orig : N) (base : N) (k : nat) (i : N) : list dvar :=
  match k with
  | O => []
  | S k' =>
      {| dv_id := base + i; dv_kind := KIND_BINARY; dv_bound := Some (Fin 0, Fin 1); dv_subst := None;
         dv_meta := [L [A "ommx.log_encode"]; L [I (as_i64 orig); I (Z.of_N i)]; L []; L []] |}
      :: new_bits orig base k' (i + 1)
  end%N.
Fixpoint enum_from (base : N) (l : list N) : list (N * num) :=
  match l with
  | [] => []
  | c :: l' => (base, qz (Z.of_N c)) :: enum_from (base + 1) l'
  end.

(* returns the linear expression and the decision variables to append *)
Definition log_encode (tiny : num -> bool) (I : instance) (id : N) : le_err + (linear * list dvar) :=
  match find_dv id (i_dvs I) with
  | None => inl LENotFound
  | Some v =>
      if negb (dv_kind v =? KIND_INTEGER)%Z then inl LENotInteger
      else match dv_bound v with
           | None => inl LENoBound
           | Some (Fin l, Fin u) =>
               let upper := qfloor u in
               let lower := qceil l in
               let ul := (upper - lower)%Z in
               if (ul <? 0)%Z then inl LEEmpty
               else if (ul =? 0)%Z then inr (lin_of_c (qz lower), [])
               else
                 let K := Z.to_N ul in
                 let base := next_id (i_dvs I) in
                 let cs := le_coeffs K in
                 inr (lin_new tiny (enum_from base cs) (qz lower),
                      new_bits id base (List.length cs) 0)
           | Some (l, u) => if is_nan l || is_nan u then inl LEEmpty else inl LENotFinite
           end
  end.
