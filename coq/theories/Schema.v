(* Schema.v — the protobuf message schema as a closed Coq datum (C07).

   Three terms of type [schema] are regenerated from /repo on every run by
   tools/translate_schema.py (gen/SchemaProto.v, gen/SchemaRust.v, gen/SchemaPy.v).
   This file fixes the type, a boolean equality proved sound ([schema_eqb_sound]) so that a
   drifted schema is a clean [false] rather than a stuck term, and the well-formedness check
   [wf_schema].

   Normalisation done by the translator (documented there as well): names are lower-cased with
   underscores removed; nested names are joined with "."; a singular message field is
   [COptional] on all sides; messages are sorted by name, fields by number, enums by name and
   enum values by number.  Declaration order, comments, `deprecated` options and json names are
   not part of the wire contract and are not represented. *)
From Coq Require Import String List NArith ZArith Bool Lia.
Import ListNotations.
Open Scope string_scope.

Inductive scalar :=
| SDouble | SFloat | SInt32 | SInt64 | SUInt32 | SUInt64 | SSInt32 | SSInt64
| SFixed32 | SFixed64 | SSFixed32 | SSFixed64 | SBool | SString | SBytes.

Inductive ty :=
| TS (s : scalar)        (* scalar kind *)
| TE (e : string)        (* enum, by normalised full name *)
| TM (m : string).       (* message, by normalised full name *)

Inductive card :=
| CImplicit                 (* proto3 singular field without presence *)
| COptional                 (* explicit presence: `optional`, and every singular message field *)
| CRepeated (packed : bool)
| CMap (k : scalar)         (* map<k, f_ty> *)
| COneof (g : string).      (* arm of the oneof group g *)

Record field := mkF { f_num : N; f_name : string; f_ty : ty; f_card : card }.
Record msgdesc := mkM { m_name : string; m_fields : list field }.
Record enumdesc := mkE { e_name : string; e_values : list (string * Z) }.
Record schema := mkS { s_msgs : list msgdesc; s_enums : list enumdesc }.

(* ------------------------------------------------------------------ boolean equality *)
Definition scalar_tag (s : scalar) : N :=
  match s with
  | SDouble => 1 | SFloat => 2 | SInt32 => 3 | SInt64 => 4 | SUInt32 => 5 | SUInt64 => 6
  | SSInt32 => 7 | SSInt64 => 8 | SFixed32 => 9 | SFixed64 => 10 | SSFixed32 => 11
  | SSFixed64 => 12 | SBool => 13 | SString => 14 | SBytes => 15
  end%N.
Definition scalar_eqb (a b : scalar) : bool := N.eqb (scalar_tag a) (scalar_tag b).
Lemma scalar_eqb_sound a b : scalar_eqb a b = true -> a = b.
Proof. destruct a, b; cbv; intro H; try reflexivity; discriminate H. Qed.
Lemma scalar_eqb_refl a : scalar_eqb a a = true.
Proof. destruct a; reflexivity. Qed.

Definition ty_eqb (a b : ty) : bool :=
  match a, b with
  | TS x, TS y => scalar_eqb x y
  | TE x, TE y => String.eqb x y
  | TM x, TM y => String.eqb x y
  | _, _ => false
  end.
Lemma ty_eqb_sound a b : ty_eqb a b = true -> a = b.
Proof.
  destruct a, b; cbn; intro H; try discriminate H.
  - apply scalar_eqb_sound in H. now subst.
  - apply String.eqb_eq in H. now subst.
  - apply String.eqb_eq in H. now subst.
Qed.

Definition card_eqb (a b : card) : bool :=
  match a, b with
  | CImplicit, CImplicit => true
  | COptional, COptional => true
  | CRepeated p, CRepeated q => Bool.eqb p q
  | CMap k, CMap l => scalar_eqb k l
  | COneof g, COneof h => String.eqb g h
  | _, _ => false
  end.
Lemma card_eqb_sound a b : card_eqb a b = true -> a = b.
Proof.
  destruct a, b; cbn; intro H; try discriminate H; try reflexivity.
  - apply Bool.eqb_prop in H. now subst.
  - apply scalar_eqb_sound in H. now subst.
  - apply String.eqb_eq in H. now subst.
Qed.

Fixpoint list_eqb {X} (e : X -> X -> bool) (a b : list X) : bool :=
  match a, b with
  | [], [] => true
  | x :: a', y :: b' => e x y && list_eqb e a' b'
  | _, _ => false
  end.
Lemma list_eqb_sound {X} (e : X -> X -> bool) :
  (forall x y, e x y = true -> x = y) -> forall a b, list_eqb e a b = true -> a = b.
Proof.
  intros He a. induction a as [|x a IH]; intros [|y b] H; cbn in H; try discriminate H; auto.
  apply andb_true_iff in H. destruct H as [H1 H2]. apply He in H1. apply IH in H2. now subst.
Qed.

Definition field_eqb (a b : field) : bool :=
  N.eqb (f_num a) (f_num b) && String.eqb (f_name a) (f_name b) &&
  ty_eqb (f_ty a) (f_ty b) && card_eqb (f_card a) (f_card b).
Lemma field_eqb_sound a b : field_eqb a b = true -> a = b.
Proof.
  destruct a, b. unfold field_eqb. cbn. rewrite !andb_true_iff. intros [[[H1 H2] H3] H4].
  apply N.eqb_eq in H1. apply String.eqb_eq in H2. apply ty_eqb_sound in H3.
  apply card_eqb_sound in H4. now subst.
Qed.

Definition msg_eqb (a b : msgdesc) : bool :=
  String.eqb (m_name a) (m_name b) && list_eqb field_eqb (m_fields a) (m_fields b).
Lemma msg_eqb_sound a b : msg_eqb a b = true -> a = b.
Proof.
  destruct a, b. unfold msg_eqb. cbn. rewrite andb_true_iff. intros [H1 H2].
  apply String.eqb_eq in H1. apply (list_eqb_sound _ field_eqb_sound) in H2. now subst.
Qed.

Definition ev_eqb (a b : string * Z) : bool := String.eqb (fst a) (fst b) && Z.eqb (snd a) (snd b).
Lemma ev_eqb_sound a b : ev_eqb a b = true -> a = b.
Proof.
  destruct a, b. unfold ev_eqb. cbn. rewrite andb_true_iff. intros [H1 H2].
  apply String.eqb_eq in H1. apply Z.eqb_eq in H2. now subst.
Qed.

Definition enum_eqb (a b : enumdesc) : bool :=
  String.eqb (e_name a) (e_name b) && list_eqb ev_eqb (e_values a) (e_values b).
Lemma enum_eqb_sound a b : enum_eqb a b = true -> a = b.
Proof.
  destruct a, b. unfold enum_eqb. cbn. rewrite andb_true_iff. intros [H1 H2].
  apply String.eqb_eq in H1. apply (list_eqb_sound _ ev_eqb_sound) in H2. now subst.
Qed.

Definition schema_eqb (a b : schema) : bool :=
  list_eqb msg_eqb (s_msgs a) (s_msgs b) && list_eqb enum_eqb (s_enums a) (s_enums b).
Theorem schema_eqb_sound a b : schema_eqb a b = true -> a = b.
Proof.
  destruct a, b. unfold schema_eqb. cbn. rewrite andb_true_iff. intros [H1 H2].
  apply (list_eqb_sound _ msg_eqb_sound) in H1. apply (list_eqb_sound _ enum_eqb_sound) in H2.
  now subst.
Qed.

(* ------------------------------------------------------------------ lookups *)
Fixpoint find_msg (ms : list msgdesc) (m : string) : option msgdesc :=
  match ms with
  | [] => None
  | d :: r => if String.eqb (m_name d) m then Some d else find_msg r m
  end.
Definition lookup_msg (sch : schema) (m : string) : option (list field) :=
  option_map m_fields (find_msg (s_msgs sch) m).
Fixpoint find_enum (es : list enumdesc) (e : string) : option enumdesc :=
  match es with
  | [] => None
  | d :: r => if String.eqb (e_name d) e then Some d else find_enum r e
  end.
Fixpoint lookup_field (fs : list field) (n : N) : option field :=
  match fs with
  | [] => None
  | f :: r => if N.eqb (f_num f) n then Some f else lookup_field r n
  end.

(* ------------------------------------------------------------------ well-formedness *)
Fixpoint nodupb {X} (e : X -> X -> bool) (l : list X) : bool :=
  match l with
  | [] => true
  | x :: r => negb (existsb (e x) r) && nodupb e r
  end.

Lemma nodupb_NoDup {X} (e : X -> X -> bool) (l : list X) :
  (forall x, e x x = true) -> nodupb e l = true -> NoDup l.
Proof.
  intros Hr. induction l as [|x r IH]; cbn; intro H; [constructor|].
  apply andb_true_iff in H. destruct H as [H1 H2]. constructor; [|auto].
  intro Hin. apply negb_true_iff in H1.
  assert (existsb (e x) r = true) by (apply existsb_exists; exists x; auto). congruence.
Qed.

(* keys a map may have: any integral or string scalar (protobuf language guide) *)
Definition map_key_ok (k : scalar) : bool :=
  match k with SDouble | SFloat | SBytes => false | _ => true end.
(* kinds that may be packed: every scalar except string/bytes; and enums *)
Definition packable (t : ty) : bool :=
  match t with
  | TS SString | TS SBytes | TM _ => false
  | _ => true
  end.

Definition ty_exists (sch : schema) (t : ty) : bool :=
  match t with
  | TS _ => true
  | TE e => match find_enum (s_enums sch) e with Some _ => true | None => false end
  | TM m => match find_msg (s_msgs sch) m with Some _ => true | None => false end
  end.

Definition field_ok (sch : schema) (f : field) : bool :=
  (1 <=? f_num f)%N && (f_num f <? 2 ^ 29)%N &&
  negb ((19000 <=? f_num f)%N && (f_num f <=? 19999)%N) &&       (* reserved by protobuf *)
  ty_exists sch (f_ty f) &&
  match f_card f, f_ty f with
  | CImplicit, TM _ => false                                     (* normalised to COptional *)
  | CImplicit, _ => true
  | COptional, _ => true
  | CRepeated p, t => implb p (packable t)
  | CMap k, _ => map_key_ok k
  | COneof _, _ => true
  end.

(* oneof groups: a group name never coincides with the name of a field outside the group
   (the arms of different groups are disjoint by construction: a field carries one [card]) *)
Definition oneof_names_ok (fs : list field) : bool :=
  forallb (fun f => match f_card f with
                    | COneof g => forallb (fun f' => match f_card f' with
                                                     | COneof g' => true
                                                     | _ => negb (String.eqb (f_name f') g)
                                                     end) fs
                    | _ => true end) fs.

Definition msg_ok (sch : schema) (d : msgdesc) : bool :=
  forallb (field_ok sch) (m_fields d) &&
  nodupb N.eqb (map f_num (m_fields d)) &&
  nodupb String.eqb (map f_name (m_fields d)) &&
  oneof_names_ok (m_fields d).

Definition enum_ok (d : enumdesc) : bool :=
  match e_values d with
  | (_, z) :: _ => Z.eqb z 0                     (* proto3: the first value is zero *)
  | [] => false
  end &&
  nodupb String.eqb (map fst (e_values d)) &&
  forallb (fun nz => (- 2 ^ 31 <=? snd nz)%Z && (snd nz <? 2 ^ 31)%Z) (e_values d).

Definition wf_schema (sch : schema) : bool :=
  forallb (msg_ok sch) (s_msgs sch) &&
  forallb enum_ok (s_enums sch) &&
  nodupb String.eqb (map m_name (s_msgs sch)) &&
  nodupb String.eqb (map e_name (s_enums sch)).

(* ------------------------------------------------------------------ consequences used by the codec proofs *)
Lemma find_msg_In ms m d : find_msg ms m = Some d -> In d ms /\ m_name d = m.
Proof.
  induction ms as [|x r IH]; cbn; [discriminate|].
  destruct (String.eqb (m_name x) m) eqn:E.
  - intro H. inversion H. subst. apply String.eqb_eq in E. auto.
  - intro H. apply IH in H. tauto.
Qed.

Lemma lookup_field_In fs n f : lookup_field fs n = Some f -> In f fs /\ f_num f = n.
Proof.
  induction fs as [|x r IH]; cbn; [discriminate|].
  destruct (N.eqb (f_num x) n) eqn:E.
  - intro H. inversion H. subst. apply N.eqb_eq in E. auto.
  - intro H. apply IH in H. tauto.
Qed.

Lemma wf_msg_ok sch m fs :
  wf_schema sch = true -> lookup_msg sch m = Some fs ->
  forallb (field_ok sch) fs = true /\ NoDup (map f_num fs).
Proof.
  unfold wf_schema, lookup_msg. rewrite !andb_true_iff. intros [[[H _] _] _] L.
  destruct (find_msg (s_msgs sch) m) as [d|] eqn:E; [|discriminate]. cbn in L. inversion L. subst.
  apply find_msg_In in E. destruct E as [E _].
  rewrite forallb_forall in H. specialize (H _ E). unfold msg_ok in H.
  rewrite !andb_true_iff in H. destruct H as [[[H1 H2] _] _]. split; [exact H1|].
  apply (nodupb_NoDup N.eqb); [apply N.eqb_refl|exact H2].
Qed.
