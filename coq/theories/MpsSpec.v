(* MpsSpec.v — the declarative side of C17: an abstract LP/MIP model, the instance it
   means according to the MPS conventions, and an independent writer [render] producing
   free-format MPS text in several layouts.  Nothing here uses the reader model of Mps.v
   except the shared vocabulary (strings, number printing, the enumerations [rty], [bkw],
   [bstmt]). *)
Require Import Ommx.Num Ommx.Poly Ommx.Msg Ommx.Mps.
From Coq Require Import String Ascii.
Open Scope string_scope.
Open Scope list_scope.

(* ------------------------------------------------------------------ *)
(* abstract models                                                      *)

Record srow := { sr_name : string; sr_ty : rty; sr_rhs : option num; sr_range : option num }.
Record scol := { sc_name : string; sc_int : bool; sc_coefs : list (string * num) }.
Record lp_model := {
  lp_name : string;
  lp_sense : option bool;          (* None: no OBJSENSE (minimise); Some true: MAX *)
  lp_objrow : string;              (* the first N row *)
  lp_objconst : num;               (* objective constant; written as RHS of the objective row, negated *)
  lp_rows : list srow;             (* E / L / G rows and further N (free) rows *)
  lp_cols : list scol;
  lp_bounds : list bstmt }.

(* ------------------------------------------------------------------ *)
(* abstract instances: everything keyed by the file's names            *)

Inductive akind := KCont | KInt | KBin.
Definition kind_code (k : akind) : N :=
  match k with KBin => 1%N | KInt => 2%N | KCont => 3%N end.
Record avar := { av_name : string; av_kind : akind; av_lo : ext; av_up : ext }.
Record acons := {
  ac_row : string;                 (* the row it comes from *)
  ac_eq : bool;                    (* true: f = 0, false: f <= 0 *)
  ac_terms : list (string * num); ac_const : num }.
Record ainst := {
  ai_name : string; ai_max : bool;
  ai_obj : list (string * num); ai_objconst : num;
  ai_vars : list avar; ai_cons : list acons }.

(* the coefficients of row r, column by column *)
Definition row_vec (M : lp_model) (r : string) : list (string * num) :=
  flat_map (fun c => flat_map (fun rv => if fst rv =? r then [(sc_name c, snd rv)] else [])
                              (sc_coefs c)) (lp_cols M).
Definition negv (a : list (string * num)) : list (string * num) :=
  map (fun kc => (fst kc, - snd kc)) a.

(* the RANGES table:  row type, sign of R  |->  [h, u]  with  h <= a.x <= u
        G   + or -     b        b + |R|
        L   + or -     b - |R|  b
        E   +          b        b + |R|
        E   -          b - |R|  b                                        *)
Definition range_interval (ty : rty) (b r : num) : num * num :=
  match ty with
  | RG => (b, b + qabs r)
  | RL => (b - qabs r, b)
  | RE => if qltb 0 r then (b, b + qabs r) else (b - qabs r, b)
  | RN => (b, b)
  end.

Definition row_meaning (M : lp_model) (r : srow) : list acons :=
  let a := row_vec M (sr_name r) in
  let b := match sr_rhs r with Some x => x | None => 0 end in
  let mk eq ts c := {| ac_row := sr_name r; ac_eq := eq; ac_terms := ts; ac_const := c |} in
  match sr_ty r, sr_range r with
  | RN, _ => []
  | RE, None => [mk true a (- b)]            (* a.x = b   <->  a.x - b = 0 *)
  | RL, None => [mk false a (- b)]           (* a.x <= b  <->  a.x - b <= 0 *)
  | RG, None => [mk false (negv a) b]        (* a.x >= b  <->  b - a.x <= 0 *)
  | ty, Some rg =>
      let '(h, u) := range_interval ty b rg in
      [mk false (negv a) h; mk false a (- u)]  (* h <= a.x  and  a.x <= u *)
  end.

(* the BOUNDS keyword table, as the effect of one statement on one column *)
Record cstate := { cs_lo : option ext; cs_up : option ext; cs_int : bool; cs_bin : bool }.
Definition bsem (k : bkw) (v : ext) (s : cstate) : cstate :=
  match k with
  | UP => {| cs_lo := cs_lo s; cs_up := Some v; cs_int := cs_int s; cs_bin := cs_bin s |}
  | LO => {| cs_lo := Some v; cs_up := cs_up s; cs_int := cs_int s; cs_bin := cs_bin s |}
  | FX => {| cs_lo := Some v; cs_up := Some v; cs_int := cs_int s; cs_bin := cs_bin s |}
  | MI => {| cs_lo := Some NInf; cs_up := cs_up s; cs_int := cs_int s; cs_bin := cs_bin s |}
  | PL => {| cs_lo := cs_lo s; cs_up := Some PInf; cs_int := cs_int s; cs_bin := cs_bin s |}
  | FR => {| cs_lo := Some NInf; cs_up := Some PInf; cs_int := cs_int s; cs_bin := cs_bin s |}
  | BV => {| cs_lo := Some (Fin 0); cs_up := Some (Fin 1); cs_int := false; cs_bin := true |}
  | LI => {| cs_lo := Some v; cs_up := cs_up s; cs_int := true; cs_bin := cs_bin s |}
  | UI => {| cs_lo := cs_lo s; cs_up := Some v; cs_int := true; cs_bin := cs_bin s |}
  end.
Definition cstate0 (is_int : bool) : cstate :=
  {| cs_lo := None; cs_up := None; cs_int := is_int; cs_bin := false |}.

Definition col_fold (x : string) (bs : list bstmt) (s : cstate) : cstate :=
  fold_left (fun s b => if b_col b =? x then bsem (b_kw b) (b_val b) s else s) bs s.

(* default [0, +inf); an upper bound <= 0 given without a lower bound opens the lower bound
   ("UP 0 without LO" is outside the property; it is put on the "opens" side here) *)
Definition eff_bounds (s : cstate) : ext * ext :=
  match cs_lo s, cs_up s with
  | Some l, Some u => (l, u)
  | Some l, None => (l, PInf)
  | None, Some u => if eleb u (Fin 0) then (NInf, u) else (Fin 0, u)
  | None, None => (Fin 0, PInf)
  end.
(* an integer column whose range is [0, 1] is binary *)
Definition final_kind (s : cstate) : akind :=
  let '(l, u) := eff_bounds s in
  if cs_int s then (if eeqb l (Fin 0) && eeqb u (Fin 1) then KBin else KInt)
  else if cs_bin s then KBin else KCont.

Definition col_meaning (M : lp_model) (c : scol) : avar :=
  let s := col_fold (sc_name c) (lp_bounds M) (cstate0 (sc_int c)) in
  {| av_name := sc_name c; av_kind := final_kind s;
     av_lo := fst (eff_bounds s); av_up := snd (eff_bounds s) |}.

Definition meaning (M : lp_model) : ainst :=
  {| ai_name := lp_name M;
     ai_max := match lp_sense M with Some b => b | None => false end;
     ai_obj := row_vec M (lp_objrow M);
     ai_objconst := lp_objconst M;
     ai_vars := map (col_meaning M) (lp_cols M);
     ai_cons := flat_map (row_meaning M) (lp_rows M) |}.

(* ------------------------------------------------------------------ *)
(* the independent writer                                               *)

Record layout := {
  ly_five : bool;       (* two (row, value) pairs per data line where possible *)
  ly_comments : bool;   (* `*` comment lines *)
  ly_blanks : bool;     (* empty and whitespace-only lines *)
  ly_inline : bool;     (* OBJSENSE MAX on one line (otherwise the word on its own field line) *)
  ly_tabs : bool }.     (* tab instead of two spaces between fields *)

Fixpoint join (sep : string) (l : list string) : string :=
  match l with
  | [] => ""
  | [x] => x
  | x :: l' => x +++ sep +++ join sep l'
  end.
Definition fline (ly : layout) (fields : list string) : string :=
  " " +++ join (if ly_tabs ly then String (ascii_of_N 9) "" else "  ") fields.

Definition rty_word (t : rty) : string :=
  match t with RN => "N" | RE => "E" | RL => "L" | RG => "G" end.
Definition kw_word (k : bkw) : string :=
  match k with UP => "UP" | LO => "LO" | FX => "FX" | MI => "MI" | PL => "PL" | FR => "FR"
             | BV => "BV" | LI => "LI" | UI => "UI" end.

(* data lines  set-or-column name, (name, value) pairs: one or two pairs per line *)
Fixpoint pair_lines (ly : layout) (head : string) (ps : list (string * num)) : list string :=
  match ps with
  | [] => []
  | [p] => [fline ly [head; fst p; print_num (snd p)]]
  | p :: ((q :: ps') as rest) =>
      if ly_five ly
      then fline ly [head; fst p; print_num (snd p); fst q; print_num (snd q)] :: pair_lines ly head ps'
      else fline ly [head; fst p; print_num (snd p)] :: pair_lines ly head rest
  end.

Definition marker (ly : layout) (on : bool) : string :=
  fline ly ["MARKER"; "'MARKER'"; if on then "'INTORG'" else "'INTEND'"].

Fixpoint col_lines (ly : layout) (cs : list scol) (in_int : bool) : list string :=
  match cs with
  | [] => if in_int then [marker ly false] else []
  | c :: cs' =>
      (if sc_int c then (if in_int then [] else [marker ly true])
       else (if in_int then [marker ly false] else []))
      ++ pair_lines ly (sc_name c) (sc_coefs c) ++ col_lines ly cs' (sc_int c)
  end.

Definition rhs_entries (M : lp_model) : list (string * num) :=
  (if qeqb (lp_objconst M) 0 then [] else [(lp_objrow M, - lp_objconst M)])
  ++ flat_map (fun r => match sr_rhs r with Some b => [(sr_name r, b)] | None => [] end) (lp_rows M).
Definition range_entries (M : lp_model) : list (string * num) :=
  flat_map (fun r => match sr_range r with Some x => [(sr_name r, x)] | None => [] end) (lp_rows M).

Definition bound_line (ly : layout) (b : bstmt) : string :=
  fline ly ([kw_word (b_kw b); "BND"; b_col b] ++
            (if kw_needs_value (b_kw b) then [print_ext (b_val b)] else [])).

(* a section: header, optional comment, body, optional blank lines *)
Definition section (ly : layout) (header : string) (body : list string) : list string :=
  header :: (if ly_comments ly then ["* " +++ header +++ " section"] else [])
  ++ body ++ (if ly_blanks ly then [""; "   "] else []).

Definition render (ly : layout) (M : lp_model) : list string :=
  (if ly_comments ly then ["* generated"; "*"] else [])
  ++ section ly ("NAME " +++ lp_name M) []
  ++ match lp_sense M with
     | None => []
     | Some b =>
         let w := if b then "MAX" else "MIN" in
         if ly_inline ly then section ly ("OBJSENSE " +++ w) []
         else section ly "OBJSENSE" [fline ly [w]]
     end
  ++ section ly "ROWS"
       (fline ly ["N"; lp_objrow M]
        :: map (fun r => fline ly [rty_word (sr_ty r); sr_name r]) (lp_rows M))
  ++ section ly "COLUMNS" (col_lines ly (lp_cols M) false)
  ++ section ly "RHS" (pair_lines ly "RHS" (rhs_entries M))
  ++ match range_entries M with
     | [] => []
     | es => section ly "RANGES" (pair_lines ly "RNG" es)
     end
  ++ match lp_bounds M with
     | [] => []
     | bs => section ly "BOUNDS" (map (bound_line ly) bs)
     end
  ++ ["ENDATA"].
