(* LogEncPath.v — the QUBO-driver path, composite of C12 (log_encode) and C04 (substitute):
     (E, bits) := log_encode(x);  the binaries `bits` are appended to the decision variables;
     J := substitute({x := E});  evaluate J at a 0/1 assignment of the new binaries.
   Every solution reported for J gives x an integer value z of the ORIGINAL range
   ceil(l) <= z <= floor(u) (the value of E at the bits), the objective and all constraints carry
   the values of the ORIGINAL functions at the reported state (x := z), and every integer of the
   range is reached by some bit pattern.  Built on LogEncProofs.log_encode_encoding (C12_encoding)
   and SubstInst.inst_substitute_eval (C04). *)
Require Import Ommx.Num Ommx.Poly Ommx.Msg Ommx.Eval Ommx.Tree Ommx.Arith Ommx.ArithProofs Ommx.Inst
        Ommx.InstProofs Ommx.Transform Ommx.TransformProofs Ommx.LogEncProofs Ommx.Subst
        Ommx.SubstProofs Ommx.DepsOrder Ommx.SubstInst.
From Coq Require Import String Permutation ZifyN ZifyBool ZifyNat Lia.
Close Scope string_scope.
Open Scope list_scope.
Open Scope Qc_scope.

(* the instance after Instance::log_encode: the same instance with the new binaries appended to
   the decision variables (this is what the runner's judge_log_encode checks of the SDK) *)
Definition add_dvs (I : instance) (news : list dvar) : instance :=
  {| i_sense := i_sense I; i_obj := i_obj I; i_dvs := i_dvs I ++ news; i_cs := i_cs I;
     i_rs := i_rs I; i_deps := i_deps I; i_params := i_params I; i_hints := i_hints I;
     i_desc := i_desc I |}.

Definition bitq (b : bool) : num := if b then 1 else 0.

(* the state gives the j-th new binary (id base + j) the 0/1 value of the j-th bit; it may bind
   any other variables as well *)
Definition assigns_bits (base : N) (bs : list bool) (s : state) : Prop :=
  forall j b, nth_error bs j = Some b -> sget s (base + N.of_nat j)%N = Some (bitq b).
(* the same for a total valuation *)
Definition reads_bits (base : N) (bs : list bool) (rho : valuation) : Prop :=
  forall j b, nth_error bs j = Some b -> rho (base + N.of_nat j)%N = bitq b.

(* the smallest such state: exactly the bits *)
Fixpoint bits_state (base : N) (bs : list bool) : state :=
  match bs with
  | [] => []
  | b :: bs' => (base, bitq b) :: bits_state (base + 1) bs'
  end.

(* ---------------- small facts ---------------- *)
Lemma assigns_reads base bs s rho : assigns_bits base bs s -> agrees rho s -> reads_bits base bs rho.
Proof. intros A Ag j b H. apply Ag. apply A. exact H. Qed.

Lemma assigns_bits_sext base bs s s' : sext s s' -> assigns_bits base bs s -> assigns_bits base bs s'.
Proof. intros X A j b H. apply X. apply A. exact H. Qed.

Lemma sget_bits_state_below bs : forall base i, (i < base)%N -> sget (bits_state base bs) i = None.
Proof.
  induction bs as [|b bs IH]; intros base i H; cbn [bits_state sget]; [reflexivity|].
  destruct (i =? base)%N eqn:E; [apply N.eqb_eq in E; lia|]. apply IH. lia.
Qed.

Lemma sget_bits_state_keys bs : forall base i v, sget (bits_state base bs) i = Some v ->
  (base <= i < base + N.of_nat (List.length bs))%N.
Proof.
  induction bs as [|b bs IH]; intros base i v H; cbn [bits_state sget List.length] in *; [discriminate|].
  destruct (i =? base)%N eqn:E; [apply N.eqb_eq in E; lia|]. apply IH in H. lia.
Qed.

Lemma bits_state_assigns bs : forall base, assigns_bits base bs (bits_state base bs).
Proof.
  induction bs as [|b bs IH]; intros base j c H.
  - destruct j; discriminate.
  - cbn [bits_state sget]. destruct j as [|j]; cbn [nth_error] in H.
    + inversion H; subst. replace (base + N.of_nat 0)%N with base by lia. rewrite N.eqb_refl. reflexivity.
    + destruct (base + N.of_nat (S j) =? base)%N eqn:E; [apply N.eqb_eq in E; lia|].
      replace (base + N.of_nat (S j))%N with (base + 1 + N.of_nat j)%N by lia. apply IH. exact H.
Qed.

Lemma sget_app s1 s2 i : sget (s1 ++ s2) i = match sget s1 i with Some v => Some v | None => sget s2 i end.
Proof.
  induction s1 as [|[j v] s1 IH]; cbn [app sget]; [reflexivity|].
  destruct (i =? j)%N; [reflexivity|exact IH].
Qed.

Lemma insert_subst_app a : forall b s, insert_subst (a ++ b) s = insert_subst b (insert_subst a s).
Proof. induction a as [|v a IH]; intros b s; cbn [app insert_subst]; [reflexivity|apply IH]. Qed.

(* the linear expression on ANY valuation that reads the bits: only the new ids matter *)
Lemma enum_from_val_local cs : forall base bs (rho : valuation), List.length bs = List.length cs ->
  reads_bits base bs rho -> valg rho (enum_from base cs) = qz (Z.of_N (dot cs bs)).
Proof.
  induction cs as [|c cs IH]; intros base [|b bs] rho H R; cbn [List.length] in H; try discriminate.
  - cbn [enum_from valg dot]. change (Z.of_N 0%N) with 0%Z. symmetry. apply qz_0.
  - cbn [enum_from valg dot].
    rewrite (IH (base + 1)%N bs rho) by
      (try lia; intros j x Hj; replace (base + 1 + N.of_nat j)%N with (base + N.of_nat (S j))%N by lia;
       apply R; exact Hj).
    assert (E0 : rho base = bitq b).
    { replace base with (base + N.of_nat 0)%N at 1 by lia. apply R. reflexivity. }
    rewrite E0, N2Z.inj_add, qz_add. unfold bitq.
    destruct b; [ring|change (Z.of_N 0%N) with 0%Z; rewrite qz_0; ring].
Qed.

Lemma enum_from_keys cs : forall base k, In k (map fst (enum_from base cs)) ->
  exists j, (j < List.length cs)%nat /\ k = (base + N.of_nat j)%N.
Proof.
  induction cs as [|c cs IH]; intros base k H; cbn [enum_from map fst In List.length] in *; [destruct H|].
  destruct H as [H|H].
  - exists 0%nat. split; lia.
  - destruct (IH _ _ H) as (j & Hj & E). exists (S j). split; lia.
Qed.

Section LogEncPath.
  Variable tiny : num -> bool.
  Hypothesis TE : tiny_exact tiny.

  (* what log_encode returns for a range with at least two integers *)
  Lemma log_encode_shape I id v l u :
    find_dv id (i_dvs I) = Some v -> dv_kind v = KIND_INTEGER -> dv_bound v = Some (Fin l, Fin u) ->
    (qceil l < qfloor u)%Z ->
    let K := Z.to_N (qfloor u - qceil l) in
    let base := next_id (i_dvs I) in
    log_encode tiny I id = inr (lin_new tiny (enum_from base (le_coeffs K)) (qz (qceil l)),
                                new_bits id base (List.length (le_coeffs K)) 0).
  Proof.
    intros F Kd B Lt K base. unfold log_encode. rewrite F, Kd, B. cbn [negb Z.eqb].
    rewrite Z.eqb_refl. cbn [negb].
    destruct (qfloor u - qceil l <? 0)%Z eqn:Neg; [apply Z.ltb_lt in Neg; lia|].
    destruct (qfloor u - qceil l =? 0)%Z eqn:Z0; [apply Z.eqb_eq in Z0; lia|].
    reflexivity.
  Qed.

  Lemma le_coeffs_nbits K : (1 <= K)%N -> List.length (le_coeffs K) = le_nbits K.
  Proof. intro HK. rewrite le_coeffs_length. pose proof (le_nbits_pos K HK). lia. Qed.

  (* value of the returned expression on every valuation that reads the bits, and on every state
     that assigns them *)
  Lemma log_encode_value_local I id v l u E bits :
    find_dv id (i_dvs I) = Some v -> dv_kind v = KIND_INTEGER -> dv_bound v = Some (Fin l, Fin u) ->
    (qceil l < qfloor u)%Z ->
    let K := Z.to_N (qfloor u - qceil l) in
    let base := next_id (i_dvs I) in
    log_encode tiny I id = inr (E, bits) ->
    forall bs, List.length bs = le_nbits K ->
      (forall rho, reads_bits base bs rho ->
         denote (FLin E) rho = qz (qceil l + Z.of_N (dot (le_coeffs K) bs))) /\
      (forall s, assigns_bits base bs s ->
         exists ids, fn_eval (FLin E) s = Some (qz (qceil l + Z.of_N (dot (le_coeffs K) bs)), ids)).
  Proof.
    intros F Kd B Lt K base HL bs Hb.
    pose proof (log_encode_shape I id v l u F Kd B Lt) as Sh. cbv zeta in Sh. fold K base in Sh.
    rewrite Sh in HL. inversion HL; subst E bits; clear HL.
    assert (HK : (1 <= K)%N) by (unfold K; lia).
    assert (Val : forall rho, reads_bits base bs rho ->
              denote (FLin (lin_new tiny (enum_from base (le_coeffs K)) (qz (qceil l)))) rho
              = qz (qceil l + Z.of_N (dot (le_coeffs K) bs))).
    { intros rho R. unfold denote. cbn [fn_terms].
      rewrite (V_lin_new tiny TE rho), (enum_from_val_local _ base bs rho); [|rewrite le_coeffs_nbits; assumption|exact R].
      rewrite qz_add. ring. }
    split; [exact Val|].
    intros s A.
    destruct (fn_eval_total (FLin (lin_new tiny (enum_from base (le_coeffs K)) (qz (qceil l)))) s) as (w & ids & Ev).
    { intros i Oc. unfold occurs in Oc. cbn [fn_terms] in Oc. apply occurs_lin_terms in Oc.
      unfold lin_new in Oc. cbn [l_terms] in Oc.
      unfold merge in Oc. apply merge_from_keys in Oc; [|exact Neqb_spec|exact (fun _ => 0)]. destruct Oc as [[]|Oc].
      apply enum_from_keys in Oc. destruct Oc as (j & Hj & ->).
      rewrite le_coeffs_nbits in Hj by exact HK. rewrite <- Hb in Hj.
      destruct (nth_error bs j) as [b|] eqn:Nj; [|apply nth_error_None in Nj; lia].
      rewrite (A j b Nj). discriminate. }
    exists ids. rewrite Ev. f_equal. f_equal.
    apply fn_eval_sound in Ev. rewrite (proj1 Ev (total s) (total_agrees s)).
    apply Val. eapply assigns_reads; [exact A|apply total_agrees].
  Qed.

  (* ================= the composite ================= *)
  Theorem log_encode_substitute_eval : forall I id v l u E bits J s sol bs,
    (* x = variable `id` of I: integer, finite bound [l,u] with at least two integers *)
    find_dv id (i_dvs I) = Some v -> dv_kind v = KIND_INTEGER -> dv_bound v = Some (Fin l, Fin u) ->
    (qceil l < qfloor u)%Z ->
    let K := Z.to_N (qfloor u - qceil l) in
    let base := next_id (i_dvs I) in
    (* the driver path *)
    log_encode tiny I id = inr (E, bits) ->
    inst_substitute tiny (add_dvs I bits) [(id, FLin E)] = Some J ->
    (* the dependency map of I is a map *)
    NoDup (dkeys (i_deps I)) ->
    (* the state (completed by the fixed values of I) gives no value to x or to a dependent variable *)
    (forall d, d = id \/ In d (dkeys (i_deps I)) -> sget (insert_subst (i_dvs I) s) d = None) ->
    (* fixed values recorded in the decision variables of I do not contradict the state *)
    sext s (insert_subst (i_dvs I) s) ->
    (* the state is a 0/1 assignment bs of the new binaries, extended arbitrarily *)
    List.length bs = le_nbits K -> assigns_bits base bs s ->
    inst_eval J s = Some sol ->
    let z := (qceil l + Z.of_N (dot (le_coeffs K) bs))%Z in
    (* (i) x is reported with the integer z of the original range, the value of E at the bits *)
    (qceil l <= z <= qfloor u)%Z /\
    sext s (so_state sol) /\
    sget (so_state sol) id = Some (qz z) /\
    (exists ids, fn_eval (FLin E) s = Some (qz z, ids)) /\
    (forall rho, agrees rho (so_state sol) -> rho id = qz z /\ denote (FLin E) rho = qz z) /\
    (* (d) earlier dependent variables keep the value of their ORIGINAL function at the reported state *)
    (forall d h, In (d, h) (i_deps I) -> d <> id ->
       exists w, sget (so_state sol) d = Some w /\
                 forall rho, agrees rho (so_state sol) -> w = denote h rho) /\
    (* (ii) objective and constraints: the ORIGINAL functions of I at the reported state *)
    (forall rho, agrees rho (so_state sol) -> so_objective sol = denote (fn_or_zero (i_obj I)) rho) /\
    (exists ea er, so_evaluated sol = ea ++ er /\
       Forall2 (fun c e => reports_at c None (so_state sol) e) (i_cs I) ea /\
       Forall2 (fun r e => reports_removed_at r (so_state sol) e) (i_rs I) er /\
       (so_feasible_relaxed sol = true <-> Forall holds ea) /\
       (so_feasible sol = true <-> Forall holds (ea ++ er))) /\
    so_dvs sol = i_dvs I ++ bits.
  Proof.
    intros I id v l u E bits J s sol bs F Kd B Lt K base HL HS NDI FR SX Hb A HE z.
    (* C12 *)
    destruct (log_encode_encoding tiny TE I id v l u F Kd B Lt)
      as (lin & news & HL' & Hlen & Hids & Hnew & _ & _).
    fold K base in HL', Hlen, Hids.
    rewrite HL in HL'. inversion HL'; subst lin news; clear HL'.
    destruct (log_encode_value_local I id v l u E bits F Kd B Lt HL bs Hb) as [Vrho Vs].
    fold K base in Vrho, Vs. fold z in Vrho, Vs.
    assert (HK : (1 <= K)%N) by (unfold K; lia).
    assert (Hz : (qceil l <= z <= qfloor u)%Z).
    { pose proof (proj1 (log_encode_cover K HK (dot (le_coeffs K) bs)) (ex_intro _ bs (conj Hb eq_refl))) as Hle.
      assert (HKv : K = Z.to_N (qfloor u - qceil l)) by reflexivity.
      unfold z. set (d := dot (le_coeffs K) bs) in *. clearbody d. clearbody K. lia. }
    (* the new binaries carry no fixed value *)
    assert (IS : forall t, insert_subst (i_dvs (add_dvs I bits)) t = insert_subst (i_dvs I) t).
    { intro t. cbn [add_dvs i_dvs]. rewrite insert_subst_app. apply insert_subst_none.
      intros w Hw. rewrite Forall_forall in Hnew. apply (Hnew w Hw). }
    (* C04 *)
    destruct (inst_substitute_eval tiny TE (add_dvs I bits) [(id, FLin E)] J s sol)
      as (X & Ha & Hd & Hobj & Hc & Hdv).
    - intros i r Lk. cbn [lookup] in Lk. destruct (i =? id)%N; [|discriminate].
      inversion Lk; subst. exact Logic.I.
    - cbn. constructor; [intros []|constructor].
    - exact NDI.
    - intros d Hd. rewrite IS. apply FR. destruct Hd as [Hd|Hd]; [|right; exact Hd].
      cbn in Hd. destruct Hd as [Hd|[]]. left. symmetry. exact Hd.
    - rewrite IS. exact SX.
    - exact HS.
    - exact HE.
    - assert (Lk : lookup id [(id, FLin E)] = Some (FLin E)) by (cbn [lookup]; rewrite N.eqb_refl; reflexivity).
      destruct (Ha id (FLin E) Lk) as (w & ids & G & _ & Hw & _).
      assert (Ew : w = qz z).
      { rewrite (Hw (total (so_state sol)) (total_agrees _)). apply Vrho.
        eapply assigns_reads; [|apply total_agrees]. eapply assigns_bits_sext; eauto. }
      subst w.
      split; [exact Hz|]. split; [exact X|]. split; [exact G|]. split; [apply Vs; exact A|].
      split.
      { intros rho Ag. split; [apply Ag; exact G|]. apply Vrho.
        eapply assigns_reads; [|exact Ag]. eapply assigns_bits_sext; eauto. }
      split.
      { intros d h Hin Hne. apply (Hd d h Hin). cbn. intros [Hx|[]]. apply Hne. symmetry. exact Hx. }
      split; [exact Hobj|]. split; [exact Hc|exact Hdv].
  Qed.

  (* cover: every integer of the original range is the value of E at some 0/1 assignment of the
     new binaries; hence (with the theorem above) any solution reported at such an assignment
     gives x exactly that integer *)
  Theorem log_encode_substitute_cover : forall I id v l u E bits,
    find_dv id (i_dvs I) = Some v -> dv_kind v = KIND_INTEGER -> dv_bound v = Some (Fin l, Fin u) ->
    (qceil l < qfloor u)%Z ->
    let K := Z.to_N (qfloor u - qceil l) in
    let base := next_id (i_dvs I) in
    log_encode tiny I id = inr (E, bits) ->
    forall z : Z, (qceil l <= z <= qfloor u)%Z ->
    exists bs, List.length bs = le_nbits K /\
      z = (qceil l + Z.of_N (dot (le_coeffs K) bs))%Z /\
      (* E evaluates to z on the bits alone, on every state that assigns them, and under every
         valuation that reads them *)
      (exists ids, fn_eval (FLin E) (bits_state base bs) = Some (qz z, ids)) /\
      (forall s, assigns_bits base bs s -> exists ids, fn_eval (FLin E) s = Some (qz z, ids)) /\
      (forall rho, reads_bits base bs rho -> denote (FLin E) rho = qz z) /\
      (* and the whole path reports x = z there *)
      (forall J s sol,
         inst_substitute tiny (add_dvs I bits) [(id, FLin E)] = Some J ->
         NoDup (dkeys (i_deps I)) ->
         (forall d, d = id \/ In d (dkeys (i_deps I)) -> sget (insert_subst (i_dvs I) s) d = None) ->
         sext s (insert_subst (i_dvs I) s) ->
         assigns_bits base bs s -> inst_eval J s = Some sol ->
         sget (so_state sol) id = Some (qz z)).
  Proof.
    intros I id v l u E bits F Kd B Lt K base HL z Hz.
    assert (HK : (1 <= K)%N) by (unfold K; lia).
    assert (HKv : K = Z.to_N (qfloor u - qceil l)) by reflexivity.
    destruct (proj2 (log_encode_cover K HK (Z.to_N (z - qceil l)))) as (bs & Hb & Hd); [lia|].
    exists bs. split; [exact Hb|].
    assert (Ez : z = (qceil l + Z.of_N (dot (le_coeffs K) bs))%Z) by (rewrite Hd; lia).
    split; [exact Ez|].
    destruct (log_encode_value_local I id v l u E bits F Kd B Lt HL bs Hb) as [Vrho Vs].
    fold K base in Vrho, Vs. rewrite <- Ez in Vrho, Vs.
    split; [apply Vs; apply bits_state_assigns|]. split; [exact Vs|]. split; [exact Vrho|].
    intros J s sol HS NDI FR SX A HE.
    destruct (log_encode_substitute_eval I id v l u E bits J s sol bs F Kd B Lt HL HS NDI FR SX Hb A HE)
      as (_ & _ & G & _).
    fold K in G. rewrite <- Ez in G. exact G.
  Qed.

  (* (ii) in executable form: whenever the ORIGINAL objective / constraint function can be
     evaluated on the reported state (x := z there), the result is the reported value *)
  Corollary log_encode_substitute_eval_values : forall I id v l u E bits J s sol bs,
    find_dv id (i_dvs I) = Some v -> dv_kind v = KIND_INTEGER -> dv_bound v = Some (Fin l, Fin u) ->
    (qceil l < qfloor u)%Z ->
    let K := Z.to_N (qfloor u - qceil l) in
    let base := next_id (i_dvs I) in
    log_encode tiny I id = inr (E, bits) ->
    inst_substitute tiny (add_dvs I bits) [(id, FLin E)] = Some J ->
    NoDup (dkeys (i_deps I)) ->
    (forall d, d = id \/ In d (dkeys (i_deps I)) -> sget (insert_subst (i_dvs I) s) d = None) ->
    sext s (insert_subst (i_dvs I) s) ->
    List.length bs = le_nbits K -> assigns_bits base bs s ->
    inst_eval J s = Some sol ->
    sget (so_state sol) id = Some (qz (qceil l + Z.of_N (dot (le_coeffs K) bs))) /\
    (forall w ids, fn_eval (fn_or_zero (i_obj I)) (so_state sol) = Some (w, ids) -> so_objective sol = w) /\
    (exists ea er, so_evaluated sol = ea ++ er /\
       Forall2 (fun c e => ev_id e = c_id c /\ ev_eq e = c_eq c /\
                  forall w ids, fn_eval (fn_or_zero (c_fn c)) (so_state sol) = Some (w, ids) -> ev_value e = w)
               (i_cs I) ea /\
       Forall2 (fun r e => exists c, r_c r = Some c /\ ev_id e = c_id c /\ ev_eq e = c_eq c /\
                  forall w ids, fn_eval (fn_or_zero (c_fn c)) (so_state sol) = Some (w, ids) -> ev_value e = w)
               (i_rs I) er).
  Proof.
    intros I id v l u E bits J s sol bs F Kd B Lt K base HL HS NDI FR SX Hb A HE.
    destruct (log_encode_substitute_eval I id v l u E bits J s sol bs F Kd B Lt HL HS NDI FR SX Hb A HE)
      as (_ & _ & G & _ & _ & _ & Hobj & (ea & er & E1 & Fa & Fr & _) & _).
    split; [exact G|]. split.
    - intros w ids Ev. apply fn_eval_sound in Ev.
      rewrite (proj1 Ev (total (so_state sol)) (total_agrees _)). apply Hobj. apply total_agrees.
    - exists ea, er. split; [exact E1|]. split.
      + eapply Forall2_impl'; [|exact Fa]. intros c e (H1 & H2 & _ & _ & H5).
        split; [exact H1|]. split; [exact H2|]. intros w ids Ev. apply fn_eval_sound in Ev.
        rewrite (proj1 Ev (total (so_state sol)) (total_agrees _)). apply H5. apply total_agrees.
      + eapply Forall2_impl'; [|exact Fr]. intros r e (c & Hc & H1 & H2 & _ & _ & H5).
        exists c. split; [exact Hc|]. split; [exact H1|]. split; [exact H2|].
        intros w ids Ev. apply fn_eval_sound in Ev.
        rewrite (proj1 Ev (total (so_state sol)) (total_agrees _)). apply H5. apply total_agrees.
  Qed.

  (* ---------------- the hypotheses about the state, discharged ---------------- *)
  (* the new binaries have ids at or above next_id: above x and above every defined variable *)
  Lemma fresh_ids_above I j w : In w (i_dvs I) -> (dv_id w < next_id (i_dvs I) + N.of_nat j)%N.
  Proof. apply (log_encode_fresh I j w). Qed.

  Lemma find_dv_in id : forall dvs v, find_dv id dvs = Some v -> In v dvs /\ dv_id v = id.
  Proof.
    induction dvs as [|w dvs IH]; intros v H; cbn [find_dv] in H; [discriminate|].
    destruct (dv_id w =? id)%N eqn:E.
    - inversion H; subst. apply N.eqb_eq in E. split; [left; reflexivity|exact E].
    - destruct (IH v H) as [H1 H2]. split; [right; exact H1|exact H2].
  Qed.

  (* for an instance without fixed values whose dependent variables are defined variables, the
     state made of the bits and of any values s0 for other variables (none for x, none for a
     dependent variable) satisfies all three state hypotheses of the theorem *)
  Lemma bits_state_hyps I id v bs s0 :
    find_dv id (i_dvs I) = Some v ->
    (forall w, In w (i_dvs I) -> dv_subst w = None) ->
    (forall d, In d (dkeys (i_deps I)) -> In d (map dv_id (i_dvs I))) ->
    (forall d, d = id \/ In d (dkeys (i_deps I)) -> sget s0 d = None) ->
    let base := next_id (i_dvs I) in
    let s := bits_state base bs ++ s0 in
    (forall d, d = id \/ In d (dkeys (i_deps I)) -> sget (insert_subst (i_dvs I) s) d = None) /\
    sext s (insert_subst (i_dvs I) s) /\
    assigns_bits base bs s.
  Proof.
    intros F NF DD F0 base s.
    rewrite (insert_subst_none _ s NF). split; [|split; [apply sext_refl|]].
    - intros d Hd. unfold s. rewrite sget_app.
      assert (Hlt : (d < base)%N).
      { destruct Hd as [->|Hd].
        - destruct (find_dv_in _ _ _ F) as [Hin <-]. apply next_id_above. exact Hin.
        - apply DD in Hd. apply in_map_iff in Hd. destruct Hd as (w & <- & Hw).
          apply next_id_above. exact Hw. }
      rewrite (sget_bits_state_below bs base d Hlt). apply F0. exact Hd.
    - intros j b Hj. unfold s. rewrite sget_app. rewrite (bits_state_assigns bs base j b Hj). reflexivity.
  Qed.
End LogEncPath.

(* ================= non-vacuity ================= *)
(* x1 integer in [1,6], x2 continuous; minimise x1*x2 + 2*x1; constraint 7: x1 + x2 - 8 <= 0,
   removed constraint 8: x1 - 2 = 0.  log_encode(x1): K = 5, three binaries 3,4,5 with
   coefficients 1,2,2: E = 1 + b3 + 2 b4 + 2 b5. *)
Definition LI_ex : instance :=
  {| i_sense := SENSE_MIN;
     i_obj := Some (FPoly [([1; 2]%N, 1); ([1]%N, qz 2)]);
     i_dvs := [ {| dv_id := 1; dv_kind := KIND_INTEGER; dv_bound := Some (Fin 1, Fin (qz 6));
                   dv_subst := None; dv_meta := [A "x"%string] |};
                {| dv_id := 2; dv_kind := KIND_CONTINUOUS; dv_bound := None; dv_subst := None; dv_meta := [] |} ];
     i_cs := [ {| c_id := 7; c_eq := LE_ZERO;
                  c_fn := Some (FLin {| l_terms := [(1%N, 1); (2%N, 1)]; l_const := qz (-8) |});
                  c_meta := [A "c7"%string] |} ];
     i_rs := [ {| r_c := Some {| c_id := 8; c_eq := EQ_ZERO;
                                 c_fn := Some (FLin {| l_terms := [(1%N, 1)]; l_const := qz (-2) |});
                                 c_meta := [A "c8"%string] |};
                  r_reason := A "why"%string; r_params := L [] |} ];
     i_deps := [];
     i_params := None; i_hints := L []; i_desc := L [] |}.

(* bits (1,0,0) -> x1 = 2 ; bits (1,1,1) -> x1 = 6 ; x2 = 3 in both *)
Definition bs_a : list bool := [true; false; false].
Definition bs_b : list bool := [true; true; true].
Definition s_a : state := bits_state 3 bs_a ++ [(2%N, qz 3)].
Definition s_b : state := bits_state 3 bs_b ++ [(2%N, qz 3)].

Example log_encode_substitute_nonvacuous :
  exists v E bits J sol_a sol_b,
    find_dv 1 (i_dvs LI_ex) = Some v /\ dv_kind v = KIND_INTEGER /\
    dv_bound v = Some (Fin 1, Fin (qz 6)) /\ (qceil 1 < qfloor (qz 6))%Z /\
    next_id (i_dvs LI_ex) = 3%N /\ le_nbits (Z.to_N (qfloor (qz 6) - qceil 1)) = 3%nat /\
    le_coeffs (Z.to_N (qfloor (qz 6) - qceil 1)) = [1; 2; 2]%N /\
    log_encode tiny_0 LI_ex 1 = inr (E, bits) /\
    map dv_id bits = [3; 4; 5]%N /\
    inst_substitute tiny_0 (add_dvs LI_ex bits) [(1%N, FLin E)] = Some J /\
    NoDup (dkeys (i_deps LI_ex)) /\
    (* state a: all hypotheses, evaluation, x1 = 2, objective 2*3 + 2*2 = 10, constraints -3, 0 *)
    (forall d, d = 1%N \/ In d (dkeys (i_deps LI_ex)) -> sget (insert_subst (i_dvs LI_ex) s_a) d = None) /\
    sext s_a (insert_subst (i_dvs LI_ex) s_a) /\ assigns_bits 3 bs_a s_a /\
    inst_eval J s_a = Some sol_a /\
    sget (so_state sol_a) 1 = Some (qz 2) /\ so_objective sol_a = qz 10 /\
    map ev_value (so_evaluated sol_a) = [qz (-3); 0] /\ so_feasible sol_a = true /\
    (* state b: x1 = 6, objective 6*3 + 2*6 = 30, constraints 1, 4: infeasible *)
    (forall d, d = 1%N \/ In d (dkeys (i_deps LI_ex)) -> sget (insert_subst (i_dvs LI_ex) s_b) d = None) /\
    sext s_b (insert_subst (i_dvs LI_ex) s_b) /\ assigns_bits 3 bs_b s_b /\
    inst_eval J s_b = Some sol_b /\
    sget (so_state sol_b) 1 = Some (qz 6) /\ so_objective sol_b = qz 30 /\
    map ev_value (so_evaluated sol_b) = [qz 1; qz 4] /\ so_feasible sol_b = false.
Proof.
  assert (F : find_dv 1 (i_dvs LI_ex) = Some
                {| dv_id := 1; dv_kind := KIND_INTEGER; dv_bound := Some (Fin 1, Fin (qz 6));
                   dv_subst := None; dv_meta := [A "x"%string] |}) by reflexivity.
  assert (NF : forall w, In w (i_dvs LI_ex) -> dv_subst w = None).
  { intros w [<-|[<-|[]]]; reflexivity. }
  assert (DD : forall d, In d (dkeys (i_deps LI_ex)) -> In d (map dv_id (i_dvs LI_ex))) by (intros d []).
  assert (F0 : forall d, d = 1%N \/ In d (dkeys (i_deps LI_ex)) -> sget [(2%N, qz 3)] d = None).
  { intros d [->|[]]. reflexivity. }
  destruct (bits_state_hyps LI_ex 1 _ bs_a _ F NF DD F0) as (Ha1 & Ha2 & Ha3).
  destruct (bits_state_hyps LI_ex 1 _ bs_b _ F NF DD F0) as (Hb1 & Hb2 & Hb3).
  change (next_id (i_dvs LI_ex)) with 3%N in Ha1, Ha2, Ha3, Hb1, Hb2, Hb3.
  eexists. eexists. eexists. eexists. eexists. eexists.
  split; [exact F|]. split; [reflexivity|]. split; [reflexivity|].
  split; [vm_compute; reflexivity|]. split; [reflexivity|].
  split; [vm_compute; reflexivity|]. split; [vm_compute; reflexivity|].
  split; [vm_compute; reflexivity|]. split; [vm_compute; reflexivity|].
  split; [vm_compute; reflexivity|]. split; [constructor|].
  split; [exact Ha1|]. split; [exact Ha2|]. split; [exact Ha3|].
  split; [vm_compute; reflexivity|].
  split; [vm_compute; reflexivity|]. split; [vm_compute; reflexivity|].
  split; [vm_compute; reflexivity|]. split; [vm_compute; reflexivity|].
  split; [exact Hb1|]. split; [exact Hb2|]. split; [exact Hb3|].
  split; [vm_compute; reflexivity|].
  split; [vm_compute; reflexivity|]. split; [vm_compute; reflexivity|].
  split; [vm_compute; reflexivity|]. vm_compute; reflexivity.
Qed.

Print Assumptions log_encode_substitute_eval.
Print Assumptions log_encode_substitute_cover.
Print Assumptions log_encode_substitute_eval_values.
Print Assumptions bits_state_hyps.
Print Assumptions log_encode_substitute_nonvacuous.
