(* PolyComplete.v — COMPLETENESS of the formal polynomial equality test [poly_eqb] of Poly.v:
   two term lists that denote the same function N -> Qc (under every valuation) are accepted by
   the comparator.  Together with [poly_eqb_sound] this makes [poly_eqb] a decision procedure
   for semantic equality of term lists, so a correspondence check that compares polynomial
   answers with [poly_eqb] can never raise a false alarm on a correct answer.

   Route: (1) a univariate polynomial (Horner coefficient list) that vanishes outside a finite
   set of points has all coefficients zero (synthetic division by a fresh root, induction on the
   length); (2) for a variable x every term list splits into the parts "exactly k occurrences of
   x, x removed"; the value at rho[x:=v] is the univariate polynomial in v whose k-th coefficient
   is the value of the k-th part, so every part vanishes identically when the whole does;
   (3) induction on a list of variables covering the term list, for term lists whose keys are
   pairwise different as multisets; (4) the merged map of [poly_eqb] has such keys because
   [sort_ids] is invariant under permutation and the merge keeps keys unique.
   No bound on degree, number of variables or number of terms. *)
Require Import Ommx.Num Ommx.Poly.
From Coq Require Import Permutation Arith.

(* ------------------------------------------------------------------ *)
(* 1. univariate polynomials as coefficient lists, low degree first *)
Fixpoint ueval (cs : list num) (v : num) : num :=
  match cs with [] => 0 | c :: cs' => c + v * ueval cs' v end.

(* Horner scheme at r: [b0; b1; ..; bn], b0 = p(r), [b1..bn] = quotient of p by (X - r) *)
Fixpoint hs (r : num) (cs : list num) : list num :=
  match cs with [] => [] | c :: cs' => (c + r * hd 0 (hs r cs')) :: hs r cs' end.

Lemma ueval_hd_tl h v : ueval h v = hd 0 h + v * ueval (tl h) v.
Proof. destruct h; cbn [ueval hd tl]; ring. Qed.

Lemma hs_length r cs : length (hs r cs) = length cs.
Proof. induction cs as [|c cs IH]; cbn [hs length]; [reflexivity|]. rewrite IH. reflexivity. Qed.

Lemma hs_div r cs v :
  ueval cs v = hd 0 (hs r cs) + (v - r) * ueval (tl (hs r cs)) v.
Proof.
  induction cs as [|c cs IH]; cbn [hs ueval hd tl]; [ring|].
  rewrite IH. rewrite (ueval_hd_tl (hs r cs) v). ring.
Qed.

Definition zeros (cs : list num) : Prop := Forall (fun c => c = 0) cs.

Lemma hs_zero r cs : zeros (hs r cs) -> zeros cs.
Proof.
  unfold zeros. induction cs as [|c cs IH]; cbn [hs]; intro H; [constructor|].
  inversion H as [|? ? H0 Ht]; subst.
  assert (Hh : hd 0 (hs r cs) = 0).
  { destruct (hs r cs) as [|b l]; [reflexivity|]. inversion Ht; assumption. }
  constructor; [|apply IH; exact Ht].
  rewrite Hh in H0. rewrite <- H0. ring.
Qed.

(* a rational outside a given finite list *)
Fixpoint maxl (l : list num) : num :=
  match l with [] => 0 | x :: l' => qmax x (maxl l') end.
Lemma maxl_ge l x : In x l -> x <= maxl l.
Proof.
  induction l as [|y l IH]; cbn [In maxl]; [tauto|].
  unfold qmax. intros [->|H].
  - destruct (qleb x (maxl l)) eqn:E; [apply qleb_le; exact E|apply Qcle_refl].
  - specialize (IH H). destruct (qleb y (maxl l)) eqn:E; [exact IH|].
    apply qleb_gt in E. eapply Qcle_trans; [exact IH|]. apply Qclt_le_weak. exact E.
Qed.
Definition fresh (l : list num) : num := maxl l + 1.
Lemma fresh_notin l : ~ In (fresh l) l.
Proof. intro H. apply maxl_ge in H. unfold fresh in H. qc2q. lra. Qed.

(* a polynomial with infinitely many roots (all points outside a finite list) is zero *)
Lemma ueval_cofinite_zero n : forall cs ex, (length cs <= n)%nat ->
  (forall v, ~ In v ex -> ueval cs v = 0) -> zeros cs.
Proof.
  induction n as [|n IH]; intros cs ex L H.
  - destruct cs; [constructor|cbn [length] in L; lia].
  - destruct cs as [|c cs]; [constructor|].
    set (r := fresh ex).
    apply (hs_zero r).
    assert (Hr : hd 0 (hs r (c :: cs)) = 0).
    { pose proof (hs_div r (c :: cs) r) as E.
      rewrite (H r (fresh_notin ex)) in E.
      transitivity (hd 0 (hs r (c :: cs)) + (r - r) * ueval (tl (hs r (c :: cs))) r); [ring|].
      symmetry. exact E. }
    assert (Ht : zeros (tl (hs r (c :: cs)))).
    { apply (IH _ (r :: ex)).
      - cbn [hs tl]. rewrite hs_length. cbn [length] in L. lia.
      - intros v Hv. pose proof (hs_div r (c :: cs) v) as E.
        rewrite H in E by (intro Hi; apply Hv; right; exact Hi).
        rewrite Hr in E.
        assert (E' : (v - r) * ueval (tl (hs r (c :: cs))) v = 0).
        { transitivity (0 + (v - r) * ueval (tl (hs r (c :: cs))) v); [ring|]. symmetry. exact E. }
        apply Qcmult_integral in E'. destruct E' as [E'|E']; [|exact E'].
        exfalso. apply Hv. left. transitivity ((v - r) + r); [rewrite E'; ring|ring]. }
    cbn [hs hd tl] in *. constructor; assumption.
Qed.

Theorem ueval_zero cs : (forall v, ueval cs v = 0) -> zeros cs.
Proof. intro H. apply (ueval_cofinite_zero (length cs) cs []); [lia|]. intros v _. apply H. Qed.

Lemma ueval_map_zero {A} (f : A -> num) l v : (forall k, In k l -> f k = 0) -> ueval (map f l) v = 0.
Proof.
  induction l as [|k l IH]; cbn [map ueval]; intro H; [reflexivity|].
  rewrite IH by (intros; apply H; right; assumption).
  rewrite (H k) by (left; reflexivity). ring.
Qed.
Lemma ueval_map_add {A} (f g : A -> num) l v :
  ueval (map (fun k => f k + g k) l) v = ueval (map f l) v + ueval (map g l) v.
Proof. induction l as [|k l IH]; cbn [map ueval]; [ring|]. rewrite IH. ring. Qed.

Fixpoint qpw (v : num) (n : nat) : num := match n with O => 1 | S n' => v * qpw v n' end.

Lemma ueval_delta a v n : forall s d, (d < n)%nat ->
  ueval (map (fun k => if Nat.eqb (s + d) k then a else 0) (seq s n)) v = a * qpw v d.
Proof.
  induction n as [|n IH]; intros s d H; [lia|].
  cbn [seq map ueval]. destruct d as [|d].
  - rewrite Nat.add_0_r, Nat.eqb_refl.
    rewrite ueval_map_zero; [cbn [qpw]; ring|].
    intros k Hk. apply in_seq in Hk.
    destruct (Nat.eqb_spec s k); [lia|reflexivity].
  - destruct (Nat.eqb_spec (s + S d) s); [lia|].
    replace (s + S d)%nat with (S s + d)%nat by lia.
    rewrite IH by lia. cbn [qpw]. ring.
Qed.

Lemma ueval_delta0 a v n d : (d < n)%nat ->
  ueval (map (fun k => if Nat.eqb d k then a else 0) (seq 0 n)) v = a * qpw v d.
Proof. apply (ueval_delta a v n O d). Qed.

(* ------------------------------------------------------------------ *)
(* 2. splitting a term list along one variable *)
Fixpoint mcnt (x : N) (m : list N) : nat :=
  match m with [] => O | j :: m' => if (j =? x)%N then S (mcnt x m') else mcnt x m' end.
Fixpoint mrem (x : N) (m : list N) : list N :=
  match m with [] => [] | j :: m' => if (j =? x)%N then mrem x m' else j :: mrem x m' end.

Definition rupd (rho : valuation) (x : N) (v : num) : valuation :=
  fun i => if (i =? x)%N then v else rho i.

Lemma mono_val_rupd rho x v m :
  mono_val (rupd rho x v) m = qpw v (mcnt x m) * mono_val rho (mrem x m).
Proof.
  induction m as [|j m IH]; cbn [mono_val mcnt mrem qpw]; [ring|].
  unfold rupd at 1. destruct (j =? x)%N; cbn [qpw mono_val]; rewrite IH; ring.
Qed.

(* the terms with exactly k occurrences of x, with x removed *)
Fixpoint part (x : N) (k : nat) (t : terms) : terms :=
  match t with
  | [] => []
  | mc :: t' =>
      if Nat.eqb (mcnt x (fst mc)) k then (mrem x (fst mc), snd mc) :: part x k t'
      else part x k t'
  end.

Lemma val_part_cons rho x k m c t :
  val rho (part x k ((m, c) :: t)) =
  (if Nat.eqb (mcnt x m) k then c * mono_val rho (mrem x m) else 0) + val rho (part x k t).
Proof.
  cbn [part fst snd]. destruct (Nat.eqb (mcnt x m) k); [rewrite val_cons; reflexivity|ring].
Qed.

Lemma val_rupd_ueval rho x v t n :
  (forall m c, In (m, c) t -> (mcnt x m < n)%nat) ->
  val (rupd rho x v) t = ueval (map (fun k => val rho (part x k t)) (seq 0 n)) v.
Proof.
  induction t as [|[m c] t IH]; intro H.
  - rewrite val_nil. symmetry. apply ueval_map_zero. intros; reflexivity.
  - rewrite val_cons, mono_val_rupd.
    rewrite IH by (intros m' c' Hin; apply (H m' c'); right; exact Hin).
    rewrite (map_ext (fun k => val rho (part x k ((m, c) :: t)))
                     (fun k => (if Nat.eqb (mcnt x m) k then c * mono_val rho (mrem x m) else 0)
                                 + val rho (part x k t)))
      by (intro k; apply val_part_cons).
    rewrite (ueval_map_add (fun k => if Nat.eqb (mcnt x m) k then c * mono_val rho (mrem x m) else 0)).
    rewrite (ueval_delta0 (c * mono_val rho (mrem x m)) v n (mcnt x m))
      by (apply (H m c); left; reflexivity).
    ring.
Qed.

Fixpoint xdeg (x : N) (t : terms) : nat :=
  match t with [] => O | mc :: t' => Nat.max (mcnt x (fst mc)) (xdeg x t') end.
Lemma xdeg_ge x t m c : In (m, c) t -> (mcnt x m <= xdeg x t)%nat.
Proof.
  induction t as [|mc t IH]; cbn [In xdeg]; [tauto|].
  intros [->|H]; [cbn [fst]; lia|]. specialize (IH H). lia.
Qed.

(* a term list vanishing identically has all its x-parts vanishing identically *)
Lemma part_vanish x t : (forall rho, val rho t = 0) -> forall k rho, val rho (part x k t) = 0.
Proof.
  intros H k rho.
  set (n := S (xdeg x t + k)).
  assert (Z : zeros (map (fun k => val rho (part x k t)) (seq 0 n))).
  { apply ueval_zero. intro v.
    rewrite <- (val_rupd_ueval rho x v t n); [apply H|].
    intros m c Hin. apply (xdeg_ge x) in Hin. unfold n. lia. }
  unfold zeros in Z. rewrite Forall_forall in Z. apply Z.
  apply (in_map (fun k => val rho (part x k t))). apply in_seq. unfold n. lia.
Qed.

(* ------------------------------------------------------------------ *)
(* 3. term lists whose keys are pairwise different as multisets *)
Fixpoint pwd (t : terms) : Prop :=
  match t with
  | [] => True
  | mc :: t' => (forall mc', In mc' t' -> ~ Permutation (fst mc) (fst mc')) /\ pwd t'
  end.

Lemma in_part x k t m' c :
  In (m', c) (part x k t) -> exists m, In (m, c) t /\ mcnt x m = k /\ m' = mrem x m.
Proof.
  induction t as [|[m0 c0] t IH]; cbn [part fst snd]; [intros []|].
  destruct (Nat.eqb_spec (mcnt x m0) k) as [E|E].
  - intros [H|H].
    + inversion H; subst. exists m0. split; [left; reflexivity|split; reflexivity].
    + destruct (IH H) as (m & Hin & Hk & Hm). exists m. split; [right; exact Hin|tauto].
  - intro H. destruct (IH H) as (m & Hin & Hk & Hm). exists m. split; [right; exact Hin|tauto].
Qed.

Lemma part_in x t m c : In (m, c) t -> In (mrem x m, c) (part x (mcnt x m) t).
Proof.
  induction t as [|[m0 c0] t IH]; cbn [In part fst snd]; [tauto|].
  intros [H|H].
  - inversion H; subst. rewrite Nat.eqb_refl. left. reflexivity.
  - destruct (Nat.eqb _ _); [right|]; apply IH; exact H.
Qed.

Lemma mrem_in x i m : In i (mrem x m) -> In i m /\ i <> x.
Proof.
  induction m as [|j m IH]; cbn [mrem In]; [tauto|].
  destruct (N.eqb_spec j x) as [E|E].
  - intro H. apply IH in H. tauto.
  - cbn [In]. intros [H|H]; [subst; tauto|]. apply IH in H. tauto.
Qed.

Lemma perm_cnt_rem x m : Permutation m (repeat x (mcnt x m) ++ mrem x m).
Proof.
  induction m as [|j m IH]; cbn [mcnt mrem repeat app]; [constructor|].
  destruct (N.eqb_spec j x) as [E|E].
  - subst j. cbn [repeat app]. apply perm_skip. exact IH.
  - eapply perm_trans; [apply perm_skip; exact IH|]. apply Permutation_middle.
Qed.

Lemma perm_of_parts x m m' :
  mcnt x m = mcnt x m' -> Permutation (mrem x m) (mrem x m') -> Permutation m m'.
Proof.
  intros Hc Hr.
  eapply perm_trans; [apply (perm_cnt_rem x m)|].
  eapply perm_trans; [|apply Permutation_sym; apply (perm_cnt_rem x m')].
  rewrite Hc. apply Permutation_app_head. exact Hr.
Qed.

Lemma pwd_part x k t : pwd t -> pwd (part x k t).
Proof.
  induction t as [|[m c] t IH]; cbn [pwd part fst snd]; [tauto|].
  intros [Hh Ht]. destruct (Nat.eqb_spec (mcnt x m) k) as [E|E]; [|apply IH; exact Ht].
  cbn [pwd fst]. split; [|apply IH; exact Ht].
  intros [m' c'] Hin P. cbn [fst] in P.
  apply in_part in Hin. destruct Hin as (m0 & Hin & Hk & ->).
  apply (Hh (m0, c') Hin). cbn [fst].
  apply (perm_of_parts x); [congruence|exact P].
Qed.

Definition zero_coeffs (t : terms) : Prop := Forall (fun mc => snd mc = 0) t.

Lemma vanish_vs vs : forall t : terms,
  (forall m c i, In (m, c) t -> In i m -> In i vs) ->
  pwd t -> (forall rho, val rho t = 0) -> zero_coeffs t.
Proof.
  unfold zero_coeffs.
  induction vs as [|x vs IH]; intros t Hv Hp Hz.
  - assert (K : forall m c, In (m, c) t -> m = []).
    { intros [|i m] c Hin; [reflexivity|]. exfalso. apply (Hv (i :: m) c i Hin). left. reflexivity. }
    destruct t as [|[m c] t]; [constructor|].
    assert (m = []) by (apply (K m c); left; reflexivity). subst m.
    destruct t as [|[m' c'] t].
    + constructor; [|constructor]. cbn [snd].
      specialize (Hz (fun _ => 0)). rewrite val_cons, val_nil in Hz. cbn [mono_val] in Hz.
      rewrite <- Hz. ring.
    + exfalso. assert (m' = []) by (apply (K m' c'); right; left; reflexivity). subst m'.
      cbn [pwd] in Hp. destruct Hp as [Hh _].
      apply (Hh ([], c')); [left; reflexivity|]. cbn [fst]. constructor.
  - apply Forall_forall. intros [m c] Hin. cbn [snd].
    assert (Z : Forall (fun mc : list N * num => snd mc = 0) (part x (mcnt x m) t)).
    { apply IH.
      - intros m' c' i Hin' Hi. apply in_part in Hin'. destruct Hin' as (m0 & H0 & _ & ->).
        apply mrem_in in Hi. destruct Hi as [Hi Hne].
        destruct (Hv m0 c' i H0 Hi) as [E|E]; [congruence|exact E].
      - apply pwd_part. exact Hp.
      - apply part_vanish. exact Hz. }
    rewrite Forall_forall in Z. apply (Z (mrem x m, c)). apply part_in. exact Hin.
Qed.

(* a polynomial over Qc that vanishes at every point has all coefficients zero, provided no
   two of its monomials are equal as multisets of variables *)
Theorem vanish_zero_coeffs t : pwd t -> (forall rho, val rho t = 0) -> zero_coeffs t.
Proof.
  apply (vanish_vs (flat_map fst t)).
  intros m c i Hin Hi. apply in_flat_map. exists (m, c). split; [exact Hin|exact Hi].
Qed.

(* ------------------------------------------------------------------ *)
(* 4. the normal form computed by poly_eqb *)
Lemma ins_id_comm a b l : ins_id a (ins_id b l) = ins_id b (ins_id a l).
Proof.
  induction l as [|j l IH]; cbn [ins_id].
  - destruct (N.leb_spec a b), (N.leb_spec b a); try reflexivity; try lia.
    assert (a = b) by lia. subst. reflexivity.
  - destruct (N.leb_spec a j) as [Ha|Ha], (N.leb_spec b j) as [Hb|Hb]; cbn [ins_id].
    + destruct (N.leb_spec a b), (N.leb_spec b a); try lia.
      * assert (a = b) by lia. subst. reflexivity.
      * destruct (N.leb_spec b j); [reflexivity|lia].
      * destruct (N.leb_spec a j); [reflexivity|lia].
    + destruct (N.leb_spec a j); [|lia].
      destruct (N.leb_spec b a); [lia|]. cbn [ins_id].
      destruct (N.leb_spec b j); [lia|]. reflexivity.
    + destruct (N.leb_spec b j); [|lia].
      destruct (N.leb_spec a b); [lia|]. cbn [ins_id].
      destruct (N.leb_spec a j); [lia|]. reflexivity.
    + destruct (N.leb_spec a j); [lia|]. destruct (N.leb_spec b j); [lia|].
      f_equal. exact IH.
Qed.

(* the sorted key depends on the multiset only *)
Lemma sort_ids_perm_eq l l' : Permutation l l' -> sort_ids l = sort_ids l'.
Proof.
  induction 1 as [|x l l' _ IH|x y l|l l' l'' _ IH1 _ IH2]; cbn [sort_ids].
  - reflexivity.
  - rewrite IH. reflexivity.
  - apply ins_id_comm.
  - congruence.
Qed.

Lemma sort_ids_idem l : sort_ids (sort_ids l) = sort_ids l.
Proof. symmetry. apply sort_ids_perm_eq. apply sort_ids_perm. Qed.

Lemma sort_keys_keys k t : In k (keys (sort_keys t)) -> exists l, k = sort_ids l.
Proof.
  unfold keys, sort_keys. rewrite map_map. cbn [fst]. intro H.
  apply in_map_iff in H. destruct H as ([m c] & <- & _). exists m. reflexivity.
Qed.

Lemma nodup_sorted_pwd (t : terms) :
  NoDup (keys t) -> (forall k, In k (keys t) -> exists l, k = sort_ids l) -> pwd t.
Proof.
  induction t as [|[m c] t IH]; cbn [keys map fst pwd]; intros Hn Hs; [exact Logic.I|].
  inversion Hn as [|? ? Hnot Hd]; subst.
  split; [|apply IH; [exact Hd|intros k Hk; apply Hs; right; exact Hk]].
  intros [m' c'] Hin P. cbn [fst] in P. apply Hnot.
  assert (Hk' : In m' (keys t)) by (apply (in_map fst) in Hin; exact Hin).
  destruct (Hs m (or_introl eq_refl)) as (l & ->).
  destruct (Hs m' (or_intror Hk')) as (l' & ->).
  apply sort_ids_perm_eq in P. rewrite !sort_ids_idem in P. rewrite P. exact Hk'.
Qed.

Definition pnorm (t : terms) : terms := merge ids_eqb never (sort_keys t).

Lemma pnorm_val rho t : val rho (pnorm t) = val rho t.
Proof.
  unfold pnorm, val.
  rewrite (merge_val_exact ids_eqb ids_eqb_spec (mono_val rho) never _ never_exact).
  apply val_sort_keys.
Qed.

Lemma pnorm_pwd t : pwd (pnorm t).
Proof.
  apply nodup_sorted_pwd.
  - apply (merge_nodup ids_eqb ids_eqb_spec (fun _ => 0)).
  - intros k Hk. unfold pnorm, merge in Hk.
    apply (merge_from_keys ids_eqb ids_eqb_spec (fun _ => 0)) in Hk. destruct Hk as [[]|Hk]. apply (sort_keys_keys k t Hk).
Qed.

(* the normal form of an identically vanishing term list has only zero coefficients *)
Theorem pnorm_vanish t : (forall rho, val rho t = 0) -> all_zero (pnorm t) = true.
Proof.
  intro H. unfold all_zero. apply forallb_forall. intros mc Hin.
  assert (Z : zero_coeffs (pnorm t)).
  { apply vanish_zero_coeffs; [apply pnorm_pwd|]. intro rho. rewrite pnorm_val. apply H. }
  unfold zero_coeffs in Z. rewrite Forall_forall in Z. apply qeqb_eq. apply Z. exact Hin.
Qed.

(* ------------------------------------------------------------------ *)
(* COMPLETENESS of the comparator *)
Theorem poly_eqb_complete a b : (forall rho, val rho a = val rho b) -> poly_eqb a b = true.
Proof.
  intro H. unfold poly_eqb. apply (pnorm_vanish (a ++ scale_terms (- (1)) b)).
  intro rho. rewrite val_app, val_scale, (H rho). ring.
Qed.

Theorem poly_eqb_iff a b : poly_eqb a b = true <-> forall rho, val rho a = val rho b.
Proof. split; [apply poly_eqb_sound|apply poly_eqb_complete]. Qed.

(* contrapositive form used by a comparator: a rejected pair really differs as functions
   (the separating valuation is not computed here) *)
Corollary poly_eqb_false a b : poly_eqb a b = false -> ~ (forall rho, val rho a = val rho b).
Proof. intros E H. apply poly_eqb_complete in H. congruence. Qed.

(* consequences: the comparator is an equivalence relation, compatible with the operations *)
Corollary poly_eqb_refl a : poly_eqb a a = true.
Proof. apply poly_eqb_complete. reflexivity. Qed.
Corollary poly_eqb_sym a b : poly_eqb a b = poly_eqb b a.
Proof.
  destruct (poly_eqb a b) eqn:E1, (poly_eqb b a) eqn:E2; try reflexivity.
  - rewrite poly_eqb_iff in E1. assert (poly_eqb b a = true) by (apply poly_eqb_iff; intro; symmetry; apply E1). congruence.
  - rewrite poly_eqb_iff in E2. assert (poly_eqb a b = true) by (apply poly_eqb_iff; intro; symmetry; apply E2). congruence.
Qed.
Corollary poly_eqb_trans a b c : poly_eqb a b = true -> poly_eqb b c = true -> poly_eqb a c = true.
Proof.
  rewrite !poly_eqb_iff. intros H1 H2 rho. rewrite H1. apply H2.
Qed.
Corollary poly_eqb_perm a b : Permutation a b -> poly_eqb a b = true.
Proof.
  intro P. apply poly_eqb_complete. intro rho.
  induction P as [|[m c] l l' _ IH|[m c] [m' c'] l|l l' l'' _ IH1 _ IH2].
  - reflexivity.
  - rewrite !val_cons, IH. reflexivity.
  - rewrite !val_cons. ring.
  - congruence.
Qed.
Corollary poly_eqb_app a a' b b' :
  poly_eqb a a' = true -> poly_eqb b b' = true -> poly_eqb (a ++ b) (a' ++ b') = true.
Proof. rewrite !poly_eqb_iff. intros H1 H2 rho. rewrite !val_app, H1, H2. reflexivity. Qed.
Corollary poly_eqb_mul a a' b b' :
  poly_eqb a a' = true -> poly_eqb b b' = true -> poly_eqb (mul_terms a b) (mul_terms a' b') = true.
Proof. rewrite !poly_eqb_iff. intros H1 H2 rho. rewrite !val_mul_terms, H1, H2. reflexivity. Qed.

(* non-vacuity: x*y + y*x - 2*(y*x) + 0*z is recognised as zero; x is not *)
Example poly_eqb_ex1 :
  poly_eqb [([1%N; 2%N], 1); ([2%N; 1%N], 1); ([3%N], 0)] [([2%N; 1%N], 1 + 1)] = true.
Proof. vm_compute. reflexivity. Qed.
Example poly_eqb_ex2 : poly_eqb [([1%N], 1)] [] = false.
Proof. vm_compute. reflexivity. Qed.

Print Assumptions poly_eqb_complete.
Print Assumptions poly_eqb_iff.
Print Assumptions vanish_zero_coeffs.
