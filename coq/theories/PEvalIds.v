(* PEvalIds.v — the id-set clause of C03 for every representation of a function:
   after `partial_evaluate` no fixed variable remains, the returned ids are fixed variables that
   occurred, and the exact characterisation of the returned set.
   (rust/ommx/src/evaluate.rs:40-48, 79-93, 135-182, 216-244; model: PEval.v)

   Everything here holds for an ARBITRARY dropping test [tiny] (no exactness needed): the facts
   are about ids, not values.

   Reading of the code that matters for clause (3):
   * Linear, Quadratic: every term is looked at, whatever its coefficient, so EVERY fixed id that
     occurs (zero / tiny coefficients included) is returned.
   * Polynomial: `if c.abs() <= f64::EPSILON { continue }` comes BEFORE the ids of the monomial
     are looked at, so a fixed id is returned iff it occurs in a monomial whose coefficient is
     not dropped at entry ([occurs_live]).  A fixed id that occurs only in entry-dropped
     monomials is NOT returned (Example [poly_ids_example], id 6).
   * In the other direction, for every representation: an id that is not fixed may disappear
     from the result (its accumulated coefficient cancels / becomes tiny), so clause (1) is an
     implication, not an equivalence (Examples, id 1).  For Linear nothing is dropped and the
     equivalence holds ([lin_pe_ids_iff]). *)
Require Import Ommx.Num Ommx.Poly Ommx.Msg Ommx.Eval Ommx.Arith Ommx.ArithProofs Ommx.PEval.

(* ------------------------------------------------------------------ *)
(* a computable view of "occurs": the ids of a term list, with repetitions *)
Definition terms_ids (t : terms) : list N := flat_map fst t.
Definition fn_ids (f : function) : list N := terms_ids (fn_terms f).

Lemma occurs_terms_ids t i : occurs_terms t i <-> In i (terms_ids t).
Proof.
  unfold occurs_terms, terms_ids. rewrite in_flat_map. split.
  - intros (m & c & Hin & Him). exists (m, c). auto.
  - intros ([m c] & Hin & Him). exists m, c. auto.
Qed.
Lemma occurs_fn_ids f i : occurs f i <-> In i (fn_ids f).
Proof. apply occurs_terms_ids. Qed.

(* ids of a list of (row, column, value) entries *)
Definition ent_ids (z : tlist (N * N)) : list N :=
  flat_map (fun e => [fst (fst e); snd (fst e)]) z.
Lemma ent_ids_app a b : ent_ids (a ++ b) = ent_ids a ++ ent_ids b.
Proof. unfold ent_ids. apply flat_map_app. Qed.

Lemma occurs_quad2 z i : occurs_terms (quad2 z) i <-> In i (ent_ids z).
Proof.
  rewrite occurs_terms_ids. unfold terms_ids, quad2, ent_ids.
  induction z as [|[[r c] x] z IH]; cbn [map flat_map fst snd app In]; [tauto|].
  rewrite IH. tauto.
Qed.

Lemma occurs_optlin o i :
  occurs_terms (optlin_terms o) i
  <-> In i (map fst (match o with Some l => l_terms l | None => [] end)).
Proof.
  destruct o as [l|]; cbn [optlin_terms].
  - apply occurs_lin_terms.
  - cbn [map In]. split; [intro H; exact (occurs_terms_nil _ H)|tauto].
Qed.

Lemma occurs_quad_terms q i :
  occurs_terms (quad_terms q) i
  <-> In i (ent_ids (q_entries q))
      \/ In i (map fst (match q_lin q with Some l => l_terms l | None => [] end)).
Proof.
  unfold quad_terms. rewrite occurs_terms_app, occurs_quad2, occurs_optlin. reflexivity.
Qed.

(* keys of a merge come from its input *)
Lemma merge_keys {K} (keqb : K -> K -> bool) (sp : forall a b, keqb a b = true <-> a = b)
      (tn : num -> bool) (l : tlist K) k :
  In k (keys (merge keqb tn l)) -> In k (keys l).
Proof.
  unfold merge. intro H.
  apply (merge_from_keys keqb sp (fun _ => 0) tn) in H. destruct H as [[]|H]; exact H.
Qed.

Lemma occurs_merge_terms tn t i : occurs_terms (merge ids_eqb tn t) i -> occurs_terms t i.
Proof.
  intros (m & c & Hin & Him).
  assert (Hk : In m (keys (merge ids_eqb tn t))).
  { unfold keys. apply in_map_iff. exists (m, c). auto. }
  apply (merge_keys ids_eqb ids_eqb_spec) in Hk. unfold keys in Hk.
  apply in_map_iff in Hk. destruct Hk as ([m' c'] & E & Hin'). cbn [fst] in E. subst m'.
  exists m, c'. auto.
Qed.

(* ------------------------------------------------------------------ *)
(* monomials of a polynomial that survive the entry test of Polynomial::partial_evaluate *)
Definition entry_kept (tiny : num -> bool) (p : polynomial) : polynomial :=
  filter (fun mc => negb (tiny (snd mc))) p.

(* the ids partial_evaluate looks at *)
Definition occurs_live (tiny : num -> bool) (f : function) (i : N) : Prop :=
  match f with
  | FPoly p => occurs_terms (entry_kept tiny p) i
  | _ => occurs f i
  end.

Lemma occurs_entry_kept tiny p i :
  occurs_terms (entry_kept tiny p) i
  <-> exists m c, In (m, c) p /\ tiny c = false /\ In i m.
Proof.
  unfold occurs_terms, entry_kept. split.
  - intros (m & c & Hin & Him). apply filter_In in Hin. destruct Hin as [Hin T]. cbn [snd] in T.
    exists m, c. repeat split; auto. destruct (tiny c); [discriminate|reflexivity].
  - intros (m & c & Hin & T & Him). exists m, c. split; [|exact Him].
    apply filter_In. split; [exact Hin|]. cbn [snd]. rewrite T. reflexivity.
Qed.

Lemma occurs_live_occurs tiny f i : occurs_live tiny f i -> occurs f i.
Proof.
  destruct f as [|c|l|q|p]; cbn [occurs_live]; auto.
  intros (m & c & Hin & Him). apply filter_In in Hin. exists m, c. tauto.
Qed.

(* computable view of [occurs_live] *)
Definition live_ids (tiny : num -> bool) (f : function) : list N :=
  match f with FPoly p => terms_ids (entry_kept tiny p) | _ => fn_ids f end.
Lemma occurs_live_ids tiny f i : occurs_live tiny f i <-> In i (live_ids tiny f).
Proof. destruct f; apply occurs_terms_ids. Qed.

(* when nothing is dropped at entry the two notions coincide *)
Lemma occurs_live_all tiny f i :
  (forall p, f = FPoly p -> forall m c, In (m, c) p -> tiny c = false) ->
  (occurs_live tiny f i <-> occurs f i).
Proof.
  intro H. split; [apply occurs_live_occurs|].
  destruct f as [|c|l|q|p]; cbn [occurs_live]; auto.
  intros (m & c & Hin & Him). apply occurs_entry_kept. exists m, c.
  repeat split; auto. apply (H p eq_refl m c Hin).
Qed.

(* ------------------------------------------------------------------ *)
Section Ids.
  Variable tiny : num -> bool.
  Variable s : state.
  Notation fixed := (PEval.fixed s).

  Lemma fixed_some i v : sget s i = Some v -> fixed i.
  Proof. unfold PEval.fixed. congruence. Qed.
  Lemma fixed_none i : sget s i = None -> ~ fixed i.
  Proof. unfold PEval.fixed. tauto. Qed.

  (* ---------------- Linear ---------------- *)
  Lemma lin_pe_loop_ids_iff : forall ts c keep used keep' c' used',
    lin_pe_loop ts s c keep used = (keep', c', used') ->
    (forall i, In i (map fst keep') <-> In i (map fst keep) \/ (In i (map fst ts) /\ ~ fixed i)) /\
    (forall i, In i used' <-> In i used \/ (In i (map fst ts) /\ fixed i)).
  Proof.
    induction ts as [|[i a] ts IH]; intros c keep used keep' c' used' H; cbn [lin_pe_loop] in H.
    - inversion H; subst. cbn [map In]. split; intro; tauto.
    - destruct (sget s i) as [v|] eqn:G;
        [pose proof (fixed_some _ _ G) as F|pose proof (fixed_none _ G) as F];
        apply IH in H; destruct H as [H1 H2]; split; intro k; rewrite ?H1, ?H2;
        cbn [map fst In]; intuition (subst; tauto).
  Qed.

  (* nothing is dropped in the linear case: both parts are characterised exactly *)
  Theorem lin_pe_ids_iff l l' u : lin_pe l s = (l', u) ->
    (forall i, In i (map fst (l_terms l')) <-> In i (map fst (l_terms l)) /\ ~ fixed i) /\
    (forall i, In i u <-> In i (map fst (l_terms l)) /\ fixed i).
  Proof.
    unfold lin_pe. destruct (lin_pe_loop (l_terms l) s (l_const l) [] []) as [[keep c] used] eqn:E.
    intro H; inversion H; subst. cbn [l_terms].
    apply lin_pe_loop_ids_iff in E. destruct E as [E1 E2]. cbn [map In] in *.
    split; intro i; rewrite ?E1, ?E2; tauto.
  Qed.

  (* ---------------- Quadratic ---------------- *)
  Lemma quad_pe_lin_ids : forall ts c acc used c' acc' used',
    quad_pe_lin ts s c acc used = (c', acc', used') ->
    (forall i, In i (map fst acc') <-> In i (map fst acc) \/ (In i (map fst ts) /\ ~ fixed i)) /\
    (forall i, In i used' <-> In i used \/ (In i (map fst ts) /\ fixed i)).
  Proof.
    induction ts as [|[i a] ts IH]; intros c acc used c' acc' used' H; cbn [quad_pe_lin] in H.
    - inversion H; subst. cbn [map In]. split; intro; tauto.
    - destruct (sget s i) as [v|] eqn:G;
        [pose proof (fixed_some _ _ G) as F|pose proof (fixed_none _ G) as F];
        apply IH in H; destruct H as [H1 H2]; split; intro k; rewrite ?H1, ?H2;
        rewrite ?map_app, ?in_app_iff; cbn [map fst In]; intuition (subst; tauto).
  Qed.

  Lemma quad_pe_entries_ids : forall z c acc keep used c' acc' keep' used',
    quad_pe_entries z s c acc keep used = (c', acc', keep', used') ->
    (forall i, In i (map fst acc') -> In i (map fst acc) \/ (In i (ent_ids z) /\ ~ fixed i)) /\
    (forall i, In i (ent_ids keep') -> In i (ent_ids keep) \/ (In i (ent_ids z) /\ ~ fixed i)) /\
    (forall i, In i used' <-> In i used \/ (In i (ent_ids z) /\ fixed i)).
  Proof.
    induction z as [|[[r cl] x] z IH]; intros c acc keep used c' acc' keep' used' H;
      cbn [quad_pe_entries] in H.
    - inversion H; subst. cbn [ent_ids flat_map In]. repeat split; intros; tauto.
    - destruct (sget s r) as [vr|] eqn:Gr;
        [pose proof (fixed_some _ _ Gr) as Fr|pose proof (fixed_none _ Gr) as Fr];
        (destruct (sget s cl) as [vc|] eqn:Gc;
         [pose proof (fixed_some _ _ Gc) as Fc|pose proof (fixed_none _ Gc) as Fc]);
        apply IH in H; destruct H as (H1 & H2 & H3); (split; [|split]); intro k.
      all: try (intro Hk; first [apply H1 in Hk|apply H2 in Hk]).
      all: rewrite ?H3.
      all: rewrite ?map_app, ?ent_ids_app, ?in_app_iff in *.
      all: cbn [ent_ids flat_map fst snd app map In] in *.
      all: intuition (subst; tauto).
  Qed.

  (* Quadratic: no fixed id remains; the returned ids are EXACTLY the fixed ids that occur
     (in an entry or in the linear part, whatever the coefficient) *)
  Theorem quad_pe_ids q q' u : quad_pe tiny q s = Some (q', u) ->
    (forall i, occurs_terms (quad_terms q') i -> occurs_terms (quad_terms q) i /\ ~ fixed i) /\
    (forall i, In i u <-> occurs_terms (quad_terms q) i /\ fixed i).
  Proof.
    unfold quad_pe.
    set (c0 := match q_lin q with Some l => l_const l | None => 0 end).
    set (ts := match q_lin q with Some l => l_terms l | None => [] end).
    destruct (quad_pe_lin ts s c0 [] []) as [[c1 acc1] used1] eqn:E1.
    destruct (negb (q_lengths_ok q)); [discriminate|].
    destruct (quad_pe_entries (q_entries q) s c1 acc1 [] used1) as [[[c2 acc2] keep] used2] eqn:E2.
    intro H. inversion H; subst q' u; clear H.
    apply quad_pe_lin_ids in E1. destruct E1 as [A1 U1].
    apply quad_pe_entries_ids in E2. destruct E2 as (A2 & K2 & U2).
    cbn [map In ent_ids flat_map] in A1, U1, K2.
    split; intro i.
    - rewrite !occurs_quad_terms. fold ts.
      unfold q_entries at 1; cbn [q_rows q_cols q_vals q_lin]. rewrite zip3_maps.
      intros [Hk|Hl].
      + apply K2 in Hk. tauto.
      + assert (Ha : In i (map fst acc2)).
        { assert (EN : forall c, In i (map fst (l_terms (lin_new tiny (merge N.eqb never acc2) c))) ->
                                 In i (map fst acc2)).
          { intros c Hc. unfold lin_new in Hc; cbn [l_terms] in Hc.
            apply (merge_keys N.eqb Neqb_spec) in Hc. apply (merge_keys N.eqb Neqb_spec) in Hc.
            exact Hc. }
          destruct acc2 as [|a acc2]; [destruct (qeqb c2 0)|]; try (apply (EN _ Hl)).
          destruct Hl. }
        apply A2 in Ha. rewrite A1 in Ha. tauto.
    - rewrite occurs_quad_terms. fold ts. rewrite U2, U1. tauto.
  Qed.

  (* ---------------- Polynomial ---------------- *)
  Lemma mono_pe_ids : forall ids v rest used v' rest' used',
    mono_pe ids s v rest used = (v', rest', used') ->
    (forall i, In i rest' <-> In i rest \/ (In i ids /\ ~ fixed i)) /\
    (forall i, In i used' <-> In i used \/ (In i ids /\ fixed i)).
  Proof.
    induction ids as [|i ids IH]; intros v rest used v' rest' used' H; cbn [mono_pe] in H.
    - inversion H; subst. cbn [In]. split; intro; tauto.
    - destruct (sget s i) as [x|] eqn:G;
        [pose proof (fixed_some _ _ G) as F|pose proof (fixed_none _ G) as F];
        apply IH in H; destruct H as [H1 H2]; split; intro k; rewrite ?H1, ?H2;
        rewrite ?in_app_iff; cbn [In]; intuition (subst; tauto).
  Qed.

  Notation live p i := (exists m c, In (m, c) p /\ tiny c = false /\ In i m).

  Lemma poly_pe_terms_ids : forall p used t used',
    poly_pe_terms tiny p s used = (t, used') ->
    (forall i, occurs_terms t i <-> live p i /\ ~ fixed i) /\
    (forall i, In i used' <-> In i used \/ (live p i /\ fixed i)).
  Proof.
    induction p as [|[ids c] p IH]; intros used t used' H; cbn [poly_pe_terms] in H.
    - inversion H; subst. split; intro i; split.
      + intro O. destruct (occurs_terms_nil _ O).
      + intros [(m & c & [] & _) _].
      + tauto.
      + intros [O|[(m & c & [] & _) _]]. exact O.
    - assert (LC : forall i, live ((ids, c) :: p) i <-> (tiny c = false /\ In i ids) \/ live p i).
      { intro i. split.
        - intros (m & d & [E|Hin] & T & Him).
          + inversion E; subst. left. auto.
          + right. exists m, d. auto.
        - intros [[T Him]|(m & d & Hin & T & Him)].
          + exists ids, c. repeat split; auto. left; reflexivity.
          + exists m, d. repeat split; auto. right; exact Hin. }
      destruct (tiny c) eqn:T.
      + apply IH in H. destruct H as [H1 H2]. split; intro i; rewrite ?H1, ?H2, LC;
          intuition congruence.
      + destruct (mono_pe ids s c [] used) as [[v rest] used1] eqn:M.
        destruct (poly_pe_terms tiny p s used1) as [t1 used2] eqn:P.
        inversion H; subst t used'; clear H.
        apply mono_pe_ids in M. destruct M as [M1 M2]. cbn [In] in M1.
        apply IH in P. destruct P as [P1 P2].
        assert (OC : forall i, occurs_terms ((rest, v) :: t1) i <-> In i rest \/ occurs_terms t1 i).
        { intro i. change ((rest, v) :: t1) with ([(rest, v)] ++ t1).
          rewrite occurs_terms_app. split; (intros [O|O]; [left|right; exact O]).
          - destruct O as (m & d & [E|[]] & Him). inversion E; subst. exact Him.
          - exists rest, v. split; [left; reflexivity|exact O]. }
        split; intro i; rewrite ?OC, ?P1, ?P2, ?M1, ?M2, LC; tauto.
  Qed.

  (* Polynomial: no fixed id remains (and every remaining id comes from a monomial that was not
     dropped at entry); the returned ids are EXACTLY the fixed ids of the monomials that were not
     dropped at entry *)
  Theorem poly_pe_ids p p' u : poly_pe tiny p s = (p', u) ->
    (forall i, occurs_terms p' i -> occurs_terms (entry_kept tiny p) i /\ ~ fixed i) /\
    (forall i, In i u <-> occurs_terms (entry_kept tiny p) i /\ fixed i).
  Proof.
    unfold poly_pe. destruct (poly_pe_terms tiny p s []) as [t used] eqn:E.
    intro H; inversion H; subst p' u; clear H.
    apply poly_pe_terms_ids in E. destruct E as [E1 E2]. cbn [In] in E2.
    split; intro i; rewrite occurs_entry_kept.
    - intro O. apply occurs_merge_terms in O. apply E1. exact O.
    - rewrite E2. tauto.
  Qed.

  (* ---------------- Function ---------------- *)
  (* the id-set clause of C03, all representations:
     (1) an id of the result occurs in the original (indeed in a part that partial_evaluate looks
         at) and is not fixed: NO FIXED VARIABLE REMAINS;
     (2) a returned id occurs in the original and is fixed;
     (3) exactly which ones are returned: the fixed ids among those partial_evaluate looks at
         (= all occurring ids except for a Polynomial, where monomials with a dropped coefficient
         are skipped before their ids are read). *)
  Theorem fn_pe_ids f f' u : fn_pe tiny f s = Some (f', u) ->
    (forall i, occurs f' i -> occurs f i /\ ~ fixed i) /\
    (forall i, In i u -> occurs f i /\ fixed i) /\
    (forall i, In i u <-> occurs_live tiny f i /\ fixed i) /\
    (forall i, occurs f' i -> occurs_live tiny f i).
  Proof.
    intro H.
    cut ((forall i, occurs f' i -> occurs_live tiny f i /\ ~ fixed i) /\
         (forall i, In i u <-> occurs_live tiny f i /\ fixed i)).
    { intros [B C]. split; [|split; [|split]].
      - intros i O. apply B in O. destruct O as [O F]. split; [|exact F].
        apply occurs_live_occurs with (tiny := tiny). exact O.
      - intros i O. apply C in O. destruct O as [O F]. split; [|exact F].
        apply occurs_live_occurs with (tiny := tiny). exact O.
      - exact C.
      - intros i O. apply B in O. tauto. }
    destruct f as [|c|l|q|p]; cbn [fn_pe] in H.
    - inversion H; subst. unfold occurs_live, occurs; cbn [fn_terms In]. split; intro i.
      + intro O. destruct (occurs_terms_nil _ O).
      + split; [tauto|]. intros [O _]. destruct (occurs_terms_nil _ O).
    - inversion H; subst. unfold occurs_live, occurs; cbn [fn_terms In]. split; intro i.
      + intro O. destruct (occurs_terms_const _ _ O).
      + split; [tauto|]. intros [O _]. destruct (occurs_terms_const _ _ O).
    - destruct (lin_pe l s) as [l' u'] eqn:E. inversion H; subst f' u; clear H.
      apply lin_pe_ids_iff in E. destruct E as [E1 E2].
      unfold occurs_live, occurs; cbn [fn_terms].
      split; intro i; rewrite !occurs_lin_terms; [apply E1|apply E2].
    - destruct (quad_pe tiny q s) as [[q' u']|] eqn:E; [|discriminate].
      inversion H; subst f' u; clear H.
      apply quad_pe_ids in E. exact E.
    - destruct (poly_pe tiny p s) as [p' u'] eqn:E. inversion H; subst f' u; clear H.
      apply poly_pe_ids in E. exact E.
  Qed.

  (* NO FIXED VARIABLE REMAINS, in the direct form *)
  Corollary fn_pe_no_fixed f f' u i :
    fn_pe tiny f s = Some (f', u) -> fixed i -> ~ occurs f' i.
  Proof. intros H F O. apply (proj1 (fn_pe_ids _ _ _ H)) in O. tauto. Qed.

  (* Linear and Quadratic (and the two trivial cases): ALL fixed occurring ids are returned *)
  Corollary fn_pe_ids_all f f' u :
    (forall p, f = FPoly p -> forall m c, In (m, c) p -> tiny c = false) ->
    fn_pe tiny f s = Some (f', u) ->
    forall i, In i u <-> occurs f i /\ fixed i.
  Proof.
    intros NP H i. rewrite <- (occurs_live_all tiny f i NP).
    apply (proj1 (proj2 (proj2 (fn_pe_ids _ _ _ H)))).
  Qed.
End Ids.

(* ------------------------------------------------------------------ *)
(* Non-vacuity.  [tiny_eps] is the SDK's test |c| <= f64::EPSILON.

   Quadratic  3 x1 x2 + x3 x3 + x5 x2 + 0 x2 x7  +  (-6 x1 + x3 + 0 x8 + 1),
   fixed: x2 = 2, x7 = 1, x8 = 4, x9 = 1.
   - result: x3 x3 + x3 + 2 x5 + 1: ids 3 (repeated in a monomial), 5; no fixed id;
   - x1 is not fixed and occurs, but 3*2 x1 - 6 x1 cancels: it does not occur in the result;
   - returned: 2 (three times: the model returns the list of insertions into the BTreeSet),
     7 and 8 (they occur with coefficient 0: all occurring fixed ids are returned); 9 is fixed
     but does not occur and is not returned. *)
Definition ex_quad : function :=
  FQuad {| q_rows := [1; 3; 5; 2]%N; q_cols := [2; 3; 2; 7]%N; q_vals := [qz 3; 1; 1; 0];
           q_lin := Some {| l_terms := [(1%N, qz (-6)); (3%N, 1); (8%N, 0)]; l_const := 1 |} |}.
Definition ex_quad_state : state := [(2%N, qz 2); (7%N, 1); (8%N, qz 4); (9%N, 1)].

Ltac not_in := cbn [In]; intuition discriminate.

Example quad_ids_example :
  exists f' u, fn_pe tiny_eps ex_quad ex_quad_state = Some (f', u) /\
    fn_ids ex_quad = [1; 2; 3; 3; 5; 2; 2; 7; 1; 3; 8]%N /\
    fn_ids f' = [3; 3; 3; 5]%N /\ u = [7; 2; 2; 2; 8]%N /\
    (occurs ex_quad 1 /\ ~ fixed ex_quad_state 1 /\ ~ occurs f' 1) /\
    (fixed ex_quad_state 9 /\ ~ occurs ex_quad 9 /\ ~ In 9%N u).
Proof.
  eexists; eexists. split; [vm_compute; reflexivity|].
  split; [vm_compute; reflexivity|]. split; [vm_compute; reflexivity|].
  split; [reflexivity|]. rewrite !occurs_fn_ids. unfold fixed.
  split; split; [vm_compute; tauto|split; vm_compute; [tauto|intuition discriminate]|
                 vm_compute; discriminate|split; vm_compute; intuition discriminate].
Qed.

(* Polynomial  3 x1 x2 x2 - 12 x1 + x3 x4 + 1e-20 x5 x6 + x2 x3 x3,
   fixed: x2 = 2, x4 = 5, x6 = 1, x9 = 1.
   - result: 5 x3 + 2 x3 x3: ids 3 only (repeated in a monomial); no fixed id;
   - x1 is not fixed and occurs, but 3*4 x1 - 12 x1 cancels: it does not occur in the result;
   - the monomial x5 x6 is skipped at entry: x5 (not fixed) vanishes and x6, which is fixed and
     occurs, is NOT returned;
   - returned: 2 (once per occurrence, x2 x2 gives two) and 4. *)
Definition ex_small : num := Q2Qc (1 # 100000000000000000000).
Definition ex_poly : function :=
  FPoly [([1; 2; 2]%N, qz 3); ([1]%N, qz (-12)); ([3; 4]%N, 1); ([5; 6]%N, ex_small);
         ([2; 3; 3]%N, 1)].
Definition ex_poly_state : state := [(2%N, qz 2); (4%N, qz 5); (6%N, 1); (9%N, 1)].

Example poly_ids_example :
  exists f' u, fn_pe tiny_eps ex_poly ex_poly_state = Some (f', u) /\
    fn_ids ex_poly = [1; 2; 2; 1; 3; 4; 5; 6; 2; 3; 3]%N /\
    fn_ids f' = [3; 3; 3]%N /\ u = [2; 4; 2; 2]%N /\
    (occurs ex_poly 1 /\ ~ fixed ex_poly_state 1 /\ ~ occurs f' 1) /\
    (occurs ex_poly 6 /\ fixed ex_poly_state 6 /\ ~ occurs_live tiny_eps ex_poly 6 /\ ~ In 6%N u) /\
    (occurs ex_poly 5 /\ ~ fixed ex_poly_state 5 /\ ~ occurs f' 5).
Proof.
  eexists; eexists. split; [vm_compute; reflexivity|].
  split; [vm_compute; reflexivity|]. split; [vm_compute; reflexivity|].
  split; [reflexivity|]. rewrite occurs_live_ids, !occurs_fn_ids.
  unfold fixed.
  split; [|split]; (split; [vm_compute; tauto|]).
  - split; vm_compute; [tauto|intuition discriminate].
  - split; [vm_compute; discriminate|]. split; vm_compute; intuition discriminate.
  - split; vm_compute; [tauto|intuition discriminate].
Qed.

(* the theorem applied to the examples: what it says about them without computing the result *)
Example poly_ids_example_thm f' u :
  fn_pe tiny_eps ex_poly ex_poly_state = Some (f', u) ->
  ~ occurs f' 2 /\ ~ occurs f' 4 /\ ~ occurs f' 6 /\ In 2%N u /\ In 4%N u /\ ~ In 6%N u /\ ~ In 9%N u.
Proof.
  intro H. pose proof (fn_pe_ids tiny_eps ex_poly_state _ _ _ H) as (A & B & C & D).
  assert (F : forall i v, sget ex_poly_state i = Some v -> fixed ex_poly_state i)
    by (unfold fixed; congruence).
  repeat split.
  - intro O. apply A in O. apply (proj2 O). apply (F _ (qz 2)). reflexivity.
  - intro O. apply A in O. apply (proj2 O). apply (F _ (qz 5)). reflexivity.
  - intro O. apply A in O. apply (proj2 O). apply (F _ 1). reflexivity.
  - apply C. split; [|apply (F _ (qz 2)); reflexivity].
    rewrite occurs_live_ids. vm_compute. tauto.
  - apply C. split; [|apply (F _ (qz 5)); reflexivity].
    rewrite occurs_live_ids. vm_compute. tauto.
  - intro O. apply C in O. destruct O as [O _].
    rewrite occurs_live_ids in O. vm_compute in O. intuition discriminate.
  - intro O. apply B in O. destruct O as [O _]. rewrite occurs_fn_ids in O.
    vm_compute in O. intuition discriminate.
Qed.

Print Assumptions lin_pe_ids_iff.
Print Assumptions quad_pe_ids.
Print Assumptions poly_pe_ids.
Print Assumptions fn_pe_ids.
Print Assumptions fn_pe_no_fixed.
Print Assumptions fn_pe_ids_all.
Print Assumptions quad_ids_example.
Print Assumptions poly_ids_example.
Print Assumptions poly_ids_example_thm.
