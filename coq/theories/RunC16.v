(* RunC16.v — correspondence runner for C16: decode a case, run the interval model of
   Bound.v, judge the SDK's answer.  Two modes per case:
     "exact"   (dyadic stream): SDK interval must EQUAL the model interval, and every
               sample point's exact image must lie in the SDK interval;
     "rounded" (float stream, a TEST not a theorem): endpoints within relative 2^-40. *)
Require Import Ommx.Num Ommx.Poly Ommx.Msg Ommx.Tree Ommx.Bound.
From Coq Require Import String.
Open Scope string_scope.

Definition ext_same (a b : ext) : bool :=
  match a, b with NaN, NaN => true | _, _ => eeqb a b end.
Definition qabs' (x : num) : num := if qleb 0 x then x else - x.
Definition rtol : num := q2 (-40).
Definition ext_close (a b : ext) : bool :=
  match a, b with
  | Fin x, Fin y => qleb (qabs' (x - y)) (rtol * (if qleb (qabs' y) 1 then 1 else qabs' y))
  | _, _ => ext_same a b
  end.

(* membership up to the rounding slack of the rounded stream *)
Definition slack (y : num) : num := rtol * (if qleb (qabs' y) 1 then 1 else qabs' y).
Definition bmem_approx (v : num) (S : bound) : bool :=
  match lower S with Fin l => qleb (l - slack l) v | NInf => true | _ => false end &&
  match upper S with Fin u => qleb v (u + slack u) | PInf => true | _ => false end.

Definition e_bound (X : bound) : tree := L [e_ext (lower X); e_ext (upper X)].
Definition e_obound (o : option bound) : tree :=
  match o with Some X => e_bound X | None => A "panic" end.

Definition d_endpoints (t : tree) : option (ext * ext) := d_pair d_ext d_ext t.
(* operands are built with Bound::new in the harness: they must be valid *)
Definition d_vbound (t : tree) : option bound :=
  do p <- d_endpoints t; bnew (fst p) (snd p).
Definition d_mode (t : tree) : option bool :=      (* true = exact *)
  match t with A "exact" => Some true | A "rounded" => Some false | _ => None end.

Definition shape_tag (X : bound) : string :=
  match lower X, upper X with
  | NInf, PInf => "whole"
  | NInf, _ | _, PInf => "half-infinite"
  | Fin l, Fin u => if qeqb l u then "degenerate" else
                    if qltb l 0 && qltb 0 u then "sign-crossing" else "finite"
  | _, _ => "other"
  end.

(* judge an SDK interval against the model's; [pts] are exact values that must be enclosed *)
Definition judge_bound (op : string) (exact : bool) (expected : option bound)
           (pts : list num) (r : tree) : tree :=
  match expected with
  | None =>
      if is_panic r then agree [op; "panic"]
      else disagree (op ++ ": the model has no valid interval here (panic expected)") (A "panic")
  | Some Z =>
      match ok_payload r with
      | Some p =>
          match d_endpoints p with
          | Some (l, u) =>
              let S := {| lower := l; upper := u |} in
              if negb (validb S) then disagree (op ++ ": SDK returned an invalid interval") (e_bound Z)
              else if exact then
                if negb (ext_same l (lower Z) && ext_same u (upper Z))
                then disagree (op ++ ": interval") (e_bound Z)
                else if negb (forallb (fun v => bmem v S) pts)
                then disagree (op ++ ": enclosure of a sample point") (e_bound Z)
                else agree [op; "exact"; shape_tag Z]
              else
                if negb (ext_close l (lower Z) && ext_close u (upper Z))
                then disagree (op ++ ": interval (rounded stream, relative 2^-40)") (e_bound Z)
                else if negb (forallb (fun v => bmem_approx v S) pts)
                then disagree (op ++ ": enclosure of a sample point up to rounding (rounded stream)") (e_bound Z)
                else agree [op; "rounded-test"; shape_tag Z]
          | None => badresult (op ++ ": result shape")
          end
      | None =>
          if is_panic r || is_err r
          then disagree (op ++ ": must return a valid interval") (e_bound Z)
          else badresult (op ++ ": result shape")
      end
  end.

Definition all_in (X : bound) (xs : list num) : bool := forallb (fun x => bmem x X) xs.

Fixpoint npow (x : num) (n : nat) : num := match n with O => 1 | S k => x * npow x k end.

(* binary operations with sample point pairs *)
Definition run_binop (op : string) (model : bound -> bound -> option bound)
           (f : num -> num -> num) (X Y m pts r : tree) : tree :=
  match d_vbound X, d_vbound Y, d_mode m, d_list (d_pair d_num d_num) pts with
  | Some X', Some Y', Some ex, Some ps =>
      if negb (all_in X' (map fst ps) && all_in Y' (map snd ps))
      then badcase (op ++ ": sample point outside the operand")
      else judge_bound op ex (model X' Y') (map (fun p => f (fst p) (snd p)) ps) r
  | _, _, _, _ => badcase (op ++ ": input")
  end.

(* id -> bound list *)
Definition d_bounds (t : tree) : option bounds := d_list (d_pair d_N d_vbound) t.
(* the valuation [total s] (0 outside the state) lies in the box on every id of the function
   and of the state *)
Definition state_in_box (bs : bounds) (f : function) (s : state) : bool :=
  forallb (fun i => bmem (total s i) (bget_d bs i))
          (flat_map fst (fn_terms f) ++ map fst s).

(* functions with rational coefficients [p, q] (content_factor) *)
Definition d_rat (t : tree) : option num :=
  match t with
  | L [I p; I q] => if (0 <? q)%Z then Some (Q2Qc (p # Z.to_pos q)) else None
  | I z => Some (qz z)
  | _ => None
  end.
Definition d_qlinear (t : tree) : option linear :=
  match t with
  | L [ts; c] =>
      do ts' <- d_list (d_pair d_N d_rat) ts; do c' <- d_rat c;
      Some {| l_terms := ts'; l_const := c' |}
  | _ => None
  end.
Definition d_qfunction (t : tree) : option function :=
  match t with
  | L [A "unset"] => Some FUnset
  | L [A "const"; c] => do c' <- d_rat c; Some (FConst c')
  | L [A "lin"; l] => do l' <- d_qlinear l; Some (FLin l')
  | L [A "quad"; L [r; c; v; l]] =>
      do r' <- d_list d_N r; do c' <- d_list d_N c; do v' <- d_list d_rat v;
      do l' <- d_opt d_qlinear l;
      Some (FQuad {| q_rows := r'; q_cols := c'; q_vals := v'; q_lin := l' |})
  | L [A "poly"; p] => do p' <- d_list (d_pair (d_list d_N) d_rat) p; Some (FPoly p')
  | _ => None
  end.

Definition kind_tag (f : function) : string :=
  match f with
  | FUnset => "unset" | FConst _ => "const" | FLin _ => "lin" | FQuad _ => "quad" | FPoly _ => "poly"
  end.

Definition run_C16 (case : tree) : tree :=
  match case with
  | L [A "bound_new"; L [l; u]; r] =>
      match d_ext l, d_ext u with
      | Some l', Some u' =>
          match bnew l' u' with
          | None => if is_err r then agree ["bound_new"; "err"]
                    else disagree "bound_new: must be rejected" (A "err")
          | Some Z => judge_bound "bound_new" true (Some Z) [] r
          end
      | _, _ => badcase "bound_new: input"
      end
  | L [A "bound_add"; L [X; Y; m; pts]; r] => run_binop "bound_add" badd Qcplus X Y m pts r
  | L [A "bound_mul"; L [X; Y; m; pts]; r] => run_binop "bound_mul" bmul Qcmult X Y m pts r
  | L [A "bound_add_scalar"; L [X; c; m; pts]; r] =>
      match d_vbound X, d_num c, d_mode m, d_list d_num pts with
      | Some X', Some c', Some ex, Some ps =>
          if negb (all_in X' ps) then badcase "bound_add_scalar: sample point outside the operand"
          else judge_bound "bound_add_scalar" ex (badd_scalar X' (Fin c')) (map (fun x => x + c') ps) r
      | _, _, _, _ => badcase "bound_add_scalar: input"
      end
  | L [A "bound_scale"; L [X; k; m; pts]; r] =>
      match d_vbound X, d_num k, d_mode m, d_list d_num pts with
      | Some X', Some k', Some ex, Some ps =>
          if negb (all_in X' ps) then badcase "bound_scale: sample point outside the operand"
          else judge_bound "bound_scale" ex (bscale X' (Fin k')) (map (fun x => k' * x) ps) r
      | _, _, _, _ => badcase "bound_scale: input"
      end
  | L [A "bound_pow"; L [X; n; m; pts]; r] =>
      match d_vbound X, d_N n, d_mode m, d_list d_num pts with
      | Some X', Some n', Some ex, Some ps =>
          if negb (all_in X' ps) then badcase "bound_pow: sample point outside the operand"
          else judge_bound "bound_pow" ex (bpow X' (N.to_nat n'))
                           (map (fun x => npow x (N.to_nat n')) ps) r
      | _, _, _, _ => badcase "bound_pow: input"
      end
  | L [A "as_integer_bound"; L [X; pts]; r] =>
      match d_vbound X, d_list d_Z pts with
      | Some X', Some zs =>
          (* integers of the operand (others are ignored) must survive the rounding *)
          judge_bound "as_integer_bound" true (as_integer_bound X')
                      (filter (fun v => bmem v X') (map qz zs)) r
      | _, _ => badcase "as_integer_bound: input"
      end
  | L [A "bound_contains"; L [X; v; a]; r] =>
      match d_vbound X, d_ext v, d_ext a with
      | Some X', Some v', Some a' =>
          let e := bcontains X' v' a' in
          match ok_payload r with
          | Some p =>
              match d_bool p with
              | Some b => if Bool.eqb b e then agree ["bound_contains"; if e then "in" else "out"]
                          else disagree "bound_contains" (e_bool e)
              | None => badresult "bound_contains: result shape"
              end
          | None => if is_panic r || is_err r then disagree "bound_contains: must answer" (e_bool e)
                    else badresult "bound_contains: result shape"
          end
      | _, _, _ => badcase "bound_contains: input"
      end
  | L [A "bound_intersection"; L [X; Y]; r] =>
      match d_vbound X, d_vbound Y with
      | Some X', Some Y' =>
          match bintersection X' Y', ok_payload r with
          | None, Some (L []) => agree ["bound_intersection"; "empty"]
          | Some Z, Some (L [p]) => judge_bound "bound_intersection" true (Some Z) [] (L [A "ok"; p])
          | o, Some (L _) => disagree "bound_intersection: emptiness" (e_opt e_bound o)
          | o, _ => if is_panic r || is_err r then disagree "bound_intersection: must answer" (e_opt e_bound o)
                    else badresult "bound_intersection: result shape"
          end
      | _, _ => badcase "bound_intersection: input"
      end
  | L [A "nearest_to_zero"; L [X]; r] =>
      match d_vbound X with
      | Some X' =>
          let e := nearest_to_zero X' in
          match ok_payload r with
          | Some p =>
              match d_ext p with
              | Some v => if ext_same v e then agree ["nearest_to_zero"; shape_tag X']
                          else disagree "nearest_to_zero" (e_ext e)
              | None => badresult "nearest_to_zero: result shape"
              end
          | None => if is_panic r || is_err r then disagree "nearest_to_zero: must answer" (e_ext e)
                    else badresult "nearest_to_zero: result shape"
          end
      | None => badcase "nearest_to_zero: input"
      end
  | L [A "evaluate_bound"; L [f; bs; m; sts]; r] =>
      match d_function f, d_bounds bs, d_mode m, d_list d_state sts with
      | Some f', Some bs', Some ex, Some ss =>
          if negb (forallb (state_in_box bs' f') ss)
          then badcase "evaluate_bound: sample state outside the box"
          else
            match judge_bound "evaluate_bound" ex (evaluate_bound f' bs')
                              (map (fun s => denote f' (total s)) ss) r with
            | L [A "agree"; L tags] => L [A "agree"; L (A (kind_tag f') :: tags)]
            | v => v
            end
      | _, _, _, _ => badcase "evaluate_bound: input"
      end
  | L [A "content_factor"; L [f; qf]; r] =>
      match d_qfunction qf with
      | Some f' =>
          match content_factor f' with
          | None => if is_panic r then agree ["content_factor"; "panic"]
                    else disagree "content_factor: iterator must panic" (A "panic")
          | Some a =>
              match ok_payload r with
              | Some p =>
                  match d_ext p with
                  | Some (Fin v) =>
                      (* the SDK returns the f64 quotient lcm/gcd: within one rounding of a *)
                      if qleb (qabs' (v - a)) (q2 (-52) * a)
                      then agree ["content_factor"; kind_tag f';
                                  if qeqb a 1 then "one" else if qleb a 1 then "below-one" else "above-one"]
                      else disagree "content_factor: value" (e_num a)
                  | Some _ => disagree "content_factor: non-finite" (e_num a)
                  | None => badresult "content_factor: result shape"
                  end
              | None => if is_panic r || is_err r then disagree "content_factor: must succeed" (e_num a)
                        else badresult "content_factor: result shape"
              end
          end
      | None => badcase "content_factor: input"
      end
  | _ => badcase "C16: unknown op"
  end.

(* the comparator is sound: an "exact" agreement certifies that the SDK's interval is a valid
   interval equal to the model's and contains every listed sample value *)
Lemma judge_bound_exact_sound op Z pts p tags :
  judge_bound op true (Some Z) pts (L [A "ok"; p]) = agree tags ->
  exists l u, d_endpoints p = Some (l, u) /\
    validb {| lower := l; upper := u |} = true /\
    ext_same l (lower Z) = true /\ ext_same u (upper Z) = true /\
    forallb (fun v => bmem v {| lower := l; upper := u |}) pts = true.
Proof.
  unfold judge_bound. cbn [ok_payload].
  destruct (d_endpoints p) as [[l u]|]; [|discriminate].
  destruct (validb {| lower := l; upper := u |}) eqn:V; cbn [negb]; [|discriminate].
  destruct (ext_same l (lower Z) && ext_same u (upper Z)) eqn:S; cbn [negb]; [|discriminate].
  destruct (forallb (fun v => bmem v {| lower := l; upper := u |}) pts) eqn:P; cbn [negb]; [|discriminate].
  intros _. apply andb_true_iff in S. destruct S as [S1 S2].
  exists l, u. repeat split; assumption.
Qed.
