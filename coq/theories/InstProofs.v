(* InstProofs.v — what Instance::evaluate reports (C05). *)
Require Import Ommx.Num Ommx.Poly Ommx.Msg Ommx.Eval Ommx.Tree Ommx.Inst.
From Coq Require Import Qcabs.

(* a constraint holds: |f| < 1e-6 for equalities, f < 1e-6 for inequalities *)
Definition holds (e : evaluated) : Prop :=
  (ev_eq e = EQ_ZERO /\ qabs (ev_value e) < tol6) \/ (ev_eq e = LE_ZERO /\ ev_value e < tol6).

Lemma is_feasible_holds e : is_feasible e tol6 = Some true <-> holds e.
Proof.
  unfold is_feasible, holds.
  destruct (ev_eq e =? EQ_ZERO)%Z eqn:E1.
  - apply Z.eqb_eq in E1. split.
    + intro H. inversion H as [H']. apply qltb_lt in H'. left. auto.
    + intros [[_ H]|[E2 _]].
      * apply qltb_lt in H. rewrite H. reflexivity.
      * rewrite E1 in E2. discriminate.
  - apply Z.eqb_neq in E1. destruct (ev_eq e =? LE_ZERO)%Z eqn:E2.
    + apply Z.eqb_eq in E2. split.
      * intro H. inversion H as [H']. apply qltb_lt in H'. right. auto.
      * intros [[E3 _]|[_ H]]; [contradiction|]. apply qltb_lt in H. rewrite H. reflexivity.
    + apply Z.eqb_neq in E2. split; [discriminate|]. intros [[E3 _]|[E3 _]]; contradiction.
Qed.

(* ---- the constraint loops ---- *)
Lemma eval_loop_spec {X} (ev : X -> state -> option evaluated) s : forall l flag acc flag' acc',
  eval_loop ev l s flag acc = Some (flag', acc') ->
  exists es, acc' = acc ++ es /\ Forall2 (fun x e => ev x s = Some e) l es /\
             (flag' = true <-> flag = true /\ Forall holds es).
Proof.
  induction l as [|x l IH]; intros flag acc flag' acc' H; cbn [eval_loop] in H.
  - inversion H; subst. exists []. rewrite app_nil_r. repeat split; auto; tauto.
  - destruct (ev x s) as [e|] eqn:E; [|discriminate].
    destruct flag.
    + destruct (is_feasible e tol6) as [b|] eqn:Fe; [|discriminate].
      apply IH in H. destruct H as (es & -> & F2 & Hf).
      exists (e :: es). rewrite <- app_assoc. cbn [app]. split; [reflexivity|].
      split; [constructor; assumption|].
      rewrite Hf. split.
      * intros [-> Hes]. split; [reflexivity|]. constructor; [apply is_feasible_holds; exact Fe|exact Hes].
      * intros [_ Hall]. inversion Hall as [|? ? He Hes]; subst. split; [|exact Hes].
        apply is_feasible_holds in He. congruence.
    + apply IH in H. destruct H as (es & -> & F2 & Hf).
      exists (e :: es). rewrite <- app_assoc. cbn [app]. split; [reflexivity|].
      split; [constructor; assumption|].
      rewrite Hf. split; [intros [D _]; discriminate|intros [D _]; discriminate].
Qed.

(* what is recorded for an active / removed constraint *)
Definition reports (c : constr) (rm : option (tree * tree)) (s : state) (e : evaluated) : Prop :=
  ev_id e = c_id c /\ ev_eq e = c_eq c /\ ev_meta e = c_meta c /\ ev_removed e = rm /\
  (forall rho, agrees rho s -> ev_value e = denote (fn_or_zero (c_fn c)) rho) /\
  (forall i, In i (ev_used e) <-> occurs (fn_or_zero (c_fn c)) i).

Lemma constr_eval_reports c s e : constr_eval c s = Some e -> reports c None s e.
Proof.
  unfold constr_eval. destruct (fn_eval (fn_or_zero (c_fn c)) s) as [[v ids]|] eqn:E; [|discriminate].
  intro H; inversion H; subst; clear H. apply fn_eval_sound in E. destruct E as [Ev Ei].
  unfold reports; cbn. repeat split; auto; apply Ei.
Qed.
Lemma removed_eval_reports r s e : removed_eval r s = Some e ->
  exists c, r_c r = Some c /\ reports c (Some (r_reason r, r_params r)) s e.
Proof.
  unfold removed_eval. destruct (r_c r) as [c|]; [|discriminate].
  destruct (constr_eval c s) as [e0|] eqn:E; [|discriminate].
  intro H; inversion H; subst; clear H. apply constr_eval_reports in E.
  exists c. split; [reflexivity|]. unfold reports in *; cbn. tauto.
Qed.

Definition reports_removed (r : removed) (s : state) (e : evaluated) : Prop :=
  exists c, r_c r = Some c /\ reports c (Some (r_reason r, r_params r)) s e.

(* ---- state completion ---- *)
Lemma sget_sset s i v j : sget (sset s i v) j = if (j =? i)%N then Some v else sget s j.
Proof. reflexivity. Qed.

Lemma fill_vacant_spec : forall dvs s1 s2, fill_vacant dvs s1 = Some s2 ->
  (forall i v, sget s1 i = Some v -> sget s2 i = Some v) /\
  (forall d, In d dvs -> sget s2 (dv_id d) <> None) /\
  (forall i x, sget s1 i = None -> sget s2 i = Some x ->
     exists d b, In d dvs /\ dv_id d = i /\ dv_bound_of d = Some b /\ nearest_to_zero b = Fin x).
Proof.
  induction dvs as [|d dvs IH]; intros s1 s2 H; cbn [fill_vacant] in H.
  - inversion H; subst. split; [auto|]. split.
    + intros d [].
    + intros i x G1 G2. congruence.
  - destruct (sget s1 (dv_id d)) as [v0|] eqn:G.
    + apply IH in H. destruct H as (H1 & H2 & H3). split; [exact H1|]. split.
      * intros d' [<-|Hin]; [rewrite (H1 _ _ G); discriminate|apply H2; exact Hin].
      * intros i x G1 G2. destruct (H3 i x G1 G2) as (d' & b & Hin & E1 & E2 & E3).
        exists d', b. split; [right; exact Hin|]. auto.
    + destruct (dv_bound_of d) as [b|] eqn:B; [|discriminate].
      destruct (nearest_to_zero b) as [|x0| |] eqn:Nz; try discriminate.
      apply IH in H. destruct H as (H1 & H2 & H3). split; [|split].
      * intros i v Gi. apply H1. rewrite sget_sset.
        destruct (i =? dv_id d)%N eqn:E; [apply N.eqb_eq in E; subst; congruence|exact Gi].
      * intros d' [<-|Hin]; [|apply H2; exact Hin].
        rewrite (H1 (dv_id d) x0); [discriminate|]. rewrite sget_sset, N.eqb_refl. reflexivity.
      * intros i x G1 G2.
        destruct (i =? dv_id d)%N eqn:E.
        -- apply N.eqb_eq in E. subst i.
           assert (G3 : sget s2 (dv_id d) = Some x0).
           { apply H1. rewrite sget_sset, N.eqb_refl. reflexivity. }
           rewrite G3 in G2. inversion G2; subst. exists d, b. split; [left; reflexivity|]. auto.
        -- destruct (H3 i x) as (d' & b' & Hin & E1 & E2 & E3); auto.
           { rewrite sget_sset, E. exact G1. }
           exists d', b'. split; [right; exact Hin|]. auto.
Qed.

(* nearest_to_zero of a valid bound lies in the bound and no point of the bound is closer to 0 *)
Definition in_bound (b : ext * ext) (x : num) : Prop := eleb (fst b) (Fin x) = true /\ eleb (Fin x) (snd b) = true.

Lemma qabs_nonneg_le x y : 0 <= x -> x <= y -> qabs x <= qabs y.
Proof.
  intros Hx Hxy. unfold qabs. rewrite (Qcabs_pos x Hx), (Qcabs_pos y); [exact Hxy|].
  eapply Qcle_trans; eassumption.
Qed.
Lemma qabs_nonpos_le x y : x <= 0 -> y <= x -> qabs x <= qabs y.
Proof.
  intros Hx Hyx. unfold qabs. rewrite (Qcabs_neg x Hx), (Qcabs_neg y).
  - apply Qcopp_le_compat. exact Hyx.
  - eapply Qcle_trans; eassumption.
Qed.
Lemma qabs_0_le y : qabs 0 <= qabs y.
Proof. rewrite qabs_0. apply Qcabs_nonneg. Qed.

Lemma ntz_fin_fin l u x : l <= u -> nearest_to_zero (Fin l, Fin u) = Fin x ->
  (l <= x /\ x <= u) /\ forall y, l <= y -> y <= u -> qabs x <= qabs y.
Proof.
  intros Hlu. unfold nearest_to_zero; cbn [fst snd eleb].
  destruct (qleb 0 l) eqn:E1.
  - apply qleb_le in E1. intro H; inversion H; subst x. split.
    + split; [apply Qcle_refl|exact Hlu].
    + intros y Hy _. apply qabs_nonneg_le; assumption.
  - apply qleb_gt in E1. destruct (qleb u 0) eqn:E2.
    + apply qleb_le in E2. intro H; inversion H; subst x. split.
      * split; [exact Hlu|apply Qcle_refl].
      * intros y _ Hy. apply qabs_nonpos_le; assumption.
    + apply qleb_gt in E2. intro H; inversion H; subst x. split.
      * split; apply Qclt_le_weak; assumption.
      * intros y _ _. apply qabs_0_le.
Qed.
Lemma ntz_fin_inf l x : nearest_to_zero (Fin l, PInf) = Fin x ->
  l <= x /\ forall y, l <= y -> qabs x <= qabs y.
Proof.
  unfold nearest_to_zero; cbn [fst snd eleb].
  destruct (qleb 0 l) eqn:E1.
  - apply qleb_le in E1. intro H; inversion H; subst x. split; [apply Qcle_refl|].
    intros y Hy. apply qabs_nonneg_le; assumption.
  - apply qleb_gt in E1. intro H; inversion H; subst x. split; [apply Qclt_le_weak; exact E1|].
    intros y _. apply qabs_0_le.
Qed.
Lemma ntz_inf_fin u x : nearest_to_zero (NInf, Fin u) = Fin x ->
  x <= u /\ forall y, y <= u -> qabs x <= qabs y.
Proof.
  unfold nearest_to_zero; cbn [fst snd eleb].
  destruct (qleb u 0) eqn:E2.
  - apply qleb_le in E2. intro H; inversion H; subst x. split; [apply Qcle_refl|].
    intros y Hy. apply qabs_nonpos_le; assumption.
  - apply qleb_gt in E2. intro H; inversion H; subst x. split; [apply Qclt_le_weak; exact E2|].
    intros y _. apply qabs_0_le.
Qed.

Lemma nearest_to_zero_spec l u b x : bcheck l u = Some b -> nearest_to_zero b = Fin x ->
  in_bound b x /\ forall y, in_bound b y -> qabs x <= qabs y.
Proof.
  unfold bcheck, in_bound.
  destruct l as [|ql| |]; destruct u as [|qu| |]; cbn [is_nan orb eltb eleb negb]; try discriminate.
  - (* (-inf, qu] *)
    intro H; inversion H; subst b; clear H. intro Hn. apply ntz_inf_fin in Hn. destruct Hn as [H1 H2].
    cbn [fst snd eleb]. split; [split; [reflexivity|apply qleb_le; exact H1]|].
    intros y [_ Hy]. apply qleb_le in Hy. apply H2. exact Hy.
  - (* (-inf, inf) *)
    intro H; inversion H; subst b; clear H. unfold nearest_to_zero; cbn [fst snd eleb].
    intro Hn; inversion Hn; subst x. split; [split; reflexivity|]. intros y _. apply qabs_0_le.
  - (* [ql, qu] *)
    destruct (qleb ql qu) eqn:Le; cbn [negb]; [|discriminate].
    apply qleb_le in Le. intro H; inversion H; subst b; clear H. intro Hn.
    apply (ntz_fin_fin _ _ _ Le) in Hn. destruct Hn as [[H1 H2] H3].
    cbn [fst snd eleb]. split; [split; apply qleb_le; assumption|].
    intros y [Hy1 Hy2]. apply qleb_le in Hy1. apply qleb_le in Hy2. apply H3; assumption.
  - (* [ql, inf) *)
    intro H; inversion H; subst b; clear H. intro Hn. apply ntz_fin_inf in Hn. destruct Hn as [H1 H2].
    cbn [fst snd eleb]. split; [split; [apply qleb_le; exact H1|reflexivity]|].
    intros y [Hy _]. apply qleb_le in Hy. apply H2. exact Hy.
Qed.

Lemma Forall2_impl' {X Y} (P Q : X -> Y -> Prop) l l' :
  (forall x y, P x y -> Q x y) -> Forall2 P l l' -> Forall2 Q l l'.
Proof. intros H F. induction F; constructor; auto. Qed.

(* ---- the Solution ---- *)
Theorem inst_eval_objective I s sol : inst_eval I s = Some sol ->
  forall rho, agrees rho s -> so_objective sol = denote (fn_or_zero (i_obj I)) rho.
Proof.
  unfold inst_eval. destruct (negb (check_bound (i_dvs I) s tol7)); [discriminate|].
  destruct (eval_loop constr_eval (i_cs I) s true []) as [[fr ev1]|]; [|discriminate].
  destruct (eval_loop removed_eval (i_rs I) s fr ev1) as [[fe ev2]|]; [|discriminate].
  destruct (fn_eval (fn_or_zero (i_obj I)) s) as [[obj ids]|] eqn:E; [|discriminate].
  destruct (eval_deps (i_deps I) (insert_subst (i_dvs I) s)) as [s1|]; [|discriminate].
  destruct (fill_vacant (i_dvs I) s1) as [s2|]; [|discriminate].
  intro H; inversion H; subst; clear H. cbn [so_objective].
  intros rho Ag. apply fn_eval_sound in E. apply (proj1 E rho Ag).
Qed.

Theorem inst_eval_constraints I s sol : inst_eval I s = Some sol ->
  exists ea er, so_evaluated sol = ea ++ er /\
    Forall2 (fun c e => reports c None s e) (i_cs I) ea /\
    Forall2 (fun r e => reports_removed r s e) (i_rs I) er /\
    (so_feasible_relaxed sol = true <-> Forall holds ea) /\
    (so_feasible sol = true <-> Forall holds (ea ++ er)).
Proof.
  unfold inst_eval. destruct (negb (check_bound (i_dvs I) s tol7)); [discriminate|].
  destruct (eval_loop constr_eval (i_cs I) s true []) as [[fr ev1]|] eqn:L1; [|discriminate].
  destruct (eval_loop removed_eval (i_rs I) s fr ev1) as [[fe ev2]|] eqn:L2; [|discriminate].
  destruct (fn_eval (fn_or_zero (i_obj I)) s) as [[obj ids]|]; [|discriminate].
  destruct (eval_deps (i_deps I) (insert_subst (i_dvs I) s)) as [s1|]; [|discriminate].
  destruct (fill_vacant (i_dvs I) s1) as [s2|]; [|discriminate].
  intro H; inversion H; subst; clear H. cbn [so_evaluated so_feasible so_feasible_relaxed].
  apply eval_loop_spec in L1. destruct L1 as (ea & -> & Fa & Ha). cbn [app] in *.
  apply eval_loop_spec in L2. destruct L2 as (er & -> & Fr & Hr).
  exists ea, er. split; [reflexivity|]. split.
  { eapply Forall2_impl'; [|exact Fa]. intros c e. apply constr_eval_reports. }
  split.
  { eapply Forall2_impl'; [|exact Fr]. intros r e. apply removed_eval_reports. }
  split.
  - rewrite Ha. tauto.
  - rewrite Hr, Ha. rewrite Forall_app. tauto.
Qed.

(* rejection: a state that violates a bound by more than the tolerance, an invalid bound, or a
   missing value of a used variable makes evaluation fail *)
Theorem inst_eval_rejects_bound I s : check_bound (i_dvs I) s tol7 = false -> inst_eval I s = None.
Proof. unfold inst_eval. intros ->. reflexivity. Qed.

Lemma eval_loop_none_missing {X} (ev : X -> state -> option evaluated) s x :
  ev x s = None -> forall l flag acc, In x l -> eval_loop ev l s flag acc = None.
Proof.
  intros E. induction l as [|y l IH]; intros flag acc Hin; [destruct Hin|].
  cbn [eval_loop]. destruct Hin as [->|Hin].
  - rewrite E. reflexivity.
  - destruct (ev y s) as [e|]; [|reflexivity].
    destruct flag; [destruct (is_feasible e tol6)|]; try reflexivity; apply IH; exact Hin.
Qed.

Theorem inst_eval_rejects_missing_active I s c i :
  In c (i_cs I) -> occurs (fn_or_zero (c_fn c)) i -> sget s i = None -> inst_eval I s = None.
Proof.
  intros Hin Ho G. unfold inst_eval. destruct (negb (check_bound (i_dvs I) s tol7)); [reflexivity|].
  rewrite (eval_loop_none_missing constr_eval s c); [reflexivity| |exact Hin].
  unfold constr_eval. rewrite (fn_eval_missing _ _ _ Ho G). reflexivity.
Qed.
Theorem inst_eval_rejects_missing_removed I s r c i :
  In r (i_rs I) -> r_c r = Some c -> occurs (fn_or_zero (c_fn c)) i -> sget s i = None ->
  inst_eval I s = None.
Proof.
  intros Hin Hc Ho G. unfold inst_eval. destruct (negb (check_bound (i_dvs I) s tol7)); [reflexivity|].
  destruct (eval_loop constr_eval (i_cs I) s true []) as [[fr ev1]|]; [|reflexivity].
  rewrite (eval_loop_none_missing removed_eval s r); [reflexivity| |exact Hin].
  unfold removed_eval, constr_eval. rewrite Hc, (fn_eval_missing _ _ _ Ho G). reflexivity.
Qed.
Theorem inst_eval_rejects_missing_objective I s i :
  occurs (fn_or_zero (i_obj I)) i -> sget s i = None -> inst_eval I s = None.
Proof.
  intros Ho G. unfold inst_eval. destruct (negb (check_bound (i_dvs I) s tol7)); [reflexivity|].
  destruct (eval_loop constr_eval (i_cs I) s true []) as [[fr ev1]|]; [|reflexivity].
  destruct (eval_loop removed_eval (i_rs I) s fr ev1) as [[fe ev2]|]; [|reflexivity].
  rewrite (fn_eval_missing _ _ _ Ho G). reflexivity.
Qed.

(* an accepted state respects every defined variable's bound within the tolerance *)
Theorem inst_eval_accepts_in_bound I s sol : inst_eval I s = Some sol ->
  check_bound (i_dvs I) s tol7 = true.
Proof.
  unfold inst_eval. destruct (check_bound (i_dvs I) s tol7); [reflexivity|discriminate].
Qed.

(* the reported state: every defined variable has a value; values present after the dependency
   pass are kept; a variable with no value gets the point of its bound nearest to zero *)
Theorem inst_eval_state I s sol : inst_eval I s = Some sol ->
  exists s1, eval_deps (i_deps I) (insert_subst (i_dvs I) s) = Some s1 /\
    (forall i v, sget s1 i = Some v -> sget (so_state sol) i = Some v) /\
    (forall d, In d (i_dvs I) -> sget (so_state sol) (dv_id d) <> None) /\
    (forall i x, sget s1 i = None -> sget (so_state sol) i = Some x ->
       exists d b, In d (i_dvs I) /\ dv_id d = i /\ dv_bound_of d = Some b /\ nearest_to_zero b = Fin x).
Proof.
  unfold inst_eval. destruct (negb (check_bound (i_dvs I) s tol7)); [discriminate|].
  destruct (eval_loop constr_eval (i_cs I) s true []) as [[fr ev1]|]; [|discriminate].
  destruct (eval_loop removed_eval (i_rs I) s fr ev1) as [[fe ev2]|]; [|discriminate].
  destruct (fn_eval (fn_or_zero (i_obj I)) s) as [[obj ids]|]; [|discriminate].
  destruct (eval_deps (i_deps I) (insert_subst (i_dvs I) s)) as [s1|] eqn:D; [|discriminate].
  destruct (fill_vacant (i_dvs I) s1) as [s2|] eqn:Fv; [|discriminate].
  intro H; inversion H; subst; clear H. cbn [so_state].
  exists s1. split; [reflexivity|]. apply fill_vacant_spec. exact Fv.
Qed.
