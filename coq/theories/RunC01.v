(* RunC01.v — correspondence runner for C01: decode a case, run the model, judge the SDK. *)
Require Import Ommx.Num Ommx.Poly Ommx.Msg Ommx.Eval Ommx.Tree Ommx.FEval Ommx.F64.
From Coq Require Import String.
Open Scope string_scope.

Definition kind_tag (f : function) : string :=
  match f with
  | FUnset => "unset" | FConst _ => "const" | FLin _ => "lin" | FQuad _ => "quad" | FPoly _ => "poly"
  end.

(* judge an SDK answer [r] against the model answer for (f, s) *)
Definition judge_eval (f : function) (s : state) (r : tree) : tree :=
  match fn_eval f s with
  | None =>
      if is_err r then agree ["err"; kind_tag f]
      else disagree "evaluate must fail: a variable of the function has no value" (A "err")
  | Some (v, ids) =>
      match ok_payload r with
      | Some (L [rv; rids]) =>
          match d_ext rv, d_list d_N rids with
          | Some (Fin q), Some ids' =>
              if negb (qeqb q v) then disagree "value" (e_num v)
              else if negb (set_eqb ids ids') then disagree "used ids" (e_list e_N ids)
              else agree ["ok"; kind_tag f]
          | Some _, Some _ => disagree "value (non-finite)" (e_num v)
          | _, _ => badresult "evaluate: result shape"
          end
      | _ =>
          if is_err r || is_panic r
          then disagree "evaluate must succeed" (L [e_num v; e_list e_N ids])
          else badresult "evaluate: result shape"
      end
  end.

(* float stream: arbitrary finite binary64 data.  The SDK's answer must be, bit for bit, the
   evaluation with every operation rounded to nearest-even at 53 bits (F64.rnd53), which
   F64.f64_eval_bound places within ((1+2^-53)^K - 1) * magnitude of the exact value.  The
   in-range test excludes results where binary64 would be subnormal or overflow. *)
Definition in_normal_range (v : Qc) : bool :=
  qeqb v 0 || (qleb (q2 (-1022)) (qabs v) && qltb (qabs v) (q2 1024)).
Definition judge_eval_f (f : function) (s : state) (r : tree) : tree :=
  match fn_eval f s, ffn_eval rnd53 f s with
  | Some (v, ids), Some vh =>
      match ok_payload r with
      | Some (L [rv; rids]) =>
          match d_ext rv, d_list d_N rids with
          | Some (Fin q), Some ids' =>
              if negb (in_normal_range vh) then agree ["range-skip"; kind_tag f]
              else if negb (qeqb q vh) then disagree "value (rounded evaluation)" (e_num vh)
              else if negb (qleb (qabs (q - v)) ((gpow u53 (fn_ops f) - 1) * fn_mag f s))
                   then disagree "value outside the proved rounding bound" (e_num v)
              else if negb (set_eqb ids ids') then disagree "used ids" (e_list e_N ids)
              else agree [(if qeqb vh v then "float-exact" else "float-rounded"); kind_tag f]
          | Some _, Some _ => disagree "value (non-finite)" (e_num vh)
          | _, _ => badresult "evaluate_f: result shape"
          end
      | _ =>
          if is_err r || is_panic r
          then disagree "evaluate must succeed" (L [e_num vh; e_list e_N ids])
          else badresult "evaluate_f: result shape"
      end
  | None, None =>
      if is_err r then agree ["err"; kind_tag f]
      else disagree "evaluate must fail: a variable of the function has no value" (A "err")
  | _, _ => badcase "evaluate_f: exact and rounded models disagree on success"
  end.

Definition run_C01 (case : tree) : tree :=
  match case with
  | L [A "evaluate_f"; L [f; s]; r] =>
      match d_function f, d_state s with
      | Some f', Some s' => judge_eval_f f' s' r
      | _, _ => badcase "evaluate_f: input"
      end
  | L [A "evaluate"; L [f; s]; r] =>
      match d_function f, d_state s with
      | Some f', Some s' => judge_eval f' s' r
      | _, _ => badcase "evaluate: input"
      end
  | _ => badcase "C01: unknown op"
  end.

(* the comparator is sound: an `agree ok` verdict certifies the property's clause for
   the SDK's answer on this case *)
Lemma judge_eval_ok_sound f s rv rids tags :
  judge_eval f s (L [A "ok"; L [rv; rids]]) = agree ("ok" :: tags) ->
  exists q ids', d_ext rv = Some (Fin q) /\ d_list d_N rids = Some ids' /\
    (forall rho, agrees rho s -> q = denote f rho) /\ (forall i, In i ids' <-> occurs f i).
Proof.
  unfold judge_eval. destruct (fn_eval f s) as [[v ids]|] eqn:E.
  - cbn [ok_payload]. destruct (d_ext rv) as [[| q | |]|]; destruct (d_list d_N rids) as [ids'|];
      try discriminate.
    destruct (qeqb q v) eqn:Q; cbn [negb]; [|discriminate].
    destruct (set_eqb ids ids') eqn:S; cbn [negb]; [|discriminate].
    intros _. exists q, ids'. apply qeqb_eq in Q. subst q.
    apply fn_eval_sound in E. destruct E as [Ev Ei].
    repeat split; auto.
    + intro Hi. apply Ei. apply (proj1 (set_eqb_spec _ _) S). exact Hi.
    + intro Hi. apply (proj1 (set_eqb_spec _ _) S). apply Ei. exact Hi.
  - cbn [is_err]. discriminate.
Qed.
