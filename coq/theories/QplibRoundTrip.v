(* QplibRoundTrip.v — Tier B for C19: the per-case check of RunC19.v
   ("the model reader applied to the rendered text agrees with meaning M") as a theorem,
   for ALL well-formed abstract QPLIB models and ALL well-formed layouts.

   Structure (section numbers as in the file)
   1.  strings: words / fields of a rendered line, the splitters of the reader on them;
   2.  decimal naturals: [parse_usize (digits n) = Some n];
   4.  the cursor on rendered lines ([reads], [readsL]), the four shapes of entry lines;
   5.  every section reader on the section written by [llines] (literals abstract: Section
       variable [num_ok] with the hypotheses "prints as one word" and "reads back");
   6.  [from_lines (render ly M) = Ok (file_of M)]  (theorem [from_lines_render]);
   7.  the tables of [file_of M] in closed form when every key is listed once;
   8.  [convert (file_of M)] against [meaning M]: variables (list equality), objective and
       constraint sides (equal polynomial functions, same ids, same order);
   9.  the main theorem relative to the literal hypotheses ([load_render_gen]);
   10. decimal literals: [parse_f64 (print_snum x) = Some (sval x)] for every [snum] and
       every printing style ([print_snum_ok]) -- the hypotheses of 5 / 9 are discharged;
   11. the closed theorems [C19_from_lines_render], [C19_load_render],
       [C19_runner_no_machinery_error], non-vacuity examples, [Print Assumptions]. *)
Require Import Ommx.Num Ommx.Poly Ommx.Msg Ommx.Qplib Ommx.QplibSpec Ommx.QplibProofs.
From Coq Require Import String Ascii DecimalString DecimalN DecimalPos DecimalFacts.
Close Scope string_scope.
Open Scope list_scope.
Open Scope Qc_scope.

Notation "a +++ b" := (String.append a b) (at level 60, right associativity).

(* ================================================================== *)
(* 1. strings *)

Fixpoint all_s (p : ascii -> bool) (s : string) : bool :=
  match s with EmptyString => true | String c s' => p c && all_s p s' end.

Definition nows (s : string) : bool := all_s (fun c => negb (is_ws c)) s.
Definition noaws (s : string) : bool := all_s (fun c => negb (is_ascii_ws c)) s.
(* a word of a value line: not empty, no whitespace, does not start a comment *)
Definition tok (w : string) : bool :=
  match w with EmptyString => false | String _ _ => negb (starts_comment w) && nows w end.
(* a field of an entry line: no separator inside, not taken for a comment *)
Definition fld_ok (s : string) : bool := noaws s && negb (is_comment s).

Lemma app_nil_r_s s : s +++ EmptyString = s.
Proof. induction s as [|c s IH]; cbn [String.append]; [reflexivity|]. rewrite IH. reflexivity. Qed.
Lemma app_assoc_s a b c : (a +++ b) +++ c = a +++ (b +++ c).
Proof. induction a as [|x a IH]; cbn [String.append]; [reflexivity|]. rewrite IH. reflexivity. Qed.
Lemma all_s_app p a b : all_s p (a +++ b) = all_s p a && all_s p b.
Proof.
  induction a as [|x a IH]; cbn [String.append all_s]; [reflexivity|]. rewrite IH.
  rewrite andb_assoc. reflexivity.
Qed.
Lemma all_s_impl (p q : ascii -> bool) s :
  (forall c, p c = true -> q c = true) -> all_s p s = true -> all_s q s = true.
Proof.
  intro H. induction s as [|c s IH]; cbn [all_s]; [reflexivity|].
  rewrite !andb_true_iff. intros [A B]. split; [apply H; exact A|apply IH; exact B].
Qed.

Lemma ascii_ws_is_ws c : is_ascii_ws c = true -> is_ws c = true.
Proof.
  unfold is_ascii_ws, is_ws. set (n := nat_of_ascii c).
  rewrite !orb_true_iff, andb_true_iff, !Nat.eqb_eq, !Nat.leb_le. lia.
Qed.
Lemma nows_noaws s : nows s = true -> noaws s = true.
Proof.
  apply all_s_impl. intros c H. apply negb_true_iff in H. apply negb_true_iff.
  destruct (is_ascii_ws c) eqn:E; [|reflexivity]. apply ascii_ws_is_ws in E. congruence.
Qed.

Lemma trim_start_ws_app a b : all_s is_ws a = true -> trim_start (a +++ b) = trim_start b.
Proof.
  induction a as [|c a IH]; cbn [String.append all_s trim_start]; [reflexivity|].
  rewrite andb_true_iff. intros [-> H]. apply IH. exact H.
Qed.
Lemma tok_inv w : tok w = true ->
  exists c r, w = String c r /\ is_ws c = false /\ starts_comment w = false /\ nows w = true.
Proof.
  destruct w as [|c r]; cbn [tok]; [discriminate|]. rewrite andb_true_iff, negb_true_iff.
  intros [A B]. exists c, r. repeat split; try assumption.
  cbn [nows all_s] in B. apply andb_true_iff in B. apply negb_true_iff. exact (proj1 B).
Qed.
Lemma tok_trim w t : tok w = true -> trim_start (w +++ t) = w +++ t.
Proof.
  intro H. destruct (tok_inv w H) as (c & r & -> & Hc & _). cbn [String.append trim_start].
  rewrite Hc. reflexivity.
Qed.
Lemma tok_not_skippable w t : tok w = true -> skippable (w +++ t) = false.
Proof.
  intro H. unfold skippable, is_blank, is_comment. rewrite (tok_trim w t H).
  destruct (tok_inv w H) as (c & r & -> & Hc & Hs & _). cbn [String.append].
  cbn [starts_comment] in *. rewrite Hs. reflexivity.
Qed.
(* what may follow a word on its line: nothing, or a separator and any text *)
Definition tail_ok (t : string) : Prop :=
  t = EmptyString \/ exists c r, t = String c r /\ is_ws c = true.
Lemma take_word_app w t : nows w = true -> tail_ok t -> take_word (w +++ t) = w.
Proof.
  intros H Ht. induction w as [|c w IH]; cbn [String.append].
  - destruct Ht as [->|(c & r & -> & Hc)]; cbn [take_word]; [reflexivity|]. rewrite Hc. reflexivity.
  - cbn [nows all_s] in H. apply andb_true_iff in H. destruct H as [Hc Hw].
    apply negb_true_iff in Hc. cbn [take_word]. rewrite Hc. rewrite IH by exact Hw. reflexivity.
Qed.
Lemma first_word_line ind w t :
  all_s is_ws ind = true -> tok w = true -> tail_ok t -> first_word (ind +++ w +++ t) = Some w.
Proof.
  intros Hi Hw Ht. unfold first_word. rewrite (trim_start_ws_app _ _ Hi), (tok_trim w t Hw).
  destruct (tok_inv w Hw) as (c & r & E & _ & _ & Hn). rewrite (take_word_app w t Hn Ht).
  rewrite E. reflexivity.
Qed.
Lemma line_not_skippable ind w t :
  all_s is_ws ind = true -> tok w = true -> skippable (ind +++ w +++ t) = false.
Proof.
  intros Hi Hw. unfold skippable, is_blank, is_comment. rewrite (trim_start_ws_app _ _ Hi).
  pose proof (tok_not_skippable w t Hw) as H. unfold skippable, is_blank, is_comment in H. exact H.
Qed.

(* break_ws / splitn on fields joined by one separator *)
Lemma break_ws_field f c r : noaws f = true -> is_ascii_ws c = true ->
  break_ws (f +++ String c r) = (f, Some r).
Proof.
  intros Hf Hc. induction f as [|x f IH]; cbn [String.append break_ws].
  - rewrite Hc. reflexivity.
  - cbn [noaws all_s] in Hf. apply andb_true_iff in Hf. destruct Hf as [Hx Hf].
    apply negb_true_iff in Hx. rewrite Hx. rewrite (IH Hf). reflexivity.
Qed.
Lemma break_ws_last f : noaws f = true -> break_ws f = (f, None).
Proof.
  intros Hf. induction f as [|x f IH]; cbn [break_ws]; [reflexivity|].
  cbn [noaws all_s] in Hf. apply andb_true_iff in Hf. destruct Hf as [Hx Hf].
  apply negb_true_iff in Hx. rewrite Hx. rewrite (IH Hf). reflexivity.
Qed.

Definition sepc (tb : bool) : ascii := if tb then ascii_of_nat 9 else " "%char.
Lemma sepc_sep (tb : bool) : (if tb then tab else " "%string) = String (sepc tb) EmptyString.
Proof. destruct tb; reflexivity. Qed.
Lemma sepc_aws tb : is_ascii_ws (sepc tb) = true. Proof. destruct tb; reflexivity. Qed.
Lemma sepc_ws tb : is_ws (sepc tb) = true. Proof. destruct tb; reflexivity. Qed.

(* the trailing text of a decorated line *)
Definition trail_of (tb : bool) (tr : string) : string :=
  if String.eqb tr EmptyString then EmptyString else String (sepc tb) tr.
Lemma trail_tail_ok tb tr : tail_ok (trail_of tb tr).
Proof.
  unfold trail_of. destruct (String.eqb tr EmptyString); [left; reflexivity|].
  right. exists (sepc tb), tr. split; [reflexivity|apply sepc_ws].
Qed.

Lemma splitn_fields tb tr : forall fs, fs <> [] -> Forall (fun f => noaws f = true) fs ->
  exists extra,
    splitn (S (List.length fs)) (join (String (sepc tb) EmptyString) fs +++ trail_of tb tr)
    = fs ++ extra.
Proof.
  induction fs as [|x fs IH]; intros Hne Hall; [congruence|].
  inversion Hall as [|? ? Hx Hfs]; subst. destruct fs as [|y fs].
  - cbn [join List.length splitn]. unfold trail_of. destruct (String.eqb tr EmptyString).
    + rewrite app_nil_r_s, (break_ws_last x Hx). exists []. reflexivity.
    + rewrite (break_ws_field x _ tr Hx (sepc_aws tb)). exists [tr]. reflexivity.
  - destruct (IH ltac:(discriminate) Hfs) as [extra E]. exists extra.
    change (join (String (sepc tb) EmptyString) (x :: y :: fs))
      with (x +++ String (sepc tb) EmptyString +++ join (String (sepc tb) EmptyString) (y :: fs)).
    rewrite !app_assoc_s. cbn [String.append].
    change (splitn (S (List.length (x :: y :: fs))) ?s)
      with (match break_ws s with
            | (a, None) => [a]
            | (a, Some r) => a :: splitn (S (List.length (y :: fs))) r
            end).
    rewrite (break_ws_field x _ _ Hx (sepc_aws tb)). rewrite E. reflexivity.
Qed.

Lemma until_comment_fields : forall fs extra k,
  Forall (fun f => is_comment f = false) fs -> (k < List.length fs)%nat ->
  nth_error (until_comment (fs ++ extra)) k = nth_error fs k.
Proof.
  induction fs as [|x fs IH]; intros extra k H Hk; cbn [List.length] in Hk; [lia|].
  inversion H as [|? ? Hx Hfs]; subst. cbn [app until_comment]. rewrite Hx.
  destruct k as [|k]; cbn [nth_error]; [reflexivity|]. apply IH; [exact Hfs|lia].
Qed.

Lemma fld_ok_inv s : fld_ok s = true -> noaws s = true /\ is_comment s = false.
Proof. unfold fld_ok. rewrite andb_true_iff, negb_true_iff. tauto. Qed.
Lemma tok_fld_ok w : tok w = true -> fld_ok w = true.
Proof.
  intro H. destruct (tok_inv w H) as (c & r & E & Hc & Hs & Hn). unfold fld_ok.
  rewrite (nows_noaws w Hn). unfold is_comment.
  replace (trim_start w) with w; [rewrite Hs; reflexivity|].
  rewrite E. cbn [trim_start]. rewrite Hc. reflexivity.
Qed.

(* the fields of a rendered entry line, as the reader gets them *)
Lemma entry_fields tb tr fs k : fs <> [] -> Forall (fun f => fld_ok f = true) fs ->
  (k < List.length fs)%nat ->
  nth_error (until_comment (splitn (S (List.length fs))
               (join (String (sepc tb) EmptyString) fs +++ trail_of tb tr))) k
  = nth_error fs k.
Proof.
  intros Hne Hall Hk.
  destruct (splitn_fields tb tr fs Hne) as [extra E].
  { eapply Forall_impl; [|exact Hall]. intros f Hf. exact (proj1 (fld_ok_inv f Hf)). }
  rewrite E. apply until_comment_fields; [|exact Hk].
  eapply Forall_impl; [|exact Hall]. intros f Hf. exact (proj2 (fld_ok_inv f Hf)).
Qed.
Lemma join_head sep x fs : exists r, join sep (x :: fs) = x +++ r.
Proof.
  destruct fs as [|y fs]; cbn [join].
  - exists EmptyString. rewrite app_nil_r_s. reflexivity.
  - eexists. reflexivity.
Qed.

Notation digits := QplibSpec.digits.

(* ================================================================== *)
(* 2. decimal naturals *)

Definition is_digit (c : ascii) : bool := match digit_of c with Some _ => true | None => false end.

Fixpoint uval (d : Decimal.uint) (acc : N) : N :=
  match d with
  | Decimal.Nil => acc
  | Decimal.D0 l => uval l (acc * 10 + 0)
  | Decimal.D1 l => uval l (acc * 10 + 1)
  | Decimal.D2 l => uval l (acc * 10 + 2)
  | Decimal.D3 l => uval l (acc * 10 + 3)
  | Decimal.D4 l => uval l (acc * 10 + 4)
  | Decimal.D5 l => uval l (acc * 10 + 5)
  | Decimal.D6 l => uval l (acc * 10 + 6)
  | Decimal.D7 l => uval l (acc * 10 + 7)
  | Decimal.D8 l => uval l (acc * 10 + 8)
  | Decimal.D9 l => uval l (acc * 10 + 9)
  end%N.

(* what stops a run of digits *)
Definition stops (s : string) : Prop :=
  match s with EmptyString => True | String c _ => digit_of c = None end.

(* value of a string of digits, most significant first, on top of [acc] *)
Fixpoint dv (s : string) (acc : N) : N :=
  match s with
  | EmptyString => acc
  | String c s' => match digit_of c with Some d => dv s' (acc * 10 + d)%N | None => acc end
  end.

Lemma read_digits_app a : forall rest acc cnt, all_s is_digit a = true -> stops rest ->
  read_digits (a +++ rest) acc cnt = (dv a acc, (cnt + String.length a)%nat, rest).
Proof.
  induction a as [|c a IH]; intros rest acc cnt Ha Hr; cbn [String.append dv String.length].
  - rewrite Nat.add_0_r. destruct rest as [|c r]; cbn [read_digits]; [reflexivity|].
    cbn [stops] in Hr. rewrite Hr. reflexivity.
  - cbn [all_s] in Ha. apply andb_true_iff in Ha. destruct Ha as [Hc Ha].
    unfold is_digit in Hc. cbn [read_digits]. destruct (digit_of c) as [d|]; [|discriminate].
    rewrite (IH rest _ _ Ha Hr). rewrite Nat.add_succ_r. reflexivity.
Qed.
Lemma read_digits_all a acc cnt : all_s is_digit a = true ->
  read_digits a acc cnt = (dv a acc, (cnt + String.length a)%nat, EmptyString).
Proof.
  intro Ha. rewrite <- (app_nil_r_s a) at 1. apply read_digits_app; [exact Ha|exact Logic.I].
Qed.
Lemma dv_app a : forall b acc, all_s is_digit a = true -> dv (a +++ b) acc = dv b (dv a acc).
Proof.
  induction a as [|c a IH]; intros b acc Ha; cbn [String.append dv]; [reflexivity|].
  cbn [all_s] in Ha. apply andb_true_iff in Ha. destruct Ha as [Hc Ha]. unfold is_digit in Hc.
  destruct (digit_of c) as [d|]; [|discriminate]. apply IH. exact Ha.
Qed.
Lemma dv_acc a : forall acc, all_s is_digit a = true ->
  dv a acc = (acc * 10 ^ N.of_nat (String.length a) + dv a 0)%N.
Proof.
  induction a as [|c a IH]; intros acc Ha; cbn [dv String.length].
  - cbn. lia.
  - cbn [all_s] in Ha. apply andb_true_iff in Ha. destruct Ha as [Hc Ha]. unfold is_digit in Hc.
    destruct (digit_of c) as [d|]; [|discriminate].
    rewrite (IH (acc * 10 + d)%N Ha), (IH (0 * 10 + d)%N Ha).
    rewrite Nat2N.inj_succ, N.pow_succ_r'. lia.
Qed.

Lemma uint_alldigit d : all_s is_digit (NilEmpty.string_of_uint d) = true.
Proof. induction d; cbn [NilEmpty.string_of_uint all_s]; [reflexivity|rewrite IHd; reflexivity ..]. Qed.
Lemma dv_uint d : forall acc, dv (NilEmpty.string_of_uint d) acc = uval d acc.
Proof.
  induction d; intro acc; cbn [NilEmpty.string_of_uint dv uval]; [reflexivity| ..];
    match goal with |- context [digit_of ?c] =>
      let v := eval vm_compute in (digit_of c) in change (digit_of c) with v end;
    cbv beta iota; apply IHd.
Qed.
Lemma uval_acc_pos d : forall p, uval d (N.pos p) = N.pos (Pos.of_uint_acc d p).
Proof.
  induction d; intro p; cbn [uval Pos.of_uint_acc]; [reflexivity| ..];
    rewrite <- IHd; f_equal; lia.
Qed.
Lemma uval_of_uint d : uval d 0 = N.of_uint d.
Proof.
  unfold N.of_uint. induction d; cbn [uval Pos.of_uint]; [reflexivity|exact IHd| ..];
    apply uval_acc_pos.
Qed.
Lemma to_uint_nonnil n : N.to_uint n <> Decimal.Nil.
Proof. destruct n as [|p]; cbn [N.to_uint]; [discriminate|apply Unsigned.to_uint_nonnil]. Qed.
Lemma digits_eq n : digits n = NilEmpty.string_of_uint (N.to_uint n).
Proof.
  unfold digits, NilZero.string_of_uint. pose proof (to_uint_nonnil n) as H.
  destruct (N.to_uint n); [congruence|reflexivity ..].
Qed.
Lemma digits_alldigit n : all_s is_digit (digits n) = true.
Proof. rewrite digits_eq. apply uint_alldigit. Qed.
Lemma dv_digits n : dv (digits n) 0 = n.
Proof. rewrite digits_eq, dv_uint, uval_of_uint. apply DecimalN.Unsigned.of_to. Qed.
Lemma digits_len n : exists k, String.length (digits n) = S k.
Proof.
  rewrite digits_eq. pose proof (to_uint_nonnil n) as H.
  destruct (N.to_uint n); [congruence| ..]; cbn [NilEmpty.string_of_uint String.length]; eexists; reflexivity.
Qed.

Lemma digit_not_ws c : is_digit c = true -> is_ws c = false.
Proof.
  unfold is_digit, digit_of, is_ws. set (n := nat_of_ascii c).
  destruct (Nat.leb 48 n && Nat.leb n 57) eqn:E; [|discriminate]. intros _.
  apply andb_true_iff in E. destruct E as [A B]. apply Nat.leb_le in A. apply Nat.leb_le in B.
  apply orb_false_iff. split; [apply Nat.eqb_neq; lia|].
  apply andb_false_iff. right. apply Nat.leb_gt. lia.
Qed.
Lemma digit_not_comment c r : is_digit c = true -> starts_comment (String c r) = false.
Proof.
  unfold is_digit, digit_of. set (n := nat_of_ascii c).
  destruct (Nat.leb 48 n && Nat.leb n 57) eqn:E; [|discriminate]. intros _.
  apply andb_true_iff in E. destruct E as [A B]. apply Nat.leb_le in A. apply Nat.leb_le in B.
  cbn [starts_comment]. 
  assert (G : forall d : ascii, (nat_of_ascii d < 48)%nat -> (c =? d)%char = false).
  { intros d Hd. apply Ascii.eqb_neq. intro. subst d. fold n in Hd. lia. }
  rewrite !G by (cbn; lia). reflexivity.
Qed.
Lemma alldigit_nows s : all_s is_digit s = true -> nows s = true.
Proof. apply all_s_impl. intros c H. apply negb_true_iff. apply digit_not_ws. exact H. Qed.
Lemma alldigit_tok s : s <> EmptyString -> all_s is_digit s = true -> tok s = true.
Proof.
  destruct s as [|c r]; [congruence|]. intros _ H. cbn [tok].
  rewrite (alldigit_nows _ H). cbn [all_s] in H. apply andb_true_iff in H.
  rewrite (digit_not_comment c r (proj1 H)). reflexivity.
Qed.
Lemma digits_tok n : tok (digits n) = true.
Proof.
  apply alldigit_tok; [|apply digits_alldigit]. destruct (digits_len n) as [k H].
  intro E. rewrite E in H. discriminate.
Qed.
Lemma digits_stop_plus n : match digits n with String "+" _ => False | _ => True end.
Proof.
  pose proof (digits_alldigit n) as H. destruct (digits n) as [|c r]; [exact Logic.I|].
  cbn [all_s] in H. apply andb_true_iff in H. destruct H as [H _].
  destruct c as [[] [] [] [] [] [] [] []]; try exact Logic.I. discriminate H.
Qed.
Theorem parse_usize_digits n : parse_usize (digits n) = Some n.
Proof.
  unfold parse_usize.
  replace (match digits n with String "+" r => r | _ => digits n end) with (digits n).
  - rewrite (read_digits_all _ _ _ (digits_alldigit n)), dv_digits.
    destruct (digits_len n) as [k ->]. reflexivity.
  - pose proof (digits_stop_plus n) as H. destruct (digits n) as [|c r]; [reflexivity|].
    destruct c as [[] [] [] [] [] [] [] []]; try reflexivity. destruct H.
Qed.

(* ================================================================== *)
(* 4. the cursor on rendered lines *)

(* [m] consumes exactly the lines [txt] (whatever follows, whatever the line counter) and
   returns [a] *)
Definition reads {A} (m : M A) (txt : list string) (a : A) : Prop :=
  forall rest n, exists n', m (txt ++ rest, n) = Ok (a, (rest, n')).

Lemma reads_pure {A} (m : M A) a : (forall c, m c = Ok (a, c)) -> reads m [] a.
Proof. intros H rest n. exists n. apply H. Qed.
Lemma reads_bind {A B} (m : M A) (f : A -> M B) t1 t2 a b :
  reads m t1 a -> reads (f a) t2 b -> reads (bind m f) (t1 ++ t2) b.
Proof.
  intros H1 H2 rest n. destruct (H1 (t2 ++ rest) n) as [n1 E1]. destruct (H2 rest n1) as [n2 E2].
  exists n2. unfold bind. rewrite <- app_assoc, E1. exact E2.
Qed.

Definition deco_ok (d : deco) : bool := forallb skippable (d_before d) && all_s is_ws (d_indent d).
Definition decos_ok (ds : list deco) : bool := forallb deco_ok ds.
Lemma plain_ok : deco_ok plain = true. Proof. reflexivity. Qed.
Lemma deco_ok_inv d : deco_ok d = true -> blanks (d_before d) /\ all_s is_ws (d_indent d) = true.
Proof.
  unfold deco_ok, blanks. rewrite andb_true_iff, forallb_forall, Forall_forall. tauto.
Qed.

Lemma render_word d r w :
  render_line d (LWord r w)
  = d_before d ++ [d_indent d +++ w +++ trail_of (d_tab d) (d_trail d)].
Proof. unfold render_line, trail_of. rewrite sepc_sep. reflexivity. Qed.
Lemma render_entry d fs :
  render_line d (LEntry fs)
  = d_before d ++ [join (String (sepc (d_tab d)) EmptyString) (map snd fs)
                   +++ trail_of (d_tab d) (d_trail d)].
Proof. unfold render_line, trail_of. rewrite sepc_sep. reflexivity. Qed.

Lemma reads_word {A} (p : pv A) d r w a :
  deco_ok d = true -> tok w = true -> (forall c, p w c = Ok (a, c)) ->
  reads (next_parse p) (render_line d (LWord r w)) a.
Proof.
  intros Hd Hw Hp rest n. destruct (deco_ok_inv d Hd) as [Hb Hi].
  rewrite render_word, <- app_assoc. cbn [app].
  rewrite (next_parse_at p (d_before d) _ rest n w Hb).
  - eexists. apply Hp.
  - apply line_not_skippable; assumption.
  - apply first_word_line; [assumption|assumption|apply trail_tail_ok].
Qed.

Lemma reads_split d fs : deco_ok d = true ->
  match fs with (_, f) :: _ => tok f = true | [] => False end ->
  Forall (fun f => fld_ok (snd f) = true) fs ->
  exists parts,
    reads (next_split_n (S (List.length fs))) (render_line d (LEntry fs)) parts
    /\ forall k, (k < List.length fs)%nat -> nth_error parts k = nth_error (map snd fs) k.
Proof.
  intros Hd H1 Hall. destruct (deco_ok_inv d Hd) as [Hb _].
  destruct fs as [|[r0 f0] fs']; [destruct H1|]. set (fs := (r0, f0) :: fs') in *.
  set (line := join (String (sepc (d_tab d)) EmptyString) (map snd fs)
               +++ trail_of (d_tab d) (d_trail d)).
  exists (until_comment (splitn (S (List.length fs)) line)). split.
  - intros rest n. rewrite render_entry, <- app_assoc. cbn [app]. fold line.
    unfold next_split_n, bind, expect_next. cbn [fst snd].
    rewrite (expect_next_skip (d_before d) line rest Hb); [eexists; reflexivity|].
    unfold line, fs. cbn [map snd]. destruct (join_head (String (sepc (d_tab d)) EmptyString) f0 (map snd fs')) as [x ->].
    rewrite app_assoc_s. apply tok_not_skippable. exact H1.
  - intros k Hk. unfold line. rewrite <- (map_length snd fs) in *.
    apply entry_fields; [unfold fs; discriminate| |exact Hk].
    apply Forall_map. exact Hall.
Qed.

Lemma idx_ok bound i c : (1 <= i <= N.of_nat bound)%N -> idx bound i c = Ok ((i - 1)%N, c).
Proof.
  intro H. unfold idx.
  replace ((i =? 0)%N || (N.of_nat bound <? i)%N) with false; [reflexivity|].
  symmetry. apply orb_false_iff. split; [apply N.eqb_neq; lia|apply N.ltb_ge; lia].
Qed.
Lemma p_usize_digits i c : p_usize (digits i) c = Ok (i, c).
Proof. unfold p_usize, of_opt. rewrite parse_usize_digits. reflexivity. Qed.

(* the four shapes of entry lines *)
Lemma reads_entry2 {A} (p : pv A) bound d r i s v :
  deco_ok d = true -> (1 <= i <= N.of_nat bound)%N -> fld_ok s = true ->
  (forall c, p s c = Ok (v, c)) ->
  reads (dom parts <- next_split_n 3;
         dom i <- field parts 0 p_usize;
         dom v <- field parts 1 p;
         dom k <- idx bound i;
         ret (k, v))
        (render_line d (LEntry [(RIdx, digits i); (r, s)])) ((i - 1)%N, v).
Proof.
  intros Hd Hi Hs Hp rest n.
  destruct (reads_split d [(RIdx, digits i); (r, s)] Hd (digits_tok i)) as (parts & Hr & Hn).
  { repeat constructor; [apply tok_fld_ok, digits_tok|exact Hs]. }
  destruct (Hr rest n) as [n' E]. exists n'. cbn [List.length] in E. unfold bind. rewrite E.
  unfold field. rewrite (Hn 0%nat), (Hn 1%nat) by (cbn; lia). cbn [nth_error map snd].
  rewrite p_usize_digits, Hp, (idx_ok _ _ _ Hi). reflexivity.
Qed.
Lemma reads_entry3 (p : pv num) bound d i j s v :
  deco_ok d = true -> (1 <= i <= N.of_nat bound)%N -> (1 <= j <= N.of_nat bound)%N ->
  fld_ok s = true -> (forall c, p s c = Ok (v, c)) ->
  reads (dom parts <- next_split_n 4;
         dom i <- field parts 0 p_usize;
         dom j <- field parts 1 p_usize;
         dom v <- field parts 2 p;
         dom i' <- idx bound i;
         dom j' <- idx bound j;
         ret ((i', j'), v))
        (render_line d (LEntry [(RIdx, digits i); (RIdx, digits j); (RNum, s)]))
        (((i - 1)%N, (j - 1)%N), v).
Proof.
  intros Hd Hi Hj Hs Hp rest n.
  destruct (reads_split d [(RIdx, digits i); (RIdx, digits j); (RNum, s)] Hd (digits_tok i))
    as (parts & Hr & Hn).
  { repeat constructor; try (apply tok_fld_ok, digits_tok). exact Hs. }
  destruct (Hr rest n) as [n' E]. exists n'. cbn [List.length] in E. unfold bind. rewrite E.
  unfold field. rewrite (Hn 0%nat), (Hn 1%nat), (Hn 2%nat) by (cbn; lia). cbn [nth_error map snd].
  rewrite !p_usize_digits, Hp, (idx_ok _ _ _ Hi), (idx_ok _ _ _ Hj). reflexivity.
Qed.
Lemma reads_entry3m (p : pv num) size bound d k i s v :
  deco_ok d = true -> (1 <= k <= N.of_nat size)%N -> (1 <= i <= N.of_nat bound)%N ->
  fld_ok s = true -> (forall c, p s c = Ok (v, c)) ->
  reads (dom parts <- next_split_n 4;
         dom m <- field parts 0 p_usize;
         dom i <- field parts 1 p_usize;
         dom v <- field parts 2 p;
         dom m' <- idx size m;
         dom i' <- idx bound i;
         ret (m', i', v))
        (render_line d (LEntry [(RIdx, digits k); (RIdx, digits i); (RNum, s)]))
        ((k - 1)%N, (i - 1)%N, v).
Proof.
  intros Hd Hk Hi Hs Hp rest n.
  destruct (reads_split d [(RIdx, digits k); (RIdx, digits i); (RNum, s)] Hd (digits_tok k))
    as (parts & Hr & Hn).
  { repeat constructor; try (apply tok_fld_ok, digits_tok). exact Hs. }
  destruct (Hr rest n) as [n' E]. exists n'. cbn [List.length] in E. unfold bind. rewrite E.
  unfold field. rewrite (Hn 0%nat), (Hn 1%nat), (Hn 2%nat) by (cbn; lia). cbn [nth_error map snd].
  rewrite !p_usize_digits, Hp, (idx_ok _ _ _ Hk), (idx_ok _ _ _ Hi). reflexivity.
Qed.
Lemma reads_entry4 (p : pv num) size bound d k i j s v :
  deco_ok d = true -> (1 <= k <= N.of_nat size)%N -> (1 <= i <= N.of_nat bound)%N ->
  (1 <= j <= N.of_nat bound)%N -> fld_ok s = true -> (forall c, p s c = Ok (v, c)) ->
  reads (dom parts <- next_split_n 5;
         dom m <- field parts 0 p_usize;
         dom i <- field parts 1 p_usize;
         dom j <- field parts 2 p_usize;
         dom v <- field parts 3 p;
         dom m' <- idx size m;
         dom i' <- idx bound i;
         dom j' <- idx bound j;
         ret (m', (i', j'), v))
        (render_line d (LEntry [(RIdx, digits k); (RIdx, digits i); (RIdx, digits j); (RNum, s)]))
        ((k - 1)%N, ((i - 1)%N, (j - 1)%N), v).
Proof.
  intros Hd Hk Hi Hj Hs Hp rest n.
  destruct (reads_split d [(RIdx, digits k); (RIdx, digits i); (RIdx, digits j); (RNum, s)] Hd
              (digits_tok k)) as (parts & Hr & Hn).
  { repeat constructor; try (apply tok_fld_ok, digits_tok). exact Hs. }
  destruct (Hr rest n) as [n' E]. exists n'. cbn [List.length] in E. unfold bind. rewrite E.
  unfold field. rewrite (Hn 0%nat), (Hn 1%nat), (Hn 2%nat), (Hn 3%nat) by (cbn; lia).
  cbn [nth_error map snd].
  rewrite !p_usize_digits, Hp, (idx_ok _ _ _ Hk), (idx_ok _ _ _ Hi), (idx_ok _ _ _ Hj). reflexivity.
Qed.

(* logical lines under any run of well-formed decorations *)
Definition readsL {A} (m : M A) (ls : list lline) (a : A) : Prop :=
  forall ds, decos_ok ds = true -> reads m (render_lines ds ls) a.

Lemma render_lines_app : forall a ds b,
  render_lines ds (a ++ b) = render_lines ds a ++ render_lines (skipn (List.length a) ds) b.
Proof.
  induction a as [|l a IH]; intros ds b; [reflexivity|].
  cbn [app render_lines List.length]. destruct ds as [|d ds]; cbn [skipn]; rewrite IH, <- app_assoc.
  - rewrite skipn_nil. reflexivity.
  - reflexivity.
Qed.
Lemma decos_ok_skipn k : forall ds, decos_ok ds = true -> decos_ok (skipn k ds) = true.
Proof.
  induction k as [|k IH]; intros ds H; [exact H|]. destruct ds as [|d ds]; [reflexivity|].
  cbn [skipn]. apply IH. cbn [decos_ok forallb] in H. apply andb_true_iff in H. exact (proj2 H).
Qed.

Lemma readsL_pure {A} (m : M A) a : (forall c, m c = Ok (a, c)) -> readsL m [] a.
Proof. intros H ds _. apply reads_pure. exact H. Qed.
Lemma readsL_bind {A B} (m : M A) (f : A -> M B) l1 l2 a b :
  readsL m l1 a -> readsL (f a) l2 b -> readsL (bind m f) (l1 ++ l2) b.
Proof.
  intros H1 H2 ds Hds. rewrite render_lines_app. apply (reads_bind m f _ _ a b).
  - apply H1. exact Hds.
  - apply H2. apply decos_ok_skipn. exact Hds.
Qed.
Lemma readsL_map {A B} (m : M A) (g : A -> B) l a :
  readsL m l a -> readsL (bind m (fun x => ret (g x))) l (g a).
Proof.
  intro H. rewrite <- (List.app_nil_r l). apply (readsL_bind m _ l [] a); [exact H|].
  apply readsL_pure. reflexivity.
Qed.
Lemma readsL_one {A} (m : M A) l a :
  (forall d, deco_ok d = true -> reads m (render_line d l) a) -> readsL m [l] a.
Proof.
  intros H ds Hds. cbn [render_lines]. destruct ds as [|d ds]; rewrite List.app_nil_r.
  - apply H. exact plain_ok.
  - apply H. cbn [decos_ok forallb] in Hds. apply andb_true_iff in Hds. exact (proj1 Hds).
Qed.
Lemma readsL_word {A} (p : pv A) r w a :
  tok w = true -> (forall c, p w c = Ok (a, c)) -> readsL (next_parse p) [LWord r w] a.
Proof. intros Hw Hp. apply readsL_one. intros d Hd. apply reads_word; assumption. Qed.
Lemma readsL_count {X} (l : list X) :
  readsL (next_parse p_usize) [count l] (N.of_nat (List.length l)).
Proof. apply readsL_word; [apply digits_tok|apply p_usize_digits]. Qed.

Lemma readsL_repeat {A X} (m : M A) (line : X -> lline) (vl : X -> A) xs :
  Forall (fun x => readsL m [line x] (vl x)) xs ->
  readsL (repeatM (List.length xs) m) (map line xs) (map vl xs).
Proof.
  induction 1 as [|x xs Hx _ IH]; cbn [List.length repeatM map].
  - apply readsL_pure. reflexivity.
  - change (line x :: map line xs) with ([line x] ++ map line xs).
    apply (readsL_bind m _ _ _ (vl x)); [exact Hx|].
    apply (readsL_map (repeatM (List.length xs) m) (fun l => vl x :: l)). exact IH.
Qed.

(* ================================================================== *)
(* 5. every section reader on the section written by [llines] *)

Definition in_range (bound : nat) (i : N) : bool := (1 <=? i)%N && (i <=? N.of_nat bound)%N.
Lemma in_range_spec bound i : in_range bound i = true -> (1 <= i <= N.of_nat bound)%N.
Proof. unfold in_range. rewrite andb_true_iff, !N.leb_le. tauto. Qed.
Definition is_dec (x : snum) : bool := match x with SDec _ _ _ _ => true | SInf _ => false end.

(* index shift of the format (1-based) to the tables of the reader (0-based) *)
Definition sh1 {A B} (f : A -> B) (l : list (N * A)) : list (N * B) :=
  map (fun e => ((fst e - 1)%N, f (snd e))) l.
Definition sh2 (l : list (N * N * snum)) : list (N * N * num) :=
  map (fun e => let '(i, j, v) := e in (((i - 1)%N, (j - 1)%N), sfin v)) l.
Definition sh2m (l : list (N * N * snum)) : list (N * N * num) :=
  map (fun e => let '(k, i, v) := e in ((k - 1)%N, (i - 1)%N, sfin v)) l.
Definition sh3m (l : list (N * N * N * snum)) : list (N * (N * N) * num) :=
  map (fun e => let '(k, i, j, v) := e in ((k - 1)%N, ((i - 1)%N, (j - 1)%N), sfin v)) l.
Definition dense {A B} (f : A -> B) (size : nat) (d : A) (l : list (N * A)) : list B :=
  fold_left (fun out kv => set_nth (N.to_nat (fst kv)) (snd kv) out) (sh1 f l) (repeat (f d) size).

(* an entry "i value" a section reader accepts *)
Definition ent_ok {A B} (bound : nat) (p : pv A) (pr : B -> string) (vl : B -> A) (e : N * B)
  : Prop :=
  in_range bound (fst e) = true /\ fld_ok (pr (snd e)) = true
  /\ forall c, p (pr (snd e)) c = Ok (vl (snd e), c).

Lemma sec_i_val {A B} bound (p : pv A) r (pr : B -> string) (vl : B -> A) (l : list (N * B)) :
  Forall (ent_ok bound p pr vl) l ->
  readsL (collect_i_val bound p)
         (count l :: map (fun e => LEntry [(RIdx, digits (fst e)); (r, pr (snd e))]) l)
         (of_entries N.eqb (sh1 vl l)).
Proof.
  intro H. unfold collect_i_val.
  change (count l :: ?x) with ([count l] ++ x).
  eapply readsL_bind; [apply readsL_count|]. cbv beta. rewrite Nat2N.id.
  apply (readsL_map _ (of_entries N.eqb)). unfold sh1. apply readsL_repeat.
  eapply Forall_impl; [|exact H]. intros e (Hi & Hs & Hp). apply readsL_one. intros d Hd.
  apply reads_entry2; [exact Hd|apply in_range_spec; exact Hi|exact Hs|exact Hp].
Qed.

Lemma sec_list {A B} size (p : pv A) r0 r (pr : B -> string) (vl : B -> A) d (l : list (N * B)) :
  tok (pr d) = true -> (forall c, p (pr d) c = Ok (vl d, c)) ->
  Forall (ent_ok size p pr vl) l ->
  readsL (collect_list size p)
         (LWord r0 (pr d) :: count l
            :: map (fun e => LEntry [(RIdx, digits (fst e)); (r, pr (snd e))]) l)
         (dense vl size d l).
Proof.
  intros Hd Hpd H. unfold collect_list.
  change (LWord r0 (pr d) :: count l :: ?x) with ([LWord r0 (pr d)] ++ [count l] ++ x).
  eapply readsL_bind; [apply readsL_word; [exact Hd|exact Hpd]|].
  eapply readsL_bind; [apply readsL_count|]. cbv beta. rewrite Nat2N.id.
  unfold dense.
  apply (readsL_map _ (fun es => fold_left (fun out kv => set_nth (N.to_nat (fst kv)) (snd kv) out)
                                    es (repeat (vl d) size))).
  unfold sh1. apply readsL_repeat.
  eapply Forall_impl; [|exact H]. intros e (Hi & Hs & Hp). apply readsL_one. intros d0 Hd0.
  apply reads_entry2; [exact Hd0|apply in_range_spec; exact Hi|exact Hs|exact Hp].
Qed.

Section Numbers.
  (* the literals the theorem is about, and what is needed of printing / reading them *)
  Variable num_ok : snum -> bool.
  Hypothesis num_tok : forall x, num_ok x = true -> tok (print_snum x) = true.
  Hypothesis num_parse : forall x, num_ok x = true -> parse_f64 (print_snum x) = Some (sval x).

  Definition coef_ok (x : snum) : bool := num_ok x && is_dec x.

  Lemma p_ext_print x c : num_ok x = true -> p_ext (print_snum x) c = Ok (sval x, c).
  Proof. intro H. unfold p_ext, of_opt. rewrite (num_parse x H). reflexivity. Qed.
  Lemma p_num_print x c : coef_ok x = true -> p_num (print_snum x) c = Ok (sfin x, c).
  Proof.
    unfold coef_ok. rewrite andb_true_iff. intros [H D]. unfold p_num, bind.
    rewrite (p_ext_print x c H). destruct x as [b|b m e st]; [discriminate|]. reflexivity.
  Qed.

  Lemma ent_ext bound l :
    forallb (fun e => in_range bound (fst e) && num_ok (snd e)) l = true ->
    Forall (ent_ok bound p_ext print_snum sval) l.
  Proof.
    rewrite forallb_forall, Forall_forall. intros H e He. specialize (H e He).
    apply andb_true_iff in H. destruct H as [Hi Hn]. split; [exact Hi|]. split.
    - apply tok_fld_ok, num_tok, Hn.
    - intro c. apply p_ext_print. exact Hn.
  Qed.
  Lemma ent_num bound l :
    forallb (fun e => in_range bound (fst e) && coef_ok (snd e)) l = true ->
    Forall (ent_ok bound p_num print_snum sfin) l.
  Proof.
    rewrite forallb_forall, Forall_forall. intros H e He. specialize (H e He).
    apply andb_true_iff in H. destruct H as [Hi Hn]. split; [exact Hi|]. split.
    - apply tok_fld_ok, num_tok. unfold coef_ok in Hn. apply andb_true_iff in Hn. exact (proj1 Hn).
    - intro c. apply p_num_print. exact Hn.
  Qed.

  Lemma sec_ij n (l : list (N * N * snum)) :
    forallb (fun e => let '(i, j, v) := e in in_range n i && in_range n j && coef_ok v) l = true ->
    readsL (collect_ij_val n)
      (count l :: map (fun e => let '(i, j, v) := e in
                         LEntry [(RIdx, digits i); (RIdx, digits j); (RNum, print_snum v)]) l)
      (of_entries pair_eqb (sh2 l)).
  Proof.
    intro H. unfold collect_ij_val.
    change (count l :: ?x) with ([count l] ++ x).
    eapply readsL_bind; [apply readsL_count|]. cbv beta. rewrite Nat2N.id.
    apply (readsL_map _ (of_entries pair_eqb)). unfold sh2. apply readsL_repeat.
    rewrite forallb_forall in H. apply Forall_forall. intros [[i j] v] He. specialize (H _ He).
    cbv beta iota in H. rewrite !andb_true_iff in H. destruct H as [[Hi Hj] Hv].
    apply readsL_one. intros d Hd.
    apply reads_entry3; try (apply in_range_spec; assumption); [exact Hd| |].
    - apply tok_fld_ok, num_tok. unfold coef_ok in Hv. apply andb_true_iff in Hv. exact (proj1 Hv).
    - intro c. apply p_num_print. exact Hv.
  Qed.
  Lemma sec_mi size n (l : list (N * N * snum)) :
    forallb (fun e => let '(k, i, v) := e in in_range size k && in_range n i && coef_ok v) l = true ->
    readsL (collect_list_of_i_val size n)
      (count l :: map (fun e => let '(k, i, v) := e in
                         LEntry [(RIdx, digits k); (RIdx, digits i); (RNum, print_snum v)]) l)
      (fold_left (put_in N.eqb) (sh2m l) (repeat [] size)).
  Proof.
    intro H. unfold collect_list_of_i_val.
    change (count l :: ?x) with ([count l] ++ x).
    eapply readsL_bind; [apply readsL_count|]. cbv beta. rewrite Nat2N.id.
    apply (readsL_map _ (fun es => fold_left (put_in N.eqb) es (repeat [] size))).
    unfold sh2m. apply readsL_repeat.
    rewrite forallb_forall in H. apply Forall_forall. intros [[k i] v] He. specialize (H _ He).
    cbv beta iota in H. rewrite !andb_true_iff in H. destruct H as [[Hk Hi] Hv].
    apply readsL_one. intros d Hd.
    apply reads_entry3m; try (apply in_range_spec; assumption); [exact Hd| |].
    - apply tok_fld_ok, num_tok. unfold coef_ok in Hv. apply andb_true_iff in Hv. exact (proj1 Hv).
    - intro c. apply p_num_print. exact Hv.
  Qed.
  Lemma sec_mij size n (l : list (N * N * N * snum)) :
    forallb (fun e => let '(k, i, j, v) := e in
                      in_range size k && in_range n i && in_range n j && coef_ok v) l = true ->
    readsL (collect_list_of_ij_val size n)
      (count l :: map (fun e => let '(k, i, j, v) := e in
                         LEntry [(RIdx, digits k); (RIdx, digits i); (RIdx, digits j);
                                 (RNum, print_snum v)]) l)
      (fold_left (put_in pair_eqb) (sh3m l) (repeat [] size)).
  Proof.
    intro H. unfold collect_list_of_ij_val.
    change (count l :: ?x) with ([count l] ++ x).
    eapply readsL_bind; [apply readsL_count|]. cbv beta. rewrite Nat2N.id.
    apply (readsL_map _ (fun es => fold_left (put_in pair_eqb) es (repeat [] size))).
    unfold sh3m. apply readsL_repeat.
    rewrite forallb_forall in H. apply Forall_forall. intros [[[k i] j] v] He. specialize (H _ He).
    cbv beta iota in H. rewrite !andb_true_iff in H. destruct H as [[[Hk Hi] Hj] Hv].
    apply readsL_one. intros d Hd.
    apply reads_entry4; try (apply in_range_spec; assumption); [exact Hd| |].
    - apply tok_fld_ok, num_tok. unfold coef_ok in Hv. apply andb_true_iff in Hv. exact (proj1 Hv).
    - intro c. apply p_num_print. exact Hv.
  Qed.

  (* "default / count / entries" sections of numbers *)
  Definition dsec_ok (bound : nat) (d : snum) (l : list (N * snum)) : bool :=
    num_ok d && forallb (fun e => in_range bound (fst e) && num_ok (snd e)) l.
  Lemma sec_dsec_list size d l : dsec_ok size d l = true ->
    readsL (collect_list size p_ext) (dsec d l) (dense sval size d l).
  Proof.
    unfold dsec_ok. rewrite andb_true_iff. intros [Hd Hl].
    apply (sec_list size p_ext RNum RNum print_snum sval d l).
    - apply num_tok, Hd.
    - intro c. apply p_ext_print, Hd.
    - apply ent_ext, Hl.
  Qed.
  (* the same text read by "next_parse; collect_i_val" (starting points) *)
  Lemma sec_dsec_ival bound d l : dsec_ok bound d l = true ->
    readsL (dom _x <- next_parse p_ext; collect_i_val bound p_ext) (dsec d l)
           (of_entries N.eqb (sh1 sval l)).
  Proof.
    unfold dsec_ok. rewrite andb_true_iff. intros [Hd Hl]. unfold dsec.
    change (LWord RNum (print_snum d) :: ?x) with ([LWord RNum (print_snum d)] ++ x).
    eapply readsL_bind.
    - apply readsL_word; [apply num_tok, Hd|intro c; apply p_ext_print, Hd].
    - apply (sec_i_val bound p_ext RNum print_snum sval l). apply ent_ext, Hl.
  Qed.
End Numbers.

(* ================================================================== *)
(* 6. the whole file: [from_lines (render ly M) = Ok (file_of M)] *)

(* head lines *)
Lemma ptype_word o v c (b : bool) :
  let w := if b then map_s lower (ptype_string o v c) else ptype_string o v c in
  tok w = true /\ parse_ptype w = Some (o, v, c).
Proof. destruct o, v, c, b; vm_compute; split; reflexivity. Qed.
Lemma sense_word_ok s st :
  tok (sense_word s st) = true /\ parse_sense (sense_word s st) = Some s.
Proof. destruct s; destruct st as [|[|st]]; vm_compute; split; reflexivity. Qed.
Lemma vtype_tok t : tok (vtype_code t) = true.
Proof. destruct t; reflexivity. Qed.
Lemma vtype_parse t c : p_vtype (vtype_code t) c = Ok (t, c).
Proof. destruct t; reflexivity. Qed.

(* everything of [read_body] after the four head values *)
Definition read_rest (name : string) (ok : okind) (vk : vkind) (ck : ckind) (sense : sense)
  (n m : nat) : M qfile :=
  dom q0 <- (match ok with OL => ret [] | _ => collect_ij_val n end);
  dom b0d <- next_parse p_num;
  dom b0 <- collect_i_val n p_num;
  dom q0c <- next_parse p_num;
  dom qs <- (match ck with
             | CN | CB | CL => ret []
             | _ => collect_list_of_ij_val m n
             end);
  dom bs <- (if has_cons ck then collect_list_of_i_val m n else ret []);
  dom inf <- next_parse p_ext;
  dom cl <- (if has_cons ck then collect_list m p_ext else ret []);
  dom cu <- (if has_cons ck then collect_list m p_ext else ret []);
  dom lb <- (match vk with VB => ret (repeat (Fin 0) n) | _ => collect_list n p_ext end);
  dom ub <- (match vk with VB => ret (repeat (Fin 1) n) | _ => collect_list n p_ext end);
  dom listed <- (match vk with VM | VG => collect_list n p_vtype | _ => ret [] end);
  dom _x0d <- next_parse p_ext;
  dom _x0 <- collect_i_val n p_ext;
  dom _y0 <- (if has_cons ck
              then (dom d <- next_parse p_ext; dom l <- collect_i_val m p_ext; ret tt)
              else ret tt);
  dom _z0d <- next_parse p_ext;
  dom _z0 <- collect_i_val n p_ext;
  dom vnames <- collect_i_val n p_str;
  dom cnames <- collect_i_val m p_str;
  ret {| f_name := name; f_ok := ok; f_vk := vk; f_ck := ck; f_sense := sense;
         f_nvars := n; f_ncons := m;
         f_vtypes := resolve_types vk n lb ub listed;
         f_q0 := q0; f_b0 := b0; f_q0c := q0c; f_qs := qs; f_bs := bs;
         f_cl := cl; f_cu := cu; f_lb := lb; f_ub := ub; f_inf := inf; f_b0d := b0d;
         f_vnames := vnames; f_cnames := cnames |}.

Definition eff_m (M : qp_model) : nat := if has_cons (m_ck M) then m_m M else 0%nat.
Definition fq0 (M : qp_model) : list (N * N * num) :=
  match m_ok M with OL => [] | _ => of_entries pair_eqb (sh2 (m_q0 M)) end.
Definition fqs (M : qp_model) : list (list (N * N * num)) :=
  if has_quad_cons (m_ck M)
  then fold_left (put_in pair_eqb) (sh3m (m_qs M)) (repeat [] (eff_m M)) else [].
Definition fbs (M : qp_model) : list (list (N * num)) :=
  if has_cons (m_ck M)
  then fold_left (put_in N.eqb) (sh2m (m_bs M)) (repeat [] (eff_m M)) else [].
Definition fcl (M : qp_model) : list ext :=
  if has_cons (m_ck M) then dense sval (eff_m M) (m_cld M) (m_cl M) else [].
Definition fcu (M : qp_model) : list ext :=
  if has_cons (m_ck M) then dense sval (eff_m M) (m_cud M) (m_cu M) else [].
Definition flb (M : qp_model) : list ext :=
  match m_vk M with VB => repeat (Fin 0) (m_n M) | _ => dense sval (m_n M) (m_ld M) (m_l M) end.
Definition fub (M : qp_model) : list ext :=
  match m_vk M with VB => repeat (Fin 1) (m_n M) | _ => dense sval (m_n M) (m_ud M) (m_u M) end.
Definition flisted (M : qp_model) : list vtype :=
  match m_vk M with
  | VM | VG => dense (fun t : vtype => t) (m_n M) (m_td M) (m_t M)
  | _ => []
  end.
(* the tables the reader builds from the text of [M] *)
Definition file_of (M : qp_model) : qfile :=
  {| f_name := m_name M; f_ok := m_ok M; f_vk := m_vk M; f_ck := m_ck M; f_sense := m_sense M;
     f_nvars := m_n M; f_ncons := eff_m M;
     f_vtypes := resolve_types (m_vk M) (m_n M) (flb M) (fub M) (flisted M);
     f_q0 := fq0 M; f_b0 := of_entries N.eqb (sh1 sfin (m_b0 M)); f_q0c := sfin (m_q0c M);
     f_qs := fqs M; f_bs := fbs M; f_cl := fcl M; f_cu := fcu M; f_lb := flb M; f_ub := fub M;
     f_inf := sval (m_inf M); f_b0d := sfin (m_b0d M);
     f_vnames := of_entries N.eqb (sh1 (fun s : string => s) (m_vnames M));
     f_cnames := of_entries N.eqb (sh1 (fun s : string => s) (m_cnames M)) |}.

(* the logical lines, one segment per reader step *)
Definition ents (l : list (N * snum)) : list lline := count l :: map e_i_num l.
Definition body_lines (M : qp_model) : list lline :=
  let hc := has_cons (m_ck M) in
  (match m_ok M with
   | OL => []
   | _ => count (m_q0 M)
          :: map (fun e => let '(i, j, v) := e in
                   LEntry [(RIdx, digits i); (RIdx, digits j); (RNum, print_snum v)]) (m_q0 M)
   end)
  ++ [LWord RNum (print_snum (m_b0d M))] ++ ents (m_b0 M)
  ++ [LWord RNum (print_snum (m_q0c M))]
  ++ (if has_quad_cons (m_ck M)
      then count (m_qs M)
           :: map (fun e => let '(k, i, j, v) := e in
                    LEntry [(RIdx, digits k); (RIdx, digits i); (RIdx, digits j);
                            (RNum, print_snum v)]) (m_qs M)
      else [])
  ++ (if hc
      then count (m_bs M)
           :: map (fun e => let '(k, i, v) := e in
                    LEntry [(RIdx, digits k); (RIdx, digits i); (RNum, print_snum v)]) (m_bs M)
      else [])
  ++ [LWord RNum (print_snum (m_inf M))]
  ++ (if hc then dsec (m_cld M) (m_cl M) else [])
  ++ (if hc then dsec (m_cud M) (m_cu M) else [])
  ++ (match m_vk M with VB => [] | _ => dsec (m_ld M) (m_l M) end)
  ++ (match m_vk M with VB => [] | _ => dsec (m_ud M) (m_u M) end)
  ++ (match m_vk M with
      | VM | VG =>
          LWord RVType (vtype_code (m_td M)) :: count (m_t M)
          :: map (fun e => LEntry [(RIdx, digits (fst e)); (RVType, vtype_code (snd e))]) (m_t M)
      | _ => []
      end)
  ++ [LWord RNum (print_snum (m_x0d M))] ++ ents (m_x0 M)
  ++ (if hc then dsec (m_y0d M) (m_y0 M) else [])
  ++ [LWord RNum (print_snum (m_z0d M))] ++ ents (m_z0 M)
  ++ nsec (m_vnames M)
  ++ nsec (m_cnames M).
Lemma llines_eq cl ss M :
  llines cl ss M
  = [LWord RName (m_name M)]
    ++ [LWord RType (if cl then map_s lower (ptype_string (m_ok M) (m_vk M) (m_ck M))
                     else ptype_string (m_ok M) (m_vk M) (m_ck M))]
    ++ [LWord RSense (sense_word (m_sense M) ss)]
    ++ [LWord RCount (digits (N.of_nat (m_n M)))]
    ++ (if has_cons (m_ck M) then [LWord RCount (digits (N.of_nat (m_m M)))] else [])
    ++ body_lines M.
Proof.
  unfold llines, body_lines, ents, dsec. cbv zeta.
  destruct (has_cons (m_ck M)); destruct (m_vk M); cbn [app];
    rewrite <- ?app_assoc; cbn [app]; reflexivity.
Qed.

Section Reading.
  Variable num_ok : snum -> bool.
  Hypothesis num_tok : forall x, num_ok x = true -> tok (print_snum x) = true.
  Hypothesis num_parse : forall x, num_ok x = true -> parse_f64 (print_snum x) = Some (sval x).
  Notation coef_ok := (coef_ok num_ok).
  Notation dsec_ok := (dsec_ok num_ok).

  Definition names_ok (bound : nat) (l : list (N * string)) : bool :=
    forallb (fun e => in_range bound (fst e) && fld_ok (snd e)) l.

  (* what the text of [M] must satisfy to be a QPLIB text at all: the name is one word, every
     index is within the declared sizes, coefficients are finite numbers, names are single
     fields; sections that the type code leaves out are unconstrained *)
  Definition wf_read (M : qp_model) : bool :=
    let n := m_n M in
    let m := eff_m M in
    let hc := has_cons (m_ck M) in
    tok (m_name M)
    && (match m_ok M with
        | OL => true
        | _ => forallb (fun e => let '(i, j, v) := e in
                                 in_range n i && in_range n j && coef_ok v) (m_q0 M)
        end)
    && coef_ok (m_b0d M)
    && forallb (fun e => in_range n (fst e) && coef_ok (snd e)) (m_b0 M)
    && coef_ok (m_q0c M)
    && (if has_quad_cons (m_ck M)
        then forallb (fun e => let '(k, i, j, v) := e in
                               in_range m k && in_range n i && in_range n j && coef_ok v) (m_qs M)
        else true)
    && (if hc
        then forallb (fun e => let '(k, i, v) := e in
                               in_range m k && in_range n i && coef_ok v) (m_bs M)
        else true)
    && num_ok (m_inf M)
    && (if hc then dsec_ok m (m_cld M) (m_cl M) && dsec_ok m (m_cud M) (m_cu M) else true)
    && (match m_vk M with
        | VB => true
        | _ => dsec_ok n (m_ld M) (m_l M) && dsec_ok n (m_ud M) (m_u M)
        end)
    && (match m_vk M with
        | VM | VG => forallb (fun e => in_range n (fst e)) (m_t M)
        | _ => true
        end)
    && dsec_ok n (m_x0d M) (m_x0 M)
    && (if hc then dsec_ok m (m_y0d M) (m_y0 M) else true)
    && dsec_ok n (m_z0d M) (m_z0 M)
    && names_ok n (m_vnames M)
    && names_ok m (m_cnames M).

  Lemma ent_names bound l : names_ok bound l = true ->
    Forall (ent_ok bound p_str (fun s : string => s) (fun s : string => s)) l.
  Proof.
    unfold names_ok. rewrite forallb_forall, Forall_forall. intros H e He. specialize (H e He).
    apply andb_true_iff in H. destruct H as [Hi Hn]. split; [exact Hi|]. split; [exact Hn|].
    intro c. reflexivity.
  Qed.
  Lemma dsec_ok_inv bound d l : dsec_ok bound d l = true ->
    num_ok d = true /\ forallb (fun e => in_range bound (fst e) && num_ok (snd e)) l = true.
  Proof. unfold QplibRoundTrip.dsec_ok. rewrite andb_true_iff. tauto. Qed.

  Lemma reads_rest M : wf_read M = true ->
    readsL (read_rest (m_name M) (m_ok M) (m_vk M) (m_ck M) (m_sense M) (m_n M) (eff_m M))
           (body_lines M) (file_of M).
  Proof.
    unfold wf_read. cbv zeta. rewrite !andb_true_iff.
    intros (((((((((((((((Hname & Hq0) & Hb0d) & Hb0) & Hq0c) & Hqs) & Hbs) & Hinf) & Hc) & Hlu)
                & Ht) & Hx0) & Hy0) & Hz0) & Hvn) & Hcn).
    unfold read_rest, body_lines. cbv zeta.
    (* q0 *)
    apply (readsL_bind _ _ _ _ (fq0 M)).
    { unfold fq0. destruct (m_ok M); try (apply (sec_ij num_ok num_tok num_parse); exact Hq0). apply readsL_pure. reflexivity. }
    (* b0 default, b0, q0c *)
    apply (readsL_bind _ _ _ _ (sfin (m_b0d M))).
    { apply readsL_word; [apply num_tok; unfold QplibRoundTrip.coef_ok in Hb0d;
                          apply andb_true_iff in Hb0d; exact (proj1 Hb0d)|].
      intro c. apply (p_num_print num_ok num_parse). exact Hb0d. }
    apply (readsL_bind _ _ _ _ (of_entries N.eqb (sh1 sfin (m_b0 M)))).
    { apply (sec_i_val (m_n M) p_num RNum print_snum sfin).
      apply (ent_num num_ok num_tok num_parse). exact Hb0. }
    apply (readsL_bind _ _ _ _ (sfin (m_q0c M))).
    { apply readsL_word; [apply num_tok; unfold QplibRoundTrip.coef_ok in Hq0c;
                          apply andb_true_iff in Hq0c; exact (proj1 Hq0c)|].
      intro c. apply (p_num_print num_ok num_parse). exact Hq0c. }
    (* Q^i, b^i *)
    apply (readsL_bind _ _ _ _ (fqs M)).
    { unfold fqs. destruct (m_ck M); cbn [has_quad_cons] in *;
        try (apply readsL_pure; reflexivity); apply (sec_mij num_ok num_tok num_parse); exact Hqs. }
    apply (readsL_bind _ _ _ _ (fbs M)).
    { unfold fbs. destruct (has_cons (m_ck M)); [|apply readsL_pure; reflexivity].
      apply (sec_mi num_ok num_tok num_parse). exact Hbs. }
    (* infinity, c_l, c_u *)
    apply (readsL_bind _ _ _ _ (sval (m_inf M))).
    { apply readsL_word; [apply num_tok; exact Hinf|]. intro c.
      apply (p_ext_print num_ok num_parse). exact Hinf. }
    apply (readsL_bind _ _ _ _ (fcl M)).
    { unfold fcl. destruct (has_cons (m_ck M)); [|apply readsL_pure; reflexivity].
      apply andb_true_iff in Hc. apply (sec_dsec_list num_ok num_tok num_parse). exact (proj1 Hc). }
    apply (readsL_bind _ _ _ _ (fcu M)).
    { unfold fcu. destruct (has_cons (m_ck M)); [|apply readsL_pure; reflexivity].
      apply andb_true_iff in Hc. apply (sec_dsec_list num_ok num_tok num_parse). exact (proj2 Hc). }
    (* l, u, variable types *)
    apply (readsL_bind _ _ _ _ (flb M)).
    { unfold flb. destruct (m_vk M); try (apply readsL_pure; reflexivity);
        apply andb_true_iff in Hlu; apply (sec_dsec_list num_ok num_tok num_parse); exact (proj1 Hlu). }
    apply (readsL_bind _ _ _ _ (fub M)).
    { unfold fub. destruct (m_vk M); try (apply readsL_pure; reflexivity);
        apply andb_true_iff in Hlu; apply (sec_dsec_list num_ok num_tok num_parse); exact (proj2 Hlu). }
    apply (readsL_bind _ _ _ _ (flisted M)).
    { unfold flisted. destruct (m_vk M); try (apply readsL_pure; reflexivity);
        (apply (sec_list (m_n M) p_vtype RVType RVType vtype_code (fun t : vtype => t));
         [apply vtype_tok|intro c; apply vtype_parse|]);
        rewrite forallb_forall in Ht; apply Forall_forall; intros e He;
        (split; [apply Ht; exact He|]); (split; [apply tok_fld_ok, vtype_tok|]);
        intro c; apply vtype_parse. }
    (* starting points *)
    destruct (dsec_ok_inv _ _ _ Hx0) as [Hx0d Hx0l].
    destruct (dsec_ok_inv _ _ _ Hz0) as [Hz0d Hz0l].
    apply (readsL_bind _ _ _ _ (sval (m_x0d M))).
    { apply readsL_word; [apply num_tok; exact Hx0d|]. intro c.
      apply (p_ext_print num_ok num_parse). exact Hx0d. }
    apply (readsL_bind _ _ _ _ (of_entries N.eqb (sh1 sval (m_x0 M)))).
    { apply (sec_i_val (m_n M) p_ext RNum print_snum sval).
      apply (ent_ext num_ok num_tok num_parse). exact Hx0l. }
    apply (readsL_bind _ _ _ _ tt).
    { destruct (has_cons (m_ck M)); [|apply readsL_pure; reflexivity].
      destruct (dsec_ok_inv _ _ _ Hy0) as [Hy0d Hy0l]. unfold dsec.
      change (LWord RNum (print_snum (m_y0d M)) :: ?x)
        with ([LWord RNum (print_snum (m_y0d M))] ++ x).
      apply (readsL_bind _ _ _ _ (sval (m_y0d M))).
      { apply readsL_word; [apply num_tok; exact Hy0d|]. intro c.
        apply (p_ext_print num_ok num_parse). exact Hy0d. }
      apply (readsL_map _ (fun _ => tt) _ (of_entries N.eqb (sh1 sval (m_y0 M)))).
      apply (sec_i_val _ p_ext RNum print_snum sval).
      apply (ent_ext num_ok num_tok num_parse). exact Hy0l. }
    apply (readsL_bind _ _ _ _ (sval (m_z0d M))).
    { apply readsL_word; [apply num_tok; exact Hz0d|]. intro c.
      apply (p_ext_print num_ok num_parse). exact Hz0d. }
    apply (readsL_bind _ _ _ _ (of_entries N.eqb (sh1 sval (m_z0 M)))).
    { apply (sec_i_val (m_n M) p_ext RNum print_snum sval).
      apply (ent_ext num_ok num_tok num_parse). exact Hz0l. }
    (* names *)
    apply (readsL_bind _ _ _ _ (of_entries N.eqb (sh1 (fun s : string => s) (m_vnames M)))).
    { apply (sec_i_val (m_n M) p_str RStr (fun s : string => s) (fun s : string => s)).
      apply ent_names. exact Hvn. }
    rewrite <- (List.app_nil_r (nsec (m_cnames M))).
    apply (readsL_bind _ _ _ _ (of_entries N.eqb (sh1 (fun s : string => s) (m_cnames M)))).
    { apply (sec_i_val (eff_m M) p_str RStr (fun s : string => s) (fun s : string => s)).
      apply ent_names. exact Hcn. }
    apply readsL_pure. intro c. reflexivity.
  Qed.

  Lemma wf_read_name M : wf_read M = true -> tok (m_name M) = true.
  Proof. unfold wf_read. cbv zeta. rewrite !andb_true_iff. tauto. Qed.

  Lemma reads_file cl ss M : wf_read M = true ->
    readsL read_file (llines cl ss M) (file_of M).
  Proof.
    intro H. rewrite llines_eq. unfold read_file.
    apply (readsL_bind _ _ _ _ (m_name M)).
    { apply readsL_word; [apply wf_read_name; exact H|intro c; reflexivity]. }
    unfold read_body.
    apply (readsL_bind _ _ _ _ (m_ok M, m_vk M, m_ck M)).
    { destruct (ptype_word (m_ok M) (m_vk M) (m_ck M) cl) as [A B].
      apply readsL_word; [exact A|]. intro c. unfold p_ptype, of_opt. rewrite B. reflexivity. }
    cbv beta iota.
    apply (readsL_bind _ _ _ _ (m_sense M)).
    { destruct (sense_word_ok (m_sense M) ss) as [A B].
      apply readsL_word; [exact A|]. intro c. unfold p_sense, of_opt. rewrite B. reflexivity. }
    apply (readsL_bind _ _ _ _ (N.of_nat (m_n M))).
    { apply readsL_word; [apply digits_tok|apply p_usize_digits]. }
    apply (readsL_bind _ _ _ _ (N.of_nat (eff_m M))).
    { unfold eff_m. destruct (has_cons (m_ck M)).
      - apply readsL_word; [apply digits_tok|apply p_usize_digits].
      - apply readsL_pure. reflexivity. }
    rewrite !Nat2N.id. exact (reads_rest M H).
  Qed.

  Definition layout_ok (ly : layout) : bool := decos_ok (ly_decos ly).

  (* the reader applied to the rendered text builds exactly the tables [file_of M] *)
  Theorem from_lines_render M ly : wf_read M = true -> layout_ok ly = true ->
    from_lines (render ly M) = Ok (file_of M).
  Proof.
    intros H Hl. unfold from_lines, render.
    destruct (reads_file (ly_code_lower ly) (ly_sense_style ly) M H (ly_decos ly) Hl
                         (ly_after ly) 0%nat) as [n' E].
    rewrite E. reflexivity.
  Qed.
End Reading.

(* ================================================================== *)
(* 7. the tables of [file_of M] in closed form (keys listed once) *)

Fixpoint nodup_by {K} (eqb : K -> K -> bool) (l : list K) : bool :=
  match l with
  | [] => true
  | x :: l' => negb (existsb (eqb x) l') && nodup_by eqb l'
  end.
Lemma nodup_by_spec {K} (eqb : K -> K -> bool) :
  (forall a b, eqb a b = true <-> a = b) -> forall l, nodup_by eqb l = true -> NoDup l.
Proof.
  intros Hs. induction l as [|x l IH]; cbn [nodup_by]; intro H; [constructor|].
  apply andb_true_iff in H. destruct H as [A B]. constructor; [|apply IH; exact B].
  intro Hin. apply negb_true_iff in A. assert (E : existsb (eqb x) l = true).
  { apply existsb_exists. exists x. split; [exact Hin|]. apply Hs. reflexivity. }
  congruence.
Qed.
Lemma pair_eqb_spec a b : pair_eqb a b = true <-> a = b.
Proof.
  unfold pair_eqb. destruct a as [a1 a2], b as [b1 b2]. cbn [fst snd].
  rewrite andb_true_iff, !N.eqb_eq. split; [intros [-> ->]; reflexivity|].
  intro E; inversion E; auto.
Qed.
Definition trip_eqb (a b : N * (N * N)) : bool := (fst a =? fst b)%N && pair_eqb (snd a) (snd b).
Lemma trip_eqb_spec a b : trip_eqb a b = true <-> a = b.
Proof.
  unfold trip_eqb. destruct a as [a1 a2], b as [b1 b2]. cbn [fst snd].
  rewrite andb_true_iff, N.eqb_eq, pair_eqb_spec. split; [intros [-> ->]; reflexivity|].
  intro E; inversion E; auto.
Qed.

Lemma NoDup_map_inj_in {X Y} (f : X -> Y) l :
  (forall x y, In x l -> In y l -> f x = f y -> x = y) -> NoDup l -> NoDup (map f l).
Proof.
  intros Hinj H. induction H as [|x l Hx Hl IH]; cbn [map]; constructor.
  - intro Hin. apply in_map_iff in Hin. destruct Hin as (y & E & Hy).
    assert (y = x) by (apply Hinj; [right; exact Hy|left; reflexivity|exact E]). subst y. contradiction.
  - apply IH. intros a b Ha Hb. apply Hinj; right; assumption.
Qed.

Section OfEntries.
  Context {K V : Type}.
  Variable keqb : K -> K -> bool.
  Hypothesis keqb_spec : forall a b, keqb a b = true <-> a = b.
  Lemma ains_fresh k (v : V) m : ~ In k (map fst m) -> ains keqb k v m = m ++ [(k, v)].
  Proof.
    induction m as [|[k0 v0] m IH]; cbn [ains map fst In app]; intro H; [reflexivity|].
    destruct (keqb k k0) eqn:E.
    - apply keqb_spec in E. subst k0. exfalso. apply H. left. reflexivity.
    - rewrite IH; [reflexivity|]. intro. apply H. right. assumption.
  Qed.
  Lemma of_entries_nodup (es : list (K * V)) : NoDup (map fst es) -> of_entries keqb es = es.
  Proof.
    unfold of_entries. intro H.
    assert (G : forall (es acc : list (K * V)), NoDup (map fst (acc ++ es)) ->
                fold_left (fun m kv => ains keqb (fst kv) (snd kv) m) es acc = acc ++ es).
    { clear es H. induction es as [|[k v] es IH]; intros acc H; cbn [fold_left fst snd].
      - rewrite List.app_nil_r. reflexivity.
      - rewrite ains_fresh.
        + rewrite IH; rewrite <- app_assoc; [reflexivity|exact H].
        + rewrite map_app in H. cbn [map fst] in H. apply NoDup_remove_2 in H.
          intro Hin. apply H. apply in_or_app. left. exact Hin. }
    apply (G es []). exact H.
  Qed.
End OfEntries.

(* 1-based keys, shifted *)
Lemma pred_inj (a b : N) : (1 <= a)%N -> (1 <= b)%N -> (a - 1 = b - 1)%N -> a = b.
Proof. lia. Qed.
Definition keys1 {A} (bound : nat) (l : list (N * A)) : Prop :=
  NoDup (map fst l) /\ Forall (fun e => (1 <= fst e <= N.of_nat bound)%N) l.

Lemma sh1_nodup {A B} (f : A -> B) bound l : keys1 bound l -> NoDup (map fst (sh1 f l)).
Proof.
  intros [Hn Hr]. unfold sh1. rewrite map_map. cbn [fst].
  rewrite <- (map_map fst (fun k => (k - 1)%N)). apply NoDup_map_inj_in; [|exact Hn].
  rewrite Forall_forall in Hr. intros x y Hx Hy. apply in_map_iff in Hx, Hy.
  destruct Hx as (ex & <- & Hex), Hy as (ey & <- & Hey).
  apply pred_inj; [apply (Hr _ Hex)|apply (Hr _ Hey)].
Qed.
Lemma sh1_of_entries {A B} (f : A -> B) bound l : keys1 bound l ->
  of_entries N.eqb (sh1 f l) = sh1 f l.
Proof. intro H. apply (of_entries_nodup N.eqb N.eqb_eq). apply (sh1_nodup f bound l H). Qed.
Lemma sh1_wf_tab {A B} (f : A -> B) bound l : keys1 bound l -> wf_tab bound (sh1 f l).
Proof.
  intro H. split; [apply (sh1_nodup f bound l H)|]. destruct H as [_ Hr]. unfold sh1.
  apply Forall_map. eapply Forall_impl; [|exact Hr]. intros e He. cbv beta in He. cbn [fst]. lia.
Qed.

Lemma aget_sh1 {A B} (f : A -> B) i l : Forall (fun e : N * A => (1 <= fst e)%N) l ->
  aget N.eqb (N.of_nat i) (sh1 f l) = option_map f (lookup_opt (N.of_nat (S i)) l).
Proof.
  unfold lookup_opt, sh1. induction 1 as [|[k a] l Hk _ IH]; cbn [map aget lookup fst snd]; [reflexivity|].
  cbn [fst] in Hk.
  replace (N.of_nat i =? k - 1)%N with (N.of_nat (S i) =? k)%N.
  - destruct (N.of_nat (S i) =? k)%N; [reflexivity|exact IH].
  - destruct (N.of_nat (S i) =? k)%N eqn:E.
    + apply N.eqb_eq in E. symmetry. apply N.eqb_eq. lia.
    + apply N.eqb_neq in E. symmetry. apply N.eqb_neq. lia.
Qed.
Lemma lookup_as_opt {A} i (l : list (N * A)) d :
  lookup i l d = match lookup_opt i l with Some a => a | None => d end.
Proof.
  unfold lookup_opt. induction l as [|[k a] l IH]; cbn [map lookup fst snd]; [reflexivity|].
  destruct (i =? k)%N; [reflexivity|exact IH].
Qed.

Lemma repeat_as_map {A} (x : A) n : repeat x n = map (fun _ => x) (seq 0 n).
Proof.
  assert (G : forall s, repeat x n = map (fun _ => x) (seq s n)).
  { induction n as [|n IH]; intro s; cbn [repeat seq map]; [reflexivity|]. rewrite (IH (S s)). reflexivity. }
  apply G.
Qed.
Lemma fold_set_nth {A} (es : list (N * A)) n : NoDup (map fst es) -> forall h : nat -> A,
  fold_left (fun out kv => set_nth (N.to_nat (fst kv)) (snd kv) out) es (map h (seq 0 n))
  = map (fun i => match aget N.eqb (N.of_nat i) es with Some c => c | None => h i end) (seq 0 n).
Proof.
  induction es as [|[k c] es IH]; intros Hnd h; cbn [fold_left aget]; [reflexivity|].
  inversion Hnd as [|? ? Hnot Hnd']; subst. cbn [fst snd].
  rewrite (set_nth_map h c n 0 (N.to_nat k)). cbn [plus].
  rewrite (IH Hnd' (fun i => if Nat.eqb i (N.to_nat k) then c else h i)).
  apply map_ext. intro i.
  destruct (N.eqb (N.of_nat i) k) eqn:E.
  - apply N.eqb_eq in E. subst k. rewrite (aget_not_in _ _ Hnot).
    rewrite Nat2N.id, Nat.eqb_refl. reflexivity.
  - apply N.eqb_neq in E. destruct (Nat.eqb i (N.to_nat k)) eqn:E2; [|reflexivity].
    apply Nat.eqb_eq in E2. subst i. rewrite N2Nat.id in E. congruence.
Qed.
Lemma dense_spec {A B} (f : A -> B) size d l : keys1 size l ->
  dense f size d l = map (fun i => f (lookup (N.of_nat (S i)) l d)) (seq 0 size).
Proof.
  intro H. unfold dense. rewrite repeat_as_map.
  rewrite (fold_set_nth (sh1 f l) size (sh1_nodup f size l H)).
  apply map_ext. intro i. rewrite aget_sh1, lookup_as_opt.
  - destruct (lookup_opt (N.of_nat (S i)) l); reflexivity.
  - destruct H as [_ Hr]. eapply Forall_impl; [|exact Hr]. intros e He. cbv beta in He. lia.
Qed.

(* the per-constraint tables *)
Definition sel {K} (c : nat) (es : list (N * K * num)) : list (K * num) :=
  flat_map (fun e => if (fst (fst e) =? N.of_nat c)%N then [(snd (fst e), snd e)] else []) es.

Lemma nth_set_nth {A} (v d : A) : forall l i c, (i < List.length l)%nat ->
  nth c (set_nth i v l) d = if Nat.eqb c i then v else nth c l d.
Proof.
  induction l as [|x l IH]; intros i c Hi; cbn [List.length] in Hi; [lia|].
  destruct i as [|i], c as [|c]; cbn [set_nth nth Nat.eqb]; try reflexivity.
  apply IH. lia.
Qed.
Lemma list_as_map_nth {A} (d : A) l : l = map (fun c => nth c l d) (seq 0 (List.length l)).
Proof.
  induction l as [|x l IH]; cbn [List.length seq map nth]; [reflexivity|]. f_equal.
  rewrite <- seq_shift, map_map. exact IH.
Qed.
Lemma nth_repeat_nil {A} size c : nth c (repeat (@nil A) size) [] = [].
Proof.
  revert c. induction size as [|n IH]; intro c; destruct c; cbn [repeat nth]; try reflexivity. apply IH.
Qed.

Section PutIn.
  Context {K : Type}.
  Variable keqb : K -> K -> bool.
  Hypothesis keqb_spec : forall a b, keqb a b = true <-> a = b.

  Lemma sel_keys c (es : list (N * K * num)) k :
    In k (map fst (sel c es)) -> In (N.of_nat c, k) (map fst es).
  Proof.
    unfold sel. induction es as [|[[m k0] v] es IH]; cbn [flat_map map fst snd In]; [tauto|].
    destruct (m =? N.of_nat c)%N eqn:E; cbn [app map fst In].
    - apply N.eqb_eq in E. subst m. intros [<-|H]; [left; reflexivity|right; apply IH; exact H].
    - intro H. right. apply IH. exact H.
  Qed.

  Lemma sel_snoc c (es : list (N * K * num)) m k v :
    sel c (es ++ [(m, k, v)]) = sel c es ++ (if (m =? N.of_nat c)%N then [(k, v)] else []).
  Proof. unfold sel. rewrite flat_map_app. cbn [flat_map fst snd]. rewrite List.app_nil_r. reflexivity. Qed.

  Lemma put_in_spec size (es : list (N * K * num)) :
    NoDup (map fst es) -> Forall (fun e => (N.to_nat (fst (fst e)) < size)%nat) es ->
    fold_left (put_in keqb) es (repeat [] size) = map (fun c => sel c es) (seq 0 size).
  Proof.
    intros Hnd Hr.
    assert (G : List.length (fold_left (put_in keqb) es (repeat [] size)) = size
                /\ forall c, nth c (fold_left (put_in keqb) es (repeat [] size)) [] = sel c es).
    { revert Hnd Hr. induction es as [|e es IH] using rev_ind; intros Hnd Hr.
      - cbn [fold_left]. split; [apply repeat_length|]. intro c. apply nth_repeat_nil.
      - rewrite map_app in Hnd. cbn [map] in Hnd. apply Forall_app in Hr. destruct Hr as [Hr He].
        inversion He as [|? ? Hm _]; subst.
        assert (Hnd' : NoDup (map fst es)).
        { apply NoDup_remove_1 in Hnd. rewrite List.app_nil_r in Hnd. exact Hnd. }
        destruct (IH Hnd' Hr) as [Hlen Hnth].
        rewrite fold_left_app. cbn [fold_left].
        destruct e as [[m k] v]. cbn [fst snd] in *.
        change (put_in keqb ?o (m, k, v))
          with (set_nth (N.to_nat m) (ains keqb k v (nth (N.to_nat m) o [])) o).
        split; [rewrite set_nth_length; exact Hlen|]. intro c.
        rewrite nth_set_nth by (rewrite Hlen; exact Hm). rewrite !Hnth.
        rewrite sel_snoc. destruct (Nat.eqb c (N.to_nat m)) eqn:E.
        + apply Nat.eqb_eq in E. subst c. rewrite N2Nat.id, N.eqb_refl.
          apply (ains_fresh keqb keqb_spec). intro Hin. apply sel_keys in Hin.
          rewrite N2Nat.id in Hin. apply NoDup_remove_2 in Hnd. apply Hnd.
          rewrite List.app_nil_r. exact Hin.
        + apply Nat.eqb_neq in E. replace (m =? N.of_nat c)%N with false.
          * rewrite List.app_nil_r. reflexivity.
          * symmetry. apply N.eqb_neq. intro. subst m. rewrite Nat2N.id in E. congruence. }
    destruct G as [Hlen Hnth].
    rewrite (list_as_map_nth [] (fold_left (put_in keqb) es (repeat [] size))) at 1.
    rewrite Hlen. apply map_ext. exact Hnth.
  Qed.
End PutIn.

(* ================================================================== *)
(* 8. [convert (file_of M)] against [meaning M] *)
Require Import Ommx.RunC19.

Definition rng1 {A} (bound : nat) (l : list (N * A)) : bool :=
  forallb (fun e => in_range bound (fst e)) l.
Definition keys1b {A} (bound : nat) (l : list (N * A)) : bool :=
  nodup_by N.eqb (map fst l) && rng1 bound l.
Lemma keys1b_spec {A} bound (l : list (N * A)) : keys1b bound l = true -> keys1 bound l.
Proof.
  unfold keys1b, rng1, keys1. rewrite andb_true_iff. intros [Hn Hr]. split.
  - apply (nodup_by_spec N.eqb N.eqb_eq). exact Hn.
  - rewrite forallb_forall in Hr. apply Forall_forall. intros e He.
    apply in_range_spec. apply Hr. exact He.
Qed.

(* every index within the declared sizes and every key listed once, in the sections the
   type code uses and the meaning looks at *)
Definition wf_keys (M : qp_model) : bool :=
  let n := m_n M in
  let m := m_m M in
  let hc := has_cons (m_ck M) in
  (match m_ok M with
   | OL => true
   | _ => nodup_by pair_eqb (map (fun e => let '(i, j, _) := e in (i, j)) (m_q0 M))
          && forallb (fun e => let '(i, j, _) := e in in_range n i && in_range n j) (m_q0 M)
   end)
  && keys1b n (m_b0 M)
  && (if has_quad_cons (m_ck M)
      then nodup_by trip_eqb (map (fun e => let '(k, i, j, _) := e in (k, (i, j))) (m_qs M))
           && forallb (fun e => let '(k, i, j, _) := e in
                                in_range m k && in_range n i && in_range n j) (m_qs M)
      else true)
  && (if hc
      then nodup_by pair_eqb (map (fun e => let '(k, i, _) := e in (k, i)) (m_bs M))
           && forallb (fun e => let '(k, i, _) := e in in_range m k && in_range n i) (m_bs M)
      else true)
  && (if hc then keys1b m (m_cl M) && keys1b m (m_cu M) else true)
  && (match m_vk M with VB => true | _ => keys1b n (m_l M) && keys1b n (m_u M) end)
  && (match m_vk M with VM | VG => keys1b n (m_t M) | _ => true end)
  && keys1b n (m_vnames M).

(* ---- the infinity threshold and the 0/1 test, reader vs statement ---- *)
Lemma beyond_eleb thr v : eleb thr (eabs v) = beyond thr v.
Proof. destruct thr, v; reflexivity. Qed.
Lemma thr_lo_beyond thr v : thr_lo thr v = if beyond thr v then NInf else v.
Proof. unfold thr_lo, apply_thr. rewrite beyond_eleb. reflexivity. Qed.
Lemma thr_hi_beyond thr v : thr_hi thr v = if beyond thr v then PInf else v.
Proof. unfold thr_hi, apply_thr. rewrite beyond_eleb. reflexivity. Qed.
Lemma is01_fix l u : is01 l u = is_fix01 l u.
Proof.
  unfold is01, is_fix01. destruct l, u; cbn [eeqb]; rewrite ?andb_false_r, ?andb_false_l; reflexivity.
Qed.
Lemma sval_not_nan x : sval x <> NaN.
Proof. destruct x as [[|]|b m e s]; discriminate. Qed.
Lemma beyond_inf thr v : thr <> NaN -> v = PInf \/ v = NInf -> beyond thr v = true.
Proof. intros Ht [->| ->]; destruct thr; try reflexivity; congruence. Qed.

(* ---- lists tabulated over an index range ---- *)
Lemma itb_map (t : nat -> vtype) (l u : nat -> ext) : forall n s,
  integer_to_binary (map t (seq s n)) (map l (seq s n)) (map u (seq s n))
  = map (fun i => settle (t i) (l i) (u i)) (seq s n).
Proof.
  induction n as [|n IH]; intro s; cbn [seq map integer_to_binary]; [reflexivity|].
  rewrite IH. reflexivity.
Qed.
Lemma zip3e_map {X Y Z} (a : nat -> X) (b : nat -> Y) (c : nat -> Z) : forall n s,
  zip3e (map a (seq s n)) (map b (seq s n)) (map c (seq s n))
  = map (fun i => (a i, b i, c i)) (seq s n).
Proof.
  induction n as [|n IH]; intro s; cbn [seq map zip3e]; [reflexivity|]. rewrite IH. reflexivity.
Qed.
Lemma enumerate_map {X} (a : nat -> X) : forall n s,
  enumerate_from s (map a (seq s n)) = map (fun i => (i, a i)) (seq s n).
Proof.
  induction n as [|n IH]; intro s; cbn [seq map enumerate_from]; [reflexivity|]. rewrite IH. reflexivity.
Qed.

(* ---- variables ---- *)
Definition lo_of (M : qp_model) (i : nat) : ext :=
  match m_vk M with VB => Fin 0 | _ => sval (lookup (N.of_nat (S i)) (m_l M) (m_ld M)) end.
Definition hi_of (M : qp_model) (i : nat) : ext :=
  match m_vk M with VB => Fin 1 | _ => sval (lookup (N.of_nat (S i)) (m_u M) (m_ud M)) end.
Definition kind_of (M : qp_model) (i : nat) : vtype :=
  match m_vk M with
  | VC => TCont
  | VB => TBin
  | VI => settle TInt (lo_of M i) (hi_of M i)
  | VM | VG => settle (lookup (N.of_nat (S i)) (m_t M) (m_td M)) (lo_of M i) (hi_of M i)
  end.

Lemma wf_keys_lu M : wf_keys M = true ->
  match m_vk M with VB => True | _ => keys1 (m_n M) (m_l M) /\ keys1 (m_n M) (m_u M) end.
Proof.
  unfold wf_keys. cbv zeta. rewrite !andb_true_iff. intros (((((((_ & _) & _) & _) & _) & H) & _) & _).
  destruct (m_vk M); try exact Logic.I; apply andb_true_iff in H; destruct H as [A B];
    split; apply keys1b_spec; assumption.
Qed.
Lemma wf_keys_t M : wf_keys M = true ->
  match m_vk M with VM | VG => keys1 (m_n M) (m_t M) | _ => True end.
Proof.
  unfold wf_keys. cbv zeta. rewrite !andb_true_iff. intros (((((((_ & _) & _) & _) & _) & _) & H) & _).
  destruct (m_vk M); try exact Logic.I; apply keys1b_spec; assumption.
Qed.
Lemma wf_keys_vn M : wf_keys M = true -> keys1 (m_n M) (m_vnames M).
Proof.
  unfold wf_keys. cbv zeta. rewrite !andb_true_iff. intros (_ & H). apply keys1b_spec. exact H.
Qed.

Lemma flb_spec M : wf_keys M = true -> flb M = map (lo_of M) (seq 0 (m_n M)).
Proof.
  intro H. apply wf_keys_lu in H. unfold flb, lo_of.
  destruct (m_vk M); try (apply dense_spec; exact (proj1 H)). apply repeat_as_map.
Qed.
Lemma fub_spec M : wf_keys M = true -> fub M = map (hi_of M) (seq 0 (m_n M)).
Proof.
  intro H. apply wf_keys_lu in H. unfold fub, hi_of.
  destruct (m_vk M); try (apply dense_spec; exact (proj2 H)). apply repeat_as_map.
Qed.
Lemma vtypes_spec M : wf_keys M = true ->
  f_vtypes (file_of M) = map (kind_of M) (seq 0 (m_n M)).
Proof.
  intro H. cbn [f_vtypes file_of]. rewrite (flb_spec M H), (fub_spec M H).
  pose proof (wf_keys_t M H) as Ht. unfold resolve_types, flisted, kind_of.
  destruct (m_vk M).
  - apply repeat_as_map.
  - apply repeat_as_map.
  - rewrite (dense_spec (fun t : vtype => t) _ _ _ Ht). apply itb_map.
  - rewrite repeat_as_map. apply itb_map.
  - rewrite (dense_spec (fun t : vtype => t) _ _ _ Ht). apply itb_map.
Qed.

Definition dvar_abs (v : dvar) : avar :=
  {| av_id := dv_id v; av_kind := dv_kind v; av_lo := dv_lower v; av_hi := dv_upper v;
     av_name := dv_name v |}.

Theorem vars_eq M : wf_keys M = true ->
  map dvar_abs (convert_dvars (file_of M)) = map (var_of M) (ones (m_n M)).
Proof.
  intro H. unfold convert_dvars. rewrite (vtypes_spec M H).
  cbn [f_lb f_ub f_inf f_vnames file_of]. rewrite (flb_spec M H), (fub_spec M H).
  rewrite zip3e_map, enumerate_map. unfold ones. rewrite !map_map.
  apply map_ext. intro i. unfold dvar_abs, var_of. cbn [dv_id dv_kind dv_lower dv_upper dv_name].
  fold (lo_of M i) (hi_of M i).
  replace (N.of_nat (S i) - 1)%N with (N.of_nat i) by lia.
  rewrite thr_lo_beyond, thr_hi_beyond.
  rewrite (sh1_of_entries (fun s : string => s) _ _ (wf_keys_vn M H)).
  rewrite aget_sh1.
  2:{ destruct (wf_keys_vn M H) as [_ Hr]. eapply Forall_impl; [|exact Hr].
      intros e He. cbv beta in He. lia. }
  f_equal.
  - unfold kind_of, settle. rewrite is01_fix. destruct (m_vk M); try reflexivity;
      destruct (lookup (N.of_nat (S i)) (m_t M) (m_td M)); reflexivity.
  - destruct (lookup_opt (N.of_nat (S i)) (m_vnames M)); reflexivity.
Qed.

(* ---- shifted multi-index tables ---- *)
Lemma sh2_nodup (l : list (N * N * snum)) :
  NoDup (map (fun e => let '(i, j, _) := e in (i, j)) l) ->
  Forall (fun e => let '(i, j, _) := e in (1 <= i)%N /\ (1 <= j)%N) l ->
  NoDup (map fst (sh2 l)).
Proof.
  intros Hn Hr. unfold sh2. rewrite map_map.
  match goal with |- NoDup (map ?F ?l0) =>
    replace (map F l0) with (map (fun p : N * N => ((fst p - 1)%N, (snd p - 1)%N)) (map (fun e => let '(i, j, _) := e in (i, j)) l0))
      by (rewrite map_map; apply map_ext; intros [[i j] v]; reflexivity) end. apply NoDup_map_inj_in; [|exact Hn].
  rewrite Forall_forall in Hr. intros x y Hx Hy. apply in_map_iff in Hx, Hy.
  destruct Hx as ([[i j] v] & <- & Hex), Hy as ([[i' j'] v'] & <- & Hey).
  pose proof (Hr _ Hex) as A. pose proof (Hr _ Hey) as B. cbv beta iota in A, B.
  cbn [fst snd]. intro E. inversion E. f_equal; lia.
Qed.
Lemma sh2m_nodup (l : list (N * N * snum)) :
  NoDup (map (fun e => let '(k, i, _) := e in (k, i)) l) ->
  Forall (fun e => let '(k, i, _) := e in (1 <= k)%N /\ (1 <= i)%N) l ->
  NoDup (map fst (sh2m l)).
Proof.
  intros Hn Hr. unfold sh2m. rewrite map_map.
  match goal with |- NoDup (map ?F ?l0) =>
    replace (map F l0) with (map (fun p : N * N => ((fst p - 1)%N, (snd p - 1)%N)) (map (fun e => let '(i, j, _) := e in (i, j)) l0))
      by (rewrite map_map; apply map_ext; intros [[i j] v]; reflexivity) end. apply NoDup_map_inj_in; [|exact Hn].
  rewrite Forall_forall in Hr. intros x y Hx Hy. apply in_map_iff in Hx, Hy.
  destruct Hx as ([[i j] v] & <- & Hex), Hy as ([[i' j'] v'] & <- & Hey).
  pose proof (Hr _ Hex) as A. pose proof (Hr _ Hey) as B. cbv beta iota in A, B.
  cbn [fst snd]. intro E. inversion E. f_equal; lia.
Qed.
Lemma sh3m_nodup (l : list (N * N * N * snum)) :
  NoDup (map (fun e => let '(k, i, j, _) := e in (k, (i, j))) l) ->
  Forall (fun e => let '(k, i, j, _) := e in (1 <= k)%N /\ (1 <= i)%N /\ (1 <= j)%N) l ->
  NoDup (map fst (sh3m l)).
Proof.
  intros Hn Hr. unfold sh3m. rewrite map_map.
  match goal with |- NoDup (map ?F ?l0) =>
    replace (map F l0) with (map (fun p : N * (N * N) =>
                                  ((fst p - 1)%N, ((fst (snd p) - 1)%N, (snd (snd p) - 1)%N))) (map (fun e => let '(k, i, j, _) := e in (k, (i, j))) l0))
      by (rewrite map_map; apply map_ext; intros [[[k i] j] v]; reflexivity) end. apply NoDup_map_inj_in; [|exact Hn].
  rewrite Forall_forall in Hr. intros x y Hx Hy. apply in_map_iff in Hx, Hy.
  destruct Hx as ([[[k i] j] v] & <- & Hex), Hy as ([[[k' i'] j'] v'] & <- & Hey).
  pose proof (Hr _ Hex) as A. pose proof (Hr _ Hey) as B. cbv beta iota in A, B.
  cbn [fst snd]. intro E. inversion E. f_equal; [|f_equal]; lia.
Qed.

(* ---- the objective ---- *)
Lemma val_tri rho (l : list (N * N * snum)) :
  Forall (fun e => let '(i, j, _) := e in (1 <= i)%N /\ (1 <= j)%N) l ->
  val rho (map (fun e => let '(i, j, v) := e in tri_term i j (sfin v)) l)
  = qval rho (to_quadratic (sh2 l)).
Proof.
  induction 1 as [|[[i j] v] l He _ IH]; [reflexivity|]. cbv beta iota in He.
  cbn [map sh2 to_quadratic]. fold (sh2 l). fold (to_quadratic (sh2 l)).
  unfold tri_term at 1. rewrite val_cons, IH. cbn [qentry]. rewrite qval_cons. cbn [mono_val].
  replace (i - 1 =? j - 1)%N with (i =? j)%N.
  - unfold half. ring.
  - destruct (i =? j)%N eqn:E.
    + apply N.eqb_eq in E. subst. symmetry. apply N.eqb_refl.
    + apply N.eqb_neq in E. symmetry. apply N.eqb_neq. lia.
Qed.
Lemma val_lin_range rho (a : nat -> N) (c : nat -> num) l :
  val rho (map (fun k => ([a k], c k)) l) = sumf (fun k => c k * rho (a k)) l.
Proof.
  induction l as [|k l IH]; cbn [map sumf]; [reflexivity|]. rewrite val_cons, IH.
  cbn [mono_val]. ring.
Qed.

Lemma wf_keys_b0 M : wf_keys M = true -> keys1 (m_n M) (m_b0 M).
Proof.
  unfold wf_keys. cbv zeta. rewrite !andb_true_iff. intros (((((((_ & H) & _) & _) & _) & _) & _) & _).
  apply keys1b_spec. exact H.
Qed.
Lemma wf_keys_q0 M : wf_keys M = true ->
  match m_ok M with
  | OL => True
  | _ => NoDup (map (fun e => let '(i, j, _) := e in (i, j)) (m_q0 M))
         /\ Forall (fun e => let '(i, j, _) := e in (1 <= i)%N /\ (1 <= j)%N) (m_q0 M)
  end.
Proof.
  unfold wf_keys. cbv zeta. rewrite !andb_true_iff. intros (((((((H & _) & _) & _) & _) & _) & _) & _).
  destruct (m_ok M); try exact Logic.I; apply andb_true_iff in H; destruct H as [A B];
    (split; [apply (nodup_by_spec pair_eqb pair_eqb_spec); exact A|]);
    rewrite forallb_forall in B; apply Forall_forall; intros [[i j] v] He;
    specialize (B _ He); cbv beta iota in B; apply andb_true_iff in B; destruct B as [B1 B2];
    apply in_range_spec in B1, B2; lia.
Qed.
Lemma fq0_spec M : wf_keys M = true ->
  fq0 M = match m_ok M with OL => [] | _ => sh2 (m_q0 M) end.
Proof.
  intro H. apply wf_keys_q0 in H. unfold fq0.
  destruct (m_ok M); try reflexivity; destruct H as [A B];
    apply (of_entries_nodup pair_eqb pair_eqb_spec); apply sh2_nodup; assumption.
Qed.

Theorem obj_eq M : wf_keys M = true -> forall rho,
  val rho (obj_terms M) = denote (convert_objective (file_of M)) rho.
Proof.
  intros H rho. pose proof (wf_keys_b0 M H) as Hb0.
  rewrite objective_denote.
  2:{ cbn [f_nvars f_b0 file_of]. rewrite (sh1_of_entries sfin _ _ Hb0). apply sh1_wf_tab. exact Hb0. }
  rewrite <- qval_to_quadratic. cbn [f_q0 f_q0c file_of]. rewrite (fq0_spec M H).
  unfold obj_terms. rewrite !val_app, val_cons, val_nil. cbn [mono_val].
  match goal with |- val rho ?t + _ = _ =>
    assert (Q : val rho t
                = qval rho (to_quadratic (match m_ok M with OL => [] | _ => sh2 (m_q0 M) end))) end.
  { pose proof (wf_keys_q0 M H) as Hq. destruct (m_ok M); try reflexivity;
      apply val_tri; exact (proj2 Hq). }
  rewrite Q. clear Q.
  match goal with |- _ + (val rho ?t + _) = _ =>
    assert (L : val rho t = lin_sum rho (file_of M)) end.
  { unfold ones. rewrite map_map.
    rewrite (val_lin_range rho (fun k => (N.of_nat (S k) - 1)%N)
               (fun k => sfin (lookup (N.of_nat (S k)) (m_b0 M) (m_b0d M)))).
    unfold lin_sum. cbn [f_nvars file_of]. apply sumf_ext. intros i _.
    replace (N.of_nat (S i) - 1)%N with (N.of_nat i) by lia. f_equal.
    unfold b0_eff. cbn [f_b0 f_b0d file_of]. rewrite (sh1_of_entries sfin _ _ Hb0).
    rewrite aget_sh1, lookup_as_opt.
    - destruct (lookup_opt (N.of_nat (S i)) (m_b0 M)); reflexivity.
    - destruct Hb0 as [_ Hr]. eapply Forall_impl; [|exact Hr]. intros e He. cbv beta in He. lia. }
  rewrite L. ring.
Qed.

(* ---- constraints ---- *)
Definition con_abs (c : cons) : acon := {| ac_id := c_id c; ac_terms := fn_terms (c_fn c) |}.
(* same id, same polynomial function *)
Definition con_equiv (a b : acon) : Prop :=
  ac_id a = ac_id b /\ forall rho, val rho (ac_terms a) = val rho (ac_terms b).

Lemma nth_map_seq {X} (g : nat -> X) d : forall n s i, (i < n)%nat ->
  nth i (map g (seq s n)) d = g (s + i)%nat.
Proof.
  induction n as [|n IH]; intros s i Hi; [lia|]. cbn [seq map]. destruct i as [|i]; cbn [nth].
  - rewrite Nat.add_0_r. reflexivity.
  - rewrite IH by lia. f_equal. lia.
Qed.
Lemma flat_map_map {X Y Z} (f : Y -> list Z) (g : X -> Y) l :
  flat_map f (map g l) = flat_map (fun x => f (g x)) l.
Proof. induction l as [|x l IH]; cbn [map flat_map]; [reflexivity|]. rewrite IH. reflexivity. Qed.
Lemma val_neg_terms rho t : val rho (neg_terms t) = - val rho t.
Proof.
  induction t as [|[m c] t IH]; cbn [neg_terms map fst snd].
  - rewrite val_nil. ring.
  - rewrite !val_cons. fold (neg_terms t). rewrite IH. ring.
Qed.

Lemma val_qsel rho (qs : list (N * N * N * snum)) i :
  Forall (fun e => let '(k, a, b, _) := e in (1 <= k)%N /\ (1 <= a)%N /\ (1 <= b)%N) qs ->
  val rho (flat_map (fun e => let '(k', a, b, v) := e in
                      if (k' =? N.of_nat (S i))%N then [tri_term a b (sfin v)] else []) qs)
  = qval rho (to_quadratic (sel i (sh3m qs))).
Proof.
  induction 1 as [|[[[k a] b] v] qs He _ IH]; [reflexivity|]. cbv beta iota in He.
  cbn [flat_map sh3m map]. fold (sh3m qs). unfold sel. cbn [flat_map fst snd]. fold (sel i (sh3m qs)).
  replace (k - 1 =? N.of_nat i)%N with (k =? N.of_nat (S i))%N.
  2:{ destruct (k =? N.of_nat (S i))%N eqn:E.
      - apply N.eqb_eq in E. symmetry. apply N.eqb_eq. lia.
      - apply N.eqb_neq in E. symmetry. apply N.eqb_neq. lia. }
  destruct (k =? N.of_nat (S i))%N; cbn [app]; [|exact IH].
  unfold tri_term at 1. rewrite val_cons, IH.
  cbn [to_quadratic map qentry]. fold (to_quadratic (sel i (sh3m qs))).
  rewrite qval_cons. cbn [fst snd mono_val].
  replace (a - 1 =? b - 1)%N with (a =? b)%N.
  - unfold half. ring.
  - destruct (a =? b)%N eqn:E.
    + apply N.eqb_eq in E. subst. symmetry. apply N.eqb_refl.
    + apply N.eqb_neq in E. symmetry. apply N.eqb_neq. lia.
Qed.
Lemma val_bsel rho (bs : list (N * N * snum)) i :
  Forall (fun e => let '(k, a, _) := e in (1 <= k)%N /\ (1 <= a)%N) bs ->
  val rho (flat_map (fun e => let '(k', a, v) := e in
                      if (k' =? N.of_nat (S i))%N then [([(a - 1)%N], sfin v)] else []) bs)
  = valg rho (sel i (sh2m bs)).
Proof.
  induction 1 as [|[[k a] v] bs He _ IH]; [reflexivity|]. cbv beta iota in He.
  cbn [flat_map sh2m map]. fold (sh2m bs). unfold sel. cbn [flat_map fst snd]. fold (sel i (sh2m bs)).
  replace (k - 1 =? N.of_nat i)%N with (k =? N.of_nat (S i))%N.
  2:{ destruct (k =? N.of_nat (S i))%N eqn:E.
      - apply N.eqb_eq in E. symmetry. apply N.eqb_eq. lia.
      - apply N.eqb_neq in E. symmetry. apply N.eqb_neq. lia. }
  destruct (k =? N.of_nat (S i))%N; cbn [app]; [|exact IH].
  rewrite val_cons, IH. cbn [valg mono_val]. ring.
Qed.

Lemma wf_keys_qs M : wf_keys M = true -> has_quad_cons (m_ck M) = true ->
  NoDup (map (fun e => let '(k, i, j, _) := e in (k, (i, j))) (m_qs M))
  /\ Forall (fun e => let '(k, i, j, _) := e in
                      (1 <= k <= N.of_nat (m_m M))%N /\ (1 <= i)%N /\ (1 <= j)%N) (m_qs M).
Proof.
  unfold wf_keys. cbv zeta. rewrite !andb_true_iff. intros (((((((_ & _) & H) & _) & _) & _) & _) & _) E.
  rewrite E in H. apply andb_true_iff in H. destruct H as [A B].
  split; [apply (nodup_by_spec trip_eqb trip_eqb_spec); exact A|].
  rewrite forallb_forall in B. apply Forall_forall. intros [[[k i] j] v] He.
  specialize (B _ He). cbv beta iota in B. rewrite !andb_true_iff in B. destruct B as [[B1 B2] B3].
  apply in_range_spec in B1, B2, B3. lia.
Qed.
Lemma wf_keys_bs M : wf_keys M = true -> has_cons (m_ck M) = true ->
  NoDup (map (fun e => let '(k, i, _) := e in (k, i)) (m_bs M))
  /\ Forall (fun e => let '(k, i, _) := e in
                      (1 <= k <= N.of_nat (m_m M))%N /\ (1 <= i)%N) (m_bs M).
Proof.
  unfold wf_keys. cbv zeta. rewrite !andb_true_iff. intros (((((((_ & _) & _) & H) & _) & _) & _) & _) E.
  rewrite E in H. apply andb_true_iff in H. destruct H as [A B].
  split; [apply (nodup_by_spec pair_eqb pair_eqb_spec); exact A|].
  rewrite forallb_forall in B. apply Forall_forall. intros [[k i] v] He.
  specialize (B _ He). cbv beta iota in B. rewrite !andb_true_iff in B. destruct B as [B1 B2].
  apply in_range_spec in B1, B2. lia.
Qed.
Lemma wf_keys_c M : wf_keys M = true -> has_cons (m_ck M) = true ->
  keys1 (m_m M) (m_cl M) /\ keys1 (m_m M) (m_cu M).
Proof.
  unfold wf_keys. cbv zeta. rewrite !andb_true_iff. intros (((((((_ & _) & _) & _) & H) & _) & _) & _) E.
  rewrite E in H. apply andb_true_iff in H. destruct H as [A B]. split; apply keys1b_spec; assumption.
Qed.
Lemma quad_has_cons ck : has_quad_cons ck = true -> has_cons ck = true.
Proof. destruct ck; cbn; congruence. Qed.

Lemma fqs_spec M : wf_keys M = true -> has_quad_cons (m_ck M) = true ->
  fqs M = map (fun c => sel c (sh3m (m_qs M))) (seq 0 (m_m M)).
Proof.
  intros H E. destruct (wf_keys_qs M H E) as [A B]. unfold fqs, eff_m.
  rewrite E, (quad_has_cons _ E). apply (put_in_spec pair_eqb pair_eqb_spec).
  - apply sh3m_nodup; [exact A|]. eapply Forall_impl; [|exact B]. intros [[[k i] j] v] He. lia.
  - unfold sh3m. apply Forall_map. eapply Forall_impl; [|exact B].
    intros [[[k i] j] v] He. cbn [fst]. lia.
Qed.
Lemma fbs_spec M : wf_keys M = true -> has_cons (m_ck M) = true ->
  fbs M = map (fun c => sel c (sh2m (m_bs M))) (seq 0 (m_m M)).
Proof.
  intros H E. destruct (wf_keys_bs M H E) as [A B]. unfold fbs, eff_m.
  rewrite E. apply (put_in_spec N.eqb N.eqb_eq).
  - apply sh2m_nodup; [exact A|]. eapply Forall_impl; [|exact B]. intros [[k i] v] He. lia.
  - unfold sh2m. apply Forall_map. eapply Forall_impl; [|exact B].
    intros [[k i] v] He. cbn [fst]. lia.
Qed.

(* the function 1/2 x'Q^k x + b^k'x of constraint k = i + 1, both ways *)
Lemma con_terms_val M i : wf_keys M = true -> has_cons (m_ck M) = true -> (i < m_m M)%nat ->
  forall rho,
  val rho (con_terms M (N.of_nat (S i)))
  = qval rho (to_quadratic (nth i (f_qs (file_of M)) [])) + valg rho (sel i (sh2m (m_bs M))).
Proof.
  intros H E Hi rho. unfold con_terms. rewrite val_app. cbn [f_qs file_of]. f_equal.
  - destruct (has_quad_cons (m_ck M)) eqn:Eq.
    + rewrite (fqs_spec M H Eq), nth_map_seq by exact Hi. cbn [plus].
      apply val_qsel. destruct (wf_keys_qs M H Eq) as [_ B].
      eapply Forall_impl; [|exact B]. intros [[[k a] b] v] He. lia.
    + unfold fqs. rewrite Eq. destruct i; reflexivity.
  - apply val_bsel. destruct (wf_keys_bs M H E) as [_ B].
    eapply Forall_impl; [|exact B]. intros [[k a] v] He. lia.
Qed.

Lemma upper_side thr x (mk : num -> cons) (mk' : num -> acon) :
  thr <> NaN -> (forall c, con_equiv (mk' c) (con_abs (mk c))) ->
  exists a,
    match thr_hi thr (sval x) with
    | PInf => Some []
    | Fin c => Some [mk c]
    | _ => None
    end = Some a
    /\ Forall2 con_equiv
         (if beyond thr (sval x) then []
          else match sval x with Fin c => [mk' c] | _ => [] end)
         (map con_abs a).
Proof.
  intros Ht Hm. rewrite thr_hi_beyond. destruct (beyond thr (sval x)) eqn:B.
  - exists []. split; [reflexivity|constructor].
  - destruct (sval x) as [|c| |] eqn:E.
    + rewrite beyond_inf in B; [discriminate|exact Ht|auto].
    + exists [mk c]. split; [reflexivity|]. constructor; [apply Hm|constructor].
    + rewrite beyond_inf in B; [discriminate|exact Ht|auto].
    + exfalso. exact (sval_not_nan x E).
Qed.
Lemma lower_side thr x (mk : num -> cons) (mk' : num -> acon) :
  thr <> NaN -> (forall c, con_equiv (mk' c) (con_abs (mk c))) ->
  exists a,
    match thr_lo thr (sval x) with
    | NInf => Some []
    | Fin c => Some [mk c]
    | _ => None
    end = Some a
    /\ Forall2 con_equiv
         (if beyond thr (sval x) then []
          else match sval x with Fin c => [mk' c] | _ => [] end)
         (map con_abs a).
Proof.
  intros Ht Hm. rewrite thr_lo_beyond. destruct (beyond thr (sval x)) eqn:B.
  - exists []. split; [reflexivity|constructor].
  - destruct (sval x) as [|c| |] eqn:E.
    + rewrite beyond_inf in B; [discriminate|exact Ht|auto].
    + exists [mk c]. split; [reflexivity|]. constructor; [apply Hm|constructor].
    + rewrite beyond_inf in B; [discriminate|exact Ht|auto].
    + exfalso. exact (sval_not_nan x E).
Qed.

Lemma convert_constraint_i M i :
  wf_keys M = true -> has_cons (m_ck M) = true -> (i < m_m M)%nat ->
  exists l,
    convert_constraint (file_of M) i (sel i (sh2m (m_bs M)))
      (thr_lo (sval (m_inf M)) (sval (lookup (N.of_nat (S i)) (m_cl M) (m_cld M))))
      (thr_hi (sval (m_inf M)) (sval (lookup (N.of_nat (S i)) (m_cu M) (m_cud M))))
    = Some l
    /\ Forall2 con_equiv (con_sides M (N.of_nat (S i))) (map con_abs l).
Proof.
  intros H E Hi. pose proof (con_terms_val M i H E Hi) as G.
  unfold convert_constraint, con_sides. cbv zeta.
  set (Q := to_quadratic (nth i (f_qs (file_of M)) [])) in *.
  set (B := sel i (sh2m (m_bs M))) in *.
  set (g := con_terms M (N.of_nat (S i))) in *.
  set (name := match aget N.eqb (N.of_nat i) (f_cnames (file_of M)) with
               | Some s => s | None => default_cname i end).
  destruct (upper_side (sval (m_inf M)) (lookup (N.of_nat (S i)) (m_cu M) (m_cud M))
              (fun c => {| c_id := N.of_nat i; c_fn := wrap_function Q B (- c);
                           c_name := (name ++ " [c_u]")%string |})
              (fun c => {| ac_id := (N.of_nat (S i) - 1)%N; ac_terms := g ++ [([], - c)] |})
              (sval_not_nan _)) as (a & Ea & Fa).
  { intro c. split; cbn [con_abs ac_id ac_terms c_id c_fn]; [lia|]. intro rho.
    change (val rho (fn_terms ?f)) with (denote f rho). rewrite denote_wrap, val_app, G.
    rewrite val_cons, val_nil. cbn [mono_val]. ring. }
  destruct (lower_side (sval (m_inf M)) (lookup (N.of_nat (S i)) (m_cl M) (m_cld M))
              (fun c => {| c_id := N.of_nat (f_ncons (file_of M) + i);
                           c_fn := wrap_function (neg_quad Q) (neg_lin B) c;
                           c_name := (name ++ " [c_l]")%string |})
              (fun c => {| ac_id := (N.of_nat (m_m M) + N.of_nat (S i) - 1)%N;
                           ac_terms := neg_terms g ++ [([], c)] |})
              (sval_not_nan _)) as (b & Eb & Fb).
  { intro c. split; cbn [con_abs ac_id ac_terms c_id c_fn].
    - cbn [f_ncons file_of]. unfold eff_m. rewrite E. lia.
    - intro rho. change (val rho (fn_terms ?f)) with (denote f rho).
      rewrite denote_wrap, qval_neg, valg_neg, val_app, val_neg_terms, G.
      rewrite val_cons, val_nil. cbn [mono_val]. ring. }
  cbv beta in Ea, Eb. rewrite Ea, Eb. exists (a ++ b). split; [reflexivity|].
  rewrite map_app. apply Forall2_app; assumption.
Qed.

Lemma concat_opt_flat {X} (R : acon -> acon -> Prop) (G : X -> option (list cons))
  (f : X -> list acon) xs :
  Forall (fun x => exists l, G x = Some l /\ Forall2 R (f x) (map con_abs l)) xs ->
  exists out, concat_opt (map G xs) = Some out /\ Forall2 R (flat_map f xs) (map con_abs out).
Proof.
  induction 1 as [|x xs (l & E & F) _ (out & Eo & Fo)]; cbn [map concat_opt flat_map].
  - exists []. split; [reflexivity|constructor].
  - rewrite E, Eo. exists (l ++ out). split; [reflexivity|]. rewrite map_app.
    apply Forall2_app; assumption.
Qed.

Theorem cons_eq M : wf_keys M = true ->
  exists cs, convert_constraints (file_of M) = Some cs
             /\ Forall2 con_equiv (a_cons (meaning M)) (map con_abs cs).
Proof.
  intro H. unfold convert_constraints, meaning. cbn [a_cons f_bs f_cl f_cu f_inf file_of].
  destruct (has_cons (m_ck M)) eqn:E.
  - rewrite (fbs_spec M H E). unfold fcl, fcu, eff_m. rewrite E.
    destruct (wf_keys_c M H E) as [Hl Hu].
    rewrite (dense_spec sval _ _ _ Hl), (dense_spec sval _ _ _ Hu).
    rewrite zip3e_map, enumerate_map, map_map. unfold ones. rewrite flat_map_map.
    apply concat_opt_flat. apply Forall_forall. intros i Hin. apply in_seq in Hin.
    apply (convert_constraint_i M i H E). lia.
  - unfold fbs. rewrite E. exists []. split; [reflexivity|constructor].
Qed.


(* ================================================================== *)
(* 9. the main theorem, relative to the literals that print and read back *)

(* what the runner's comparator certifies, as a relation: same sense, objectives equal as
   polynomial functions, the same variables (ids, types, bounds, names) in the same order, the
   same constraint sides in the same order with the same ids and equal polynomial functions *)
Definition ainst_equiv (e g : ainst) : Prop :=
  a_sense e = a_sense g
  /\ (forall rho, val rho (a_obj e) = val rho (a_obj g))
  /\ a_vars e = a_vars g
  /\ Forall2 con_equiv (a_cons e) (a_cons g).

Theorem convert_file_of M : wf_keys M = true ->
  exists ins, convert (file_of M) = Some ins
              /\ ainst_equiv (meaning M) (abstract ins)
              /\ i_name ins = (match m_name M with EmptyString => None | s => Some s end)
              /\ i_descr ins = ptype_string (m_ok M) (m_vk M) (m_ck M).
Proof.
  intro H. destruct (cons_eq M H) as (cs & Ec & Fc). unfold convert. rewrite Ec.
  eexists. split; [reflexivity|]. split; [|split; reflexivity].
  unfold ainst_equiv, abstract, meaning. cbn [a_sense a_obj a_vars a_cons i_sense i_obj i_vars i_cons].
  split; [reflexivity|]. split; [|split].
  - intro rho. apply (obj_eq M H).
  - symmetry. apply (vars_eq M H).
  - exact Fc.
Qed.

Section Main.
  Variable num_ok : snum -> bool.
  Hypothesis num_tok : forall x, num_ok x = true -> tok (print_snum x) = true.
  Hypothesis num_parse : forall x, num_ok x = true -> parse_f64 (print_snum x) = Some (sval x).

  Definition wf_model (M : qp_model) : bool := wf_read num_ok M && wf_keys M.

  Theorem load_render_gen M ly : wf_model M = true -> layout_ok ly = true ->
    from_lines (render ly M) = Ok (file_of M)
    /\ exists ins, load (render ly M) = Loaded ins
                   /\ ainst_equiv (meaning M) (abstract ins)
                   /\ i_name ins = Some (m_name M)
                   /\ i_descr ins = ptype_string (m_ok M) (m_vk M) (m_ck M).
  Proof.
    unfold wf_model. rewrite andb_true_iff. intros [Hr Hk] Hl.
    pose proof (from_lines_render num_ok num_tok num_parse M ly Hr Hl) as E.
    split; [exact E|]. destruct (convert_file_of M Hk) as (ins & Ec & Heq & Hn & Hd).
    exists ins. unfold load. rewrite E, Ec. split; [reflexivity|]. split; [exact Heq|].
    split; [|exact Hd]. rewrite Hn.
    pose proof (wf_read_name num_ok M Hr) as Ht. destruct (m_name M); [discriminate Ht|reflexivity].
  Qed.
End Main.

(* the content certified by an `agree` of the runner's comparator ([ainst_cmp_sound]) follows *)
Lemma ext_eqb_refl x : ext_eqb x x = true.
Proof. destruct x; try reflexivity. cbn [ext_eqb]. apply qeqb_eq. reflexivity. Qed.
Lemma optstr_eqb_refl x : optstr_eqb x x = true.
Proof. destruct x; [apply String.eqb_refl|reflexivity]. Qed.
Lemma Forall2_In_l {X Y} (R : X -> Y -> Prop) l l' x :
  Forall2 R l l' -> In x l -> exists y, In y l' /\ R x y.
Proof.
  induction 1 as [|a b l l' Hab _ IH]; intros Hin; [destruct Hin|].
  destruct Hin as [<-|Hin]; [exists b; split; [left; reflexivity|exact Hab]|].
  destruct (IH Hin) as (y & Hy & Hr). exists y. split; [right; exact Hy|exact Hr].
Qed.
Lemma Forall2_len {X Y} (R : X -> Y -> Prop) l l' :
  Forall2 R l l' -> List.length l = List.length l'.
Proof. induction 1; cbn [List.length]; [reflexivity|]. f_equal. assumption. Qed.
Theorem ainst_equiv_runner e g : ainst_equiv e g ->
  a_sense e = a_sense g
  /\ (forall rho, val rho (a_obj e) = val rho (a_obj g))
  /\ List.length (a_vars e) = List.length (a_vars g)
  /\ List.length (a_cons e) = List.length (a_cons g)
  /\ (forall v, In v (a_vars e) -> exists v', In v' (a_vars g) /\ av_id v' = av_id v /\
        av_kind v' = av_kind v /\ ext_eqb (av_lo v) (av_lo v') = true /\
        ext_eqb (av_hi v) (av_hi v') = true /\ optstr_eqb (av_name v) (av_name v') = true)
  /\ (forall c, In c (a_cons e) -> exists c', In c' (a_cons g) /\ ac_id c' = ac_id c /\
        forall rho, val rho (ac_terms c) = val rho (ac_terms c')).
Proof.
  intros (Hs & Ho & Hv & Hc). split; [exact Hs|]. split; [exact Ho|].
  split; [rewrite Hv; reflexivity|]. split; [exact (Forall2_len _ _ _ Hc)|]. split.
  - intros v Hin. exists v. rewrite <- Hv. split; [exact Hin|].
    repeat split; try reflexivity; try apply ext_eqb_refl. apply optstr_eqb_refl.
  - intros c Hin. destruct (Forall2_In_l _ _ _ c Hc Hin) as (c' & Hin' & Hid & Hval).
    exists c'. split; [exact Hin'|]. split; [symmetry; exact Hid|exact Hval].
Qed.


(* ================================================================== *)
(* 10. decimal literals: [parse_f64 (print_snum x) = Some (sval x)], every style *)
From Coq Require Import Qpower.

Lemma q10_power e : (q10 e == inject_Z 10 ^ e)%Q.
Proof.
  unfold q10. destruct (0 <=? e)%Z eqn:E.
  - apply Z.leb_le in E. apply Zpower_Qpower. exact E.
  - apply Z.leb_gt in E. rewrite Zpower_Qpower by lia. rewrite <- Qpower_opp.
    rewrite Z.opp_involutive. reflexivity.
Qed.
Lemma q10_add a b : (q10 (a + b) == q10 a * q10 b)%Q.
Proof. rewrite !q10_power. apply Qpower_plus. discriminate. Qed.
Lemma pow10_q10 e : (pow10 e == q10 e)%Q.
Proof.
  unfold pow10, q10. destruct (0 <=? e)%Z eqn:E; [reflexivity|]. apply Z.leb_gt in E.
  assert (H : (0 < 10 ^ (- e))%Z) by (apply Z.pow_pos_nonneg; lia).
  destruct (10 ^ (- e))%Z as [|p|p]; try lia. reflexivity.
Qed.
Lemma dec_value_eq neg mant e' m e :
  (inject_Z (Z.of_N mant) * q10 e' == inject_Z (Z.of_N m) * q10 e)%Q ->
  Fin (dec_value neg mant e') = sval (SDec neg m e 0).
Proof.
  intro H. unfold dec_value. cbn [sval]. f_equal. apply Q2Qc_eq_iff.
  destruct neg; rewrite pow10_q10, H; reflexivity.
Qed.
Lemma sval_style neg m e s : sval (SDec neg m e s) = sval (SDec neg m e 0).
Proof. reflexivity. Qed.

(* the reader after the sign *)
Definition parse_body (neg : bool) (s1 : string) : option ext :=
  match read_digits s1 0%N 0%nat with
  | (ip, ni, r1) =>
      match (match r1 with
             | String "."%char r => read_digits r ip 0%nat
             | _ => (ip, 0%nat, r1)
             end) with
      | (mant, nf, r2) =>
          if Nat.eqb (ni + nf) 0 then None
          else
            match r2 with
            | EmptyString => Some (Fin (dec_value neg mant (- Z.of_nat nf)))
            | String c r3 =>
                if (c =? "e")%char || (c =? "E")%char then
                  match parse_exp r3 with
                  | Some e => Some (Fin (dec_value neg mant (e - Z.of_nat nf)))
                  | None => None
                  end
                else None
            end
      end
  end.

Definition starts_digit (s : string) : Prop :=
  match s with String c _ => is_digit c = true | EmptyString => False end.
Lemma starts_digit_app A r : all_s is_digit A = true -> A <> EmptyString -> starts_digit (A +++ r).
Proof.
  destruct A as [|c A]; [congruence|]. cbn [all_s String.append starts_digit].
  rewrite andb_true_iff. tauto.
Qed.

Lemma is_digit_cases c : is_digit c = true ->
  (c <> "+" /\ c <> "-" /\ lower c = c /\ c <> "i" /\ c <> "n")%char.
Proof.
  unfold is_digit, digit_of. set (n := nat_of_ascii c).
  destruct (Nat.leb 48 n && Nat.leb n 57) eqn:E; [|discriminate]. intros _.
  apply andb_true_iff in E. destruct E as [A B]. apply Nat.leb_le in A. apply Nat.leb_le in B.
  assert (G : forall d : ascii, (nat_of_ascii d < 48 \/ 57 < nat_of_ascii d)%nat -> c <> d).
  { intros d Hd ->. fold n in Hd. lia. }
  repeat split; try (apply G; cbn; lia).
  unfold lower. fold n. replace (Nat.leb 65 n && Nat.leb n 90) with false; [reflexivity|].
  symmetry. apply andb_false_iff. left. apply Nat.leb_gt. lia.
Qed.

Lemma parse_f64_body (sgn : string) neg body :
  (sgn = EmptyString /\ neg = false) \/ (sgn = "-"%string /\ neg = true)
  \/ (sgn = "+"%string /\ neg = false) ->
  starts_digit body -> parse_f64 (sgn +++ body) = parse_body neg body.
Proof.
  intros Hs Hb. destruct body as [|c r]; [destruct Hb|]. cbn [starts_digit] in Hb.
  destruct (is_digit_cases c Hb) as (Hp & Hm & Hl & Hi & Hn).
  assert (S : split_sign (sgn +++ String c r) = (neg, String c r)).
  { destruct Hs as [[-> ->]|[[-> ->]|[-> ->]]]; cbn [String.append split_sign]; try reflexivity.
    destruct c as [[] [] [] [] [] [] [] []]; try reflexivity; congruence. }
  unfold parse_f64. rewrite S. cbn [lower_s]. rewrite Hl.
  assert (F : forall t u, c <> t -> (String c (lower_s r) =? String t u)%string = false).
  { intros t u Ht. cbn [String.eqb]. apply Ascii.eqb_neq in Ht. rewrite Ht. reflexivity. }
  rewrite !F by assumption. cbn [orb]. reflexivity.
Qed.

(* what may follow the mantissa: nothing, or an exponent *)
Definition tail_val (X : string) (z : Z) : Prop :=
  (X = EmptyString /\ z = 0%Z)
  \/ exists c r, X = String c r /\ (c = "e" \/ c = "E")%char /\ parse_exp r = Some z.
Lemma tail_stops X z : tail_val X z ->
  stops X /\ match X with String "."%char _ => False | _ => True end.
Proof.
  intros [[-> _]|(c & r & -> & [->| ->] & _)]; split; try exact Logic.I; reflexivity.
Qed.
Lemma parse_tail neg mant nf X z : tail_val X z ->
  match X with
  | EmptyString => Some (Fin (dec_value neg mant (- Z.of_nat nf)))
  | String c r3 =>
      if (c =? "e")%char || (c =? "E")%char then
        match parse_exp r3 with
        | Some e => Some (Fin (dec_value neg mant (e - Z.of_nat nf)))
        | None => None
        end
      else None
  end = Some (Fin (dec_value neg mant (z - Z.of_nat nf))).
Proof.
  intros [[-> ->]|(c & r & -> & [->| ->] & ->)]; reflexivity.
Qed.

Lemma parse_body_nodot neg A X z :
  all_s is_digit A = true -> A <> EmptyString -> tail_val X z ->
  parse_body neg (A +++ X) = Some (Fin (dec_value neg (dv A 0) z)).
Proof.
  intros HA Hne HX. destruct (tail_stops X z HX) as [Hst Hnd]. unfold parse_body.
  rewrite (read_digits_app A X 0%N 0%nat HA Hst).
  replace (match X with String "."%char r => read_digits r (dv A 0) 0%nat | _ => (dv A 0, 0%nat, X) end)
    with (dv A 0, 0%nat, X).
  2:{ destruct X as [|c r]; [reflexivity|]. destruct c as [[] [] [] [] [] [] [] []]; try reflexivity.
      destruct Hnd. }
  destruct A as [|c A]; [congruence|]. cbn [String.length plus Nat.eqb].
  rewrite (parse_tail neg _ 0 X z HX). rewrite Z.sub_0_r. reflexivity.
Qed.
Lemma parse_body_dot neg A B X z :
  all_s is_digit A = true -> all_s is_digit B = true ->
  (String.length A + String.length B <> 0)%nat -> tail_val X z ->
  parse_body neg (A +++ String "." (B +++ X))
  = Some (Fin (dec_value neg (dv (A +++ B) 0) (z - Z.of_nat (String.length B)))).
Proof.
  intros HA HB Hne HX. destruct (tail_stops X z HX) as [Hst Hnd]. unfold parse_body.
  rewrite (read_digits_app A _ 0%N 0%nat HA) by reflexivity.
  rewrite (read_digits_app B X _ 0%nat HB Hst). cbn [plus].
  rewrite <- (dv_app A B 0%N HA).
  destruct (Nat.eqb (String.length A + String.length B) 0) eqn:E;
    [apply Nat.eqb_eq in E; congruence|].
  apply parse_tail. exact HX.
Qed.

(* exponents *)
Lemma parse_exp_zdigits z plus : parse_exp (zdigits z plus) = Some z.
Proof.
  unfold zdigits, parse_exp.
  assert (R : read_digits (digits (Z.abs_N z)) 0 0 = (Z.abs_N z, String.length (digits (Z.abs_N z)), EmptyString)).
  { rewrite (read_digits_all _ _ _ (digits_alldigit _)), dv_digits. reflexivity. }
  destruct (digits_len (Z.abs_N z)) as [k Hk]. rewrite Hk in R.
  assert (D : split_sign (digits (Z.abs_N z)) = (false, digits (Z.abs_N z))).
  { pose proof (digits_alldigit (Z.abs_N z)) as H. destruct (digits (Z.abs_N z)) as [|c r]; [reflexivity|].
    cbn [all_s] in H. apply andb_true_iff in H. destruct (is_digit_cases c (proj1 H)) as (Hp & Hm & _).
    cbn [split_sign]. destruct c as [[] [] [] [] [] [] [] []]; try reflexivity; congruence. }
  destruct (z <? 0)%Z eqn:E.
  - apply Z.ltb_lt in E. cbn [String.append split_sign]. rewrite R. f_equal. lia.
  - apply Z.ltb_ge in E. destruct plus; cbn [String.append split_sign]; rewrite ?D, R; f_equal; lia.
Qed.
Lemma tail_exp (c : ascii) z plus : (c = "e" \/ c = "E")%char ->
  tail_val (String c (zdigits z plus)) z.
Proof. intro H. right. exists c, (zdigits z plus). split; [reflexivity|]. split; [exact H|apply parse_exp_zdigits]. Qed.

(* zeros, take, drop *)
Lemma zeros_alldigit k : all_s is_digit (zeros k) = true.
Proof. induction k as [|k IH]; cbn [zeros all_s]; [reflexivity|]. rewrite IH. reflexivity. Qed.
Lemma zeros_len k : String.length (zeros k) = k.
Proof. induction k as [|k IH]; cbn [zeros String.length]; [reflexivity|]. rewrite IH. reflexivity. Qed.
Lemma dv_zeros k acc : dv (zeros k) acc = (acc * 10 ^ N.of_nat k)%N.
Proof.
  revert acc. induction k as [|k IH]; intro acc; cbn [zeros dv].
  - cbn. lia.
  - change (digit_of "0") with (Some 0%N). cbv beta iota. rewrite IH, Nat2N.inj_succ, N.pow_succ_r'. lia.
Qed.
Lemma take_drop k : forall s, str_take k s +++ str_drop k s = s.
Proof.
  induction k as [|k IH]; intros s; destruct s as [|c s]; cbn [str_take str_drop String.append];
    try reflexivity. rewrite IH. reflexivity.
Qed.
Lemma take_alldigit p k : forall s, all_s p s = true -> all_s p (str_take k s) = true.
Proof.
  induction k as [|k IH]; intros s H; destruct s as [|c s]; cbn [str_take all_s]; try reflexivity.
  cbn [all_s] in H. apply andb_true_iff in H. rewrite (proj1 H), (IH s (proj2 H)). reflexivity.
Qed.
Lemma drop_alldigit p k : forall s, all_s p s = true -> all_s p (str_drop k s) = true.
Proof.
  induction k as [|k IH]; intros s H; destruct s as [|c s]; cbn [str_drop]; try exact H.
  cbn [all_s] in H. apply andb_true_iff in H. apply IH. exact (proj2 H).
Qed.
Lemma take_len k : forall s, (k <= String.length s)%nat -> String.length (str_take k s) = k.
Proof.
  induction k as [|k IH]; intros s H; destruct s as [|c s]; cbn [str_take String.length] in *;
    try reflexivity; try lia. rewrite IH by lia. reflexivity.
Qed.
Lemma drop_len k : forall s, String.length (str_drop k s) = (String.length s - k)%nat.
Proof.
  induction k as [|k IH]; intros s; destruct s as [|c s]; cbn [str_drop String.length];
    try reflexivity; try lia. apply IH.
Qed.
Lemma len_app a b : String.length (a +++ b) = (String.length a + String.length b)%nat.
Proof. induction a as [|c a IH]; cbn [String.append String.length]; [reflexivity|]. rewrite IH. reflexivity. Qed.
Lemma len0 s : String.length s = 0%nat -> s = EmptyString.
Proof. destruct s; [reflexivity|discriminate]. Qed.

(* the body of every style: starts with a digit, has no whitespace, reads back *)
Definition body_ok (neg : bool) (m : N) (e : Z) (body : string) : Prop :=
  starts_digit body /\ nows body = true
  /\ parse_body neg body = Some (sval (SDec neg m e 0)).

Lemma nows_app a b : nows (a +++ b) = nows a && nows b.
Proof. apply all_s_app. Qed.

Lemma fixed_ok neg m e pz : body_ok neg m e (fixed m e pz).
Proof.
  unfold fixed. destruct (0 <=? e)%Z eqn:E.
  - apply Z.leb_le in E. set (k := Z.to_nat e).
    assert (Ee : e = Z.of_nat k) by (unfold k; lia). clearbody k. subst e.
    assert (Q10 : (q10 (Z.of_nat k) == inject_Z (10 ^ Z.of_nat k))%Q).
    { unfold q10. replace (0 <=? Z.of_nat k)%Z with true by (symmetry; apply Z.leb_le; lia). reflexivity. }
    assert (HA : all_s is_digit (digits m +++ zeros k) = true).
    { rewrite all_s_app, digits_alldigit, zeros_alldigit. reflexivity. }
    assert (Hne : digits m +++ zeros k <> EmptyString).
    { destruct (digits_len m) as [j Hj]. intro E0. apply (f_equal String.length) in E0.
      rewrite len_app, Hj in E0. discriminate. }
    assert (V : dv (digits m +++ zeros k) 0 = (m * 10 ^ N.of_nat k)%N).
    { rewrite dv_app by apply digits_alldigit. rewrite dv_digits. apply dv_zeros. }
    rewrite <- app_assoc_s. destruct pz.
    + split; [apply starts_digit_app; assumption|]. split.
      * rewrite nows_app, (alldigit_nows _ HA). reflexivity.
      * change ".0"%string with (String "." ("0" +++ EmptyString))%string.
        rewrite (parse_body_dot neg _ "0"%string EmptyString 0%Z HA); try reflexivity.
        -- f_equal; apply dec_value_eq. rewrite dv_app by exact HA. cbn [dv]. change (digit_of "0") with (Some 0%N).
           cbv beta iota. rewrite V. cbn [String.length]. rewrite Q10.
           change (q10 (0 - Z.of_nat 1)) with (/ inject_Z 10)%Q.
           replace (Z.of_N ((m * 10 ^ N.of_nat k) * 10 + 0)) with (Z.of_N m * 10 ^ Z.of_nat k * 10)%Z.
           2:{ rewrite N.add_0_r, !N2Z.inj_mul, N2Z.inj_pow, nat_N_Z. reflexivity. }
           rewrite !inject_Z_mult. field.
        -- cbn [String.length]. lia.
        -- left. split; reflexivity.
    + split; [apply starts_digit_app; assumption|]. split.
      * rewrite app_nil_r_s. apply alldigit_nows. exact HA.
      * rewrite (parse_body_nodot neg _ EmptyString 0%Z HA Hne); [|left; split; reflexivity].
        f_equal; apply dec_value_eq. rewrite V, Q10.
        rewrite N2Z.inj_mul, N2Z.inj_pow, nat_N_Z, inject_Z_mult.
        change (q10 0) with 1%Q. change (Z.of_N 10) with 10%Z. ring.
  - apply Z.leb_gt in E. cbv zeta. set (k := Z.to_nat (- e)). set (ds := digits m).
    set (ds' := zeros (S k - String.length ds) +++ ds).
    assert (Hd' : all_s is_digit ds' = true).
    { unfold ds'. rewrite all_s_app, zeros_alldigit. apply digits_alldigit. }
    assert (Hlen : (S k <= String.length ds')%nat).
    { unfold ds'. rewrite len_app, zeros_len. lia. }
    set (ip := (String.length ds' - k)%nat).
    assert (HA : all_s is_digit (str_take ip ds') = true) by (apply take_alldigit; exact Hd').
    assert (HB : all_s is_digit (str_drop ip ds') = true) by (apply drop_alldigit; exact Hd').
    assert (LA : String.length (str_take ip ds') = ip) by (apply take_len; unfold ip; lia).
    assert (LB : String.length (str_drop ip ds') = k) by (rewrite drop_len; unfold ip; lia).
    assert (V : dv ds' 0 = m).
    { unfold ds'. rewrite dv_app by apply zeros_alldigit. rewrite dv_zeros. cbn [N.mul]. apply dv_digits. }
    change (str_take ip ds' ++ "." ++ str_drop ip ds')%string
      with (str_take ip ds' +++ String "." (str_drop ip ds')).
    split; [|split].
    + apply starts_digit_app; [exact HA|]. intro E0. rewrite E0 in LA. cbn [String.length] in LA. unfold ip in LA. lia.
    + rewrite nows_app. cbn [nows all_s]. fold (nows (str_drop ip ds')).
      rewrite (alldigit_nows _ HA), (alldigit_nows _ HB). reflexivity.
    + rewrite <- (app_nil_r_s (str_drop ip ds')).
      rewrite (parse_body_dot neg _ _ EmptyString 0%Z HA HB); [| |left; split; reflexivity].
      * rewrite take_drop, V, LB. f_equal; apply dec_value_eq.
        replace (0 - Z.of_nat k)%Z with e by (unfold k; lia). reflexivity.
      * rewrite LA, LB. unfold ip. lia.
Qed.

Lemma exp_ok neg m e (c : ascii) plus : (c = "e" \/ c = "E")%char ->
  body_ok neg m e (digits m +++ String c (zdigits e plus)).
Proof.
  intro Hc. assert (Hne : digits m <> EmptyString).
  { destruct (digits_len m) as [j Hj]. intro E0. rewrite E0 in Hj. discriminate. }
  split; [apply starts_digit_app; [apply digits_alldigit|exact Hne]|]. split.
  - rewrite nows_app, (alldigit_nows _ (digits_alldigit m)). cbn [nows all_s].
    assert (Z : nows (zdigits e plus) = true).
    { unfold zdigits. rewrite nows_app, (alldigit_nows _ (digits_alldigit _)).
      destruct (e <? 0)%Z; [reflexivity|]. destruct plus; reflexivity. }
    fold (nows (zdigits e plus)). rewrite Z. destruct Hc as [->| ->]; reflexivity.
  - rewrite (parse_body_nodot neg _ _ e (digits_alldigit m) Hne (tail_exp c e plus Hc)).
    f_equal; apply dec_value_eq. rewrite dv_digits. reflexivity.
Qed.

Lemma sci_ok neg m e :
  body_ok neg m e
    (str_take 1 (digits m)
     +++ String "." ((if String.eqb (str_drop 1 (digits m)) EmptyString then "0"%string
                      else str_drop 1 (digits m))
                     +++ String "E" (zdigits (e + Z.of_nat (String.length (digits m)) - 1) true))).
Proof.
  set (ds := digits m). destruct (digits_len m) as [j Hj]. fold ds in Hj.
  pose proof (digits_alldigit m) as Hd. fold ds in Hd.
  assert (HA : all_s is_digit (str_take 1 ds) = true) by (apply take_alldigit; exact Hd).
  assert (LA : String.length (str_take 1 ds) = 1%nat) by (apply take_len; lia).
  assert (HR : all_s is_digit (str_drop 1 ds) = true) by (apply drop_alldigit; exact Hd).
  assert (LR : String.length (str_drop 1 ds) = j) by (rewrite drop_len, Hj; lia).
  set (z := (e + Z.of_nat (String.length ds) - 1)%Z).
  assert (HX : tail_val (String "E" (zdigits z true)) z) by (apply tail_exp; right; reflexivity).
  assert (NZ : nows (zdigits z true) = true).
  { unfold zdigits. rewrite nows_app, (alldigit_nows _ (digits_alldigit _)).
    destruct (z <? 0)%Z; reflexivity. }
  assert (SD : forall r, starts_digit (str_take 1 ds +++ r)).
  { intro r. apply starts_digit_app; [exact HA|]. intro E0. rewrite E0 in LA. discriminate. }
  destruct (str_drop 1 ds) as [|c r] eqn:ER.
  - cbn [String.eqb]. cbn [String.length] in LR. subst j.
    assert (ET : str_take 1 ds = ds).
    { rewrite <- (take_drop 1 ds) at 2. rewrite ER, app_nil_r_s. reflexivity. }
    split; [apply SD|]. split.
    + rewrite nows_app, (alldigit_nows _ HA). cbn [nows all_s String.append].
      fold (nows (zdigits z true)). rewrite NZ. reflexivity.
    + rewrite (parse_body_dot neg _ "0"%string _ z HA); try reflexivity; try exact HX.
      * f_equal; apply dec_value_eq. rewrite ET, dv_app by exact Hd. unfold ds at 1. rewrite dv_digits.
        cbn [dv String.length]. change (digit_of "0") with (Some 0%N). cbv beta iota.
        unfold z. rewrite Hj.
        replace (e + Z.of_nat 1 - 1 - Z.of_nat 1)%Z with (e + -1)%Z by lia.
        replace (q10 e) with (q10 ((e + -1) + 1)) by (f_equal; lia).
        rewrite (q10_add (e + -1) 1). change (q10 1) with (inject_Z 10).
        rewrite N.add_0_r, N2Z.inj_mul, inject_Z_mult. change (Z.of_N 10) with 10%Z. ring.
      * rewrite LA. cbn [String.length]. lia.
  - assert (Hrne : String.eqb (String c r) EmptyString = false) by reflexivity. rewrite Hrne.
    split; [apply SD|]. split.
    + rewrite nows_app, (alldigit_nows _ HA). cbn [nows all_s]. fold (nows (String c r +++ String "E" (zdigits z true))).
      rewrite nows_app, (alldigit_nows _ HR). cbn [nows all_s]. fold (nows (zdigits z true)).
      rewrite NZ. reflexivity.
    + rewrite (parse_body_dot neg _ _ _ z HA HR); [| |exact HX].
      * f_equal; apply dec_value_eq. rewrite <- ER, take_drop. unfold ds at 1. rewrite dv_digits.
        rewrite ER, LR. replace (z - Z.of_nat j)%Z with e by (unfold z; rewrite Hj; lia). reflexivity.
      * rewrite LA. lia.
Qed.

Lemma tok_signed (sgn body : string) :
  sgn = EmptyString \/ sgn = "-"%string \/ sgn = "+"%string ->
  starts_digit body -> nows body = true -> tok (sgn +++ body) = true.
Proof.
  intros Hs Hb Hn. destruct body as [|c r]; [destruct Hb|]. cbn [starts_digit] in Hb.
  destruct Hs as [->|[->| ->]]; cbn [String.append tok].
  - rewrite Hn, (digit_not_comment c r Hb). reflexivity.
  - change (nows (String "-" (String c r))) with (nows (String c r)). rewrite Hn. reflexivity.
  - change (nows (String "+" (String c r))) with (nows (String c r)). rewrite Hn. reflexivity.
Qed.

(* every literal [print_snum] writes is one word and reads back as its value *)
Theorem print_snum_ok x : tok (print_snum x) = true /\ parse_f64 (print_snum x) = Some (sval x).
Proof.
  destruct x as [[|]|neg m e st]; [split; reflexivity|split; reflexivity|].
  assert (G : forall (sgn : string) body,
            (sgn = EmptyString /\ neg = false) \/ (sgn = "-"%string /\ neg = true)
            \/ (sgn = "+"%string /\ neg = false) ->
            body_ok neg m e body ->
            tok (sgn +++ body) = true /\ parse_f64 (sgn +++ body) = Some (sval (SDec neg m e st))).
  { intros sgn body Hs (Hd & Hn & Hp). split.
    - apply tok_signed; [|exact Hd|exact Hn]. destruct Hs as [[-> _]|[[-> _]|[-> _]]]; auto.
    - rewrite (parse_f64_body sgn neg body Hs Hd), Hp. reflexivity. }
  assert (S0 : ((if neg then "-" else "")%string = EmptyString /\ neg = false)
               \/ ((if neg then "-" else "")%string = "-"%string /\ neg = true)
               \/ ((if neg then "-" else "")%string = "+"%string /\ neg = false)).
  { destruct neg; auto. }
  assert (S1 : ((if neg then "-" else "+")%string = EmptyString /\ neg = false)
               \/ ((if neg then "-" else "+")%string = "-"%string /\ neg = true)
               \/ ((if neg then "-" else "+")%string = "+"%string /\ neg = false)).
  { destruct neg; auto. }
  destruct st as [|[|[|[|[|st]]]]]; cbn [print_snum]; cbv zeta.
  - apply (G _ _ S0). apply fixed_ok.
  - apply (G _ _ S0). apply fixed_ok.
  - apply (G _ _ S0). apply (exp_ok neg m e "E" true). right. reflexivity.
  - apply (G _ _ S0). apply (exp_ok neg m e "e" false). left. reflexivity.
  - apply (G _ _ S0). apply sci_ok.
  - apply (G _ _ S1). apply fixed_ok.
Qed.

(* ================================================================== *)
(* 11. the theorem for the concrete printer / reader: every literal qualifies *)

Definition all_nums (x : snum) : bool := true.
(* well-formed abstract QPLIB model: [wf_read] (one-word name, indices within the declared
   sizes, finite coefficients, single-field names) and [wf_keys] (every key listed once) *)
Definition wf_qp (M : qp_model) : bool := wf_model all_nums M.

Theorem C19_from_lines_render : forall M ly, wf_read all_nums M = true -> layout_ok ly = true ->
  from_lines (render ly M) = Ok (file_of M).
Proof.
  intros M ly. apply (from_lines_render all_nums).
  - intros x _. exact (proj1 (print_snum_ok x)).
  - intros x _. exact (proj2 (print_snum_ok x)).
Qed.

Theorem C19_load_render : forall M ly, wf_qp M = true -> layout_ok ly = true ->
  from_lines (render ly M) = Ok (file_of M)
  /\ exists ins, load (render ly M) = Loaded ins
                 /\ ainst_equiv (meaning M) (abstract ins)
                 /\ i_name ins = Some (m_name M)
                 /\ i_descr ins = ptype_string (m_ok M) (m_vk M) (m_ck M).
Proof.
  intros M ly. apply (load_render_gen all_nums).
  - intros x _. exact (proj1 (print_snum_ok x)).
  - intros x _. exact (proj2 (print_snum_ok x)).
Qed.

(* in the vocabulary of the runner: on the rendered text of a well-formed model the model
   reader never fails, never leaves the model, and the instance it builds has the content an
   `agree` of [ainst_cmp (meaning M) (abstract ins)] certifies ([ainst_cmp_sound]) *)
Corollary C19_runner_no_machinery_error : forall M ly, wf_qp M = true -> layout_ok ly = true ->
  exists ins, load (fst (render_fault ly M FNone)) = Loaded ins
    /\ a_sense (meaning M) = a_sense (abstract ins)
    /\ (forall rho, val rho (a_obj (meaning M)) = val rho (a_obj (abstract ins)))
    /\ List.length (a_vars (meaning M)) = List.length (a_vars (abstract ins))
    /\ List.length (a_cons (meaning M)) = List.length (a_cons (abstract ins))
    /\ (forall v, In v (a_vars (meaning M)) -> exists v', In v' (a_vars (abstract ins)) /\
          av_id v' = av_id v /\ av_kind v' = av_kind v /\ ext_eqb (av_lo v) (av_lo v') = true /\
          ext_eqb (av_hi v) (av_hi v') = true /\ optstr_eqb (av_name v) (av_name v') = true)
    /\ (forall c, In c (a_cons (meaning M)) -> exists c', In c' (a_cons (abstract ins)) /\
          ac_id c' = ac_id c /\ forall rho, val rho (ac_terms c) = val rho (ac_terms c')).
Proof.
  intros M ly H Hl. destruct (C19_load_render M ly H Hl) as (_ & ins & E & Heq & _).
  exists ins. split; [exact E|]. apply ainst_equiv_runner. exact Heq.
Qed.

(* ---- non-vacuity: the example of the QPLIB paper (QML, 3 variables, 2 constraints) with
   every number style, under a layout with comments, indentation, TAB and trailing text ---- *)
Definition ex_num (neg : bool) (m : N) (e : Z) (st : nat) : snum := SDec neg m e st.
Definition ex_model : qp_model :=
  {| m_name := "MIPBAND"; m_ok := OQ; m_vk := VM; m_ck := CL; m_sense := Minimize;
     m_n := 3; m_m := 2;
     m_q0 := [(1, 1, ex_num false 2 0 1); (2, 1, ex_num true 1 0 1); (2, 2, ex_num false 20 (-1) 0);
              (3, 2, ex_num true 10 (-1) 4); (3, 3, ex_num false 2 0 5)]%N;
     m_b0d := ex_num true 2 (-1) 0; m_b0 := [(2%N, ex_num true 4 (-1) 2)];
     m_q0c := ex_num false 0 0 1;
     m_qs := [];
     m_bs := [(1, 1, ex_num false 1 0 0); (1, 2, ex_num false 1 0 3); (2, 1, ex_num false 1 0 1);
              (2, 3, ex_num false 1 0 4)]%N;
     m_inf := ex_num false 1 20 4;
     m_cld := ex_num false 1 0 1; m_cl := [];
     m_cud := ex_num false 1 20 2; m_cu := [(2%N, SInf false)];
     m_ld := ex_num false 0 0 1; m_l := [(3%N, SInf true)];
     m_ud := ex_num false 1 0 1; m_u := [(2%N, ex_num false 2 0 1)];
     m_td := TCont; m_t := [(3%N, TBin); (1%N, TInt)];
     m_x0d := ex_num false 1 0 1; m_x0 := [];
     m_y0d := ex_num false 0 0 1; m_y0 := [(1%N, ex_num false 5 (-1) 0)];
     m_z0d := ex_num false 0 0 1; m_z0 := [];
     m_vnames := [(1%N, "x"%string); (3%N, "z#3"%string)];
     m_cnames := [(2%N, "second"%string)] |}.
Definition ex_layout : layout :=
  {| ly_code_lower := true; ly_sense_style := 2;
     ly_decos := [ {| d_before := ["! example"; ""; "  # indented comment"]%string;
                      d_indent := "  "%string; d_tab := false; d_trail := "# problem name"%string |};
                   {| d_before := []; d_indent := EmptyString; d_tab := true;
                      d_trail := "mixed-integer quadratic program"%string |};
                   plain; plain; plain;
                   {| d_before := ["% nonzeros"%string]; d_indent := tab; d_tab := true;
                      d_trail := "5 lines"%string |} ];
     ly_after := ["trailing text that is never read"%string] |}.
Example ex_wf : wf_qp ex_model = true /\ layout_ok ex_layout = true.
Proof. split; vm_compute; reflexivity. Qed.
Example ex_loads : exists ins, load (render ex_layout ex_model) = Loaded ins
                               /\ ainst_equiv (meaning ex_model) (abstract ins).
Proof.
  destruct (C19_load_render ex_model ex_layout (proj1 ex_wf) (proj2 ex_wf)) as (_ & ins & E & Q & _).
  exists ins. split; assumption.
Qed.
(* the key hypothesis is needed: a key listed twice is read as "last wins" (HashMap insert) while
   [meaning] looks up the first entry *)
Definition ex_dup : qp_model :=
  {| m_name := "D"; m_ok := OL; m_vk := VC; m_ck := CN; m_sense := Minimize; m_n := 1; m_m := 0;
     m_q0 := []; m_b0d := ex_num false 0 0 0;
     m_b0 := [(1%N, ex_num false 1 0 0); (1%N, ex_num false 2 0 0)];
     m_q0c := ex_num false 0 0 0; m_qs := []; m_bs := []; m_inf := ex_num false 1 20 2;
     m_cld := ex_num false 0 0 0; m_cl := []; m_cud := ex_num false 0 0 0; m_cu := [];
     m_ld := ex_num false 0 0 0; m_l := []; m_ud := ex_num false 1 0 0; m_u := [];
     m_td := TCont; m_t := []; m_x0d := ex_num false 0 0 0; m_x0 := [];
     m_y0d := ex_num false 0 0 0; m_y0 := []; m_z0d := ex_num false 0 0 0; m_z0 := [];
     m_vnames := []; m_cnames := [] |}.
Example ex_dup_differs :
  wf_read all_nums ex_dup = true /\ wf_keys ex_dup = false
  /\ f_b0 (file_of ex_dup) = [(0%N, Q2Qc 2)]
  /\ lookup 1%N (m_b0 ex_dup) (m_b0d ex_dup) = ex_num false 1 0 0.
Proof. repeat split; vm_compute; reflexivity. Qed.

Print Assumptions C19_from_lines_render.
Print Assumptions C19_load_render.
Print Assumptions C19_runner_no_machinery_error.
Print Assumptions print_snum_ok.
Print Assumptions parse_usize_digits.
