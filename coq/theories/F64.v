(* F64.v — a concrete rounding: round-to-nearest-even to 53 significant bits (the binary64
   rounding wherever the result is neither subnormal nor overflowing), computable on rationals,
   with its relative-error bound 2^-53 proved for every rational. *)
Require Import Ommx.Num Ommx.Poly Ommx.Msg Ommx.Eval Ommx.FEval.
From Coq Require Import Qabs Qround.
From Coq Require Qcabs.

Open Scope Q_scope.

(* nearest integer, ties to even *)
Definition rne (y : Q) : Z :=
  let f := Qfloor y in
  match Qcompare (y - inject_Z f) (1 # 2) with
  | Lt => f
  | Gt => (f + 1)%Z
  | Eq => if Z.even f then f else (f + 1)%Z
  end.

Lemma rne_err y : Qabs (inject_Z (rne y) - y) <= 1 # 2.
Proof.
  unfold rne. pose proof (Qfloor_le y) as L. pose proof (Qlt_floor y) as U.
  rewrite inject_Z_plus in U. change (inject_Z 1) with 1 in U.
  apply Qabs_Qle_condition.
  destruct (Qcompare (y - inject_Z (Qfloor y)) (1 # 2)) eqn:C.
  - apply Qeq_alt in C. destruct (Z.even (Qfloor y)); [|rewrite inject_Z_plus; change (inject_Z 1) with 1]; split; lra.
  - apply Qlt_alt in C. split; lra.
  - apply Qgt_alt in C. rewrite inject_Z_plus. change (inject_Z 1) with 1. split; lra.
Qed.

Lemma qpow2_pos k : 0 < qpow2 k.
Proof.
  unfold qpow2. destruct (0 <=? k)%Z eqn:E.
  - apply Z.leb_le in E. change 0 with (inject_Z 0). rewrite <- Zlt_Qlt. apply Z.pow_pos_nonneg; lia.
  - reflexivity.
Qed.

Definition two53 : Z := 9007199254740992.
Definition two52' : Z := 4503599627370496.

Definition rnd53Q (q : Q) : Q :=
  if Qeq_bool q 0 then 0 else
  let a := Qabs q in
  let k0 := (Z.log2 (Z.abs (Qnum q)) - Z.log2 (Zpos (Qden q)) - 53)%Z in
  let k := if Qle_bool (inject_Z two53 * qpow2 k0) a then (k0 + 1)%Z else k0 in
  let sc := qpow2 k in
  let y := a / sc in
  if Qle_bool (inject_Z two52') y then
    let v := inject_Z (rne y) * sc in if Qle_bool 0 q then v else - v
  else q.

Lemma rnd53Q_err q : Qabs (rnd53Q q - q) <= (1 # Z.to_pos two53) * Qabs q.
Proof.
  unfold rnd53Q. change (1 # Z.to_pos two53) with (1 # 9007199254740992).
  assert (Z0 : forall x, Qabs (x - x) <= (1 # 9007199254740992) * Qabs x).
  { intro x. setoid_replace (x - x) with 0 by ring. change (Qabs 0) with 0.
    pose proof (Qabs_nonneg x). nra. }
  destruct (Qeq_bool q 0) eqn:E0.
  - apply Qeq_bool_iff in E0. rewrite E0. apply Z0.
  - set (k := if Qle_bool (inject_Z two53 * _) _ then _ else _). clearbody k.
    pose proof (qpow2_pos k) as SC. set (sc := qpow2 k) in *. clearbody sc.
    destruct (Qle_bool (inject_Z two52') (Qabs q / sc)) eqn:E1; [|apply Z0].
    apply Qle_bool_iff in E1. set (y := Qabs q / sc) in *.
    assert (Ha : Qabs q == y * sc). { unfold y. field. lra. }
    pose proof (rne_err y) as R. apply Qabs_Qle_condition in R. destruct R as [R1 R2].
    set (m := inject_Z (rne y)) in *. clearbody m.
    change (inject_Z two52') with 4503599627370496 in E1.
    assert (B : -((1 # 9007199254740992) * (y * sc)) <= m * sc - y * sc /\ m * sc - y * sc <= (1 # 9007199254740992) * (y * sc)).
    { split; nra. }
    destruct B as [B1 B2].
    destruct (Qle_bool 0 q) eqn:E2.
    + apply Qle_bool_iff in E2. rewrite (Qabs_pos q E2) in Ha |- *.
      apply Qabs_Qle_condition. rewrite Ha. split; lra.
    + assert (N : q <= 0).
      { destruct (Qlt_le_dec 0 q) as [P|P]; [|exact P]. apply Qlt_le_weak in P. apply Qle_bool_iff in P. congruence. }
      rewrite (Qabs_neg q N) in Ha |- *.
      apply Qabs_Qle_condition. split; lra.
Qed.

Close Scope Q_scope.
Open Scope Qc_scope.

Definition rnd53 (x : Qc) : Qc := Q2Qc (rnd53Q (this x)).
Definition u53 : Qc := q2 (-53).

Lemma u53_nonneg : 0 <= u53. Proof. unfold Qcle. cbn. lra. Qed.

Lemma rnd53_err z : qabs (rnd53 z - z) <= u53 * qabs z.
Proof.
  unfold Qcle, qabs, rnd53, u53, q2.
  rewrite this_mult. change (this (Qcabs.Qcabs z)) with (Qabs (this z)).
  change (this (Qcabs.Qcabs (Q2Qc (rnd53Q (this z)) - z))) with (Qabs (this (Q2Qc (rnd53Q (this z)) - z))).
  rewrite this_minus, !this_Q2Qc.
  change (qpow2 (-53)) with (1 # Z.to_pos two53)%Q. apply rnd53Q_err.
Qed.

(* C01, rounding clause, for binary64 round-to-nearest-even (no underflow / overflow): the
   rounded evaluation differs from the exact value of the represented polynomial by at most
   ((1 + 2^-53)^K - 1) * sum |c| prod |x| *)
Theorem f64_eval_bound f s vh v ids :
  ffn_eval rnd53 f s = Some vh -> fn_eval f s = Some (v, ids) ->
  qabs (vh - v) <= (gpow u53 (fn_ops f) - 1) * fn_mag f s.
Proof. apply (ffn_eval_bound rnd53 u53 u53_nonneg rnd53_err). Qed.

(* exactness on "small dyadic" data: whenever no operation rounds, the rounded evaluation IS the
   exact evaluation *)
Definition fixed (x : Qc) : Prop := rnd53 x = x.
