(* SamplesState.v — C06 composite, the decision-variable values: the state returned by get k of the
   evaluated sample set gives every defined variable the value that evaluating the state stored
   for k alone reports for it (dependent variables evaluated, vacant ones filled). *)
Require Import Ommx.Num Ommx.Poly Ommx.Msg Ommx.Eval Ommx.Tree Ommx.Inst Ommx.InstProofs Ommx.Samples
        Ommx.SamplesProofs Ommx.SamplesCompose.
From Coq Require Import String.
Close Scope string_scope.
Open Scope list_scope.
Open Scope Qc_scope.

Lemma insert_subst_none : forall dvs s, (forall d, In d dvs -> dv_subst d = None) -> insert_subst dvs s = s.
Proof.
  induction dvs as [|d dvs IH]; intros s H; cbn [insert_subst]; [reflexivity|].
  rewrite (H d (or_introl eq_refl)). apply IH. intros d' Hd. apply H. right. exact Hd.
Qed.

Lemma complete_states_spec I : forall S S', complete_states I S = Some S' ->
  samples_ids S' = samples_ids S /\
  forall k st, samples_state S k = Some st ->
    exists t st', eval_deps (i_deps I) st = Some t /\ fill_vacant (i_dvs I) t = Some st' /\
                  samples_state S' k = Some st'.
Proof.
  induction S as [|[st0 ids] S IH]; intros S' H; cbn [complete_states] in H.
  - inversion H; subst. split; [reflexivity|]. intros k st G. discriminate.
  - destruct (eval_deps (i_deps I) st0) as [t|] eqn:E; [|discriminate].
    destruct (fill_vacant (i_dvs I) t) as [s2|] eqn:F; [|discriminate].
    destruct (complete_states I S) as [r|] eqn:R; [|discriminate].
    inversion H; subst. destruct (IH r eq_refl) as [K G]. split.
    + unfold samples_ids in *. cbn [flat_map snd]. rewrite K. reflexivity.
    + intros k st. cbn [samples_state]. destruct (mem k ids).
      * intro H0. inversion H0; subst. exists t, s2. auto.
      * apply G.
Qed.

Lemma samples_iter_keys S : map fst (samples_iter S) = samples_ids S.
Proof.
  unfold samples_iter, samples_ids. induction S as [|[st ids] S IH]; cbn [flat_map fst snd]; [reflexivity|].
  rewrite map_app, map_map. cbn [fst]. rewrite map_id, IH. reflexivity.
Qed.
Lemma samples_state_in : forall S k st, samples_state S k = Some st -> In (k, st) (samples_iter S).
Proof.
  unfold samples_iter. induction S as [|[s0 ids] S IH]; intros k st H; cbn [samples_state] in H; [discriminate|].
  cbn [flat_map fst snd]. apply in_or_app. destruct (mem k ids) eqn:M.
  - inversion H; subst. left. apply in_map_iff. exists k. split; [reflexivity|apply mem_In; exact M].
  - right. apply IH. exact H.
Qed.

Lemma alookup_in_nodup : forall (l : list (N * num)) k v, NoDup (map fst l) -> In (k, v) l -> alookup k l = Some v.
Proof.
  induction l as [|[j w] l IH]; intros k v ND Hin; [destruct Hin|].
  cbn [map fst] in ND. inversion ND as [|? ? Hn ND']; subst. cbn [alookup].
  destruct Hin as [E|Hin].
  - inversion E; subst. rewrite N.eqb_refl. reflexivity.
  - destruct (k =? j)%N eqn:Ek; [|apply IH; assumption].
    apply N.eqb_eq in Ek. subst j. exfalso. apply Hn. apply in_map_iff. exists (k, v). split; [reflexivity|exact Hin].
Qed.

(* keys of a filtered association list are a sub-list of the keys *)
Lemma nodup_filter_keys {X} (g : N * X -> list (N * num)) (Hg : forall kx p, In p (g kx) -> fst p = fst kx)
      (H1 : forall kx, (List.length (g kx) <= 1)%nat) :
  forall l : list (N * X), NoDup (map fst l) -> NoDup (map fst (flat_map g l)).
Proof.
  induction l as [|kx l IH]; intro ND; cbn [flat_map map]; [constructor|].
  cbn [map] in ND. inversion ND as [|? ? Hn ND']; subst.
  rewrite map_app. specialize (H1 kx). destruct (g kx) as [|p [|q r]] eqn:G; cbn [List.length] in H1; try lia.
  - cbn [map app]. apply IH. exact ND'.
  - cbn [map app]. constructor; [|apply IH; exact ND'].
    intro Hin. apply Hn. apply in_map_iff in Hin. destruct Hin as (p' & E1 & Hp').
    apply in_flat_map in Hp'. destruct Hp' as (ky & Hy & Hp'').
    apply in_map_iff. exists ky. split; [|exact Hy].
    rewrite <- (Hg ky p' Hp''), E1. apply (Hg kx p). rewrite G. left. reflexivity.
Qed.

Lemma transpose_get S d k st v : NoDup (samples_ids S) -> samples_state S k = Some st -> sget st d = Some v ->
  exists g, transpose_at S d = Some g /\ sv_get g k = Some v.
Proof.
  intros ND Hk Hv. unfold transpose_at.
  set (gfun := fun ks : N * state => match sget (snd ks) d with Some x => [(fst ks, x)] | None => [] end).
  set (l := flat_map gfun (samples_iter S)).
  assert (Hin : In (k, v) l).
  { apply in_flat_map. exists (k, st). split; [apply samples_state_in; exact Hk|].
    unfold gfun. cbn [fst snd]. rewrite Hv. left. reflexivity. }
  assert (NDl : NoDup (map fst l)).
  { apply nodup_filter_keys.
    - intros kx p. unfold gfun. destruct (sget (snd kx) d); [intros [E|[]]; subst p; reflexivity|intros []].
    - intro kx. unfold gfun. destruct (sget (snd kx) d); cbn; lia.
    - rewrite samples_iter_keys. exact ND. }
  destruct l as [|p l'] eqn:El; [destruct Hin|]. rewrite <- El in *.
  exists (group l). split; [reflexivity|]. rewrite (sv_get_group l NDl). apply alookup_in_nodup; assumption.
Qed.

Section StateOfGet.
  Variable I : instance.
  Variable S S' : samples.
  Variable k : N.
  Variable st' : state.
  Hypothesis NoSubst : forall d, In d (i_dvs I) -> dv_subst d = None.
  Hypothesis ND : NoDup (samples_ids S').
  Hypothesis Hk : samples_state S' k = Some st'.

  Definition mk (d : dvar) : sampled_dv := {| sd_dv := d; sd_samples := transpose_at S' (dv_id d) |}.

  Lemma get_state_spec : forall dvs acc,
    (forall d, In d dvs -> dv_subst d = None /\ sget st' (dv_id d) <> None) ->
    exists acc', get_state (map mk dvs) k acc = Some acc' /\
      forall i, sget acc' i = if mem i (map dv_id dvs) then sget st' i else sget acc i.
  Proof.
    induction dvs as [|d dvs IH]; intros acc H; cbn [map get_state].
    - exists acc. split; [reflexivity|]. intro i. reflexivity.
    - destruct (H d (or_introl eq_refl)) as [Hs Hv]. cbn [mk sd_dv sd_samples]. rewrite Hs.
      destruct (sget st' (dv_id d)) as [v|] eqn:G; [|contradiction].
      destruct (transpose_get S' (dv_id d) k st' v ND Hk G) as (g & Tg & Sg).
      rewrite Tg, Sg.
      destruct (IH (sset acc (dv_id d) v)) as (acc' & Ga & Sa).
      { intros d' Hd'. apply H. right. exact Hd'. }
      exists acc'. split; [exact Ga|]. intro i. rewrite Sa. unfold mem. cbn [existsb].
      fold (mem i (map dv_id dvs)). destruct (mem i (map dv_id dvs)); [rewrite orb_true_r; reflexivity|].
      rewrite orb_false_r, sget_sset. destruct (i =? dv_id d)%N eqn:Ei; [|reflexivity].
      apply N.eqb_eq in Ei. subst i. symmetry. exact G.
  Qed.
End StateOfGet.

(* C06 composite, variable values.  Hypothesis: no defined variable carries a substituted value
   (evaluate_samples does not insert substituted values before the dependency pass, evaluate does) *)
Theorem get_evaluate_samples_state I S k st ss m1 m2 :
  NoDup (samples_ids S) -> samples_state S k = Some st ->
  (forall d, In d (i_dvs I) -> dv_subst d = None) ->
  inst_eval_samples I S = Some ss -> ss_get ss k = Some m1 -> inst_eval I st = Some m2 ->
  forall i, sget (so_state m1) i = if mem i (map dv_id (i_dvs I)) then sget (so_state m2) i else None.
Proof.
  intros ND Hk NoSub. unfold inst_eval_samples, inst_eval.
  destruct (eval_samples_loop constr_eval_samples (i_cs I) S _ []) as [[fr cs1]|]; [|discriminate].
  destruct (eval_samples_loop removed_eval_samples (i_rs I) S fr cs1) as [[fe cs2]|]; [|discriminate].
  destruct (samples_map _ S) as [objs|]; [|discriminate].
  destruct (complete_states I S) as [S'|] eqn:CS; [|discriminate].
  intro H; inversion H; subst ss; clear H.
  destruct (negb (check_bound (i_dvs I) st tol7)); [intros _ H; discriminate|].
  destruct (eval_loop constr_eval (i_cs I) st true []) as [[fr2 ev1]|]; [|intros _ H; discriminate].
  destruct (eval_loop removed_eval (i_rs I) st fr2 ev1) as [[fe2 ev2]|]; [|intros _ H; discriminate].
  destruct (fn_eval (fn_or_zero (i_obj I)) st) as [[ob ids]|]; [|intros _ H; discriminate].
  rewrite (insert_subst_none _ _ NoSub).
  destruct (complete_states_spec I S S' CS) as [K G]. destruct (G k st Hk) as (t & st' & Ed & Fv & Hk').
  rewrite Ed, Fv. intros Gs H2; inversion H2; subst m2; clear H2. cbn [so_state].
  unfold ss_get in Gs. cbn [ss_constraints ss_dvs ss_objectives] in Gs.
  destruct (omap _ cs2) as [evs|]; [|discriminate].
  assert (ND' : NoDup (samples_ids S')) by (rewrite K; exact ND).
  destruct (get_state_spec S' k st' ND' Hk' (i_dvs I) []) as (acc' & Ga & Sa).
  { intros d Hd. split; [apply NoSub; exact Hd|].
    destruct (fill_vacant_spec _ _ _ Fv) as (_ & H2 & _). apply H2. exact Hd. }
  change (map (fun d => {| sd_dv := d; sd_samples := transpose_at S' (dv_id d) |}) (i_dvs I))
    with (map (mk S') (i_dvs I)) in Gs.
  rewrite Ga in Gs.
  destruct (match Some objs with Some o => sv_get o k | None => None end); [|discriminate].
  destruct (bget _ k); [|discriminate]. destruct (bget _ k); [|discriminate].
  inversion Gs; subst m1; clear Gs. cbn [so_state]. intro i. rewrite Sa. reflexivity.
Qed.
