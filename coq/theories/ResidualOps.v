(* ResidualOps.v -- residual forms of the composite operators for an ARBITRARY dropping test.

   ArithProofs.v / PEval.v / PuboProofs.v prove exactness of fn_add, fn_sub, fn_mul, fn_neg, fn_pe and
   of the PUBO / QUBO export under [tiny_exact tiny] (a dropped coefficient is exactly 0).  The SDK's
   test is |c| <= f64::EPSILON, which is not of that kind.  Here NO hypothesis is made on the test:
   for every operator an explicit residual term list is computed (from [resid_from] over exactly the
   term lists the operator merges, plus the terms it skips), every coefficient of which passed the
   test, and
        denote result rho + val rho residual = exact value            for every valuation rho.

   Contents
     0-1  generic facts (lengths of merge), residual lists of the Linear / Quadratic / Polynomial
          operators and their value equations  (R_lin_add, R_quad_add, R_mul_iters, R_lin_mul ...)
     2    fn_add          fn_add_resid,  fn_add_residual
     3    fn_neg (never merges: exact for every test), fn_sub, fn_mul
          (fn_mul has TWO residuals when a Polynomial meets a Linear / Quadratic: the final merge
           loses [d]; the conversion Polynomial::from of the smaller operand loses [e], which then
           gets multiplied by the polynomial operand [k]:  h + d + k * e = f * g)
     4    fn_pe           fn_pe_resid,   fn_pe_residual
     5    as_pubo / as_qubo (two tests enter / leave)  pubo_residual, qubo_residual
     6    coefficient bound -> error bound (val_bound, resid_bound, resid_bound_count, resid_bound_unit)
     7    main theorems; with the SDK's own tests (tiny_eps, enter_eps, leave_eps):
          |result - exact| <= (number of residual terms) * eps * M
     8    examples where tiny_eps really drops something
   The only hypothesis kept from the exact theorems is [fwf f] for fn_add / fn_sub (a Quadratic
   left operand has no duplicated (column,row) position: Quadratic::add collects the left operand
   with overwrite, see C02_duplicate_positions_matter). *)
Require Import Ommx.Num Ommx.Poly Ommx.Msg Ommx.Eval Ommx.Tree Ommx.Arith Ommx.ArithProofs
        Ommx.PEval Ommx.Inst Ommx.Transform Ommx.PuboProofs.
From Coq Require Qcabs.
From Coq Require Import String.
Close Scope string_scope.
Open Scope list_scope.
Open Scope Qc_scope.

(* ------------------------------------------------------------------ *)
(* 0. Generic facts about the keyed merge that Poly.v does not state *)
Section KeyedExtra.
  Context {K : Type}.
  Variable keqb : K -> K -> bool.
  Variable tiny : num -> bool.

  Lemma remove_length k (m : tlist K) : (List.length (remove keqb k m) <= List.length m)%nat.
  Proof.
    induction m as [|[k' c] m IH]; cbn [remove List.length]; [lia|].
    destruct (keqb k k'); cbn [List.length]; lia.
  Qed.
  Lemma upd_length k v (m : tlist K) : (List.length (upd keqb k v m) <= S (List.length m))%nat.
  Proof.
    induction m as [|[k' c] m IH]; cbn [upd List.length]; [lia|].
    destruct (keqb k k'); cbn [List.length]; lia.
  Qed.
  Lemma merge_from_length l : forall m : tlist K,
    (List.length (merge_from keqb tiny m l) <= List.length m + List.length l)%nat.
  Proof.
    induction l as [|[k c] l IH]; intro m; [rewrite merge_from_nil; cbn [List.length]; lia|].
    rewrite merge_from_cons. specialize (IH (mstep keqb tiny m (k, c))).
    cbn [List.length]. unfold mstep in *; cbn [fst snd] in *.
    destruct (tiny (getd keqb k m + c)).
    - pose proof (remove_length k m). lia.
    - pose proof (upd_length k (getd keqb k m + c) m). lia.
  Qed.
  Lemma merge_length (l : tlist K) : (List.length (merge keqb tiny l) <= List.length l)%nat.
  Proof. unfold merge. pose proof (merge_from_length l []). cbn [List.length] in *. lia. Qed.
End KeyedExtra.

Lemma resid_never {K : Type} (keqb : K -> K -> bool) (l m : tlist K) :
  resid_from keqb never m l = [].
Proof.
  revert m; induction l as [|[k c] l IH]; intro m; cbn [resid_from fst snd]; [reflexivity|].
  unfold never at 1. apply IH.
Qed.

(* ------------------------------------------------------------------ *)
(* 1. Residual term lists *)
Definition all_pass (test : num -> bool) (d : terms) : Prop :=
  Forall (fun mc => test (snd mc) = true) d.

Lemma all_pass_nil test : all_pass test [].
Proof. constructor. Qed.
Lemma all_pass_app test a b : all_pass test a -> all_pass test b -> all_pass test (a ++ b).
Proof. intros Ha Hb. apply Forall_app. split; assumption. Qed.
Lemma all_pass_lin1 test (ts : list (N * num)) :
  Forall (fun kc => test (snd kc) = true) ts -> all_pass test (lin1 ts).
Proof.
  unfold all_pass, lin1. intro H. apply Forall_map. eapply Forall_impl; [|exact H].
  intros [i c]; cbn [snd]; auto.
Qed.
Lemma all_pass_quad2 test (z : tlist (N * N)) :
  Forall (fun kc => test (snd kc) = true) z -> all_pass test (quad2 z).
Proof.
  unfold all_pass, quad2. intro H. apply Forall_map. eapply Forall_impl; [|exact H].
  intros [[i j] c]; cbn [snd]; auto.
Qed.
Lemma lin1_length (ts : list (N * num)) : List.length (lin1 ts) = List.length ts.
Proof. apply map_length. Qed.
Lemma quad2_length (z : tlist (N * N)) : List.length (quad2 z) = List.length z.
Proof. apply map_length. Qed.

Definition nterms (f : function) : nat := List.length (fn_terms f).

Lemma lin_terms_length l : List.length (lin_terms l) = S (List.length (l_terms l)).
Proof. unfold lin_terms. rewrite app_length, lin1_length. cbn [List.length]. lia. Qed.
Lemma quad_terms_length q :
  List.length (quad_terms q) = (List.length (q_entries q) + List.length (optlin_terms (q_lin q)))%nat.
Proof. unfold quad_terms, q_entries. rewrite app_length, quad2_length. reflexivity. Qed.
Lemma zip3_length_swap (r c : list N) (v : list num) :
  List.length (zip3 c r v) = List.length (zip3 r c v).
Proof.
  revert c v; induction r as [|i r IH]; intros [|j c] [|x v]; cbn [zip3 List.length]; try reflexivity.
  rewrite IH. reflexivity.
Qed.
Lemma q_entries_cr_length q : List.length (q_entries_cr q) = List.length (q_entries q).
Proof. apply zip3_length_swap. Qed.
Lemma filter_length_le {A} (p : A -> bool) (l : list A) :
  (List.length (filter p l) <= List.length l)%nat.
Proof. induction l as [|a l IH]; cbn [filter List.length]; [lia|]. destruct (p a); cbn [List.length]; lia. Qed.
Lemma lin_iter_length l : (List.length (lin_iter l) <= S (List.length (l_terms l)))%nat.
Proof. unfold lin_iter. rewrite <- lin_terms_length. apply filter_length_le. Qed.
Lemma quad_iter_length q : (List.length (quad_iter q) <= List.length (quad_terms q))%nat.
Proof.
  unfold quad_iter. rewrite app_length, map_length, quad_terms_length.
  destruct (q_lin q) as [l|]; cbn [optlin_terms List.length]; [|lia].
  pose proof (lin_iter_length l). rewrite lin_terms_length. lia.
Qed.
Lemma poly_iter_length p : List.length (poly_iter p) = List.length p.
Proof. apply map_length. Qed.
Lemma poly_of_c_length c : (List.length (poly_of_c c) <= 1)%nat.
Proof. unfold poly_of_c. destruct (qeqb c 0); cbn [List.length]; lia. Qed.

(* from  a + b = c  rewrite  a  into  c - b  in the goal *)
Ltac lin_from E :=
  match type of E with
  | ?a + ?b = ?c =>
      let H := fresh "Hlf" in
      assert (H : a = c - b) by (rewrite <- E; ring); rewrite H; clear H
  end.

Section Resid.
  Variable tiny : num -> bool.

  (* what merging a linear / monomial-keyed term list loses *)
  Definition rlin (ts : list (N * num)) : terms := lin1 (resid_from N.eqb tiny [] ts).
  Definition rpoly (t : terms) : terms := resid_from ids_eqb tiny [] t.

  Lemma rlin_pass ts : all_pass tiny (rlin ts).
  Proof. apply all_pass_lin1. apply resid_from_tiny. Qed.
  Lemma rpoly_pass t : all_pass tiny (rpoly t).
  Proof. apply resid_from_tiny. Qed.
  Lemma rlin_length ts : (List.length (rlin ts) <= List.length ts)%nat.
  Proof. unfold rlin. rewrite lin1_length. apply resid_from_length. Qed.
  Lemma rpoly_length t : (List.length (rpoly t) <= List.length t)%nat.
  Proof. apply resid_from_length. Qed.

  Definition lin_add_resid (a b : linear) : terms := rlin (l_terms a ++ l_terms b).
  Definition poly_add_resid (a b : polynomial) : terms := rpoly (a ++ b).
  Definition poly_of_lin_resid (l : linear) : terms := rpoly (lin_iter l).
  Definition poly_of_quad_resid (q : quadratic) : terms := rpoly (quad_iter q).
  Definition quad_add_lin_resid (q : quadratic) (l : linear) : terms :=
    match q_lin q with Some x => lin_add_resid x l | None => [] end.
  Definition quad_add_resid (a b : quadratic) : terms :=
    quad2 (resid_from pair_eqb tiny (collect_overwrite (q_entries_cr a)) (q_entries_cr b))
    ++ match q_lin a, q_lin b with Some l, Some r => lin_add_resid l r | _, _ => [] end.
  Definition pair_products (a b : terms) : terms :=
    flat_map (fun x => map (fun y => (sort_ids (fst y ++ fst x), snd x * snd y)) b) a.
  Definition mul_iters_resid (a b : terms) : terms :=
    rpoly (merge ids_eqb never (pair_products a b)).
  Definition lin_mul_resid (a b : linear) : terms :=
    lin_add_resid (lin_scale a (l_const b)) (lin_scale b (l_const a)).

  Section Val.
    Variable rho : valuation.
    Notation V := (val rho).

    Lemma V_rlin ts : valg rho (merge N.eqb tiny ts) + V (rlin ts) = valg rho ts.
    Proof. unfold rlin. rewrite val_lin1. apply (merge_val N.eqb Neqb_spec rho tiny ts). Qed.
    Lemma V_rpoly t : V (merge ids_eqb tiny t) + V (rpoly t) = V t.
    Proof. apply (merge_val ids_eqb ids_eqb_spec (mono_val rho) tiny t). Qed.

    Lemma R_lin_add a b :
      V (lin_terms (lin_add tiny a b)) + V (lin_add_resid a b) = V (lin_terms a) + V (lin_terms b).
    Proof.
      rewrite !V_lin. unfold lin_add, lin_add_resid; cbn [l_terms l_const].
      pose proof (V_rlin (l_terms a ++ l_terms b)) as E. rewrite valg_app in E.
      transitivity ((valg rho (merge N.eqb tiny (l_terms a ++ l_terms b)) + V (rlin (l_terms a ++ l_terms b)))
                    + (l_const a + l_const b)); [ring|].
      rewrite E. ring.
    Qed.
    Lemma R_lin_new ts c : V (lin_terms (lin_new tiny ts c)) + V (rlin ts) = valg rho ts + c.
    Proof.
      rewrite V_lin. unfold lin_new; cbn [l_terms l_const]. rewrite <- (V_rlin ts). ring.
    Qed.
    Lemma R_poly_from_iter t : V (poly_from_iter tiny t) + V (rpoly t) = V t.
    Proof. apply V_rpoly. Qed.
    Lemma R_poly_add a b : V (poly_add tiny a b) + V (poly_add_resid a b) = V a + V b.
    Proof. unfold poly_add, poly_add_resid. rewrite V_rpoly. apply val_app. Qed.
    Lemma R_poly_of_lin l : V (poly_of_lin tiny l) + V (poly_of_lin_resid l) = V (lin_terms l).
    Proof. unfold poly_of_lin, poly_of_lin_resid. rewrite R_poly_from_iter. apply V_lin_iter. Qed.
    Lemma R_poly_of_quad q : V (poly_of_quad tiny q) + V (poly_of_quad_resid q) = V (quad_terms q).
    Proof. unfold poly_of_quad, poly_of_quad_resid. rewrite R_poly_from_iter. apply V_quad_iter. Qed.

    Lemma R_quad_add_lin q l :
      V (quad_terms (quad_add_lin tiny q l)) + V (quad_add_lin_resid q l)
      = V (quad_terms q) + V (lin_terms l).
    Proof.
      unfold quad_add_lin, quad_add_lin_resid. rewrite V_set_lin, V_quad_terms.
      destruct (q_lin q) as [x|]; cbn [optlin_terms].
      - rewrite <- Qcplus_assoc, R_lin_add. ring.
      - rewrite !val_nil. ring.
    Qed.

    Lemma entries_from_iter m : valg (pkv rho) (q_entries (quad_from_iter m)) = valg (pkv rho) m.
    Proof.
      pose proof (V_quad_from_iter rho m) as Q. rewrite V_quad_terms in Q.
      cbn [quad_from_iter q_lin optlin_terms] in Q. rewrite val_nil in Q.
      rewrite <- Q. ring.
    Qed.

    Lemma R_quad_add a b : qwf a ->
      V (quad_terms (quad_add tiny a b)) + V (quad_add_resid a b)
      = V (quad_terms a) + V (quad_terms b).
    Proof.
      intro W. unfold quad_add, quad_add_resid.
      destruct (collect_overwrite_val rho (q_entries_cr a) W) as [N1 E1].
      set (m0 := collect_overwrite (q_entries_cr a)) in *.
      pose proof (merge_from_val pair_eqb pair_eqb_spec (pkv rho) tiny (q_entries_cr b) m0 N1) as Em.
      rewrite E1, !q_entries_cr_val in Em.
      set (m := merge_from pair_eqb tiny m0 (q_entries_cr b)) in *.
      set (dq := resid_from pair_eqb tiny m0 (q_entries_cr b)) in *.
      rewrite V_set_lin, entries_from_iter, val_app, V_quad2, !V_quad_terms.
      destruct (q_lin a) as [l|], (q_lin b) as [r|]; cbn [optlin_terms]; rewrite ?val_nil.
      - pose proof (R_lin_add l r) as EL.
        destruct (lin_is_zero (lin_add tiny l r)) eqn:Z; cbn [optlin_terms].
        + apply (lin_is_zero_V rho) in Z. rewrite Z in EL. rewrite val_nil.
          transitivity ((valg (pkv rho) m + valg (pkv rho) dq) + (0 + V (lin_add_resid l r))); [ring|].
          rewrite Em, EL. ring.
        + transitivity ((valg (pkv rho) m + valg (pkv rho) dq)
                        + (V (lin_terms (lin_add tiny l r)) + V (lin_add_resid l r))); [ring|].
          rewrite Em, EL. ring.
      - transitivity ((valg (pkv rho) m + valg (pkv rho) dq) + V (lin_terms l)); [ring|]. rewrite Em. ring.
      - transitivity ((valg (pkv rho) m + valg (pkv rho) dq) + V (lin_terms r)); [ring|]. rewrite Em. ring.
      - transitivity (valg (pkv rho) m + valg (pkv rho) dq); [ring|]. rewrite Em. ring.
    Qed.

    Lemma R_mul_iters a b : V (mul_iters tiny a b) + V (mul_iters_resid a b) = V a * V b.
    Proof.
      unfold mul_iters, mul_iters_resid. rewrite R_poly_from_iter, V_merge_never. apply V_pairs.
    Qed.
    Lemma R_quad_mul a b :
      V (quad_mul tiny a b) + V (mul_iters_resid (quad_iter a) (quad_iter b))
      = V (quad_terms a) * V (quad_terms b).
    Proof. unfold quad_mul. rewrite R_mul_iters, !V_quad_iter. reflexivity. Qed.
    Lemma R_poly_mul a b :
      V (poly_mul tiny a b) + V (mul_iters_resid (poly_iter a) (poly_iter b)) = V a * V b.
    Proof. unfold poly_mul. rewrite R_mul_iters, !V_poly_iter. reflexivity. Qed.

    Lemma R_lin_mul a b :
      V (quad_terms (lin_mul tiny a b)) + V (lin_mul_resid a b) = V (lin_terms a) * V (lin_terms b).
    Proof.
      unfold lin_mul, lin_mul_resid.
      set (prods := flat_map _ (l_terms a)).
      set (la := lin_scale a (l_const b)). set (lb := lin_scale b (l_const a)).
      change (V (quad_terms (set_lin (quad_from_iter (merge pair_eqb never prods))
                (Some (lin_sub_c (lin_add tiny la lb) (l_const b * l_const a)))))
              + V (lin_add_resid la lb) = V (lin_terms a) * V (lin_terms b)).
      rewrite V_set_lin, entries_from_iter. cbn [optlin_terms]. rewrite V_lin_sub_c.
      rewrite (merge_val_exact pair_eqb pair_eqb_spec (pkv rho) never _ never_exact).
      assert (EL : V (lin_terms (lin_add tiny la lb)) + V (lin_add_resid la lb)
                   = V (lin_terms a) * l_const b + V (lin_terms b) * l_const a).
      { rewrite R_lin_add. unfold la, lb. rewrite !V_lin_scale. reflexivity. }
      unfold prods. rewrite valg_prods.
      transitivity (valg rho (l_terms a) * valg rho (l_terms b)
                    + ((V (lin_terms (lin_add tiny la lb)) + V (lin_add_resid la lb))
                       - l_const b * l_const a)); [ring|].
      rewrite EL, !V_lin. ring.
    Qed.
  End Val.

  (* ---- tests and lengths of these residuals ---- *)
  Lemma lin_add_resid_pass a b : all_pass tiny (lin_add_resid a b).
  Proof. apply rlin_pass. Qed.
  Lemma lin_add_resid_length a b :
    (List.length (lin_add_resid a b) <= List.length (l_terms a) + List.length (l_terms b))%nat.
  Proof. unfold lin_add_resid. pose proof (rlin_length (l_terms a ++ l_terms b)) as H.
    rewrite app_length in H. exact H. Qed.
  Lemma poly_add_resid_pass a b : all_pass tiny (poly_add_resid a b).
  Proof. apply rpoly_pass. Qed.
  Lemma poly_add_resid_length a b :
    (List.length (poly_add_resid a b) <= List.length a + List.length b)%nat.
  Proof. unfold poly_add_resid. pose proof (rpoly_length (a ++ b)) as H.
    rewrite app_length in H. exact H. Qed.
  Lemma quad_add_lin_resid_pass q l : all_pass tiny (quad_add_lin_resid q l).
  Proof. unfold quad_add_lin_resid. destruct (q_lin q); [apply rlin_pass|apply all_pass_nil]. Qed.
  Lemma quad_add_lin_resid_length q l :
    (List.length (quad_add_lin_resid q l)
     <= List.length (optlin_terms (q_lin q)) + List.length (l_terms l))%nat.
  Proof.
    unfold quad_add_lin_resid. destruct (q_lin q) as [x|]; cbn [optlin_terms List.length]; [|lia].
    pose proof (lin_add_resid_length x l). rewrite lin_terms_length. lia.
  Qed.
  Lemma quad_add_resid_pass a b : all_pass tiny (quad_add_resid a b).
  Proof.
    unfold quad_add_resid. apply all_pass_app.
    - apply all_pass_quad2. apply resid_from_tiny.
    - destruct (q_lin a), (q_lin b); try apply all_pass_nil. apply rlin_pass.
  Qed.
  Lemma quad_add_resid_length a b :
    (List.length (quad_add_resid a b) <= List.length (quad_terms a) + List.length (quad_terms b))%nat.
  Proof.
    unfold quad_add_resid. rewrite app_length, quad2_length, !quad_terms_length.
    pose proof (resid_from_length pair_eqb tiny (q_entries_cr b) (collect_overwrite (q_entries_cr a))) as H.
    rewrite q_entries_cr_length in H.
    destruct (q_lin a) as [l|], (q_lin b) as [r|]; cbn [optlin_terms List.length]; try lia.
    pose proof (lin_add_resid_length l r). rewrite !lin_terms_length. lia.
  Qed.
  Lemma pair_products_length a b :
    List.length (pair_products a b) = (List.length a * List.length b)%nat.
  Proof.
    unfold pair_products. induction a as [|x a IH]; cbn [flat_map List.length]; [reflexivity|].
    rewrite app_length, map_length, IH. lia.
  Qed.
  Lemma mul_iters_resid_pass a b : all_pass tiny (mul_iters_resid a b).
  Proof. apply rpoly_pass. Qed.
  Lemma mul_iters_resid_length a b :
    (List.length (mul_iters_resid a b) <= List.length a * List.length b)%nat.
  Proof.
    unfold mul_iters_resid.
    pose proof (rpoly_length (merge ids_eqb never (pair_products a b))).
    pose proof (merge_length ids_eqb never (pair_products a b)).
    rewrite pair_products_length in *. lia.
  Qed.
  Lemma lin_scale_length a k : (List.length (l_terms (lin_scale a k)) <= List.length (l_terms a))%nat.
  Proof.
    unfold lin_scale. destruct (qeqb k 0); cbn [lin_zero l_terms List.length]; [lia|].
    rewrite map_length. lia.
  Qed.
  Lemma lin_mul_resid_pass a b : all_pass tiny (lin_mul_resid a b).
  Proof. apply rlin_pass. Qed.
  Lemma lin_mul_resid_length a b :
    (List.length (lin_mul_resid a b) <= List.length (l_terms a) + List.length (l_terms b))%nat.
  Proof.
    unfold lin_mul_resid.
    pose proof (lin_add_resid_length (lin_scale a (l_const b)) (lin_scale b (l_const a))).
    pose proof (lin_scale_length a (l_const b)). pose proof (lin_scale_length b (l_const a)). lia.
  Qed.
  Lemma poly_of_lin_length l : (List.length (poly_of_lin tiny l) <= S (List.length (l_terms l)))%nat.
  Proof.
    unfold poly_of_lin, poly_from_iter.
    pose proof (merge_length ids_eqb tiny (lin_iter l)). pose proof (lin_iter_length l). lia.
  Qed.
  Lemma poly_of_quad_length q : (List.length (poly_of_quad tiny q) <= List.length (quad_terms q))%nat.
  Proof.
    unfold poly_of_quad, poly_from_iter.
    pose proof (merge_length ids_eqb tiny (quad_iter q)). pose proof (quad_iter_length q). lia.
  Qed.
  Lemma poly_of_lin_resid_length l :
    (List.length (poly_of_lin_resid l) <= S (List.length (l_terms l)))%nat.
  Proof. unfold poly_of_lin_resid. pose proof (rpoly_length (lin_iter l)). pose proof (lin_iter_length l). lia. Qed.
  Lemma poly_of_quad_resid_length q :
    (List.length (poly_of_quad_resid q) <= List.length (quad_terms q))%nat.
  Proof. unfold poly_of_quad_resid. pose proof (rpoly_length (quad_iter q)). pose proof (quad_iter_length q). lia. Qed.

  (* ================================================================ *)
  (* 2. fn_add *)
  Definition fn_add_resid (f g : function) : terms :=
    match f, g with
    | FLin a, FLin b => lin_add_resid a b
    | FQuad q, FLin l | FLin l, FQuad q => quad_add_lin_resid q l
    | FQuad a, FQuad b => quad_add_resid a b
    | FPoly p, FConst c | FConst c, FPoly p => poly_add_resid p (poly_of_c c)
    | FPoly p, FLin l | FLin l, FPoly p =>
        poly_of_lin_resid l ++ poly_add_resid p (poly_of_lin tiny l)
    | FPoly p, FQuad q | FQuad q, FPoly p =>
        poly_of_quad_resid q ++ poly_add_resid p (poly_of_quad tiny q)
    | FPoly a, FPoly b => poly_add_resid a b
    | _, _ => []
    end.

  Lemma fn_add_resid_pass f g : all_pass tiny (fn_add_resid f g).
  Proof.
    destruct f as [|a|la|qa|pa], g as [|b|lb|qb|pb]; cbn [fn_add_resid];
      try apply all_pass_nil; try apply rlin_pass; try apply rpoly_pass;
      try apply quad_add_lin_resid_pass; try apply quad_add_resid_pass;
      apply all_pass_app; apply rpoly_pass.
  Qed.

  Lemma fn_add_resid_length f g :
    (List.length (fn_add_resid f g) <= 2 * (nterms f + nterms g))%nat.
  Proof.
    unfold nterms.
    destruct f as [|a|la|qa|pa], g as [|b|lb|qb|pb]; cbn [fn_add_resid fn_terms List.length];
      try lia; rewrite ?app_length, ?lin_terms_length.
    - pose proof (poly_add_resid_length pb (poly_of_c a)). pose proof (poly_of_c_length a). lia.
    - pose proof (lin_add_resid_length la lb). lia.
    - pose proof (quad_add_lin_resid_length qb la). rewrite quad_terms_length. lia.
    - pose proof (poly_of_lin_resid_length la). pose proof (poly_add_resid_length pb (poly_of_lin tiny la)).
      pose proof (poly_of_lin_length la). lia.
    - pose proof (quad_add_lin_resid_length qa lb). rewrite quad_terms_length. lia.
    - pose proof (quad_add_resid_length qa qb). lia.
    - pose proof (poly_of_quad_resid_length qa). pose proof (poly_add_resid_length pb (poly_of_quad tiny qa)).
      pose proof (poly_of_quad_length qa). lia.
    - pose proof (poly_add_resid_length pa (poly_of_c b)). pose proof (poly_of_c_length b). lia.
    - pose proof (poly_of_lin_resid_length lb). pose proof (poly_add_resid_length pa (poly_of_lin tiny lb)).
      pose proof (poly_of_lin_length lb). lia.
    - pose proof (poly_of_quad_resid_length qb). pose proof (poly_add_resid_length pa (poly_of_quad tiny qb)).
      pose proof (poly_of_quad_length qb). lia.
    - pose proof (poly_add_resid_length pa pb). lia.
  Qed.

  Lemma fn_add_resid_val f g h : fwf f -> fn_add tiny f g = Some h ->
    forall rho, denote h rho + val rho (fn_add_resid f g) = denote f rho + denote g rho.
  Proof.
    intros W E rho. unfold denote.
    destruct f as [|a|la|qa|pa], g as [|b|lb|qb|pb]; cbn [fn_add] in E; try discriminate;
      inversion E; subst h; clear E; cbn [fn_add_resid fn_terms];
      rewrite ?val_app, ?val_cons, ?val_nil; cbn [mono_val].
    - ring.
    - rewrite V_lin_add_c. ring.
    - rewrite V_quad_add_c. ring.
    - rewrite R_poly_add, V_poly_of_c. ring.
    - rewrite V_lin_add_c. ring.
    - apply R_lin_add.
    - rewrite R_quad_add_lin. ring.
    - lin_from (R_poly_add rho pb (poly_of_lin tiny la)). rewrite <- (R_poly_of_lin rho la). ring.
    - rewrite V_quad_add_c. ring.
    - apply R_quad_add_lin.
    - apply R_quad_add. exact W.
    - lin_from (R_poly_add rho pb (poly_of_quad tiny qa)). rewrite <- (R_poly_of_quad rho qa). ring.
    - rewrite R_poly_add, V_poly_of_c. ring.
    - lin_from (R_poly_add rho pa (poly_of_lin tiny lb)). rewrite <- (R_poly_of_lin rho lb). ring.
    - lin_from (R_poly_add rho pa (poly_of_quad tiny qb)). rewrite <- (R_poly_of_quad rho qb). ring.
    - apply R_poly_add.
  Qed.
End Resid.

(* ================================================================ *)
(* 3. fn_neg never merges: it is exact for EVERY dropping test *)
Lemma zip3_map_length (r c : list N) (v : list num) (g : num -> num) :
  List.length (zip3 r c (map g v)) = List.length (zip3 r c v).
Proof.
  revert c v; induction r as [|i r IH]; intros [|j c] [|x v]; cbn [map zip3 List.length]; try reflexivity.
  rewrite IH. reflexivity.
Qed.

Section NegSubMul.
  Variable tiny : num -> bool.

  Theorem fn_neg_exact f h : fn_neg tiny f = Some h -> forall rho, denote h rho = - denote f rho.
  Proof.
    unfold fn_neg, denote. intros E rho.
    destruct f as [|a|la|qa|pa]; cbn [fn_mul] in E; try discriminate; inversion E; subst h; clear E;
      cbn [fn_terms].
    - rewrite !val_cons, val_nil. ring.
    - rewrite V_lin_scale. ring.
    - rewrite V_quad_scale. ring.
    - rewrite V_poly_scale. ring.
  Qed.

  Lemma neg1_nonzero : qeqb (- (1)) 0 = false.
  Proof. reflexivity. Qed.

  Lemma fn_neg_nterms f h : fn_neg tiny f = Some h -> nterms h = nterms f.
  Proof.
    unfold fn_neg, nterms. intros E.
    destruct f as [|a|la|qa|pa]; cbn [fn_mul] in E; try discriminate; inversion E; subst h; clear E;
      cbn [fn_terms].
    - reflexivity.
    - rewrite !lin_terms_length. unfold lin_scale. rewrite neg1_nonzero. cbn [l_terms].
      rewrite map_length. reflexivity.
    - rewrite !quad_terms_length. unfold quad_scale. rewrite neg1_nonzero.
      unfold q_entries; cbn [q_rows q_cols q_vals q_lin]. rewrite zip3_map_length. f_equal.
      destruct (q_lin qa) as [l|]; cbn [optlin_terms]; [|reflexivity].
      rewrite !lin_terms_length. unfold lin_scale. rewrite neg1_nonzero. cbn [l_terms].
      rewrite map_length. reflexivity.
    - unfold poly_scale. rewrite neg1_nonzero. apply map_length.
  Qed.

  (* ---- fn_sub = fn_add f (fn_neg g) ---- *)
  Definition fn_sub_resid (f g : function) : terms :=
    match fn_neg tiny g with Some g' => fn_add_resid tiny f g' | None => [] end.

  Lemma fn_sub_resid_pass f g : all_pass tiny (fn_sub_resid f g).
  Proof. unfold fn_sub_resid. destruct (fn_neg tiny g); [apply fn_add_resid_pass|apply all_pass_nil]. Qed.
  Lemma fn_sub_resid_length f g :
    (List.length (fn_sub_resid f g) <= 2 * (nterms f + nterms g))%nat.
  Proof.
    unfold fn_sub_resid. destruct (fn_neg tiny g) as [g'|] eqn:E; cbn [List.length]; [|lia].
    rewrite <- (fn_neg_nterms _ _ E). apply fn_add_resid_length.
  Qed.
  Lemma fn_sub_resid_val f g h : fwf f -> fn_sub tiny f g = Some h ->
    forall rho, denote h rho + val rho (fn_sub_resid f g) = denote f rho - denote g rho.
  Proof.
    unfold fn_sub, fn_sub_resid. intros W E rho.
    destruct (fn_neg tiny g) as [g'|] eqn:Ng; [|discriminate].
    rewrite (fn_add_resid_val tiny _ _ _ W E rho), (fn_neg_exact _ _ Ng rho). ring.
  Qed.

  (* ---- fn_mul ---- *)
  (* what the final accumulate-and-drop of the product loses *)
  Definition fn_mul_resid (f g : function) : terms :=
    match f, g with
    | FLin a, FLin b => lin_mul_resid tiny a b
    | FQuad q, FLin l | FLin l, FQuad q =>
        mul_iters_resid tiny (quad_iter q) (quad_iter (quad_of_lin l))
    | FQuad a, FQuad b => mul_iters_resid tiny (quad_iter a) (quad_iter b)
    | FPoly p, FLin l | FLin l, FPoly p =>
        mul_iters_resid tiny (poly_iter p) (poly_iter (poly_of_lin tiny l))
    | FPoly p, FQuad q | FQuad q, FPoly p =>
        mul_iters_resid tiny (poly_iter p) (poly_iter (poly_of_quad tiny q))
    | FPoly a, FPoly b => mul_iters_resid tiny (poly_iter a) (poly_iter b)
    | _, _ => []
    end.
  (* Polynomial x Linear / Quadratic first converts the smaller operand to a Polynomial
     (Polynomial::from -> from_iter, which drops): what the conversion loses, and the
     polynomial operand it then gets multiplied with *)
  Definition fn_mul_conv_resid (f g : function) : terms :=
    match f, g with
    | FPoly p, FLin l | FLin l, FPoly p => poly_of_lin_resid tiny l
    | FPoly p, FQuad q | FQuad q, FPoly p => poly_of_quad_resid tiny q
    | _, _ => []
    end.
  Definition fn_mul_cofactor (f g : function) : terms :=
    match f, g with
    | FPoly p, (FLin _ | FQuad _) | (FLin _ | FQuad _), FPoly p => p
    | _, _ => []
    end.

  Lemma fn_mul_resid_pass f g : all_pass tiny (fn_mul_resid f g).
  Proof.
    destruct f as [|a|la|qa|pa], g as [|b|lb|qb|pb]; cbn [fn_mul_resid];
      try apply all_pass_nil; apply rlin_pass || apply rpoly_pass.
  Qed.
  Lemma fn_mul_conv_resid_pass f g : all_pass tiny (fn_mul_conv_resid f g).
  Proof.
    destruct f as [|a|la|qa|pa], g as [|b|lb|qb|pb]; cbn [fn_mul_conv_resid];
      try apply all_pass_nil; apply rpoly_pass.
  Qed.

  Lemma quad_of_lin_terms_length l :
    List.length (quad_terms (quad_of_lin l)) = List.length (lin_terms l).
  Proof. rewrite quad_terms_length. reflexivity. Qed.

  Lemma fn_mul_resid_length f g :
    (List.length (fn_mul_resid f g) <= nterms f * nterms g)%nat.
  Proof.
    unfold nterms.
    destruct f as [|a|la|qa|pa], g as [|b|lb|qb|pb]; cbn [fn_mul_resid fn_terms List.length];
      try lia;
      try (eapply Nat.le_trans; [apply mul_iters_resid_length|]; rewrite ?poly_iter_length).
    - pose proof (lin_mul_resid_length tiny la lb). rewrite !lin_terms_length. nia.
    - rewrite Nat.mul_comm, <- quad_of_lin_terms_length.
      apply Nat.mul_le_mono; apply quad_iter_length.
    - rewrite Nat.mul_comm. apply Nat.mul_le_mono; [|lia].
      rewrite lin_terms_length. apply poly_of_lin_length.
    - rewrite <- quad_of_lin_terms_length. apply Nat.mul_le_mono; apply quad_iter_length.
    - apply Nat.mul_le_mono; apply quad_iter_length.
    - rewrite Nat.mul_comm. apply Nat.mul_le_mono; [|lia]. apply poly_of_quad_length.
    - apply Nat.mul_le_mono; [lia|]. rewrite lin_terms_length. apply poly_of_lin_length.
    - apply Nat.mul_le_mono; [lia|]. apply poly_of_quad_length.
    - lia.
  Qed.
  Lemma fn_mul_conv_resid_length f g :
    (List.length (fn_mul_conv_resid f g) <= Nat.max (nterms f) (nterms g))%nat.
  Proof.
    unfold nterms.
    destruct f as [|a|la|qa|pa], g as [|b|lb|qb|pb]; cbn [fn_mul_conv_resid fn_terms List.length];
      try lia; rewrite ?lin_terms_length.
    - pose proof (poly_of_lin_resid_length tiny la). lia.
    - pose proof (poly_of_quad_resid_length tiny qa). lia.
    - pose proof (poly_of_lin_resid_length tiny lb). lia.
    - pose proof (poly_of_quad_resid_length tiny qb). lia.
  Qed.

  Lemma fn_mul_resid_val f g h : fn_mul tiny f g = Some h ->
    forall rho, denote h rho + val rho (fn_mul_resid f g)
                + val rho (fn_mul_cofactor f g) * val rho (fn_mul_conv_resid f g)
                = denote f rho * denote g rho.
  Proof.
    intros E rho. unfold denote.
    destruct f as [|a|la|qa|pa], g as [|b|lb|qb|pb]; cbn [fn_mul] in E; try discriminate;
      inversion E; subst h; clear E; cbn [fn_mul_resid fn_mul_cofactor fn_mul_conv_resid fn_terms];
      rewrite ?val_cons, ?val_nil; cbn [mono_val].
    - ring.
    - rewrite V_lin_scale. ring.
    - rewrite V_quad_scale. ring.
    - rewrite V_poly_scale. ring.
    - rewrite V_lin_scale. ring.
    - rewrite R_lin_mul. ring.
    - rewrite R_quad_mul, V_quad_of_lin. ring.
    - rewrite R_poly_mul. rewrite <- (R_poly_of_lin tiny rho la). ring.
    - rewrite V_quad_scale. ring.
    - rewrite R_quad_mul, V_quad_of_lin. ring.
    - rewrite R_quad_mul. ring.
    - rewrite R_poly_mul. rewrite <- (R_poly_of_quad tiny rho qa). ring.
    - rewrite V_poly_scale. ring.
    - rewrite R_poly_mul. rewrite <- (R_poly_of_lin tiny rho lb). ring.
    - rewrite R_poly_mul. rewrite <- (R_poly_of_quad tiny rho qb). ring.
    - rewrite R_poly_mul. ring.
  Qed.
End NegSubMul.

(* ================================================================ *)
(* 4. partial evaluation *)
Section PEResid.
  Variable tiny : num -> bool.

  (* the BTreeMap of new linear coefficients that Quadratic::partial_evaluate hands to Linear::new *)
  Definition quad_pe_acc (q : quadratic) (s : state) : list (N * num) :=
    let c0 := match q_lin q with Some l => l_const l | None => 0 end in
    let ts := match q_lin q with Some l => l_terms l | None => [] end in
    match quad_pe_lin ts s c0 [] [] with
    | (c1, acc1, used1) =>
        match quad_pe_entries (q_entries q) s c1 acc1 [] used1 with
        | (_, acc2, _, _) => acc2
        end
    end.
  (* the partially evaluated terms of a polynomial, before they are merged *)
  Definition poly_pe_pre (p : polynomial) (s : state) : terms := fst (poly_pe_terms tiny p s []).
  Definition skipped (p : polynomial) : terms := filter (fun mc => tiny (snd mc)) p.

  Definition fn_pe_resid (f : function) (s : state) : terms :=
    match f with
    | FQuad q => rlin tiny (merge N.eqb never (quad_pe_acc q s))
    | FPoly p => skipped p ++ rpoly tiny (poly_pe_pre p s)
    | _ => []
    end.

  Lemma skipped_pass p : all_pass tiny (skipped p).
  Proof.
    unfold skipped, all_pass. apply Forall_forall. intros mc H. apply filter_In in H. tauto.
  Qed.
  Lemma fn_pe_resid_pass f s : all_pass tiny (fn_pe_resid f s).
  Proof.
    destruct f; cbn [fn_pe_resid]; try apply all_pass_nil; [apply rlin_pass|].
    apply all_pass_app; [apply skipped_pass|apply rpoly_pass].
  Qed.

  Lemma quad_pe_lin_length s : forall ts c acc used c' acc' used',
    quad_pe_lin ts s c acc used = (c', acc', used') ->
    (List.length acc' <= List.length acc + List.length ts)%nat.
  Proof.
    induction ts as [|[i a] ts IH]; intros c acc used c' acc' used' H; cbn [quad_pe_lin] in H.
    - inversion H; subst. cbn [List.length]. lia.
    - destruct (sget s i); apply IH in H; rewrite ?app_length in H; cbn [List.length] in *; lia.
  Qed.
  Lemma quad_pe_entries_length s : forall z c acc keep used c' acc' keep' used',
    quad_pe_entries z s c acc keep used = (c', acc', keep', used') ->
    (List.length acc' <= List.length acc + List.length z)%nat.
  Proof.
    induction z as [|[[r cl] x] z IH]; intros c acc keep used c' acc' keep' used' H;
      cbn [quad_pe_entries] in H.
    - inversion H; subst. cbn [List.length]. lia.
    - destruct (sget s r), (sget s cl); apply IH in H; rewrite ?app_length in H;
        cbn [List.length] in *; lia.
  Qed.
  Lemma quad_pe_acc_length q s : (List.length (quad_pe_acc q s) <= List.length (quad_terms q))%nat.
  Proof.
    unfold quad_pe_acc.
    set (c0 := match q_lin q with Some l => l_const l | None => 0 end).
    set (ts := match q_lin q with Some l => l_terms l | None => [] end).
    destruct (quad_pe_lin ts s c0 [] []) as [[c1 acc1] used1] eqn:E1.
    destruct (quad_pe_entries (q_entries q) s c1 acc1 [] used1) as [[[c2 acc2] keep] used2] eqn:E2.
    apply quad_pe_lin_length in E1. apply quad_pe_entries_length in E2.
    rewrite quad_terms_length. cbn [List.length] in E1.
    assert (List.length ts <= List.length (optlin_terms (q_lin q)))%nat.
    { unfold ts. destruct (q_lin q) as [l|]; cbn [optlin_terms List.length]; [|lia].
      rewrite lin_terms_length. lia. }
    lia.
  Qed.

  Lemma poly_pe_terms_length s : forall p used t used',
    poly_pe_terms tiny p s used = (t, used') ->
    (List.length t + List.length (skipped p) = List.length p)%nat.
  Proof.
    unfold skipped.
    induction p as [|[ids c] p IH]; intros used t used' H; cbn [poly_pe_terms] in H.
    - inversion H; subst. reflexivity.
    - cbn [filter snd]. destruct (tiny c) eqn:T.
      + apply IH in H. cbn [List.length]. lia.
      + destruct (mono_pe ids s c [] used) as [[v rest] used1] eqn:M.
        destruct (poly_pe_terms tiny p s used1) as [t1 used2] eqn:P.
        inversion H; subst. apply IH in P. cbn [List.length]. lia.
  Qed.

  Lemma fn_pe_resid_length f s : (List.length (fn_pe_resid f s) <= nterms f)%nat.
  Proof.
    unfold nterms. destruct f as [|c|l|q|p]; cbn [fn_pe_resid fn_terms List.length]; try lia.
    - pose proof (rlin_length tiny (merge N.eqb never (quad_pe_acc q s))).
      pose proof (merge_length N.eqb never (quad_pe_acc q s)).
      pose proof (quad_pe_acc_length q s). lia.
    - rewrite app_length. unfold poly_pe_pre.
      destruct (poly_pe_terms tiny p s []) as [t u] eqn:E. cbn [fst].
      pose proof (poly_pe_terms_length s _ _ _ _ E). pose proof (rpoly_length tiny t). lia.
  Qed.

  Section PEVal.
    Variable rho : valuation.
    Variable s : state.
    Hypothesis Ag : agrees rho s.
    Notation V := (val rho).

    Lemma R_quad_pe q q' u : quad_pe tiny q s = Some (q', u) ->
      V (quad_terms q') + V (rlin tiny (merge N.eqb never (quad_pe_acc q s))) = V (quad_terms q).
    Proof.
      unfold quad_pe, quad_pe_acc.
      set (c0 := match q_lin q with Some l => l_const l | None => 0 end).
      set (ts := match q_lin q with Some l => l_terms l | None => [] end).
      destruct (quad_pe_lin ts s c0 [] []) as [[c1 acc1] used1] eqn:E1.
      destruct (negb (q_lengths_ok q)); [discriminate|].
      destruct (quad_pe_entries (q_entries q) s c1 acc1 [] used1) as [[[c2 acc2] keep] used2] eqn:E2.
      intro H. inversion H; subst q' u; clear H.
      apply (quad_pe_lin_val rho s Ag) in E1. apply (quad_pe_entries_val rho s Ag) in E2.
      cbn [valg] in E1, E2.
      rewrite !V_quad_terms. unfold q_entries at 1; cbn [q_rows q_cols q_vals q_lin].
      rewrite zip3_maps.
      assert (EL : V (optlin_terms (q_lin q)) = valg rho ts + c0).
      { unfold ts, c0. destruct (q_lin q) as [l|]; cbn [optlin_terms].
        - apply V_lin.
        - rewrite val_nil. cbn [valg]. ring. }
      rewrite EL.
      set (d := rlin tiny (merge N.eqb never acc2)).
      assert (EN : V (lin_terms (lin_new tiny (merge N.eqb never acc2) c2)) + V d = valg rho acc2 + c2).
      { unfold d. rewrite R_lin_new.
        rewrite (merge_val_exact N.eqb Neqb_spec rho never _ never_exact). reflexivity. }
      transitivity (valg (pkv rho) keep + (valg rho acc2 + c2)).
      - rewrite <- Qcplus_assoc. f_equal. destruct acc2 as [|a acc2].
        + destruct (qeqb c2 0) eqn:Z; cbn [optlin_terms].
          * apply qeqb_eq in Z. subst c2. unfold d.
            change (rlin tiny (merge N.eqb never [])) with (@nil (list N * num)).
            rewrite !val_nil. cbn [valg]. ring.
          * apply EN.
        + cbn [optlin_terms]. apply EN.
      - transitivity (valg (pkv rho) keep + valg rho acc2 + c2); [ring|]. rewrite E2.
        transitivity (valg (pkv rho) (q_entries q) + (valg rho acc1 + c1)); [ring|]. rewrite E1. ring.
    Qed.

    Lemma R_poly_pe_terms : forall p used t used',
      poly_pe_terms tiny p s used = (t, used') -> V t + V (skipped p) = V p.
    Proof.
      unfold skipped.
      induction p as [|[ids c] p IH]; intros used t used' H; cbn [poly_pe_terms] in H.
      - inversion H; subst. cbn [filter]. rewrite !val_nil. ring.
      - cbn [filter snd]. destruct (tiny c) eqn:T.
        + apply IH in H. rewrite !val_cons, <- H. ring.
        + destruct (mono_pe ids s c [] used) as [[v rest] used1] eqn:M.
          destruct (poly_pe_terms tiny p s used1) as [t1 used2] eqn:P.
          inversion H; subst. rewrite !val_cons, <- (IH _ _ _ P).
          apply (mono_pe_val rho s Ag) in M. rewrite M. cbn [mono_val]. ring.
    Qed.

    Lemma R_poly_pe p p' u : poly_pe tiny p s = (p', u) ->
      V p' + V (skipped p ++ rpoly tiny (poly_pe_pre p s)) = V p.
    Proof.
      unfold poly_pe, poly_pe_pre. destruct (poly_pe_terms tiny p s []) as [t used] eqn:E.
      intro H; inversion H; subst. cbn [fst]. rewrite val_app.
      rewrite <- (R_poly_pe_terms _ _ _ _ E), <- (V_rpoly tiny rho t). ring.
    Qed.

    Lemma fn_pe_resid_val f f' u : fn_pe tiny f s = Some (f', u) ->
      denote f' rho + V (fn_pe_resid f s) = denote f rho.
    Proof.
      unfold denote. destruct f as [|c|l|q|p]; cbn [fn_pe fn_pe_resid]; intro H.
      - inversion H; subst. cbn [fn_terms]. rewrite !val_nil. ring.
      - inversion H; subst. cbn [fn_terms]. rewrite !val_nil. ring.
      - destruct (lin_pe l s) as [l' u'] eqn:E. inversion H; subst. cbn [fn_terms].
        rewrite (V_lin_pe rho s Ag _ _ _ E), val_nil. ring.
      - destruct (quad_pe tiny q s) as [[q' u']|] eqn:E; [|discriminate]. inversion H; subst.
        cbn [fn_terms]. apply (R_quad_pe _ _ _ E).
      - destruct (poly_pe tiny p s) as [p' u'] eqn:E. inversion H; subst. cbn [fn_terms].
        apply (R_poly_pe _ _ _ E).
    Qed.
  End PEVal.
End PEResid.

(* ================================================================ *)
(* 5. PUBO / QUBO export: two tests (enter: which terms are read; leave: which accumulated
      entries are removed) *)
Lemma filter_partition_length {A} (p : A -> bool) (l : list A) :
  (List.length (filter p l) + List.length (filter (fun x => negb (p x)) l) = List.length l)%nat.
Proof.
  induction l as [|a l IH]; cbn [filter List.length]; [reflexivity|].
  destruct (p a); cbn [negb List.length]; lia.
Qed.
Lemma fn_iter_length f : (List.length (fn_iter f) <= nterms f)%nat.
Proof.
  unfold nterms. destruct f as [|c|l|q|p]; cbn [fn_iter fn_terms List.length]; try lia.
  - rewrite lin_terms_length. apply lin_iter_length.
  - apply quad_iter_length.
  - rewrite poly_iter_length. lia.
Qed.

Section PuboResid.
  Variable enter leave : num -> bool.

  (* a residual coefficient was either not read or removed after accumulation *)
  Definition export_test (c : num) : bool := negb (enter c) || leave c.

  Definition not_entered (t : terms) : terms := filter (fun mc => negb (enter (snd mc))) t.
  Definition pubo_resid (f : function) : terms :=
    not_entered (fn_iter f) ++ resid_from ids_eqb leave [] (pubo_terms enter f).

  Lemma not_entered_pass t : all_pass export_test (not_entered t).
  Proof.
    unfold not_entered, all_pass, export_test. apply Forall_forall. intros mc H.
    apply filter_In in H. destruct H as [_ H]. rewrite H. reflexivity.
  Qed.
  Lemma leave_pass (d : terms) : all_pass leave d -> all_pass export_test d.
  Proof.
    unfold all_pass, export_test. intro H. eapply Forall_impl; [|exact H].
    intros mc E. rewrite E. apply orb_true_r.
  Qed.
  Lemma pubo_resid_pass f : all_pass export_test (pubo_resid f).
  Proof.
    unfold pubo_resid. apply all_pass_app; [apply not_entered_pass|].
    apply leave_pass. apply resid_from_tiny.
  Qed.
  Lemma pubo_resid_length f : (List.length (pubo_resid f) <= nterms f)%nat.
  Proof.
    unfold pubo_resid, not_entered, pubo_terms. rewrite app_length.
    pose proof (resid_from_length ids_eqb leave
      (map (fun mc => (bin_key (fst mc), snd mc)) (filter (fun mc => enter (snd mc)) (fn_iter f))) []) as H.
    rewrite map_length in H.
    pose proof (filter_partition_length (fun mc : list N * num => enter (snd mc)) (fn_iter f)).
    pose proof (fn_iter_length f). lia.
  Qed.

  Lemma pubo_terms_resid_val f rho : binary rho ->
    val rho (pubo_terms enter f) + val rho (not_entered (fn_iter f)) = denote f rho.
  Proof.
    intro B. rewrite <- (fn_iter_val f rho). fold (fn_iter f). unfold pubo_terms, not_entered.
    induction (fn_iter f) as [|[m c] t IH]; cbn [filter map fst snd].
    - rewrite !val_nil. ring.
    - destruct (enter c) eqn:E; cbn [negb map fst snd].
      + rewrite !val_cons, <- IH, mono_val_bin_key by exact B. ring.
      + rewrite !val_cons, <- IH. ring.
  Qed.

  Lemma pubo_resid_val I D : as_pubo enter leave I = inr D ->
    forall rho, binary rho ->
      val rho D + val rho (pubo_resid (fn_or_zero (i_obj I))) = denote (fn_or_zero (i_obj I)) rho.
  Proof.
    unfold as_pubo. destruct (i_cs I); [|discriminate].
    destruct (i_sense I =? SENSE_MAX)%Z; [discriminate|].
    destruct (negb _); [discriminate|].
    intro H; inversion H; subst; clear H. intros rho B.
    unfold pubo_resid. rewrite val_app.
    set (f := fn_or_zero (i_obj I)).
    pose proof (merge_val ids_eqb ids_eqb_spec (mono_val rho) leave (pubo_terms enter f)) as E.
    fold (val rho (merge ids_eqb leave (pubo_terms enter f))) in E.
    fold (val rho (resid_from ids_eqb leave [] (pubo_terms enter f))) in E.
    fold (val rho (pubo_terms enter f)) in E.
    rewrite <- (pubo_terms_resid_val f rho B), <- E. ring.
  Qed.

  (* ---- QUBO ---- *)
  Fixpoint qubo_resid (t : terms) (m : terms) : terms :=
    match t with
    | [] => []
    | (ids, c) :: t' =>
        if negb (enter c) then (ids, c) :: qubo_resid t' m
        else
          match ids with
          | [] => qubo_resid t' m
          | _ =>
              match bin_key ids with
              | [a] => resid_from ids_eqb leave m [([a; a], c)]
                       ++ qubo_resid t' (mstep ids_eqb leave m ([a; a], c))
              | [a; b] => resid_from ids_eqb leave m [([a; b], c)]
                          ++ qubo_resid t' (mstep ids_eqb leave m ([a; b], c))
              | _ => []
              end
          end
    end.

  Lemma qubo_resid_pass : forall t m, all_pass export_test (qubo_resid t m).
  Proof.
    induction t as [|[ids c] t IH]; intro m; cbn [qubo_resid]; [apply all_pass_nil|].
    destruct (enter c) eqn:E; cbn [negb].
    - destruct ids as [|i ids']; [apply IH|].
      destruct (bin_key (i :: ids')) as [|a [|b [|x r]]]; try apply all_pass_nil;
        (apply all_pass_app; [apply leave_pass; apply resid_from_tiny|apply IH]).
    - constructor; [|apply IH]. unfold export_test. cbn [snd]. rewrite E. reflexivity.
  Qed.
  Lemma qubo_resid_length : forall t m, (List.length (qubo_resid t m) <= List.length t)%nat.
  Proof.
    induction t as [|[ids c] t IH]; intro m; cbn [qubo_resid List.length]; [lia|].
    destruct (negb (enter c)); cbn [List.length].
    - specialize (IH m). lia.
    - destruct ids as [|i ids']; [specialize (IH m); lia|].
      destruct (bin_key (i :: ids')) as [|a [|b [|x r]]]; cbn [List.length]; try lia;
        rewrite app_length;
        match goal with
        | |- context [resid_from ids_eqb leave m [?kc]] =>
            pose proof (resid_from_length ids_eqb leave [kc] m);
            specialize (IH (mstep ids_eqb leave m kc))
        end; cbn [List.length] in *; lia.
  Qed.

  Lemma mstep_resid_val rho (m : terms) kc : NoDup (keys m) ->
    NoDup (keys (mstep ids_eqb leave m kc)) /\
    val rho (mstep ids_eqb leave m kc) + val rho (resid_from ids_eqb leave m [kc])
    = val rho m + snd kc * mono_val rho (fst kc).
  Proof.
    intro ND. change (mstep ids_eqb leave m kc) with (merge_from ids_eqb leave m [kc]). split.
    - exact (merge_from_nodup ids_eqb ids_eqb_spec (fun _ => 0) leave [kc] m ND).
    - unfold val. rewrite (merge_from_val ids_eqb ids_eqb_spec (mono_val rho) leave [kc] m ND).
      destruct kc as [k c]. cbn [valg fst snd]. ring.
  Qed.

  Lemma qubo_loop_resid_val rho : binary rho -> forall t const m const' m',
    NoDup (keys m) -> qubo_loop enter leave t const m = Some (const', m') ->
    NoDup (keys m') /\
    val rho m' + const' + val rho (qubo_resid t m) = val rho m + const + val rho t.
  Proof.
    intro B. induction t as [|[ids c] t IH]; intros const m const' m' ND H;
      cbn [qubo_loop] in H; cbn [qubo_resid].
    - inversion H; subst. split; [exact ND|rewrite !val_nil; ring].
    - destruct (enter c) eqn:E; cbn [negb] in *.
      + destruct ids as [|i ids'].
        * apply IH in H; [|exact ND]. destruct H as [N' V]. split; [exact N'|].
          rewrite V, val_cons. cbn [mono_val]. ring.
        * pose proof (mono_val_bin_key rho (i :: ids') B) as MK.
          destruct (bin_key (i :: ids')) as [|a [|b [|x r]]] eqn:K; try discriminate.
          -- destruct (mstep_resid_val rho m ([a; a], c) ND) as [N1 V1].
             apply IH in H; [|exact N1]. destruct H as [N' V]. split; [exact N'|].
             rewrite val_app, val_cons.
             set (m1 := mstep ids_eqb leave m ([a; a], c)) in *.
             set (r1 := resid_from ids_eqb leave m [([a; a], c)]) in *.
             transitivity ((val rho m' + const' + val rho (qubo_resid t m1)) + val rho r1); [ring|].
             rewrite V.
             transitivity ((val rho m1 + val rho r1) + const + val rho t); [ring|].
             rewrite V1. cbn [fst snd]. rewrite <- MK. cbn [mono_val].
             rewrite (Qcmult_assoc (rho a) (rho a) 1), binary_sq by exact B. ring.
          -- destruct (mstep_resid_val rho m ([a; b], c) ND) as [N1 V1].
             apply IH in H; [|exact N1]. destruct H as [N' V]. split; [exact N'|].
             rewrite val_app, val_cons.
             set (m1 := mstep ids_eqb leave m ([a; b], c)) in *.
             set (r1 := resid_from ids_eqb leave m [([a; b], c)]) in *.
             transitivity ((val rho m' + const' + val rho (qubo_resid t m1)) + val rho r1); [ring|].
             rewrite V.
             transitivity ((val rho m1 + val rho r1) + const + val rho t); [ring|].
             rewrite V1. cbn [fst snd]. rewrite <- MK. ring.
      + apply IH in H; [|exact ND]. destruct H as [N' V]. split; [exact N'|].
        rewrite !val_cons.
        transitivity ((val rho m' + const' + val rho (qubo_resid t m)) + c * mono_val rho ids); [ring|].
        rewrite V. ring.
  Qed.

  Definition qubo_resid_of (f : function) : terms := qubo_resid (fn_iter f) [].

  Lemma qubo_resid_val I D c0 : as_qubo enter leave I = inr (D, c0) ->
    forall rho, binary rho ->
      val rho D + c0 + val rho (qubo_resid_of (fn_or_zero (i_obj I))) = denote (fn_or_zero (i_obj I)) rho.
  Proof.
    unfold as_qubo. destruct (i_sense I =? SENSE_MAX)%Z; [discriminate|].
    destruct (i_cs I); [|discriminate]. destruct (negb _); [discriminate|].
    destruct (qubo_loop enter leave (fn_iter (fn_or_zero (i_obj I))) 0 []) as [[c m]|] eqn:E; [|discriminate].
    intro H; inversion H; subst; clear H. intros rho B.
    assert (ND0 : NoDup (keys (@nil (list N * num)))) by constructor.
    destruct (qubo_loop_resid_val rho B _ _ [] _ _ ND0 E) as [_ V].
    unfold qubo_resid_of. rewrite V, val_nil.
    rewrite <- (fn_iter_val (fn_or_zero (i_obj I)) rho). fold (fn_iter (fn_or_zero (i_obj I))). ring.
  Qed.
  Lemma qubo_resid_of_length f : (List.length (qubo_resid_of f) <= nterms f)%nat.
  Proof.
    unfold qubo_resid_of. pose proof (qubo_resid_length (fn_iter f) []). pose proof (fn_iter_length f). lia.
  Qed.
End PuboResid.

(* ================================================================ *)
(* 6. From "passes the test" to a numeric bound *)
Definition qn (n : nat) : num := qz (Z.of_nat n).
Lemma qn_0 : qn 0 = 0.
Proof. apply Qc_is_canon. reflexivity. Qed.
Lemma qn_S n : qn (S n) = qn n + 1.
Proof.
  unfold qn. apply Qc_is_canon. rewrite this_plus, !this_qz, Nat2Z.inj_succ.
  unfold Z.succ. rewrite inject_Z_plus. reflexivity.
Qed.
Lemma qn_nonneg n : 0 <= qn n.
Proof.
  unfold qn, Qcle. rewrite this_qz. change (this 0) with (inject_Z 0).
  rewrite <- Zle_Qle. lia.
Qed.
Lemma qn_le n m : (n <= m)%nat -> qn n <= qn m.
Proof.
  intro H. unfold qn, Qcle. rewrite !this_qz. rewrite <- Zle_Qle. lia.
Qed.
Lemma qn_plus n m : qn (n + m) = qn n + qn m.
Proof.
  unfold qn. apply Qc_is_canon. rewrite this_plus, !this_qz, Nat2Z.inj_add, inject_Z_plus. reflexivity.
Qed.

Lemma mul_bound (A B e M : num) : 0 <= A -> A <= e -> 0 <= B -> B <= M -> A * B <= e * M.
Proof. intros. qc2q. nra. Qed.
Lemma mul_le_mono_nonneg (a b c : num) : a <= b -> 0 <= c -> a * c <= b * c.
Proof. intros. qc2q. nra. Qed.
Lemma qabs_minus_of_plus (z d x : num) : z + d = x -> qabs (z - x) = qabs d.
Proof.
  intro E. unfold qabs. rewrite <- E.
  replace (z - (z + d)) with (- d) by ring. apply Qcabs.Qcabs_opp.
Qed.

Definition coeff_bounded (e : num) (d : terms) : Prop := Forall (fun mc => qabs (snd mc) <= e) d.
Definition mono_bounded (rho : valuation) (M : num) (d : terms) : Prop :=
  Forall (fun mc => qabs (mono_val rho (fst mc)) <= M) d.

Theorem val_bound rho e M d : coeff_bounded e d -> mono_bounded rho M d ->
  qabs (val rho d) <= qn (List.length d) * e * M.
Proof.
  unfold coeff_bounded, mono_bounded.
  induction d as [|[m c] d IH]; intros Hc Hm.
  - rewrite val_nil. cbn [List.length]. rewrite qn_0, qabs_0.
    replace (0 * e * M) with 0 by ring. apply Qcle_refl.
  - inversion Hc as [|? ? Hc1 Hc2]; inversion Hm as [|? ? Hm1 Hm2]; subst. cbn [fst snd] in *.
    specialize (IH Hc2 Hm2). rewrite val_cons. cbn [List.length]. rewrite qn_S.
    eapply Qcle_trans; [apply Qcabs.Qcabs_triangle|].
    rewrite Qcabs.Qcabs_Qcmult.
    pose proof (mul_bound _ _ _ _ (Qcabs.Qcabs_nonneg c) Hc1 (Qcabs.Qcabs_nonneg (mono_val rho m)) Hm1) as P.
    replace ((qn (List.length d) + 1) * e * M) with (e * M + qn (List.length d) * e * M) by ring.
    apply Qcplus_le_compat; assumption.
Qed.

Lemma coeff_bounded_app e a b : coeff_bounded e a -> coeff_bounded e b -> coeff_bounded e (a ++ b).
Proof. intros Ha Hb. apply Forall_app. split; assumption. Qed.

(* a residual equation + coefficient bound = error bound *)
Theorem resid_bound rho e M (z x : num) d :
  z + val rho d = x -> coeff_bounded e d -> mono_bounded rho M d ->
  qabs (z - x) <= qn (List.length d) * e * M.
Proof. intros E Hc Hm. rewrite (qabs_minus_of_plus _ _ _ E). apply val_bound; assumption. Qed.

Lemma scale_count_le (n k : nat) (e M : num) : (n <= k)%nat -> 0 <= e -> 0 <= M ->
  qn n * e * M <= qn k * e * M.
Proof.
  intros H He HM. apply mul_le_mono_nonneg; [|exact HM].
  apply mul_le_mono_nonneg; [apply qn_le; exact H|exact He].
Qed.

Theorem resid_bound_count rho e M (z x : num) d n :
  z + val rho d = x -> coeff_bounded e d -> mono_bounded rho M d ->
  (List.length d <= n)%nat -> 0 <= e -> 0 <= M ->
  qabs (z - x) <= qn n * e * M.
Proof.
  intros E Hc Hm Hl He HM. eapply Qcle_trans; [apply (resid_bound rho e M z x d E Hc Hm)|].
  apply scale_count_le; assumption.
Qed.

(* valuations in the unit box (in particular binary ones): every monomial has |value| <= 1 *)
Definition unit_box (rho : valuation) : Prop := forall i, qabs (rho i) <= 1.
Lemma qabs_1 : qabs 1 = 1. Proof. apply Qc_is_canon; reflexivity. Qed.
Lemma mono_val_unit rho m : unit_box rho -> qabs (mono_val rho m) <= 1.
Proof.
  intro U. induction m as [|i m IH]; cbn [mono_val].
  - rewrite qabs_1. apply Qcle_refl.
  - unfold qabs in *. rewrite Qcabs.Qcabs_Qcmult.
    pose proof (mul_bound _ _ _ _ (Qcabs.Qcabs_nonneg (rho i)) (U i)
                  (Qcabs.Qcabs_nonneg (mono_val rho m)) IH) as P.
    replace (1 * 1) with 1 in P by ring. exact P.
Qed.
Lemma mono_bounded_unit rho d : unit_box rho -> mono_bounded rho 1 d.
Proof. intro U. apply Forall_forall. intros mc _. apply mono_val_unit. exact U. Qed.
Lemma binary_unit_box rho : binary rho -> unit_box rho.
Proof.
  intros B i. destruct (B i) as [-> | ->]; [rewrite qabs_0; discriminate|rewrite qabs_1; apply Qcle_refl].
Qed.

Theorem resid_bound_unit rho e (z x : num) d n :
  unit_box rho -> z + val rho d = x -> coeff_bounded e d ->
  (List.length d <= n)%nat -> 0 <= e -> qabs (z - x) <= qn n * e.
Proof.
  intros U E Hc Hl He.
  replace (qn n * e) with (qn n * e * 1) by ring.
  apply (resid_bound_count rho e 1 z x d n E Hc (mono_bounded_unit rho d U) Hl He). discriminate.
Qed.

(* the SDK's tests *)
Lemma eps_nonneg : 0 <= eps. Proof. discriminate. Qed.
Lemma tiny_eps_le c : tiny_eps c = true -> qabs c <= eps.
Proof. unfold tiny_eps. apply qleb_le. Qed.
Lemma tiny_eps_bounded d : all_pass tiny_eps d -> coeff_bounded eps d.
Proof.
  unfold all_pass, coeff_bounded. intro H. eapply Forall_impl; [|exact H].
  intros mc T. apply tiny_eps_le. exact T.
Qed.
Lemma export_eps_le c : export_test enter_eps leave_eps c = true -> qabs c <= eps.
Proof.
  unfold export_test, enter_eps, leave_eps. intro H. apply orb_true_iff in H. destruct H as [H|H].
  - apply negb_true_iff in H. apply qltb_ge in H. exact H.
  - apply qltb_lt in H. apply Qclt_le_weak. exact H.
Qed.
Lemma export_eps_bounded d : all_pass (export_test enter_eps leave_eps) d -> coeff_bounded eps d.
Proof.
  unfold all_pass, coeff_bounded. intro H. eapply Forall_impl; [|exact H].
  intros mc T. apply export_eps_le. exact T.
Qed.

(* ================================================================ *)
(* 7. MAIN THEOREMS *)

(* 7.1 arbitrary dropping test: explicit residuals *)
Theorem fn_add_residual : forall (tiny : num -> bool) (f g h : function),
  fwf f -> fn_add tiny f g = Some h ->
  let d := fn_add_resid tiny f g in
  all_pass tiny d /\
  (List.length d <= 2 * (nterms f + nterms g))%nat /\
  forall rho, denote h rho + val rho d = denote f rho + denote g rho.
Proof.
  intros tiny f g h W E d. split; [apply fn_add_resid_pass|]. split; [apply fn_add_resid_length|].
  apply fn_add_resid_val; assumption.
Qed.

Theorem fn_neg_residual : forall (tiny : num -> bool) (f h : function),
  fn_neg tiny f = Some h -> forall rho, denote h rho = - denote f rho.
Proof. exact fn_neg_exact. Qed.

Theorem fn_sub_residual : forall (tiny : num -> bool) (f g h : function),
  fwf f -> fn_sub tiny f g = Some h ->
  let d := fn_sub_resid tiny f g in
  all_pass tiny d /\
  (List.length d <= 2 * (nterms f + nterms g))%nat /\
  forall rho, denote h rho + val rho d = denote f rho - denote g rho.
Proof.
  intros tiny f g h W E d. split; [apply fn_sub_resid_pass|]. split; [apply fn_sub_resid_length|].
  apply fn_sub_resid_val; assumption.
Qed.

Lemma fn_mul_cofactor_shape tiny f g :
  fn_mul_conv_resid tiny f g = [] \/ fn_mul_cofactor f g = fn_terms f \/ fn_mul_cofactor f g = fn_terms g.
Proof.
  destruct f as [|a|la|qa|pa], g as [|b|lb|qb|pb]; cbn [fn_mul_conv_resid fn_mul_cofactor fn_terms]; auto.
Qed.

Theorem fn_mul_residual : forall (tiny : num -> bool) (f g h : function),
  fn_mul tiny f g = Some h ->
  let d := fn_mul_resid tiny f g in
  let e := fn_mul_conv_resid tiny f g in
  let k := fn_mul_cofactor f g in
  all_pass tiny d /\ all_pass tiny e /\
  (List.length d <= nterms f * nterms g)%nat /\
  (List.length e <= Nat.max (nterms f) (nterms g))%nat /\
  (e = [] \/ k = fn_terms f \/ k = fn_terms g) /\
  forall rho, denote h rho + val rho d + val rho k * val rho e = denote f rho * denote g rho.
Proof.
  intros tiny f g h E d e k.
  split; [apply fn_mul_resid_pass|]. split; [apply fn_mul_conv_resid_pass|].
  split; [apply fn_mul_resid_length|]. split; [apply fn_mul_conv_resid_length|].
  split; [apply fn_mul_cofactor_shape|]. apply fn_mul_resid_val; assumption.
Qed.

(* the same with one residual list; its second part has coefficients (coefficient of the
   polynomial operand) * (coefficient that passed the test) *)
Corollary fn_mul_residual_one_list : forall (tiny : num -> bool) (f g h : function),
  fn_mul tiny f g = Some h ->
  forall rho,
    denote h rho
    + val rho (fn_mul_resid tiny f g ++ mul_terms (fn_mul_cofactor f g) (fn_mul_conv_resid tiny f g))
    = denote f rho * denote g rho.
Proof.
  intros tiny f g h E rho. rewrite val_app, val_mul_terms, Qcplus_assoc.
  apply fn_mul_resid_val; assumption.
Qed.

(* when no Polynomial x (Linear | Quadratic) conversion happens there is nothing but [d] *)
Definition no_conversion (f g : function) : bool :=
  match f, g with
  | FPoly _, (FLin _ | FQuad _) | (FLin _ | FQuad _), FPoly _ => false
  | _, _ => true
  end.
Corollary fn_mul_residual_no_conversion : forall (tiny : num -> bool) (f g h : function),
  no_conversion f g = true -> fn_mul tiny f g = Some h ->
  forall rho, denote h rho + val rho (fn_mul_resid tiny f g) = denote f rho * denote g rho.
Proof.
  intros tiny f g h NC E rho. rewrite <- (fn_mul_resid_val tiny f g h E rho).
  destruct f as [|a|la|qa|pa], g as [|b|lb|qb|pb]; cbn [no_conversion] in NC; try discriminate NC;
    cbn [fn_mul_conv_resid]; rewrite (val_nil rho); ring.
Qed.

Theorem fn_pe_residual : forall (tiny : num -> bool) (f f' : function) (s : state) (u : list N),
  fn_pe tiny f s = Some (f', u) ->
  let d := fn_pe_resid tiny f s in
  all_pass tiny d /\
  (List.length d <= nterms f)%nat /\
  forall rho, agrees rho s -> denote f' rho + val rho d = denote f rho.
Proof.
  intros tiny f f' s u E d. split; [apply fn_pe_resid_pass|]. split; [apply fn_pe_resid_length|].
  intros rho Ag. apply (fn_pe_resid_val tiny rho s Ag f f' u E).
Qed.

Theorem pubo_residual : forall (enter leave : num -> bool) (I : instance) (D : terms),
  as_pubo enter leave I = inr D ->
  let f := fn_or_zero (i_obj I) in
  let d := pubo_resid enter leave f in
  all_pass (export_test enter leave) d /\
  (List.length d <= nterms f)%nat /\
  forall rho, binary rho -> val rho D + val rho d = denote f rho.
Proof.
  intros enter leave I D E f d. split; [apply pubo_resid_pass|]. split; [apply pubo_resid_length|].
  apply pubo_resid_val. exact E.
Qed.

Theorem qubo_residual : forall (enter leave : num -> bool) (I : instance) (D : terms) (c0 : num),
  as_qubo enter leave I = inr (D, c0) ->
  let f := fn_or_zero (i_obj I) in
  let d := qubo_resid_of enter leave f in
  all_pass (export_test enter leave) d /\
  (List.length d <= nterms f)%nat /\
  forall rho, binary rho -> val rho D + c0 + val rho d = denote f rho.
Proof.
  intros enter leave I D c0 E f d. split; [apply qubo_resid_pass|]. split; [apply qubo_resid_of_length|].
  apply qubo_resid_val. exact E.
Qed.

(* 7.2 the SDK's own test: |c| <= f64::EPSILON *)
Theorem eps_residual_bound : forall rho M d,
  all_pass tiny_eps d -> mono_bounded rho M d ->
  qabs (val rho d) <= qn (List.length d) * eps * M.
Proof. intros rho M d P Hm. apply val_bound; [apply tiny_eps_bounded; exact P|exact Hm]. Qed.

Theorem fn_add_eps_bound : forall (f g h : function) rho M,
  fwf f -> fn_add tiny_eps f g = Some h ->
  mono_bounded rho M (fn_add_resid tiny_eps f g) ->
  qabs (denote h rho - (denote f rho + denote g rho))
  <= qn (List.length (fn_add_resid tiny_eps f g)) * eps * M.
Proof.
  intros f g h rho M W E Hm.
  apply (resid_bound rho eps M _ _ _ (fn_add_resid_val tiny_eps f g h W E rho)
           (tiny_eps_bounded _ (fn_add_resid_pass tiny_eps f g)) Hm).
Qed.
Theorem fn_add_eps_bound_count : forall (f g h : function) rho M,
  fwf f -> fn_add tiny_eps f g = Some h -> 0 <= M ->
  mono_bounded rho M (fn_add_resid tiny_eps f g) ->
  qabs (denote h rho - (denote f rho + denote g rho)) <= qn (2 * (nterms f + nterms g)) * eps * M.
Proof.
  intros f g h rho M W E HM Hm.
  apply (resid_bound_count rho eps M _ _ _ _ (fn_add_resid_val tiny_eps f g h W E rho)
           (tiny_eps_bounded _ (fn_add_resid_pass tiny_eps f g)) Hm
           (fn_add_resid_length tiny_eps f g) eps_nonneg HM).
Qed.
Theorem fn_add_eps_bound_unit : forall (f g h : function) rho,
  fwf f -> fn_add tiny_eps f g = Some h -> unit_box rho ->
  qabs (denote h rho - (denote f rho + denote g rho)) <= qn (2 * (nterms f + nterms g)) * eps.
Proof.
  intros f g h rho W E U.
  apply (resid_bound_unit rho eps _ _ _ _ U (fn_add_resid_val tiny_eps f g h W E rho)
           (tiny_eps_bounded _ (fn_add_resid_pass tiny_eps f g))
           (fn_add_resid_length tiny_eps f g) eps_nonneg).
Qed.

Theorem fn_sub_eps_bound : forall (f g h : function) rho M,
  fwf f -> fn_sub tiny_eps f g = Some h ->
  mono_bounded rho M (fn_sub_resid tiny_eps f g) ->
  qabs (denote h rho - (denote f rho - denote g rho))
  <= qn (List.length (fn_sub_resid tiny_eps f g)) * eps * M.
Proof.
  intros f g h rho M W E Hm.
  apply (resid_bound rho eps M _ _ _ (fn_sub_resid_val tiny_eps f g h W E rho)
           (tiny_eps_bounded _ (fn_sub_resid_pass tiny_eps f g)) Hm).
Qed.
Theorem fn_sub_eps_bound_unit : forall (f g h : function) rho,
  fwf f -> fn_sub tiny_eps f g = Some h -> unit_box rho ->
  qabs (denote h rho - (denote f rho - denote g rho)) <= qn (2 * (nterms f + nterms g)) * eps.
Proof.
  intros f g h rho W E U.
  apply (resid_bound_unit rho eps _ _ _ _ U (fn_sub_resid_val tiny_eps f g h W E rho)
           (tiny_eps_bounded _ (fn_sub_resid_pass tiny_eps f g))
           (fn_sub_resid_length tiny_eps f g) eps_nonneg).
Qed.

Theorem fn_mul_eps_bound : forall (f g h : function) rho M,
  fn_mul tiny_eps f g = Some h ->
  mono_bounded rho M (fn_mul_resid tiny_eps f g) ->
  mono_bounded rho M (fn_mul_conv_resid tiny_eps f g) ->
  qabs (denote h rho - denote f rho * denote g rho)
  <= qn (List.length (fn_mul_resid tiny_eps f g)) * eps * M
     + qabs (val rho (fn_mul_cofactor f g))
       * (qn (List.length (fn_mul_conv_resid tiny_eps f g)) * eps * M).
Proof.
  intros f g h rho M E Hd He.
  pose proof (fn_mul_resid_val tiny_eps f g h E rho) as V.
  set (d := fn_mul_resid tiny_eps f g) in *. set (e := fn_mul_conv_resid tiny_eps f g) in *.
  set (k := fn_mul_cofactor f g) in *.
  assert (V' : denote h rho + (val rho d + val rho k * val rho e) = denote f rho * denote g rho).
  { rewrite <- V. ring. }
  rewrite (qabs_minus_of_plus _ _ _ V'). unfold qabs.
  eapply Qcle_trans; [apply Qcabs.Qcabs_triangle|]. rewrite Qcabs.Qcabs_Qcmult.
  apply Qcplus_le_compat.
  - apply (eps_residual_bound rho M d (fn_mul_resid_pass tiny_eps f g) Hd).
  - pose proof (eps_residual_bound rho M e (fn_mul_conv_resid_pass tiny_eps f g) He) as B.
    pose proof (Qcabs.Qcabs_nonneg (val rho k)) as K0. unfold qabs in B.
    rewrite (Qcmult_comm (Qcabs.Qcabs (val rho k))), (Qcmult_comm (Qcabs.Qcabs (val rho k))).
    apply mul_le_mono_nonneg; assumption.
Qed.
Theorem fn_mul_eps_bound_no_conversion : forall (f g h : function) rho M,
  no_conversion f g = true -> fn_mul tiny_eps f g = Some h -> 0 <= M ->
  mono_bounded rho M (fn_mul_resid tiny_eps f g) ->
  qabs (denote h rho - denote f rho * denote g rho) <= qn (nterms f * nterms g) * eps * M.
Proof.
  intros f g h rho M NC E HM Hm.
  apply (resid_bound_count rho eps M _ _ _ _ (fn_mul_residual_no_conversion tiny_eps f g h NC E rho)
           (tiny_eps_bounded _ (fn_mul_resid_pass tiny_eps f g)) Hm
           (fn_mul_resid_length tiny_eps f g) eps_nonneg HM).
Qed.

Theorem fn_pe_eps_bound : forall (f f' : function) (s : state) (u : list N) rho M,
  fn_pe tiny_eps f s = Some (f', u) -> agrees rho s ->
  mono_bounded rho M (fn_pe_resid tiny_eps f s) ->
  qabs (denote f' rho - denote f rho) <= qn (List.length (fn_pe_resid tiny_eps f s)) * eps * M.
Proof.
  intros f f' s u rho M E Ag Hm.
  apply (resid_bound rho eps M _ _ _ (fn_pe_resid_val tiny_eps rho s Ag f f' u E)
           (tiny_eps_bounded _ (fn_pe_resid_pass tiny_eps f s)) Hm).
Qed.
Theorem fn_pe_eps_bound_unit : forall (f f' : function) (s : state) (u : list N) rho,
  fn_pe tiny_eps f s = Some (f', u) -> agrees rho s -> unit_box rho ->
  qabs (denote f' rho - denote f rho) <= qn (nterms f) * eps.
Proof.
  intros f f' s u rho E Ag U.
  apply (resid_bound_unit rho eps _ _ _ _ U (fn_pe_resid_val tiny_eps rho s Ag f f' u E)
           (tiny_eps_bounded _ (fn_pe_resid_pass tiny_eps f s))
           (fn_pe_resid_length tiny_eps f s) eps_nonneg).
Qed.

(* PUBO / QUBO with the SDK's tests: on every binary assignment the exported dictionary is
   within (number of terms) * eps of the objective *)
Theorem pubo_eps_bound : forall (I : instance) (D : terms),
  as_pubo enter_eps leave_eps I = inr D ->
  forall rho, binary rho ->
    qabs (val rho D - denote (fn_or_zero (i_obj I)) rho) <= qn (nterms (fn_or_zero (i_obj I))) * eps.
Proof.
  intros I D E rho B.
  apply (resid_bound_unit rho eps _ _ _ _ (binary_unit_box rho B)
           (pubo_resid_val enter_eps leave_eps I D E rho B)
           (export_eps_bounded _ (pubo_resid_pass enter_eps leave_eps _))
           (pubo_resid_length enter_eps leave_eps _) eps_nonneg).
Qed.
Theorem qubo_eps_bound : forall (I : instance) (D : terms) (c0 : num),
  as_qubo enter_eps leave_eps I = inr (D, c0) ->
  forall rho, binary rho ->
    qabs (val rho D + c0 - denote (fn_or_zero (i_obj I)) rho) <= qn (nterms (fn_or_zero (i_obj I))) * eps.
Proof.
  intros I D c0 E rho B.
  apply (resid_bound_unit rho eps _ _ _ _ (binary_unit_box rho B)
           (qubo_resid_val enter_eps leave_eps I D c0 E rho B)
           (export_eps_bounded _ (qubo_resid_pass enter_eps leave_eps _ _))
           (qubo_resid_of_length enter_eps leave_eps _) eps_nonneg).
Qed.

(* ================================================================ *)
(* 8. Examples: the SDK's test really drops something, the residual is not empty, and the
      residual equation holds while the exact one fails *)
Definition get_fn (o : option function) : function := match o with Some f => f | None => FUnset end.
Definition rho_ex : valuation := fun i => qz (Z.of_N i + 3).

(* (2^-40 x1 + x2 + 1) + ((-2^-40 + 2^-53) x1 + 2 x3): the x1 coefficients accumulate to 2^-53 *)
Definition ex_a : function :=
  FLin {| l_terms := [(1%N, q2 (-40)); (2%N, 1)]; l_const := 1 |}.
Definition ex_b : function :=
  FLin {| l_terms := [(1%N, - q2 (-40) + q2 (-53)); (3%N, qz 2)]; l_const := 0 |}.

Example ex_add_drops :
  let h := get_fn (fn_add tiny_eps ex_a ex_b) in
  let d := fn_add_resid tiny_eps ex_a ex_b in
  map fst d = [[1%N]] /\
  forallb (fun mc => qeqb (snd mc) (q2 (-53))) d = true /\
  fn_used h = [2%N; 3%N] /\
  qeqb (denote h rho_ex + val rho_ex d) (denote ex_a rho_ex + denote ex_b rho_ex) = true /\
  qeqb (denote h rho_ex) (denote ex_a rho_ex + denote ex_b rho_ex) = false /\
  fn_add_resid tiny_0 ex_a ex_b = [].
Proof. vm_compute. repeat split. Qed.

(* the same pair under subtraction of the negated second operand *)
Example ex_sub_drops :
  let g := get_fn (fn_neg tiny_eps ex_b) in
  let h := get_fn (fn_sub tiny_eps ex_a g) in
  let d := fn_sub_resid tiny_eps ex_a g in
  List.length d = 1%nat /\
  qeqb (denote h rho_ex + val rho_ex d) (denote ex_a rho_ex - denote g rho_ex) = true /\
  qeqb (denote h rho_ex) (denote ex_a rho_ex - denote g rho_ex) = false.
Proof. vm_compute. repeat split. Qed.

(* Polynomial x Linear: the conversion of (2^-60 x1 + x2) to a Polynomial loses 2^-60 x1, and the
   product (x1 x2 + 3) * (...) is short of the exact one by (x1 x2 + 3) * 2^-60 x1 *)
Definition ex_p : function := FPoly [([1%N; 2%N], 1); ([], qz 3)].
Definition ex_l : function := FLin {| l_terms := [(1%N, q2 (-60)); (2%N, 1)]; l_const := 0 |}.
Example ex_mul_conversion_drops :
  let h := get_fn (fn_mul tiny_eps ex_p ex_l) in
  let d := fn_mul_resid tiny_eps ex_p ex_l in
  let e := fn_mul_conv_resid tiny_eps ex_p ex_l in
  let k := fn_mul_cofactor ex_p ex_l in
  d = [] /\ map fst e = [[1%N]] /\ k = fn_terms ex_p /\
  qeqb (denote h rho_ex + val rho_ex d + val rho_ex k * val rho_ex e)
       (denote ex_p rho_ex * denote ex_l rho_ex) = true /\
  qeqb (denote h rho_ex) (denote ex_p rho_ex * denote ex_l rho_ex) = false.
Proof. vm_compute. repeat split. Qed.

(* Linear x Linear: (x1 + c)(x1 - c + 2^-53) with c = 2^-10: the linear part of the product is
   accumulated by Linear::add to (2^-53) x1 and dropped *)
Definition ex_m1 : function := FLin {| l_terms := [(1%N, 1)]; l_const := q2 (-10) |}.
Definition ex_m2 : function := FLin {| l_terms := [(1%N, 1)]; l_const := - q2 (-10) + q2 (-53) |}.
Example ex_mul_drops :
  let h := get_fn (fn_mul tiny_eps ex_m1 ex_m2) in
  let d := fn_mul_resid tiny_eps ex_m1 ex_m2 in
  map fst d = [[1%N]] /\ fn_mul_conv_resid tiny_eps ex_m1 ex_m2 = [] /\
  qeqb (denote h rho_ex + val rho_ex d) (denote ex_m1 rho_ex * denote ex_m2 rho_ex) = true /\
  qeqb (denote h rho_ex) (denote ex_m1 rho_ex * denote ex_m2 rho_ex) = false.
Proof. vm_compute. repeat split. Qed.

(* partial evaluation at x1 = 2 of 2^-40 x1 x2 + (-2^-39 + 2^-53) x2 + 2^-60 x3 + x4:
   2^-60 x3 is skipped before substitution, the x2 coefficients accumulate to 2^-53 *)
Definition ex_q : function :=
  FPoly [([1%N; 2%N], q2 (-40)); ([2%N], - q2 (-39) + q2 (-53)); ([3%N], q2 (-60)); ([4%N], 1)].
Definition ex_s : state := [(1%N, qz 2)].
Definition rho_s : valuation := fun i => if (i =? 1)%N then qz 2 else qz (Z.of_N i + 3).
Example rho_s_agrees : agrees rho_s ex_s.
Proof.
  intros i v. cbn [ex_s sget]. unfold rho_s. destruct (i =? 1)%N; [|discriminate].
  intro H; inversion H; reflexivity.
Qed.
Example ex_pe_drops :
  let f' := fst (match fn_pe tiny_eps ex_q ex_s with Some r => r | None => (FUnset, []) end) in
  let d := fn_pe_resid tiny_eps ex_q ex_s in
  map fst d = [[3%N]; [2%N]] /\
  fn_used f' = [4%N] /\
  qeqb (denote f' rho_s + val rho_s d) (denote ex_q rho_s) = true /\
  qeqb (denote f' rho_s) (denote ex_q rho_s) = false.
Proof. vm_compute. repeat split. Qed.

(* PUBO / QUBO export of 2 x1 x2 x2 + x1 x1 + (-1 + 2^-53) x1 + 2^-60 x2 over binaries:
   2^-60 x2 is not read, the {1} entry accumulates to 2^-53 and is removed *)
Definition ex_I : instance :=
  let b k := {| dv_id := k; dv_kind := 1; dv_bound := None; dv_subst := None; dv_meta := [] |} in
  {| i_sense := 1;
     i_obj := Some (FPoly [([1; 2; 2]%N, qz 2); ([1; 1]%N, 1); ([1]%N, - (1) + q2 (-53)); ([2]%N, q2 (-60))]);
     i_dvs := [b 1%N; b 2%N]; i_cs := []; i_rs := []; i_deps := []; i_params := None;
     i_hints := L []; i_desc := L [] |}.
Definition ones : valuation := fun _ => 1.
Example ones_binary : binary ones.
Proof. intro i. right. reflexivity. Qed.
Example ex_pubo_drops :
  let D := match as_pubo enter_eps leave_eps ex_I with inr D => D | inl _ => [] end in
  let f := fn_or_zero (i_obj ex_I) in
  let d := pubo_resid enter_eps leave_eps f in
  map fst D = [[1%N; 2%N]] /\ map fst d = [[2%N]; [1%N]] /\
  qeqb (val ones D + val ones d) (denote f ones) = true /\
  qeqb (val ones D) (denote f ones) = false.
Proof. vm_compute. repeat split. Qed.
Example ex_qubo_drops :
  let r := match as_qubo enter_eps leave_eps ex_I with inr r => r | inl _ => ([], 0) end in
  let f := fn_or_zero (i_obj ex_I) in
  let d := qubo_resid_of enter_eps leave_eps f in
  map fst (fst r) = [[1%N; 2%N]] /\ map fst d = [[1%N; 1%N]; [2%N]] /\
  qeqb (val ones (fst r) + snd r + val ones d) (denote f ones) = true /\
  qeqb (val ones (fst r) + snd r) (denote f ones) = false.
Proof. vm_compute. repeat split. Qed.

(* ================================================================ *)
Print Assumptions fn_add_residual.
Print Assumptions fn_neg_residual.
Print Assumptions fn_sub_residual.
Print Assumptions fn_mul_residual.
Print Assumptions fn_mul_residual_one_list.
Print Assumptions fn_mul_residual_no_conversion.
Print Assumptions fn_pe_residual.
Print Assumptions pubo_residual.
Print Assumptions qubo_residual.
Print Assumptions val_bound.
Print Assumptions resid_bound.
Print Assumptions resid_bound_count.
Print Assumptions resid_bound_unit.
Print Assumptions eps_residual_bound.
Print Assumptions fn_add_eps_bound.
Print Assumptions fn_add_eps_bound_count.
Print Assumptions fn_add_eps_bound_unit.
Print Assumptions fn_sub_eps_bound.
Print Assumptions fn_sub_eps_bound_unit.
Print Assumptions fn_mul_eps_bound.
Print Assumptions fn_mul_eps_bound_no_conversion.
Print Assumptions fn_pe_eps_bound.
Print Assumptions fn_pe_eps_bound_unit.
Print Assumptions pubo_eps_bound.
Print Assumptions qubo_eps_bound.
Print Assumptions ex_add_drops.
Print Assumptions ex_mul_conversion_drops.
Print Assumptions ex_pe_drops.
Print Assumptions ex_pubo_drops.
Print Assumptions ex_qubo_drops.
