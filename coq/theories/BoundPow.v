(* BoundPow.v — Bound::pow: validity and enclosure for every exponent n : nat and every shape,
   by the sign classes of the code (even: non-negative / non-positive / sign-crossing; odd:
   monotone). Exact powers: f64::powi rounding is not modelled. *)
Require Import Ommx.Num Ommx.Poly Ommx.Msg Ommx.Bound Ommx.BoundProofs.
From Coq Require Import Qcabs.

Lemma qpow_nonneg x n : 0 <= x -> 0 <= x ^ n.
Proof.
  intro H. induction n as [|n IH]; cbn [Qcpower]; [qc2q; lra|]. qc2q. nra.
Qed.
Lemma qpow_mono a b n : 0 <= a -> a <= b -> a ^ n <= b ^ n.
Proof.
  intros A B. induction n as [|n IH]; cbn [Qcpower]; [apply Qcle_refl|].
  pose proof (qpow_nonneg a n A) as P. qc2q. nra.
Qed.
Lemma qpow_opp x n : (- x) ^ n = if Nat.even n then x ^ n else - (x ^ n).
Proof.
  induction n as [|n IH]; [reflexivity|].
  rewrite Nat.even_succ, <- Nat.negb_even. cbn [Qcpower]. rewrite IH.
  destruct (Nat.even n); cbn [negb]; ring.
Qed.
Lemma qpow_even_opp x n : Nat.even n = true -> (- x) ^ n = x ^ n.
Proof. intro E. rewrite qpow_opp, E. reflexivity. Qed.
Lemma qpow_odd_opp x n : Nat.even n = false -> (- x) ^ n = - (x ^ n).
Proof. intro E. rewrite qpow_opp, E. reflexivity. Qed.

Lemma qpow_even_nonneg x n : Nat.even n = true -> 0 <= x ^ n.
Proof.
  intro E. destruct (Qclt_le_dec x 0) as [N|P]; [|apply qpow_nonneg; exact P].
  rewrite <- (qpow_even_opp x n E). apply qpow_nonneg. qc2q. lra.
Qed.
(* on the non-positive side an even power is antitone *)
Lemma qpow_even_anti a b n : Nat.even n = true -> a <= b -> b <= 0 -> b ^ n <= a ^ n.
Proof.
  intros E A B. rewrite <- (qpow_even_opp a n E), <- (qpow_even_opp b n E).
  apply qpow_mono; qc2q; lra.
Qed.
(* odd powers are monotone on the whole line *)
Lemma qpow_odd_mono a b n : Nat.even n = false -> a <= b -> a ^ n <= b ^ n.
Proof.
  intros E A.
  destruct (Qclt_le_dec a 0) as [Na|Pa]; [|apply qpow_mono; assumption].
  destruct (Qclt_le_dec 0 b) as [Pb|Nb].
  - pose proof (qpow_nonneg b n) as P1. pose proof (qpow_nonneg (- a) n) as P2.
    rewrite (qpow_odd_opp a n E) in P2.
    assert (0 <= b) as B0 by (qc2q; lra). assert (0 <= - a) as A0 by (qc2q; lra).
    specialize (P1 B0). specialize (P2 A0). qc2q. lra.
  - pose proof (qpow_mono (- b) (- a) n) as M.
    rewrite (qpow_odd_opp a n E), (qpow_odd_opp b n E) in M.
    assert (0 <= - b) as B0 by (qc2q; lra). assert (- b <= - a) as AB by (qc2q; lra).
    specialize (M B0 AB). qc2q. lra.
Qed.
Lemma qpow_abs_even x n : Nat.even n = true -> (qabs x) ^ n = x ^ n.
Proof.
  intro E. unfold qabs. destruct (Qclt_le_dec x 0) as [N|P].
  - rewrite Qcabs_neg by (qc2q; lra). apply qpow_even_opp. exact E.
  - rewrite Qcabs_pos by exact P. reflexivity.
Qed.
(* sign-crossing base, even exponent: bounded by the larger absolute endpoint power *)
Lemma qpow_even_cross l u x n : Nat.even n = true -> l <= x -> x <= u ->
  x ^ n <= (qabs u) ^ n \/ x ^ n <= (qabs l) ^ n.
Proof.
  intros E A B. destruct (Qclt_le_dec x 0) as [N|P].
  - right. rewrite (qpow_abs_even l n E). apply qpow_even_anti; auto. qc2q; lra.
  - left. rewrite (qpow_abs_even u n E). apply qpow_mono; assumption.
Qed.

Lemma emax_fin_ge a b v : v <= a \/ v <= b -> eleb (Fin v) (emax (Fin a) (Fin b)) = true.
Proof.
  intro H. ecbn. destruct (qleb a b) eqn:E; ecbn; destruct H; qarith.
Qed.

Theorem bpow_sound X n x :
  valid X -> bmem x X = true ->
  exists Z, bpow X n = Some Z /\ valid Z /\ bmem (x ^ n) Z = true.
Proof.
  intros VX HX. apply valid_inv in VX. unfold bpow.
  destruct n as [|m].
  - (* x^0 = 1; the code returns [1,1] or, on a sign-crossing base, [0,1] *)
    cbn [Nat.even epow Qcpower].
    destruct (eleb (Fin 0) (lower X)); [|destruct (eleb (upper X) (Fin 0))];
      apply bnew_enclose; reflexivity.
  - set (n := S m) in *.
    assert (EP : forall a, epow a n = match a with
                 | NaN => NaN | Fin q => Fin (q ^ n) | PInf => PInf
                 | NInf => if Nat.even n then PInf else NInf end) by reflexivity.
    destruct (Nat.even n) eqn:E.
    + destruct X as [[|l1| |] [|u1| |]]; cbn [lower upper] in *; try contradiction;
        rewrite ?EP, ?E; ecbn; b2p.
      * (* (-inf, u] *)
        destruct (qleb u1 0) eqn:S; apply bnew_enclose; rewrite ?EP, ?E; ecbn; try reflexivity; b2p; p2b.
        -- apply qpow_even_anti; assumption.
        -- apply qpow_even_nonneg; assumption.
      * (* whole line *)
        apply bnew_enclose; rewrite ?EP, ?E; ecbn; try reflexivity. p2b. apply qpow_even_nonneg; assumption.
      * (* [l, u] *)
        destruct (qleb 0 l1) eqn:S1; [|destruct (qleb u1 0) eqn:S2];
          apply bnew_enclose; rewrite ?EP, ?E; ecbn; b2p; p2b.
        -- apply qpow_mono; assumption.
        -- apply qpow_mono; [qc2q; lra|assumption].
        -- apply qpow_even_anti; assumption.
        -- apply qpow_even_anti; [assumption|assumption|qc2q; lra].
        -- apply qpow_even_nonneg; assumption.
        -- apply emax_fin_ge. apply (qpow_even_cross l1 u1 x n E); assumption.
      * (* [l, inf) *)
        destruct (qleb 0 l1) eqn:S1; apply bnew_enclose; rewrite ?EP, ?E; ecbn; try reflexivity; b2p; p2b.
        -- apply qpow_mono; assumption.
        -- apply qpow_even_nonneg; assumption.
    + destruct X as [[|l1| |] [|u1| |]]; cbn [lower upper] in *; try contradiction;
        apply bnew_enclose; rewrite ?EP, ?E; ecbn; try reflexivity; b2p; p2b;
        apply qpow_odd_mono; assumption.
Qed.
