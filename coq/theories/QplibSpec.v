(* QplibSpec.v — the QPLIB conventions written down independently of the reader:
   an abstract QP model (what a QPLIB file describes), its [meaning] as an abstract
   instance, and an independent writer [render] producing the text, for every problem
   type code, with defaults / non-defaults, comment lines, indentation and trailing text.
   Only the enumerations (type letters, sense, variable type) are shared with Qplib.v. *)
Require Import Ommx.Num Ommx.Poly Ommx.Msg Ommx.Qplib.
From Coq Require Import String Ascii DecimalString.
Open Scope string_scope.
Open Scope list_scope.
Open Scope Qc_scope.

(* ------------------------------------------------------------------ *)
(* numbers as decimal literals: (+/-) mant * 10^exp10, printed in one of several styles *)
Inductive snum := SInf (neg : bool) | SDec (neg : bool) (mant : N) (exp10 : Z) (style : nat).

Definition q10 (e : Z) : Q :=
  if (0 <=? e)%Z then inject_Z (10 ^ e) else (/ inject_Z (10 ^ (- e)))%Q.
Definition sval (x : snum) : ext :=
  match x with
  | SInf true => NInf
  | SInf false => PInf
  | SDec neg m e _ =>
      let q := (inject_Z (Z.of_N m) * q10 e)%Q in Fin (Q2Qc (if neg then (- q)%Q else q))
  end.
Definition sfin (x : snum) : num := match sval x with Fin q => q | _ => 0 end.

Definition digits (n : N) : string := NilZero.string_of_uint (N.to_uint n).
Fixpoint zeros (k : nat) : string := match k with O => "" | S k' => String "0" (zeros k') end.
Fixpoint str_take (k : nat) (s : string) : string :=
  match k, s with
  | S k', String c s' => String c (str_take k' s')
  | _, _ => ""
  end.
Fixpoint str_drop (k : nat) (s : string) : string :=
  match k, s with
  | S k', String _ s' => str_drop k' s'
  | _, _ => s
  end.
(* mant * 10^e in positional notation *)
Definition fixed (m : N) (e : Z) (point_zero : bool) : string :=
  if (0 <=? e)%Z then digits m ++ zeros (Z.to_nat e) ++ (if point_zero then ".0" else "")
  else
    let k := Z.to_nat (- e) in
    let ds := digits m in
    let ds' := (zeros (S k - String.length ds)%nat ++ ds)%string in
    let ip := (String.length ds' - k)%nat in
    str_take ip ds' ++ "." ++ str_drop ip ds'.
Definition zdigits (z : Z) (plus : bool) : string :=
  (if (z <? 0)%Z then "-" else if plus then "+" else "") ++ digits (Z.abs_N z).
Definition print_snum (x : snum) : string :=
  match x with
  | SInf neg => (if neg then "-" else "") ++ "inf"
  | SDec neg m e style =>
      let sign := if neg then "-" else "" in
      match style with
      | 0%nat => sign ++ fixed m e false
      | 1%nat => sign ++ fixed m e true
      | 2%nat => sign ++ digits m ++ "E" ++ zdigits e true            (* 25E-2, 1E+20 *)
      | 3%nat => sign ++ digits m ++ "e" ++ zdigits e false           (* 25e-2, 1e20 *)
      | 4%nat =>                                                      (* 2.5E-1, 1.0E+20 *)
          let ds := digits m in
          let rest := str_drop 1 ds in
          sign ++ str_take 1 ds ++ "." ++ (if rest =? "" then "0" else rest) ++ "E"
               ++ zdigits (e + Z.of_nat (String.length ds) - 1)%Z true
      | _ => (if neg then "-" else "+") ++ fixed m e false            (* explicit sign *)
      end
  end.

(* ------------------------------------------------------------------ *)
(* the abstract QP model; all indices are the 1-based indices of the format *)
Record qp_model := {
  m_name : string;
  m_ok : okind; m_vk : vkind; m_ck : ckind;
  m_sense : sense;
  m_n : nat;                                  (* number of variables x_1 .. x_n *)
  m_m : nat;                                  (* number of constraints (kinds L D C Q) *)
  m_q0 : list (N * N * snum);                 (* lower triangle of Q^0: (i, j, Q_ij), i >= j *)
  m_b0d : snum; m_b0 : list (N * snum);       (* b^0: default and non-default entries *)
  m_q0c : snum;                               (* q^0 *)
  m_qs : list (N * N * N * snum);             (* lower triangles of Q^k: (k, i, j, Q^k_ij) *)
  m_bs : list (N * N * snum);                 (* b^k: (k, i, b^k_i) *)
  m_inf : snum;                               (* infinity threshold *)
  m_cld : snum; m_cl : list (N * snum);       (* c_l *)
  m_cud : snum; m_cu : list (N * snum);       (* c_u *)
  m_ld : snum; m_l : list (N * snum);         (* variable lower bounds *)
  m_ud : snum; m_u : list (N * snum);         (* variable upper bounds *)
  m_td : vtype; m_t : list (N * vtype);       (* variable types (kinds M and G) *)
  m_x0d : snum; m_x0 : list (N * snum);       (* starting point sections (no meaning here) *)
  m_y0d : snum; m_y0 : list (N * snum);
  m_z0d : snum; m_z0 : list (N * snum);
  m_vnames : list (N * string);
  m_cnames : list (N * string)
}.

Fixpoint lookup {A} (i : N) (l : list (N * A)) (d : A) : A :=
  match l with
  | [] => d
  | (j, a) :: l' => if (i =? j)%N then a else lookup i l' d
  end.
Definition lookup_opt {A} (i : N) (l : list (N * A)) : option A :=
  lookup i (map (fun ja => (fst ja, Some (snd ja))) l) None.

(* ------------------------------------------------------------------ *)
(* meaning: the abstract instance a model describes *)
Record avar := { av_id : N; av_kind : vtype; av_lo : ext; av_hi : ext;
                 av_name : option string }.
Record acon := { ac_id : N; ac_terms : terms }.     (* terms <= 0 *)
Record ainst := { a_sense : sense; a_obj : terms; a_vars : list avar; a_cons : list acon }.

(* "magnitudes at or beyond the file's infinity value mean unbounded" *)
Definition beyond (thr v : ext) : bool :=
  match v with
  | Fin x => match thr with Fin t => qleb t (qabs x) | PInf | NaN => false | NInf => true end
  | NaN => false
  | _ => match thr with NaN => false | _ => true end
  end.

Definition ones (n : nat) : list N := map (fun k => N.of_nat (S k)) (seq 0 n).   (* 1 .. n *)

(* the lower triangle of a symmetric Q in 1/2 x'Qx: entry (i,j), i<>j stands for both Q_ij and
   Q_ji, i.e. Q_ij x_i x_j; a diagonal entry for 1/2 Q_ii x_i^2 *)
Definition tri_term (i j : N) (v : num) : list N * num :=
  ([(i - 1)%N; (j - 1)%N], if (i =? j)%N then v / (1 + 1) else v).

Definition obj_terms (M : qp_model) : terms :=
  (match m_ok M with
   | OL => []
   | _ => map (fun e => let '(i, j, v) := e in tri_term i j (sfin v)) (m_q0 M)
   end)
  ++ map (fun i => ([(i - 1)%N], sfin (lookup i (m_b0 M) (m_b0d M)))) (ones (m_n M))
  ++ [([], sfin (m_q0c M))].

Definition has_quad_cons (ck : ckind) : bool :=
  match ck with CD | CC | CQ => true | _ => false end.
(* 1/2 x'Q^k x + b^k'x *)
Definition con_terms (M : qp_model) (k : N) : terms :=
  (if has_quad_cons (m_ck M) then
     flat_map (fun e => let '(k', i, j, v) := e in
                        if (k' =? k)%N then [tri_term i j (sfin v)] else []) (m_qs M)
   else [])
  ++ flat_map (fun e => let '(k', i, v) := e in
                        if (k' =? k)%N then [([(i - 1)%N], sfin v)] else []) (m_bs M).
Definition neg_terms (t : terms) : terms := map (fun mc => (fst mc, - snd mc)) t.

(* c_l <= g <= c_u  becomes  g - c_u <= 0 (id k-1)  and  -g + c_l <= 0 (id m+k-1),
   one per side that is not unbounded *)
Definition con_sides (M : qp_model) (k : N) : list acon :=
  let thr := sval (m_inf M) in
  let g := con_terms M k in
  let cu := sval (lookup k (m_cu M) (m_cud M)) in
  let cl := sval (lookup k (m_cl M) (m_cld M)) in
  (if beyond thr cu then []
   else match cu with
        | Fin c => [ {| ac_id := (k - 1)%N; ac_terms := g ++ [([], - c)] |} ]
        | _ => []
        end)
  ++
  (if beyond thr cl then []
   else match cl with
        | Fin c => [ {| ac_id := (N.of_nat (m_m M) + k - 1)%N;
                        ac_terms := neg_terms g ++ [([], c)] |} ]
        | _ => []
        end).

Definition is_fix01 (l u : ext) : bool :=
  match l, u with
  | Fin a, Fin b => (qeqb a 0 && qeqb b 1) || (qeqb a 1 && qeqb b 1) || (qeqb a 0 && qeqb b 0)
  | _, _ => false
  end.
Definition var_of (M : qp_model) (i : N) : avar :=
  let thr := sval (m_inf M) in
  let lo := match m_vk M with VB => Fin 0 | _ => sval (lookup i (m_l M) (m_ld M)) end in
  let hi := match m_vk M with VB => Fin 1 | _ => sval (lookup i (m_u M) (m_ud M)) end in
  (* an integer variable declared with bounds [0,1], [1,1] or [0,0] is a binary variable *)
  let int_or_bin := if is_fix01 lo hi then TBin else TInt in
  let kind := match m_vk M with
              | VC => TCont
              | VB => TBin
              | VI => int_or_bin
              | VM | VG => match lookup i (m_t M) (m_td M) with
                           | TInt => int_or_bin
                           | t => t
                           end
              end in
  {| av_id := (i - 1)%N; av_kind := kind;
     av_lo := if beyond thr lo then NInf else lo;
     av_hi := if beyond thr hi then PInf else hi;
     av_name := lookup_opt i (m_vnames M) |}.

Definition meaning (M : qp_model) : ainst :=
  {| a_sense := m_sense M;
     a_obj := obj_terms M;
     a_vars := map (var_of M) (ones (m_n M));
     a_cons := if has_cons (m_ck M) then flat_map (con_sides M) (ones (m_m M)) else [] |}.

(* ------------------------------------------------------------------ *)
(* the writer *)

(* what a word / field is read as (used to inject one fault of a given class) *)
Inductive role := RName | RType | RSense | RCount | RIdx | RNum | RVType | RStr.
Inductive lline :=
| LWord (r : role) (w : string)              (* a value line: the first word counts *)
| LEntry (fs : list (role * string)).        (* an entry line: fields split by one separator *)

Definition count {A} (l : list A) : lline := LWord RCount (digits (N.of_nat (List.length l))).
Definition vtype_code (t : vtype) : string :=
  match t with TCont => "0" | TInt => "1" | TBin => "2" end.
Definition e_i_num (e : N * snum) : lline :=
  LEntry [(RIdx, digits (fst e)); (RNum, print_snum (snd e))].
(* "default", "count", entries *)
Definition dsec (d : snum) (l : list (N * snum)) : list lline :=
  LWord RNum (print_snum d) :: count l :: map e_i_num l.
Definition nsec (l : list (N * string)) : list lline :=
  count l :: map (fun e => LEntry [(RIdx, digits (fst e)); (RStr, snd e)]) l.

Fixpoint map_s (f : ascii -> ascii) (s : string) : string :=
  match s with String c s' => String (f c) (map_s f s') | EmptyString => EmptyString end.
Definition sense_word (s : sense) (style : nat) : string :=
  let w := match s with Minimize => "minimize" | Maximize => "maximize" end in
  match style with
  | 0%nat => w
  | 1%nat => match w with String c r => String (upper c) r | _ => w end
  | _ => map_s upper w
  end.

Definition llines (code_lower : bool) (sense_style : nat) (M : qp_model) : list lline :=
  let hc := has_cons (m_ck M) in
  let code := ptype_string (m_ok M) (m_vk M) (m_ck M) in
  [ LWord RName (m_name M);
    LWord RType (if code_lower then map_s lower code else code);
    LWord RSense (sense_word (m_sense M) sense_style);
    LWord RCount (digits (N.of_nat (m_n M))) ]
  ++ (if hc then [LWord RCount (digits (N.of_nat (m_m M)))] else [])
  ++ (match m_ok M with
      | OL => []
      | _ => count (m_q0 M)
             :: map (fun e => let '(i, j, v) := e in
                      LEntry [(RIdx, digits i); (RIdx, digits j); (RNum, print_snum v)]) (m_q0 M)
      end)
  ++ dsec (m_b0d M) (m_b0 M)
  ++ [LWord RNum (print_snum (m_q0c M))]
  ++ (if has_quad_cons (m_ck M)
      then count (m_qs M)
           :: map (fun e => let '(k, i, j, v) := e in
                    LEntry [(RIdx, digits k); (RIdx, digits i); (RIdx, digits j);
                            (RNum, print_snum v)]) (m_qs M)
      else [])
  ++ (if hc
      then count (m_bs M)
           :: map (fun e => let '(k, i, v) := e in
                    LEntry [(RIdx, digits k); (RIdx, digits i); (RNum, print_snum v)]) (m_bs M)
      else [])
  ++ [LWord RNum (print_snum (m_inf M))]
  ++ (if hc then dsec (m_cld M) (m_cl M) ++ dsec (m_cud M) (m_cu M) else [])
  ++ (match m_vk M with VB => [] | _ => dsec (m_ld M) (m_l M) ++ dsec (m_ud M) (m_u M) end)
  ++ (match m_vk M with
      | VM | VG =>
          LWord RVType (vtype_code (m_td M)) :: count (m_t M)
          :: map (fun e => LEntry [(RIdx, digits (fst e)); (RVType, vtype_code (snd e))]) (m_t M)
      | _ => []
      end)
  ++ dsec (m_x0d M) (m_x0 M)
  ++ (if hc then dsec (m_y0d M) (m_y0 M) else [])
  ++ dsec (m_z0d M) (m_z0 M)
  ++ nsec (m_vnames M)
  ++ nsec (m_cnames M).

(* decoration of one logical line *)
Record deco := {
  d_before : list string;      (* comment / blank lines written before the line *)
  d_indent : string;           (* leading whitespace (value lines only) *)
  d_tab : bool;                (* separator: TAB instead of a space *)
  d_trail : string             (* trailing text after the values ("" = none) *)
}.
Definition plain : deco := {| d_before := []; d_indent := ""; d_tab := false; d_trail := "" |}.
Record layout := {
  ly_code_lower : bool;
  ly_sense_style : nat;
  ly_decos : list deco;        (* k-th logical line uses the k-th decoration (plain beyond) *)
  ly_after : list string       (* lines after the last section (never read) *)
}.

Definition tab : string := String (ascii_of_nat 9) "".
Fixpoint join (sep : string) (l : list string) : string :=
  match l with
  | [] => ""
  | [x] => x
  | x :: l' => x ++ sep ++ join sep l'
  end.
Definition render_line (d : deco) (l : lline) : list string :=
  let sep := if d_tab d then tab else " " in
  let trail := (if d_trail d =? "" then "" else sep ++ d_trail d)%string in
  d_before d ++
  [ match l with
    | LWord _ w => (d_indent d ++ w ++ trail)%string
    | LEntry fs => (join sep (map snd fs) ++ trail)%string
    end ].
Fixpoint render_lines (ds : list deco) (ls : list lline) : list string :=
  match ls with
  | [] => []
  | l :: ls' =>
      match ds with
      | [] => render_line plain l ++ render_lines [] ls'
      | d :: ds' => render_line d l ++ render_lines ds' ls'
      end
  end.
Definition render (ly : layout) (M : qp_model) : list string :=
  render_lines (ly_decos ly) (llines (ly_code_lower ly) (ly_sense_style ly) M) ++ ly_after ly.

(* ------------------------------------------------------------------ *)
(* one injected fault and the error it must produce *)
Inductive fault :=
| FNone
| FBad (r : role) (pick : nat) (w : string)   (* the (pick mod #)-th field of role r becomes w *)
| FEof (pick : nat).                          (* the text ends before logical line (pick mod #) *)

Definition role_eqb (a b : role) : bool :=
  match a, b with
  | RName, RName | RType, RType | RSense, RSense | RCount, RCount | RIdx, RIdx
  | RNum, RNum | RVType, RVType | RStr, RStr => true
  | _, _ => false
  end.
Definition role_count (r : role) (l : lline) : nat :=
  match l with
  | LWord r' _ => if role_eqb r r' then 1 else 0
  | LEntry fs => List.length (filter (fun f => role_eqb r (fst f)) fs)
  end.
Fixpoint subst_field (r : role) (k : nat) (w : string) (fs : list (role * string))
  : list (role * string) :=
  match fs with
  | [] => []
  | (r', s) :: fs' =>
      if role_eqb r r' then
        match k with O => (r', w) :: fs' | S k' => (r', s) :: subst_field r k' w fs' end
      else (r', s) :: subst_field r k w fs'
  end.
(* replace the k-th field of role r; returns the lines and the index of the line hit *)
Fixpoint subst_role (r : role) (k : nat) (w : string) (ls : list lline) (pos : nat)
  : list lline * option nat :=
  match ls with
  | [] => ([], None)
  | l :: ls' =>
      let c := role_count r l in
      if Nat.ltb k c then
        (match l with
         | LWord r' _ => LWord r' w
         | LEntry fs => LEntry (subst_field r k w fs)
         end :: ls', Some pos)
      else let (out, hit) := subst_role r (k - c)%nat w ls' (S pos) in (l :: out, hit)
  end.
Definition total_role (r : role) (ls : list lline) : nat :=
  fold_left (fun a l => a + role_count r l)%nat ls 0%nat.

(* physical line number (1-based) of logical line [pos] *)
Fixpoint phys_line (ds : list deco) (pos : nat) : nat :=
  match pos with
  | O => S (List.length (d_before (hd plain ds)))
  | S p => (S (List.length (d_before (hd plain ds))) + phys_line (tl ds) p)%nat
  end.

Inductive expect := XMeaning | XError (line : nat) (k : ekind) | XNoFault.
Definition role_ekind (r : role) : option ekind :=
  match r with
  | RType => Some EProblemType | RSense => Some ESense | RCount | RIdx => Some EInt
  | RNum => Some EFloat | RVType => Some EVarType | RName | RStr => None
  end.

Definition render_fault (ly : layout) (M : qp_model) (f : fault) : list string * expect :=
  let ls := llines (ly_code_lower ly) (ly_sense_style ly) M in
  match f with
  | FNone => (render ly M, XMeaning)
  | FBad r pick w =>
      let n := total_role r ls in
      match n, role_ekind r with
      | S _, Some e =>
          match subst_role r (pick mod n)%nat w ls 0%nat with
          | (ls', Some pos) =>
              (render_lines (ly_decos ly) ls' ++ ly_after ly, XError (phys_line (ly_decos ly) pos) e)
          | _ => (render ly M, XNoFault)
          end
      | _, _ => (render ly M, XNoFault)
      end
  | FEof pick =>
      let n := List.length ls in
      let k := (pick mod n)%nat in
      (* the first k logical lines, then the comment lines that preceded line k *)
      let text := render_lines (ly_decos ly) (firstn k ls)
                  ++ d_before (nth k (ly_decos ly) plain) in
      (text, XError (List.length text) EEof)
  end.
