(* AsMinInst.v — C15 (first half) at instance level: Instance::as_minimization_problem followed by
   Instance::evaluate.

   For I' = as_min I (the call succeeds exactly when the objective oneof is set or the instance is
   already a minimisation):

     as_min_eval_eq   inst_eval I' x = inst_eval I x                         if sense I = MINIMIZE
                      inst_eval I' x = option_map neg_objective (inst_eval I x)   otherwise
                      (an EQUATION between the two evaluations, at every state, failures included)

   and, derived from it:
     as_min_eval          success at the same states; same records, flags, state, variables;
                          objective negated unless the sense was MINIMIZE
     as_min_eval_ok       eval_ok I x <-> eval_ok I' x   (InstTotal's success conditions)
     as_min_eval_ranking  x at least as good as y for I (own sense)  <->  objective'(x) <= objective'(y)
     as_min_best_state    the selected best of a finite labelled list of states is the same
     as_min_eval_unspecified   sense 0 (and any value other than 1) is treated like MAXIMIZE.

   The negation of a function message keeps every stored id (no coefficient is dropped: scaling by
   -1 never goes through the `tiny` filter), so no hypothesis on `tiny` is needed at all: the
   theorems hold for EVERY `tiny`, in particular for every `tiny_exact` one. *)
Require Import Ommx.Num Ommx.Poly Ommx.Msg Ommx.Eval Ommx.Tree Ommx.Arith Ommx.ArithProofs Ommx.Inst
        Ommx.InstProofs Ommx.InstTotal Ommx.Transform Ommx.TransformProofs Ommx.Samples.
From Coq Require Import String Lia.
Close Scope string_scope.
Open Scope list_scope.
Open Scope Qc_scope.

(* ------------------------------------------------------------------ *)
(* 1. evaluation of a negated function message, loop by loop *)

Definition negv (vu : num * list N) : num * list N := (- fst vu, snd vu).
Definition scale_m1 {K} (kc : K * num) : K * num := (fst kc, snd kc * - (1)).

Lemma neg1_nonzero : qeqb (- (1)) 0 = false.
Proof. reflexivity. Qed.

Lemma lin_eval_loop_neg s : forall ts sum used,
  lin_eval_loop (map scale_m1 ts) s (- sum) used = option_map negv (lin_eval_loop ts s sum used).
Proof.
  induction ts as [|[i c] ts IH]; intros sum used; cbn [map lin_eval_loop scale_m1 fst snd].
  - reflexivity.
  - destruct (sget s i) as [x|]; [|reflexivity].
    replace (- sum + c * - (1) * x) with (- (sum + c * x)) by ring. apply IH.
Qed.

Lemma lin_eval_neg l s :
  lin_eval (lin_scale l (- (1))) s = option_map negv (lin_eval l s).
Proof.
  unfold lin_scale. rewrite neg1_nonzero. unfold lin_eval. cbn [l_terms l_const].
  replace (l_const l * - (1)) with (- l_const l) by ring.
  apply (lin_eval_loop_neg s (l_terms l)).
Qed.

Lemma zip3_map_vals r c (g : num -> num) : forall v,
  zip3 r c (map g v) = map (fun t : N * N * num => (fst t, g (snd t))) (zip3 r c v).
Proof.
  revert c. induction r as [|i r IH]; intros [|j c] [|x v]; cbn [map zip3 fst snd]; try reflexivity.
  rewrite IH. reflexivity.
Qed.

Lemma quad_eval_loop_neg s : forall z sum used,
  quad_eval_loop (map (fun t : N * N * num => (fst t, snd t * - (1))) z) s (- sum) used
  = option_map negv (quad_eval_loop z s sum used).
Proof.
  induction z as [|[[i j] x] z IH]; intros sum used; cbn [map quad_eval_loop fst snd].
  - reflexivity.
  - destruct (sget s i) as [u|]; [|reflexivity]. destruct (sget s j) as [w|]; [|reflexivity].
    replace (- sum + x * - (1) * u * w) with (- (sum + x * u * w)) by ring. apply IH.
Qed.

Lemma quad_eval_neg q s :
  quad_eval (quad_scale q (- (1))) s = option_map negv (quad_eval q s).
Proof.
  unfold quad_scale. rewrite neg1_nonzero. unfold quad_eval. cbn [q_rows q_cols q_vals q_lin].
  rewrite zip3_map_vals.
  destruct (q_lin q) as [l|].
  - rewrite lin_eval_neg. destruct (lin_eval l s) as [[sum used]|]; cbn [option_map negv fst snd]; [|reflexivity].
    apply quad_eval_loop_neg.
  - replace (0 : num) with (- 0) at 1 by ring. apply quad_eval_loop_neg.
Qed.

Lemma mono_eval_loop_neg s : forall ids v used,
  mono_eval_loop ids s (- v) used = option_map negv (mono_eval_loop ids s v used).
Proof.
  induction ids as [|i ids IH]; intros v used; cbn [mono_eval_loop].
  - reflexivity.
  - destruct (sget s i) as [x|]; [|reflexivity].
    replace (- v * x) with (- (v * x)) by ring. apply IH.
Qed.

Lemma poly_eval_loop_neg s : forall (p : polynomial) sum used,
  poly_eval_loop (map scale_m1 p) s (- sum) used = option_map negv (poly_eval_loop p s sum used).
Proof.
  induction p as [|[m c] p IH]; intros sum used; cbn [map poly_eval_loop scale_m1 fst snd].
  - reflexivity.
  - replace (c * - (1)) with (- c) by ring. rewrite mono_eval_loop_neg.
    destruct (mono_eval_loop m s c used) as [[w used']|]; cbn [option_map negv fst snd]; [|reflexivity].
    replace (- sum + - w) with (- (sum + w)) by ring. apply IH.
Qed.

Lemma poly_eval_neg p s :
  poly_eval (poly_scale p (- (1))) s = option_map negv (poly_eval p s).
Proof.
  unfold poly_scale. rewrite neg1_nonzero. unfold poly_eval.
  replace (0 : num) with (- 0) at 1 by ring. apply (poly_eval_loop_neg s p).
Qed.

(* the negated message evaluates, at EVERY state, to the negated value with the same list of used
   ids, and fails exactly where the original fails *)
Theorem fn_neg_eval tiny f f' : fn_neg tiny f = Some f' -> forall s,
  fn_eval f' s = option_map negv (fn_eval f s).
Proof.
  unfold fn_neg. intros E s.
  destruct f as [|c|l|q|p]; cbn [fn_mul] in E; try discriminate; inversion E; subst f'; clear E;
    cbn [fn_eval].
  - replace (c * - (1)) with (- c) by ring. reflexivity.
  - apply lin_eval_neg.
  - apply quad_eval_neg.
  - apply poly_eval_neg.
Qed.

(* negation succeeds exactly on a set oneof *)
Lemma fn_neg_defined tiny f : fn_neg tiny f <> None <-> f <> FUnset.
Proof.
  unfold fn_neg. destruct f; cbn [fn_mul]; split; intro H; congruence.
Qed.

(* ------------------------------------------------------------------ *)
(* 2. the negated message stores the same monomials (same order, same ids), each coefficient
      multiplied by -1: no term is dropped, not even one with coefficient 0 *)
Lemma lin_terms_neg l : lin_terms (lin_scale l (- (1))) = map scale_m1 (lin_terms l).
Proof.
  unfold lin_scale. rewrite neg1_nonzero. unfold lin_terms, lin1. cbn [l_terms l_const].
  rewrite map_app, !map_map. reflexivity.
Qed.
Theorem fn_neg_terms tiny f f' : fn_neg tiny f = Some f' ->
  fn_terms f' = map scale_m1 (fn_terms f).
Proof.
  unfold fn_neg. intro E.
  destruct f as [|c|l|q|p]; cbn [fn_mul] in E; try discriminate; inversion E; subst f'; clear E;
    cbn [fn_terms].
  - reflexivity.
  - apply lin_terms_neg.
  - unfold quad_scale. rewrite neg1_nonzero. unfold quad_terms. cbn [q_rows q_cols q_vals q_lin].
    rewrite zip3_map_vals, map_app. f_equal.
    + unfold quad2. rewrite !map_map. reflexivity.
    + destruct (q_lin q) as [l|]; cbn [optlin_terms map]; [apply lin_terms_neg|reflexivity].
  - unfold poly_scale. rewrite neg1_nonzero. reflexivity.
Qed.
Theorem fn_neg_occurs tiny f f' : fn_neg tiny f = Some f' -> forall i, occurs f' i <-> occurs f i.
Proof.
  intros E i. unfold occurs. rewrite (fn_neg_terms _ _ _ E). unfold occurs_terms. split.
  - intros (m & c & Hin & Hm). apply in_map_iff in Hin. destruct Hin as ([m0 c0] & Eq & Hin).
    unfold scale_m1 in Eq. cbn [fst snd] in Eq. inversion Eq; subst. exists m, c0. split; assumption.
  - intros (m & c & Hin & Hm). exists m, (c * - (1)). split; [|exact Hm].
    apply in_map_iff. exists (m, c). split; [reflexivity|exact Hin].
Qed.
Corollary fn_neg_covers tiny f f' : fn_neg tiny f = Some f' -> forall s, covers s f' <-> covers s f.
Proof.
  intros E s. unfold covers. split; intros H i Ho; apply H; apply (fn_neg_occurs _ _ _ E); exact Ho.
Qed.

(* ------------------------------------------------------------------ *)
(* 3. Instance::as_minimization_problem then Instance::evaluate *)

(* the same solution with the objective value negated *)
Definition neg_objective (sol : solution) : solution :=
  {| so_state := so_state sol; so_objective := - so_objective sol; so_dvs := so_dvs sol;
     so_evaluated := so_evaluated sol; so_feasible := so_feasible sol;
     so_feasible_relaxed := so_feasible_relaxed sol |}.

(* when the conversion succeeds *)
Theorem as_min_defined tiny I :
  as_min tiny I <> None <-> (i_sense I = SENSE_MIN \/ i_obj I <> Some FUnset).
Proof.
  unfold as_min. destruct (i_sense I =? SENSE_MIN)%Z eqn:E.
  - apply Z.eqb_eq in E. split; [auto|discriminate].
  - apply Z.eqb_neq in E.
    pose proof (fn_neg_defined tiny (fn_or_zero (i_obj I))) as D.
    destruct (fn_neg tiny (fn_or_zero (i_obj I))) as [f|].
    + split; [|discriminate]. intros _. right. intro H. rewrite H in D. cbn [fn_or_zero] in D.
      destruct D as [D _]. apply D; [discriminate|reflexivity].
    + split; [intro H; exfalso; apply H; reflexivity|].
      intros [H|H]; [contradiction|]. exfalso.
      assert (X : fn_or_zero (i_obj I) <> FUnset).
      { destruct (i_obj I) as [f|]; cbn [fn_or_zero]; [congruence|discriminate]. }
      apply D in X. apply X. reflexivity.
Qed.

(* THE EQUATION: the evaluation of the converted instance is the evaluation of the original one
   with the objective value negated (nothing at all changes for a minimisation), at every state;
   in particular both fail at the same states *)
Theorem as_min_eval_eq tiny I I' : as_min tiny I = Some I' -> forall x,
  inst_eval I' x = if (i_sense I =? SENSE_MIN)%Z then inst_eval I x
                   else option_map neg_objective (inst_eval I x).
Proof.
  unfold as_min. destruct (i_sense I =? SENSE_MIN)%Z eqn:E.
  - intro H; inversion H; subst. reflexivity.
  - destruct (fn_neg tiny (fn_or_zero (i_obj I))) as [f|] eqn:Ng; [|discriminate].
    intro H; inversion H; subst I'; clear H. intro x.
    unfold inst_eval. cbn [with_obj_sense i_dvs i_cs i_rs i_deps i_obj fn_or_zero].
    destruct (negb (check_bound (i_dvs I) x tol7)); [reflexivity|].
    destruct (eval_loop constr_eval (i_cs I) x true []) as [[fr ev1]|]; [|reflexivity].
    destruct (eval_loop removed_eval (i_rs I) x fr ev1) as [[fe ev2]|]; [|reflexivity].
    rewrite (fn_neg_eval _ _ _ Ng x).
    destruct (fn_eval (fn_or_zero (i_obj I)) x) as [[obj ids]|]; cbn [option_map negv fst snd]; [|reflexivity].
    destruct (eval_deps (i_deps I) (insert_subst (i_dvs I) x)) as [s1|]; [|reflexivity].
    destruct (fill_vacant (i_dvs I) s1) as [s2|]; reflexivity.
Qed.

(* what the converted instance is *)
Lemma as_min_sense tiny I I' : as_min tiny I = Some I' -> i_sense I' = SENSE_MIN.
Proof.
  unfold as_min. destruct (i_sense I =? SENSE_MIN)%Z eqn:E.
  - apply Z.eqb_eq in E. intro H; inversion H; subst. exact E.
  - destruct (fn_neg tiny (fn_or_zero (i_obj I))); [|discriminate]. intro H; inversion H; reflexivity.
Qed.

(* the statement asked for: success at the same states; when both succeed, objective negated unless
   the instance already was a minimisation, everything else identical *)
Theorem as_min_eval tiny I I' : as_min tiny I = Some I' -> forall x,
  ((exists sol, inst_eval I x = Some sol) <-> (exists sol', inst_eval I' x = Some sol')) /\
  (forall sol sol', inst_eval I x = Some sol -> inst_eval I' x = Some sol' ->
     so_objective sol' = (if (i_sense I =? SENSE_MIN)%Z then so_objective sol else - so_objective sol) /\
     so_evaluated sol' = so_evaluated sol /\
     so_feasible sol' = so_feasible sol /\
     so_feasible_relaxed sol' = so_feasible_relaxed sol /\
     so_state sol' = so_state sol /\
     so_dvs sol' = so_dvs sol).
Proof.
  intros H x. pose proof (as_min_eval_eq _ _ _ H x) as Eq.
  destruct (i_sense I =? SENSE_MIN)%Z.
  - rewrite Eq. split; [tauto|]. intros sol sol' E1 E2. rewrite E1 in E2. inversion E2; subst.
    repeat split; reflexivity.
  - split.
    + rewrite Eq. destruct (inst_eval I x) as [sol|]; cbn [option_map].
      * split; intros _; eauto.
      * split; intros [? D]; discriminate.
    + intros sol sol' E1 E2. rewrite Eq, E1 in E2. cbn [option_map] in E2. inversion E2; subst.
      unfold neg_objective; cbn. repeat split; reflexivity.
Qed.

(* the same through the success conditions of InstTotal *)
Corollary as_min_eval_ok tiny I I' : as_min tiny I = Some I' -> forall x, eval_ok I x <-> eval_ok I' x.
Proof.
  intros H x. rewrite <- !inst_eval_succeeds_iff. apply (as_min_eval _ _ _ H x).
Qed.
Corollary as_min_eval_fails tiny I I' : as_min tiny I = Some I' -> forall x,
  inst_eval I x = None <-> inst_eval I' x = None.
Proof.
  intros H x. rewrite !inst_eval_fails_iff, (as_min_eval_ok _ _ _ H x). tauto.
Qed.

(* the three cases of the sense field *)
Corollary as_min_eval_maximize tiny I I' : as_min tiny I = Some I' -> i_sense I = SENSE_MAX ->
  forall x, inst_eval I' x = option_map neg_objective (inst_eval I x).
Proof. intros H S x. rewrite (as_min_eval_eq _ _ _ H x), S. reflexivity. Qed.
Corollary as_min_eval_minimize tiny I I' : as_min tiny I = Some I' -> i_sense I = SENSE_MIN ->
  I' = I /\ forall x, inst_eval I' x = inst_eval I x.
Proof.
  intros H S. split.
  - unfold as_min in H. rewrite S in H. cbn in H. inversion H. reflexivity.
  - intro x. rewrite (as_min_eval_eq _ _ _ H x), S. reflexivity.
Qed.
(* SENSE_UNSPECIFIED = 0 (and, in the model, any value other than 1): converted exactly like a
   maximisation — sense set to MINIMIZE and objective negated *)
Corollary as_min_eval_unspecified tiny I I' : as_min tiny I = Some I' -> i_sense I <> SENSE_MIN ->
  i_sense I' = SENSE_MIN /\ forall x, inst_eval I' x = option_map neg_objective (inst_eval I x).
Proof.
  intros H S. split; [apply (as_min_sense _ _ _ H)|]. intro x.
  rewrite (as_min_eval_eq _ _ _ H x). apply Z.eqb_neq in S. rewrite S. reflexivity.
Qed.
Corollary as_min_eval_sense0 tiny I I' : as_min tiny I = Some I' -> i_sense I = 0%Z ->
  i_sense I' = SENSE_MIN /\ forall x, inst_eval I' x = option_map neg_objective (inst_eval I x).
Proof. intros H S. apply (as_min_eval_unspecified _ _ _ H). rewrite S. discriminate. Qed.

(* ------------------------------------------------------------------ *)
(* 4. ranking of evaluated states.
   `better sense a b` (Samples.v, the comparison used by best_feasible) says that objective value a
   is STRICTLY better than b: a < b for MINIMIZE, b < a for every other sense value. *)

(* a is at least as good as b: b is not strictly better than a *)
Definition at_least_as_good (sense : Z) (a b : num) : Prop := better sense b a = false.

Lemma at_least_as_good_min a b : at_least_as_good SENSE_MIN a b <-> a <= b.
Proof. unfold at_least_as_good, better. cbn [Z.eqb SENSE_MIN Pos.eqb]. apply qltb_ge. Qed.
Lemma at_least_as_good_other sense a b : sense <> SENSE_MIN -> (at_least_as_good sense a b <-> b <= a).
Proof.
  intro S. apply Z.eqb_neq in S. unfold at_least_as_good, better. rewrite S. apply qltb_ge.
Qed.
Lemma at_least_as_good_max a b : at_least_as_good SENSE_MAX a b <-> b <= a.
Proof. apply at_least_as_good_other. discriminate. Qed.

Lemma qltb_opp a b : qltb (- a) (- b) = qltb b a.
Proof.
  destruct (qltb b a) eqn:E.
  - apply qltb_lt in E. destruct (qltb (- a) (- b)) eqn:E2; [reflexivity|]. exfalso.
    apply qltb_ge in E2. apply Qcopp_le_compat in E2. rewrite !Qcopp_involutive in E2.
    exact (Qcle_not_lt _ _ E2 E).
  - apply qltb_ge in E. apply qltb_ge. apply Qcopp_le_compat. exact E.
Qed.
Lemma better_neg sense a b : sense <> SENSE_MIN -> better SENSE_MIN (- a) (- b) = better sense a b.
Proof.
  intro S. apply Z.eqb_neq in S. unfold better. rewrite S. cbn [Z.eqb SENSE_MIN Pos.eqb]. apply qltb_opp.
Qed.

(* the strict comparison of two evaluated states is the same on both instances, each under its own
   sense *)
Theorem as_min_eval_better tiny I I' : as_min tiny I = Some I' ->
  forall x y sx sy sx' sy',
    inst_eval I x = Some sx -> inst_eval I y = Some sy ->
    inst_eval I' x = Some sx' -> inst_eval I' y = Some sy' ->
    better (i_sense I') (so_objective sx') (so_objective sy')
    = better (i_sense I) (so_objective sx) (so_objective sy).
Proof.
  intros H x y sx sy sx' sy' Ex Ey Ex' Ey'.
  rewrite (as_min_sense _ _ _ H).
  destruct (proj2 (as_min_eval _ _ _ H x) _ _ Ex Ex') as (Ox & _).
  destruct (proj2 (as_min_eval _ _ _ H y) _ _ Ey Ey') as (Oy & _).
  rewrite Ox, Oy. destruct (i_sense I =? SENSE_MIN)%Z eqn:S.
  - apply Z.eqb_eq in S. rewrite S. reflexivity.
  - apply Z.eqb_neq in S. apply better_neg. exact S.
Qed.

(* x at least as good as y for I in I's own sense  <->  objective of x <= objective of y for I' *)
Theorem as_min_eval_ranking tiny I I' : as_min tiny I = Some I' ->
  forall x y sx sy sx' sy',
    inst_eval I x = Some sx -> inst_eval I y = Some sy ->
    inst_eval I' x = Some sx' -> inst_eval I' y = Some sy' ->
    (at_least_as_good (i_sense I) (so_objective sx) (so_objective sy)
     <-> so_objective sx' <= so_objective sy').
Proof.
  intros H x y sx sy sx' sy' Ex Ey Ex' Ey'.
  rewrite <- at_least_as_good_min. unfold at_least_as_good.
  rewrite <- (as_min_eval_better _ _ _ H y x sy sx sy' sx' Ey Ex Ey' Ex').
  rewrite (as_min_sense _ _ _ H). tauto.
Qed.
Corollary as_min_eval_ranking_max tiny I I' : as_min tiny I = Some I' -> i_sense I = SENSE_MAX ->
  forall x y sx sy sx' sy',
    inst_eval I x = Some sx -> inst_eval I y = Some sy ->
    inst_eval I' x = Some sx' -> inst_eval I' y = Some sy' ->
    (so_objective sy <= so_objective sx <-> so_objective sx' <= so_objective sy').
Proof.
  intros H S x y sx sy sx' sy' Ex Ey Ex' Ey'.
  rewrite <- (as_min_eval_ranking _ _ _ H x y sx sy sx' sy' Ex Ey Ex' Ey'), S.
  symmetry. apply at_least_as_good_max.
Qed.
Corollary as_min_eval_ranking_min tiny I I' : as_min tiny I = Some I' -> i_sense I = SENSE_MIN ->
  forall x y sx sy sx' sy',
    inst_eval I x = Some sx -> inst_eval I y = Some sy ->
    inst_eval I' x = Some sx' -> inst_eval I' y = Some sy' ->
    (so_objective sx <= so_objective sy <-> so_objective sx' <= so_objective sy').
Proof.
  intros H S x y sx sy sx' sy' Ex Ey Ex' Ey'.
  rewrite <- (as_min_eval_ranking _ _ _ H x y sx sy sx' sy' Ex Ey Ex' Ey'), S.
  symmetry. apply at_least_as_good_min.
Qed.

(* x is optimal among the states of a list (those that evaluate) for I  <->  for I' *)
Theorem as_min_eval_optimal tiny I I' : as_min tiny I = Some I' ->
  forall (xs : list state) x sx sx', inst_eval I x = Some sx -> inst_eval I' x = Some sx' ->
  ((forall y sy, In y xs -> inst_eval I y = Some sy ->
      at_least_as_good (i_sense I) (so_objective sx) (so_objective sy)) <->
   (forall y sy', In y xs -> inst_eval I' y = Some sy' -> so_objective sx' <= so_objective sy')).
Proof.
  intros H xs x sx sx' Ex Ex'. split.
  - intros A y sy' Hy Ey'.
    destruct (proj2 (proj1 (as_min_eval _ _ _ H y)) (ex_intro _ sy' Ey')) as [sy Ey].
    apply (as_min_eval_ranking _ _ _ H x y sx sy sx' sy' Ex Ey Ex' Ey'). apply (A y sy Hy Ey).
  - intros A y sy Hy Ey.
    destruct (proj1 (proj1 (as_min_eval _ _ _ H y)) (ex_intro _ sy Ey)) as [sy' Ey'].
    apply (as_min_eval_ranking _ _ _ H x y sx sy sx' sy' Ex Ey Ex' Ey'). apply (A y sy' Hy Ey').
Qed.

(* ------------------------------------------------------------------ *)
(* 5. the selected best of a finite labelled list of states (selection = Samples.first_best, the
      min_by of best_feasible: first of several equally good ones) *)
Definition negkv (kv : N * num) : N * num := (fst kv, - snd kv).

Lemma first_best_neg sense : sense <> SENSE_MIN -> forall l cur,
  first_best SENSE_MIN (map negkv l) (option_map negkv cur) = option_map negkv (first_best sense l cur).
Proof.
  intro S. induction l as [|[k v] l IH]; intro cur; cbn [map first_best negkv fst snd]; [reflexivity|].
  destruct cur as [[k0 v0]|]; cbn [option_map negkv fst snd].
  - rewrite (better_neg sense v v0 S). destruct (better sense v v0).
    + apply (IH (Some (k, v))).
    + apply (IH (Some (k0, v0))).
  - apply (IH (Some (k, v))).
Qed.

Lemma is_best_neg sense objs k : sense <> SENSE_MIN ->
  (is_best SENSE_MIN (map negkv objs) k <-> is_best sense objs k).
Proof.
  intro S. unfold is_best. split.
  - intros (v & Hin & Hall). apply in_map_iff in Hin. destruct Hin as ([k1 v1] & E & Hin).
    unfold negkv in E; cbn [fst snd] in E. inversion E; subst. exists v1. split; [exact Hin|].
    intros j w Hj. rewrite <- (better_neg sense w v1 S). apply (Hall j (- w)).
    apply in_map_iff. exists (j, w). split; [reflexivity|exact Hj].
  - intros (v & Hin & Hall). exists (- v). split.
    + apply in_map_iff. exists (k, v). split; [reflexivity|exact Hin].
    + intros j w Hj. apply in_map_iff in Hj. destruct Hj as ([j1 w1] & E & Hj).
      unfold negkv in E; cbn [fst snd] in E. inversion E; subst.
      rewrite (better_neg sense w1 v S). apply (Hall j w1 Hj).
Qed.

(* objective values of a labelled list of states; None if some state does not evaluate *)
Definition objs_of (I : instance) (xs : list (N * state)) : option (list (N * num)) :=
  omap (fun kx : N * state =>
          match inst_eval I (snd kx) with
          | Some sol => Some (fst kx, so_objective sol)
          | None => None
          end) xs.
Definition best_state (I : instance) (xs : list (N * state)) : option N :=
  match objs_of I xs with
  | Some objs => match first_best (i_sense I) objs None with Some (k, _) => Some k | None => None end
  | None => None
  end.

Lemma objs_of_as_min tiny I I' : as_min tiny I = Some I' -> forall xs,
  objs_of I' xs = if (i_sense I =? SENSE_MIN)%Z then objs_of I xs
                  else option_map (map negkv) (objs_of I xs).
Proof.
  intros H xs. unfold objs_of. destruct (i_sense I =? SENSE_MIN)%Z eqn:S.
  - induction xs as [|[k x] xs IH]; cbn [omap obind fst snd]; [reflexivity|].
    rewrite (as_min_eval_eq _ _ _ H x), S, IH. reflexivity.
  - induction xs as [|[k x] xs IH]; cbn [omap obind fst snd]; [reflexivity|].
    rewrite (as_min_eval_eq _ _ _ H x), S, IH.
    destruct (inst_eval I x) as [sol|]; cbn [option_map obind]; [|reflexivity].
    match goal with |- context [option_map _ (omap ?f xs)] => destruct (omap f xs) as [ys|] end;
      reflexivity.
Qed.

Theorem as_min_best_state tiny I I' : as_min tiny I = Some I' -> forall xs,
  best_state I' xs = best_state I xs.
Proof.
  intros H xs. unfold best_state. rewrite (objs_of_as_min _ _ _ H xs), (as_min_sense _ _ _ H).
  destruct (i_sense I =? SENSE_MIN)%Z eqn:S.
  - apply Z.eqb_eq in S. rewrite S. reflexivity.
  - apply Z.eqb_neq in S. destruct (objs_of I xs) as [objs|]; cbn [option_map]; [|reflexivity].
    pose proof (first_best_neg (i_sense I) S objs None) as FB.
    change (option_map negkv None) with (@None (N * num)) in FB. rewrite FB.
    destruct (first_best (i_sense I) objs None) as [[k v]|]; reflexivity.
Qed.

(* the same for the declarative notion (any unbeaten candidate) *)
Theorem as_min_is_best tiny I I' : as_min tiny I = Some I' -> forall xs objs objs' k,
  objs_of I xs = Some objs -> objs_of I' xs = Some objs' ->
  (is_best (i_sense I') objs' k <-> is_best (i_sense I) objs k).
Proof.
  intros H xs objs objs' k E E'. rewrite (objs_of_as_min _ _ _ H xs), E in E'.
  rewrite (as_min_sense _ _ _ H). destruct (i_sense I =? SENSE_MIN)%Z eqn:S.
  - apply Z.eqb_eq in S. rewrite S. inversion E'; subst. tauto.
  - apply Z.eqb_neq in S. cbn [option_map] in E'. inversion E'; subst. apply is_best_neg. exact S.
Qed.

(* ------------------------------------------------------------------ *)
(* 6. non-vacuity: a maximisation instance whose quadratic objective is stored in a NON-normalised
      way (row > column, the pair (1,2) stored three times, a zero coefficient on (3,3), a repeated
      id and a zero coefficient in the linear part), one inequality constraint, three states.
        objective  = 3 x2 x1 - x1 x2 + 2 x2 x1 + 0 x3 x3 + 2 x1 + x1 + 0 x3 + 4 = 4 x1 x2 + 3 x1 + 4
        constraint : x1 + x2 - 3 <= 0
        X = (1, 2, 0): objective 15, feasible;   Y = (1, 3, 1): objective 19, infeasible;
        Z = (1, 2) gives no value to x3 (which occurs with coefficient 0 only): rejected by both. *)
Definition ex_tiny : num -> bool := fun c => qeqb c 0.
Example ex_tiny_exact : tiny_exact ex_tiny.
Proof. intros c H. apply qeqb_eq. exact H. Qed.

Definition ex_meta : list tree := [L []; L []; L []; L []].
Definition ex_obj : function :=
  FQuad {| q_rows := [2; 1; 2; 3]%N; q_cols := [1; 2; 1; 3]%N;
           q_vals := [qz 3; qz (-1); qz 2; qz 0];
           q_lin := Some {| l_terms := [(1%N, qz 2); (1%N, qz 1); (3%N, qz 0)]; l_const := qz 4 |} |}.
Definition ex_I : instance :=
  {| i_sense := SENSE_MAX; i_obj := Some ex_obj;
     i_dvs := [ {| dv_id := 1; dv_kind := KIND_BINARY; dv_bound := None; dv_subst := None; dv_meta := ex_meta |};
                {| dv_id := 2; dv_kind := KIND_INTEGER; dv_bound := Some (Fin (qz 0), Fin (qz 5));
                   dv_subst := None; dv_meta := ex_meta |};
                {| dv_id := 3; dv_kind := KIND_CONTINUOUS; dv_bound := Some (Fin (qz (-2)), Fin (qz 2));
                   dv_subst := None; dv_meta := ex_meta |} ];
     i_cs := [ {| c_id := 7; c_eq := LE_ZERO;
                  c_fn := Some (FLin {| l_terms := [(1%N, qz 1); (2%N, qz 1)]; l_const := qz (-3) |});
                  c_meta := ex_meta |} ];
     i_rs := []; i_deps := []; i_params := None; i_hints := L []; i_desc := L [] |}.
Definition ex_X : state := [(1%N, qz 1); (2%N, qz 2); (3%N, qz 0)].
Definition ex_Y : state := [(1%N, qz 1); (2%N, qz 3); (3%N, qz 1)].
Definition ex_Z : state := [(1%N, qz 1); (2%N, qz 2)].

(* objective value and flags of an evaluation, as booleans that vm_compute can decide *)
Definition reports_obj (I : instance) (x : state) (v : num) (feas : bool) : bool :=
  match inst_eval I x with
  | Some sol => qeqb (so_objective sol) v && Bool.eqb (so_feasible sol) feas
                && Bool.eqb (so_feasible_relaxed sol) feas
  | None => false
  end.

Example as_min_eval_nonvacuous :
  exists I', as_min ex_tiny ex_I = Some I' /\ i_sense ex_I = SENSE_MAX /\ i_sense I' = SENSE_MIN /\
    reports_obj ex_I ex_X (qz 15) true = true /\ reports_obj I' ex_X (qz (-15)) true = true /\
    reports_obj ex_I ex_Y (qz 19) false = true /\ reports_obj I' ex_Y (qz (-19)) false = true /\
    inst_eval ex_I ex_Z = None /\ inst_eval I' ex_Z = None /\
    best_state ex_I [(10%N, ex_X); (11%N, ex_Y)] = Some 11%N /\
    best_state I' [(10%N, ex_X); (11%N, ex_Y)] = Some 11%N.
Proof.
  destruct (as_min ex_tiny ex_I) as [I'|] eqn:E; [|vm_compute in E; discriminate].
  exists I'. split; [reflexivity|].
  assert (E' := E). vm_compute in E'. inversion E'; subst I'; clear E'.
  vm_compute. repeat split; reflexivity.
Qed.

(* the general theorems applied to the example: the hypotheses are satisfiable *)
Example as_min_eval_nonvacuous_thm :
  exists I' sx sy sx' sy',
    as_min ex_tiny ex_I = Some I' /\
    inst_eval ex_I ex_X = Some sx /\ inst_eval ex_I ex_Y = Some sy /\
    inst_eval I' ex_X = Some sx' /\ inst_eval I' ex_Y = Some sy' /\
    so_objective sx' = - so_objective sx /\ so_evaluated sx' = so_evaluated sx /\
    (so_objective sx <= so_objective sy <-> so_objective sy' <= so_objective sx').
Proof.
  destruct (as_min ex_tiny ex_I) as [I'|] eqn:E; [|vm_compute in E; discriminate].
  assert (Sx : exists sx, inst_eval ex_I ex_X = Some sx).
  { destruct (inst_eval ex_I ex_X) eqn:Q; [eauto|vm_compute in Q; discriminate]. }
  assert (Sy : exists sy, inst_eval ex_I ex_Y = Some sy).
  { destruct (inst_eval ex_I ex_Y) eqn:Q; [eauto|vm_compute in Q; discriminate]. }
  destruct Sx as [sx Ex]. destruct Sy as [sy Ey].
  destruct (proj1 (proj1 (as_min_eval _ _ _ E ex_X)) (ex_intro _ sx Ex)) as [sx' Ex'].
  destruct (proj1 (proj1 (as_min_eval _ _ _ E ex_Y)) (ex_intro _ sy Ey)) as [sy' Ey'].
  exists I', sx, sy, sx', sy'. split; [reflexivity|]. repeat (split; [assumption|]).
  destruct (proj2 (as_min_eval _ _ _ E ex_X) _ _ Ex Ex') as (O & Ev & _).
  split; [exact O|]. split; [exact Ev|].
  apply (as_min_eval_ranking_max _ _ _ E eq_refl ex_Y ex_X sy sx sy' sx' Ey Ex Ey' Ex').
Qed.

Print Assumptions fn_neg_eval.
Print Assumptions fn_neg_occurs.
Print Assumptions as_min_defined.
Print Assumptions as_min_eval_eq.
Print Assumptions as_min_eval.
Print Assumptions as_min_eval_ok.
Print Assumptions as_min_eval_unspecified.
Print Assumptions as_min_eval_better.
Print Assumptions as_min_eval_ranking.
Print Assumptions as_min_eval_optimal.
Print Assumptions as_min_best_state.
Print Assumptions as_min_is_best.
Print Assumptions as_min_eval_nonvacuous.
Print Assumptions as_min_eval_nonvacuous_thm.

(* the statement in the shape of the C15 theorems (the hypothesis tiny_exact is not used) *)
Corollary as_min_eval_tiny_exact : forall tiny, tiny_exact tiny -> forall I I', as_min tiny I = Some I' ->
  forall x,
  ((exists sol, inst_eval I x = Some sol) <-> (exists sol', inst_eval I' x = Some sol')) /\
  (forall sol sol', inst_eval I x = Some sol -> inst_eval I' x = Some sol' ->
     so_objective sol' = (if (i_sense I =? SENSE_MAX)%Z then - so_objective sol
                          else if (i_sense I =? SENSE_MIN)%Z then so_objective sol
                          else - so_objective sol) /\
     so_evaluated sol' = so_evaluated sol /\ so_feasible sol' = so_feasible sol /\
     so_feasible_relaxed sol' = so_feasible_relaxed sol /\ so_state sol' = so_state sol /\
     so_dvs sol' = so_dvs sol).
Proof.
  intros tiny _ I I' H x. destruct (as_min_eval _ _ _ H x) as [A B]. split; [exact A|].
  intros sol sol' E E'. destruct (B sol sol' E E') as (O & R). split; [|exact R].
  rewrite O. destruct (i_sense I =? SENSE_MAX)%Z eqn:S; [|reflexivity].
  apply Z.eqb_eq in S. rewrite S. reflexivity.
Qed.
Print Assumptions as_min_eval_tiny_exact.
