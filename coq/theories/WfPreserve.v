(* WfPreserve.v — C08 x transformations: the SDK's transformations PRESERVE VALIDITY.
   For every operation of the model (relax / restore, as_min, partial evaluation, penalty methods,
   with_parameters, of_instance, substitute, log_encode (+ appended binaries, + substitution),
   integer-slack conversions) : a validated input gives a validated output, under exactly the
   stated extra hypotheses.  Everything is about IDS (Function::used_decision_variable_ids =
   [fn_used], all ids stored in the message, zero coefficients included), so every statement holds
   for an ARBITRARY dropping test [tiny]. *)
Require Import Ommx.Bound.   (* first: its lin_iter / quad_iter / fn_iter must not shadow Arith's *)
Require Import Ommx.Num Ommx.Poly Ommx.Msg Ommx.Eval Ommx.Tree Ommx.Arith Ommx.ArithProofs Ommx.PEval
        Ommx.PEvalIds Ommx.Inst Ommx.InstProofs Ommx.Relax Ommx.Transform Ommx.TransformProofs
        Ommx.Validate Ommx.ValidateProofs Ommx.PEvalInst Ommx.Subst Ommx.Slack
        Ommx.LogEncPath.
From Coq Require Import String Permutation Lia.
Close Scope string_scope.
Close Scope Qc_scope.
Open Scope list_scope.

(* ================================================================== *)
(* Part A — the ids stored in the result of every function operation   *)
(* ================================================================== *)

Notation U f i := (In i (fn_used f)).
Notation lk l := (map fst (l_terms l)).

(* ---- entries of quadratic forms ---- *)
Lemma ent_ids_keys (l : tlist (N * N)) i :
  In i (ent_ids l) <-> exists k, In k (keys l) /\ (i = fst k \/ i = snd k).
Proof.
  unfold ent_ids, keys. rewrite in_flat_map. split.
  - intros (e & He & Hi). exists (fst e). split; [apply in_map; exact He|].
    cbn [In] in Hi. destruct Hi as [ <- | [ <- | [] ] ]; auto.
  - intros (k & Hk & Hi). apply in_map_iff in Hk. destruct Hk as (e & <- & He).
    exists e. split; [exact He|]. cbn [In]. destruct Hi as [ -> | -> ]; auto.
Qed.

Lemma ent_ids_zip3 r : forall c v i, In i (ent_ids (zip3 r c v)) -> In i r \/ In i c.
Proof.
  induction r as [|a r IH]; intros [|b c] [|x v] i; cbn [zip3 ent_ids flat_map In app]; try tauto.
  cbn [fst snd]. intros [ <- | [ <- | H ] ]; auto.
  apply IH in H. tauto.
Qed.
Lemma ent_ids_zip3_rev r : forall c v i,
  List.length r = List.length c -> List.length r = List.length v ->
  In i r \/ In i c -> In i (ent_ids (zip3 r c v)).
Proof.
  induction r as [|a r IH]; intros [|b c] [|x v] i; cbn [List.length]; try discriminate.
  - intros _ _ [[]|[]].
  - intros E1 E2 H. cbn [zip3 ent_ids flat_map app In fst snd].
    fold (ent_ids (zip3 r c v)).
    destruct H as [ [ <- | H ] | [ <- | H ] ]; auto; right; right; apply IH; auto.
Qed.

Lemma ent_ids_merge tn (l : tlist (N * N)) i : In i (ent_ids (merge pair_eqb tn l)) -> In i (ent_ids l).
Proof.
  rewrite !ent_ids_keys. intros (k & Hk & Hi). exists k. split; [|exact Hi].
  apply (merge_keys pair_eqb pair_eqb_spec) in Hk. exact Hk.
Qed.
Lemma ent_ids_merge_from tn (m l : tlist (N * N)) i :
  In i (ent_ids (merge_from pair_eqb tn m l)) -> In i (ent_ids m) \/ In i (ent_ids l).
Proof.
  rewrite !ent_ids_keys. intros (k & Hk & Hi).
  apply (merge_from_keys pair_eqb pair_eqb_spec (fun _ => 0%Qc)) in Hk.
  destruct Hk as [Hk|Hk]; [left|right]; exists k; auto.
Qed.
Lemma ent_ids_norm (l : tlist (N * N)) i :
  In i (ent_ids (map (fun kc => (norm_pair (fst kc), snd kc)) l)) -> In i (ent_ids l).
Proof.
  unfold ent_ids. rewrite !in_flat_map. intros (e & He & Hi).
  apply in_map_iff in He. destruct He as (e0 & <- & He0). exists e0. split; [exact He0|].
  cbn [fst snd In] in *. unfold norm_pair in Hi.
  destruct (fst (fst e0) <? snd (fst e0))%N; cbn [fst snd] in Hi; tauto.
Qed.
Lemma collect_overwrite_keys (l : tlist (N * N)) : forall m k,
  In k (keys (fold_left (fun m kc => upd pair_eqb (fst kc) (snd kc) m) l m)) ->
  In k (keys m) \/ In k (keys l).
Proof.
  induction l as [|[k0 c] l IH]; intros m k; cbn [fold_left fst snd]; [tauto|].
  intro H. apply IH in H. cbn [keys map fst In]. destruct H as [H|H]; [|tauto].
  apply (keys_upd pair_eqb pair_eqb_spec (fun _ => 0%Qc) never) in H. destruct H as [ -> | H ]; tauto.
Qed.
Lemma ent_ids_collect (l : tlist (N * N)) i : In i (ent_ids (collect_overwrite l)) -> In i (ent_ids l).
Proof.
  rewrite !ent_ids_keys. intros (k & Hk & Hi). exists k. split; [|exact Hi].
  apply collect_overwrite_keys in Hk. destruct Hk as [[]|Hk]. exact Hk.
Qed.

Lemma rows_cols_ent (m : tlist (N * N)) i :
  In i (map (fun kc => snd (fst kc)) m ++ map (fun kc => fst (fst kc)) m) -> In i (ent_ids m).
Proof.
  rewrite in_app_iff, !in_map_iff. unfold ent_ids. rewrite in_flat_map.
  intros [(e & <- & He)|(e & <- & He)]; exists e; cbn [In]; auto.
Qed.
Lemma quad_from_iter_used l i :
  In i (q_cols (quad_from_iter l) ++ q_rows (quad_from_iter l)) -> In i (ent_ids l).
Proof.
  unfold quad_from_iter; cbn [q_cols q_rows]. intro H. apply rows_cols_ent in H.
  apply ent_ids_merge in H. apply ent_ids_norm in H. exact H.
Qed.

Lemma U_quad q i :
  U (FQuad q) i <-> In i (match q_lin q with Some l => lk l | None => [] end) \/ In i (q_cols q ++ q_rows q).
Proof. cbn [fn_used]. rewrite in_app_iff. reflexivity. Qed.

Lemma ent_cr_used q i : In i (ent_ids (q_entries_cr q)) -> In i (q_cols q ++ q_rows q).
Proof. unfold q_entries_cr. intro H. apply ent_ids_zip3 in H. rewrite in_app_iff. exact H. Qed.
Lemma ent_rc_used q i : In i (ent_ids (q_entries q)) -> In i (q_cols q ++ q_rows q).
Proof. unfold q_entries. intro H. apply ent_ids_zip3 in H. rewrite in_app_iff. tauto. Qed.

(* occurrence (over the zipped entries) is contained in the stored ids ... *)
Lemma occurs_used f i : occurs f i -> U f i.
Proof.
  destruct f as [|c|l|q|p]; unfold occurs; cbn [fn_terms].
  - intro H. destruct (occurs_terms_nil _ H).
  - intro H. destruct (occurs_terms_const _ _ H).
  - rewrite occurs_lin_terms. cbn [fn_used]. tauto.
  - rewrite occurs_quad_terms, U_quad. intros [H|H]; [right; apply ent_rc_used; exact H|left].
    destruct (q_lin q); exact H.
  - rewrite occurs_terms_ids. cbn [fn_used]. tauto.
Qed.
(* ... and equal to them when the three arrays of a quadratic have the same length *)
Definition flen_ok (f : function) : Prop :=
  match f with FQuad q => q_lengths_ok q = true | _ => True end.
Lemma used_occurs f i : flen_ok f -> U f i -> occurs f i.
Proof.
  destruct f as [|c|l|q|p]; unfold occurs; cbn [fn_terms flen_ok fn_used].
  - intros _ [].
  - intros _ [].
  - intros _. rewrite occurs_lin_terms. tauto.
  - unfold q_lengths_ok. rewrite andb_true_iff, !Nat.eqb_eq. intros [E1 E2].
    rewrite occurs_quad_terms, !in_app_iff. intros [H|H].
    + right. destruct (q_lin q); exact H.
    + left. unfold q_entries. apply ent_ids_zip3_rev; tauto.
  - intros _. rewrite occurs_terms_ids. tauto.
Qed.

(* ---- linear ---- *)
Section LinIds.
  Variable tiny : num -> bool.
  Lemma lk_lin_add a b i : In i (lk (lin_add tiny a b)) -> In i (lk a) \/ In i (lk b).
  Proof.
    unfold lin_add; cbn [l_terms]. intro H.
    apply (merge_keys N.eqb Neqb_spec) in H. unfold keys in H. rewrite map_app, in_app_iff in H. exact H.
  Qed.
  Lemma lk_lin_scale a k i : In i (lk (lin_scale a k)) -> In i (lk a).
  Proof.
    unfold lin_scale. destruct (qeqb k 0); cbn [l_terms lin_zero map In]; [tauto|].
    rewrite map_map. cbn [fst]. tauto.
  Qed.
  Lemma lk_lin_new ts c i : In i (lk (lin_new tiny ts c)) -> In i (map fst ts).
  Proof. unfold lin_new; cbn [l_terms]. apply (merge_keys N.eqb Neqb_spec). Qed.
End LinIds.

(* ---- term iterators ---- *)
Lemma occurs_filter (p : list N * num -> bool) t i : occurs_terms (filter p t) i -> occurs_terms t i.
Proof. intros (m & c & Hin & Him). apply filter_In in Hin. exists m, c. tauto. Qed.
Lemma occ_lin_iter l i : occurs_terms (lin_iter l) i -> In i (lk l).
Proof. unfold lin_iter. intro H. apply occurs_filter in H. apply occurs_lin_terms. exact H. Qed.
Lemma occ_quad_iter q i : occurs_terms (quad_iter q) i -> U (FQuad q) i.
Proof.
  unfold quad_iter. rewrite occurs_terms_app, U_quad. intros [H|H].
  - right. apply ent_rc_used. destruct H as (m & c & Hin & Him).
    apply in_map_iff in Hin. destruct Hin as (e & E & He).
    assert (Em : m = sort_ids [snd (fst e); fst (fst e)]) by (injection E; intros; symmetry; assumption).
    subst m. clear E.
    apply (proj1 (sort_ids_in _ _)) in Him. unfold ent_ids. apply in_flat_map. exists e. split; [exact He|].
    cbn [In] in *. tauto.
  - left. destruct (q_lin q) as [l|]; [apply occ_lin_iter; exact H|destruct (occurs_terms_nil _ H)].
Qed.
Lemma occ_sort_keys p i : occurs_terms (sort_keys p) i -> occurs_terms p i.
Proof.
  intros (m & c & Hin & Him). unfold sort_keys in Hin. apply in_map_iff in Hin.
  destruct Hin as ([m0 c0] & E & H0). cbn [fst snd] in E. inversion E; subst m c.
  apply (proj1 (sort_ids_in _ _)) in Him. exists m0, c0. auto.
Qed.
Lemma U_poly p i : U (FPoly p) i <-> occurs_terms p i.
Proof. rewrite occurs_terms_ids. cbn [fn_used]. reflexivity. Qed.

Lemma occ_fn_iter f i : occurs_terms (fn_iter f) i -> U f i.
Proof.
  destruct f as [|c|l|q|p]; cbn [fn_iter].
  - intro H. destruct (occurs_terms_nil _ H).
  - intro H. destruct (occurs_terms_const _ _ H).
  - apply occ_lin_iter.
  - apply occ_quad_iter.
  - intro H. apply U_poly. apply occ_sort_keys. exact H.
Qed.

Section FnIds.
  Variable tiny : num -> bool.

  Lemma occ_mul_iters a b i : occurs_terms (mul_iters tiny a b) i -> occurs_terms a i \/ occurs_terms b i.
  Proof.
    unfold mul_iters, poly_from_iter. intro H.
    apply occurs_merge_terms in H. apply occurs_merge_terms in H.
    destruct H as (m & c & Hin & Him). apply in_flat_map in Hin. destruct Hin as ([mx cx] & Hx & Hin).
    apply in_map_iff in Hin. destruct Hin as ([my cy] & E & Hy). cbn [fst snd] in E. inversion E; subst m c.
    apply (proj1 (sort_ids_in _ _)) in Him. apply in_app_or in Him.
    destruct Him as [Him|Him]; [right; exists my, cy|left; exists mx, cx]; auto.
  Qed.
  Lemma occ_poly_add a b i : occurs_terms (poly_add tiny a b) i -> occurs_terms a i \/ occurs_terms b i.
  Proof. unfold poly_add. intro H. apply occurs_merge_terms in H. apply occurs_terms_app. exact H. Qed.
  Lemma occ_poly_of_c c i : ~ occurs_terms (poly_of_c c) i.
  Proof.
    unfold poly_of_c. destruct (qeqb c 0); [apply occurs_terms_nil|apply occurs_terms_const].
  Qed.
  Lemma occ_poly_of_lin l i : occurs_terms (poly_of_lin tiny l) i -> In i (lk l).
  Proof. unfold poly_of_lin, poly_from_iter. intro H. apply occurs_merge_terms in H. apply occ_lin_iter. exact H. Qed.
  Lemma occ_poly_of_quad q i : occurs_terms (poly_of_quad tiny q) i -> U (FQuad q) i.
  Proof. unfold poly_of_quad, poly_from_iter. intro H. apply occurs_merge_terms in H. apply occ_quad_iter. exact H. Qed.
  Lemma occ_poly_scale p k i : occurs_terms (poly_scale p k) i -> occurs_terms p i.
  Proof.
    unfold poly_scale. destruct (qeqb k 0); [intro H; destruct (occurs_terms_nil _ H)|].
    intros (m & c & Hin & Him). apply in_map_iff in Hin. destruct Hin as ([m0 c0] & E & H0).
    cbn [fst snd] in E. injection E as Em Ec. subst m. exists m0, c0. auto.
  Qed.

  Lemma U_quad_add_c q c i : U (FQuad (quad_add_c q c)) i -> U (FQuad q) i.
  Proof.
    rewrite !U_quad. unfold quad_add_c, set_lin; cbn [q_lin q_cols q_rows].
    destruct (q_lin q) as [x|]; cbn [lin_add_c lin_of_c l_terms map]; tauto.
  Qed.
  Lemma U_quad_add_lin q l i : U (FQuad (quad_add_lin tiny q l)) i -> U (FQuad q) i \/ In i (lk l).
  Proof.
    rewrite !U_quad. unfold quad_add_lin, set_lin; cbn [q_lin q_cols q_rows].
    destruct (q_lin q) as [x|].
    - intros [H|H]; [apply lk_lin_add in H|]; tauto.
    - tauto.
  Qed.
  Lemma U_quad_add a b i : U (FQuad (quad_add tiny a b)) i -> U (FQuad a) i \/ U (FQuad b) i.
  Proof.
    rewrite !U_quad. unfold quad_add, set_lin; cbn [q_lin q_cols q_rows]. intros [H|H].
    - destruct (q_lin a) as [x|], (q_lin b) as [y|]; try tauto.
      destruct (lin_is_zero (lin_add tiny x y)); [destruct H|]. apply lk_lin_add in H. tauto.
    - apply quad_from_iter_used in H. apply ent_ids_merge_from in H. destruct H as [H|H].
      + apply ent_ids_collect in H. apply ent_cr_used in H. tauto.
      + apply ent_cr_used in H. tauto.
  Qed.
  Lemma U_quad_scale q k i : U (FQuad (quad_scale q k)) i -> U (FQuad q) i.
  Proof.
    rewrite !U_quad. unfold quad_scale. destruct (qeqb k 0).
    - cbn. tauto.
    - cbn [q_lin q_cols q_rows]. destruct (q_lin q) as [x|]; [|tauto].
      intros [H|H]; [apply lk_lin_scale in H|]; tauto.
  Qed.
  Lemma U_lin_mul a b i : U (FQuad (lin_mul tiny a b)) i -> In i (lk a) \/ In i (lk b).
  Proof.
    rewrite U_quad. unfold lin_mul; cbn [q_lin q_cols q_rows]. intros [H|H].
    - unfold lin_sub_c, lin_add_c in H; cbn [l_terms] in H.
      apply lk_lin_add in H. destruct H as [H|H]; apply lk_lin_scale in H; tauto.
    - apply quad_from_iter_used in H. apply ent_ids_merge in H.
      unfold ent_ids in H. apply in_flat_map in H. destruct H as (e & He & Hi).
      apply in_flat_map in He. destruct He as (x & Hx & He).
      apply in_map_iff in He. destruct He as (y & <- & Hy).
      cbn [fst snd In] in Hi. unfold norm_pair in Hi; cbn [fst snd] in Hi.
      assert (In (fst x) (lk a)) by (apply in_map; exact Hx).
      assert (In (fst y) (lk b)) by (apply in_map; exact Hy).
      destruct (fst x <? fst y)%N; cbn [fst snd] in Hi; destruct Hi as [ <- | [ <- | [] ] ]; tauto.
  Qed.
  Lemma occ_quad_mul a b i : occurs_terms (quad_mul tiny a b) i -> U (FQuad a) i \/ U (FQuad b) i.
  Proof.
    unfold quad_mul. intro H. apply occ_mul_iters in H.
    destruct H as [H|H]; apply occ_quad_iter in H; tauto.
  Qed.
  Lemma U_quad_of_lin l i : U (FQuad (quad_of_lin l)) i -> In i (lk l).
  Proof. rewrite U_quad. cbn. tauto. Qed.
  Lemma occ_poly_mul a b i : occurs_terms (poly_mul tiny a b) i -> occurs_terms a i \/ occurs_terms b i.
  Proof.
    unfold poly_mul, poly_iter. intro H. apply occ_mul_iters in H.
    destruct H as [H|H]; apply occ_sort_keys in H; tauto.
  Qed.

  (* every id stored in a sum / product is stored in one of the operands *)
  Theorem fn_add_used f g h i : fn_add tiny f g = Some h -> U h i -> U f i \/ U g i.
  Proof.
    destruct f as [|a|a|a|a], g as [|b|b|b|b]; cbn [fn_add]; intro H; inversion H; subst h; clear H;
      rewrite ?U_poly; intro Hi.
    all: try (cbn [fn_used lin_add_c l_terms In] in *; tauto).
    all: try (apply lk_lin_add in Hi; cbn [fn_used]; tauto).
    all: try (apply U_quad_add_c in Hi; tauto).
    all: try (apply U_quad_add_lin in Hi; cbn [fn_used]; tauto).
    all: try (apply U_quad_add in Hi; tauto).
    all: apply occ_poly_add in Hi; destruct Hi as [Hi|Hi]; try tauto.
    all: try (destruct (occ_poly_of_c _ _ Hi)).
    all: try (apply occ_poly_of_lin in Hi; cbn [fn_used]; tauto).
    all: try (apply occ_poly_of_quad in Hi; tauto).
  Qed.
  Theorem fn_mul_used f g h i : fn_mul tiny f g = Some h -> U h i -> U f i \/ U g i.
  Proof.
    destruct f as [|a|a|a|a], g as [|b|b|b|b]; cbn [fn_mul]; intro H; inversion H; subst h; clear H;
      rewrite ?U_poly; intro Hi.
    all: try (cbn [fn_used In] in Hi; tauto).
    all: try (apply lk_lin_scale in Hi; cbn [fn_used]; tauto).
    all: try (apply U_lin_mul in Hi; cbn [fn_used]; tauto).
    all: try (apply U_quad_scale in Hi; tauto).
    all: try (apply occ_poly_scale in Hi; tauto).
    all: try (apply occ_quad_mul in Hi; destruct Hi as [Hi|Hi]; try tauto;
              apply U_quad_of_lin in Hi; cbn [fn_used]; tauto).
    all: apply occ_poly_mul in Hi; destruct Hi as [Hi|Hi]; try tauto.
    all: try (apply occ_poly_of_lin in Hi; cbn [fn_used]; tauto).
    all: try (apply occ_poly_of_quad in Hi; tauto).
  Qed.
  Corollary fn_neg_used f h i : fn_neg tiny f = Some h -> U h i -> U f i.
  Proof. unfold fn_neg. intros H Hi. destruct (fn_mul_used _ _ _ _ H Hi) as [K|[]]. exact K. Qed.
End FnIds.

(* ---- partial evaluation: the stored ids of the result are stored ids of the input that are
   not fixed by the state (zero-coefficient terms included: a Linear / Quadratic term is looked
   at whatever its coefficient; a Polynomial monomial with a dropped coefficient disappears) ---- *)
Lemma fn_pe_flen_ok tiny f s f' u : fn_pe tiny f s = Some (f', u) -> flen_ok f'.
Proof.
  destruct f as [|c|l|q|p]; cbn [fn_pe]; intro H.
  - inversion H. exact Logic.I.
  - inversion H. exact Logic.I.
  - destruct (lin_pe l s). inversion H. exact Logic.I.
  - destruct (quad_pe tiny q s) as [[q' u']|] eqn:E; [|discriminate]. inversion H; subst f' u. cbn [flen_ok].
    unfold quad_pe in E.
    destruct (quad_pe_lin _ s _ [] []) as [[c1 acc1] used1].
    destruct (negb (q_lengths_ok q)); [discriminate|].
    destruct (quad_pe_entries (q_entries q) s c1 acc1 [] used1) as [[[c2 acc2] keep] used2].
    inversion E; subst q'. unfold q_lengths_ok; cbn [q_rows q_cols q_vals].
    rewrite !map_length, Nat.eqb_refl. reflexivity.
  - destruct (poly_pe tiny p s). inversion H. exact Logic.I.
Qed.
Theorem fn_pe_used tiny f s f' u i :
  fn_pe tiny f s = Some (f', u) -> U f' i -> U f i /\ sget s i = None.
Proof.
  intros H Hi. apply (used_occurs _ _ (fn_pe_flen_ok _ _ _ _ _ H)) in Hi.
  destruct (fn_pe_ids tiny s f f' u H) as (A & _). apply A in Hi. destruct Hi as [O F].
  split; [apply occurs_used; exact O|].
  unfold fixed in F. destruct (sget s i); [exfalso; apply F; discriminate|reflexivity].
Qed.

(* ---- substitution ---- *)
Lemma lookup_some_in {X} k (R : list (N * X)) r : lookup k R = Some r -> In (k, r) R.
Proof.
  induction R as [|[j x] R IH]; cbn [lookup]; [discriminate|].
  destruct (k =? j)%N eqn:E.
  - apply N.eqb_eq in E. subst j. intro H; inversion H; subst. left. reflexivity.
  - intro H. right. apply IH. exact H.
Qed.

Section SubstIds.
  Variable tiny : num -> bool.
  Variable R : repl.
  (* K: the ids that may be looked up (those stored in the functions that are rewritten);
     D: the ids allowed in the results *)
  Variables K D : N -> Prop.
  Hypothesis HKD : forall k, K k -> D k.
  Hypothesis HR : forall k r, K k -> lookup k R = Some r -> forall i, U r i -> D i.

  Lemma subst_mono_used : forall ids v g,
    (forall i, In i ids -> K i) -> (forall i, U v i -> D i) ->
    subst_mono tiny ids R v = Some g -> forall i, U g i -> D i.
  Proof.
    induction ids as [|a ids IH]; intros v g Hids Hv H; cbn [subst_mono] in H.
    - inversion H; subst. exact Hv.
    - destruct (fn_mul tiny v _) as [v'|] eqn:E; [|discriminate].
      apply (IH v' g); [intros i Hi; apply Hids; right; exact Hi| |exact H].
      intros i Hi. destruct (fn_mul_used _ _ _ _ _ E Hi) as [Hi'|Hi']; [apply Hv; exact Hi'|].
      assert (Ka : K a) by (apply Hids; left; reflexivity).
      destruct (lookup a R) as [r|] eqn:L.
      + apply (HR a r Ka L). exact Hi'.
      + cbn [fn_used lin_single l_terms map fst In] in Hi'. destruct Hi' as [<-|[]]. apply HKD. exact Ka.
  Qed.
  Lemma subst_terms_used : forall t out g,
    (forall i, occurs_terms t i -> K i) -> (forall i, U out i -> D i) ->
    subst_terms tiny t R out = Some g -> forall i, U g i -> D i.
  Proof.
    induction t as [|[ids c] t IH]; intros out g Ht Ho H; cbn [subst_terms] in H.
    - inversion H; subst. exact Ho.
    - destruct (subst_mono tiny ids R (FConst c)) as [v|] eqn:Em; [|discriminate].
      destruct (fn_add tiny out v) as [out'|] eqn:Ea; [|discriminate].
      apply (IH out' g); [| |exact H].
      + intros i (m & d & Hin & Him). apply Ht. exists m, d. split; [right; exact Hin|exact Him].
      + intros i Hi. destruct (fn_add_used _ _ _ _ _ Ea Hi) as [Hi'|Hi']; [apply Ho; exact Hi'|].
        apply (subst_mono_used ids (FConst c) v); auto.
        * intros j Hj. apply Ht. exists ids, c. split; [left; reflexivity|exact Hj].
        * intros j [].
  Qed.
  Theorem fn_substitute_used f g :
    (forall i, U f i -> K i) -> fn_substitute tiny f R = Some g -> forall i, U g i -> D i.
  Proof.
    intros Hf H. unfold fn_substitute in H.
    assert (G : Some f = Some g \/ subst_terms tiny (fn_iter f) R (FConst 0) = Some g).
    { destruct R; [left|right]; exact H. }
    destruct G as [G|G].
    - inversion G; subst. intros i Hi. apply HKD. apply Hf. exact Hi.
    - apply (subst_terms_used (fn_iter f) (FConst 0) g); [|intros i []|exact G].
      intros i Hi. apply Hf. apply occ_fn_iter. exact Hi.
  Qed.
End SubstIds.

(* ================================================================== *)
(* Part B — instances                                                  *)
(* ================================================================== *)

Lemma used_parts I i : In i (inst_used I) <->
  U (fn_or_zero (i_obj I)) i \/ In i (flat_map constr_used (i_cs I))
  \/ In i (flat_map constr_used (removed_constrs (i_rs I))).
Proof. unfold inst_used. rewrite !in_app_iff. reflexivity. Qed.
Lemma used_all I i : In i (inst_used I) <->
  U (fn_or_zero (i_obj I)) i \/ In i (flat_map constr_used (all_constrs I)).
Proof. rewrite used_parts. unfold all_constrs. rewrite flat_map_app, in_app_iff. reflexivity. Qed.

Lemma flat_map_perm_in {X Y} (f : X -> list Y) l l' y :
  Permutation l l' -> In y (flat_map f l) -> In y (flat_map f l').
Proof.
  intros P H. apply in_flat_map in H. destruct H as (x & Hx & Hy). apply in_flat_map.
  exists x. split; [eapply Permutation_in; eauto|exact Hy].
Qed.

(* same decision-variable ids, same constraint ids (up to order), used ids defined *)
Lemma validate_build I J : validate I = true ->
  map dv_id (i_dvs J) = map dv_id (i_dvs I) ->
  Permutation (map c_id (all_constrs J)) (map c_id (all_constrs I)) ->
  (forall i, In i (inst_used J) -> In i (map dv_id (i_dvs I))) ->
  validate J = true.
Proof.
  intros V Ed Pc Hu. apply validate_iff in V. destruct V as (N1 & N2 & _). apply validate_iff.
  rewrite Ed. split; [exact N1|]. split; [|exact Hu].
  eapply Permutation_NoDup; [apply Permutation_sym; exact Pc|exact N2].
Qed.
Lemma validate_used I i : validate I = true -> In i (inst_used I) -> In i (map dv_id (i_dvs I)).
Proof. intros V. apply validate_iff in V. apply V. Qed.

(* ---------------- relax / restore (C14) ---------------- *)
Lemma validate_perm I J : validate I = true -> i_dvs J = i_dvs I -> i_obj J = i_obj I ->
  Permutation (all_constrs J) (all_constrs I) -> validate J = true.
Proof.
  intros V Ed Eo P. apply (validate_build I J V); [rewrite Ed; reflexivity|apply Permutation_map; exact P|].
  intros i Hi. apply (validate_used I i V). rewrite used_all in *. rewrite Eo in Hi.
  destruct Hi as [Hi|Hi]; [left; exact Hi|right; eapply flat_map_perm_in; eauto].
Qed.

Theorem relax_preserves_validity I id reason params J :
  validate I = true -> relax I id reason params = Some J -> validate J = true.
Proof.
  intros V H. pose proof (relax_conserves _ _ _ _ _ H) as P.
  unfold relax in H. destruct (extract _ (i_cs I)) as [[c cs']|]; [|discriminate].
  inversion H; subst J. apply (validate_perm I _ V); [reflexivity|reflexivity|exact P].
Qed.
Theorem restore_preserves_validity I id J :
  validate I = true -> restore I id = Some J -> validate J = true.
Proof.
  intros V H. pose proof (restore_conserves _ _ _ H) as P.
  unfold restore in H. destruct (extract _ (i_rs I)) as [[r rs']|]; [|discriminate].
  destruct (r_c r) as [c|]; [|discriminate].
  inversion H; subst J. apply (validate_perm I _ V); [reflexivity|reflexivity|exact P].
Qed.
(* and conversely: relax / restore neither create nor repair a violation *)
Theorem relax_validity_iff I id reason params J :
  relax I id reason params = Some J -> (validate J = true <-> validate I = true).
Proof.
  intro H. split; [|intro V; eapply relax_preserves_validity; eauto].
  intro V. pose proof (relax_conserves _ _ _ _ _ H) as P.
  unfold relax in H. destruct (extract _ (i_cs I)) as [[c cs']|]; [|discriminate].
  inversion H; subst J. apply (validate_perm _ I V); [reflexivity|reflexivity|apply Permutation_sym; exact P].
Qed.
Theorem restore_validity_iff I id J :
  restore I id = Some J -> (validate J = true <-> validate I = true).
Proof.
  intro H. split; [|intro V; eapply restore_preserves_validity; eauto].
  intro V. pose proof (restore_conserves _ _ _ H) as P.
  unfold restore in H. destruct (extract _ (i_rs I)) as [[r rs']|]; [|discriminate].
  destruct (r_c r) as [c|]; [|discriminate].
  inversion H; subst J. apply (validate_perm _ I V); [reflexivity|reflexivity|apply Permutation_sym; exact P].
Qed.
(* any history of relax / restore operations, failed ones included *)
Theorem run_preserves_validity ops : forall I, validate I = true -> validate (run I ops) = true.
Proof.
  induction ops as [|o ops IH]; intros I V; cbn [run fold_left]; [exact V|].
  apply IH. unfold step. destruct o as [id r p|id].
  - destruct (relax I id r p) as [I'|] eqn:E; cbn [fst]; [eapply relax_preserves_validity; eauto|exact V].
  - destruct (restore I id) as [I'|] eqn:E; cbn [fst]; [eapply restore_preserves_validity; eauto|exact V].
Qed.

(* ---------------- as_minimization_problem (C15) ---------------- *)
Theorem as_min_preserves_validity tiny I J :
  validate I = true -> as_min tiny I = Some J -> validate J = true.
Proof.
  intros V H. unfold as_min in H. destruct (i_sense I =? SENSE_MIN)%Z; [inversion H; subst; exact V|].
  destruct (fn_neg tiny (fn_or_zero (i_obj I))) as [f|] eqn:E; [|discriminate].
  inversion H; subst J. apply (validate_build I _ V); [reflexivity|reflexivity|].
  intros i Hi. apply (validate_used I i V). rewrite used_parts in *.
  cbn [with_obj_sense i_obj i_cs i_rs fn_or_zero] in Hi.
  destruct Hi as [Hi|Hi]; [left; eapply fn_neg_used; eauto|right; exact Hi].
Qed.

(* ---------------- lists of constraints rewritten function by function ---------------- *)
(* c' has the id of c, and if the ids of c satisfy A then those of c' satisfy B *)
Definition crel (A B : N -> Prop) (c c' : constr) : Prop :=
  c_id c' = c_id c /\
  ((forall i, In i (constr_used c) -> A i) -> forall i, In i (constr_used c') -> B i).
Lemma Forall2_crel A B cs cs' : Forall2 (crel A B) cs cs' ->
  map c_id cs' = map c_id cs /\
  ((forall i, In i (flat_map constr_used cs) -> A i) -> forall i, In i (flat_map constr_used cs') -> B i).
Proof.
  induction 1 as [|c c' cs cs' [E1 E2] _ [IH1 IH2]]; cbn [map flat_map]; [split; [reflexivity|intros _ i []]|].
  split; [rewrite E1, IH1; reflexivity|].
  intros HA i Hi. apply in_app_or in Hi. destruct Hi as [Hi|Hi].
  - apply E2; [|exact Hi]. intros j Hj. apply HA. apply in_or_app. left. exact Hj.
  - apply IH2; [|exact Hi]. intros j Hj. apply HA. apply in_or_app. right. exact Hj.
Qed.

(* ---------------- Instance::partial_evaluate (C03) ---------------- *)
Section PEInst.
  Variable tiny : num -> bool.
  Variable s : state.
  Variable A : N -> Prop.
  Let B := fun i => A i /\ sget s i = None.

  Lemma constr_pe_crel c c' u : constr_pe tiny c s = Some (c', u) -> crel A B c c'.
  Proof.
    unfold constr_pe, crel, constr_used. destruct (c_fn c) as [f|] eqn:Ef.
    - destruct (fn_pe tiny f s) as [[f' u']|] eqn:E; [|discriminate].
      intro H; inversion H; subst c' u. cbn [c_id c_fn fn_or_zero]. split; [reflexivity|].
      intros HA i Hi. destruct (fn_pe_used _ _ _ _ _ _ E Hi) as [H1 H2]. split; [apply HA; exact H1|exact H2].
    - intro H; inversion H; subst c' u. split; [reflexivity|]. rewrite Ef. cbn [fn_or_zero fn_used]. intros _ i [].
  Qed.
  Lemma constrs_pe_u_crel : forall cs cs' u, constrs_pe_u tiny cs s = Some (cs', u) -> Forall2 (crel A B) cs cs'.
  Proof.
    induction cs as [|c cs IH]; intros cs' u H; cbn [constrs_pe_u] in H.
    - inversion H; subst. constructor.
    - destruct (constr_pe tiny c s) as [[c' u1]|] eqn:E1; [|discriminate].
      destruct (constrs_pe_u tiny cs s) as [[r ur]|] eqn:E2; [|discriminate].
      inversion H; subst. constructor; [eapply constr_pe_crel; eauto|eapply IH; eauto].
  Qed.
  Lemma removed_pe_u_crel : forall rs rs' u, removed_pe_u tiny rs s = Some (rs', u) ->
    Forall2 (crel A B) (removed_constrs rs) (removed_constrs rs').
  Proof.
    induction rs as [|r rs IH]; intros rs' u H; cbn [removed_pe_u] in H.
    - inversion H; subst. constructor.
    - destruct (r_c r) as [c|] eqn:Rc; [|discriminate].
      destruct (constr_pe tiny c s) as [[c' u1]|] eqn:E1; [|discriminate].
      destruct (removed_pe_u tiny rs s) as [[rest ur]|] eqn:E2; [|discriminate].
      inversion H; subst. cbn [removed_constrs r_c]. rewrite Rc.
      constructor; [eapply constr_pe_crel; eauto|eapply IH; eauto].
  Qed.
  (* with_parameters uses its own loop *)
  Lemma opt_fn_pe_used o o' i : opt_fn_pe tiny o s = Some o' ->
    U (fn_or_zero o') i -> U (fn_or_zero o) i /\ sget s i = None.
  Proof.
    unfold opt_fn_pe. destruct o as [f|].
    - destruct (fn_pe tiny f s) as [[f' u]|] eqn:E; [|discriminate]. intro H; inversion H; subst o'.
      cbn [fn_or_zero]. eapply fn_pe_used; eauto.
    - intro H; inversion H; subst o'. cbn [fn_or_zero fn_used]. intros [].
  Qed.
  Lemma constrs_pe_crel : forall cs cs', constrs_pe tiny cs s = Some cs' -> Forall2 (crel A B) cs cs'.
  Proof.
    induction cs as [|c cs IH]; intros cs' H; cbn [constrs_pe] in H.
    - inversion H; subst. constructor.
    - destruct (opt_fn_pe tiny (c_fn c) s) as [f'|] eqn:E1; [|discriminate].
      destruct (constrs_pe tiny cs s) as [r|] eqn:E2; [|discriminate].
      inversion H; subst. constructor; [|eapply IH; eauto].
      unfold crel, constr_used; cbn [c_id c_fn]. split; [reflexivity|].
      intros HA i Hi. destruct (opt_fn_pe_used _ _ _ E1 Hi) as [H1 H2]. split; [apply HA; exact H1|exact H2].
  Qed.
End PEInst.

Lemma map_dv_id_set_subst s dvs :
  map dv_id (map (fun v => match sget s (dv_id v) with Some x => set_subst v x | None => v end) dvs)
  = map dv_id dvs.
Proof.
  rewrite map_map. apply map_ext. intro v. destruct (sget s (dv_id v)); reflexivity.
Qed.

Theorem inst_pe_preserves_validity tiny I s J u :
  validate I = true -> inst_pe tiny I s = Some (J, u) -> validate J = true.
Proof.
  intros V H. unfold inst_pe in H.
  set (A := fun i => In i (map dv_id (i_dvs I))).
  destruct (match i_obj I with
            | None => Some (None, [])
            | Some f => match fn_pe tiny f s with Some (f', u) => Some (Some f', u) | None => None end
            end) as [[o u0]|] eqn:Eo; [|discriminate].
  destruct (constrs_pe_u tiny (i_cs I) s) as [[cs u1]|] eqn:Ec; [|discriminate].
  destruct (removed_pe_u tiny (i_rs I) s) as [[rs u2]|] eqn:Er; [|discriminate].
  destruct (deps_pe_u tiny (i_deps I) s) as [[ds u3]|] eqn:Ed; [|discriminate].
  inversion H; subst J u; clear H.
  destruct (Forall2_crel _ _ _ _ (constrs_pe_u_crel tiny s A _ _ _ Ec)) as [C1 C2].
  destruct (Forall2_crel _ _ _ _ (removed_pe_u_crel tiny s A _ _ _ Er)) as [R1 R2].
  apply (validate_build I _ V).
  - cbn [i_dvs]. apply map_dv_id_set_subst.
  - unfold all_constrs; cbn [i_cs i_rs]. rewrite !map_app, C1, R1. reflexivity.
  - intros i Hi. rewrite used_parts in Hi. cbn [i_obj i_cs i_rs] in Hi.
    destruct Hi as [Hi|[Hi|Hi]].
    + apply (validate_used I i V). apply used_parts. left.
      destruct (i_obj I) as [f|].
      * destruct (fn_pe tiny f s) as [[f' u']|] eqn:E; [|discriminate]. inversion Eo; subst o u0.
        cbn [fn_or_zero] in *. eapply fn_pe_used; eauto.
      * inversion Eo; subst o u0. exact Hi.
    + apply C2; [|exact Hi]. intros j Hj. apply (validate_used I j V). apply used_parts. auto.
    + apply R2; [|exact Hi]. intros j Hj. apply (validate_used I j V). apply used_parts. auto.
Qed.

(* ---------------- fresh ids ---------------- *)
Fixpoint from (k : N) (n : nat) : list N :=
  match n with O => [] | S n' => k :: from (k + 1) n' end.
Lemma in_from n : forall k i, In i (from k n) <-> (k <= i < k + N.of_nat n)%N.
Proof.
  induction n as [|n IH]; intros k i; cbn [from In].
  - split; [intros []|lia].
  - rewrite IH. lia.
Qed.
Lemma NoDup_from n : forall k, NoDup (from k n).
Proof.
  induction n as [|n IH]; intro k; cbn [from]; constructor; [|apply IH].
  rewrite in_from. lia.
Qed.
(* the decision-variable ids followed by ids taken from next_id upwards are pairwise distinct *)
Lemma NoDup_dvs_from dvs n : NoDup (map dv_id dvs) -> NoDup (map dv_id dvs ++ from (next_id dvs) n).
Proof.
  intro H. apply NoDup_app_iff. split; [exact H|]. split; [apply NoDup_from|].
  intros x Hx Hin. apply in_from in Hx. apply in_map_iff in Hin. destruct Hin as (v & <- & Hv).
  pose proof (next_id_above _ _ Hv). lia.
Qed.

(* ---------------- penalty_method / uniform_penalty_method (C09) ---------------- *)
Section PenaltyValid.
  Variable tiny : num -> bool.

  Lemma penalty_term_used k f t i : penalty_term tiny k f = Some t -> U t i -> U f i \/ i = k.
  Proof.
    unfold penalty_term. destruct (fn_mul tiny f (FLin (lin_single k 1))) as [pf|] eqn:E1; [|discriminate].
    intros E2 Hi. destruct (fn_mul_used _ _ _ _ _ E2 Hi) as [Hi'|Hi']; [|tauto].
    destruct (fn_mul_used _ _ _ _ _ E1 Hi') as [Hi''|Hi'']; [tauto|].
    cbn [fn_used lin_single l_terms map fst In] in Hi''. destruct Hi'' as [<-|[]]. tauto.
  Qed.

  Lemma penalty_loop_shape : forall cs k obj ps rs obj' ps' rs',
    penalty_loop tiny cs k obj ps rs = Some (obj', ps', rs') ->
    removed_constrs rs' = removed_constrs rs ++ cs /\
    map pa_id ps' = map pa_id ps ++ from k (List.length cs) /\
    forall i, U obj' i -> U obj i \/ In i (flat_map constr_used cs) \/ In i (from k (List.length cs)).
  Proof.
    induction cs as [|c cs IH]; intros k obj ps rs obj' ps' rs' H; cbn [penalty_loop] in H.
    - inversion H; subst. cbn [List.length from flat_map]. rewrite !app_nil_r. auto.
    - destruct (penalty_term tiny k (fn_or_zero (c_fn c))) as [t|] eqn:Et; [|discriminate].
      destruct (fn_add tiny obj t) as [o|] eqn:Ea; [|discriminate].
      apply IH in H. destruct H as (Hr & Hp & Hu). split; [|split].
      + rewrite Hr, removed_constrs_app. cbn [removed_constrs r_c]. rewrite <- app_assoc. reflexivity.
      + rewrite Hp, map_app. cbn [map pa_id List.length from]. rewrite <- app_assoc. reflexivity.
      + intros i Hi. cbn [flat_map List.length from In]. rewrite in_app_iff.
        destruct (Hu i Hi) as [Ho|[Hc|Hf]]; [|tauto|tauto].
        destruct (fn_add_used _ _ _ _ _ Ea Ho) as [Ho'|Ht]; [tauto|].
        destruct (penalty_term_used _ _ _ _ Et Ht) as [Hf|Hk]; [right; left; left; exact Hf|].
        right; right; left. congruence.
  Qed.

  Lemma uniform_loop_shape : forall cs qs rs qs' rs',
    uniform_loop tiny cs qs rs = Some (qs', rs') ->
    removed_constrs rs' = removed_constrs rs ++ cs /\
    forall i, U qs' i -> U qs i \/ In i (flat_map constr_used cs).
  Proof.
    induction cs as [|c cs IH]; intros qs rs qs' rs' H; cbn [uniform_loop] in H.
    - inversion H; subst. rewrite app_nil_r. auto.
    - destruct (fn_mul tiny (fn_or_zero (c_fn c)) (fn_or_zero (c_fn c))) as [ff|] eqn:Em; [|discriminate].
      destruct (fn_add tiny qs ff) as [q|] eqn:Ea; [|discriminate].
      apply IH in H. destruct H as (Hr & Hu). split.
      + rewrite Hr, removed_constrs_app. cbn [removed_constrs r_c]. rewrite <- app_assoc. reflexivity.
      + intros i Hi. cbn [flat_map]. rewrite in_app_iff.
        destruct (Hu i Hi) as [Ho|Hc]; [|tauto].
        destruct (fn_add_used _ _ _ _ _ Ea Ho) as [Ho'|Ht]; [tauto|].
        right; left. unfold constr_used. destruct (fn_mul_used _ _ _ _ _ Em Ht); assumption.
  Qed.

  (* the constraint ids of the parametric result: the removed ones, then the former active ones *)
  Lemma penalised_cids I (rs' : list removed) :
    validate I = true -> removed_constrs rs' = removed_constrs (i_rs I) ++ i_cs I ->
    NoDup (map c_id ([] ++ removed_constrs rs')).
  Proof.
    intros V E. apply validate_iff in V. destruct V as (_ & N2 & _). cbn [app]. rewrite E.
    eapply Permutation_NoDup; [|exact N2]. apply Permutation_map. unfold all_constrs. apply Permutation_app_comm.
  Qed.

  Theorem penalty_preserves_validity I P :
    validate I = true -> penalty tiny I = Some P -> pvalidate P = true.
  Proof.
    intros V H. unfold penalty in H.
    destruct (penalty_loop tiny (i_cs I) (next_id (i_dvs I)) (fn_or_zero (i_obj I)) [] (i_rs I))
      as [[[obj ps] rs]|] eqn:E; [|discriminate].
    inversion H; subst P; clear H. apply penalty_loop_shape in E. destruct E as (Hr & Hp & Hu).
    cbn [map app] in Hp.
    apply pvalidate_iff. cbn [p_dvs p_params p_obj p_cs p_rs fn_or_zero flat_map]. rewrite Hp.
    pose proof V as V'. apply validate_iff in V'. destruct V' as (N1 & _ & _).
    split; [apply NoDup_dvs_from; exact N1|]. split; [|apply (penalised_cids I); assumption].
    intros i Hi. rewrite app_nil_r in Hi. apply in_or_app.
    destruct (Hu i Hi) as [Ho|[Hc|Hf]]; [left|left|right; exact Hf];
      apply (validate_used I i V); apply used_parts; auto.
  Qed.

  Theorem uniform_penalty_preserves_validity I P :
    validate I = true -> uniform_penalty tiny I = Some P -> pvalidate P = true.
  Proof.
    intros V H. unfold uniform_penalty in H.
    destruct (uniform_loop tiny (i_cs I) (FConst 0) (i_rs I)) as [[qs rs]|] eqn:E; [|discriminate].
    destruct (fn_mul tiny qs (FLin (lin_single (next_id (i_dvs I)) 1))) as [t|] eqn:Em; [|discriminate].
    destruct (fn_add tiny (fn_or_zero (i_obj I)) t) as [obj|] eqn:Ea; [|discriminate].
    inversion H; subst P; clear H. apply uniform_loop_shape in E. destruct E as (Hr & Hu).
    apply pvalidate_iff. cbn [p_dvs p_params p_obj p_cs p_rs fn_or_zero flat_map map pa_id].
    pose proof V as V'. apply validate_iff in V'. destruct V' as (N1 & _ & _).
    split; [apply (NoDup_dvs_from (i_dvs I) 1); exact N1|]. split; [|apply (penalised_cids I); assumption].
    intros i Hi. rewrite app_nil_r in Hi. apply in_or_app.
    destruct (fn_add_used _ _ _ _ _ Ea Hi) as [Ho|Ht].
    - left. apply (validate_used I i V). apply used_parts. auto.
    - destruct (fn_mul_used _ _ _ _ _ Em Ht) as [Hq|Hk].
      + left. apply (validate_used I i V). apply used_parts.
        destruct (Hu i Hq) as [[]|Hc]. auto.
      + right. exact Hk.
  Qed.

  (* the removed constraints of the parametric result mention decision variables only: exactly
     the extra hypothesis [with_parameters_preserves_validity] needs *)
  Definition removed_defined (P : pinstance) : Prop :=
    forall i, In i (flat_map constr_used (removed_constrs (p_rs P))) -> In i (map dv_id (p_dvs P)).

  Theorem penalty_removed_defined I P :
    validate I = true -> penalty tiny I = Some P -> removed_defined P.
  Proof.
    intros V H. unfold penalty in H.
    destruct (penalty_loop tiny (i_cs I) (next_id (i_dvs I)) (fn_or_zero (i_obj I)) [] (i_rs I))
      as [[[obj ps] rs]|] eqn:E; [|discriminate].
    inversion H; subst P; clear H. apply penalty_loop_shape in E. destruct E as (Hr & _).
    unfold removed_defined; cbn [p_rs p_dvs]. rewrite Hr. intros i Hi.
    rewrite flat_map_app, in_app_iff in Hi. apply (validate_used I i V). apply used_parts. tauto.
  Qed.
  Theorem uniform_penalty_removed_defined I P :
    validate I = true -> uniform_penalty tiny I = Some P -> removed_defined P.
  Proof.
    intros V H. unfold uniform_penalty in H.
    destruct (uniform_loop tiny (i_cs I) (FConst 0) (i_rs I)) as [[qs rs]|] eqn:E; [|discriminate].
    destruct (fn_mul tiny qs _) as [t|]; [|discriminate].
    destruct (fn_add tiny (fn_or_zero (i_obj I)) t) as [obj|]; [|discriminate].
    inversion H; subst P; clear H. apply uniform_loop_shape in E. destruct E as (Hr & _).
    unfold removed_defined; cbn [p_rs p_dvs]. rewrite Hr. intros i Hi.
    rewrite flat_map_app, in_app_iff in Hi. apply (validate_used I i V). apply used_parts. tauto.
  Qed.

  (* ---------------- with_parameters (C10) ---------------- *)
  (* ParametricInstance validation does not look at the ids used by REMOVED constraints, while
     Instance validation does: the hypothesis [removed_defined P] is needed (see
     [with_parameters_removed_refuted] below) *)
  Theorem with_parameters_preserves_validity P theta J :
    pvalidate P = true -> removed_defined P ->
    with_parameters tiny P theta = Some J -> validate J = true.
  Proof.
    intros V RD H. unfold with_parameters in H.
    destruct (forallb _ (p_params P)) eqn:FB; cbn [negb] in H; [|discriminate].
    destruct (opt_fn_pe tiny (p_obj P) theta) as [o|] eqn:Eo; [|discriminate].
    destruct (constrs_pe tiny (p_cs P) theta) as [cs|] eqn:Ec; [|discriminate].
    inversion H; subst J; clear H.
    apply pvalidate_iff in V. destruct V as (N1 & SU & N2).
    set (A := fun i => In i (map dv_id (p_dvs P) ++ map pa_id (p_params P))).
    destruct (Forall2_crel _ _ _ _ (constrs_pe_crel tiny theta A _ _ Ec)) as [C1 C2].
    assert (NP : forall i, A i -> sget theta i = None -> In i (map dv_id (p_dvs P))).
    { intros i Hi G. apply in_app_or in Hi. destruct Hi as [Hi|Hi]; [exact Hi|].
      apply in_map_iff in Hi. destruct Hi as (p & <- & Hp).
      rewrite forallb_forall in FB. specialize (FB p Hp). rewrite G in FB. discriminate. }
    apply validate_iff. cbn [i_dvs]. unfold all_constrs; cbn [i_cs i_rs].
    split; [apply NoDup_app_iff in N1; apply N1|]. split; [rewrite map_app, C1, <- map_app; exact N2|].
    intros i Hi. rewrite used_parts in Hi. cbn [i_obj i_cs i_rs] in Hi. destruct Hi as [Hi|[Hi|Hi]].
    - destruct (opt_fn_pe_used _ _ _ _ _ Eo Hi) as [H1 H2]. apply NP; [|exact H2].
      apply SU. apply in_or_app. left. exact H1.
    - destruct (C2 (fun j Hj => SU j (in_or_app _ _ j (or_intror Hj))) i Hi) as [H1 H2]. apply NP; assumption.
    - apply RD. exact Hi.
  Qed.

  (* the penalty path composes: Instance -> penalty method -> with_parameters *)
  Corollary penalty_with_parameters_valid I P theta J :
    validate I = true -> penalty tiny I = Some P -> with_parameters tiny P theta = Some J -> validate J = true.
  Proof.
    intros V H1 H2. eapply with_parameters_preserves_validity; [| |exact H2].
    - eapply penalty_preserves_validity; eauto.
    - eapply penalty_removed_defined; eauto.
  Qed.
  Corollary uniform_penalty_with_parameters_valid I P theta J :
    validate I = true -> uniform_penalty tiny I = Some P -> with_parameters tiny P theta = Some J ->
    validate J = true.
  Proof.
    intros V H1 H2. eapply with_parameters_preserves_validity; [| |exact H2].
    - eapply uniform_penalty_preserves_validity; eauto.
    - eapply uniform_penalty_removed_defined; eauto.
  Qed.
End PenaltyValid.

(* ---------------- From<Instance> for ParametricInstance ---------------- *)
Theorem of_instance_preserves_validity I : validate I = true -> pvalidate (of_instance I) = true.
Proof.
  intro V. pose proof V as V'. apply validate_iff in V'. destruct V' as (N1 & N2 & _).
  apply pvalidate_iff. cbn [of_instance p_dvs p_params p_obj p_cs p_rs map]. rewrite app_nil_r.
  split; [exact N1|]. split; [|exact N2].
  intros i Hi. apply (validate_used I i V). apply used_parts. apply in_app_or in Hi. tauto.
Qed.
Lemma of_instance_removed_defined I : validate I = true -> removed_defined (of_instance I).
Proof.
  intros V i Hi. cbn [of_instance p_rs p_dvs] in *. apply (validate_used I i V). apply used_parts. tauto.
Qed.
Corollary of_instance_with_parameters_valid tiny I theta J :
  validate I = true -> with_parameters tiny (of_instance I) theta = Some J -> validate J = true.
Proof.
  intros V H. eapply with_parameters_preserves_validity; [| |exact H].
  - apply of_instance_preserves_validity. exact V.
  - apply of_instance_removed_defined. exact V.
Qed.

(* ---------------- Instance::substitute (C04) ---------------- *)
Section SubstInst.
  Variable tiny : num -> bool.
  Variable R : repl.
  Variables K D : N -> Prop.
  Hypothesis HKD : forall k, K k -> D k.
  Hypothesis HR : forall k r, K k -> lookup k R = Some r -> forall i, U r i -> D i.

  Lemma opt_subst_used o o' : opt_subst tiny o R = Some o' ->
    (forall i, U (fn_or_zero o) i -> K i) -> forall i, U (fn_or_zero o') i -> D i.
  Proof.
    unfold opt_subst. destruct o as [f|].
    - destruct (fn_substitute tiny f R) as [g|] eqn:E; [|discriminate]. intro H; inversion H; subst o'.
      cbn [fn_or_zero]. intros Hf. eapply (fn_substitute_used tiny R K D HKD HR); eauto.
    - intro H; inversion H; subst o'. cbn [fn_or_zero fn_used]. intros _ i [].
  Qed.
  Lemma constrs_subst_crel : forall cs cs', constrs_subst tiny cs R = Some cs' -> Forall2 (crel K D) cs cs'.
  Proof.
    induction cs as [|c cs IH]; intros cs' H; cbn [constrs_subst] in H.
    - inversion H; subst. constructor.
    - destruct (opt_subst tiny (c_fn c) R) as [f'|] eqn:E1; [|discriminate].
      destruct (constrs_subst tiny cs R) as [r|] eqn:E2; [|discriminate].
      inversion H; subst. constructor; [|eapply IH; eauto].
      unfold crel, constr_used; cbn [c_id c_fn]. split; [reflexivity|]. apply (opt_subst_used _ _ E1).
  Qed.
  Lemma removed_subst_crel : forall rs rs', removed_subst tiny rs R = Some rs' ->
    Forall2 (crel K D) (removed_constrs rs) (removed_constrs rs').
  Proof.
    induction rs as [|r rs IH]; intros rs' H; cbn [removed_subst] in H.
    - inversion H; subst. constructor.
    - destruct (r_c r) as [c|] eqn:Rc.
      + destruct (opt_subst tiny (c_fn c) R) as [f'|] eqn:E1; [|discriminate].
        destruct (removed_subst tiny rs R) as [rest|] eqn:E2; [|discriminate].
        inversion H; subst. cbn [removed_constrs r_c]. rewrite Rc.
        constructor; [|eapply IH; eauto].
        unfold crel, constr_used; cbn [c_id c_fn]. split; [reflexivity|]. apply (opt_subst_used _ _ E1).
      + destruct (removed_subst tiny rs R) as [rest|] eqn:E2; [|discriminate].
        inversion H; subst. cbn [removed_constrs r_c]. rewrite Rc. eapply IH; eauto.
  Qed.
End SubstInst.

(* hypothesis: the replacement of every id that is used somewhere in the instance mentions
   defined decision variables only (a replacement for an unused id is never looked at) *)
Definition repl_defined (I : instance) (R : repl) : Prop :=
  forall k r, In k (inst_used I) -> lookup k R = Some r ->
    forall i, U r i -> In i (map dv_id (i_dvs I)).

Theorem inst_substitute_preserves_validity tiny I R J :
  validate I = true -> repl_defined I R -> inst_substitute tiny I R = Some J -> validate J = true.
Proof.
  intros V HR H. unfold inst_substitute in H.
  destruct (opt_subst tiny (i_obj I) R) as [o|] eqn:Eo; [|discriminate].
  destruct (constrs_subst tiny (i_cs I) R) as [cs|] eqn:Ec; [|discriminate].
  destruct (removed_subst tiny (i_rs I) R) as [rs|] eqn:Er; [|discriminate].
  destruct (deps_subst tiny (i_deps I) R) as [ds|] eqn:Ed; [|discriminate].
  inversion H; subst J; clear H.
  set (K := fun k => In k (inst_used I)). set (D := fun i => In i (map dv_id (i_dvs I))).
  assert (HKD : forall k, K k -> D k) by (intros k; apply validate_used; exact V).
  destruct (Forall2_crel _ _ _ _ (constrs_subst_crel tiny R K D HKD HR _ _ Ec)) as [C1 C2].
  destruct (Forall2_crel _ _ _ _ (removed_subst_crel tiny R K D HKD HR _ _ Er)) as [R1 R2].
  apply (validate_build I _ V); [reflexivity| |].
  - unfold all_constrs; cbn [i_cs i_rs]. rewrite !map_app, C1, R1. reflexivity.
  - intros i Hi. rewrite used_parts in Hi. cbn [i_obj i_cs i_rs] in Hi. destruct Hi as [Hi|[Hi|Hi]].
    + apply (opt_subst_used tiny R K D HKD HR _ _ Eo); [|exact Hi]. intros j Hj. apply used_parts. auto.
    + apply C2; [|exact Hi]. intros j Hj. apply used_parts. auto.
    + apply R2; [|exact Hi]. intros j Hj. apply used_parts. auto.
Qed.

(* ---------------- log_encode, the appended binaries, the substitution x := E (C12) ---------------- *)
Lemma new_bits_ids orig base : forall k i, map dv_id (new_bits orig base k i) = from (base + i) k.
Proof.
  induction k as [|k IH]; intro i; cbn [new_bits map from dv_id]; [reflexivity|].
  rewrite IH. f_equal. f_equal. lia.
Qed.
Lemma enum_from_ids : forall cs base, map fst (enum_from base cs) = from base (List.length cs).
Proof.
  induction cs as [|c cs IH]; intro base; cbn [enum_from map fst List.length from]; [reflexivity|].
  rewrite IH. reflexivity.
Qed.

(* the new variables have the ids next_id, next_id+1, ... and the expression mentions only them *)
Lemma log_encode_shape tiny I id E bits : log_encode tiny I id = inr (E, bits) ->
  exists n, map dv_id bits = from (next_id (i_dvs I)) n /\
            forall i, In i (lk E) -> In i (from (next_id (i_dvs I)) n).
Proof.
  unfold log_encode. destruct (find_dv id (i_dvs I)) as [v|]; [|discriminate].
  destruct (negb (dv_kind v =? KIND_INTEGER)%Z); [discriminate|].
  destruct (dv_bound v) as [[l u]|]; [|discriminate].
  destruct l as [|ql| |], u as [|qu| |]; cbn [is_nan orb]; try discriminate.
  destruct (qfloor qu - qceil ql <? 0)%Z; [discriminate|].
  destruct (qfloor qu - qceil ql =? 0)%Z.
  - intro H; inversion H; subst E bits. exists O. split; [reflexivity|]. cbn [lin_of_c l_terms map]. intros i [].
  - intro H; inversion H; subst E bits.
    exists (List.length (le_coeffs (Z.to_N (qfloor qu - qceil ql)))). split.
    + rewrite new_bits_ids. f_equal. lia.
    + intros i Hi. apply lk_lin_new in Hi. rewrite enum_from_ids in Hi. exact Hi.
Qed.

Lemma validate_add_fresh I n news :
  validate I = true -> map dv_id news = from (next_id (i_dvs I)) n -> validate (add_dvs I news) = true.
Proof.
  intros V E. pose proof V as V'. apply validate_iff in V'. destruct V' as (N1 & N2 & _).
  apply validate_iff. unfold all_constrs; cbn [add_dvs i_dvs i_cs i_rs]. rewrite map_app, E.
  split; [apply NoDup_dvs_from; exact N1|]. split; [exact N2|].
  intros i Hi. apply in_or_app. left. apply (validate_used I i V).
  rewrite used_parts in *. exact Hi.
Qed.

(* the instance with the fresh binaries appended is valid *)
Theorem log_encode_add_dvs_valid tiny I id E bits :
  validate I = true -> log_encode tiny I id = inr (E, bits) -> validate (add_dvs I bits) = true.
Proof.
  intros V H. destruct (log_encode_shape _ _ _ _ _ H) as (n & Hb & _). eapply validate_add_fresh; eauto.
Qed.
(* ... and so is the instance after substituting x := E *)
Theorem log_encode_substitute_valid tiny I id E bits J :
  validate I = true -> log_encode tiny I id = inr (E, bits) ->
  inst_substitute tiny (add_dvs I bits) [(id, FLin E)] = Some J -> validate J = true.
Proof.
  intros V H HS. destruct (log_encode_shape _ _ _ _ _ H) as (n & Hb & HE).
  apply (inst_substitute_preserves_validity tiny (add_dvs I bits) [(id, FLin E)] J); [|  |exact HS].
  - eapply validate_add_fresh; eauto.
  - intros k r _ L i Hi. cbn [lookup] in L. destruct (k =? id)%N; [|discriminate].
    inversion L; subst r. cbn [fn_used] in Hi. cbn [add_dvs i_dvs]. rewrite map_app, Hb.
    apply in_or_app. right. apply HE. exact Hi.
Qed.

(* ---------------- integer slack (C13) ---------------- *)
Lemma find_constr_in cid : forall cs c, find_constr cid cs = Some c -> In c cs /\ c_id c = cid.
Proof.
  induction cs as [|x cs IH]; intros c H; cbn [find_constr] in H; [discriminate|].
  destruct (c_id x =? cid)%N eqn:E.
  - inversion H; subst. apply N.eqb_eq in E. split; [left; reflexivity|exact E].
  - apply IH in H. destruct H. split; [right; assumption|assumption].
Qed.
Lemma replace_constr_ids cid c' : c_id c' = cid -> forall cs, map c_id (replace_constr cid c' cs) = map c_id cs.
Proof.
  intros E. induction cs as [|x cs IH]; cbn [replace_constr map]; [reflexivity|].
  destruct (c_id x =? cid)%N eqn:Ex; cbn [map].
  - apply N.eqb_eq in Ex. congruence.
  - rewrite IH. reflexivity.
Qed.
Lemma replace_constr_in cid c' : forall cs x, In x (replace_constr cid c' cs) -> x = c' \/ In x cs.
Proof.
  induction cs as [|y cs IH]; intros x H; cbn [replace_constr] in H; [destruct H|].
  destruct (c_id y =? cid)%N; cbn [In] in *.
  - destruct H as [<-|H]; auto.
  - destruct H as [<-|H]; auto. apply IH in H. tauto.
Qed.
Lemma slack_prologue_shape I cid b bs c f : slack_prologue I cid b = inr (bs, c, f) ->
  In c (i_cs I) /\ c_id c = cid /\ c_fn c = Some f.
Proof.
  unfold slack_prologue. destruct (box_of (i_dvs I) []) as [bx|]; [|discriminate].
  destruct (find_constr cid (i_cs I)) as [c0|] eqn:F; [|discriminate].
  destruct (negb (c_eq c0 =? LE_ZERO)%Z); [discriminate|].
  destruct (c_fn c0) as [f0|] eqn:Ef; [|discriminate].
  destruct (check_kinds _ _); [discriminate|].
  intro H; inversion H; subst bx c0 f0. apply find_constr_in in F. tauto.
Qed.

(* a slack variable with the id next_id is appended and the constraint becomes f + coef * slack *)
Lemma slack_added_valid tiny I c f f' cid e bd coef :
  validate I = true -> In c (i_cs I) -> c_id c = cid -> c_fn c = Some f ->
  fn_add tiny f (FLin (lin_single (next_id (i_dvs I)) coef)) = Some f' ->
  validate (set_dvs_cs I (i_dvs I ++ [slack_dv (next_id (i_dvs I)) cid bd])
              (replace_constr cid {| c_id := c_id c; c_eq := e; c_fn := Some f'; c_meta := c_meta c |} (i_cs I)))
  = true.
Proof.
  intros V Hc Eid Ef Ea. pose proof V as V'. apply validate_iff in V'. destruct V' as (N1 & N2 & _).
  apply validate_iff. unfold all_constrs; cbn [set_dvs_cs i_dvs i_cs i_rs].
  rewrite !map_app. cbn [map slack_dv dv_id].
  split; [apply (NoDup_dvs_from (i_dvs I) 1); exact N1|]. split.
  - rewrite replace_constr_ids by exact Eid. rewrite <- map_app. exact N2.
  - intros i Hi. rewrite used_parts in Hi. cbn [i_obj i_cs i_rs] in Hi. apply in_or_app.
    assert (Old : forall j, In j (inst_used I) -> In j (map dv_id (i_dvs I))) by (intro j; apply validate_used; exact V).
    destruct Hi as [Hi|[Hi|Hi]]; [left; apply Old; apply used_parts; auto| |left; apply Old; apply used_parts; auto].
    apply in_flat_map in Hi. destruct Hi as (x & Hx & Hi). apply replace_constr_in in Hx.
    destruct Hx as [->|Hx].
    + unfold constr_used in Hi; cbn [c_fn fn_or_zero] in Hi.
      destruct (fn_add_used _ _ _ _ _ Ea Hi) as [Hf|Hs].
      * left. apply Old. apply used_parts. right; left. apply in_flat_map. exists c. split; [exact Hc|].
        unfold constr_used. rewrite Ef. exact Hf.
      * right. cbn [fn_used lin_single l_terms map fst] in Hs. exact Hs.
    + left. apply Old. apply used_parts. right; left. apply in_flat_map. exists x. auto.
Qed.

Lemma relaxed_with_valid I cid reason J : validate I = true -> relaxed_with I cid reason = inr J -> validate J = true.
Proof.
  intros V H. unfold relaxed_with in H.
  destruct (relax I cid (A reason) (L [])) as [I'|] eqn:E; [|discriminate].
  inversion H; subst. eapply relax_preserves_validity; eauto.
Qed.

(* both outcomes: the constraint moved to the removed list, or a slack variable introduced *)
Theorem convert_slack_preserves_validity tiny I cid max_range J :
  validate I = true -> convert_slack tiny I cid max_range = inr J -> validate J = true.
Proof.
  intros V H. unfold convert_slack in H.
  destruct (slack_prologue I cid true) as [e|[[bs c] f]] eqn:E0; [discriminate|].
  apply slack_prologue_shape in E0. destruct E0 as (Hc & Eid & Ef).
  destruct (content_factor f) as [a|]; [|discriminate].
  destruct (fn_mul tiny f (FConst a)) as [af|]; [|discriminate].
  destruct (evaluate_bound af bs) as [B0|]; [|discriminate].
  destruct (as_integer_bound B0) as [B|]; [|discriminate].
  destruct (ext_gt0 (lower B)); [discriminate|].
  destruct (ext_le0 (upper B)); [eapply relaxed_with_valid; eauto|].
  destruct (eltb _ (eneg (lower B))); [discriminate|].
  destruct (fn_add tiny f _) as [f'|] eqn:Ea; [|discriminate].
  inversion H; subst J. eapply slack_added_valid; eauto.
Qed.
Theorem add_slack_preserves_validity tiny I cid Ub J b :
  validate I = true -> add_slack tiny I cid Ub = inr (J, b) -> validate J = true.
Proof.
  intros V H. unfold add_slack in H.
  destruct (slack_prologue I cid true) as [e|[[bs c] f]] eqn:E0; [discriminate|].
  apply slack_prologue_shape in E0. destruct E0 as (Hc & Eid & Ef).
  destruct (evaluate_bound f bs) as [B|]; [|discriminate].
  destruct (ext_gt0 (lower B)); [discriminate|].
  destruct (ext_le0 (upper B)).
  - destruct (relaxed_with I cid _) as [e|I'] eqn:ER; [discriminate|].
    inversion H; subst. eapply relaxed_with_valid; eauto.
  - destruct (lower B) as [|l| |]; try discriminate. destruct Ub as [|pu]; [discriminate|].
    destruct (fn_add tiny f _) as [f'|] eqn:Ea; [|discriminate].
    inversion H; subst J b. eapply slack_added_valid; eauto.
Qed.

(* ================================================================== *)
(* Counterexamples: what is NOT preserved without the extra hypotheses *)
(* ================================================================== *)
Definition wp_dv (k : N) : dvar :=
  {| dv_id := k; dv_kind := KIND_CONTINUOUS; dv_bound := None; dv_subst := None; dv_meta := [] |}.
Definition wp_lin (a b : N) : function :=
  FLin {| l_terms := [(a, qz 1); (b, qz 1)]; l_const := qz 0 |}.

(* a VALID parametric instance (ParametricInstance validation ignores the ids used by removed
   constraints) whose removed constraint 3 mentions the parameter 5: with_parameters leaves the
   removed constraints untouched, so the resulting Instance uses the undefined id 5 and is INVALID *)
Definition P_bad : pinstance :=
  {| p_sense := SENSE_MIN; p_obj := Some (wp_lin 1 5);
     p_dvs := [wp_dv 1]; p_params := [{| pa_id := 5; pa_meta := [] |}]; p_cs := [];
     p_rs := [{| r_c := Some {| c_id := 3; c_eq := EQ_ZERO; c_fn := Some (wp_lin 1 5); c_meta := [] |};
                 r_reason := A "manual"%string; r_params := L [] |}];
     p_deps := []; p_hints := L []; p_desc := L [] |}.
Example with_parameters_removed_refuted :
  exists J, pvalidate P_bad = true /\ with_parameters tiny_0 P_bad [(5%N, qz 2)] = Some J /\
            validate J = false /\ ~ removed_defined P_bad.
Proof.
  eexists. split; [vm_compute; reflexivity|]. split; [vm_compute; reflexivity|].
  split; [vm_compute; reflexivity|].
  intro H. specialize (H 5%N). cbn in H. destruct H as [H|[]]; [tauto|discriminate].
Qed.

(* substituting a function that mentions an undefined id into a valid instance *)
Definition I_sub : instance :=
  {| i_sense := SENSE_MIN; i_obj := Some (wp_lin 1 2); i_dvs := [wp_dv 1; wp_dv 2]; i_cs := []; i_rs := [];
     i_deps := []; i_params := None; i_hints := L []; i_desc := L [] |}.
Example substitute_undefined_refuted :
  exists J, validate I_sub = true /\ inst_substitute tiny_0 I_sub [(1%N, wp_lin 2 9)] = Some J /\
            validate J = false /\ ~ repl_defined I_sub [(1%N, wp_lin 2 9)].
Proof.
  eexists. split; [vm_compute; reflexivity|]. split; [vm_compute; reflexivity|].
  split; [vm_compute; reflexivity|].
  intro H. specialize (H 1%N (wp_lin 2 9)). cbn in H.
  specialize (H (or_introl eq_refl) eq_refl 9%N (or_intror (or_introl eq_refl))).
  destruct H as [H|[H|[]]]; discriminate.
Qed.
(* ... while a replacement for an id that is not used anywhere may mention anything *)
Example substitute_unused_key_ok :
  exists J, inst_substitute tiny_0 I_sub [(7%N, wp_lin 2 9)] = Some J /\ validate J = true /\
            repl_defined I_sub [(7%N, wp_lin 2 9)].
Proof.
  eexists. split; [vm_compute; reflexivity|]. split; [vm_compute; reflexivity|].
  intros k r Hk L. cbn in Hk. cbn [lookup] in L.
  destruct Hk as [<-|[<-|[]]]; cbn in L; discriminate.
Qed.

(* ================================================================== *)
(* Non-vacuity: a valid instance pushed through a pipeline              *)
(*   restore 8; relax 7; log_encode x1 (+ binaries 3,4,5); substitute x1 := E;
     uniform penalty (parameter 6); with_parameters {6 := 2}            *)
(* ================================================================== *)
Example pipeline_nonvacuous :
  exists I1 I2 E bits I3 P I4,
    validate LI_ex = true /\
    restore LI_ex 8 = Some I1 /\ validate I1 = true /\
    relax I1 7 (A "relaxed"%string) (L []) = Some I2 /\ validate I2 = true /\
    map c_id (i_cs I2) = [8%N] /\ map c_id (removed_constrs (i_rs I2)) = [7%N] /\
    log_encode tiny_0 I2 1 = inr (E, bits) /\ map dv_id bits = [3; 4; 5]%N /\
    validate (add_dvs I2 bits) = true /\
    inst_substitute tiny_0 (add_dvs I2 bits) [(1%N, FLin E)] = Some I3 /\ validate I3 = true /\
    inst_used I3 <> [] /\
    uniform_penalty tiny_0 I3 = Some P /\ pvalidate P = true /\ map pa_id (p_params P) = [6%N] /\
    map c_id (removed_constrs (p_rs P)) = [7; 8]%N /\
    with_parameters tiny_0 P [(6%N, qz 2)] = Some I4 /\ validate I4 = true /\
    map dv_id (i_dvs I4) = [1; 2; 3; 4; 5]%N /\ inst_used I4 <> [].
Proof.
  eexists. eexists. eexists. eexists. eexists. eexists. eexists.
  split; [vm_compute; reflexivity|]. split; [vm_compute; reflexivity|].
  split; [vm_compute; reflexivity|]. split; [vm_compute; reflexivity|].
  split; [vm_compute; reflexivity|]. split; [vm_compute; reflexivity|].
  split; [vm_compute; reflexivity|]. split; [vm_compute; reflexivity|].
  split; [vm_compute; reflexivity|]. split; [vm_compute; reflexivity|].
  split; [vm_compute; reflexivity|]. split; [vm_compute; reflexivity|].
  split; [vm_compute; discriminate|].
  split; [vm_compute; reflexivity|]. split; [vm_compute; reflexivity|].
  split; [vm_compute; reflexivity|]. split; [vm_compute; reflexivity|].
  split; [vm_compute; reflexivity|]. split; [vm_compute; reflexivity|].
  split; [vm_compute; reflexivity|]. vm_compute; discriminate.
Qed.
(* the same stages through the theorems (no computation of validate) *)
Example pipeline_by_theorems I1 I2 E bits I3 P I4 :
  restore LI_ex 8 = Some I1 -> relax I1 7 (A "relaxed"%string) (L []) = Some I2 ->
  log_encode tiny_0 I2 1 = inr (E, bits) ->
  inst_substitute tiny_0 (add_dvs I2 bits) [(1%N, FLin E)] = Some I3 ->
  uniform_penalty tiny_0 I3 = Some P -> with_parameters tiny_0 P [(6%N, qz 2)] = Some I4 ->
  validate I4 = true.
Proof.
  intros H1 H2 H3 H4 H5 H6.
  assert (V0 : validate LI_ex = true) by (vm_compute; reflexivity).
  pose proof (restore_preserves_validity _ _ _ V0 H1) as V1.
  pose proof (relax_preserves_validity _ _ _ _ _ V1 H2) as V2.
  pose proof (log_encode_substitute_valid _ _ _ _ _ _ V2 H3 H4) as V3.
  exact (uniform_penalty_with_parameters_valid _ _ _ _ _ V3 H5 H6).
Qed.

Print Assumptions fn_add_used.
Print Assumptions fn_mul_used.
Print Assumptions fn_pe_used.
Print Assumptions fn_substitute_used.
Print Assumptions relax_preserves_validity.
Print Assumptions restore_preserves_validity.
Print Assumptions relax_validity_iff.
Print Assumptions restore_validity_iff.
Print Assumptions run_preserves_validity.
Print Assumptions as_min_preserves_validity.
Print Assumptions inst_pe_preserves_validity.
Print Assumptions penalty_preserves_validity.
Print Assumptions uniform_penalty_preserves_validity.
Print Assumptions penalty_removed_defined.
Print Assumptions uniform_penalty_removed_defined.
Print Assumptions with_parameters_preserves_validity.
Print Assumptions penalty_with_parameters_valid.
Print Assumptions uniform_penalty_with_parameters_valid.
Print Assumptions of_instance_preserves_validity.
Print Assumptions of_instance_with_parameters_valid.
Print Assumptions inst_substitute_preserves_validity.
Print Assumptions log_encode_add_dvs_valid.
Print Assumptions log_encode_substitute_valid.
Print Assumptions convert_slack_preserves_validity.
Print Assumptions add_slack_preserves_validity.
Print Assumptions with_parameters_removed_refuted.
Print Assumptions substitute_undefined_refuted.
Print Assumptions substitute_unused_key_ok.
Print Assumptions pipeline_nonvacuous.
Print Assumptions pipeline_by_theorems.
