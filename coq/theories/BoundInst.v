(* BoundInst.v — C16 at instance level: the interval computed by Function::evaluate_bound over the
   box of the decision variables of an instance contains what Instance::evaluate reports.

   bs = box_of (i_dvs I) []  is the box the SDK derives from the decision variables (Slack.v:
   `get_bounds`; a variable without a bound is the whole line, a binary without a bound is [0,1],
   the LAST declaration of an id counts, an id that is not declared is the whole line).

   Facts about the model that shape the statements:
   * Instance::evaluate evaluates the constraints and the objective AT THE GIVEN STATE x (before
     fixed values, dependencies and the nearest-to-zero completion are added to the reported
     state).  Hence a successful evaluation needs a value in x for every occurring variable, and
     fixed values / dependency keys play no role for the reported VALUES: no hypothesis on them is
     needed in parts 1-3.  They only matter for the reported STATE (part 4).
   * Instance::evaluate accepts entries up to 1e-7 outside their bound, so "x is exactly in bound"
     is a hypothesis of the exact theorems (only for the variables that occur in the function at
     hand); the tolerant theorems need no such hypothesis and use the box widened by 1e-7. *)
Require Import Ommx.Num Ommx.Poly Ommx.Msg Ommx.Eval Ommx.Tree Ommx.Inst Ommx.InstProofs
        Ommx.InstTotal Ommx.Bound Ommx.BoundProofs Ommx.BoundEval Ommx.Slack.
From Coq Require Import String.
Close Scope string_scope.
Open Scope list_scope.
Open Scope Qc_scope.

(* ------------------------------------------------------------------ *)
(* small list facts *)
Lemma sget_In (s : state) i v : sget s i = Some v -> In (i, v) s.
Proof.
  induction s as [|[j w] s IH]; cbn [sget]; [discriminate|].
  destruct (i =? j)%N eqn:E.
  - apply N.eqb_eq in E. subst j. intro H; inversion H; subst. left. reflexivity.
  - intro H. right. apply IH. exact H.
Qed.
Lemma Forall2_impl_in {X Y} (P Q : X -> Y -> Prop) l l' :
  (forall x y, In x l -> P x y -> Q x y) -> Forall2 P l l' -> Forall2 Q l l'.
Proof.
  intros H F. induction F as [|x y l l' Pxy F IH]; constructor.
  - apply H; [left; reflexivity|exact Pxy].
  - apply IH. intros a b Ha. apply H. right. exact Ha.
Qed.
Lemma Forall2_in_r {X Y} (P : X -> Y -> Prop) l l' : Forall2 P l l' ->
  forall y, In y l' -> exists x, In x l /\ P x y.
Proof.
  induction 1 as [|x y l l' Hxy _ IH]; intros z Hz; [destruct Hz|].
  destruct Hz as [<-|Hz]; [exists x; split; [left; reflexivity|exact Hxy]|].
  destruct (IH z Hz) as (x' & Hin & Hp). exists x'. split; [right; exact Hin|exact Hp].
Qed.
Lemma NoDup_map_inj {X Y} (f : X -> Y) l : NoDup (map f l) ->
  forall a b, In a l -> In b l -> f a = f b -> a = b.
Proof.
  induction l as [|x l IH]; cbn [map]; intros ND a b Ha Hb E; [destruct Ha|].
  inversion ND as [|? ? Hn ND']; subst.
  destruct Ha as [<-|Ha]; destruct Hb as [<-|Hb].
  - reflexivity.
  - exfalso. apply Hn. rewrite E. apply in_map. exact Hb.
  - exfalso. apply Hn. rewrite <- E. apply in_map. exact Ha.
  - apply IH; assumption.
Qed.

(* ------------------------------------------------------------------ *)
(* PART 0 — the box of an instance *)

Definition mkb (b : ext * ext) : bound := {| lower := fst b; upper := snd b |}.

(* the entry of id i is the bound of the LAST declaration of i *)
Lemma box_of_bget : forall dvs acc bs, box_of dvs acc = Some bs ->
  forall i, bget bs i = match eff_dv dvs i with
                        | Some d => option_map mkb (dv_bound_of d)
                        | None => bget acc i
                        end.
Proof.
  induction dvs as [|v dvs IH]; intros acc bs H i; cbn [box_of] in H.
  - inversion H; subst. reflexivity.
  - destruct (dv_bound_of v) as [[l u]|] eqn:B; [|discriminate].
    rewrite (IH _ _ H i), eff_dv_cons. destruct (eff_dv dvs i); [reflexivity|].
    cbn [bget]. unfold is_id. destruct (i =? dv_id v)%N; [|reflexivity].
    rewrite B. reflexivity.
Qed.

(* box_of succeeds exactly when every declared bound is valid (same condition as get_bounds) *)
Lemma box_of_some : forall dvs acc, (exists bs, box_of dvs acc = Some bs) <-> bounds_valid dvs.
Proof.
  unfold bounds_valid. induction dvs as [|v dvs IH]; intro acc; cbn [box_of].
  - split; [intros _ d []|eauto].
  - destruct (dv_bound_of v) as [[l u]|] eqn:B.
    + rewrite IH. split.
      * intros H d [<-|Hin]; [congruence|apply H; exact Hin].
      * intros H d Hin. apply H. right. exact Hin.
    + split; [intros [bs E]; discriminate|]. intro H. exfalso. apply (H v); [left; reflexivity|exact B].
Qed.

Lemma dv_bound_of_valid d b : dv_bound_of d = Some b -> valid (mkb b).
Proof.
  intro H. destruct (dv_bound_of_shape d b H) as (Hl & Hu & Le). destruct b as [l u].
  cbn [fst snd] in *. apply valid_intro. unfold mkb; cbn [lower upper fst snd].
  destruct Hl as [->|[ql ->]]; destruct Hu as [->|[qu ->]]; cbn [eleb] in *; auto.
  apply qleb_le. exact Le.
Qed.

Lemma box_of_valid dvs bs : box_of dvs [] = Some bs -> valid_box bs.
Proof.
  intros H i b G. rewrite (box_of_bget _ _ _ H i) in G.
  destruct (eff_dv dvs i) as [d|]; [|discriminate].
  destruct (dv_bound_of d) as [b'|] eqn:B; [|discriminate].
  cbn [option_map] in G. inversion G; subst b. eapply dv_bound_of_valid. exact B.
Qed.

Lemma bmem_mkb b v : bmem v (mkb b) = true <-> in_bound b v.
Proof. unfold bmem, mkb, in_bound; cbn [lower upper]. apply andb_true_iff. Qed.

(* [in_bound] written with inequalities *)
Lemma in_bound_meaning d b v : dv_bound_of d = Some b ->
  (in_bound b v <-> (forall l, fst b = Fin l -> l <= v) /\ (forall u, snd b = Fin u -> v <= u)).
Proof.
  intro H. destruct (dv_bound_of_shape d b H) as (Hl & Hu & _). destruct b as [l u].
  unfold in_bound. cbn [fst snd] in *.
  destruct Hl as [->|[ql ->]]; destruct Hu as [->|[qu ->]]; cbn [eleb]; rewrite ?qleb_le.
  - split; [intros _; split; intros ? E; discriminate|auto].
  - split.
    + intros [_ H2]. split; [intros ? E; discriminate|]. intros u' E; inversion E; subst. exact H2.
    + intros [_ H2]. split; [reflexivity|apply H2; reflexivity].
  - split.
    + intros [H1 _]. split; [|intros ? E; discriminate]. intros l' E; inversion E; subst. exact H1.
    + intros [H1 _]. split; [apply H1; reflexivity|reflexivity].
  - split.
    + intros [H1 H2]. split; intros y E; inversion E; subst; assumption.
    + intros [H1 H2]. split; [apply H1|apply H2]; reflexivity.
Qed.

(* the value given to id i (if any) lies EXACTLY in the bound of the effective declaration of i *)
Definition var_exact (dvs : list dvar) (x : state) (i : N) : Prop :=
  forall v d b, sget x i = Some v -> eff_dv dvs i = Some d -> dv_bound_of d = Some b -> in_bound b v.
Definition fn_exact (dvs : list dvar) (x : state) (f : function) : Prop :=
  forall i, occurs f i -> var_exact dvs x i.
Definition exact_in_bounds (dvs : list dvar) (x : state) : Prop := forall i, var_exact dvs x i.

Lemma var_exact_box dvs bs x i w : box_of dvs [] = Some bs ->
  var_exact dvs x i -> sget x i = Some w -> bmem w (bget_d bs i) = true.
Proof.
  intros H E G. unfold bget_d. rewrite (box_of_bget _ _ _ H i).
  destruct (eff_dv dvs i) as [d|] eqn:Ed; [|reflexivity].
  destruct (dv_bound_of d) as [b|] eqn:B; [|reflexivity].
  cbn [option_map]. apply bmem_mkb. eapply E; eauto.
Qed.

(* ------------------------------------------------------------------ *)
(* PART 1 — function level: the value computed by Function::evaluate at a state lies in the
   interval, as soon as the values of the OCCURRING variables lie in their entries of the box *)

Definition box_point (X : bound) : num :=
  match Bound.nearest_to_zero X with Fin v => v | _ => 0 end.
Lemma box_point_mem X : valid X -> bmem (box_point X) X = true.
Proof.
  intro V. destruct (nearest_to_zero_sound X V) as (v & E & M & _).
  unfold box_point. rewrite E. exact M.
Qed.

(* the state, with every value that is missing or outside the box replaced by a point of the box *)
Definition clamp (bs : bounds) (x : state) : valuation := fun i =>
  match sget x i with
  | Some v => if bmem v (bget_d bs i) then v else box_point (bget_d bs i)
  | None => box_point (bget_d bs i)
  end.
Lemma clamp_in_box bs x : valid_box bs -> in_box (clamp bs x) bs.
Proof.
  intros V i. unfold clamp. pose proof (box_point_mem _ (valid_bget_d bs i V)) as P.
  destruct (sget x i) as [v|]; [|exact P].
  destruct (bmem v (bget_d bs i)) eqn:M; [exact M|exact P].
Qed.

Theorem denote_in_interval bs x f B :
  valid_box bs -> covers x f ->
  (forall i w, occurs f i -> sget x i = Some w -> bmem w (bget_d bs i) = true) ->
  evaluate_bound f bs = Some B -> valid B /\ bmem (denote f (total x)) B = true.
Proof.
  intros V C Hx E.
  assert (D : denote f (total x) = denote f (clamp bs x)).
  { unfold denote. apply it_val_local. intros i Ho. unfold total, clamp.
    destruct (sget x i) as [w|] eqn:G; [|exfalso; apply (C i Ho G)].
    rewrite (Hx i w Ho G). reflexivity. }
  rewrite D. apply (evaluate_bound_encloses f bs (clamp bs x) B V (clamp_in_box bs x V) E).
Qed.

Corollary fn_eval_in_interval bs x f v ids B :
  valid_box bs ->
  (forall i w, occurs f i -> sget x i = Some w -> bmem w (bget_d bs i) = true) ->
  fn_eval f x = Some (v, ids) -> evaluate_bound f bs = Some B -> valid B /\ bmem v B = true.
Proof.
  intros V Hx Ev E.
  assert (C : covers x f) by (apply fn_eval_defined_iff; congruence).
  destruct (fn_eval_sound f x v ids Ev) as [Hv _]. rewrite (Hv (total x) (total_agrees x)).
  apply (denote_in_interval bs x f B V C Hx E).
Qed.

(* evaluate_bound cannot panic on a valid box, except for a quadratic with arrays of different
   lengths (which Function::evaluate silently truncates) *)
Lemma evaluate_bound_total bs f : valid_box bs -> iter_ok f ->
  exists B, evaluate_bound f bs = Some B /\ valid B.
Proof.
  intros V OK. destruct (evaluate_bound_sound f bs (clamp bs []) V (clamp_in_box bs [] V) OK)
    as (B & E & VB & _). eauto.
Qed.

(* "whatever interval is computed for f over bs contains v" *)
Definition encl (bs : bounds) (f : function) (v : num) : Prop :=
  forall B, evaluate_bound f bs = Some B -> valid B /\ bmem v B = true.

(* membership in extended-real terms *)
Lemma bmem_meaning v B : bmem v B = true <->
  eleb (lower B) (Fin v) = true /\ eleb (Fin v) (upper B) = true.
Proof. unfold bmem. apply andb_true_iff. Qed.
Lemma bmem_finite v l u : bmem v {| lower := Fin l; upper := Fin u |} = true <-> l <= v /\ v <= u.
Proof. unfold bmem; cbn [lower upper eleb]. rewrite andb_true_iff, !qleb_le. tauto. Qed.

(* ------------------------------------------------------------------ *)
(* PART 2 — instance level, generic in the box bx and in the set R of ids whose value is known to
   lie in its entry of bx *)

(* the record e is what Instance::evaluate writes for the constraint c (id, equality, metadata,
   removal reason [rm], used ids, value = c's function at x), and its value is enclosed by the
   interval of c's function over bx provided the ids occurring in c are all in R *)
Definition rec_enc (bx : bounds) (R : N -> Prop) (rm : option (tree * tree)) (x : state)
           (c : constr) (e : evaluated) : Prop :=
  reports c rm x e /\ ev_value e = cval c x /\
  ((forall i, occurs (cfun c) i -> R i) -> encl bx (cfun c) (ev_value e)).

Lemma reports_enc bx (R : N -> Prop) rm x c e :
  valid_box bx -> covers x (cfun c) ->
  (forall i w, R i -> sget x i = Some w -> bmem w (bget_d bx i) = true) ->
  reports c rm x e -> rec_enc bx R rm x c e.
Proof.
  intros V C Hx Rp. split; [exact Rp|].
  assert (Ev : ev_value e = cval c x).
  { destruct Rp as (_ & _ & _ & _ & Hv & _). unfold cval, cfun. apply Hv. apply total_agrees. }
  split; [exact Ev|]. intros HR B E. rewrite Ev. unfold cval.
  apply (denote_in_interval bx x (cfun c) B V C); [|exact E].
  intros i w Ho G. apply Hx; [apply HR; exact Ho|exact G].
Qed.

Lemma inst_values_generic I x sol bx (R : N -> Prop) :
  valid_box bx -> inst_eval I x = Some sol ->
  (forall i w, R i -> sget x i = Some w -> bmem w (bget_d bx i) = true) ->
  exists ea er, so_evaluated sol = ea ++ er /\
    Forall2 (fun c e => rec_enc bx R None x c e) (i_cs I) ea /\
    Forall2 (fun r e => exists c, r_c r = Some c /\
                                  rec_enc bx R (Some (r_reason r, r_params r)) x c e) (i_rs I) er /\
    (so_feasible_relaxed sol = true <-> Forall holds ea) /\
    (so_feasible sol = true <-> Forall holds (ea ++ er)) /\
    so_objective sol = denote (fn_or_zero (i_obj I)) (total x) /\
    ((forall i, occurs (fn_or_zero (i_obj I)) i -> R i) ->
     encl bx (fn_or_zero (i_obj I)) (so_objective sol)).
Proof.
  intros V Ev Hx.
  destruct (proj1 (inst_eval_succeeds_iff I x) (ex_intro _ sol Ev)) as (_ & _ & C1 & C2 & _ & CO & _).
  destruct (inst_eval_constraints I x sol Ev) as (ea & er & E & Fa & Fr & Hr & Hf).
  exists ea, er. split; [exact E|]. split.
  { eapply Forall2_impl_in; [|exact Fa]. intros c e Hc Rp.
    apply reports_enc; auto. }
  split.
  { eapply Forall2_impl_in; [|exact Fr]. intros r e Hin (c & Ec & Rp).
    exists c. split; [exact Ec|]. destruct (C2 r Hin) as (c' & Ec' & C).
    assert (c' = c) by congruence. subst c'. apply reports_enc; auto. }
  split; [exact Hr|]. split; [exact Hf|].
  pose proof (inst_eval_objective I x sol Ev (total x) (total_agrees x)) as Eo.
  split; [exact Eo|]. intros HR B EB. rewrite Eo.
  apply (denote_in_interval bx x _ B V CO); [|exact EB].
  intros i w Ho G. apply Hx; [apply HR; exact Ho|exact G].
Qed.

(* ------------------------------------------------------------------ *)
(* PART 2a — THE EXACT THEOREM *)

Definition record_in_bound (I : instance) (bs : bounds) (x : state) (rm : option (tree * tree))
           (c : constr) (e : evaluated) : Prop :=
  reports c rm x e /\ ev_value e = cval c x /\
  (fn_exact (i_dvs I) x (cfun c) -> encl bs (cfun c) (ev_value e)).

Theorem evaluated_values_in_bounds : forall I x sol bs,
  box_of (i_dvs I) [] = Some bs -> inst_eval I x = Some sol ->
  exists ea er, so_evaluated sol = ea ++ er /\
    Forall2 (fun c e => record_in_bound I bs x None c e) (i_cs I) ea /\
    Forall2 (fun r e => exists c, r_c r = Some c /\
               record_in_bound I bs x (Some (r_reason r, r_params r)) c e) (i_rs I) er /\
    (so_feasible_relaxed sol = true <-> Forall holds ea) /\
    (so_feasible sol = true <-> Forall holds (ea ++ er)) /\
    so_objective sol = denote (fn_or_zero (i_obj I)) (total x) /\
    (fn_exact (i_dvs I) x (fn_or_zero (i_obj I)) ->
     encl bs (fn_or_zero (i_obj I)) (so_objective sol)).
Proof.
  intros I x sol bs Hb Ev.
  apply (inst_values_generic I x sol bs (var_exact (i_dvs I) x) (box_of_valid _ _ Hb) Ev).
  intros i w Ri G. eapply var_exact_box; eauto.
Qed.

(* the same, constraint by constraint and record by record *)
Corollary constraint_value_in_bound : forall I x sol bs c B,
  box_of (i_dvs I) [] = Some bs -> inst_eval I x = Some sol ->
  In c (all_constrs I) -> fn_exact (i_dvs I) x (cfun c) ->
  evaluate_bound (cfun c) bs = Some B ->
  valid B /\ bmem (cval c x) B = true /\
  exists e, In e (so_evaluated sol) /\ ev_id e = c_id c /\ ev_eq e = c_eq c /\
            ev_value e = cval c x /\ bmem (ev_value e) B = true.
Proof.
  intros I x sol bs c B Hb Ev Hc Fx EB.
  destruct (evaluated_values_in_bounds I x sol bs Hb Ev) as (ea & er & E & Fa & Fr & _).
  assert (X : exists e rm, In e (so_evaluated sol) /\ record_in_bound I bs x rm c e).
  { apply in_all_constrs in Hc. destruct Hc as [Hc|(r & Hr & Er)].
    - destruct (Forall2_in_l _ _ _ Fa c Hc) as (e & He & Re). exists e, None.
      split; [rewrite E; apply in_or_app; left; exact He|exact Re].
    - destruct (Forall2_in_l _ _ _ Fr r Hr) as (e & He & c' & Ec' & Re).
      assert (c' = c) by congruence. subst c'. exists e, (Some (r_reason r, r_params r)).
      split; [rewrite E; apply in_or_app; right; exact He|exact Re]. }
  destruct X as (e & rm & He & Rp & Evl & En). destruct (En Fx B EB) as [VB M].
  split; [exact VB|]. split; [rewrite <- Evl; exact M|].
  exists e. destruct Rp as (Ei & Eq & _). repeat split; auto.
Qed.

Corollary record_value_in_bound : forall I x sol bs e,
  box_of (i_dvs I) [] = Some bs -> inst_eval I x = Some sol -> In e (so_evaluated sol) ->
  exists c, In c (all_constrs I) /\ ev_id e = c_id c /\ ev_eq e = c_eq c /\
            ev_value e = cval c x /\
            (fn_exact (i_dvs I) x (cfun c) -> encl bs (cfun c) (ev_value e)).
Proof.
  intros I x sol bs e Hb Ev He.
  destruct (evaluated_values_in_bounds I x sol bs Hb Ev) as (ea & er & E & Fa & Fr & _).
  rewrite E in He. apply in_app_or in He. destruct He as [He|He].
  - destruct (Forall2_in_r _ _ _ Fa e He) as (c & Hc & Rp & Evl & En).
    exists c. split; [apply in_all_constrs; left; exact Hc|].
    destruct Rp as (Ei & Eq & _). split; [exact Ei|]. split; [exact Eq|]. split; [exact Evl|exact En].
  - destruct (Forall2_in_r _ _ _ Fr e He) as (r & Hr & c & Ec & Rp & Evl & En).
    exists c. split; [apply in_all_constrs; right; eauto|].
    destruct Rp as (Ei & Eq & _). split; [exact Ei|]. split; [exact Eq|]. split; [exact Evl|exact En].
Qed.

Corollary objective_in_bound : forall I x sol bs B,
  box_of (i_dvs I) [] = Some bs -> inst_eval I x = Some sol ->
  fn_exact (i_dvs I) x (fn_or_zero (i_obj I)) ->
  evaluate_bound (fn_or_zero (i_obj I)) bs = Some B ->
  valid B /\ bmem (so_objective sol) B = true.
Proof.
  intros I x sol bs B Hb Ev Fx EB.
  destruct (evaluated_values_in_bounds I x sol bs Hb Ev) as (ea & er & _ & _ & _ & _ & _ & _ & En).
  apply (En Fx B EB).
Qed.

(* the interval exists whenever the box does (quadratics with equal array lengths) *)
Corollary instance_interval_exists : forall I bs f,
  box_of (i_dvs I) [] = Some bs -> iter_ok f -> exists B, evaluate_bound f bs = Some B /\ valid B.
Proof. intros I bs f Hb OK. apply evaluate_bound_total; [eapply box_of_valid; exact Hb|exact OK]. Qed.
(* ... and the box exists whenever evaluation succeeds *)
Corollary instance_box_exists : forall I x sol, inst_eval I x = Some sol ->
  exists bs, box_of (i_dvs I) [] = Some bs.
Proof.
  intros I x sol Ev. apply box_of_some.
  destruct (proj1 (inst_eval_succeeds_iff I x) (ex_intro _ sol Ev)) as (V & _). exact V.
Qed.

(* ------------------------------------------------------------------ *)
(* PART 2b — the decisions the slack conversions take from the interval (Slack.v: [ext_le0
   (upper B)] = "always satisfied, move to the removed constraints", [ext_gt0 (lower B)] =
   "infeasible"), read against Instance::evaluate *)

Lemma upper_le0 v B : bmem v B = true -> ext_le0 (upper B) = true -> v <= 0.
Proof.
  intros M U. apply bmem_meaning in M. destruct M as [_ M]. unfold ext_le0 in U.
  destruct (upper B) as [|u| |]; cbn [eleb] in *; try discriminate.
  apply qleb_le in M. apply qleb_le in U. eapply Qcle_trans; eassumption.
Qed.
Lemma lower_gt0 v B : bmem v B = true -> ext_gt0 (lower B) = true -> 0 < v.
Proof.
  intros M L. apply bmem_meaning in M. destruct M as [M _]. unfold ext_gt0 in L.
  destruct (lower B) as [|l| |]; cbn [eltb eleb negb] in *; try discriminate.
  apply qleb_le in M. apply Bool.negb_true_iff in L. apply qleb_gt in L.
  eapply Qclt_le_trans; eassumption.
Qed.
Lemma lower_ge v B t : bmem v B = true -> eleb (Fin t) (lower B) = true -> t <= v.
Proof.
  intros M L. apply bmem_meaning in M. destruct M as [M _].
  destruct (lower B) as [|l| |]; cbn [eleb] in *; try discriminate.
  apply qleb_le in M. apply qleb_le in L. eapply Qcle_trans; eassumption.
Qed.

(* upper B <= 0: the inequality c <= 0 holds at EVERY accepted state whose occurring variables are
   exactly in bound — exactly (value <= 0), hence also in the tolerant sense of the record *)
Theorem always_satisfied : forall I x sol bs c B,
  box_of (i_dvs I) [] = Some bs -> inst_eval I x = Some sol ->
  In c (all_constrs I) -> fn_exact (i_dvs I) x (cfun c) ->
  evaluate_bound (cfun c) bs = Some B -> ext_le0 (upper B) = true -> c_eq c = LE_ZERO ->
  cval c x <= 0 /\ c_holds c x /\ (forall e, rec_of x c e -> holds e).
Proof.
  intros I x sol bs c B Hb Ev Hc Fx EB U Eq.
  destruct (constraint_value_in_bound I x sol bs c B Hb Ev Hc Fx EB) as (_ & M & _).
  pose proof (upper_le0 _ _ M U) as Le.
  assert (CH : c_holds c x).
  { right. split; [exact Eq|]. eapply Qcle_lt_trans; [exact Le|exact tol6_pos]. }
  split; [exact Le|]. split; [exact CH|]. intros e Re. apply (rec_holds x c e Re). exact CH.
Qed.

(* if this is so for every constraint (active and removed), every accepted in-bound state is
   reported feasible *)
Theorem all_always_feasible : forall I x sol bs,
  box_of (i_dvs I) [] = Some bs -> inst_eval I x = Some sol ->
  (forall c, In c (all_constrs I) ->
     c_eq c = LE_ZERO /\ fn_exact (i_dvs I) x (cfun c) /\
     exists B, evaluate_bound (cfun c) bs = Some B /\ ext_le0 (upper B) = true) ->
  so_feasible sol = true /\ so_feasible_relaxed sol = true.
Proof.
  intros I x sol bs Hb Ev H.
  destruct (evaluated_values_in_bounds I x sol bs Hb Ev) as (ea & er & E & _ & _ & Hr & Hf & _).
  assert (A : Forall holds (ea ++ er)).
  { apply Forall_forall. intros e He. rewrite <- E in He.
    destruct (record_value_in_bound I x sol bs e Hb Ev He) as (c & Hc & _ & Eq & Evl & _).
    destruct (H c Hc) as (Ec & Fx & B & EB & U).
    destruct (always_satisfied I x sol bs c B Hb Ev Hc Fx EB U Ec) as (_ & _ & Hh).
    apply Hh. split; assumption. }
  split; [apply Hf; exact A|]. apply Hr. apply Forall_app in A. tauto.
Qed.

(* lower B > 0: the inequality c <= 0 (and the equality c = 0) is violated, in the exact sense,
   at every accepted state whose occurring variables are exactly in bound *)
Theorem never_satisfied : forall I x sol bs c B,
  box_of (i_dvs I) [] = Some bs -> inst_eval I x = Some sol ->
  In c (all_constrs I) -> fn_exact (i_dvs I) x (cfun c) ->
  evaluate_bound (cfun c) bs = Some B -> ext_gt0 (lower B) = true ->
  0 < cval c x.
Proof.
  intros I x sol bs c B Hb Ev Hc Fx EB L.
  destruct (constraint_value_in_bound I x sol bs c B Hb Ev Hc Fx EB) as (_ & M & _).
  apply (lower_gt0 _ _ M L).
Qed.

(* the feasibility FLAG is tolerant (value < 1e-6), so "lower B > 0" alone does not make it false
   (see [never_needs_margin] below); "lower B >= 1e-6" does *)
Theorem never_feasible : forall I x sol bs c B,
  box_of (i_dvs I) [] = Some bs -> inst_eval I x = Some sol ->
  In c (all_constrs I) -> fn_exact (i_dvs I) x (cfun c) ->
  evaluate_bound (cfun c) bs = Some B -> eleb (Fin tol6) (lower B) = true ->
  ~ c_holds c x /\ so_feasible sol = false /\
  (In c (i_cs I) -> so_feasible_relaxed sol = false).
Proof.
  intros I x sol bs c B Hb Ev Hc Fx EB L.
  destruct (constraint_value_in_bound I x sol bs c B Hb Ev Hc Fx EB) as (_ & M & _).
  pose proof (lower_ge _ _ _ M L) as Ge.
  assert (NH : ~ c_holds c x).
  { intros [[_ Ha]|[_ Ha]].
    - apply (Qcle_not_lt _ _ Ge). eapply Qcle_lt_trans; [apply Qcabs.Qcle_Qcabs|exact Ha].
    - apply (Qcle_not_lt _ _ Ge). exact Ha. }
  split; [exact NH|].
  destruct (evaluated_values_in_bounds I x sol bs Hb Ev) as (ea & er & E & Fa & Fr & Hr & Hf & _).
  assert (RH : forall rm e, record_in_bound I bs x rm c e -> ~ holds e).
  { intros rm e (Rp & Evl & _) Hh. apply NH. apply (rec_holds x c e); [|exact Hh].
    destruct Rp as (_ & Eq & _). split; assumption. }
  split.
  - destruct (so_feasible sol) eqn:Fe; [exfalso|reflexivity].
    pose proof (proj1 Hf eq_refl) as Fa'. clear Fe. rename Fa' into Fe. rewrite Forall_forall in Fe.
    apply in_all_constrs in Hc. destruct Hc as [Hc|(r & Hin & Er)].
    + destruct (Forall2_in_l _ _ _ Fa c Hc) as (e & He & Re).
      apply (RH _ e Re). apply Fe. apply in_or_app. left. exact He.
    + destruct (Forall2_in_l _ _ _ Fr r Hin) as (e & He & c' & Ec' & Re).
      assert (c' = c) by congruence. subst c'.
      apply (RH _ e Re). apply Fe. apply in_or_app. right. exact He.
  - intro Hc'. destruct (so_feasible_relaxed sol) eqn:Fe; [exfalso|reflexivity].
    pose proof (proj1 Hr eq_refl) as Fa'. clear Fe. rename Fa' into Fe. rewrite Forall_forall in Fe.
    destruct (Forall2_in_l _ _ _ Fa c Hc') as (e & He & Re).
    apply (RH _ e Re). apply Fe. exact He.
Qed.

(* ------------------------------------------------------------------ *)
(* PART 3 — THE TOLERANT THEOREM: no hypothesis on the state.  Instance::evaluate accepts entries
   up to 1e-7 outside their bound, so every accepted state lies in the box widened by 1e-7 on both
   sides of every declared variable, and the intervals computed over THAT box enclose everything
   that is reported — for all functions, not only linear ones. *)

Definition bwiden (a : num) (X : bound) : bound :=
  {| lower := eadd (lower X) (Fin (- a)); upper := eadd (upper X) (Fin a) |}.
Definition widen (a : num) (bs : bounds) : bounds :=
  map (fun ib : N * bound => (fst ib, bwiden a (snd ib))) bs.

Lemma bget_widen a bs i : bget (widen a bs) i = option_map (bwiden a) (bget bs i).
Proof.
  induction bs as [|[j b] bs IH]; cbn [widen map bget fst snd]; [reflexivity|].
  destruct (i =? j)%N; [reflexivity|exact IH].
Qed.
Lemma valid_bwiden a X : 0 <= a -> valid X -> valid (bwiden a X).
Proof.
  intros A V. apply valid_inv in V. apply valid_intro.
  destruct X as [[|l| |] [|u| |]]; cbn [bwiden lower upper eadd] in *; try contradiction; auto.
  qarith.
Qed.
Lemma valid_widen a bs : 0 <= a -> valid_box bs -> valid_box (widen a bs).
Proof.
  intros A V i b G. rewrite bget_widen in G. destruct (bget bs i) as [b0|] eqn:E; [|discriminate].
  cbn [option_map] in G. inversion G; subst b. apply valid_bwiden; [exact A|]. eapply V. exact E.
Qed.
(* widening by 0 changes no membership, widening only adds points *)
Lemma bmem_bwiden a X v : 0 <= a -> bmem v X = true -> bmem v (bwiden a X) = true.
Proof.
  intros A M. unfold bmem in *.
  destruct X as [[|l| |] [|u| |]]; cbn [bwiden lower upper eadd eleb andb] in *;
    try discriminate; try reflexivity; qarith.
Qed.

Lemma accepted_in_widened_box dvs bs x i w : box_of dvs [] = Some bs ->
  state_in_bounds dvs x tol7 -> sget x i = Some w -> bmem w (bget_d (widen tol7 bs) i) = true.
Proof.
  intros H SB G. unfold bget_d. rewrite bget_widen, (box_of_bget _ _ _ H i).
  destruct (eff_dv dvs i) as [d|] eqn:Ed; [|reflexivity].
  destruct (dv_bound_of d) as [b|] eqn:B; [|reflexivity].
  cbn [option_map].
  change (bmem w (bwiden tol7 (mkb b))) with (Inst.bcontains b w tol7).
  apply (SB i w (sget_In _ _ _ G) d b Ed B).
Qed.

Definition record_in_wide_bound (bs : bounds) (x : state) (rm : option (tree * tree))
           (c : constr) (e : evaluated) : Prop :=
  reports c rm x e /\ ev_value e = cval c x /\ encl (widen tol7 bs) (cfun c) (ev_value e).

Theorem evaluated_values_in_widened_bounds : forall I x sol bs,
  box_of (i_dvs I) [] = Some bs -> inst_eval I x = Some sol ->
  exists ea er, so_evaluated sol = ea ++ er /\
    Forall2 (fun c e => record_in_wide_bound bs x None c e) (i_cs I) ea /\
    Forall2 (fun r e => exists c, r_c r = Some c /\
               record_in_wide_bound bs x (Some (r_reason r, r_params r)) c e) (i_rs I) er /\
    encl (widen tol7 bs) (fn_or_zero (i_obj I)) (so_objective sol).
Proof.
  intros I x sol bs Hb Ev.
  assert (SB : state_in_bounds (i_dvs I) x tol7).
  { destruct (proj1 (inst_eval_succeeds_iff I x) (ex_intro _ sol Ev)) as (_ & SB & _). exact SB. }
  assert (A : 0 <= tol7) by (apply Qclt_le_weak; exact tol7_pos).
  destruct (inst_values_generic I x sol (widen tol7 bs) (fun _ => True)
              (valid_widen _ _ A (box_of_valid _ _ Hb)) Ev)
    as (ea & er & E & Fa & Fr & _ & _ & _ & Eo).
  { intros i w _ G. eapply accepted_in_widened_box; eauto. }
  exists ea, er. split; [exact E|]. split.
  { eapply Forall2_impl'; [|exact Fa]. intros c e (Rp & Evl & En).
    split; [exact Rp|]. split; [exact Evl|]. apply En. auto. }
  split.
  { eapply Forall2_impl'; [|exact Fr]. intros r e (c & Ec & Rp & Evl & En).
    exists c. split; [exact Ec|]. split; [exact Rp|]. split; [exact Evl|]. apply En. auto. }
  apply Eo. auto.
Qed.

Corollary constraint_value_in_widened_bound : forall I x sol bs c B,
  box_of (i_dvs I) [] = Some bs -> inst_eval I x = Some sol -> In c (all_constrs I) ->
  evaluate_bound (cfun c) (widen tol7 bs) = Some B ->
  valid B /\ bmem (cval c x) B = true.
Proof.
  intros I x sol bs c B Hb Ev Hc EB.
  destruct (evaluated_values_in_widened_bounds I x sol bs Hb Ev) as (ea & er & E & Fa & Fr & _).
  apply in_all_constrs in Hc. destruct Hc as [Hc|(r & Hr & Er)].
  - destruct (Forall2_in_l _ _ _ Fa c Hc) as (e & _ & _ & Evl & En).
    rewrite <- Evl. apply (En B EB).
  - destruct (Forall2_in_l _ _ _ Fr r Hr) as (e & _ & c' & Ec' & _ & Evl & En).
    assert (c' = c) by congruence. subst c'. rewrite <- Evl. apply (En B EB).
Qed.

(* tolerant decision: if the interval over the WIDENED box has upper <= 0, the inequality holds at
   every accepted state, no matter how the tolerance was used *)
Corollary always_satisfied_tolerant : forall I x sol bs c B,
  box_of (i_dvs I) [] = Some bs -> inst_eval I x = Some sol -> In c (all_constrs I) ->
  evaluate_bound (cfun c) (widen tol7 bs) = Some B -> ext_le0 (upper B) = true ->
  c_eq c = LE_ZERO -> cval c x <= 0 /\ c_holds c x.
Proof.
  intros I x sol bs c B Hb Ev Hc EB U Eq.
  destruct (constraint_value_in_widened_bound I x sol bs c B Hb Ev Hc EB) as (_ & M).
  pose proof (upper_le0 _ _ M U) as Le. split; [exact Le|].
  right. split; [exact Eq|]. eapply Qcle_lt_trans; [exact Le|exact tol6_pos].
Qed.

(* ------------------------------------------------------------------ *)
(* PART 4 — the reported STATE.  Here fixed values, dependencies and the nearest-to-zero
   completion matter.  Under: distinct declared ids, no dependencies, fixed values inside their
   own bound and the given state exactly in bound, the reported state is a point of the box, it
   gives a value to every declared variable, and every function re-evaluated at it falls in its
   interval; the re-evaluated value is the reported one when no occurring variable is fixed. *)

Lemma ntz_in_bound d b v : dv_bound_of d = Some b -> Inst.nearest_to_zero b = Fin v -> in_bound b v.
Proof.
  unfold dv_bound_of. destruct (dv_bound d) as [[l u]|].
  - intros H N. apply (nearest_to_zero_spec l u b v H N).
  - intros H N. destruct (dv_kind d =? KIND_BINARY)%Z; inversion H; subst b.
    + apply (nearest_to_zero_spec (Fin 0) (Fin 1) _ v eq_refl N).
    + apply (nearest_to_zero_spec NInf PInf _ v eq_refl N).
Qed.

Lemma eff_dv_nodup dvs d : NoDup (map dv_id dvs) -> In d dvs -> eff_dv dvs (dv_id d) = Some d.
Proof.
  intros ND Hd. destruct (eff_dv dvs (dv_id d)) as [d'|] eqn:E.
  - destruct (eff_dv_in _ _ _ E) as [Hd' Ei]. f_equal.
    apply (NoDup_map_inj dv_id dvs ND); assumption.
  - exfalso. apply (proj1 (eff_dv_none dvs (dv_id d)) E d Hd). reflexivity.
Qed.

Definition fixed_in_bounds (dvs : list dvar) : Prop :=
  forall d v b, In d dvs -> dv_subst d = Some v -> dv_bound_of d = Some b -> in_bound b v.

Theorem reported_state_in_box : forall I x sol bs,
  box_of (i_dvs I) [] = Some bs -> inst_eval I x = Some sol ->
  exact_in_bounds (i_dvs I) x -> NoDup (map dv_id (i_dvs I)) -> i_deps I = [] ->
  fixed_in_bounds (i_dvs I) ->
  in_box (total (so_state sol)) bs /\
  (forall d, In d (i_dvs I) -> sget (so_state sol) (dv_id d) <> None) /\
  (forall i v, sget x i = Some v -> fixed_dv (i_dvs I) i = None -> sget (so_state sol) i = Some v) /\
  (forall f B, evaluate_bound f bs = Some B ->
     valid B /\ bmem (denote f (total (so_state sol))) B = true).
Proof.
  intros I x sol bs Hb Ev Ex ND Dp Fx.
  destruct (inst_eval_state I x sol Ev) as (s1 & E1 & K1 & K2 & K3).
  rewrite Dp, eval_deps_nil in E1. inversion E1; subst s1; clear E1.
  assert (IB : in_box (total (so_state sol)) bs).
  { intro i. unfold bget_d. rewrite (box_of_bget _ _ _ Hb i).
    destruct (eff_dv (i_dvs I) i) as [d|] eqn:Ed; [|reflexivity].
    destruct (dv_bound_of d) as [b|] eqn:B; [|reflexivity].
    cbn [option_map]. apply bmem_mkb.
    destruct (eff_dv_in _ _ _ Ed) as [Hd Ei]. unfold total.
    destruct (sget (so_state sol) i) as [v|] eqn:G2.
    - destruct (sget (insert_subst (i_dvs I) x) i) as [v1|] eqn:G1.
      + rewrite (K1 _ _ G1) in G2. inversion G2; subst v1; clear G2.
        rewrite sget_insert_subst in G1. destruct (fixed_dv (i_dvs I) i) as [d'|] eqn:Fd.
        * destruct (fixed_dv_some _ _ _ Fd) as (Hd' & Ei' & _).
          assert (d' = d) by (apply (NoDup_map_inj dv_id _ ND); congruence). subst d'.
          eapply Fx; eauto.
        * eapply Ex; eauto.
      + destruct (K3 i v G1 G2) as (d' & b' & Hd' & Ei' & B' & N).
        assert (d' = d) by (apply (NoDup_map_inj dv_id _ ND); congruence). subst d'.
        assert (b' = b) by congruence. subst b'. eapply ntz_in_bound; eauto.
    - exfalso. apply (K2 d Hd). rewrite Ei. exact G2. }
  split; [exact IB|]. split; [exact K2|]. split.
  - intros i v G Fd. apply K1. rewrite sget_insert_subst, Fd. exact G.
  - intros f B EB.
    apply (evaluate_bound_encloses f bs _ B (box_of_valid _ _ Hb) IB EB).
Qed.

(* the record of a constraint is its function at the reported state, when none of its variables
   has a fixed value (the state is read before the fixed values are inserted) *)
Theorem reported_state_consistent : forall I x sol c,
  inst_eval I x = Some sol -> i_deps I = [] -> In c (all_constrs I) ->
  (forall i, occurs (cfun c) i -> fixed_dv (i_dvs I) i = None) ->
  denote (cfun c) (total (so_state sol)) = cval c x.
Proof.
  intros I x sol c Ev Dp Hc NF.
  destruct (inst_eval_state I x sol Ev) as (s1 & E1 & K1 & _ & _).
  rewrite Dp, eval_deps_nil in E1. inversion E1; subst s1; clear E1.
  destruct (proj1 (inst_eval_succeeds_iff I x) (ex_intro _ sol Ev)) as (_ & _ & C1 & C2 & _).
  assert (C : covers x (cfun c)).
  { apply in_all_constrs in Hc. destruct Hc as [Hc|(r & Hr & Er)]; [apply C1; exact Hc|].
    destruct (C2 r Hr) as (c' & Ec' & C). assert (c' = c) by congruence. subst c'. exact C. }
  unfold cval, denote. apply it_val_local. intros i Ho. unfold total.
  destruct (sget x i) as [v|] eqn:G; [|exfalso; apply (C i Ho G)].
  rewrite (K1 i v); [reflexivity|]. rewrite sget_insert_subst, (NF i Ho). exact G.
Qed.

(* ------------------------------------------------------------------ *)
(* PART 3b — the tolerant theorem for LINEAR functions with the interval over the ORIGINAL box:
   the reported value lies in that interval widened by 1e-7 * (sum of |coefficients|). *)

Definition clip_lo (l : ext) (v : num) : num := match l with Fin q => qmax q v | _ => v end.
Definition clip_hi (u : ext) (v : num) : num := match u with Fin q => qmin q v | _ => v end.
(* nearest point of X *)
Definition proj (X : bound) (v : num) : num := clip_hi (upper X) (clip_lo (lower X) v).

Lemma proj_mem X v : valid X -> bmem (proj X v) X = true.
Proof.
  intro V. apply valid_inv in V. unfold proj, clip_hi, clip_lo, qmax, qmin, bmem.
  destruct X as [[|l| |] [|u| |]]; cbn [lower upper eleb andb] in *; try contradiction;
    repeat (match goal with |- context [if qleb ?a ?b then _ else _] =>
              is_var a; is_var b; destruct (qleb a b) eqn:? end; cbv iota);
    try reflexivity; qarith.
Qed.
Lemma proj_close X v a : valid X -> 0 <= a -> bmem v (bwiden a X) = true ->
  - a <= v - proj X v /\ v - proj X v <= a.
Proof.
  intros V A M. apply valid_inv in V. unfold proj, clip_hi, clip_lo, qmax, qmin, bmem in *.
  destruct X as [[|l| |] [|u| |]]; cbn [bwiden lower upper eadd eleb andb] in *; try contradiction;
    repeat (match goal with |- context [if qleb ?a ?b then _ else _] =>
              is_var a; is_var b; destruct (qleb a b) eqn:? end; cbv iota);
    split; qarith.
Qed.
Lemma bmem_near v v' r B : 0 <= r -> bmem v' B = true -> - r <= v - v' -> v - v' <= r ->
  bmem v (bwiden r B) = true.
Proof.
  intros R M H1 H2. unfold bmem in *.
  destruct B as [[|l| |] [|u| |]]; cbn [bwiden lower upper eadd eleb andb] in *;
    try discriminate; try reflexivity; qarith.
Qed.
Lemma bget_d_widen a bs i : bget_d (widen a bs) i = bwiden a (bget_d bs i).
Proof. unfold bget_d. rewrite bget_widen. destruct (bget bs i); reflexivity. Qed.

Fixpoint abs_sum (ts : list (N * num)) : num :=
  match ts with [] => 0 | (_, c) :: r => qabs c + abs_sum r end.

Lemma scaled_close c d a : - a <= d -> d <= a -> - (a * qabs c) <= c * d /\ c * d <= a * qabs c.
Proof.
  intros H1 H2. unfold qabs. destruct (qleb 0 c) eqn:E.
  - apply qleb_le in E. rewrite (Qcabs.Qcabs_pos c E). split; qarith.
  - apply qleb_gt in E. rewrite (Qcabs.Qcabs_neg c (Qclt_le_weak _ _ E)). split; qarith.
Qed.
Lemma valg_close (rho rho' : valuation) a ts :
  (forall i, In i (map fst ts) -> - a <= rho i - rho' i /\ rho i - rho' i <= a) ->
  - (a * abs_sum ts) <= valg rho ts - valg rho' ts /\ valg rho ts - valg rho' ts <= a * abs_sum ts.
Proof.
  induction ts as [|[i c] ts IH]; intro H; cbn [valg abs_sum].
  - split; qarith.
  - destruct IH as [I1 I2]; [intros j Hj; apply H; right; exact Hj|].
    destruct (H i (or_introl eq_refl)) as [D1 D2].
    destruct (scaled_close c (rho i - rho' i) a D1 D2) as [S1 S2].
    split; qarith.
Qed.

Theorem lin_value_in_widened_interval bs a x l B :
  valid_box bs -> 0 <= a -> covers x (FLin l) ->
  (forall i w, occurs (FLin l) i -> sget x i = Some w -> bmem w (bwiden a (bget_d bs i)) = true) ->
  evaluate_bound (FLin l) bs = Some B ->
  valid B /\ bmem (denote (FLin l) (total x)) (bwiden (a * abs_sum (l_terms l)) B) = true.
Proof.
  intros V A C Hx EB.
  set (rho' := fun i => proj (bget_d bs i) (total x i)).
  assert (IB : in_box rho' bs) by (intro i; apply proj_mem; apply valid_bget_d; exact V).
  destruct (evaluate_bound_encloses (FLin l) bs rho' B V IB EB) as [VB M]. split; [exact VB|].
  assert (D : forall rho, denote (FLin l) rho = valg rho (l_terms l) + l_const l).
  { intro rho. apply (lin_denote_eq l rho). }
  destruct (valg_close (total x) rho' a (l_terms l)) as [K1 K2].
  { intros i Hi. assert (Ho : occurs (FLin l) i) by (apply occurs_lin_terms; exact Hi).
    unfold rho'. unfold total at 1 3. destruct (sget x i) as [w|] eqn:G; [|exfalso; apply (C i Ho G)].
    replace (total x i) with w by (unfold total; rewrite G; reflexivity).
    apply proj_close; [apply valid_bget_d; exact V|exact A|apply Hx; assumption]. }
  assert (S : 0 <= abs_sum (l_terms l)).
  { clear. induction (l_terms l) as [|[i c] ts IH]; cbn [abs_sum]; [apply Qcle_refl|].
    pose proof (Qcabs.Qcabs_nonneg c) as P. unfold qabs. qarith. }
  assert (R : 0 <= a * abs_sum (l_terms l)) by qarith.
  apply (bmem_near _ (denote (FLin l) rho') _ B R M); rewrite !D.
  - replace (valg (total x) (l_terms l) + l_const l - (valg rho' (l_terms l) + l_const l))
      with (valg (total x) (l_terms l) - valg rho' (l_terms l)) by ring. exact K1.
  - replace (valg (total x) (l_terms l) + l_const l - (valg rho' (l_terms l) + l_const l))
      with (valg (total x) (l_terms l) - valg rho' (l_terms l)) by ring. exact K2.
Qed.

(* instance level: every accepted state (no exactness hypothesis), every active or removed LINEAR
   constraint, interval B over the ORIGINAL box *)
Theorem linear_value_in_widened_interval : forall I x sol bs c l B,
  box_of (i_dvs I) [] = Some bs -> inst_eval I x = Some sol -> In c (all_constrs I) ->
  c_fn c = Some (FLin l) -> evaluate_bound (FLin l) bs = Some B ->
  valid B /\ bmem (cval c x) (bwiden (tol7 * abs_sum (l_terms l)) B) = true.
Proof.
  intros I x sol bs c l B Hb Ev Hc Ef EB.
  destruct (proj1 (inst_eval_succeeds_iff I x) (ex_intro _ sol Ev)) as (_ & SB & C1 & C2 & _).
  assert (C : covers x (cfun c)).
  { apply in_all_constrs in Hc. destruct Hc as [Hc|(r & Hr & Er)]; [apply C1; exact Hc|].
    destruct (C2 r Hr) as (c' & Ec' & C). assert (c' = c) by congruence. subst c'. exact C. }
  unfold cval. unfold cfun in *. rewrite Ef in *. cbn [fn_or_zero] in *.
  apply (lin_value_in_widened_interval bs tol7 x l B (box_of_valid _ _ Hb)
           (Qclt_le_weak _ _ tol7_pos) C); [|exact EB].
  intros i w _ G. rewrite <- bget_d_widen. eapply accepted_in_widened_box; eauto.
Qed.
Theorem linear_objective_in_widened_interval : forall I x sol bs l B,
  box_of (i_dvs I) [] = Some bs -> inst_eval I x = Some sol ->
  i_obj I = Some (FLin l) -> evaluate_bound (FLin l) bs = Some B ->
  valid B /\ bmem (so_objective sol) (bwiden (tol7 * abs_sum (l_terms l)) B) = true.
Proof.
  intros I x sol bs l B Hb Ev Ef EB.
  destruct (proj1 (inst_eval_succeeds_iff I x) (ex_intro _ sol Ev)) as (_ & SB & _ & _ & _ & CO & _).
  rewrite (inst_eval_objective I x sol Ev (total x) (total_agrees x)).
  rewrite Ef in *. cbn [fn_or_zero] in *.
  apply (lin_value_in_widened_interval bs tol7 x l B (box_of_valid _ _ Hb)
           (Qclt_le_weak _ _ tol7_pos) CO); [|exact EB].
  intros i w _ G. rewrite <- bget_d_widen. eapply accepted_in_widened_box; eauto.
Qed.

(* ------------------------------------------------------------------ *)
(* "exactly in bound" is decidable: it is Instance::evaluate's own bound check with tolerance 0 *)
Lemma bcontains0_in_bound d b v : dv_bound_of d = Some b ->
  (Inst.bcontains b v 0 = true <-> in_bound b v).
Proof.
  intro H. destruct (dv_bound_of_shape d b H) as (Hl & Hu & _).
  rewrite (bcontains_meaning b v 0 Hl Hu), (in_bound_meaning d b v H).
  split; intros [H1 H2]; split; intros y E.
  - specialize (H1 y E). replace (y - 0) with y in H1 by ring. exact H1.
  - specialize (H2 y E). replace (y + 0) with y in H2 by ring. exact H2.
  - replace (y - 0) with y by ring. apply H1. exact E.
  - replace (y + 0) with y by ring. apply H2. exact E.
Qed.
Lemma check_bound_zero_exact dvs x : check_bound dvs x 0 = true -> exact_in_bounds dvs x.
Proof.
  intro H. apply check_bound_iff in H. destruct H as [_ SB].
  intros i v d b G Ed Bd. apply (bcontains0_in_bound d b v Bd).
  apply (SB i v (sget_In _ _ _ G) d b Ed Bd).
Qed.
Lemma exact_fn_exact dvs x f : exact_in_bounds dvs x -> fn_exact dvs x f.
Proof. intros H i _. apply H. Qed.

(* ------------------------------------------------------------------ *)
(* NON-VACUITY *)
Definition q12 : num := Q2Qc (1 # 2).
Definition q52 : num := Q2Qc (5 # 2).
Definition dv_ex (i : N) (k : Z) (b : option (ext * ext)) : dvar :=
  {| dv_id := i; dv_kind := k; dv_bound := b; dv_subst := None; dv_meta := [] |}.

(* x1 binary (no bound: [0,1]); x2 integer in [-2,3]; x3 continuous in [1/2, +inf) *)
Definition dvs_ex : list dvar :=
  [dv_ex 1 KIND_BINARY None;
   dv_ex 2 KIND_INTEGER (Some (Fin (qz (-2)), Fin (qz 3)));
   dv_ex 3 KIND_CONTINUOUS (Some (Fin q12, PInf))].
(* c10 (active, quadratic):  x2*x2 + x1*x2 - 10 <= 0 *)
Definition c10_ex : constr :=
  {| c_id := 10; c_eq := LE_ZERO;
     c_fn := Some (FQuad {| q_rows := [2; 1]%N; q_cols := [2; 2]%N; q_vals := [1; 1];
                            q_lin := Some {| l_terms := []; l_const := qz (-10) |} |});
     c_meta := [] |}.
(* c11 (active, linear):  x1 - 2*x3 <= 0    (upper end 1 - 2*(1/2) = 0: always satisfied) *)
Definition c11_ex : constr :=
  {| c_id := 11; c_eq := LE_ZERO;
     c_fn := Some (FLin {| l_terms := [(1%N, 1); (3%N, qz (-2))]; l_const := 0 |});
     c_meta := [] |}.
(* c12 (removed, linear):  x2 + 3 <= 0      (lower end -2 + 3 = 1 >= 1e-6: never feasible) *)
Definition c12_ex : constr :=
  {| c_id := 12; c_eq := LE_ZERO;
     c_fn := Some (FLin {| l_terms := [(2%N, 1)]; l_const := qz 3 |});
     c_meta := [] |}.
(* objective x1*x3 : unbounded above *)
Definition I_ex : instance :=
  {| i_sense := SENSE_MIN; i_obj := Some (FPoly [([1; 3]%N, 1)]); i_dvs := dvs_ex;
     i_cs := [c10_ex; c11_ex];
     i_rs := [{| r_c := Some c12_ex; r_reason := A "test"%string; r_params := L [] |}];
     i_deps := []; i_params := None; i_hints := L []; i_desc := L [] |}.
Definition x_ex : state := [(1%N, 1); (2%N, qz (-2)); (3%N, q52)].
Definition bs_ex : bounds :=
  [(3%N, {| lower := Fin q12; upper := PInf |});
   (2%N, {| lower := Fin (qz (-2)); upper := Fin (qz 3) |});
   (1%N, {| lower := Fin 0; upper := Fin 1 |})].

Example evaluated_values_in_bounds_nonvacuous :
  box_of (i_dvs I_ex) [] = Some bs_ex /\
  exact_in_bounds (i_dvs I_ex) x_ex /\
  NoDup (map dv_id (i_dvs I_ex)) /\ i_deps I_ex = [] /\ fixed_in_bounds (i_dvs I_ex) /\
  exists sol, inst_eval I_ex x_ex = Some sol /\
    (* the intervals *)
    evaluate_bound (cfun c10_ex) bs_ex = Some {| lower := Fin (qz (-12)); upper := Fin (qz 2) |} /\
    evaluate_bound (cfun c11_ex) bs_ex = Some {| lower := NInf; upper := Fin 0 |} /\
    evaluate_bound (cfun c12_ex) bs_ex = Some {| lower := Fin (qz 1); upper := Fin (qz 6) |} /\
    evaluate_bound (fn_or_zero (i_obj I_ex)) bs_ex = Some {| lower := Fin 0; upper := PInf |} /\
    (* the reported values, inside them *)
    map ev_id (so_evaluated sol) = [10; 11; 12]%N /\
    map ev_value (so_evaluated sol) = [qz (-8); qz (-4); qz 1] /\
    so_objective sol = q52 /\
    so_feasible_relaxed sol = true /\ so_feasible sol = false.
Proof.
  split; [vm_compute; reflexivity|].
  split; [apply check_bound_zero_exact; vm_compute; reflexivity|].
  split; [vm_compute; repeat constructor; cbn [In]; intuition discriminate|].
  split; [reflexivity|].
  split.
  { intros d v b [<-|[<-|[<-|[]]]] S; vm_compute in S; discriminate. }
  eexists. split; [vm_compute; reflexivity|].
  repeat split; vm_compute; reflexivity.
Qed.

(* the theorems applied to the example: c11 is always satisfied, c12 makes every in-bound state
   infeasible, the objective is >= 0 *)
Example decisions_nonvacuous : forall sol, inst_eval I_ex x_ex = Some sol ->
  cval c11_ex x_ex <= 0 /\ so_feasible sol = false /\ 0 <= so_objective sol.
Proof.
  intros sol Ev.
  destruct evaluated_values_in_bounds_nonvacuous as (Hb & Ex & _ & _ & _ & sol' & Ev' & B10 & B11 & B12 & Bo & _).
  split; [|split].
  - eapply (always_satisfied I_ex x_ex sol bs_ex c11_ex _ Hb Ev); [| |exact B11| |];
      [apply in_all_constrs; left; right; left; reflexivity|apply exact_fn_exact; exact Ex|
       reflexivity|reflexivity].
  - eapply (never_feasible I_ex x_ex sol bs_ex c12_ex _ Hb Ev); [| |exact B12|];
      [apply in_all_constrs; right; eexists; split; [left; reflexivity|reflexivity]|
       apply exact_fn_exact; exact Ex|vm_compute; reflexivity].
  - destruct (objective_in_bound I_ex x_ex sol bs_ex _ Hb Ev (exact_fn_exact _ _ _ Ex) Bo) as [_ M].
    apply bmem_meaning in M. destruct M as [M _]. cbn [lower eleb] in M. apply qleb_le. exact M.
Qed.

(* "lower B > 0" (the Infeasible verdict of the slack conversions) does NOT imply that
   Instance::evaluate reports an in-bound state infeasible: x1 + 1e-7 <= 0 over x1 in [0,1] has
   interval [1e-7, 1 + 1e-7], yet at x1 = 0 the record holds (1e-7 < 1e-6) and the solution is
   reported feasible.  Hence the margin 1e-6 in [never_feasible]. *)
Example never_needs_margin :
  let c := {| c_id := 1; c_eq := LE_ZERO;
              c_fn := Some (FLin {| l_terms := [(1%N, 1)]; l_const := tol7 |}); c_meta := [] |} in
  let J := {| i_sense := SENSE_MIN; i_obj := None; i_dvs := [dv_ex 1 KIND_BINARY None];
              i_cs := [c]; i_rs := []; i_deps := []; i_params := None;
              i_hints := L []; i_desc := L [] |} in
  let x := [(1%N, 0)] in
  exists bs B sol, box_of (i_dvs J) [] = Some bs /\ check_bound (i_dvs J) x 0 = true /\
    evaluate_bound (cfun c) bs = Some B /\ ext_gt0 (lower B) = true /\
    inst_eval J x = Some sol /\ so_feasible sol = true.
Proof.
  cbv zeta. eexists. eexists. eexists.
  split; [vm_compute; reflexivity|]. split; [vm_compute; reflexivity|].
  split; [vm_compute; reflexivity|]. split; [vm_compute; reflexivity|].
  split; vm_compute; reflexivity.
Qed.

(* the tolerant theorem is not vacuous either: x1 = -1e-7 is accepted although outside [0,1];
   the value of x1 - 2*x3 at (x1, x3) = (-1e-7, 1/2) lies in the interval over the widened box *)
Example widened_nonvacuous :
  let x := [(1%N, - tol7); (2%N, qz 3); (3%N, q12)] in
  exists sol B, inst_eval I_ex x = Some sol /\ check_bound (i_dvs I_ex) x 0 = false /\
    evaluate_bound (cfun c11_ex) (widen tol7 bs_ex) = Some B /\
    bmem (cval c11_ex x) B = true /\ upper B = Fin (1 + tol7 + qz (-2) * (q12 - tol7)).
Proof.
  cbv zeta. eexists. eexists.
  split; [vm_compute; reflexivity|]. split; [vm_compute; reflexivity|].
  split; [vm_compute; reflexivity|]. split; [vm_compute; reflexivity|].
  vm_compute. reflexivity.
Qed.

(* ... and the linear form: -x1 over x1 in [0,1] has interval [-1,0]; the accepted state
   x1 = -1e-7 gives the value 1e-7, outside [-1,0] but inside it widened by 1e-7 * |-1| *)
Definition lneg_ex : linear := {| l_terms := [(1%N, qz (-1))]; l_const := 0 |}.
Definition Bneg_ex : bound := {| lower := Fin (qz (-1)); upper := Fin 0 |}.
Example linear_widened_nonvacuous :
  let x := [(1%N, - tol7); (2%N, qz 3); (3%N, q12)] in
  check_bound (i_dvs I_ex) x tol7 = true /\
  evaluate_bound (FLin lneg_ex) bs_ex = Some Bneg_ex /\
  abs_sum (l_terms lneg_ex) = 1 /\
  denote (FLin lneg_ex) (total x) = tol7 /\
  bmem (denote (FLin lneg_ex) (total x)) Bneg_ex = false /\
  bmem (denote (FLin lneg_ex) (total x)) (bwiden (tol7 * abs_sum (l_terms lneg_ex)) Bneg_ex) = true.
Proof.
  cbv zeta. split; [vm_compute; reflexivity|]. split; [vm_compute; reflexivity|].
  split; [apply Qc_is_canon; vm_compute; reflexivity|].
  split; [apply Qc_is_canon; vm_compute; reflexivity|].
  split; vm_compute; reflexivity.
Qed.

Print Assumptions evaluated_values_in_bounds.
Print Assumptions constraint_value_in_bound.
Print Assumptions record_value_in_bound.
Print Assumptions objective_in_bound.
Print Assumptions always_satisfied.
Print Assumptions all_always_feasible.
Print Assumptions never_satisfied.
Print Assumptions never_feasible.
Print Assumptions evaluated_values_in_widened_bounds.
Print Assumptions always_satisfied_tolerant.
Print Assumptions linear_value_in_widened_interval.
Print Assumptions linear_objective_in_widened_interval.
Print Assumptions reported_state_in_box.
Print Assumptions reported_state_consistent.
Print Assumptions fn_eval_in_interval.
Print Assumptions evaluated_values_in_bounds_nonvacuous.
Print Assumptions decisions_nonvacuous.
Print Assumptions never_needs_margin.
Print Assumptions widened_nonvacuous.
Print Assumptions linear_widened_nonvacuous.
