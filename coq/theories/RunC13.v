(* RunC13.v — correspondence runner for C13. *)
Require Import Ommx.Num Ommx.Poly Ommx.Msg Ommx.Eval Ommx.Tree Ommx.Arith Ommx.Inst Ommx.Relax
        Ommx.RunC02 Ommx.RunC03 Ommx.RunC05 Ommx.RunC14 Ommx.Transform Ommx.RunTransform
        Ommx.Bound Ommx.RunC16 Ommx.Slack.
From Coq Require Import String.
Open Scope string_scope.

(* replace the function of constraint cid by its intended rational rendering *)
Definition override_fn (I : instance) (cid : N) (qf : option function) : instance :=
  match qf with
  | None => I
  | Some f =>
      set_dvs_cs I (i_dvs I)
        (map (fun c => if (c_id c =? cid)%N
                       then {| c_id := c_id c; c_eq := c_eq c; c_fn := Some f; c_meta := c_meta c |}
                       else c) (i_cs I))
  end.

(* coefficient-wise closeness (the SDK holds the nearest f64 of non-dyadic rationals) *)
Definition close_terms (a b : terms) : bool :=
  forallb (fun mc => qleb (qabs (snd mc)) (q2 (-40)))
          (merge ids_eqb never (sort_keys (a ++ scale_terms (- (1)) b)%list)).
Definition close_fn (a b : option function) : bool :=
  close_terms (fn_terms (fn_or_zero a)) (fn_terms (fn_or_zero b)).
Definition constr_close (a b : constr) : bool :=
  (c_id a =? c_id b)%N && (c_eq a =? c_eq b)%Z && close_fn (c_fn a) (c_fn b) && trees_eqb (c_meta a) (c_meta b).
Definition removed_close (a b : removed) : bool :=
  optb constr_close (r_c a) (r_c b) && tree_eqb (r_reason a) (r_reason b) && tree_eqb (r_params a) (r_params b).
Definition instance_close (a b : instance) : bool :=
  (i_sense a =? i_sense b)%Z && close_fn (i_obj a) (i_obj b) && list_eqb dvar_eqb (i_dvs a) (i_dvs b) &&
  list_eqb constr_close (i_cs a) (i_cs b) && list_eqb removed_close (i_rs a) (i_rs b) &&
  mset_eqb dep_eqb (i_deps a) (i_deps b).

Definition err_kind (r : tree) : string :=
  match r with L (A "err" :: A k :: _) => k | _ => "" end.

Definition e_slack_err (e : slack_err) : tree :=
  A (match e with
     | SNotFound => "constraint not found" | SNotInequality => "not an inequality" | SNoFunction => "no function"
     | SUnknownVariable => "unknown variable" | SContinuous => "continuous variable" | SInvalidBound => "invalid bound"
     | SContent => "content factor" | SInfeasible => "infeasible" | SRange => "slack range above the limit"
     | SPanic => "panic" end).

Definition judge_slack_err (e : slack_err) (I : instance) (res after : tree) : tree :=
  match d_instance after with
  | None => badresult "slack: instance shape"
  | Some J =>
      if negb (is_err res || (match e with SPanic => is_panic res | _ => false end))
      then disagree "the conversion must be rejected" (e_slack_err e)
      else if negb (Bool.eqb (String.eqb (err_kind res) "infeasible") (match e with SInfeasible => true | _ => false end))
      then disagree "an infeasibility error is returned exactly when the inequality can never hold" (e_slack_err e)
      else if negb (instance_eqb J I) then disagree "a rejected conversion must not modify the instance" (e_slack_err e)
      else agree ["slack"; "rejected";
                  match e with SInfeasible => "infeasible" | SRange => "range" | SContinuous => "continuous"
                               | SNotInequality => "not-inequality" | SNotFound => "not-found" | _ => "other" end]
  end.

Definition run_C13 (case : tree) : tree :=
  match case with
  | L [A "convert_slack"; L [i; cid; mx; qf]; L [res; after]] =>
      match d_instance i, d_N cid, d_N mx, d_opt d_qfunction qf with
      | Some I', Some cid', Some mx', Some qf' =>
          match convert_slack tiny_eps (override_fn I' cid' qf') cid' mx' with
          | inl e => judge_slack_err e I' res after
          | inr J =>
              match ok_payload res, d_instance after with
              | Some _, Some G =>
                  if instance_close G J
                  then agree ["slack"; "convert";
                              match i_rs J with [] => "slack-added" | _ => (if Nat.eqb (List.length (i_rs J)) (List.length (i_rs I')) then "slack-added" else "always-satisfied") end;
                              match qf' with None => "dyadic" | Some _ => "rational" end]
                  else disagree "instance after the conversion (slack variable kind / bounds / tag, new function f + s/a, equality kind; or the constraint moved unchanged)"
                                (e_instance_brief J)
              | None, _ => disagree "the conversion must succeed" (e_instance_brief J)
              | _, None => badresult "convert_slack: instance shape"
              end
          end
      | _, _, _, _ => badcase "convert_slack: input"
      end
  | L [A "add_slack"; L [i; cid; ub; qf]; L [res; after]] =>
      match d_instance i, d_N cid, d_N ub, d_opt d_qfunction qf with
      | Some I', Some cid', Some ub', Some qf' =>
          match add_slack tiny_eps (override_fn I' cid' qf') cid' ub' with
          | inl e => judge_slack_err e I' res after
          | inr (J, b) =>
              match ok_payload res, d_instance after with
              | Some bt, Some G =>
                  match d_opt d_ext bt with
                  | Some bs =>
                      if negb (optb (fun x y => match x, y with
                                                | Fin p, Fin q => qleb (qabs (p - q)) (q2 (-40) * (1 + qabs q))
                                                | _, _ => false end) bs b)
                      then disagree "reported coefficient b of the slack" (e_opt e_ext b)
                      else if instance_close G J
                      then agree ["slack"; "add"; match b with Some _ => "slack-added" | None => "always-satisfied" end;
                                  match qf' with None => "dyadic" | Some _ => "rational" end]
                      else disagree "instance after adding the slack" (e_instance_brief J)
                  | None => badresult "add_slack: result shape"
                  end
              | None, _ => disagree "adding the slack must succeed" (e_instance_brief J)
              | _, None => badresult "add_slack: instance shape"
              end
          end
      | _, _, _, _ => badcase "add_slack: input"
      end
  | _ => badcase "C13: unknown op"
  end.
