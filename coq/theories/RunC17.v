(* RunC17.v — correspondence runner for C17: decode an abstract model and a layout, render
   it (phase 1), and judge the instance the SDK loaded from that very text against
   [meaning M] and against the reader model run on the same text (phase 2). *)
Require Import Ommx.Num Ommx.Poly Ommx.Msg Ommx.Tree Ommx.Mps Ommx.MpsSpec.
From Coq Require Import String Ascii.
Open Scope string_scope.
Open Scope list_scope.

(* ------------------------------------------------------------------ *)
(* decoders: abstract models                                           *)

Definition d_rty (t : tree) : option rty :=
  match t with
  | A "N" => Some RN | A "E" => Some RE | A "L" => Some RL | A "G" => Some RG | _ => None
  end.
Definition d_kw (t : tree) : option bkw := match t with A s => kw_of s | _ => None end.
Definition d_srow (t : tree) : option srow :=
  match t with
  | L [n; ty; rhs; rg] =>
      do n' <- d_str n; do ty' <- d_rty ty; do rhs' <- d_opt d_num rhs; do rg' <- d_opt d_num rg;
      Some {| sr_name := n'; sr_ty := ty'; sr_rhs := rhs'; sr_range := rg' |}
  | _ => None
  end.
Definition d_scol (t : tree) : option scol :=
  match t with
  | L [n; i; cs] =>
      do n' <- d_str n; do i' <- d_bool i; do cs' <- d_list (d_pair d_str d_num) cs;
      Some {| sc_name := n'; sc_int := i'; sc_coefs := cs' |}
  | _ => None
  end.
Definition d_bstmt (t : tree) : option bstmt :=
  match t with
  | L [k; c; v] =>
      do k' <- d_kw k; do c' <- d_str c; do v' <- d_ext v;
      Some {| b_kw := k'; b_col := c'; b_val := v' |}
  | _ => None
  end.
Definition d_model (t : tree) : option lp_model :=
  match t with
  | L [n; s; o; oc; rows; cols; bs] =>
      do n' <- d_str n; do s' <- d_opt d_bool s; do o' <- d_str o; do oc' <- d_num oc;
      do rows' <- d_list d_srow rows; do cols' <- d_list d_scol cols; do bs' <- d_list d_bstmt bs;
      Some {| lp_name := n'; lp_sense := s'; lp_objrow := o'; lp_objconst := oc';
              lp_rows := rows'; lp_cols := cols'; lp_bounds := bs' |}
  | _ => None
  end.
Definition d_layout (t : tree) : option layout :=
  match t with
  | L [a; b; c; d; e] =>
      do a' <- d_bool a; do b' <- d_bool b; do c' <- d_bool c; do d' <- d_bool d; do e' <- d_bool e;
      Some {| ly_five := a'; ly_comments := b'; ly_blanks := c'; ly_inline := d'; ly_tabs := e' |}
  | _ => None
  end.

(* a fault: replace line number k of the rendered text *)
Definition d_fault (t : tree) : option (option (nat * string)) :=
  match t with
  | L [] => Some None
  | L [I k; A s] => Some (Some (Z.to_nat k, s))
  | L [I k; A s; A "restyle"] => Some (Some (Z.to_nat k, s))
  | _ => None
  end.
(* a replacement line that only respells one number (same value): judged like a valid text *)
Definition is_restyle (t : tree) : bool :=
  match t with L [_; _; A "restyle"] => true | _ => false end.
Fixpoint replace_nth (k : nat) (s : string) (l : list string) : list string :=
  match l, k with
  | [], _ => []
  | _ :: l', O => s :: l'
  | x :: l', S k' => x :: replace_nth k' s l'
  end.
Definition apply_fault (f : option (nat * string)) (l : list string) : list string :=
  match f with None => l | Some (k, s) => replace_nth k s l end.

(* ------------------------------------------------------------------ *)
(* decoders: instances in the harness format (conv.rs e_instance)       *)

Definition d_optfn (t : tree) : option function :=
  match t with L [] => Some FUnset | L [f] => d_function f | _ => None end.
Definition d_dvar (t : tree) : option dvar :=
  match t with
  | L [id; kind; b; _; name; _; _; _] =>
      do id' <- d_N id; do k' <- d_N kind; do b' <- d_opt (d_pair d_ext d_ext) b;
      do n' <- d_opt d_str name;
      Some {| dv_id := id'; dv_kind := k'; dv_bound := b'; dv_name := n' |}
  | _ => None
  end.
Definition d_cons (t : tree) : option cons :=
  match t with
  | L [id; eq; f; name; _; _; _] =>
      do id' <- d_N id; do eq' <- d_N eq; do f' <- d_optfn f; do n' <- d_opt d_str name;
      Some {| cn_id := id'; cn_eq := eq'; cn_fn := f'; cn_name := n' |}
  | _ => None
  end.
Definition d_descname (t : tree) : option (option string) :=
  match t with
  | L [] => Some None
  | L [L (n :: _)] => d_opt d_str n
  | _ => None
  end.
Definition d_inst (t : tree) : option inst :=
  match t with
  | L [sense; obj; dvs; cs; _; _; _; _; desc] =>
      do s' <- d_N sense; do o' <- d_optfn obj; do dvs' <- d_list d_dvar dvs;
      do cs' <- d_list d_cons cs; do n' <- d_descname desc;
      Some {| in_sense := s'; in_obj := o'; in_dvars := dvs'; in_cons := cs'; in_name := n' |}
  | _ => None
  end.

Definition e_lines (l : list string) : tree := L (map A l).
Definition d_lines (t : tree) : option (list string) := d_list d_str t.

(* ------------------------------------------------------------------ *)
(* comparing an instance with an abstract instance, by names           *)

Definition var_label (v : dvar) : string :=
  match dv_name v with Some n => n | None => VAR_PREFIX +++ print_N (dv_id v) end.
Definition cons_label (c : cons) : string :=
  match cn_name c with Some n => n | None => CONSTR_PREFIX +++ print_N (cn_id c) end.

Fixpoint nodupb (l : list N) : bool :=
  match l with [] => true | x :: l' => negb (mem x l') && nodupb l' end.
Fixpoint snodupb (l : list string) : bool :=
  match l with [] => true | x :: l' => negb (smem x l') && snodupb l' end.

(* a linear function as (terms, constant) *)
Definition lin_of (f : function) : option (list (N * num) * num) :=
  match f with
  | FConst c => Some ([], c)
  | FLin l => Some (l_terms l, l_const l)
  | _ => None
  end.

Fixpoint name_terms (tbl : list (N * string)) (ts : list (N * num)) : option (list (string * num)) :=
  match ts with
  | [] => Some []
  | (i, q) :: ts' =>
      match List.find (fun e => (fst e =? i)%N) tbl, name_terms tbl ts' with
      | Some e, Some r => Some ((snd e, q) :: r)
      | _, _ => None
      end
  end.

(* equality of two named linear forms: the difference merges to all-zero coefficients *)
Definition nterms_eqb (a b : list (string * num)) : bool :=
  forallb (fun kc => qeqb (snd kc) 0)
          (merge String.eqb never (a ++ map (fun kc => (fst kc, - snd kc)) b)).


Definition var_ok (I : inst) (a : avar) : bool :=
  match List.find (fun v => var_label v =? av_name a) (in_dvars I) with
  | None => false
  | Some v =>
      (dv_kind v =? kind_code (av_kind a))%N &&
      match dv_bound v with
      | Some (lo, up) => eeqb lo (av_lo a) && eeqb up (av_up a)
      | None => false
      end
  end.

(* a constraint of the instance as (label, is-equality, named terms, constant) *)
Definition view_cons (tbl : list (N * string)) (c : cons)
  : option (string * bool * list (string * num) * num) :=
  match lin_of (cn_fn c) with
  | None => None
  | Some (ts, k) =>
      match name_terms tbl ts with
      | None => None
      | Some nts =>
          if (cn_eq c =? 1)%N then Some (cons_label c, true, nts, k)
          else if (cn_eq c =? 2)%N then Some (cons_label c, false, nts, k)
          else None
      end
  end.
Fixpoint omap' {X Y} (f : X -> option Y) (l : list X) : option (list Y) :=
  match l with
  | [] => Some []
  | x :: l' => match f x, omap' f l' with Some y, Some ys => Some (y :: ys) | _, _ => None end
  end.

Definition body_eqb (v : string * bool * list (string * num) * num) (a : acons) : bool :=
  let '(_, eq, ts, k) := v in
  Bool.eqb eq (ac_eq a) && nterms_eqb ts (ac_terms a) && qeqb k (ac_const a).
Definition view_eqb (v w : string * bool * list (string * num) * num) : bool :=
  let '(_, eq, ts, k) := v in
  let '(_, eq', ts', k') := w in
  Bool.eqb eq eq' && nterms_eqb ts ts' && qeqb k k'.
Definition view_of_acons (a : acons) : string * bool * list (string * num) * num :=
  (ac_row a, ac_eq a, ac_terms a, ac_const a).

Definition count {X} (p : X -> bool) (l : list X) : nat := List.length (filter p l).

(* None = the instance is the abstract instance; Some clause = first difference *)
Definition match_spec (I : inst) (S : ainst) : option string :=
  let tbl := map (fun v => (dv_id v, var_label v)) (in_dvars I) in
  if negb ((in_sense I =? (if ai_max S then 2 else 1))%N) then Some "sense"
  else if negb (nodupb (map dv_id (in_dvars I))) then Some "decision variable ids are not distinct"
  else if negb (Nat.eqb (List.length (in_dvars I)) (List.length (ai_vars S)))
  then Some "number of decision variables"
  else if negb (snodupb (map var_label (in_dvars I))) then Some "decision variable names are not distinct"
  else if negb (forallb (var_ok I) (ai_vars S)) then Some "kind or bound of a column"
  else
    match lin_of (in_obj I) with
    | None => Some "objective is not linear"
    | Some (ts, k) =>
        match name_terms tbl ts with
        | None => Some "objective uses an undefined id"
        | Some nts =>
            if negb (nterms_eqb nts (ai_obj S)) then Some "objective coefficients"
            else if negb (qeqb k (ai_objconst S)) then Some "objective constant"
            else
              match omap' (view_cons tbl) (in_cons I) with
              | None => Some "constraint: not linear, undefined id or unspecified equality"
              | Some vs =>
                  let ws := map view_of_acons (ai_cons S) in
                  if negb (nodupb (map cn_id (in_cons I))) then Some "constraint ids are not distinct"
                  else if negb (snodupb (map cons_label (in_cons I)))
                  then Some "constraint names are not distinct"
                  else if negb (Nat.eqb (List.length vs) (List.length ws)) then Some "number of constraints"
                  else if negb (forallb (fun w => Nat.eqb (count (view_eqb w) vs) (count (view_eqb w) ws)) ws)
                  then Some "constraints (as a multiset of normalised rows)"
                  else if negb (forallb (fun a =>
                         (* the constraint carrying the row's name is one of the row's constraints *)
                         match List.find (fun v => fst (fst (fst v)) =? ac_row a) vs with
                         | None => false
                         | Some v => existsb (fun a' => (ac_row a' =? ac_row a) && body_eqb v a') (ai_cons S)
                         end) (ai_cons S))
                  then Some "constraint under the row's name"
                  else if negb (match in_name I with
                                | Some n => n =? ai_name S
                                | None => sempty (ai_name S) end)
                  then Some "problem name"
                  else None
              end
        end
    end.

(* ------------------------------------------------------------------ *)
(* errors                                                               *)

Definition err_tree (e : perr) : tree :=
  match e with
  | EUnknownRowName s => L [A "err"; A "UnknownRowName"; A s]
  | EInvalidRowType s => L [A "err"; A "InvalidRowType"; A s]
  | EInvalidBoundType s => L [A "err"; A "InvalidBoundType"; A s]
  | EInvalidHeader s => L [A "err"; A "InvalidHeader"; A s]
  | EInvalidMarker s => L [A "err"; A "InvalidMarker"; A s]
  | EInvalidObjSense s => L [A "err"; A "InvalidObjSense"; A s]
  | EParseFloat s => L [A "err"; A "ParseFloat"; A s]
  | EPanic s => L [A "panic"; A s]
  | EOutOfModel s => L [A "out-of-model"; A s]
  end.
Definition err_kind (e : perr) : string :=
  match err_tree e with L (_ :: A k :: _) => k | _ => "?" end.

Definition sdk_matches_err (e : perr) (r : tree) : bool :=
  match e, r with
  | EParseFloat _, L [A "err"; A "ParseFloat"; _] => true
  | EPanic _, _ => is_panic r
  | EOutOfModel _, _ => false
  | _, L [A "err"; A k; A p] =>
      match err_tree e with L [_; A k'; A p'] => (k =? k') && (p =? p') | _ => false end
  | _, _ => false
  end.

(* ------------------------------------------------------------------ *)
(* phase 1: the text                                                    *)

Definition text_of_case (t : tree) : option (list string) :=
  match t with
  | L (m :: ly :: f :: _) =>
      do m' <- d_model m; do ly' <- d_layout ly; do f' <- d_fault f;
      Some (apply_fault f' (render ly' m'))
  | _ => None
  end.
Definition render_C17 (t : tree) : tree :=
  match text_of_case t with Some l => e_lines l | None => badcase "C17 render: input" end.

(* ------------------------------------------------------------------ *)
(* phase 2: the verdict                                                 *)

Definition judge_load (M : lp_model) (faulty : bool) (lines : list string) (r : tree) : tree :=
  match load_lines lines with
  | Err (EOutOfModel s) => badcase ("out of model: " +++ s)
  | Err e =>
      if negb faulty then badcase ("reader model rejects a rendered model: " +++ err_kind e)
      else if sdk_matches_err e r then agree ["err"; err_kind e]
      else disagree ("the text must be rejected: " +++ err_kind e) (err_tree e)
  | Ok Im =>
      if faulty then
        (* the fault did not make the text ill-formed for the model: compare instances loosely *)
        match ok_payload r with
        | Some _ => agree ["fault-harmless"]
        | None => disagree "a text the reader model accepts is rejected" (A "ok")
        end
      else
        match match_spec Im (meaning M) with
        | Some why => badcase ("reader model differs from meaning M: " +++ why)
        | None =>
            match ok_payload r with
            | None => disagree "a well-formed text must load" (A "ok")
            | Some p =>
                match d_inst p with
                | None => badresult "mps_load: result shape"
                | Some Is =>
                    match match_spec Is (meaning M) with
                    | Some why => disagree why (A "see meaning M")
                    | None => agree ["ok"]
                    end
                end
            end
        end
  end.

Definition run_C17 (case : tree) : tree :=
  match case with
  | L [A "mps_load"; L [lines; mode]; r] => badcase "C17: the case carries no model"
  | L [A "c17_load"; L [m; ly; f; lines; mode]; r] =>
      match d_model m, d_layout ly, d_fault f, d_lines lines with
      | Some M, Some ly', Some f', Some ls =>
          (* the text the SDK consumed is the text render produced (with the fault applied) *)
          if negb (forallb (fun ab => fst ab =? snd ab) (combine (apply_fault f' (render ly' M)) ls)
                   && Nat.eqb (List.length ls) (List.length (apply_fault f' (render ly' M))))
          then badcase "C17: the lines are not render layout M"
          else judge_load M (match f' with Some _ => negb (is_restyle f) | None => false end) ls r
      | _, _, _, _ => badcase "C17: input"
      end
  | _ => badcase "C17: unknown op"
  end.

(* ---- the comparators' equality of linear forms is semantic equality ---- *)
Lemma valg_negmap {K} (kv : K -> num) (b : list (K * num)) :
  valg kv (map (fun kc => (fst kc, - snd kc)) b) = - valg kv b.
Proof.
  induction b as [|[k c] b IH]; cbn [map valg fst snd]; [ring|]. rewrite IH. ring.
Qed.

Theorem nterms_eqb_sound : forall a b, nterms_eqb a b = true ->
  forall kv : string -> num, valg kv a = valg kv b.
Proof.
  intros a b H kv. unfold nterms_eqb in H.
  assert (Z : valg kv (merge String.eqb never (a ++ map (fun kc => (fst kc, - snd kc)) b)) = 0).
  { apply valg_all_zero. apply Forall_forall. intros kc Hin.
    rewrite forallb_forall in H. apply qeqb_eq. apply H. exact Hin. }
  rewrite (merge_val_exact String.eqb String.eqb_eq kv never _ never_exact) in Z.
  rewrite valg_app, valg_negmap in Z.
  transitivity (valg kv a + - valg kv b + valg kv b); [ring|]. rewrite Z. ring.
Qed.

