(* SubstProofs.v — C04: substitution is composition; the dependency pass is sound, fuel-independent
   and all-or-nothing. *)
Require Import Ommx.Num Ommx.Poly Ommx.Msg Ommx.Eval Ommx.Tree Ommx.Arith Ommx.ArithProofs Ommx.Inst
        Ommx.InstProofs Ommx.Transform Ommx.TransformProofs Ommx.Subst.
From Coq Require Import String Permutation.
Close Scope string_scope.
Open Scope list_scope.
Open Scope Qc_scope.

Lemma mono_val_ext rho rho' m : (forall i, rho i = rho' i) -> mono_val rho m = mono_val rho' m.
Proof. intro E. induction m as [|i m IH]; cbn [mono_val]; [reflexivity|]. rewrite IH, E. reflexivity. Qed.
Lemma val_ext rho rho' (t : terms) : (forall i, rho i = rho' i) -> val rho t = val rho' t.
Proof.
  intro E. induction t as [|[m c] t IH]; [reflexivity|].
  rewrite !val_cons, IH, (mono_val_ext rho rho' m E). reflexivity.
Qed.

Section SubstSound.
  Variable tiny : num -> bool.
  Hypothesis TE : tiny_exact tiny.
  Variable R : repl.
  Hypothesis RW : forall i r, lookup i R = Some r -> fwf r.

  (* the simultaneous substitution: each replaced variable takes the value of its replacement *)
  Definition sigma (rho : valuation) : valuation :=
    fun i => match lookup i R with Some r => denote r rho | None => rho i end.

  Lemma subst_mono_sound : forall ids v v', fwf v -> subst_mono tiny ids R v = Some v' ->
    fwf v' /\ forall rho, denote v' rho = denote v rho * mono_val (sigma rho) ids.
  Proof.
    induction ids as [|i ids IH]; intros v v' W H; cbn [subst_mono] in H.
    - inversion H; subst. split; [exact W|]. intro rho. cbn [mono_val]. ring.
    - destruct (fn_mul tiny v (match lookup i R with Some r => r | None => FLin (lin_single i 1) end)) as [w|] eqn:E;
        [|discriminate].
      assert (Wr : fwf (match lookup i R with Some r => r | None => FLin (lin_single i 1) end)).
      { destruct (lookup i R) as [r|] eqn:Lk; [eapply RW; exact Lk|exact Logic.I]. }
      pose proof (fn_mul_wf tiny _ _ _ W Wr E) as Ww.
      destruct (IH _ _ Ww H) as [W' D]. split; [exact W'|].
      intro rho. rewrite D, (fn_mul_sound tiny TE _ _ _ E rho). cbn [mono_val]. unfold sigma at 2.
      destruct (lookup i R) as [r|].
      + ring.
      + change (denote (FLin (lin_single i 1)) rho) with (val rho (lin_terms (lin_single i 1))).
        rewrite (V_lin_single rho). ring.
  Qed.

  Lemma subst_terms_sound : forall t out out', fwf out -> subst_terms tiny t R out = Some out' ->
    fwf out' /\ forall rho, denote out' rho = denote out rho + val (sigma rho) t.
  Proof.
    induction t as [|[ids c] t IH]; intros out out' W H; cbn [subst_terms] in H.
    - inversion H; subst. split; [exact W|]. intro rho. rewrite val_nil. ring.
    - destruct (subst_mono tiny ids R (FConst c)) as [v|] eqn:M; [|discriminate].
      destruct (fn_add tiny out v) as [o|] eqn:A; [|discriminate].
      assert (Wc : fwf (FConst c)) by exact Logic.I.
      destruct (subst_mono_sound _ _ _ Wc M) as [Wv Dv].
      pose proof (fn_add_wf tiny _ _ _ W Wv A) as Wo.
      destruct (IH _ _ Wo H) as [W' D]. split; [exact W'|].
      intro rho. rewrite D, (fn_add_sound tiny TE _ _ _ W A rho), Dv, val_cons.
      change (denote (FConst c) rho) with (val rho [([], c)]). rewrite val_cons, val_nil. cbn [mono_val]. ring.
  Qed.

  (* value at every assignment = the original evaluated with each replaced variable set to the
     value of its replacement at that assignment (replacements may mention replaced variables) *)
  Theorem fn_substitute_sound f g : fn_substitute tiny f R = Some g ->
    forall rho, denote g rho = denote f (sigma rho).
  Proof.
    unfold fn_substitute. case_eq R.
    - intros ER H; inversion H; subst. intro rho. unfold denote. apply val_ext.
      intro i. unfold sigma. rewrite ER. reflexivity.
    - intros r0 R' ER. rewrite <- ER. intro H. assert (W0 : fwf (FConst 0)) by exact Logic.I.
      destruct (subst_terms_sound _ _ _ W0 H) as [_ D].
      intro rho. rewrite D. change (denote (FConst 0) rho) with (val rho [([], 0)]). rewrite val_cons, val_nil.
      rewrite <- (fn_iter_val f (sigma rho)).
      assert (E : val (sigma rho) (match f with
                                   | FUnset => [] | FConst c => [([], c)] | FLin l => lin_iter l
                                   | FQuad q => quad_iter q | FPoly p => poly_iter p end)
                  = val (sigma rho) (fn_iter f)) by reflexivity.
      rewrite E. cbn [mono_val]. ring.
  Qed.
End SubstSound.

(* ---------------- dependent variables ---------------- *)
Definition sext (s s' : state) : Prop := forall i v, sget s i = Some v -> sget s' i = Some v.
Lemma sext_refl s : sext s s. Proof. intros i v H; exact H. Qed.
Lemma sext_trans a b c : sext a b -> sext b c -> sext a c.
Proof. intros H1 H2 i v H. auto. Qed.
Lemma sext_sset s d v : sget s d = None -> sext s (sset s d v).
Proof.
  intros Hf i w H. rewrite sget_sset. destruct (i =? d)%N eqn:E; [apply N.eqb_eq in E; subst; congruence|exact H].
Qed.

(* evaluation only reads the state: it is monotone under extension *)
Lemma lin_eval_loop_mono s s' : sext s s' -> forall ts sum used r,
  lin_eval_loop ts s sum used = Some r -> lin_eval_loop ts s' sum used = Some r.
Proof.
  intros X. induction ts as [|[i c] ts IH]; intros sum used r H; cbn [lin_eval_loop] in *; [exact H|].
  destruct (sget s i) as [x|] eqn:G; [|discriminate]. rewrite (X _ _ G). apply IH. exact H.
Qed.
Lemma quad_eval_loop_mono s s' : sext s s' -> forall z sum used r,
  quad_eval_loop z s sum used = Some r -> quad_eval_loop z s' sum used = Some r.
Proof.
  intros X. induction z as [|[[i j] x] z IH]; intros sum used r H; cbn [quad_eval_loop] in *; [exact H|].
  destruct (sget s i) as [u|] eqn:Gi; [|discriminate].
  destruct (sget s j) as [w|] eqn:Gj; [|discriminate].
  rewrite (X _ _ Gi), (X _ _ Gj). apply IH. exact H.
Qed.
Lemma mono_eval_loop_mono s s' : sext s s' -> forall ids v used r,
  mono_eval_loop ids s v used = Some r -> mono_eval_loop ids s' v used = Some r.
Proof.
  intros X. induction ids as [|i ids IH]; intros v used r H; cbn [mono_eval_loop] in *; [exact H|].
  destruct (sget s i) as [x|] eqn:G; [|discriminate]. rewrite (X _ _ G). apply IH. exact H.
Qed.
Lemma poly_eval_loop_mono s s' : sext s s' -> forall p sum used r,
  poly_eval_loop p s sum used = Some r -> poly_eval_loop p s' sum used = Some r.
Proof.
  intros X. induction p as [|[m c] p IH]; intros sum used r H; cbn [poly_eval_loop] in *; [exact H|].
  destruct (mono_eval_loop m s c used) as [[w u]|] eqn:M; [|discriminate].
  rewrite (mono_eval_loop_mono s s' X _ _ _ _ M). apply IH. exact H.
Qed.
Theorem fn_eval_mono f s s' r : sext s s' -> fn_eval f s = Some r -> fn_eval f s' = Some r.
Proof.
  intros X. destruct f as [|c|l|q|p]; cbn [fn_eval]; try (intro H; exact H).
  - apply lin_eval_loop_mono. exact X.
  - unfold quad_eval.
    destruct (match q_lin q with Some l => lin_eval l s | None => Some (0, []) end) as [[sum used]|] eqn:L; [|discriminate].
    assert (L' : match q_lin q with Some l => lin_eval l s' | None => Some (0, []) end = Some (sum, used)).
    { destruct (q_lin q) as [l|]; [apply (lin_eval_loop_mono s s' X); exact L|exact L]. }
    rewrite L'. apply quad_eval_loop_mono. exact X.
  - apply poly_eval_loop_mono. exact X.
Qed.

Definition dkeys (b : list (N * function)) : list N := map fst b.
(* every listed dependency holds its defining value in the state *)
Definition solved (done : list (N * function)) (s : state) : Prop :=
  forall d f, In (d, f) done -> exists v ids, sget s d = Some v /\ fn_eval f s = Some (v, ids).

Lemma solved_ext done s s' : solved done s -> sext s s' -> solved done s'.
Proof.
  intros H X d f Hin. destruct (H d f Hin) as (v & ids & G & E).
  exists v, ids. split; [apply X; exact G|eapply fn_eval_mono; eauto].
Qed.

Lemma NoDup_app_r {X} (a b : list X) : NoDup (a ++ b) -> NoDup b.
Proof. induction a as [|x a IH]; cbn [app]; [auto|]. intro H. inversion H; subst. apply IH. assumption. Qed.

(* one pass *)
Lemma deps_round_spec : forall b s failed done s' failed',
  NoDup (dkeys b) -> (forall d, In d (dkeys b) -> sget s d = None) -> solved done s ->
  deps_round b s failed = (s', failed') ->
  sext s s' /\
  exists done' rest, failed' = failed ++ rest /\ solved (done ++ done') s' /\
    Permutation b (done' ++ rest) /\
    (forall i, sget s' i <> None -> sget s i <> None \/ In i (dkeys done')).
Proof.
  induction b as [|[d f] b IH]; intros s failed done s' failed' ND FR SV H; cbn [deps_round] in H.
  - inversion H; subst. split; [apply sext_refl|]. exists [], []. rewrite !app_nil_r.
    repeat split; auto.
  - inversion ND as [|? ? Hn ND']; subst.
    destruct (fn_eval f s) as [[v ids]|] eqn:E.
    + assert (Fd : sget s d = None) by (apply FR; left; reflexivity).
      pose proof (sext_sset s d v Fd) as X.
      destruct (IH (sset s d v) failed (done ++ [(d, f)]) s' failed' ND') as (X' & done' & rest & Hf & Hs & Hp & Hdom); auto.
      * intros d' Hd'. rewrite sget_sset. destruct (d' =? d)%N eqn:Ed; [apply N.eqb_eq in Ed; subst; contradiction|].
        apply FR. right. exact Hd'.
      * intros d' f' Hin. apply in_app_or in Hin. destruct Hin as [Hin|[Eq|[]]].
        -- eapply solved_ext; eauto.
        -- inversion Eq; subst. exists v, ids. split; [rewrite sget_sset, N.eqb_refl; reflexivity|].
           eapply fn_eval_mono; eauto.
      * split; [eapply sext_trans; eauto|]. exists ((d, f) :: done'), rest.
        split; [exact Hf|]. split; [rewrite <- app_assoc in Hs; exact Hs|]. split.
        -- cbn [app]. constructor. exact Hp.
        -- intros i Hi. destruct (Hdom i Hi) as [Hs0|Hd0].
           ++ rewrite sget_sset in Hs0. destruct (i =? d)%N eqn:Ei.
              ** apply N.eqb_eq in Ei. subst. right. left. reflexivity.
              ** left. exact Hs0.
           ++ right. right. exact Hd0.
    + destruct (IH s (failed ++ [(d, f)]) done s' failed' ND') as (X' & done' & rest & Hf & Hs & Hp & Hdom); auto.
      * intros d' Hd'. apply FR. right. exact Hd'.
      * split; [exact X'|]. exists done', ((d, f) :: rest).
        split; [rewrite Hf, <- app_assoc; reflexivity|]. split; [exact Hs|]. split.
        -- apply Permutation_cons_app. exact Hp.
        -- exact Hdom.
Qed.

Lemma perm_dkeys a b : Permutation a b -> Permutation (dkeys a) (dkeys b).
Proof. apply Permutation_map. Qed.

(* the retry loop: on success the final state extends the initial one and every dependency of
   the bucket holds its defining value *)
Lemma eval_deps_fuel_spec : forall fuel bucket last s done s',
  NoDup (dkeys bucket) -> (forall d, In d (dkeys bucket) -> sget s d = None) -> solved done s ->
  eval_deps_fuel fuel bucket last s = Some s' ->
  sext s s' /\ solved (done ++ bucket) s'.
Proof.
  induction fuel as [|fuel IH]; intros bucket last s done s' ND FR SV H; cbn [eval_deps_fuel] in H; [discriminate|].
  destruct (deps_round (rev bucket) s []) as [s1 failed] eqn:Rd.
  assert (NDr : NoDup (dkeys (rev bucket))).
  { eapply Permutation_NoDup; [apply perm_dkeys; apply Permutation_rev|exact ND]. }
  assert (FRr : forall d, In d (dkeys (rev bucket)) -> sget s d = None).
  { intros d Hd. apply FR. eapply Permutation_in; [apply Permutation_sym; apply perm_dkeys; apply Permutation_rev|exact Hd]. }
  destruct (deps_round_spec _ _ _ _ _ _ NDr FRr SV Rd) as (X & done' & rest & Hf & Hs & Hp & Hdom).
  cbn [app] in Hf. subst failed.
  assert (Pb : Permutation bucket (done' ++ rest)).
  { eapply perm_trans; [apply Permutation_rev|exact Hp]. }
  destruct rest as [|r0 rest].
  - inversion H; subst. split; [exact X|].
    rewrite app_nil_r in Pb.
    intros d f Hin. apply in_app_or in Hin. apply Hs. apply in_or_app.
    destruct Hin as [Hin|Hin]; [left; exact Hin|right; eapply Permutation_in; [exact Pb|exact Hin]].
  - destruct (Nat.eqb last (List.length (r0 :: rest))); [discriminate|].
    assert (NDk : NoDup (dkeys (done' ++ r0 :: rest))).
    { eapply Permutation_NoDup; [apply perm_dkeys; exact Pb|exact ND]. }
    unfold dkeys in NDk. rewrite map_app in NDk.
    assert (NDrest : NoDup (dkeys (r0 :: rest))) by (eapply NoDup_app_r; exact NDk).
    assert (FRrest : forall d, In d (dkeys (r0 :: rest)) -> sget s1 d = None).
    { intros d Hd. destruct (sget s1 d) as [v|] eqn:G; [|reflexivity]. exfalso.
      destruct (Hdom d) as [Hs0|Hd0]; [congruence| |].
      - apply Hs0. apply FR. eapply Permutation_in; [apply Permutation_sym; apply perm_dkeys; exact Pb|].
        unfold dkeys. rewrite map_app. apply in_or_app. right. exact Hd.
      - (* d is both among the solved keys and among the remaining ones: contradicts NoDup *)
        clear - NDk Hd Hd0. unfold dkeys in *.
        induction (map fst done') as [|x l IHl]; [destruct Hd0|].
        cbn [app] in NDk. inversion NDk as [|? ? Hn ND']; subst.
        destruct Hd0 as [->|Hd0]; [apply Hn; apply in_or_app; right; exact Hd|apply IHl; assumption]. }
    destruct (IH _ _ _ (done ++ done') _ NDrest FRrest Hs H) as (X2 & S2).
    split; [eapply sext_trans; eauto|].
    intros d f Hin. apply S2. apply in_app_or in Hin. rewrite <- app_assoc. apply in_or_app.
    destruct Hin as [Hin|Hin]; [left; exact Hin|right].
    eapply Permutation_in; [exact Pb|exact Hin].
Qed.

(* C04_deps_sound *)
Theorem eval_deps_sound deps s s' :
  NoDup (dkeys deps) -> (forall d, In d (dkeys deps) -> sget s d = None) ->
  eval_deps deps s = Some s' ->
  sext s s' /\ solved deps s'.
Proof.
  intros ND FR H. unfold eval_deps in H.
  assert (SV : solved [] s) by (intros d f []).
  destruct (eval_deps_fuel_spec _ _ _ _ [] _ ND FR SV H) as [X S]. split; [exact X|exact S].
Qed.

(* the number of failures never grows in a pass *)
Lemma deps_round_length : forall b s failed s' failed',
  deps_round b s failed = (s', failed') ->
  (List.length failed' <= List.length failed + List.length b)%nat.
Proof.
  induction b as [|[d f] b IH]; intros s failed s' failed' H; cbn [deps_round] in H.
  - inversion H; subst. cbn. lia.
  - destruct (fn_eval f s) as [[v ids]|]; apply IH in H; cbn [List.length] in *; [lia|].
    rewrite app_length in H. cbn in H. lia.
Qed.

(* C04_deps_terminates: the explicit fuel is never what stops the loop — any two budgets that are
   at least the bucket size give the same answer, so a None result is the stall branch
   ("Cannot evaluate any dependent variables"), never exhaustion *)
Theorem eval_deps_fuel_irrelevant : forall n m bucket s,
  (List.length bucket <= n)%nat -> (List.length bucket <= m)%nat ->
  eval_deps_fuel (S n) bucket (List.length bucket) s = eval_deps_fuel (S m) bucket (List.length bucket) s.
Proof.
  induction n as [n IHn] using lt_wf_ind. intros m bucket s Hn Hm.
  cbn [eval_deps_fuel].
  destruct (deps_round (rev bucket) s []) as [s1 failed] eqn:Rd.
  pose proof (deps_round_length _ _ _ _ _ Rd) as Hl. cbn [List.length] in Hl. rewrite rev_length in Hl.
  destruct failed as [|r0 failed]; [reflexivity|].
  destruct (Nat.eqb (List.length bucket) (List.length (r0 :: failed))) eqn:E; [reflexivity|].
  apply Nat.eqb_neq in E.
  assert (Hlt : (List.length (r0 :: failed) < List.length bucket)%nat) by lia.
  destruct n as [|n']; [lia|]. destruct m as [|m']; [lia|].
  apply (IHn n'); lia.
Qed.
