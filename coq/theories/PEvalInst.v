(* PEvalInst.v — Constraint / RemovedConstraint / Instance::partial_evaluate (evaluate.rs:282-288,
   338-343, 417-441). *)
Require Import Ommx.Num Ommx.Poly Ommx.Msg Ommx.Eval Ommx.Tree Ommx.Arith Ommx.PEval Ommx.Inst Ommx.Transform.

Section InstPE.
  Variable tiny : num -> bool.

  Definition set_subst (v : dvar) (x : num) : dvar :=
    {| dv_id := dv_id v; dv_kind := dv_kind v; dv_bound := dv_bound v; dv_subst := Some x; dv_meta := dv_meta v |}.

  (* an absent function means the zero constant: nothing to do, no ids *)
  Definition constr_pe (c : constr) (s : state) : option (constr * list N) :=
    match c_fn c with
    | None => Some (c, [])
    | Some f =>
        match fn_pe tiny f s with
        | Some (f', u) => Some ({| c_id := c_id c; c_eq := c_eq c; c_fn := Some f'; c_meta := c_meta c |}, u)
        | None => None
        end
    end.
  Fixpoint constrs_pe_u (cs : list constr) (s : state) : option (list constr * list N) :=
    match cs with
    | [] => Some ([], [])
    | c :: cs' =>
        match constr_pe c s, constrs_pe_u cs' s with
        | Some (c', u), Some (r, ur) => Some (c' :: r, u ++ ur)
        | _, _ => None
        end
    end.
  Fixpoint removed_pe_u (rs : list removed) (s : state) : option (list removed * list N) :=
    match rs with
    | [] => Some ([], [])
    | r :: rs' =>
        match r_c r with
        | None => None             (* "RemovedConstraint does not contain constraint" *)
        | Some c =>
            match constr_pe c s, removed_pe_u rs' s with
            | Some (c', u), Some (rest, ur) =>
                Some ({| r_c := Some c'; r_reason := r_reason r; r_params := r_params r |} :: rest, u ++ ur)
            | _, _ => None
            end
        end
    end.
  Fixpoint deps_pe_u (ds : list (N * function)) (s : state) : option (list (N * function) * list N) :=
    match ds with
    | [] => Some ([], [])
    | (d, f) :: ds' =>
        match fn_pe tiny f s, deps_pe_u ds' s with
        | Some (f', u), Some (rest, ur) => Some ((d, f') :: rest, u ++ ur)
        | _, _ => None
        end
    end.

  (* every defined variable present in the state records its value; then objective, constraints,
     removed constraints, dependency functions *)
  Definition inst_pe (I : instance) (s : state) : option (instance * list N) :=
    let dvs := map (fun v => match sget s (dv_id v) with Some x => set_subst v x | None => v end) (i_dvs I) in
    match (match i_obj I with
           | None => Some (None, [])
           | Some f => match fn_pe tiny f s with Some (f', u) => Some (Some f', u) | None => None end
           end),
          constrs_pe_u (i_cs I) s, removed_pe_u (i_rs I) s, deps_pe_u (i_deps I) s with
    | Some (o, u0), Some (cs, u1), Some (rs, u2), Some (ds, u3) =>
        Some ({| i_sense := i_sense I; i_obj := o; i_dvs := dvs; i_cs := cs; i_rs := rs; i_deps := ds;
                 i_params := i_params I; i_hints := i_hints I; i_desc := i_desc I |},
              u0 ++ u1 ++ u2 ++ u3)
    | _, _, _, _ => None
    end.
End InstPE.
