(* PEvalInstProofs.v — C03 at instance level: objective, per-constraint values and both
   feasibility flags of the partially evaluated instance at the remaining state equal those of the
   original at the combined state. *)
Require Import Ommx.Num Ommx.Poly Ommx.Msg Ommx.Eval Ommx.Tree Ommx.Arith Ommx.PEval Ommx.PEvalProofs
        Ommx.Inst Ommx.InstProofs Ommx.Transform Ommx.PEvalInst.
From Coq Require Import String.
Close Scope string_scope.
Open Scope list_scope.
Open Scope Qc_scope.

Section InstPEProofs.
  Variable tiny : num -> bool.
  Hypothesis TE : tiny_exact tiny.
  Variables s1 s2 : state.
  Hypothesis Dj : sdisjoint s1 s2.

  (* same record up to the used-id list: id, equality, value, metadata, removal reason *)
  Definition same_evaluated (a b : evaluated) : Prop :=
    ev_id a = ev_id b /\ ev_eq a = ev_eq b /\ ev_value a = ev_value b /\ ev_meta a = ev_meta b /\
    ev_removed a = ev_removed b.

  Lemma fn_or_zero_pe o o' u : (match o with
                                | None => Some (None, [])
                                | Some f => match fn_pe tiny f s1 with Some (f', u) => Some (Some f', u) | None => None end
                                end) = Some (o', u) ->
    forall v ids w ids', fn_eval (fn_or_zero o') s2 = Some (v, ids) ->
                         fn_eval (fn_or_zero o) (s1 ++ s2) = Some (w, ids') -> v = w.
  Proof.
    destruct o as [f|].
    - destruct (fn_pe tiny f s1) as [[f' u']|] eqn:P; [|discriminate].
      intro H; inversion H; subst. cbn [fn_or_zero]. intros v ids w ids' E1 E2.
      eapply (pe_then_eval tiny TE); eauto.
    - intro H; inversion H; subst. cbn [fn_or_zero fn_eval]. intros v ids w ids' E1 E2. congruence.
  Qed.

  Lemma constr_pe_eval c c' u e1 e2 : constr_pe tiny c s1 = Some (c', u) ->
    constr_eval c' s2 = Some e1 -> constr_eval c (s1 ++ s2) = Some e2 -> same_evaluated e1 e2.
  Proof.
    unfold constr_pe, constr_eval. destruct (c_fn c) as [f|] eqn:Fc.
    - destruct (fn_pe tiny f s1) as [[f' u']|] eqn:P; [|discriminate].
      intro H; inversion H; subst; clear H. cbn [c_fn c_id c_eq c_meta fn_or_zero].
      destruct (fn_eval f' s2) as [[v ids]|] eqn:E1; [|discriminate].
      destruct (fn_eval f (s1 ++ s2)) as [[w ids']|] eqn:E2; [|discriminate].
      intros H1 H2; inversion H1; inversion H2; subst. unfold same_evaluated; cbn.
      repeat split; auto. eapply (pe_then_eval tiny TE); eauto.
    - intro H; inversion H; subst; clear H. rewrite Fc. cbn [fn_or_zero fn_eval].
      intros H1 H2; inversion H1; inversion H2; subst. unfold same_evaluated; cbn. repeat split; auto.
  Qed.

  Lemma same_evaluated_feasible a b : same_evaluated a b -> is_feasible a tol6 = is_feasible b tol6.
  Proof. intros (_ & E & V & _). unfold is_feasible. rewrite E, V. reflexivity. Qed.

  (* the two constraint loops in lock step *)
  Lemma eval_loop_pe : forall cs cs' u flag acc1 acc2 f1 r1 f2 r2,
    constrs_pe_u tiny cs s1 = Some (cs', u) -> Forall2 same_evaluated acc1 acc2 ->
    eval_loop constr_eval cs' s2 flag acc1 = Some (f1, r1) ->
    eval_loop constr_eval cs (s1 ++ s2) flag acc2 = Some (f2, r2) ->
    f1 = f2 /\ Forall2 same_evaluated r1 r2.
  Proof.
    induction cs as [|c cs IH]; intros cs' u flag acc1 acc2 f1 r1 f2 r2 P A E1 E2; cbn [constrs_pe_u] in P.
    - inversion P; subst. cbn [eval_loop] in *. inversion E1; inversion E2; subst. auto.
    - destruct (constr_pe tiny c s1) as [[c' uc]|] eqn:Pc; [|discriminate].
      destruct (constrs_pe_u tiny cs s1) as [[r ur]|] eqn:Pr; [|discriminate].
      inversion P; subst; clear P. cbn [eval_loop] in E1, E2.
      destruct (constr_eval c' s2) as [e1|] eqn:Ev1; [|discriminate].
      destruct (constr_eval c (s1 ++ s2)) as [e2|] eqn:Ev2; [|discriminate].
      pose proof (constr_pe_eval _ _ _ _ _ Pc Ev1 Ev2) as Se.
      assert (A' : Forall2 same_evaluated (acc1 ++ [e1]) (acc2 ++ [e2])).
      { apply Forall2_app; [exact A|constructor; [exact Se|constructor]]. }
      destruct flag.
      + rewrite (same_evaluated_feasible _ _ Se) in E1.
        destruct (is_feasible e2 tol6) as [b|]; [|discriminate].
        eapply IH; eauto.
      + eapply IH; eauto.
  Qed.
  Lemma eval_loop_pe_removed : forall rs rs' u flag acc1 acc2 f1 r1 f2 r2,
    removed_pe_u tiny rs s1 = Some (rs', u) -> Forall2 same_evaluated acc1 acc2 ->
    eval_loop removed_eval rs' s2 flag acc1 = Some (f1, r1) ->
    eval_loop removed_eval rs (s1 ++ s2) flag acc2 = Some (f2, r2) ->
    f1 = f2 /\ Forall2 same_evaluated r1 r2.
  Proof.
    induction rs as [|r rs IH]; intros rs' u flag acc1 acc2 f1 r1 f2 r2 P A E1 E2; cbn [removed_pe_u] in P.
    - inversion P; subst. cbn [eval_loop] in *. inversion E1; inversion E2; subst. auto.
    - destruct (r_c r) as [c|] eqn:Rc; [|discriminate].
      destruct (constr_pe tiny c s1) as [[c' uc]|] eqn:Pc; [|discriminate].
      destruct (removed_pe_u tiny rs s1) as [[rest ur]|] eqn:Pr; [|discriminate].
      inversion P; subst; clear P. cbn [eval_loop] in E1, E2.
      unfold removed_eval at 1 in E1. cbn [r_c r_reason r_params] in E1.
      unfold removed_eval at 1 in E2. rewrite Rc in E2.
      destruct (constr_eval c' s2) as [e1|] eqn:Ev1; [|discriminate].
      destruct (constr_eval c (s1 ++ s2)) as [e2|] eqn:Ev2; [|discriminate].
      pose proof (constr_pe_eval _ _ _ _ _ Pc Ev1 Ev2) as Se.
      set (e1' := {| ev_id := ev_id e1; ev_eq := ev_eq e1; ev_value := ev_value e1; ev_used := ev_used e1;
                     ev_meta := ev_meta e1; ev_removed := Some (r_reason r, r_params r) |}) in *.
      set (e2' := {| ev_id := ev_id e2; ev_eq := ev_eq e2; ev_value := ev_value e2; ev_used := ev_used e2;
                     ev_meta := ev_meta e2; ev_removed := Some (r_reason r, r_params r) |}) in *.
      assert (Se' : same_evaluated e1' e2').
      { destruct Se as (S1 & S2 & S3 & S4 & _). unfold same_evaluated, e1', e2'; cbn. repeat split; auto. }
      assert (A' : Forall2 same_evaluated (acc1 ++ [e1']) (acc2 ++ [e2'])).
      { apply Forall2_app; [exact A|constructor; [exact Se'|constructor]]. }
      destruct flag.
      + rewrite (same_evaluated_feasible _ _ Se') in E1.
        destruct (is_feasible e2' tol6) as [b|]; [|discriminate].
        eapply IH; eauto.
      + eapply IH; eauto.
  Qed.

  (* Fixing s1 in the instance and evaluating the remainder at s2 gives the same objective, the
     same per-constraint values (with ids, equality kinds, metadata, removal reasons) and the same
     two feasibility flags as evaluating the original at s1 u s2 *)
  Theorem inst_pe_commutes I J u m1 m2 :
    inst_pe tiny I s1 = Some (J, u) ->
    inst_eval J s2 = Some m1 -> inst_eval I (s1 ++ s2) = Some m2 ->
    so_objective m1 = so_objective m2 /\
    Forall2 same_evaluated (so_evaluated m1) (so_evaluated m2) /\
    so_feasible_relaxed m1 = so_feasible_relaxed m2 /\ so_feasible m1 = so_feasible m2.
  Proof.
    unfold inst_pe.
    destruct (match i_obj I with
              | None => Some (None, [])
              | Some f => match fn_pe tiny f s1 with Some (f', u) => Some (Some f', u) | None => None end
              end) as [[o u0]|] eqn:Po; [|discriminate].
    destruct (constrs_pe_u tiny (i_cs I) s1) as [[cs u1]|] eqn:Pc; [|discriminate].
    destruct (removed_pe_u tiny (i_rs I) s1) as [[rs u2]|] eqn:Pr; [|discriminate].
    destruct (deps_pe_u tiny (i_deps I) s1) as [[ds u3]|] eqn:Pd; [|discriminate].
    intro H; inversion H; subst J u; clear H.
    unfold inst_eval; cbn [i_dvs i_cs i_rs i_obj i_deps].
    destruct (negb (check_bound _ s2 tol7)); [discriminate|].
    destruct (negb (check_bound (i_dvs I) (s1 ++ s2) tol7)); [intros _ H; discriminate|].
    destruct (eval_loop constr_eval cs s2 true []) as [[fr1 ev1]|] eqn:L1; [|discriminate].
    destruct (eval_loop removed_eval rs s2 fr1 ev1) as [[fe1 ev1']|] eqn:L1'; [|discriminate].
    destruct (fn_eval (fn_or_zero o) s2) as [[ob1 i1]|] eqn:O1; [|discriminate].
    destruct (eval_deps ds _) as [t1|]; [|discriminate].
    destruct (fill_vacant _ t1) as [t1'|]; [|discriminate].
    intro H1; inversion H1; subst m1; clear H1.
    destruct (eval_loop constr_eval (i_cs I) (s1 ++ s2) true []) as [[fr2 ev2]|] eqn:L2; [|discriminate].
    destruct (eval_loop removed_eval (i_rs I) (s1 ++ s2) fr2 ev2) as [[fe2 ev2']|] eqn:L2'; [|discriminate].
    destruct (fn_eval (fn_or_zero (i_obj I)) (s1 ++ s2)) as [[ob2 i2]|] eqn:O2; [|discriminate].
    destruct (eval_deps (i_deps I) _) as [t2|]; [|discriminate].
    destruct (fill_vacant (i_dvs I) t2) as [t2'|]; [|discriminate].
    intro H2; inversion H2; subst m2; clear H2.
    cbn [so_objective so_evaluated so_feasible_relaxed so_feasible].
    destruct (eval_loop_pe _ _ _ _ _ _ _ _ _ _ Pc (Forall2_nil _) L1 L2) as [Efr Fa].
    subst fr2.
    destruct (eval_loop_pe_removed _ _ _ _ _ _ _ _ _ _ Pr Fa L1' L2') as [Efe Fr].
    split; [eapply fn_or_zero_pe; eauto|]. split; [exact Fr|]. split; [reflexivity|exact Efe].
  Qed.
End InstPEProofs.
