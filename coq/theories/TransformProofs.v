(* TransformProofs.v — theorems for as_minimization (C15), the penalty methods (C09) and
   with_parameters (C10). *)
Require Import Ommx.Num Ommx.Poly Ommx.Msg Ommx.Eval Ommx.Tree Ommx.Arith Ommx.ArithProofs Ommx.PEval
        Ommx.Inst Ommx.Transform.
From Coq Require Import String.
Close Scope string_scope.
Open Scope list_scope.
Open Scope Qc_scope.

(* ---------------- well-formedness is preserved by the operators ---------------- *)
Section WF.
  Variable tiny : num -> bool.

  Lemma keys_zip3_swap_nodup (m : tlist (N * N)) :
    NoDup (keys m) ->
    NoDup (keys (zip3 (map (fun kc => snd (fst kc)) m) (map (fun kc => fst (fst kc)) m) (map snd m))).
  Proof.
    intro H.
    assert (E : keys (zip3 (map (fun kc => snd (fst kc)) m) (map (fun kc => fst (fst kc)) m) (map snd m))
                = map (fun k : N * N => (snd k, fst k)) (keys m)).
    { clear H. induction m as [|[[i j] x] m IH]; cbn [map zip3 keys fst snd]; [reflexivity|].
      unfold keys in IH. rewrite IH. reflexivity. }
    rewrite E. apply FinFun.Injective_map_NoDup; [|exact H].
    intros [a b] [c d] Hs. cbn [fst snd] in Hs. inversion Hs. reflexivity.
  Qed.

  Lemma qwf_quad_from_iter l o : qwf (set_lin (quad_from_iter l) o).
  Proof.
    unfold qwf, q_entries_cr, set_lin, quad_from_iter; cbn [q_rows q_cols q_vals].
    apply keys_zip3_swap_nodup. exact (merge_nodup pair_eqb pair_eqb_spec (fun _ => 0) never _).
  Qed.
  Lemma qwf_set_lin q o : qwf q -> qwf (set_lin q o).
  Proof. unfold qwf, q_entries_cr, set_lin; cbn [q_rows q_cols q_vals]. auto. Qed.
  Lemma qwf_lin_mul a b : qwf (lin_mul tiny a b).
  Proof.
    unfold lin_mul. set (q := quad_from_iter _).
    change (qwf (set_lin q (Some (lin_sub_c (lin_add tiny (lin_scale a (l_const b)) (lin_scale b (l_const a)))
                                           (l_const b * l_const a))))).
    apply qwf_quad_from_iter.
  Qed.
  Lemma qwf_quad_scale q k : qwf q -> qwf (quad_scale q k).
  Proof.
    unfold quad_scale. destruct (qeqb k 0).
    - intros _. unfold qwf, q_entries_cr, quad_zero; cbn. constructor.
    - unfold qwf, q_entries_cr; cbn [q_rows q_cols q_vals]. rewrite keys_zip3_map. auto.
  Qed.

  Lemma fn_add_wf f g h : fwf f -> fwf g -> fn_add tiny f g = Some h -> fwf h.
  Proof.
    intros Wf Wg E.
    destruct f as [|a|la|qa|pa], g as [|b|lb|qb|pb]; cbn [fn_add] in E; try discriminate;
      inversion E; subst h; cbn [fwf] in *; auto;
      try (unfold quad_add_c, quad_add_lin; apply qwf_set_lin; assumption).
    unfold quad_add. apply qwf_quad_from_iter.
  Qed.
  Lemma fn_mul_wf f g h : fwf f -> fwf g -> fn_mul tiny f g = Some h -> fwf h.
  Proof.
    intros Wf Wg E.
    destruct f as [|a|la|qa|pa], g as [|b|lb|qb|pb]; cbn [fn_mul] in E; try discriminate;
      inversion E; subst h; cbn [fwf] in *; auto;
      try (apply qwf_quad_scale; assumption).
    apply qwf_lin_mul.
  Qed.
End WF.

Definition cwf (c : constr) : Prop := fwf (fn_or_zero (c_fn c)).

(* ---------------- as_minimization_problem (C15) ---------------- *)
Section AsMin.
  Variable tiny : num -> bool.
  Hypothesis TE : tiny_exact tiny.

  Theorem as_min_already I : i_sense I = SENSE_MIN -> as_min tiny I = Some I.
  Proof. unfold as_min. intros ->. reflexivity. Qed.

  Theorem as_min_spec I I' : as_min tiny I = Some I' ->
    i_sense I' = SENSE_MIN /\
    i_dvs I' = i_dvs I /\ i_cs I' = i_cs I /\ i_rs I' = i_rs I /\ i_deps I' = i_deps I /\
    (i_sense I = SENSE_MIN -> I' = I) /\
    (i_sense I <> SENSE_MIN ->
       forall rho, denote (fn_or_zero (i_obj I')) rho = - denote (fn_or_zero (i_obj I)) rho).
  Proof.
    unfold as_min. destruct (i_sense I =? SENSE_MIN)%Z eqn:E.
    - apply Z.eqb_eq in E. intro H; inversion H; subst. repeat split; auto. intro N. contradiction.
    - apply Z.eqb_neq in E. destruct (fn_neg tiny (fn_or_zero (i_obj I))) as [f|] eqn:Ng; [|discriminate].
      intro H; inversion H; subst; clear H. cbn [with_obj_sense i_sense i_dvs i_cs i_rs i_deps i_obj fn_or_zero].
      repeat split; auto; [intro; contradiction|].
      intros _ rho. apply (fn_neg_sound tiny TE _ _ Ng).
  Qed.

  Theorem as_min_idempotent I I' : as_min tiny I = Some I' -> as_min tiny I' = Some I'.
  Proof. intro H. apply as_min_already. apply (as_min_spec _ _ H). Qed.

  (* both problems rank all assignments identically *)
  Theorem as_min_ranking I I' : as_min tiny I = Some I' -> i_sense I = SENSE_MAX ->
    forall rho rho',
      denote (fn_or_zero (i_obj I)) rho' <= denote (fn_or_zero (i_obj I)) rho <->
      denote (fn_or_zero (i_obj I')) rho <= denote (fn_or_zero (i_obj I')) rho'.
  Proof.
    intros H Smax rho rho'. destruct (as_min_spec _ _ H) as (_ & _ & _ & _ & _ & _ & Hn).
    assert (Ne : i_sense I <> SENSE_MIN) by (rewrite Smax; discriminate).
    rewrite !(Hn Ne). split; intro L.
    - apply Qcopp_le_compat. exact L.
    - apply Qcopp_le_compat in L. rewrite !Qcopp_involutive in L. exact L.
  Qed.
End AsMin.

(* ---------------- penalty methods (C09) ---------------- *)
Section PenaltyProofs.
  Variable tiny : num -> bool.
  Hypothesis TE : tiny_exact tiny.
  Variable rho : valuation.

  Lemma penalty_term_sound k f t : penalty_term tiny k f = Some t ->
    denote t rho = rho k * (denote f rho * denote f rho).
  Proof.
    unfold penalty_term. destruct (fn_mul tiny f (FLin (lin_single k 1))) as [pf|] eqn:E1; [|discriminate].
    intro E2. rewrite (fn_mul_sound tiny TE _ _ _ E2 rho), (fn_mul_sound tiny TE _ _ _ E1 rho).
    unfold denote at 2; cbn [fn_terms]. rewrite (V_lin_single rho). ring.
  Qed.
  Lemma penalty_term_wf k f t : fwf f -> penalty_term tiny k f = Some t -> fwf t.
  Proof.
    unfold penalty_term. intros W. destruct (fn_mul tiny f (FLin (lin_single k 1))) as [pf|] eqn:E1; [|discriminate].
    intro E2. eapply fn_mul_wf; [| |exact E2]; [|exact W].
    eapply fn_mul_wf; [| |exact E1]; [exact W|exact Logic.I].
  Qed.

  Fixpoint pen_sum (cs : list constr) (k : N) : num :=
    match cs with
    | [] => 0
    | c :: cs' =>
        rho k * (denote (fn_or_zero (c_fn c)) rho * denote (fn_or_zero (c_fn c)) rho) + pen_sum cs' (k + 1)
    end.
  Fixpoint sq_sum (cs : list constr) : num :=
    match cs with
    | [] => 0
    | c :: cs' => denote (fn_or_zero (c_fn c)) rho * denote (fn_or_zero (c_fn c)) rho + sq_sum cs'
    end.

  Definition removed_by (reason : tree) (params : N -> tree) (cs : list constr) (k : N) : list removed :=
    (fix go cs k := match cs with
                    | [] => []
                    | c :: cs' => {| r_c := Some c; r_reason := reason; r_params := params k |} :: go cs' (k + 1)%N
                    end) cs k.

  Lemma penalty_loop_spec : forall cs k obj ps rs obj' ps' rs',
    fwf obj -> Forall cwf cs ->
    penalty_loop tiny cs k obj ps rs = Some (obj', ps', rs') ->
    denote obj' rho = denote obj rho + pen_sum cs k /\
    map r_c rs' = map r_c rs ++ map Some cs /\
    map pa_id ps' = map pa_id ps ++ map (fun j => (k + N.of_nat j)%N) (seq 0 (List.length cs)) /\
    map (fun p => nth 1 (pa_meta p) (L [])) ps'
      = map (fun p => nth 1 (pa_meta p) (L [])) ps ++ map (fun c => L [I (Z.of_N (c_id c))]) cs.
  Proof.
    induction cs as [|c cs IH]; intros k obj ps rs obj' ps' rs' Wo Wc H; cbn [penalty_loop] in H.
    - inversion H; subst. cbn [pen_sum map List.length seq]. rewrite !app_nil_r. split; [ring|auto].
    - inversion Wc as [|? ? Wc1 Wc2]; subst.
      destruct (penalty_term tiny k (fn_or_zero (c_fn c))) as [t|] eqn:Et; [|discriminate].
      destruct (fn_add tiny obj t) as [o|] eqn:Ea; [|discriminate].
      apply IH in H; [|eapply fn_add_wf; [exact Wo|eapply penalty_term_wf; [exact Wc1|exact Et]|exact Ea]|exact Wc2].
      destruct H as (Hd & Hr & Hp & Hs).
      split; [|split; [|split]].
      + rewrite Hd, (fn_add_sound tiny TE _ _ _ Wo Ea rho), (penalty_term_sound _ _ _ Et).
        cbn [pen_sum]. ring.
      + rewrite Hr, map_app. cbn [map r_c]. rewrite <- app_assoc. reflexivity.
      + rewrite Hp, map_app. cbn [map pa_id List.length seq]. rewrite <- app_assoc. cbn [app].
        f_equal. f_equal; [f_equal; lia|].
        rewrite <- seq_shift, map_map. apply map_ext. intro j. lia.
      + rewrite Hs, map_app. cbn [map pa_meta nth]. rewrite <- app_assoc. reflexivity.
  Qed.

  Lemma uniform_loop_spec : forall cs qs rs qs' rs',
    fwf qs -> Forall cwf cs ->
    uniform_loop tiny cs qs rs = Some (qs', rs') ->
    denote qs' rho = denote qs rho + sq_sum cs /\ fwf qs' /\
    map r_c rs' = map r_c rs ++ map Some cs.
  Proof.
    induction cs as [|c cs IH]; intros qs rs qs' rs' Wq Wc H; cbn [uniform_loop] in H.
    - inversion H; subst. cbn [sq_sum map]. rewrite app_nil_r. split; [ring|auto].
    - inversion Wc as [|? ? Wc1 Wc2]; subst.
      destruct (fn_mul tiny (fn_or_zero (c_fn c)) (fn_or_zero (c_fn c))) as [ff|] eqn:Em; [|discriminate].
      destruct (fn_add tiny qs ff) as [q|] eqn:Ea; [|discriminate].
      assert (Wff : fwf ff) by (eapply fn_mul_wf; [| |exact Em]; exact Wc1).
      apply IH in H; [|eapply fn_add_wf; [exact Wq|exact Wff|exact Ea]|exact Wc2].
      destruct H as (Hd & Hw & Hr). split; [|split; [exact Hw|]].
      + rewrite Hd, (fn_add_sound tiny TE _ _ _ Wq Ea rho), (fn_mul_sound tiny TE _ _ _ Em rho).
        cbn [sq_sum]. ring.
      + rewrite Hr, map_app. cbn [map r_c]. rewrite <- app_assoc. reflexivity.
  Qed.
End PenaltyProofs.

Lemma next_id_above dvs v : In v dvs -> (dv_id v < next_id dvs)%N.
Proof.
  intro Hin. unfold next_id. destruct dvs as [|d dvs]; [destruct Hin|].
  assert (G : forall l m, (m <= fold_left (fun m v => N.max m (dv_id v)) l m)%N /\
                         (forall x, In x l -> (dv_id x <= fold_left (fun m v => N.max m (dv_id v)) l m)%N)).
  { induction l as [|y l IH]; intro m; cbn [fold_left].
    - split; [lia|intros x []].
    - destruct (IH (N.max m (dv_id y))) as [H1 H2]. split; [lia|].
      intros x [->|Hx]; [lia|apply H2; exact Hx]. }
  destruct (G (d :: dvs) 0%N) as [_ H2]. specialize (H2 v Hin). lia.
Qed.

Section PenaltyTheorems.
  Variable tiny : num -> bool.
  Hypothesis TE : tiny_exact tiny.

  Definition iwf (I : instance) : Prop := fwf (fn_or_zero (i_obj I)) /\ Forall cwf (i_cs I).

  Theorem penalty_spec I P : iwf I -> penalty tiny I = Some P ->
    p_cs P = [] /\
    map r_c (p_rs P) = map r_c (i_rs I) ++ map Some (i_cs I) /\
    map pa_id (p_params P) = map (fun j => (next_id (i_dvs I) + N.of_nat j)%N) (seq 0 (List.length (i_cs I))) /\
    map (fun p => nth 1 (pa_meta p) (L [])) (p_params P) = map (fun c => L [Tree.I (Z.of_N (c_id c))]) (i_cs I) /\
    p_dvs P = i_dvs I /\ p_sense P = i_sense I /\ p_deps P = i_deps I /\ p_hints P = i_hints I /\
    forall rho, denote (fn_or_zero (p_obj P)) rho
                = denote (fn_or_zero (i_obj I)) rho + pen_sum rho (i_cs I) (next_id (i_dvs I)).
  Proof.
    intros [Wo Wc]. unfold penalty.
    destruct (penalty_loop tiny (i_cs I) (next_id (i_dvs I)) (fn_or_zero (i_obj I)) [] (i_rs I))
      as [[[obj ps] rs]|] eqn:E; [|discriminate].
    intro H; inversion H; subst; clear H. cbn.
    split; [reflexivity|].
    assert (S := fun rho => penalty_loop_spec tiny TE rho _ _ _ _ _ _ _ _ Wo Wc E).
    destruct (S (fun _ => 0)) as (_ & Hr & Hp & Hs). cbn [map app] in Hp, Hs.
    repeat split; auto. intro rho. apply (S rho).
  Qed.

  (* fresh parameter ids: pairwise distinct and different from every decision-variable id *)
  Theorem penalty_fresh I P : iwf I -> penalty tiny I = Some P ->
    NoDup (map pa_id (p_params P)) /\
    forall p v, In p (p_params P) -> In v (i_dvs I) -> pa_id p <> dv_id v.
  Proof.
    intros W H. destruct (penalty_spec _ _ W H) as (_ & _ & Hp & _).
    split.
    - rewrite Hp. apply FinFun.Injective_map_NoDup; [|apply seq_NoDup].
      intros a b E. lia.
    - intros p v Hp' Hv. apply (in_map pa_id) in Hp'. rewrite Hp in Hp'.
      apply in_map_iff in Hp'. destruct Hp' as (j & <- & _).
      pose proof (next_id_above _ _ Hv). lia.
  Qed.

  Theorem uniform_penalty_spec I P : iwf I -> uniform_penalty tiny I = Some P ->
    p_cs P = [] /\
    map r_c (p_rs P) = map r_c (i_rs I) ++ map Some (i_cs I) /\
    map pa_id (p_params P) = [next_id (i_dvs I)] /\
    p_dvs P = i_dvs I /\ p_sense P = i_sense I /\ p_deps P = i_deps I /\ p_hints P = i_hints I /\
    forall rho, denote (fn_or_zero (p_obj P)) rho
                = denote (fn_or_zero (i_obj I)) rho + rho (next_id (i_dvs I)) * sq_sum rho (i_cs I).
  Proof.
    intros [Wo Wc]. unfold uniform_penalty.
    destruct (uniform_loop tiny (i_cs I) (FConst 0) (i_rs I)) as [[qs rs]|] eqn:E; [|discriminate].
    destruct (fn_mul tiny qs (FLin (lin_single (next_id (i_dvs I)) 1))) as [t|] eqn:Em; [|discriminate].
    destruct (fn_add tiny (fn_or_zero (i_obj I)) t) as [obj|] eqn:Ea; [|discriminate].
    intro H; inversion H; subst; clear H. cbn.
    assert (W0 : fwf (FConst 0)) by exact Logic.I.
    assert (S := fun rho => uniform_loop_spec tiny TE rho (i_cs I) (FConst 0) (i_rs I) qs rs W0 Wc E).
    destruct (S (fun _ => 0)) as (_ & _ & Hr).
    repeat split; auto. intro rho.
    rewrite (fn_add_sound tiny TE _ _ _ Wo Ea rho), (fn_mul_sound tiny TE _ _ _ Em rho).
    destruct (S rho) as (Hd & _ & _). rewrite Hd.
    unfold denote at 3; cbn [fn_terms]. rewrite (V_lin_single rho).
    unfold denote at 2; cbn [fn_terms]. rewrite val_cons, val_nil. cbn [mono_val]. ring.
  Qed.
End PenaltyTheorems.

(* ---------------- with_parameters (C10) ---------------- *)
Section WithParams.
  Variable tiny : num -> bool.
  Hypothesis TE : tiny_exact tiny.

  Lemma opt_fn_pe_sound o theta o' rho : agrees rho theta -> opt_fn_pe tiny o theta = Some o' ->
    denote (fn_or_zero o') rho = denote (fn_or_zero o) rho.
  Proof.
    intros Ag. unfold opt_fn_pe. destruct o as [f|].
    - destruct (fn_pe tiny f theta) as [[f' u]|] eqn:E; [|discriminate].
      intro H; inversion H; subst. cbn [fn_or_zero]. apply (fn_pe_sound tiny TE rho theta Ag _ _ _ E).
    - intro H; inversion H; subst. reflexivity.
  Qed.

  Definition same_constr_at (rho : valuation) (c c' : constr) : Prop :=
    c_id c' = c_id c /\ c_eq c' = c_eq c /\ c_meta c' = c_meta c /\
    denote (fn_or_zero (c_fn c')) rho = denote (fn_or_zero (c_fn c)) rho.

  Lemma constrs_pe_sound theta rho : agrees rho theta -> forall cs cs',
    constrs_pe tiny cs theta = Some cs' -> Forall2 (same_constr_at rho) cs cs'.
  Proof.
    intros Ag. induction cs as [|c cs IH]; intros cs' H; cbn [constrs_pe] in H.
    - inversion H; subst. constructor.
    - destruct (opt_fn_pe tiny (c_fn c) theta) as [f'|] eqn:E; [|discriminate].
      destruct (constrs_pe tiny cs theta) as [r|] eqn:R; [|discriminate].
      inversion H; subst. constructor; [|apply IH; reflexivity].
      unfold same_constr_at; cbn. repeat split; auto. apply (opt_fn_pe_sound _ _ _ _ Ag E).
  Qed.

  (* objective and active constraints evaluate to the parametric functions at (x, p); decision
     variables, sense, constraint ids, removed constraints, hints and dependencies are unchanged;
     the supplied values are recorded *)
  Theorem with_parameters_spec P theta I : with_parameters tiny P theta = Some I ->
    i_dvs I = p_dvs P /\ i_sense I = p_sense P /\ i_rs I = p_rs P /\ i_hints I = p_hints P /\
    i_deps I = p_deps P /\ i_params I = Some theta /\
    forall rho, agrees rho theta ->
      denote (fn_or_zero (i_obj I)) rho = denote (fn_or_zero (p_obj P)) rho /\
      Forall2 (same_constr_at rho) (p_cs P) (i_cs I).
  Proof.
    unfold with_parameters. destruct (negb _); [discriminate|].
    destruct (opt_fn_pe tiny (p_obj P) theta) as [o|] eqn:Eo; [|discriminate].
    destruct (constrs_pe tiny (p_cs P) theta) as [cs|] eqn:Ec; [|discriminate].
    intro H; inversion H; subst; clear H. cbn. repeat split; auto.
    - apply (opt_fn_pe_sound _ _ _ _ H Eo).
    - apply (constrs_pe_sound _ _ H _ _ Ec).
  Qed.

  (* omitting any declared parameter is an error *)
  Theorem with_parameters_missing P theta p :
    In p (p_params P) -> sget theta (pa_id p) = None -> with_parameters tiny P theta = None.
  Proof.
    intros Hin G. unfold with_parameters.
    assert (E : forallb (fun p => match sget theta (pa_id p) with Some _ => true | None => false end) (p_params P) = false).
    { apply not_true_is_false. intro T. rewrite forallb_forall in T. specialize (T p Hin). rewrite G in T. discriminate. }
    rewrite E. reflexivity.
  Qed.
  (* conversely, when every declared parameter has a value the only failure left is a malformed
     quadratic message (array lengths) *)
  Theorem with_parameters_complete P theta :
    (forall p, In p (p_params P) -> sget theta (pa_id p) <> None) ->
    with_parameters tiny P theta = None ->
    opt_fn_pe tiny (p_obj P) theta = None \/ constrs_pe tiny (p_cs P) theta = None.
  Proof.
    intros Hall. unfold with_parameters.
    assert (E : forallb (fun p => match sget theta (pa_id p) with Some _ => true | None => false end) (p_params P) = true).
    { apply forallb_forall. intros p Hp. specialize (Hall p Hp). destruct (sget theta (pa_id p)); [reflexivity|congruence]. }
    rewrite E. cbn [negb].
    destruct (opt_fn_pe tiny (p_obj P) theta); [|auto].
    destruct (constrs_pe tiny (p_cs P) theta); [discriminate|auto].
  Qed.

  (* Instance -> ParametricInstance -> Instance with no parameters: the same problem *)
  Theorem roundtrip_spec I I' : with_parameters tiny (of_instance I) [] = Some I' ->
    i_dvs I' = i_dvs I /\ i_sense I' = i_sense I /\ i_rs I' = i_rs I /\ i_deps I' = i_deps I /\
    i_params I' = Some [] /\
    forall rho, denote (fn_or_zero (i_obj I')) rho = denote (fn_or_zero (i_obj I)) rho /\
                Forall2 (same_constr_at rho) (i_cs I) (i_cs I').
  Proof.
    intro H. apply with_parameters_spec in H. cbn [of_instance p_dvs p_sense p_rs p_hints p_deps p_obj p_cs] in H.
    destruct H as (H1 & H2 & H3 & _ & H5 & H6 & H7). repeat split; auto; apply H7; intros i v G; discriminate.
  Qed.
End WithParams.
