(* BoundMul.v — interval multiplication (impl Mul for Bound): validity and enclosure for all
   shapes (finite, half-infinite, whole line, degenerate, sign-crossing), with IEEE-like
   0 * inf = NaN products and Rust's NaN-ignoring f64::min / f64::max.
   Brute force over endpoint shapes and signs; kept in its own file (slowest proof). *)
Require Import Ommx.Num Ommx.Poly Ommx.Msg Ommx.Bound Ommx.BoundProofs.

Definition min4 (a b c d : ext) : ext := emin (emin (emin a b) c) d.
Definition max4 (a b c d : ext) : ext := emax (emax (emax a b) c) d.

(* all-finite operands: the classical corner argument *)
Lemma corner_lower l1 u1 l2 u2 x y :
  l1 <= x -> x <= u1 -> l2 <= y -> y <= u2 ->
  l1 * l2 <= x * y \/ l1 * u2 <= x * y \/ u1 * l2 <= x * y \/ u1 * u2 <= x * y.
Proof.
  intros A B C D.
  destruct (Qclt_le_dec y 0) as [Y|Y].
  - destruct (Qclt_le_dec u1 0) as [U|U].
    + right; right; right. qc2q. nra.
    + right; right; left. qc2q. nra.
  - destruct (Qclt_le_dec l1 0) as [L|L].
    + right; left. qc2q. nra.
    + left. qc2q. nra.
Qed.
Lemma corner_upper l1 u1 l2 u2 x y :
  l1 <= x -> x <= u1 -> l2 <= y -> y <= u2 ->
  x * y <= l1 * l2 \/ x * y <= l1 * u2 \/ x * y <= u1 * l2 \/ x * y <= u1 * u2.
Proof.
  intros A B C D.
  destruct (Qclt_le_dec y 0) as [Y|Y].
  - destruct (Qclt_le_dec l1 0) as [L|L].
    + left. qc2q. nra.
    + right; left. qc2q. nra.
  - destruct (Qclt_le_dec u1 0) as [U|U].
    + right; right; left. qc2q. nra.
    + right; right; right. qc2q. nra.
Qed.

Ltac split_ifs_goal :=
  repeat match goal with
  | |- context [if qleb ?a ?b then _ else _] => destruct (qleb a b) eqn:?; ecbn
  end.
Ltac split_signs_goal :=
  repeat match goal with
  | |- context [if qltb ?a ?b then _ else _] => destruct (qltb a b) eqn:?; ecbn
  end.
Ltac split_zero_hyp :=
  repeat match goal with
  | H : orb _ _ = false |- _ => apply orb_false_iff in H; destruct H
  | H : andb _ _ = false |- _ => apply andb_false_iff in H; destruct H
  end.
Ltac arith := b2p; p2b; qc2q; nra.
Ltac finish :=
  try reflexivity;
  match goal with
  | |- false = true => exfalso; arith
  | |- qleb (?a * ?b) _ = true =>
      first [ solve [arith]
            | destruct (Qclt_le_dec a 0); destruct (Qclt_le_dec b 0); arith ]
  | |- qleb _ (?a * ?b) = true =>
      first [ solve [arith]
            | destruct (Qclt_le_dec a 0); destruct (Qclt_le_dec b 0); arith ]
  | |- _ => arith
  end.

Lemma mul_lower_fin l1 u1 l2 u2 x y :
  l1 <= x -> x <= u1 -> l2 <= y -> y <= u2 ->
  eleb (min4 (Fin (l1 * l2)) (Fin (l1 * u2)) (Fin (u1 * l2)) (Fin (u1 * u2))) (Fin (x * y)) = true.
Proof.
  intros A B C D. pose proof (corner_lower _ _ _ _ _ _ A B C D) as K.
  unfold min4. ecbn. split_ifs_goal; b2p; p2b; destruct K as [K|[K|[K|K]]]; qc2q; lra.
Qed.
Lemma mul_upper_fin l1 u1 l2 u2 x y :
  l1 <= x -> x <= u1 -> l2 <= y -> y <= u2 ->
  eleb (Fin (x * y)) (max4 (Fin (l1 * l2)) (Fin (l1 * u2)) (Fin (u1 * l2)) (Fin (u1 * u2))) = true.
Proof.
  intros A B C D. pose proof (corner_upper _ _ _ _ _ _ A B C D) as K.
  unfold max4. ecbn. split_ifs_goal; b2p; p2b; destruct K as [K|[K|[K|K]]]; qc2q; lra.
Qed.

Definition not_zero_pair (lx ux ly uy : ext) : Prop :=
  (eeqb lx (Fin 0) && eeqb ux (Fin 0)) || (eeqb ly (Fin 0) && eeqb uy (Fin 0)) = false.

Lemma mul_lower lx ux ly uy x y :
  eleb lx (Fin x) = true -> eleb (Fin x) ux = true ->
  eleb ly (Fin y) = true -> eleb (Fin y) uy = true ->
  not_zero_pair lx ux ly uy ->
  eleb (min4 (emul lx ly) (emul lx uy) (emul ux ly) (emul ux uy)) (Fin (x * y)) = true.
Proof.
  unfold not_zero_pair.
  destruct lx as [|l1| |], ux as [|u1| |], ly as [|l2| |], uy as [|u2| |];
    intros A B C D NZ; ecbn; try discriminate;
    try (b2p; apply mul_lower_fin; assumption);
    unfold min4; ecbn; split_signs_goal; split_ifs_goal; try reflexivity;
    split_zero_hyp; finish.
Qed.

Lemma mul_upper lx ux ly uy x y :
  eleb lx (Fin x) = true -> eleb (Fin x) ux = true ->
  eleb ly (Fin y) = true -> eleb (Fin y) uy = true ->
  not_zero_pair lx ux ly uy ->
  eleb (Fin (x * y)) (max4 (emul lx ly) (emul lx uy) (emul ux ly) (emul ux uy)) = true.
Proof.
  unfold not_zero_pair.
  destruct lx as [|l1| |], ux as [|u1| |], ly as [|l2| |], uy as [|u2| |];
    intros A B C D NZ; ecbn; try discriminate;
    try (b2p; apply mul_upper_fin; assumption);
    unfold max4; ecbn; split_signs_goal; split_ifs_goal; try reflexivity;
    split_zero_hyp; finish.
Qed.

Lemma beqb_bzero_mem X x : beqb X bzero = true -> bmem x X = true -> x = 0.
Proof.
  unfold beqb, bzero. intros H M.
  destruct X as [[|l| |] [|u| |]]; ecbn; b2p; try discriminate. qarith.
Qed.

Theorem bmul_sound X Y x y :
  valid X -> valid Y -> bmem x X = true -> bmem y Y = true ->
  exists Z, bmul X Y = Some Z /\ valid Z /\ bmem (x * y) Z = true.
Proof.
  intros _ _ HX HY. unfold bmul.
  destruct (beqb X bzero || beqb Y bzero) eqn:Z0.
  - exists bzero. split; [reflexivity|]. split; [apply valid_bzero|].
    apply orb_true_iff in Z0. destruct Z0 as [Z0|Z0].
    + rewrite (beqb_bzero_mem _ _ Z0 HX). replace (0 * y) with 0 by ring. reflexivity.
    + rewrite (beqb_bzero_mem _ _ Z0 HY). replace (x * 0) with 0 by ring. reflexivity.
  - apply bmem_inv in HX. apply bmem_inv in HY. destruct HX as [A B], HY as [C D].
    apply bnew_enclose.
    + apply (mul_lower _ _ _ _ _ _ A B C D). exact Z0.
    + apply (mul_upper _ _ _ _ _ _ A B C D). exact Z0.
Qed.
