(* Qplib.v — executable model of rust/ommx/src/qplib/{parser,convert}.rs:
   the line cursor (comment / blank skipping with a line counter), the word and field
   splitters, decimal readers, the section-by-section reader driven by the three-letter
   problem type, the infinity threshold, and the conversion to an instance.

   Deliberate idealisations (documented, see also the runner):
   - characters are bytes; whitespace is ASCII whitespace (the generators use ' ' and TAB);
   - a decimal literal denotes its exact rational value (generators only write literals
     whose value is a binary64, so Rust's correctly rounded reader returns exactly it);
   - counts and indices are unbounded naturals (no usize overflow);
   - where the pinned code would panic (index 0, index beyond the declared size, an entry
     line with too few fields) and where it would silently accept an index beyond the
     declared size, the model returns an error carrying the line number ([EIndex], [EFields]),
     which is what the property asks of malformed input; a type code must be exactly three
     letters.  None of these is exercised by the passing check; they are probed separately;
   - a non-finite *coefficient* (inf / nan where a coefficient is expected) cannot be held by
     the function messages of the model: reported as [ENonFinite] (outside the model). *)
Require Import Ommx.Num Ommx.Poly Ommx.Msg.
From Coq Require Import String Ascii DecimalString.
Open Scope string_scope.
Open Scope list_scope.
Open Scope Qc_scope.

(* ------------------------------------------------------------------ *)
(* characters, words, fields *)

Definition is_ws (c : ascii) : bool :=          (* char::is_whitespace on ASCII *)
  let n := nat_of_ascii c in Nat.eqb n 32 || (Nat.leb 9 n && Nat.leb n 13).
Definition is_ascii_ws (c : ascii) : bool :=    (* char::is_ascii_whitespace: no VT *)
  let n := nat_of_ascii c in
  Nat.eqb n 32 || Nat.eqb n 9 || Nat.eqb n 10 || Nat.eqb n 12 || Nat.eqb n 13.

Fixpoint trim_start (s : string) : string :=
  match s with
  | String c s' => if is_ws c then trim_start s' else s
  | EmptyString => EmptyString
  end.
Fixpoint take_word (s : string) : string :=
  match s with
  | String c s' => if is_ws c then EmptyString else String c (take_word s')
  | EmptyString => EmptyString
  end.
(* line.split_whitespace().next() *)
Definition first_word (s : string) : option string :=
  match take_word (trim_start s) with EmptyString => None | w => Some w end.

Definition starts_comment (s : string) : bool :=
  match s with
  | String c _ => (c =? "!")%char || (c =? "%")%char || (c =? "#")%char
  | EmptyString => false
  end.
Definition is_comment (s : string) : bool := starts_comment (trim_start s).
Definition is_blank (s : string) : bool :=
  match trim_start s with EmptyString => true | _ => false end.
Definition skippable (s : string) : bool := is_blank s || is_comment s.

(* str::splitn(n, |c| c.is_ascii_whitespace()): every single separator splits *)
Fixpoint break_ws (s : string) : string * option string :=
  match s with
  | EmptyString => (EmptyString, None)
  | String c s' =>
      if is_ascii_ws c then (EmptyString, Some s')
      else let (a, r) := break_ws s' in (String c a, r)
  end.
Fixpoint splitn (n : nat) (s : string) : list string :=
  match n with
  | O => []
  | S n' =>
      match n' with
      | O => [s]
      | S _ => match break_ws s with
               | (a, None) => [a]
               | (a, Some r) => a :: splitn n' r
               end
      end
  end.
(* .take_while(|part| !is_comment(part)) *)
Fixpoint until_comment (ps : list string) : list string :=
  match ps with
  | [] => []
  | p :: ps' => if is_comment p then [] else p :: until_comment ps'
  end.

(* ------------------------------------------------------------------ *)
(* readers of numbers *)

Definition digit_of (c : ascii) : option N :=
  let n := nat_of_ascii c in
  if Nat.leb 48 n && Nat.leb n 57 then Some (N.of_nat (n - 48)) else None.
Fixpoint read_digits (s : string) (acc : N) (cnt : nat) : N * nat * string :=
  match s with
  | String c s' =>
      match digit_of c with
      | Some d => read_digits s' (acc * 10 + d)%N (S cnt)
      | None => (acc, cnt, s)
      end
  | EmptyString => (acc, cnt, s)
  end.
(* usize::from_str: optional '+', at least one digit, nothing else *)
Definition parse_usize (s : string) : option N :=
  let s1 := match s with String "+"%char r => r | _ => s end in
  match read_digits s1 0%N 0%nat with
  | (v, S _, EmptyString) => Some v
  | _ => None
  end.

Definition lower (c : ascii) : ascii :=
  let n := nat_of_ascii c in
  if Nat.leb 65 n && Nat.leb n 90 then ascii_of_nat (n + 32) else c.
Fixpoint lower_s (s : string) : string :=
  match s with String c s' => String (lower c) (lower_s s') | EmptyString => EmptyString end.
Definition upper (c : ascii) : ascii :=
  let n := nat_of_ascii c in
  if Nat.leb 97 n && Nat.leb n 122 then ascii_of_nat (n - 32) else c.

Definition pow10 (e : Z) : Q :=
  if (0 <=? e)%Z then inject_Z (10 ^ e) else (1 # Z.to_pos (10 ^ (- e)))%Q.
Definition dec_value (neg : bool) (mant : N) (e : Z) : Qc :=
  let q := (inject_Z (Z.of_N mant) * pow10 e)%Q in
  Q2Qc (if neg then Qopp q else q).
Definition split_sign (s : string) : bool * string :=
  match s with
  | String "+"%char r => (false, r)
  | String "-"%char r => (true, r)
  | _ => (false, s)
  end.
Definition parse_exp (s : string) : option Z :=
  let (neg, s1) := split_sign s in
  match read_digits s1 0%N 0%nat with
  | (v, S _, EmptyString) => Some (if neg then (- Z.of_N v)%Z else Z.of_N v)
  | _ => None
  end.
(* f64::from_str: [sign] (inf | infinity | nan | digits [. digits] [e [sign] digits]) with at
   least one mantissa digit; the value is the exact decimal value *)
Definition parse_f64 (s : string) : option ext :=
  let (neg, s1) := split_sign s in
  let low := lower_s s1 in
  if (low =? "inf") || (low =? "infinity") then Some (if neg then NInf else PInf)
  else if (low =? "nan") then Some NaN
  else
    match read_digits s1 0%N 0%nat with
    | (ip, ni, r1) =>
        match (match r1 with
               | String "."%char r => read_digits r ip 0%nat
               | _ => (ip, 0%nat, r1)
               end) with
        | (mant, nf, r2) =>
            if Nat.eqb (ni + nf) 0 then None
            else
              match r2 with
              | EmptyString => Some (Fin (dec_value neg mant (- Z.of_nat nf)))
              | String c r3 =>
                  if (c =? "e")%char || (c =? "E")%char then
                    match parse_exp r3 with
                    | Some e => Some (Fin (dec_value neg mant (e - Z.of_nat nf)))
                    | None => None
                    end
                  else None
              end
        end
    end.

(* ------------------------------------------------------------------ *)
(* the three-letter problem type, sense, variable types *)

Inductive okind := OL | OD | OC | OQ.
Inductive vkind := VC | VB | VM | VI | VG.
Inductive ckind := CN | CB | CL | CD | CC | CQ.
Inductive sense := Minimize | Maximize.
Inductive vtype := TCont | TInt | TBin.

Definition okind_of (c : ascii) : option okind :=
  let u := upper c in
  if (u =? "L")%char then Some OL else if (u =? "D")%char then Some OD
  else if (u =? "C")%char then Some OC else if (u =? "Q")%char then Some OQ else None.
Definition vkind_of (c : ascii) : option vkind :=
  let u := upper c in
  if (u =? "C")%char then Some VC else if (u =? "B")%char then Some VB
  else if (u =? "M")%char then Some VM else if (u =? "I")%char then Some VI
  else if (u =? "G")%char then Some VG else None.
Definition ckind_of (c : ascii) : option ckind :=
  let u := upper c in
  if (u =? "N")%char then Some CN else if (u =? "B")%char then Some CB
  else if (u =? "L")%char then Some CL else if (u =? "D")%char then Some CD
  else if (u =? "C")%char then Some CC else if (u =? "Q")%char then Some CQ else None.
Definition parse_ptype (s : string) : option (okind * vkind * ckind) :=
  match s with
  | String a (String b (String c EmptyString)) =>
      match okind_of a, vkind_of b, ckind_of c with
      | Some o, Some v, Some k => Some (o, v, k)
      | _, _, _ => None
      end
  | _ => None
  end.
Definition parse_sense (s : string) : option sense :=
  let l := lower_s s in
  if l =? "minimize" then Some Minimize else if l =? "maximize" then Some Maximize else None.
Definition parse_vtype (s : string) : option vtype :=
  if s =? "0" then Some TCont else if s =? "1" then Some TInt
  else if s =? "2" then Some TBin else None.

Definition okind_char (o : okind) : ascii :=
  match o with OL => "L" | OD => "D" | OC => "C" | OQ => "Q" end%char.
Definition vkind_char (v : vkind) : ascii :=
  match v with VC => "C" | VB => "B" | VM => "M" | VI => "I" | VG => "G" end%char.
Definition ckind_char (c : ckind) : ascii :=
  match c with CN => "N" | CB => "B" | CL => "L" | CD => "D" | CC => "C" | CQ => "Q" end%char.
Definition ptype_string (o : okind) (v : vkind) (c : ckind) : string :=
  String (okind_char o) (String (vkind_char v) (String (ckind_char c) EmptyString)).

(* ------------------------------------------------------------------ *)
(* the cursor: a state-and-error monad over (remaining lines, number of lines consumed) *)

Inductive ekind :=
| EEof | EInvalidLine | EProblemType | ESense | EVarType | EInt | EFloat
| EIndex | EFields | ENonFinite.
Inductive res (A : Type) := Ok (a : A) | Err (line : nat) (k : ekind).
Arguments Ok {A} a.
Arguments Err {A} line k.

Definition cur := (list string * nat)%type.
Definition M (A : Type) := cur -> res (A * cur).
Definition ret {A} (a : A) : M A := fun c => Ok (a, c).
Definition bind {A B} (m : M A) (f : A -> M B) : M B :=
  fun c => match m c with Ok (a, c') => f a c' | Err l k => Err l k end.
Definition fail {A} (k : ekind) : M A := fun c => Err (snd c) k.
Notation "'dom' x <- m ; k" := (bind m (fun x => k))
  (at level 200, x pattern, m at level 100, k at level 200, right associativity).

(* FileCursor::expect_next: every line read counts; blank and comment lines are skipped *)
Fixpoint expect_next_from (ls : list string) (n : nat) : res (string * cur) :=
  match ls with
  | [] => Err n EEof
  | s :: ls' => if skippable s then expect_next_from ls' (S n) else Ok (s, (ls', S n))
  end.
Definition expect_next : M string := fun c => expect_next_from (fst c) (snd c).

Definition pv (A : Type) := string -> M A.      (* a value reader failing at the current line *)
Definition of_opt {A} (p : string -> option A) (e : ekind) : pv A :=
  fun s => match p s with Some a => ret a | None => fail e end.
Definition p_usize : pv N := of_opt parse_usize EInt.
Definition p_ext : pv ext := of_opt parse_f64 EFloat.
Definition fin_of (x : ext) : M num := match x with Fin q => ret q | _ => fail ENonFinite end.
Definition p_num : pv num := fun s => dom x <- p_ext s; fin_of x.
Definition p_str : pv string := fun s => ret s.
Definition p_vtype : pv vtype := of_opt parse_vtype EVarType.
Definition p_ptype : pv (okind * vkind * ckind) := of_opt parse_ptype EProblemType.
Definition p_sense : pv sense := of_opt parse_sense ESense.

(* next_parse: the first whitespace-separated word of the next line *)
Definition next_parse {A} (p : pv A) : M A :=
  dom line <- expect_next;
  match first_word line with
  | None => fail EInvalidLine
  | Some w => p w
  end.
(* next_split_n *)
Definition next_split_n (n : nat) : M (list string) :=
  dom line <- expect_next; ret (until_comment (splitn n line)).
Definition field {A} (parts : list string) (k : nat) (p : pv A) : M A :=
  match nth_error parts k with None => fail EFields | Some s => p s end.
(* a 1-based index of the file, checked against the declared size, made 0-based *)
Definition idx (bound : nat) (i : N) : M N :=
  if (i =? 0)%N || (N.of_nat bound <? i)%N then fail EIndex else ret (i - 1)%N.

Fixpoint repeatM {A} (n : nat) (m : M A) : M (list A) :=
  match n with
  | O => ret []
  | S n' => dom a <- m; dom l <- repeatM n' m; ret (a :: l)
  end.

(* HashMap::insert on an association list *)
Section Assoc.
  Context {K V : Type}.
  Variable keqb : K -> K -> bool.
  Fixpoint ains (k : K) (v : V) (m : list (K * V)) : list (K * V) :=
    match m with
    | [] => [(k, v)]
    | (k', v') :: m' => if keqb k k' then (k, v) :: m' else (k', v') :: ains k v m'
    end.
  Fixpoint aget (k : K) (m : list (K * V)) : option V :=
    match m with
    | [] => None
    | (k', v') :: m' => if keqb k k' then Some v' else aget k m'
    end.
  Definition of_entries (es : list (K * V)) : list (K * V) :=
    fold_left (fun m kv => ains (fst kv) (snd kv) m) es [].
End Assoc.
Definition pair_eqb (a b : N * N) : bool := (fst a =? fst b)%N && (snd a =? snd b)%N.

Fixpoint set_nth {A} (i : nat) (v : A) (l : list A) : list A :=
  match l, i with
  | [], _ => []
  | _ :: l', O => v :: l'
  | x :: l', S i' => x :: set_nth i' v l'
  end.

(* consume_map with collect_i_val's closure: "count" then count lines "i val [text]" *)
Definition collect_i_val {A} (bound : nat) (p : pv A) : M (list (N * A)) :=
  dom num <- next_parse p_usize;
  dom es <- repeatM (N.to_nat num)
    (dom parts <- next_split_n 3;
     dom i <- field parts 0 p_usize;
     dom v <- field parts 1 p;
     dom k <- idx bound i;
     ret (k, v));
  ret (of_entries N.eqb es).
(* collect_ij_val: lines "i j val [text]" *)
Definition collect_ij_val (bound : nat) : M (list (N * N * num)) :=
  dom num <- next_parse p_usize;
  dom es <- repeatM (N.to_nat num)
    (dom parts <- next_split_n 4;
     dom i <- field parts 0 p_usize;
     dom j <- field parts 1 p_usize;
     dom v <- field parts 2 p_num;
     dom i' <- idx bound i;
     dom j' <- idx bound j;
     ret ((i', j'), v));
  ret (of_entries pair_eqb es).
(* consume_list_of_maps: out[m].insert(key, val) *)
Definition put_in {K} (keqb : K -> K -> bool) (out : list (list (K * num))) (mkv : N * K * num)
  : list (list (K * num)) :=
  let m := N.to_nat (fst (fst mkv)) in
  set_nth m (ains keqb (snd (fst mkv)) (snd mkv) (nth m out [])) out.
Definition collect_list_of_i_val (size bound : nat) : M (list (list (N * num))) :=
  dom num <- next_parse p_usize;
  dom es <- repeatM (N.to_nat num)
    (dom parts <- next_split_n 4;
     dom m <- field parts 0 p_usize;
     dom i <- field parts 1 p_usize;
     dom v <- field parts 2 p_num;
     dom m' <- idx size m;
     dom i' <- idx bound i;
     ret (m', i', v));
  ret (fold_left (put_in N.eqb) es (repeat [] size)).
Definition collect_list_of_ij_val (size bound : nat) : M (list (list (N * N * num))) :=
  dom num <- next_parse p_usize;
  dom es <- repeatM (N.to_nat num)
    (dom parts <- next_split_n 5;
     dom m <- field parts 0 p_usize;
     dom i <- field parts 1 p_usize;
     dom j <- field parts 2 p_usize;
     dom v <- field parts 3 p_num;
     dom m' <- idx size m;
     dom i' <- idx bound i;
     dom j' <- idx bound j;
     ret (m', (i', j'), v));
  ret (fold_left (put_in pair_eqb) es (repeat [] size)).
(* collect_list: "default", "count", then count lines "i val [text]"; a dense vector *)
Definition collect_list {A} (size : nat) (p : pv A) : M (list A) :=
  dom default <- next_parse p;
  dom num <- next_parse p_usize;
  dom es <- repeatM (N.to_nat num)
    (dom parts <- next_split_n 3;
     dom i <- field parts 0 p_usize;
     dom v <- field parts 1 p;
     dom k <- idx size i;
     ret (k, v));
  ret (fold_left (fun out kv => set_nth (N.to_nat (fst kv)) (snd kv) out) es (repeat default size)).

(* integer_to_binary *)
Definition is01 (l u : ext) : bool :=
  (eeqb l (Fin 0) && eeqb u (Fin 1)) || (eeqb l (Fin 1) && eeqb u (Fin 1))
  || (eeqb l (Fin 0) && eeqb u (Fin 0)).
Fixpoint integer_to_binary (ts : list vtype) (lb ub : list ext) : list vtype :=
  match ts, lb, ub with
  | t :: ts', l :: lb', u :: ub' =>
      (match t with TInt => if is01 l u then TBin else TInt | _ => t end)
      :: integer_to_binary ts' lb' ub'
  | _, _, _ => ts
  end.
(* the variable types once the bounds (and, for M / G, the listed types) are known *)
Definition resolve_types (vk : vkind) (n : nat) (lb ub : list ext) (listed : list vtype)
  : list vtype :=
  match vk with
  | VC => repeat TCont n
  | VB => repeat TBin n
  | VI => integer_to_binary (repeat TInt n) lb ub
  | _ => integer_to_binary listed lb ub
  end.

Record qfile := {
  f_name : string;
  f_ok : okind; f_vk : vkind; f_ck : ckind;
  f_sense : sense;
  f_nvars : nat; f_ncons : nat;
  f_vtypes : list vtype;
  f_q0 : list (N * N * num);             (* lower-triangle entries of Q^0, 0-based keys *)
  f_b0 : list (N * num);                 (* non-default entries of b^0 *)
  f_q0c : num;                           (* q^0 *)
  f_qs : list (list (N * N * num));      (* Q^i, per constraint (empty list for kind L) *)
  f_bs : list (list (N * num));          (* b^i, per constraint *)
  f_cl : list ext; f_cu : list ext;
  f_lb : list ext; f_ub : list ext;
  f_inf : ext;
  f_b0d : num;                           (* default entry of b^0 *)
  f_vnames : list (N * string);
  f_cnames : list (N * string)
}.

Definition has_cons (ck : ckind) : bool := match ck with CN | CB => false | _ => true end.

(* QplibFile::from_lines *)
Definition read_body (name : string) : M qfile :=
  dom pt <- next_parse p_ptype;
  let '(ok, vk, ck) := pt in
  dom sense <- next_parse p_sense;
  dom nv <- next_parse p_usize;
  let n := N.to_nat nv in
  dom ncs <- (if has_cons ck then next_parse p_usize else ret 0%N);
  let m := N.to_nat ncs in
  dom q0 <- (match ok with OL => ret [] | _ => collect_ij_val n end);
  dom b0d <- next_parse p_num;
  dom b0 <- collect_i_val n p_num;
  dom q0c <- next_parse p_num;
  dom qs <- (match ck with
             | CN | CB | CL => ret []
             | _ => collect_list_of_ij_val m n
             end);
  dom bs <- (if has_cons ck then collect_list_of_i_val m n else ret []);
  dom inf <- next_parse p_ext;
  dom cl <- (if has_cons ck then collect_list m p_ext else ret []);
  dom cu <- (if has_cons ck then collect_list m p_ext else ret []);
  dom lb <- (match vk with VB => ret (repeat (Fin 0) n) | _ => collect_list n p_ext end);
  dom ub <- (match vk with VB => ret (repeat (Fin 1) n) | _ => collect_list n p_ext end);
  dom listed <- (match vk with VM | VG => collect_list n p_vtype | _ => ret [] end);
  (* starting point and names: read (so that their errors are reported), values unused *)
  dom _x0d <- next_parse p_ext;
  dom _x0 <- collect_i_val n p_ext;
  dom _y0 <- (if has_cons ck
              then (dom d <- next_parse p_ext; dom l <- collect_i_val m p_ext; ret tt)
              else ret tt);
  dom _z0d <- next_parse p_ext;
  dom _z0 <- collect_i_val n p_ext;
  dom vnames <- collect_i_val n p_str;
  dom cnames <- collect_i_val m p_str;
  ret {| f_name := name; f_ok := ok; f_vk := vk; f_ck := ck; f_sense := sense;
         f_nvars := n; f_ncons := m;
         f_vtypes := resolve_types vk n lb ub listed;
         f_q0 := q0; f_b0 := b0; f_q0c := q0c; f_qs := qs; f_bs := bs;
         f_cl := cl; f_cu := cu; f_lb := lb; f_ub := ub; f_inf := inf; f_b0d := b0d;
         f_vnames := vnames; f_cnames := cnames |}.

Definition read_file : M qfile :=
  (* the name: only the first word of the first content line *)
  dom name <- next_parse p_str; read_body name.

Definition from_lines (ls : list string) : res qfile :=
  match read_file (ls, 0%nat) with Ok (f, _) => Ok f | Err l k => Err l k end.

(* ------------------------------------------------------------------ *)
(* apply_infinity_threshold *)

Definition eabs (x : ext) : ext :=
  match x with NInf | PInf => PInf | Fin q => Fin (qabs q) | NaN => NaN end.
(* if val.abs() >= threshold { *val = inf } *)
Definition apply_thr (thr inf v : ext) : ext := if eleb thr (eabs v) then inf else v.
Definition thr_lo (thr v : ext) : ext := apply_thr thr NInf v.
Definition thr_hi (thr v : ext) : ext := apply_thr thr PInf v.

(* ------------------------------------------------------------------ *)
(* convert.rs *)

Record dvar := { dv_id : N; dv_kind : vtype; dv_lower : ext; dv_upper : ext;
                 dv_name : option string }.
Record cons := { c_id : N; c_fn : function; c_name : string }.   (* always "<= 0" *)
Record inst := { i_sense : sense; i_obj : function; i_vars : list dvar; i_cons : list cons;
                 i_name : option string; i_descr : string }.

Fixpoint zip3e {A B C} (a : list A) (b : list B) (c : list C) : list (A * B * C) :=
  match a, b, c with
  | x :: a', y :: b', z :: c' => (x, y, z) :: zip3e a' b' c'
  | _, _, _ => []
  end.
Fixpoint enumerate_from {A} (k : nat) (l : list A) : list (nat * A) :=
  match l with [] => [] | x :: l' => (k, x) :: enumerate_from (S k) l' end.

Definition convert_dvars (F : qfile) : list dvar :=
  let thr := f_inf F in
  map (fun itlu =>
         let '(i, (t, l, u)) := itlu in
         {| dv_id := N.of_nat i; dv_kind := t;
            dv_lower := thr_lo thr l; dv_upper := thr_hi thr u;
            dv_name := aget N.eqb (N.of_nat i) (f_vnames F) |})
      (enumerate_from 0 (zip3e (f_vtypes F) (f_lb F) (f_ub F))).

(* to_quadratic: (row, col, value) with the diagonal halved; to_linear *)
Definition half (v : num) : num := v / (1 + 1).
Definition qentry (e : N * N * num) : N * N * num :=
  let '((i, j), v) := e in (i, j, if (i =? j)%N then half v else v).
Definition to_quadratic (q : list (N * N * num)) : list (N * N * num) := map qentry q.

Definition wrap_function (quad : list (N * N * num)) (lin : list (N * num)) (c : num)
  : function :=
  match quad with
  | [] => match lin with
          | [] => FConst c
          | _ => FLin {| l_terms := lin; l_const := c |}
          end
  | _ => FQuad {| q_rows := map (fun e => fst (fst e)) quad;
                  q_cols := map (fun e => snd (fst e)) quad;
                  q_vals := map snd quad;
                  q_lin := Some {| l_terms := lin; l_const := c |} |}
  end.

(* the dense b^0 when the default is non-zero *)
Definition dense_b0 (F : qfile) : list (N * num) :=
  let base := map (fun i => (N.of_nat i, f_b0d F)) (seq 0 (f_nvars F)) in
  let upd := fold_left (fun ts ic => set_nth (N.to_nat (fst ic)) (fst ic, snd ic) ts)
                       (f_b0 F) base in
  filter (fun ic => negb (qeqb (snd ic) 0)) upd.
Definition convert_objective (F : qfile) : function :=
  let lin := if qeqb (f_b0d F) 0 then f_b0 F else dense_b0 F in
  wrap_function (to_quadratic (f_q0 F)) lin (f_q0c F).

Definition neg_quad (q : list (N * N * num)) := map (fun e => (fst e, - snd e)) q.
Definition neg_lin (l : list (N * num)) := map (fun e => (fst e, - snd e)) l.

Definition nat_digits (n : nat) : string :=
  NilZero.string_of_uint (Nat.to_uint n).
Definition default_cname (i : nat) : string := "Qplib_constr_" ++ nat_digits i.

(* one QPLIB constraint: the `<= c_u` side keeps the id, the `>= c_l` side gets m + id;
   [None] = a side whose constant is not a finite number and not the "absent" infinity
   (nan, or -inf as c_u / +inf as c_l): outside the function messages of the model *)
Definition convert_constraint (F : qfile) (i : nat) (bs : list (N * num)) (lo up : ext)
  : option (list cons) :=
  let quad := to_quadratic (nth i (f_qs F) []) in
  let name := match aget N.eqb (N.of_nat i) (f_cnames F) with
              | Some s => s | None => default_cname i end in
  let upper := match up with
               | PInf => Some []
               | Fin c => Some [ {| c_id := N.of_nat i;
                                    c_fn := wrap_function quad bs (- c);
                                    c_name := name ++ " [c_u]" |} ]
               | _ => None
               end in
  let lower := match lo with
               | NInf => Some []
               | Fin c => Some [ {| c_id := N.of_nat (f_ncons F + i);
                                    c_fn := wrap_function (neg_quad quad) (neg_lin bs) c;
                                    c_name := name ++ " [c_l]" |} ]
               | _ => None
               end in
  match upper, lower with
  | Some a, Some b => Some (a ++ b)
  | _, _ => None
  end.

Fixpoint concat_opt {A} (l : list (option (list A))) : option (list A) :=
  match l with
  | [] => Some []
  | None :: _ => None
  | Some a :: l' => match concat_opt l' with Some b => Some (a ++ b) | None => None end
  end.

Definition convert_constraints (F : qfile) : option (list cons) :=
  let thr := f_inf F in
  concat_opt
    (map (fun x => let '(i, (bs, lo, up)) := x in
                   convert_constraint F i bs (thr_lo thr lo) (thr_hi thr up))
         (enumerate_from 0 (zip3e (f_bs F) (f_cl F) (f_cu F)))).

Definition convert (F : qfile) : option inst :=
  match convert_constraints F with
  | None => None
  | Some cs =>
      Some {| i_sense := f_sense F; i_obj := convert_objective F;
              i_vars := convert_dvars F; i_cons := cs;
              i_name := match f_name F with EmptyString => None | s => Some s end;
              i_descr := ptype_string (f_ok F) (f_vk F) (f_ck F) |}
  end.

(* load_file = from_lines then convert *)
Inductive outcome := Loaded (ins : inst) | Failed (line : nat) (k : ekind) | OutOfModel.
Definition load (ls : list string) : outcome :=
  match from_lines ls with
  | Err l k => match k with ENonFinite => OutOfModel | _ => Failed l k end
  | Ok F => match convert F with Some ins => Loaded ins | None => OutOfModel end
  end.
