(* InstTotal.v — WHEN does Instance::evaluate succeed (C05, converse direction).
   InstProofs.v says what a successful evaluation reports; this file characterises success itself:

     inst_eval_succeeds_iff : (exists sol, inst_eval I s = Some sol) <-> eval_ok I s

   where eval_ok lists every failure cause of the model as an explicit condition:
     1. every declared variable has a valid bound (get_bounds succeeds);
     2. every ENTRY of the given state (shadowed entries included) lies, within 1e-7, in the bound
        of the LAST declaration of its id (entries of undeclared ids are not checked);
     3. every variable occurring in an active constraint has a value in the given state;
     4. every removed constraint carries a constraint, and its variables have a value;
     5. reading active then removed constraints in order, every constraint up to and including the
        first one that does not hold has equality EQ_ZERO or LE_ZERO (the kind of a constraint
        AFTER the first violated one is never looked at: sticky flag);
     6. every variable occurring in the objective has a value in the given state;
     7. the dependency pass succeeds from the state extended by the fixed (substituted) values;
        under the map invariants (distinct keys, keys without a value) this is: SOME evaluation
        order of the dependencies exists (inst_eval_succeeds_iff_order).
   The completion of unassigned variables (nearest-to-zero) can NOT fail once 1 holds
   (fill_vacant_total), so it contributes no conjunct. *)
Require Import Ommx.Num Ommx.Poly Ommx.Msg Ommx.Eval Ommx.Tree Ommx.Inst Ommx.InstProofs
        Ommx.Subst Ommx.SubstProofs Ommx.DepsOrder.
From Coq Require Import String Permutation Lia.
Close Scope string_scope.
Open Scope list_scope.
Open Scope Qc_scope.

(* ------------------------------------------------------------------ *)
(* small list facts *)
Lemma find_app' {X} (p : X -> bool) a b :
  List.find p (a ++ b) = match List.find p a with Some x => Some x | None => List.find p b end.
Proof. induction a as [|x a IH]; cbn [app List.find]; [reflexivity|]. destruct (p x); auto. Qed.

Lemma forall_exists_Forall2 {X Y} (P : X -> Y -> Prop) l :
  (forall x, In x l -> exists y, P x y) -> exists l', Forall2 P l l'.
Proof.
  induction l as [|x l IH]; intro H; [exists []; constructor|].
  destruct (H x (or_introl eq_refl)) as [y Hy].
  destruct IH as [l' Hl']; [intros z Hz; apply H; right; exact Hz|].
  exists (y :: l'). constructor; assumption.
Qed.
Lemma Forall2_in_l {X Y} (P : X -> Y -> Prop) l l' : Forall2 P l l' ->
  forall x, In x l -> exists y, In y l' /\ P x y.
Proof.
  induction 1 as [|x y l l' Hxy _ IH]; intros z Hz; [destruct Hz|].
  destruct Hz as [<-|Hz]; [exists y; split; [left; reflexivity|exact Hxy]|].
  destruct (IH z Hz) as (y' & Hin & Hp). exists y'. split; [right; exact Hin|exact Hp].
Qed.

(* ------------------------------------------------------------------ *)
(* 1-2. the bound check *)

(* the declaration that counts for id i: the LAST one in the list (HashMap insert) *)
Definition is_id (i : N) (d : dvar) : bool := (i =? dv_id d)%N.
Definition eff_dv (dvs : list dvar) (i : N) : option dvar := List.find (is_id i) (rev dvs).

Lemma eff_dv_cons v dvs i :
  eff_dv (v :: dvs) i =
  match eff_dv dvs i with Some d => Some d | None => if is_id i v then Some v else None end.
Proof.
  unfold eff_dv. cbn [rev]. rewrite find_app'. destruct (List.find (is_id i) (rev dvs)); [reflexivity|].
  cbn [List.find]. destruct (is_id i v); reflexivity.
Qed.
Lemma eff_dv_in dvs i d : eff_dv dvs i = Some d -> In d dvs /\ dv_id d = i.
Proof.
  unfold eff_dv. intro H. apply find_some in H. destruct H as [Hin E]. split.
  - apply in_rev. exact Hin.
  - unfold is_id in E. apply N.eqb_eq in E. symmetry. exact E.
Qed.
Lemma eff_dv_none dvs i : eff_dv dvs i = None <-> forall d, In d dvs -> dv_id d <> i.
Proof.
  unfold eff_dv. split.
  - intros H d Hin E. apply in_rev in Hin. apply (find_none _ _ H) in Hin.
    unfold is_id in Hin. apply N.eqb_neq in Hin. congruence.
  - intro H. destruct (List.find (is_id i) (rev dvs)) as [d|] eqn:E; [|reflexivity].
    apply find_some in E. destruct E as [Hin E]. apply in_rev in Hin. unfold is_id in E.
    apply N.eqb_eq in E. exfalso. apply (H d Hin). symmetry. exact E.
Qed.

Lemma get_bounds_lookup : forall dvs acc bs, get_bounds dvs acc = Some bs ->
  forall i, lookup i bs = match eff_dv dvs i with Some d => dv_bound_of d | None => lookup i acc end.
Proof.
  induction dvs as [|v dvs IH]; intros acc bs H i; cbn [get_bounds] in H.
  - inversion H; subst. reflexivity.
  - destruct (dv_bound_of v) as [b|] eqn:B; [|discriminate].
    rewrite (IH _ _ H i), eff_dv_cons. destruct (eff_dv dvs i); [reflexivity|].
    cbn [lookup]. unfold is_id. destruct (i =? dv_id v)%N; [symmetry; exact B|reflexivity].
Qed.

Definition bounds_valid (dvs : list dvar) : Prop := forall d, In d dvs -> dv_bound_of d <> None.

Lemma get_bounds_some : forall dvs acc,
  (exists bs, get_bounds dvs acc = Some bs) <-> bounds_valid dvs.
Proof.
  unfold bounds_valid. induction dvs as [|v dvs IH]; intro acc; cbn [get_bounds].
  - split; [intros _ d []|eauto].
  - destruct (dv_bound_of v) as [b|] eqn:B.
    + rewrite IH. split.
      * intros H d [<-|Hin]; [congruence|apply H; exact Hin].
      * intros H d Hin. apply H. right. exact Hin.
    + split; [intros [bs E]; discriminate|]. intro H. exfalso. apply (H v); [left; reflexivity|exact B].
Qed.

Definition state_in_bounds (dvs : list dvar) (s : state) (atol : num) : Prop :=
  forall i v, In (i, v) s -> forall d b, eff_dv dvs i = Some d -> dv_bound_of d = Some b ->
    bcontains b v atol = true.

Theorem check_bound_iff dvs s a :
  check_bound dvs s a = true <-> bounds_valid dvs /\ state_in_bounds dvs s a.
Proof.
  unfold check_bound. destruct (get_bounds dvs []) as [bs|] eqn:G.
  - assert (V : bounds_valid dvs) by (apply (get_bounds_some dvs []); eauto).
    rewrite forallb_forall. split.
    + intro H. split; [exact V|]. intros i v Hin d b E B. specialize (H (i, v) Hin).
      cbn [fst snd] in H. rewrite (get_bounds_lookup _ _ _ G i), E, B in H. exact H.
    + intros [_ H] [i v] Hin. cbn [fst snd]. rewrite (get_bounds_lookup _ _ _ G i).
      destruct (eff_dv dvs i) as [d|] eqn:E; cbn [lookup]; [|reflexivity].
      destruct (dv_bound_of d) as [b|] eqn:B; [|reflexivity]. eapply H; eauto.
  - split; [discriminate|]. intros [V _]. apply (get_bounds_some dvs []) in V.
    destruct V as [bs E]. congruence.
Qed.

(* what a valid bound looks like and what `contains` means on it *)
Lemma dv_bound_of_shape d b : dv_bound_of d = Some b ->
  (fst b = NInf \/ exists l, fst b = Fin l) /\ (snd b = PInf \/ exists u, snd b = Fin u) /\
  eleb (fst b) (snd b) = true.
Proof.
  unfold dv_bound_of. destruct (dv_bound d) as [[l u]|].
  - unfold bcheck. destruct l as [|ql| |]; destruct u as [|qu| |];
      cbn [is_nan orb eltb eleb negb]; try discriminate;
      try (intro H; inversion H; subst b; cbn [fst snd eleb]; repeat split; eauto; fail).
    destruct (qleb ql qu) eqn:Le; cbn [negb]; [|discriminate].
    intro H; inversion H; subst b; cbn [fst snd eleb]. repeat split; eauto.
  - destruct (dv_kind d =? KIND_BINARY)%Z; intro H; inversion H; subst b; cbn [fst snd eleb];
      repeat split; eauto.
Qed.
Lemma bcontains_meaning b v a :
  (fst b = NInf \/ exists l, fst b = Fin l) -> (snd b = PInf \/ exists u, snd b = Fin u) ->
  (bcontains b v a = true <->
   (forall l, fst b = Fin l -> l - a <= v) /\ (forall u, snd b = Fin u -> v <= u + a)).
Proof.
  destruct b as [l u]. cbn [fst snd]. unfold bcontains. cbn [fst snd]. rewrite andb_true_iff.
  intros [->|[ql ->]] [->|[qu ->]]; cbn [eadd eleb]; rewrite ?qleb_le.
  - split; [intros _; split; intros ? E; discriminate|auto].
  - split.
    + intros [_ H]. split; [intros ? E; discriminate|]. intros u' E; inversion E; subst. exact H.
    + intros [_ H]. split; [reflexivity|apply H; reflexivity].
  - split.
    + intros [H _]. split; [|intros ? E; discriminate]. intros l' E; inversion E; subst. exact H.
    + intros [H _]. split; [apply H; reflexivity|reflexivity].
  - split.
    + intros [H1 H2]. split; intros x E; inversion E; subst; assumption.
    + intros [H1 H2]. split; [apply H1|apply H2]; reflexivity.
Qed.

(* ------------------------------------------------------------------ *)
(* the completion of unassigned variables cannot fail for valid bounds *)
Lemma dv_bound_of_ntz d b : dv_bound_of d = Some b -> exists x, nearest_to_zero b = Fin x.
Proof.
  intro H. destruct (dv_bound_of_shape d b H) as (Hl & Hu & _). destruct b as [l u].
  cbn [fst snd] in *. unfold nearest_to_zero; cbn [fst snd].
  destruct Hl as [->|[ql ->]]; destruct Hu as [->|[qu ->]]; cbn [eleb].
  - eauto.
  - destruct (qleb qu 0); eauto.
  - destruct (qleb 0 ql); eauto.
  - destruct (qleb 0 ql); [eauto|]. destruct (qleb qu 0); eauto.
Qed.
Lemma fill_vacant_total : forall dvs, bounds_valid dvs -> forall s, exists s2, fill_vacant dvs s = Some s2.
Proof.
  unfold bounds_valid. induction dvs as [|v dvs IH]; intros V s; cbn [fill_vacant]; [eauto|].
  assert (V' : forall d, In d dvs -> dv_bound_of d <> None) by (intros d Hd; apply V; right; exact Hd).
  destruct (sget s (dv_id v)); [apply IH; exact V'|].
  destruct (dv_bound_of v) as [b|] eqn:B; [|exfalso; apply (V v); [left; reflexivity|exact B]].
  destruct (dv_bound_of_ntz v b B) as [x ->]. apply IH. exact V'.
Qed.

(* ------------------------------------------------------------------ *)
(* bridge: evaluation of a function is defined exactly when every occurring id has a value *)
Theorem fn_eval_defined_iff f s : fn_eval f s <> None <-> covers s f.
Proof.
  split.
  - intros H i Ho G. apply H. eapply fn_eval_missing; eauto.
  - intro C. destruct (fn_eval_total f s C) as (v & ids & E). congruence.
Qed.
Lemma covers_unset s : covers s FUnset.
Proof. intros i (m & c & [] & _). Qed.
Lemma covers_none s : covers s (fn_or_zero None).
Proof. intros i Ho. exfalso. eapply occurs_terms_const; exact Ho. Qed.

(* ------------------------------------------------------------------ *)
(* 3-5. constraints *)
Definition cfun (c : constr) : function := fn_or_zero (c_fn c).
(* the value of a constraint function at a state (ids without a value read as 0; irrelevant when
   the state covers the function) *)
Definition cval (c : constr) (s : state) : num := denote (cfun c) (total s).
Definition supported (c : constr) : Prop := c_eq c = EQ_ZERO \/ c_eq c = LE_ZERO.
Definition c_holds (c : constr) (s : state) : Prop :=
  (c_eq c = EQ_ZERO /\ qabs (cval c s) < tol6) \/ (c_eq c = LE_ZERO /\ cval c s < tol6).

(* e is the record of c at s *)
Definition rec_of (s : state) (c : constr) (e : evaluated) : Prop :=
  ev_eq e = c_eq c /\ ev_value e = cval c s.

Lemma constr_eval_rec c s e : constr_eval c s = Some e -> rec_of s c e.
Proof.
  unfold constr_eval, rec_of, cval, cfun.
  destruct (fn_eval (fn_or_zero (c_fn c)) s) as [[v ids]|] eqn:E; [|discriminate].
  intro H; inversion H; subst; clear H. cbn. split; [reflexivity|].
  apply fn_eval_sound in E. apply (proj1 E). apply total_agrees.
Qed.
Lemma constr_eval_defined c s : (exists e, constr_eval c s = Some e) <-> covers s (cfun c).
Proof.
  rewrite <- fn_eval_defined_iff. unfold constr_eval, cfun.
  destruct (fn_eval (fn_or_zero (c_fn c)) s) as [[v ids]|].
  - split; [intros _; discriminate|eauto].
  - split; [intros [e E]; discriminate|intro H; exfalso; apply H; reflexivity].
Qed.
Lemma removed_eval_defined r s :
  (exists e, removed_eval r s = Some e) <-> exists c, r_c r = Some c /\ covers s (cfun c).
Proof.
  unfold removed_eval. destruct (r_c r) as [c|].
  - split.
    + intros [e E]. exists c. split; [reflexivity|]. apply constr_eval_defined.
      destruct (constr_eval c s) as [e0|]; [eauto|discriminate].
    + intros (c' & E & C). inversion E; subst c'. apply constr_eval_defined in C.
      destruct C as [e0 ->]. eauto.
  - split; [intros [e E]; discriminate|intros (c & E & _); discriminate].
Qed.
Lemma removed_eval_rec r s e : removed_eval r s = Some e -> exists c, r_c r = Some c /\ rec_of s c e.
Proof.
  unfold removed_eval. destruct (r_c r) as [c|]; [|discriminate].
  destruct (constr_eval c s) as [e0|] eqn:E; [|discriminate].
  intro H; inversion H; subst; clear H. exists c. split; [reflexivity|].
  apply constr_eval_rec in E. unfold rec_of in *. cbn. exact E.
Qed.

Lemma rec_holds s c e : rec_of s c e -> (holds e <-> c_holds c s).
Proof. intros [E1 E2]. unfold holds, c_holds. rewrite E1, E2. tauto. Qed.
Lemma rec_supported s c e : rec_of s c e -> (is_feasible e tol6 <> None <-> supported c).
Proof.
  intros [E1 _]. unfold is_feasible, supported. rewrite E1.
  destruct (c_eq c =? EQ_ZERO)%Z eqn:A.
  - apply Z.eqb_eq in A. split; [auto|discriminate].
  - apply Z.eqb_neq in A. destruct (c_eq c =? LE_ZERO)%Z eqn:B.
    + apply Z.eqb_eq in B. split; [auto|discriminate].
    + apply Z.eqb_neq in B. split; [congruence|tauto].
Qed.

(* the sticky flag, declaratively: every record up to and including the first that does not hold
   has a supported equality *)
Definition kinds_ok_ev (es : list evaluated) : Prop :=
  forall pre e post, es = pre ++ e :: post -> Forall holds pre -> is_feasible e tol6 <> None.
Definition kinds_ok (cl : list constr) (s : state) : Prop :=
  forall pre c post, cl = pre ++ c :: post -> (forall c', In c' pre -> c_holds c' s) -> supported c.

Lemma kinds_ok_ev_cons e es : kinds_ok_ev (e :: es) <->
  is_feasible e tol6 <> None /\ (holds e -> kinds_ok_ev es).
Proof.
  unfold kinds_ok_ev. split.
  - intro H. split; [apply (H [] e es); [reflexivity|constructor]|].
    intros He pre e' post -> Hpre. apply (H (e :: pre) e' post); [reflexivity|constructor; assumption].
  - intros [H1 H2] pre e' post E Hpre. destruct pre as [|p pre]; cbn [app] in E.
    + inversion E; subst. exact H1.
    + inversion E; subst. inversion Hpre; subst. eapply H2; eauto.
Qed.
Lemma kinds_ok_ev_app a b : kinds_ok_ev (a ++ b) <-> kinds_ok_ev a /\ (Forall holds a -> kinds_ok_ev b).
Proof.
  induction a as [|e a IH]; cbn [app].
  - split; [intro H; split; [intros pre e post E; destruct pre; discriminate|auto]|].
    intros [_ H]. apply H. constructor.
  - rewrite !kinds_ok_ev_cons, IH. split.
    + intros (H1 & H2). split; [split; [exact H1|intro He; apply H2; exact He]|].
      intro Fa. inversion Fa; subst. apply H2; assumption.
    + intros ((H1 & H2) & H3). split; [exact H1|]. intro He. split; [apply H2; exact He|].
      intro Fa. apply H3. constructor; assumption.
Qed.

Lemma kinds_ok_transfer s : forall cl es, Forall2 (rec_of s) cl es -> (kinds_ok cl s <-> kinds_ok_ev es).
Proof.
  intros cl es F. unfold kinds_ok, kinds_ok_ev. split.
  - intros H pre e post -> Hpre. apply Forall2_app_inv_r in F.
    destruct F as (cpre & crest & F1 & F2 & ->). inversion F2 as [|c e' cpost post' Hce F3]; subst.
    apply (rec_supported s c e Hce). apply (H cpre c cpost); [reflexivity|].
    intros c' Hin. destruct (Forall2_in_l _ _ _ F1 c' Hin) as (e' & Hin' & R).
    apply (rec_holds s c' e' R). rewrite Forall_forall in Hpre. apply Hpre. exact Hin'.
  - intros H pre c post -> Hpre. apply Forall2_app_inv_l in F.
    destruct F as (epre & erest & F1 & F2 & ->). inversion F2 as [|c' e cpost epost Hce F3]; subst.
    apply (rec_supported s c e Hce). apply (H epre e epost); [reflexivity|].
    clear - F1 Hpre. induction F1 as [|c0 e0 l l' R _ IH]; constructor.
    + apply (rec_holds s c0 e0 R). apply Hpre. left. reflexivity.
    + apply IH. intros c' Hin. apply Hpre. right. exact Hin.
Qed.

(* success and result of one loop *)
Lemma eval_loop_some {X} (ev : X -> state -> option evaluated) s : forall l flag acc r,
  eval_loop ev l s flag acc = Some r ->
  exists es, Forall2 (fun x e => ev x s = Some e) l es /\ (flag = true -> kinds_ok_ev es) /\
             (fst r = true <-> flag = true /\ Forall holds es).
Proof.
  induction l as [|x l IH]; intros flag acc r H; cbn [eval_loop] in H.
  - inversion H; subst. exists []. split; [constructor|]. split.
    + intros _ pre e post E. destruct pre; discriminate.
    + cbn [fst]. split; [auto|tauto].
  - destruct (ev x s) as [e|] eqn:E; [|discriminate]. destruct flag.
    + destruct (is_feasible e tol6) as [b|] eqn:Fe; [|discriminate].
      apply IH in H. destruct H as (es & F & K & Hf). exists (e :: es).
      split; [constructor; assumption|]. split.
      * intros _. apply kinds_ok_ev_cons. split; [congruence|]. intro He. apply K.
        apply is_feasible_holds in He. congruence.
      * rewrite Hf. split.
        -- intros [-> Hes]. split; [reflexivity|]. constructor; [apply is_feasible_holds; exact Fe|exact Hes].
        -- intros [_ Hall]. inversion Hall as [|? ? He Hes]; subst. split; [|exact Hes].
           apply is_feasible_holds in He. congruence.
    + apply IH in H. destruct H as (es & F & K & Hf). exists (e :: es).
      split; [constructor; assumption|]. split; [discriminate|].
      rewrite Hf. split; intros [D _]; discriminate.
Qed.
Lemma eval_loop_total {X} (ev : X -> state -> option evaluated) s : forall l es,
  Forall2 (fun x e => ev x s = Some e) l es -> forall flag acc,
  (flag = true -> kinds_ok_ev es) -> exists r, eval_loop ev l s flag acc = Some r.
Proof.
  induction 1 as [|x e l es E _ IH]; intros flag acc K; cbn [eval_loop]; [eauto|].
  rewrite E. destruct flag.
  - specialize (K eq_refl). apply kinds_ok_ev_cons in K. destruct K as [K1 K2].
    destruct (is_feasible e tol6) as [b|] eqn:Fe; [|congruence].
    apply IH. intros ->. apply K2. apply is_feasible_holds. exact Fe.
  - apply IH. discriminate.
Qed.

(* all constraints in evaluation order: the active ones, then those carried by removed entries *)
Definition removed_constrs (rs : list removed) : list constr :=
  flat_map (fun r => match r_c r with Some c => [c] | None => [] end) rs.
Definition all_constrs (I : instance) : list constr := i_cs I ++ removed_constrs (i_rs I).

Lemma removed_recs s : forall rs es, Forall2 (fun r e => removed_eval r s = Some e) rs es ->
  Forall2 (rec_of s) (removed_constrs rs) es.
Proof.
  induction 1 as [|r e rs es E _ IH]; cbn [removed_constrs flat_map]; [constructor|].
  apply removed_eval_rec in E. destruct E as (c & -> & R). cbn [app]. constructor; assumption.
Qed.
Lemma Forall2_impl'' {X Y} (P Q : X -> Y -> Prop) l l' :
  (forall x y, P x y -> Q x y) -> Forall2 P l l' -> Forall2 Q l l'.
Proof. intros H F. induction F; constructor; auto. Qed.

(* the two loops together *)
Lemma loops_iff I s :
  (exists r2, exists r1, eval_loop constr_eval (i_cs I) s true [] = Some r1 /\
              eval_loop removed_eval (i_rs I) s (fst r1) (snd r1) = Some r2) <->
  (forall c, In c (i_cs I) -> covers s (cfun c)) /\
  (forall r, In r (i_rs I) -> exists c, r_c r = Some c /\ covers s (cfun c)) /\
  kinds_ok (all_constrs I) s.
Proof.
  split.
  - intros (r2 & r1 & L1 & L2).
    apply eval_loop_some in L1. destruct L1 as (es1 & F1 & K1 & Hf1).
    apply eval_loop_some in L2. destruct L2 as (es2 & F2 & K2 & _).
    split; [|split].
    + intros c Hin. apply constr_eval_defined. destruct (Forall2_in_l _ _ _ F1 c Hin) as (e & _ & E). eauto.
    + intros r Hin. apply removed_eval_defined. destruct (Forall2_in_l _ _ _ F2 r Hin) as (e & _ & E). eauto.
    + apply (kinds_ok_transfer s (all_constrs I) (es1 ++ es2)).
      * unfold all_constrs. apply Forall2_app; [|apply removed_recs; exact F2].
        eapply Forall2_impl''; [|exact F1]. intros c e. apply constr_eval_rec.
      * apply kinds_ok_ev_app. split; [apply K1; reflexivity|]. intro Fa. apply K2. apply Hf1. auto.
  - intros (C1 & C2 & K).
    destruct (forall_exists_Forall2 (fun c e => constr_eval c s = Some e) (i_cs I)) as [es1 F1].
    { intros c Hin. apply constr_eval_defined. apply C1. exact Hin. }
    destruct (forall_exists_Forall2 (fun r e => removed_eval r s = Some e) (i_rs I)) as [es2 F2].
    { intros r Hin. apply removed_eval_defined. apply C2. exact Hin. }
    assert (KE : kinds_ok_ev (es1 ++ es2)).
    { apply (kinds_ok_transfer s (all_constrs I) (es1 ++ es2)); [|exact K].
      unfold all_constrs. apply Forall2_app; [|apply removed_recs; exact F2].
      eapply Forall2_impl''; [|exact F1]. intros c e. apply constr_eval_rec. }
    apply kinds_ok_ev_app in KE. destruct KE as [K1 K2].
    destruct (eval_loop_total constr_eval s _ _ F1 true []) as [r1 L1]; [intros _; exact K1|].
    pose proof (eval_loop_some constr_eval s _ _ _ _ L1) as (es1' & F1' & _ & Hf1).
    assert (es1' = es1).
    { clear - F1 F1'. revert es1' F1'. induction F1 as [|c e l es E _ IH]; intros es' F'; inversion F'; subst; [reflexivity|].
      f_equal; [congruence|apply IH; assumption]. }
    subst es1'.
    destruct (eval_loop_total removed_eval s _ _ F2 (fst r1) (snd r1)) as [r2 L2].
    { intro Ef. apply K2. apply Hf1. exact Ef. }
    exists r2, r1. split; assumption.
Qed.

(* ------------------------------------------------------------------ *)
(* THE CHARACTERISATION *)
Definition eval_ok (I : instance) (s : state) : Prop :=
  (* 1 *) bounds_valid (i_dvs I) /\
  (* 2 *) state_in_bounds (i_dvs I) s tol7 /\
  (* 3 *) (forall c, In c (i_cs I) -> covers s (cfun c)) /\
  (* 4 *) (forall r, In r (i_rs I) -> exists c, r_c r = Some c /\ covers s (cfun c)) /\
  (* 5 *) kinds_ok (all_constrs I) s /\
  (* 6 *) covers s (fn_or_zero (i_obj I)) /\
  (* 7 *) eval_deps (i_deps I) (insert_subst (i_dvs I) s) <> None.

Theorem inst_eval_succeeds_iff : forall I s,
  (exists sol, inst_eval I s = Some sol) <-> eval_ok I s.
Proof.
  intros I s. unfold eval_ok. split.
  - intros [sol H]. unfold inst_eval in H.
    destruct (check_bound (i_dvs I) s tol7) eqn:CB; cbn [negb] in H; [|discriminate].
    destruct (eval_loop constr_eval (i_cs I) s true []) as [[fr ev1]|] eqn:L1; [|discriminate].
    destruct (eval_loop removed_eval (i_rs I) s fr ev1) as [[fe ev2]|] eqn:L2; [|discriminate].
    destruct (fn_eval (fn_or_zero (i_obj I)) s) as [[obj ids]|] eqn:O; [|discriminate].
    destruct (eval_deps (i_deps I) (insert_subst (i_dvs I) s)) as [s1|] eqn:D; [|discriminate].
    apply check_bound_iff in CB. destruct CB as [V B].
    destruct (proj1 (loops_iff I s)) as (C1 & C2 & K).
    { exists (fe, ev2), (fr, ev1). split; assumption. }
    repeat split; auto.
    + apply fn_eval_defined_iff. congruence.
    + discriminate.
  - intros (V & B & C1 & C2 & K & CO & D).
    destruct (proj2 (loops_iff I s)) as (r2 & r1 & L1 & L2); [auto|].
    unfold inst_eval. rewrite (proj2 (check_bound_iff _ _ _) (conj V B)). cbn [negb].
    rewrite L1. destruct r1 as [fr ev1]; cbn [fst snd] in L2. rewrite L2. destruct r2 as [fe ev2].
    destruct (fn_eval_total _ _ CO) as (v & ids & ->).
    destruct (eval_deps (i_deps I) (insert_subst (i_dvs I) s)) as [s1|]; [|congruence].
    destruct (fill_vacant_total _ V s1) as [s2 ->]. eauto.
Qed.

Corollary inst_eval_fails_iff : forall I s, inst_eval I s = None <-> ~ eval_ok I s.
Proof.
  intros I s. rewrite <- inst_eval_succeeds_iff. destruct (inst_eval I s) as [sol|]; split.
  - discriminate.
  - intro H. exfalso. apply H. eauto.
  - intros _ [sol E]. discriminate.
  - reflexivity.
Qed.

(* ------------------------------------------------------------------ *)
(* 7, semantically.  The state the dependency pass starts from: the LAST declaration of id i that
   carries a fixed value overrides the given state *)
Definition has_fixed (i : N) (d : dvar) : bool :=
  is_id i d && match dv_subst d with Some _ => true | None => false end.
Definition fixed_dv (dvs : list dvar) (i : N) : option dvar := List.find (has_fixed i) (rev dvs).

Lemma sget_insert_subst : forall dvs s i,
  sget (insert_subst dvs s) i = match fixed_dv dvs i with Some d => dv_subst d | None => sget s i end.
Proof.
  induction dvs as [|v dvs IH]; intros s i; cbn [insert_subst]; [reflexivity|].
  rewrite IH. unfold fixed_dv. cbn [rev]. rewrite find_app'.
  destruct (List.find (has_fixed i) (rev dvs)) as [d|]; [reflexivity|].
  cbn [List.find]. unfold has_fixed, is_id. destruct (dv_subst v) as [x|] eqn:Sv.
  - rewrite sget_sset, andb_true_r. destruct (i =? dv_id v)%N; [symmetry; exact Sv|reflexivity].
  - rewrite andb_false_r. reflexivity.
Qed.
Lemma fixed_dv_some dvs i d : fixed_dv dvs i = Some d -> In d dvs /\ dv_id d = i /\ dv_subst d <> None.
Proof.
  unfold fixed_dv. intro H. apply find_some in H. destruct H as [Hin E].
  unfold has_fixed, is_id in E. apply andb_true_iff in E. destruct E as [E1 E2].
  apply N.eqb_eq in E1. split; [apply in_rev; exact Hin|]. split; [auto|].
  destruct (dv_subst d); [discriminate|discriminate].
Qed.
Lemma fixed_dv_none dvs i : fixed_dv dvs i = None <-> forall d, In d dvs -> dv_id d = i -> dv_subst d = None.
Proof.
  unfold fixed_dv. split.
  - intros H d Hin E. apply in_rev in Hin. apply (find_none _ _ H) in Hin.
    unfold has_fixed, is_id in Hin. rewrite E, N.eqb_refl in Hin. cbn [andb] in Hin.
    destruct (dv_subst d); [discriminate|reflexivity].
  - intro H. destruct (List.find (has_fixed i) (rev dvs)) as [d|] eqn:E; [|reflexivity].
    destruct (fixed_dv_some dvs i d E) as (Hin & Ei & Hs). exfalso. apply Hs. apply H; assumption.
Qed.
Lemma sget_insert_subst_none dvs s i :
  sget (insert_subst dvs s) i = None <->
  sget s i = None /\ forall d, In d dvs -> dv_id d = i -> dv_subst d = None.
Proof.
  rewrite sget_insert_subst. destruct (fixed_dv dvs i) as [d|] eqn:E.
  - destruct (fixed_dv_some dvs i d E) as (Hin & Ei & Hs). split; [intro; contradiction|].
    intros [_ H]. exfalso. apply Hs. apply H; assumption.
  - rewrite fixed_dv_none in E. tauto.
Qed.

Definition pre_deps_ok (I : instance) (s : state) : Prop :=
  bounds_valid (i_dvs I) /\ state_in_bounds (i_dvs I) s tol7 /\
  (forall c, In c (i_cs I) -> covers s (cfun c)) /\
  (forall r, In r (i_rs I) -> exists c, r_c r = Some c /\ covers s (cfun c)) /\
  kinds_ok (all_constrs I) s /\ covers s (fn_or_zero (i_obj I)).
Lemma eval_ok_split I s :
  eval_ok I s <-> pre_deps_ok I s /\ eval_deps (i_deps I) (insert_subst (i_dvs I) s) <> None.
Proof. unfold eval_ok, pre_deps_ok. tauto. Qed.

(* under the invariants of the dependency map (distinct keys; a key has neither a given nor a fixed
   value) the pass succeeds exactly when the dependencies can be evaluated one after the other in
   SOME order (seq_ok: each function only reads ids that have a value by then) *)
Theorem inst_eval_succeeds_iff_order : forall I s,
  NoDup (dkeys (i_deps I)) ->
  (forall k, In k (dkeys (i_deps I)) ->
     sget s k = None /\ forall d, In d (i_dvs I) -> dv_id d = k -> dv_subst d = None) ->
  ((exists sol, inst_eval I s = Some sol) <->
   pre_deps_ok I s /\
   exists o s1, Permutation o (i_deps I) /\ seq_ok (insert_subst (i_dvs I) s) o s1).
Proof.
  intros I s ND FR. rewrite inst_eval_succeeds_iff, eval_ok_split.
  assert (FR' : forall d, In d (dkeys (i_deps I)) -> sget (insert_subst (i_dvs I) s) d = None).
  { intros d Hd. apply sget_insert_subst_none. apply FR. exact Hd. }
  pose proof (eval_deps_fails_iff (i_deps I) (insert_subst (i_dvs I) s) ND FR') as X.
  split; intros [P D]; (split; [exact P|]).
  - destruct (eval_deps (i_deps I) (insert_subst (i_dvs I) s)) as [s1|] eqn:E; [|congruence].
    destruct (eval_deps_trace _ _ _ ND FR' E) as (o & Po & So). eauto.
  - intro E. apply X in E. apply E. exact D.
Qed.

(* ------------------------------------------------------------------ *)
(* (a) totality on simple instances *)
Lemma in_removed_constrs rs c : In c (removed_constrs rs) <-> exists r, In r rs /\ r_c r = Some c.
Proof.
  unfold removed_constrs. rewrite in_flat_map. split.
  - intros (r & Hin & Hc). exists r. split; [exact Hin|]. destruct (r_c r) as [c'|]; [|destruct Hc].
    destruct Hc as [->|[]]. reflexivity.
  - intros (r & Hin & E). exists r. split; [exact Hin|]. rewrite E. left. reflexivity.
Qed.
Lemma in_all_constrs I c :
  In c (all_constrs I) <-> In c (i_cs I) \/ exists r, In r (i_rs I) /\ r_c r = Some c.
Proof. unfold all_constrs. rewrite in_app_iff, in_removed_constrs. tauto. Qed.

(* ids occurring in the objective or in an active / removed constraint *)
Definition occurs_constr (I : instance) (i : N) : Prop :=
  exists c, In c (all_constrs I) /\ occurs (cfun c) i.
Definition occurs_in (I : instance) (i : N) : Prop :=
  occurs (fn_or_zero (i_obj I)) i \/ occurs_constr I i.

Lemma eval_deps_nil s : eval_deps [] s = Some s.
Proof. reflexivity. Qed.

(* no dependencies, valid bounds, supported equalities, every removed entry carries a constraint:
   evaluation succeeds at EVERY state whose entries are in bound (1e-7) and which gives a value to
   every occurring variable.  (Fixed values need not be excluded: without dependencies they are
   not read.) *)
Theorem inst_eval_total_simple : forall I s,
  i_deps I = [] ->
  bounds_valid (i_dvs I) ->
  (forall c, In c (i_cs I) -> supported c) ->
  (forall r, In r (i_rs I) -> exists c, r_c r = Some c /\ supported c) ->
  (forall i v, In (i, v) s -> forall d b, In d (i_dvs I) -> dv_id d = i -> dv_bound_of d = Some b ->
     bcontains b v tol7 = true) ->
  (forall i, occurs_in I i -> sget s i <> None) ->
  exists sol, inst_eval I s = Some sol.
Proof.
  intros I s ED V SC SR B C. apply inst_eval_succeeds_iff. unfold eval_ok.
  split; [exact V|]. split.
  { intros i v Hin d b E Bd. destruct (eff_dv_in _ _ _ E) as [Hd Ei]. eapply B; eauto. }
  split.
  { intros c Hc i Ho. apply C. right. exists c. split; [apply in_all_constrs; left; exact Hc|exact Ho]. }
  split.
  { intros r Hr. destruct (SR r Hr) as (c & E & _). exists c. split; [exact E|].
    intros i Ho. apply C. right. exists c. split; [apply in_all_constrs; right; eauto|exact Ho]. }
  split.
  { intros pre c post E _. assert (Hc : In c (all_constrs I)) by (rewrite E; apply in_elt).
    apply in_all_constrs in Hc. destruct Hc as [Hc|(r & Hr & Er)]; [apply SC; exact Hc|].
    destruct (SR r Hr) as (c' & E' & S'). congruence. }
  split.
  { intros i Ho. apply C. left. exact Ho. }
  rewrite ED. discriminate.
Qed.

(* the same with finite bounds written as inequalities *)
Corollary inst_eval_total_simple_fin : forall I s,
  i_deps I = [] ->
  (forall d, In d (i_dvs I) -> exists l u, dv_bound d = Some (Fin l, Fin u) /\ l <= u) ->
  (forall c, In c (i_cs I) -> supported c) ->
  (forall r, In r (i_rs I) -> exists c, r_c r = Some c /\ supported c) ->
  (forall i v, In (i, v) s -> forall d l u, In d (i_dvs I) -> dv_id d = i ->
     dv_bound d = Some (Fin l, Fin u) -> l - tol7 <= v /\ v <= u + tol7) ->
  (forall i, occurs_in I i -> sget s i <> None) ->
  exists sol, inst_eval I s = Some sol.
Proof.
  intros I s ED V SC SR B C.
  assert (BO : forall d, In d (i_dvs I) -> exists l u, dv_bound d = Some (Fin l, Fin u) /\
                 dv_bound_of d = Some (Fin l, Fin u)).
  { intros d Hd. destruct (V d Hd) as (l & u & E & Le). exists l, u. split; [exact E|].
    unfold dv_bound_of. rewrite E. unfold bcheck. cbn [is_nan orb eltb eleb].
    apply qleb_le in Le. rewrite Le. reflexivity. }
  apply inst_eval_total_simple; auto.
  - intros d Hd. destruct (BO d Hd) as (l & u & _ & ->). discriminate.
  - intros i v Hin d b Hd Ei Eb. destruct (BO d Hd) as (l & u & E & E'). rewrite E' in Eb.
    inversion Eb; subst b. destruct (B i v Hin d l u Hd Ei E) as [B1 B2].
    unfold bcontains. cbn [fst snd eadd eleb]. apply andb_true_iff. split; apply qleb_le; assumption.
Qed.

(* ------------------------------------------------------------------ *)
(* (b) frame: what success depends on *)
Lemma it_mono_val_local rho rho' m : (forall i, In i m -> rho i = rho' i) -> mono_val rho m = mono_val rho' m.
Proof.
  induction m as [|j m IH]; intro H; cbn [mono_val]; [reflexivity|].
  rewrite IH, (H j); [reflexivity|left; reflexivity|intros i Hi; apply H; right; exact Hi].
Qed.
Lemma it_val_local rho rho' (t : terms) :
  (forall i, occurs_terms t i -> rho i = rho' i) -> val rho t = val rho' t.
Proof.
  induction t as [|[m c] t IH]; intro H; [reflexivity|].
  rewrite !val_cons, IH, (it_mono_val_local rho rho' m); [reflexivity| |].
  - intros i Hi. apply H. exists m, c. split; [left; reflexivity|exact Hi].
  - intros i (m' & c' & Hin & Hm). apply H. exists m', c'. split; [right; exact Hin|exact Hm].
Qed.
Lemma cval_local c s s' : (forall i, occurs (cfun c) i -> sget s' i = sget s i) -> cval c s' = cval c s.
Proof.
  intro H. unfold cval, denote. apply it_val_local. intros i Hi. unfold total.
  rewrite (H i Hi). reflexivity.
Qed.

(* same domain on a set of ids *)
Definition dom_eq (R : N -> Prop) (s s' : state) : Prop :=
  forall i, R i -> (sget s i = None <-> sget s' i = None).

Lemma covers_dom (R : N -> Prop) f s s' : (forall i, occurs f i -> R i) -> dom_eq R s s' -> covers s f -> covers s' f.
Proof. intros HR De C i Ho G. apply (C i Ho). apply (De i (HR i Ho)). exact G. Qed.
Lemma fn_eval_dom (R : N -> Prop) f s s' : (forall i, occurs f i -> R i) -> dom_eq R s s' ->
  (fn_eval f s = None <-> fn_eval f s' = None).
Proof.
  intros HR De.
  assert (De' : dom_eq R s' s) by (intros i Ri; symmetry; apply De; exact Ri).
  split; intro H.
  - destruct (fn_eval f s') eqn:E; [|reflexivity]. exfalso.
    assert (C : covers s' f) by (apply fn_eval_defined_iff; congruence).
    apply (covers_dom R f s' s HR De') in C. apply fn_eval_defined_iff in C. contradiction.
  - destruct (fn_eval f s) eqn:E; [|reflexivity]. exfalso.
    assert (C : covers s f) by (apply fn_eval_defined_iff; congruence).
    apply (covers_dom R f s s' HR De) in C. apply fn_eval_defined_iff in C. contradiction.
Qed.
Lemma dom_eq_sset (R : N -> Prop) s s' d v v' : dom_eq R s s' -> dom_eq R (sset s d v) (sset s' d v').
Proof.
  intros De i Ri. rewrite !sget_sset. destruct (i =? d)%N; [split; discriminate|apply De; exact Ri].
Qed.

Section DepsDom.
  Variable R : N -> Prop.
  Variable deps : list (N * function).
  Hypothesis HR : forall d f i, In (d, f) deps -> occurs f i -> R i.

  Lemma deps_round_dom : forall b s s' failed s1 fl s1' fl',
    incl b deps -> dom_eq R s s' ->
    deps_round b s failed = (s1, fl) -> deps_round b s' failed = (s1', fl') ->
    fl = fl' /\ dom_eq R s1 s1'.
  Proof.
    induction b as [|[d f] b IH]; intros s s' failed s1 fl s1' fl' Hi De H H'; cbn [deps_round] in H, H'.
    - inversion H; inversion H'; subst. split; [reflexivity|exact De].
    - assert (Hb : incl b deps) by (intros x Hx; apply Hi; right; exact Hx).
      assert (Hf : forall i, occurs f i -> R i) by (intros i Ho; apply (HR d f i); [apply Hi; left; reflexivity|exact Ho]).
      pose proof (fn_eval_dom R f s s' Hf De) as X.
      destruct (fn_eval f s) as [[v ids]|] eqn:E; destruct (fn_eval f s') as [[v' ids']|] eqn:E'.
      + eapply IH; [exact Hb| |exact H|exact H']. apply dom_eq_sset. exact De.
      + exfalso. destruct X as [_ X]. specialize (X eq_refl). discriminate.
      + exfalso. destruct X as [X _]. specialize (X eq_refl). discriminate.
      + eapply IH; [exact Hb|exact De|exact H|exact H'].
  Qed.
  Lemma deps_round_incl : forall b s failed s1 fl, deps_round b s failed = (s1, fl) ->
    forall x, In x fl -> In x failed \/ In x b.
  Proof.
    induction b as [|[d f] b IH]; intros s failed s1 fl H x Hx; cbn [deps_round] in H.
    - inversion H; subst. left. exact Hx.
    - destruct (fn_eval f s) as [[v ids]|].
      + destruct (IH _ _ _ _ H x Hx) as [A|A]; [left; exact A|right; right; exact A].
      + destruct (IH _ _ _ _ H x Hx) as [A|A]; [|right; right; exact A].
        apply in_app_iff in A. destruct A as [A|[<-|[]]]; [left; exact A|right; left; reflexivity].
  Qed.
  Lemma eval_deps_fuel_dom : forall fuel bucket last s s', incl bucket deps -> dom_eq R s s' ->
    (eval_deps_fuel fuel bucket last s = None <-> eval_deps_fuel fuel bucket last s' = None).
  Proof.
    induction fuel as [|k IH]; intros bucket last s s' Hi De; cbn [eval_deps_fuel]; [tauto|].
    destruct (deps_round (rev bucket) s []) as [s1 fl] eqn:D1.
    destruct (deps_round (rev bucket) s' []) as [s1' fl'] eqn:D1'.
    assert (Hr : incl (rev bucket) deps) by (intros x Hx; apply Hi; apply in_rev; exact Hx).
    destruct (deps_round_dom _ _ _ _ _ _ _ _ Hr De D1 D1') as [<- De1].
    destruct fl as [|x fl]; [split; discriminate|].
    destruct (Nat.eqb last (List.length (x :: fl))); [tauto|].
    apply IH; [|exact De1].
    intros y Hy. destruct (deps_round_incl _ _ _ _ _ D1 y Hy) as [[]|A]. apply Hr. exact A.
  Qed.
End DepsDom.

Definition occurs_dep (I : instance) (i : N) : Prop := exists d f, In (d, f) (i_deps I) /\ occurs f i.

Lemma dom_eq_insert_subst (R : N -> Prop) dvs s s' : dom_eq R s s' -> dom_eq R (insert_subst dvs s) (insert_subst dvs s').
Proof.
  intros De i Ri. rewrite !sget_insert_subst. destruct (fixed_dv dvs i); [tauto|apply De; exact Ri].
Qed.

(* Success at s carries over to any state s' that passes the bound check, has the same VALUES on
   the ids occurring in constraints, and gives a value to the same ids among those occurring in the
   objective or in a dependency function.  Nothing else of the state matters (in particular not
   the values of dependency keys, and not whether keys or unused ids are present). *)
Theorem inst_eval_frame : forall I s s',
  check_bound (i_dvs I) s' tol7 = true ->
  (forall i, occurs_constr I i -> sget s' i = sget s i) ->
  (forall i, occurs (fn_or_zero (i_obj I)) i \/ occurs_dep I i -> (sget s i = None <-> sget s' i = None)) ->
  (exists sol, inst_eval I s = Some sol) -> exists sol', inst_eval I s' = Some sol'.
Proof.
  intros I s s' CB EC ED. rewrite !inst_eval_succeeds_iff. unfold eval_ok.
  intros (V & B & C1 & C2 & K & CO & D). apply check_bound_iff in CB. destruct CB as [_ B'].
  assert (CC : forall c, In c (all_constrs I) -> covers s (cfun c) -> covers s' (cfun c)).
  { intros c Hc C i Ho. rewrite EC; [apply C; exact Ho|]. exists c. split; assumption. }
  assert (HH : forall c, In c (all_constrs I) -> (c_holds c s' <-> c_holds c s)).
  { intros c Hc. unfold c_holds. rewrite (cval_local c s s'); [tauto|].
    intros i Ho. apply EC. exists c. split; assumption. }
  split; [exact V|]. split; [exact B'|]. split.
  { intros c Hc. apply CC; [apply in_all_constrs; left; exact Hc|apply C1; exact Hc]. }
  split.
  { intros r Hr. destruct (C2 r Hr) as (c & E & C). exists c. split; [exact E|].
    apply CC; [apply in_all_constrs; right; eauto|exact C]. }
  split.
  { intros pre c post E Hpre. apply (K pre c post E). intros c' Hc'. apply HH; [|apply Hpre; exact Hc'].
    rewrite E. apply in_or_app. left. exact Hc'. }
  split.
  { eapply (covers_dom (fun i => occurs (fn_or_zero (i_obj I)) i \/ occurs_dep I i)); [|exact ED|exact CO].
    intros i Ho. left. exact Ho. }
  intro E. apply D. unfold eval_deps in *.
  eapply (eval_deps_fuel_dom (fun i => occurs (fn_or_zero (i_obj I)) i \/ occurs_dep I i) (i_deps I));
    [| apply incl_refl | apply dom_eq_insert_subst; exact ED | exact E].
  intros d f i Hin Ho. right. exists d, f. split; assumption.
Qed.

(* two states with the same bound-check verdict and the same entries on all relevant ids (objective,
   constraints, dependency functions) succeed together *)
Corollary inst_eval_frame_iff : forall I s s',
  check_bound (i_dvs I) s tol7 = check_bound (i_dvs I) s' tol7 ->
  (forall i, occurs_in I i \/ occurs_dep I i -> sget s' i = sget s i) ->
  ((exists sol, inst_eval I s = Some sol) <-> (exists sol', inst_eval I s' = Some sol')).
Proof.
  intros I s s' CB E. split; intro H.
  - apply (inst_eval_frame I s s'); auto.
    + rewrite <- CB. destruct H as [sol H]. eapply inst_eval_accepts_in_bound; exact H.
    + intros i Hi. apply E. left. right. exact Hi.
    + intros i Hi. rewrite E; [tauto|]. destruct Hi as [Hi|Hi]; [left; left; exact Hi|right; exact Hi].
  - apply (inst_eval_frame I s' s); auto.
    + rewrite CB. destruct H as [sol H]. eapply inst_eval_accepts_in_bound; exact H.
    + intros i Hi. symmetry. apply E. left. right. exact Hi.
    + intros i Hi. rewrite E; [tauto|]. destruct Hi as [Hi|Hi]; [left; left; exact Hi|right; exact Hi].
Qed.

(* ------------------------------------------------------------------ *)
(* a decision procedure for every conjunct (diagnosis of the failure cause) *)
Definition is_some {X} (o : option X) : bool := match o with Some _ => true | None => false end.
Lemma is_some_true {X} (o : option X) : is_some o = true <-> o <> None.
Proof. destruct o; cbn; split; congruence. Qed.

Definition supportedb (c : constr) : bool := (c_eq c =? EQ_ZERO)%Z || (c_eq c =? LE_ZERO)%Z.
Definition c_holdsb (c : constr) (s : state) : bool :=
  ((c_eq c =? EQ_ZERO)%Z && qltb (qabs (cval c s)) tol6) || ((c_eq c =? LE_ZERO)%Z && qltb (cval c s) tol6).
Fixpoint kinds_okb (cl : list constr) (s : state) : bool :=
  match cl with
  | [] => true
  | c :: cl' => supportedb c && (if c_holdsb c s then kinds_okb cl' s else true)
  end.
Lemma supportedb_true c : supportedb c = true <-> supported c.
Proof. unfold supportedb, supported. rewrite orb_true_iff, !Z.eqb_eq. tauto. Qed.
Lemma c_holdsb_true c s : c_holdsb c s = true <-> c_holds c s.
Proof. unfold c_holdsb, c_holds. rewrite orb_true_iff, !andb_true_iff, !Z.eqb_eq, !qltb_lt. tauto. Qed.
Lemma kinds_ok_cons c cl s : kinds_ok (c :: cl) s <-> supported c /\ (c_holds c s -> kinds_ok cl s).
Proof.
  unfold kinds_ok. split.
  - intro H. split; [apply (H [] c cl); [reflexivity|intros ? []]|].
    intros Hc pre c' post -> Hpre. apply (H (c :: pre) c' post); [reflexivity|].
    intros x [<-|Hx]; [exact Hc|apply Hpre; exact Hx].
  - intros [H1 H2] pre c' post E Hpre. destruct pre as [|p pre]; cbn [app] in E.
    + inversion E; subst. exact H1.
    + inversion E; subst. apply (H2 (Hpre p (or_introl eq_refl)) pre c' post eq_refl).
      intros x Hx. apply Hpre. right. exact Hx.
Qed.
Lemma kinds_okb_true s : forall cl, kinds_okb cl s = true <-> kinds_ok cl s.
Proof.
  induction cl as [|c cl IH]; cbn [kinds_okb].
  - split; [intros _ pre c post E; destruct pre; discriminate|reflexivity].
  - rewrite kinds_ok_cons, andb_true_iff, supportedb_true, <- IH, <- c_holdsb_true.
    destruct (c_holdsb c s); split; intros [A B]; split; auto; discriminate.
Qed.

Definition in_boundsb (dvs : list dvar) (s : state) (atol : num) : bool :=
  forallb (fun iv => match eff_dv dvs (fst iv) with
                     | Some d => match dv_bound_of d with Some b => bcontains b (snd iv) atol | None => true end
                     | None => true end) s.
Lemma in_boundsb_true dvs s a : in_boundsb dvs s a = true <-> state_in_bounds dvs s a.
Proof.
  unfold in_boundsb, state_in_bounds. rewrite forallb_forall. split.
  - intros H i v Hin d b E B. specialize (H (i, v) Hin). cbn [fst snd] in H. rewrite E, B in H. exact H.
  - intros H [i v] Hin. cbn [fst snd]. destruct (eff_dv dvs i) as [d|] eqn:E; [|reflexivity].
    destruct (dv_bound_of d) as [b|] eqn:B; [|reflexivity]. eapply H; eauto.
Qed.

(* one boolean per conjunct of eval_ok, in order *)
Definition diagnose (I : instance) (s : state) : list bool :=
  [ forallb (fun d => is_some (dv_bound_of d)) (i_dvs I);
    in_boundsb (i_dvs I) s tol7;
    forallb (fun c => is_some (fn_eval (cfun c) s)) (i_cs I);
    forallb (fun r => match r_c r with Some c => is_some (fn_eval (cfun c) s) | None => false end) (i_rs I);
    kinds_okb (all_constrs I) s;
    is_some (fn_eval (fn_or_zero (i_obj I)) s);
    is_some (eval_deps (i_deps I) (insert_subst (i_dvs I) s)) ].

Theorem diagnose_spec : forall I s b1 b2 b3 b4 b5 b6 b7,
  diagnose I s = [b1; b2; b3; b4; b5; b6; b7] ->
  (b1 = true <-> bounds_valid (i_dvs I)) /\
  (b2 = true <-> state_in_bounds (i_dvs I) s tol7) /\
  (b3 = true <-> forall c, In c (i_cs I) -> covers s (cfun c)) /\
  (b4 = true <-> forall r, In r (i_rs I) -> exists c, r_c r = Some c /\ covers s (cfun c)) /\
  (b5 = true <-> kinds_ok (all_constrs I) s) /\
  (b6 = true <-> covers s (fn_or_zero (i_obj I))) /\
  (b7 = true <-> eval_deps (i_deps I) (insert_subst (i_dvs I) s) <> None).
Proof.
  intros I s b1 b2 b3 b4 b5 b6 b7 H. unfold diagnose in H. inversion H; subst; clear H.
  split; [|split; [|split; [|split; [|split; [|split]]]]].
  - rewrite forallb_forall. unfold bounds_valid. split; intros H d Hd; apply is_some_true; apply H; exact Hd.
  - apply in_boundsb_true.
  - rewrite forallb_forall. split; intros H c Hc.
    + apply fn_eval_defined_iff, is_some_true, H, Hc.
    + apply is_some_true, fn_eval_defined_iff, H, Hc.
  - rewrite forallb_forall. split; intros H r Hr.
    + specialize (H r Hr). destruct (r_c r) as [c|]; [|discriminate]. exists c. split; [reflexivity|].
      apply fn_eval_defined_iff, is_some_true, H.
    + destruct (H r Hr) as (c & -> & C). apply is_some_true, fn_eval_defined_iff, C.
  - apply kinds_okb_true.
  - rewrite is_some_true. apply fn_eval_defined_iff.
  - apply is_some_true.
Qed.

Corollary inst_eval_succeeds_iff_diagnose : forall I s,
  (exists sol, inst_eval I s = Some sol) <-> forallb (fun b => b) (diagnose I s) = true.
Proof.
  intros I s. rewrite inst_eval_succeeds_iff. unfold eval_ok.
  destruct (diagnose_spec I s _ _ _ _ _ _ _ eq_refl) as (H1 & H2 & H3 & H4 & H5 & H6 & H7).
  rewrite <- H1, <- H2, <- H3, <- H4, <- H5, <- H6, <- H7.
  unfold diagnose. cbn [forallb]. rewrite !andb_true_iff. tauto.
Qed.

(* ------------------------------------------------------------------ *)
(* non-vacuity.  x1 in [0,4]; x2 binary with the FIXED value 1; x9 in [2,5] unassigned; x7, x8
   dependent: x7 := x1 + x2 (reads the fixed value), x8 := 2 x7 (listed so that the pass needs a
   retry).  Active: x1 - 1 <= 0, x1 x1 - 1 = 0.  Removed: 0 = 0 (unset function). *)
Definition lin (ts : list (N * num)) (c : num) : function := FLin {| l_terms := ts; l_const := c |}.
Definition dv (i : N) (k : Z) (b : option (ext * ext)) (sv : option num) : dvar :=
  {| dv_id := i; dv_kind := k; dv_bound := b; dv_subst := sv; dv_meta := [] |}.
Definition cn (i : N) (e : Z) (f : option function) : constr :=
  {| c_id := i; c_eq := e; c_fn := f; c_meta := [] |}.
Definition rm (c : option constr) : removed := {| r_c := c; r_reason := L []; r_params := L [] |}.
Definition mk obj dvs cs rs deps : instance :=
  {| i_sense := 1; i_obj := obj; i_dvs := dvs; i_cs := cs; i_rs := rs; i_deps := deps;
     i_params := None; i_hints := L []; i_desc := L [] |}.

Definition ex_dvs : list dvar :=
  [ dv 1 3 (Some (Fin 0, Fin (qz 4))) None; dv 2 1 None (Some 1);
    dv 9 2 (Some (Fin (qz 2), Fin (qz 5))) None; dv 7 3 None None; dv 8 3 None None ].
Definition ex_obj : option function := Some (lin [(1%N, qz 2)] 0).
Definition ex_cs : list constr :=
  [ cn 3 2 (Some (lin [(1%N, 1)] (- (1)))); cn 4 1 (Some (FPoly [([1%N; 1%N], 1); ([], - (1))])) ].
Definition ex_rs : list removed := [ rm (Some (cn 5 1 None)) ].
Definition ex_deps : list (N * function) :=
  [ (7%N, lin [(1%N, 1); (2%N, 1)] 0); (8%N, lin [(7%N, qz 2)] 0) ].
Definition ex_I : instance := mk ex_obj ex_dvs ex_cs ex_rs ex_deps.
Definition ex_s : state := [(1%N, 1)].

(* success: all seven conjuncts; the reported state has x7 = 2, x8 = 4, x9 = 2, x2 = 1 *)
Example ex_ok :
  diagnose ex_I ex_s = [true; true; true; true; true; true; true] /\
  exists sol, inst_eval ex_I ex_s = Some sol /\ so_feasible sol = true /\
    sget (so_state sol) 7 = Some (qz 2) /\ sget (so_state sol) 8 = Some (qz 4) /\
    sget (so_state sol) 9 = Some (qz 2) /\ sget (so_state sol) 2 = Some 1.
Proof. split; [vm_compute; reflexivity|]. eexists. vm_compute. repeat split. Qed.
Example ex_ok_eval_ok : eval_ok ex_I ex_s.
Proof. apply inst_eval_succeeds_iff. destruct ex_ok as [_ (sol & E & _)]. eauto. Qed.
(* the order form applies to it too *)
Example ex_ok_order : exists o s1, Permutation o (i_deps ex_I) /\ seq_ok (insert_subst (i_dvs ex_I) ex_s) o s1.
Proof.
  assert (ND : NoDup (dkeys (i_deps ex_I))).
  { cbn. constructor; [intros [E|[]]; discriminate|]. constructor; [intros []|constructor]. }
  assert (FR : forall k, In k (dkeys (i_deps ex_I)) ->
     sget ex_s k = None /\ forall d, In d (i_dvs ex_I) -> dv_id d = k -> dv_subst d = None).
  { intros k [<-|[<-|[]]]; (split; [reflexivity|]);
      intros d [<-|[<-|[<-|[<-|[<-|[]]]]]]; cbn; intro E; try discriminate E; reflexivity. }
  apply (inst_eval_succeeds_iff_order ex_I ex_s ND FR). destruct ex_ok as [_ (sol & E & _)]. eauto.
Qed.

(* one failing variant per conjunct: exactly that boolean is false, and evaluation fails *)
(* 1: the bound of x9 is [5,2] *)
Example ex_fail_1 :
  let I := mk ex_obj (dv 9 2 (Some (Fin (qz 5), Fin (qz 2))) None :: ex_dvs) ex_cs ex_rs ex_deps in
  diagnose I ex_s = [false; true; true; true; true; true; true] /\ inst_eval I ex_s = None.
Proof. vm_compute. split; reflexivity. Qed.
(* 2: a SHADOWED entry x1 = 5 is outside [0,4] (sget sees x1 = 1) *)
Example ex_fail_2 :
  let s := [(1%N, 1); (1%N, qz 5)] in
  diagnose ex_I s = [true; false; true; true; true; true; true] /\ inst_eval ex_I s = None /\
  sget s 1 = Some 1.
Proof. vm_compute. repeat split. Qed.
(* 2': within the tolerance: x1 = 4 + 2^-24 (< 4 + 1e-7) is accepted, x1 = 4 + 2^-23 is not *)
Example ex_tolerance :
  let I := mk ex_obj ex_dvs [] [] ex_deps in
  (exists sol, inst_eval I [(1%N, qz 4 + q2 (-24))] = Some sol) /\ inst_eval I [(1%N, qz 4 + q2 (-23))] = None.
Proof. split; [eexists|]; vm_compute; reflexivity. Qed.
(* 3: an active constraint mentions x6, which has no value (zero coefficient: still read) *)
Example ex_fail_3 :
  let I := mk ex_obj ex_dvs (ex_cs ++ [cn 6 2 (Some (lin [(6%N, 0)] 0))]) ex_rs ex_deps in
  diagnose I ex_s = [true; true; false; true; true; true; true] /\ inst_eval I ex_s = None.
Proof. vm_compute. split; reflexivity. Qed.
(* 4: a removed entry without a constraint / whose constraint mentions the fixed variable x2
   (constraints are evaluated at the GIVEN state, fixed values are not visible to them) *)
Example ex_fail_4a :
  let I := mk ex_obj ex_dvs ex_cs (ex_rs ++ [rm None]) ex_deps in
  diagnose I ex_s = [true; true; true; false; true; true; true] /\ inst_eval I ex_s = None.
Proof. vm_compute. split; reflexivity. Qed.
Example ex_fail_4b :
  let I := mk ex_obj ex_dvs ex_cs (ex_rs ++ [rm (Some (cn 6 1 (Some (lin [(2%N, 1)] (- (1))))))]) ex_deps in
  diagnose I ex_s = [true; true; true; false; true; true; true] /\ inst_eval I ex_s = None.
Proof. vm_compute. split; reflexivity. Qed.
(* 5: an unsupported equality (0) on a removed constraint while everything before it holds ... *)
Example ex_fail_5 :
  let I := mk ex_obj ex_dvs ex_cs (ex_rs ++ [rm (Some (cn 6 0 None))]) ex_deps in
  diagnose I ex_s = [true; true; true; true; false; true; true] /\ inst_eval I ex_s = None.
Proof. vm_compute. split; reflexivity. Qed.
(* ... but the same entry is never inspected when an earlier constraint is violated (x1 = 2) *)
Example ex_sticky :
  let I := mk ex_obj ex_dvs ex_cs (ex_rs ++ [rm (Some (cn 6 0 None))]) ex_deps in
  let s := [(1%N, qz 2)] in
  diagnose I s = [true; true; true; true; true; true; true] /\
  exists sol, inst_eval I s = Some sol /\ so_feasible sol = false.
Proof. split; [vm_compute; reflexivity|]. eexists. vm_compute. split; reflexivity. Qed.
(* 6: the objective mentions x6 *)
Example ex_fail_6 :
  let I := mk (Some (lin [(1%N, qz 2); (6%N, 1)] 0)) ex_dvs ex_cs ex_rs ex_deps in
  diagnose I ex_s = [true; true; true; true; true; false; true] /\ inst_eval I ex_s = None.
Proof. vm_compute. split; reflexivity. Qed.
(* 7: a cycle x7 := x8, x8 := 2 x7 / a dependency on x6, which has no value / no fixed value for x2 *)
Example ex_fail_7a :
  let I := mk ex_obj ex_dvs ex_cs ex_rs [ (7%N, lin [(8%N, 1)] 0); (8%N, lin [(7%N, qz 2)] 0) ] in
  diagnose I ex_s = [true; true; true; true; true; true; false] /\ inst_eval I ex_s = None.
Proof. vm_compute. split; reflexivity. Qed.
Example ex_fail_7b :
  let I := mk ex_obj ex_dvs ex_cs ex_rs (ex_deps ++ [ (10%N, lin [(6%N, 1)] 0) ]) in
  diagnose I ex_s = [true; true; true; true; true; true; false] /\ inst_eval I ex_s = None.
Proof. vm_compute. split; reflexivity. Qed.
Example ex_fail_7c :
  let I := mk ex_obj (dv 1 3 (Some (Fin 0, Fin (qz 4))) None :: dv 2 1 None None :: nil) ex_cs ex_rs ex_deps in
  diagnose I ex_s = [true; true; true; true; true; true; false] /\ inst_eval I ex_s = None.
Proof. vm_compute. split; reflexivity. Qed.

(* (a) applies to the example without its dependencies *)
Example ex_simple : exists sol, inst_eval (mk ex_obj ex_dvs ex_cs ex_rs []) [(1%N, 1)] = Some sol.
Proof.
  apply inst_eval_total_simple.
  - reflexivity.
  - intros d [<-|[<-|[<-|[<-|[<-|[]]]]]]; vm_compute; discriminate.
  - intros c [<-|[<-|[]]]; [right|left]; reflexivity.
  - intros r [<-|[]]. eexists. split; [reflexivity|left; reflexivity].
  - intros i v [E|[]]. inversion E; subst i v.
    intros d b [<-|[<-|[<-|[<-|[<-|[]]]]]]; cbn [dv dv_id]; intro Ei; try discriminate Ei.
    vm_compute. intro Eb. inversion Eb; subst b. reflexivity.
  - intros i Hi. assert (i = 1%N); [|subst i; discriminate].
    destruct Hi as [Ho|(c & Hc & Ho)].
    + destruct Ho as (m & c & Hin & Hm). cbn in Hin.
      destruct Hin as [E|[E|[]]]; inversion E; subst; cbn in Hm; intuition.
    + destruct Hc as [<-|[<-|[<-|[]]]]; destruct Ho as (m & c & Hin & Hm); cbn in Hin;
        repeat (destruct Hin as [E|Hin]; [inversion E; subst; cbn in Hm; intuition|]); destruct Hin.
Qed.

Print Assumptions inst_eval_succeeds_iff.
Print Assumptions inst_eval_fails_iff.
Print Assumptions inst_eval_succeeds_iff_order.
Print Assumptions inst_eval_total_simple.
Print Assumptions inst_eval_total_simple_fin.
Print Assumptions inst_eval_frame.
Print Assumptions inst_eval_frame_iff.
Print Assumptions diagnose_spec.
Print Assumptions inst_eval_succeeds_iff_diagnose.
Print Assumptions check_bound_iff.
Print Assumptions fill_vacant_total.
Print Assumptions fn_eval_defined_iff.
Print Assumptions ex_ok.
Print Assumptions ex_ok_order.
Print Assumptions ex_simple.
