(* BoundProofs.v — validity and enclosure theorems for the interval operations of Bound.v
   (sum, scalar sum, scaling, integer rounding, contains, nearest_to_zero, intersection).
   Multiplication is in BoundMul.v, powers in BoundPow.v, evaluate_bound in BoundEval.v. *)
Require Import Ommx.Num Ommx.Poly Ommx.Msg Ommx.Bound.
From Coq Require Import Qcabs.

(* ---- boolean facts to propositions ---- *)
Ltac b2p :=
  repeat match goal with
  | H : andb _ _ = true |- _ => apply andb_true_iff in H; destruct H
  | H : orb _ _ = false |- _ => apply orb_false_iff in H; destruct H
  | H : true = true |- _ => clear H
  | H : false = false |- _ => clear H
  | H : false = true |- _ => discriminate H
  | H : true = false |- _ => discriminate H
  | H : negb _ = true |- _ => apply negb_true_iff in H
  | H : negb _ = false |- _ => apply negb_false_iff in H
  | H : qleb _ _ = true |- _ => apply qleb_le in H
  | H : qleb _ _ = false |- _ => apply qleb_gt in H
  | H : qltb _ _ = true |- _ => apply qltb_lt in H
  | H : qltb _ _ = false |- _ => apply qltb_ge in H
  | H : qeqb _ _ = true |- _ => apply qeqb_eq in H
  | H : qeqb _ _ = false |- _ => apply qeqb_neq in H
  end.
Ltac p2b :=
  repeat match goal with
  | |- andb _ _ = true => apply andb_true_iff; split
  | |- true = true => reflexivity
  | |- qleb _ _ = true => apply qleb_le
  | |- qleb _ _ = false => apply qleb_gt
  | |- qltb _ _ = true => apply qltb_lt
  | |- qltb _ _ = false => apply qltb_ge
  | |- negb _ = true => apply negb_true_iff
  | |- negb _ = false => apply negb_false_iff
  end.
(* reduce the ext-level operations, nothing on Qc *)
Ltac ecbn :=
  unfold bmem in *;
  cbn [lower upper eleb eltb eeqb eadd eneg emul emin emax is_nan is_fin esign
       andb orb negb Z.mul Pos.mul Z.opp] in *.
Ltac qarith := b2p; p2b; qc2q; try lra; try nra.

(* ---- Bound::new ---- *)
Lemma bnew_Some l u Z : bnew l u = Some Z -> Z = {| lower := l; upper := u |}.
Proof.
  unfold bnew. destruct (is_nan l || is_nan u); [discriminate|].
  destruct (eeqb l PInf || eeqb u NInf); [discriminate|].
  destruct (eltb u l); [discriminate|]. intro H; inversion H; reflexivity.
Qed.
Lemma bnew_valid l u Z : bnew l u = Some Z -> valid Z.
Proof.
  intro H. pose proof (bnew_Some _ _ _ H) as E. subst Z. unfold valid. cbn [lower upper]. exact H.
Qed.

Lemma bnew_spec l u Z : bnew l u = Some Z -> Z = {| lower := l; upper := u |} /\ valid Z.
Proof. intro H. split; [eapply bnew_Some|eapply bnew_valid]; exact H. Qed.

(* the shapes a valid bound can have *)
Lemma valid_inv X : valid X ->
  match lower X, upper X with
  | NInf, Fin _ | NInf, PInf | Fin _, PInf => True
  | Fin l, Fin u => l <= u
  | _, _ => False
  end.
Proof.
  destruct X as [[|l| |] [|u| |]]; unfold valid, bnew; ecbn; try discriminate; auto.
  destruct (qleb l u) eqn:E; ecbn; [intros _; b2p; exact E|discriminate].
Qed.
Lemma valid_intro X :
  match lower X, upper X with
  | NInf, Fin _ | NInf, PInf | Fin _, PInf => True
  | Fin l, Fin u => l <= u
  | _, _ => False
  end -> valid X.
Proof.
  destruct X as [[|l| |] [|u| |]]; unfold valid, bnew; ecbn; try contradiction; auto.
  intro H. apply qleb_le in H. rewrite H. reflexivity.
Qed.

Lemma valid_bwhole : valid bwhole. Proof. reflexivity. Qed.
Lemma valid_bzero : valid bzero. Proof. reflexivity. Qed.
Lemma valid_bone : valid bone. Proof. reflexivity. Qed.
Lemma valid_bpoint c : valid (bpoint c).
Proof. apply valid_intro. cbn [bpoint lower upper]. apply Qcle_refl. Qed.
Lemma bmem_bpoint c : bmem c (bpoint c) = true.
Proof. unfold bpoint; ecbn. p2b; apply Qcle_refl. Qed.
Lemma bmem_bwhole x : bmem x bwhole = true. Proof. reflexivity. Qed.

(* Bound::new succeeds exactly on the valid shapes *)
Lemma validb_spec X : validb X = true <-> valid X.
Proof.
  unfold validb, valid. split.
  - destruct (bnew (lower X) (upper X)) as [Z|] eqn:E; [|discriminate].
    intros _. pose proof (bnew_Some _ _ _ E) as ->. destruct X; reflexivity.
  - intros ->. reflexivity.
Qed.

(* KEY LEMMA: if computed endpoints bracket a rational point, Bound::new succeeds, the
   result satisfies the invariant and contains the point *)
Lemma bnew_enclose l u v :
  eleb l (Fin v) = true -> eleb (Fin v) u = true ->
  exists Z, bnew l u = Some Z /\ valid Z /\ bmem v Z = true.
Proof.
  intros Hl Hu.
  assert (E : bnew l u = Some {| lower := l; upper := u |}).
  { destruct l as [|a| |], u as [|b| |]; unfold bnew; ecbn; try discriminate; try reflexivity.
    assert (Q : qleb a b = true) by (qarith). rewrite Q. reflexivity. }
  eexists; split; [exact E|]. split; [eapply bnew_valid; exact E|].
  unfold bmem; cbn [lower upper]. rewrite Hl, Hu. reflexivity.
Qed.

Lemma bmem_inv x X : bmem x X = true -> eleb (lower X) (Fin x) = true /\ eleb (Fin x) (upper X) = true.
Proof. unfold bmem. intro H. apply andb_true_iff in H. exact H. Qed.

(* a non-empty [lower, upper] pair of a Bound::new result is what was passed *)
Lemma bnew_mem_iff l u Z x : bnew l u = Some Z ->
  bmem x Z = eleb l (Fin x) && eleb (Fin x) u.
Proof. intro H. apply bnew_Some in H. subst Z. reflexivity. Qed.

(* ---- sum ---- *)
Theorem badd_sound X Y x y :
  valid X -> valid Y -> bmem x X = true -> bmem y Y = true ->
  exists Z, badd X Y = Some Z /\ valid Z /\ bmem (x + y) Z = true.
Proof.
  intros VX VY HX HY. apply valid_inv in VX. apply valid_inv in VY.
  unfold badd. apply bnew_enclose;
    destruct X as [[|l1| |] [|u1| |]], Y as [[|l2| |] [|u2| |]]; ecbn;
    try contradiction; try reflexivity; qarith.
Qed.

Theorem badd_scalar_sound X c x :
  valid X -> bmem x X = true ->
  exists Z, badd_scalar X (Fin c) = Some Z /\ valid Z /\ bmem (x + c) Z = true.
Proof.
  intros VX HX. apply valid_inv in VX.
  unfold badd_scalar. apply bnew_enclose;
    destruct X as [[|l1| |] [|u1| |]]; ecbn; try contradiction; try reflexivity; qarith.
Qed.

(* ---- scaling by a non-zero number (Bound * 0.0 with an infinite endpoint is NaN: outside
   the property, and a panic in the code) ---- *)
Theorem bscale_sound X k x :
  valid X -> k <> 0 -> bmem x X = true ->
  exists Z, bscale X (Fin k) = Some Z /\ valid Z /\ bmem (k * x) Z = true.
Proof.
  intros VX K HX. apply valid_inv in VX.
  unfold bscale. cbn [eleb].
  destruct (qleb 0 k) eqn:E; apply bnew_enclose;
    destruct X as [[|l1| |] [|u1| |]]; ecbn; try contradiction; try reflexivity;
    destruct (qltb 0 k) eqn:E1; destruct (qltb k 0) eqn:E2; ecbn; try reflexivity;
    try (exfalso; qarith; fail); qarith.
Qed.

(* scaling by exactly zero is fine on finite intervals (and only there) *)
Lemma bscale_zero_finite l u : l <= u ->
  bscale {| lower := Fin l; upper := Fin u |} (Fin 0) = Some bzero.
Proof.
  intro H. unfold bscale. ecbn.
  replace (qleb 0 0) with true by (symmetry; apply qleb_le; apply Qcle_refl).
  replace (l * 0) with 0 by ring. replace (u * 0) with 0 by ring. reflexivity.
Qed.

(* ---- integer rounding ---- *)
Lemma qz_le a b : (a <= b)%Z -> qz a <= qz b.
Proof. intro H. unfold Qcle. rewrite !this_qz. rewrite <- Zle_Qle. exact H. Qed.
Lemma qz_le_inv a b : qz a <= qz b -> (a <= b)%Z.
Proof. unfold Qcle. rewrite !this_qz. rewrite <- Zle_Qle. auto. Qed.

Lemma ceil_tol_le l w : l <= qz w -> qz (qceil (l - tol6)) <= qz w.
Proof.
  intro H. apply qz_le. unfold qceil.
  rewrite <- (Qceiling_Z w).
  apply Qceiling_resp_le.
  pose proof tol6_pos as T. rewrite <- this_qz. qc2q. lra.
Qed.
Lemma floor_tol_ge u w : qz w <= u -> qz w <= qz (qfloor (u + tol6)).
Proof.
  intro H. apply qz_le. unfold qfloor.
  rewrite <- (Qfloor_Z w) at 1.
  apply Qfloor_resp_le.
  pose proof tol6_pos as T. rewrite <- this_qz. qc2q. lra.
Qed.

Theorem as_integer_bound_sound X z :
  valid X -> bmem (qz z) X = true ->
  exists R, as_integer_bound X = Some R /\ valid R /\
    forall w : Z, bmem (qz w) X = true -> bmem (qz w) R = true.
Proof.
  intros VX HX. apply valid_inv in VX.
  assert (G : forall w, bmem (qz w) X = true ->
     eleb (match lower X with Fin q => Fin (qz (qceil (q - tol6))) | e => e end) (Fin (qz w)) = true /\
     eleb (Fin (qz w)) (match upper X with Fin q => Fin (qz (qfloor (q + tol6))) | e => e end) = true).
  { intros w Hw. destruct X as [[|l1| |] [|u1| |]]; ecbn; try contradiction; b2p;
      split; try reflexivity; apply qleb_le; auto using ceil_tol_le, floor_tol_ge. }
  destruct (G z HX) as [A B].
  destruct (bnew_enclose _ _ _ A B) as (R & E & V & M).
  exists R. split; [exact E|]. split; [exact V|].
  intros w Hw. rewrite (bnew_mem_iff _ _ _ _ E). destruct (G w Hw) as [A' B'].
  rewrite A', B'. reflexivity.
Qed.

(* the rounded interval is inside the original one widened by the tolerance, and has
   integer (or infinite) endpoints *)
Lemma as_integer_bound_endpoints X Z : as_integer_bound X = Some Z ->
  (match lower Z with Fin q => exists k, q = qz k | NInf => lower X = NInf | _ => False end) /\
  (match upper Z with Fin q => exists k, q = qz k | PInf => upper X = PInf | _ => False end).
Proof.
  unfold as_integer_bound. intro H. pose proof (bnew_valid _ _ _ H) as V.
  apply bnew_Some in H. subst Z. apply valid_inv in V. cbn [lower upper] in *.
  destruct X as [[|l1| |] [|u1| |]]; cbn [lower upper] in *; try contradiction;
    split; eauto.
Qed.

(* ---- contains ---- *)
Theorem bcontains_mem X v a :
  bmem v X = true -> 0 <= a -> bcontains X (Fin v) (Fin a) = true.
Proof.
  intros H A. unfold bcontains.
  destruct X as [[|l1| |] [|u1| |]]; ecbn; b2p; try discriminate; p2b; try reflexivity; qarith.
Qed.
Theorem bcontains_zero X v : bcontains X (Fin v) (Fin 0) = bmem v X.
Proof.
  unfold bcontains, bmem.
  destruct X as [[|l1| |] [|u1| |]]; ecbn; try reflexivity;
    repeat (replace (l1 + - 0) with l1 by ring); repeat (replace (u1 + 0) with u1 by ring);
    reflexivity.
Qed.
Theorem bcontains_spec X v a :
  (bmem v X = true -> 0 <= a -> bcontains X (Fin v) (Fin a) = true) /\
  bcontains X (Fin v) (Fin 0) = bmem v X.
Proof. split; [apply bcontains_mem|apply bcontains_zero]. Qed.
(* exact meaning on finite data: lower - atol <= value <= upper + atol *)
Theorem bcontains_finite l u v a :
  bcontains {| lower := Fin l; upper := Fin u |} (Fin v) (Fin a) = true <->
  l - a <= v /\ v <= u + a.
Proof.
  unfold bcontains; ecbn. rewrite andb_true_iff, !qleb_le. unfold Qcminus. tauto.
Qed.

(* ---- nearest_to_zero ---- *)
Theorem nearest_to_zero_sound X : valid X ->
  exists v, nearest_to_zero X = Fin v /\ bmem v X = true /\
    forall x, bmem x X = true -> qabs v <= qabs x.
Proof.
  intro VX. apply valid_inv in VX. unfold nearest_to_zero, qabs.
  destruct X as [[|l1| |] [|u1| |]]; ecbn; try contradiction.
  - (* (-inf, u] *)
    destruct (qleb u1 0) eqn:E.
    + exists u1. split; [reflexivity|]. split; [p2b; apply Qcle_refl|].
      intros x Hx. b2p. rewrite (Qcabs_neg u1), (Qcabs_neg x); qarith.
    + exists 0. split; [reflexivity|]. split; [qarith|].
      intros x _. rewrite (Qcabs_pos 0); [apply Qcabs_nonneg|apply Qcle_refl].
  - exists 0. split; [reflexivity|]. split; [reflexivity|].
    intros x _. rewrite (Qcabs_pos 0); [apply Qcabs_nonneg|apply Qcle_refl].
  - destruct (qleb 0 l1) eqn:E.
    + exists l1. split; [reflexivity|]. split; [qarith|].
      intros x Hx. b2p. rewrite (Qcabs_pos l1), (Qcabs_pos x); qarith.
    + destruct (qleb u1 0) eqn:E'.
      * exists u1. split; [reflexivity|]. split; [qarith|].
        intros x Hx. b2p. rewrite (Qcabs_neg u1), (Qcabs_neg x); qarith.
      * exists 0. split; [reflexivity|]. split; [qarith|].
        intros x _. rewrite (Qcabs_pos 0); [apply Qcabs_nonneg|apply Qcle_refl].
  - destruct (qleb 0 l1) eqn:E.
    + exists l1. split; [reflexivity|]. split; [qarith|].
      intros x Hx. b2p. rewrite (Qcabs_pos l1), (Qcabs_pos x); qarith.
    + exists 0. split; [reflexivity|]. split; [qarith|].
      intros x _. rewrite (Qcabs_pos 0); [apply Qcabs_nonneg|apply Qcle_refl].
Qed.

(* ---- intersection ---- *)
Theorem bintersection_sound X Y x :
  valid X -> valid Y -> bmem x X = true -> bmem x Y = true ->
  exists Z, bintersection X Y = Some Z /\ valid Z /\ bmem x Z = true.
Proof.
  intros VX VY HX HY. apply valid_inv in VX. apply valid_inv in VY.
  unfold bintersection. apply bnew_enclose;
    destruct X as [[|l1| |] [|u1| |]], Y as [[|l2| |] [|u2| |]]; ecbn;
    try contradiction; try reflexivity; b2p;
    repeat match goal with |- context [if qleb ?a ?b then _ else _] => destruct (qleb a b) eqn:? end;
    ecbn; try reflexivity; qarith.
Qed.
Theorem bintersection_inside X Y Z x :
  valid X -> valid Y -> bintersection X Y = Some Z -> bmem x Z = true ->
  bmem x X = true /\ bmem x Y = true.
Proof.
  intros VX VY E H. apply valid_inv in VX. apply valid_inv in VY.
  unfold bintersection in E. rewrite (bnew_mem_iff _ _ _ _ E) in H. clear E.
  destruct X as [[|l1| |] [|u1| |]], Y as [[|l2| |] [|u2| |]]; ecbn;
    try contradiction;
    repeat match goal with H : context [if qleb ?a ?b then _ else _] |- _ => destruct (qleb a b) eqn:? end;
    ecbn; b2p; split; p2b; try reflexivity; qarith.
Qed.
