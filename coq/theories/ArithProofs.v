(* ArithProofs.v — soundness of every modelled operator w.r.t. the denoted polynomial. *)
Require Import Ommx.Num Ommx.Poly Ommx.Msg Ommx.Arith.

Section Proofs.
  Variable tiny : num -> bool.
  Hypothesis TE : tiny_exact tiny.
  Variable rho : valuation.

  Notation V := (val rho).

  (* ---------------- Linear ---------------- *)
  Lemma V_lin l : V (lin_terms l) = valg rho (l_terms l) + l_const l.
  Proof. apply lin_denote_eq. Qed.

  Lemma V_lin_add a b : V (lin_terms (lin_add tiny a b)) = V (lin_terms a) + V (lin_terms b).
  Proof.
    rewrite !V_lin. unfold lin_add; cbn [l_terms l_const].
    rewrite (merge_val_exact N.eqb Neqb_spec rho tiny _ TE), valg_app. ring.
  Qed.
  Lemma V_lin_new ts c : V (lin_terms (lin_new tiny ts c)) = valg rho ts + c.
  Proof.
    rewrite V_lin. unfold lin_new; cbn [l_terms l_const].
    rewrite (merge_val_exact N.eqb Neqb_spec rho tiny _ TE). ring.
  Qed.
  Lemma V_lin_add_c a c : V (lin_terms (lin_add_c a c)) = V (lin_terms a) + c.
  Proof. rewrite !V_lin. unfold lin_add_c; cbn [l_terms l_const]. ring. Qed.
  Lemma V_lin_zero : V (lin_terms lin_zero) = 0.
  Proof. rewrite V_lin. cbn [lin_zero l_terms l_const valg]. ring. Qed.
  Lemma V_lin_of_c c : V (lin_terms (lin_of_c c)) = c.
  Proof. rewrite V_lin. cbn [lin_of_c l_terms l_const valg]. ring. Qed.
  Lemma V_lin_single i c : V (lin_terms (lin_single i c)) = c * rho i.
  Proof. rewrite V_lin. cbn [lin_single l_terms l_const valg]. ring. Qed.
  Lemma valg_scale (ts : list (N * num)) k :
    valg rho (map (fun ic => (fst ic, snd ic * k)) ts) = k * valg rho ts.
  Proof.
    induction ts as [|[i c] ts IH]; cbn [map valg fst snd]; [ring|]. rewrite IH. ring.
  Qed.
  Lemma V_lin_scale a k : V (lin_terms (lin_scale a k)) = V (lin_terms a) * k.
  Proof.
    unfold lin_scale. destruct (qeqb k 0) eqn:E.
    - apply qeqb_eq in E. subst k. rewrite V_lin_zero. ring.
    - rewrite !V_lin; cbn [l_terms l_const]. rewrite valg_scale. ring.
  Qed.
  Lemma V_lin_neg a : V (lin_terms (lin_neg a)) = - V (lin_terms a).
  Proof. unfold lin_neg. rewrite V_lin_scale. ring. Qed.
  Lemma V_lin_sub a b : V (lin_terms (lin_sub tiny a b)) = V (lin_terms a) - V (lin_terms b).
  Proof. unfold lin_sub. rewrite V_lin_add, V_lin_neg. ring. Qed.
  Lemma V_lin_sub_c a c : V (lin_terms (lin_sub_c a c)) = V (lin_terms a) - c.
  Proof. unfold lin_sub_c. rewrite V_lin_add_c. ring. Qed.
  Lemma lin_is_zero_V l : lin_is_zero l = true -> V (lin_terms l) = 0.
  Proof.
    unfold lin_is_zero. rewrite V_lin. destruct (l_terms l); [|discriminate].
    intro E. apply qeqb_eq in E. rewrite E. cbn [valg]. ring.
  Qed.

  (* ---------------- pairs ---------------- *)
  Lemma V_quad2 (z : tlist (N * N)) : V (quad2 z) = valg (pkv rho) z.
  Proof.
    induction z as [|[[i j] x] z IH]; [reflexivity|].
    rewrite val_quad2_cons, IH. cbn [valg]. unfold pkv; cbn [fst snd]. ring.
  Qed.
  Lemma zip3_swap r c v :
    valg (pkv rho) (zip3 c r v) = valg (pkv rho) (zip3 r c v).
  Proof.
    revert c v; induction r as [|i r IH]; intros [|j c] [|x v]; cbn [zip3 valg]; try reflexivity.
    rewrite IH. unfold pkv; cbn [fst snd]. ring.
  Qed.
  Lemma zip3_maps (m : tlist (N * N)) :
    zip3 (map (fun kc => fst (fst kc)) m) (map (fun kc => snd (fst kc)) m) (map snd m) = m.
  Proof.
    induction m as [|[[i j] x] m IH]; cbn [map zip3 fst snd]; [reflexivity|]. rewrite IH. reflexivity.
  Qed.
  Lemma valg_norm (l : tlist (N * N)) :
    valg (pkv rho) (map (fun kc => (norm_pair (fst kc), snd kc)) l) = valg (pkv rho) l.
  Proof.
    induction l as [|[k c] l IH]; cbn [map valg fst snd]; [reflexivity|]. rewrite IH, pkv_norm. reflexivity.
  Qed.
  Lemma V_quad_terms q : V (quad_terms q) = valg (pkv rho) (q_entries q) + V (optlin_terms (q_lin q)).
  Proof. unfold quad_terms. rewrite val_app, V_quad2. reflexivity. Qed.
  Lemma V_quad_from_iter l : V (quad_terms (quad_from_iter l)) = valg (pkv rho) l.
  Proof.
    rewrite V_quad_terms. unfold quad_from_iter, q_entries; cbn [q_rows q_cols q_vals q_lin optlin_terms].
    rewrite zip3_maps, (merge_val_exact pair_eqb pair_eqb_spec (pkv rho) never _ never_exact), valg_norm.
    rewrite val_nil. ring.
  Qed.
  Lemma q_entries_cr_val q : valg (pkv rho) (q_entries_cr q) = valg (pkv rho) (q_entries q).
  Proof. apply zip3_swap. Qed.

  Lemma V_set_lin q o :
    V (quad_terms (set_lin q o)) = valg (pkv rho) (q_entries q) + V (optlin_terms o).
  Proof. rewrite V_quad_terms. reflexivity. Qed.

  (* Linear * Linear *)
  Lemma valg_prods (ta tb : list (N * num)) :
    valg (pkv rho)
      (flat_map (fun x => map (fun y => (norm_pair (fst x, fst y), snd x * snd y)) tb) ta)
    = valg rho ta * valg rho tb.
  Proof.
    induction ta as [|[i c] ta IH]; cbn [flat_map valg fst snd]; [ring|].
    rewrite valg_app, IH.
    assert (E : valg (pkv rho) (map (fun y => (norm_pair (i, fst y), c * snd y)) tb)
                = c * rho i * valg rho tb).
    { clear. induction tb as [|[j d] tb IH]; cbn [map valg fst snd]; [ring|].
      rewrite IH, pkv_norm. unfold pkv; cbn [fst snd]. ring. }
    rewrite E. ring.
  Qed.
  Lemma V_lin_mul a b : V (quad_terms (lin_mul tiny a b)) = V (lin_terms a) * V (lin_terms b).
  Proof.
    unfold lin_mul.
    set (prods := flat_map _ (l_terms a)).
    change (V (quad_terms (set_lin (quad_from_iter (merge pair_eqb never prods))
              (Some (lin_sub_c (lin_add tiny (lin_scale a (l_const b)) (lin_scale b (l_const a)))
                               (l_const b * l_const a))))) = V (lin_terms a) * V (lin_terms b)).
    rewrite V_set_lin. cbn [optlin_terms].
    rewrite V_lin_sub_c, V_lin_add, !V_lin_scale.
    pose proof (V_quad_from_iter (merge pair_eqb never prods)) as Q.
    rewrite V_quad_terms in Q. cbn [quad_from_iter q_lin optlin_terms] in Q. rewrite val_nil in Q.
    transitivity (valg (pkv rho) (merge pair_eqb never prods)
                  + (V (lin_terms a) * l_const b + V (lin_terms b) * l_const a - l_const b * l_const a)).
    { rewrite <- Q. ring. }
    rewrite (merge_val_exact pair_eqb pair_eqb_spec (pkv rho) never _ never_exact).
    unfold prods. rewrite valg_prods, !V_lin. ring.
  Qed.

  (* ---------------- Quadratic ---------------- *)
  Lemma collect_overwrite_gen (l : tlist (N * N)) : forall m,
    NoDup (keys m) -> NoDup (keys l) -> (forall k, In k (keys l) -> ~ In k (keys m)) ->
    let r := fold_left (fun m kc => upd pair_eqb (fst kc) (snd kc) m) l m in
    NoDup (keys r) /\ valg (pkv rho) r = valg (pkv rho) m + valg (pkv rho) l.
  Proof.
    induction l as [|[k c] l IH]; intros m Hm Hl Hd; cbn [fold_left fst snd].
    - split; [exact Hm|cbn [valg]; ring].
    - inversion Hl as [|? ? Hk Hl']; subst.
      assert (Hm' : NoDup (keys (upd pair_eqb k c m))) by exact (NoDup_upd pair_eqb pair_eqb_spec (pkv rho) never k c m Hm).
      destruct (IH (upd pair_eqb k c m) Hm' Hl') as [N1 E1].
      { intros k' Hk' Hin. apply (keys_upd pair_eqb pair_eqb_spec (pkv rho) never) in Hin. destruct Hin as [->|Hin].
        - apply Hk. exact Hk'.
        - apply (Hd k'); [right; exact Hk'|exact Hin]. }
      split; [exact N1|]. rewrite E1. cbn [valg].
      pose proof (valg_upd pair_eqb pair_eqb_spec (pkv rho) k c m Hm) as U.
      unfold getd in U. rewrite (find_not_in pair_eqb pair_eqb_spec k m) in U.
      + transitivity (valg (pkv rho) (upd pair_eqb k c m) + 0 * pkv rho k + valg (pkv rho) l); [ring|].
        rewrite U. ring.
      + apply Hd. left. reflexivity.
  Qed.
  Lemma collect_overwrite_val l : NoDup (keys l) ->
    NoDup (keys (collect_overwrite l)) /\ valg (pkv rho) (collect_overwrite l) = valg (pkv rho) l.
  Proof.
    intro H. destruct (collect_overwrite_gen l [] (NoDup_nil _) H) as [N1 E1].
    { intros k _ []. }
    split; [exact N1|]. unfold collect_overwrite. rewrite E1. cbn [valg]. ring.
  Qed.

  Definition qwf (q : quadratic) : Prop := NoDup (keys (q_entries_cr q)).

  Lemma V_quad_add a b : qwf a ->
    V (quad_terms (quad_add tiny a b)) = V (quad_terms a) + V (quad_terms b).
  Proof.
    intro W. unfold quad_add.
    destruct (collect_overwrite_val (q_entries_cr a) W) as [N1 E1].
    set (m := merge_from pair_eqb tiny (collect_overwrite (q_entries_cr a)) (q_entries_cr b)).
    assert (Em : valg (pkv rho) m = valg (pkv rho) (q_entries a) + valg (pkv rho) (q_entries b)).
    { unfold m. rewrite (merge_from_val_exact pair_eqb pair_eqb_spec (pkv rho) tiny _ _ TE N1).
      rewrite E1, !q_entries_cr_val. reflexivity. }
    rewrite V_set_lin.
    pose proof (V_quad_from_iter m) as Q. rewrite V_quad_terms in Q.
    cbn [quad_from_iter q_lin optlin_terms] in Q. rewrite val_nil in Q.
    assert (Q' : valg (pkv rho) (q_entries (quad_from_iter m)) = valg (pkv rho) m).
    { rewrite <- Q. ring. }
    rewrite Q', Em, !V_quad_terms.
    destruct (q_lin a) as [l|], (q_lin b) as [r|]; cbn [optlin_terms]; rewrite ?val_nil.
    - destruct (lin_is_zero (lin_add tiny l r)) eqn:Z; cbn [optlin_terms].
      + apply lin_is_zero_V in Z. rewrite V_lin_add in Z. rewrite val_nil.
        transitivity (valg (pkv rho) (q_entries a) + valg (pkv rho) (q_entries b)
                      + (V (lin_terms l) + V (lin_terms r))); [rewrite Z; ring|ring].
      + rewrite V_lin_add. ring.
    - ring.
    - ring.
    - ring.
  Qed.
  Lemma V_quad_add_lin q l : V (quad_terms (quad_add_lin tiny q l)) = V (quad_terms q) + V (lin_terms l).
  Proof.
    unfold quad_add_lin. rewrite V_set_lin, V_quad_terms.
    destruct (q_lin q); cbn [optlin_terms]; rewrite ?V_lin_add, ?val_nil; ring.
  Qed.
  Lemma V_quad_add_c q c : V (quad_terms (quad_add_c q c)) = V (quad_terms q) + c.
  Proof.
    unfold quad_add_c. rewrite V_set_lin, V_quad_terms.
    destruct (q_lin q); cbn [optlin_terms]; rewrite ?V_lin_add_c, ?V_lin_of_c, ?val_nil; ring.
  Qed.
  Lemma V_quad_zero : V (quad_terms quad_zero) = 0.
  Proof.
    rewrite V_quad_terms. cbn [quad_zero q_entries q_rows q_cols q_vals q_lin zip3 valg optlin_terms].
    rewrite V_lin_zero. ring.
  Qed.
  Lemma V_quad_of_c c : V (quad_terms (quad_of_c c)) = c.
  Proof.
    rewrite V_quad_terms. cbn [quad_of_c q_entries q_rows q_cols q_vals q_lin zip3 valg optlin_terms].
    rewrite V_lin_of_c. ring.
  Qed.
  Lemma V_quad_of_lin l : V (quad_terms (quad_of_lin l)) = V (lin_terms l).
  Proof.
    rewrite V_quad_terms. cbn [quad_of_lin q_entries q_rows q_cols q_vals q_lin zip3 valg optlin_terms]. ring.
  Qed.
  Lemma zip3_scale r c v k :
    valg (pkv rho) (zip3 r c (map (fun x => x * k) v)) = k * valg (pkv rho) (zip3 r c v).
  Proof.
    revert c v; induction r as [|i r IH]; intros [|j c] [|x v]; cbn [map zip3 valg]; try ring.
    rewrite IH. ring.
  Qed.
  Lemma V_quad_scale q k : V (quad_terms (quad_scale q k)) = V (quad_terms q) * k.
  Proof.
    unfold quad_scale. destruct (qeqb k 0) eqn:E.
    - apply qeqb_eq in E. subst k. rewrite V_quad_zero. ring.
    - rewrite !V_quad_terms. unfold q_entries; cbn [q_rows q_cols q_vals q_lin].
      rewrite zip3_scale. destruct (q_lin q); cbn [optlin_terms]; rewrite ?V_lin_scale, ?val_nil; ring.
  Qed.
  Lemma V_quad_neg q : V (quad_terms (quad_neg q)) = - V (quad_terms q).
  Proof. unfold quad_neg. rewrite V_quad_scale. ring. Qed.
  Lemma V_quad_sub a b : qwf a ->
    V (quad_terms (quad_sub tiny a b)) = V (quad_terms a) - V (quad_terms b).
  Proof. intro W. unfold quad_sub. rewrite V_quad_add by exact W. rewrite V_quad_neg. ring. Qed.
  Lemma V_quad_sub_lin a l :
    V (quad_terms (quad_sub_lin tiny a l)) = V (quad_terms a) - V (lin_terms l).
  Proof. unfold quad_sub_lin. rewrite V_quad_add_lin, V_lin_neg. ring. Qed.
  Lemma V_quad_sub_c a c : V (quad_terms (quad_sub_c a c)) = V (quad_terms a) - c.
  Proof. unfold quad_sub_c. rewrite V_quad_add_c. ring. Qed.

  (* ---------------- iterators ---------------- *)
  Lemma V_filter_nonzero (t : terms) :
    V (filter (fun mc => negb (qeqb (snd mc) 0)) t) = V t.
  Proof.
    induction t as [|[m c] t IH]; cbn [filter snd]; [reflexivity|].
    destruct (qeqb c 0) eqn:E; cbn [negb].
    - apply qeqb_eq in E. subst c. rewrite val_cons, IH. ring.
    - rewrite !val_cons, IH. reflexivity.
  Qed.
  Lemma V_lin_iter l : V (lin_iter l) = V (lin_terms l).
  Proof. apply V_filter_nonzero. Qed.
  Lemma V_quad_iter q : V (quad_iter q) = V (quad_terms q).
  Proof.
    unfold quad_iter. rewrite val_app, V_quad_terms. f_equal.
    - induction (q_entries q) as [|[[i j] x] z IH]; cbn [map fst snd]; [reflexivity|].
      rewrite val_cons, IH, mono_val_sort. cbn [mono_val valg]. unfold pkv; cbn [fst snd]. ring.
    - destruct (q_lin q); cbn [optlin_terms]; [apply V_lin_iter|reflexivity].
  Qed.
  Lemma V_poly_iter p : V (poly_iter p) = V p.
  Proof. apply val_sort_keys. Qed.

  (* ---------------- Polynomial ---------------- *)
  Lemma V_poly_from_iter t : V (poly_from_iter tiny t) = V t.
  Proof. apply (merge_val_exact ids_eqb ids_eqb_spec (mono_val rho) tiny _ TE). Qed.
  Lemma V_merge_never t : V (merge ids_eqb never t) = V t.
  Proof. apply (merge_val_exact ids_eqb ids_eqb_spec (mono_val rho) never _ never_exact). Qed.
  Lemma V_pairs (a b : terms) :
    V (flat_map (fun x => map (fun y => (sort_ids (fst y ++ fst x), snd x * snd y)) b) a) = V a * V b.
  Proof.
    induction a as [|[m c] a IH]; cbn [flat_map fst snd].
    - rewrite !val_nil. ring.
    - rewrite val_app, val_cons, IH.
      assert (E : V (map (fun y => (sort_ids (fst y ++ m), c * snd y)) b) = c * mono_val rho m * V b).
      { clear. induction b as [|[m' c'] b IH]; cbn [map fst snd].
        - rewrite val_nil. ring.
        - rewrite !val_cons, IH, mono_val_sort, mono_val_app. ring. }
      rewrite E. ring.
  Qed.
  Lemma V_mul_iters a b : V (mul_iters tiny a b) = V a * V b.
  Proof. unfold mul_iters. rewrite V_poly_from_iter, V_merge_never. apply V_pairs. Qed.
  Lemma V_quad_mul a b : V (quad_mul tiny a b) = V (quad_terms a) * V (quad_terms b).
  Proof. unfold quad_mul. rewrite V_mul_iters, !V_quad_iter. reflexivity. Qed.
  Lemma V_poly_of_c c : V (poly_of_c c) = c.
  Proof.
    unfold poly_of_c. destruct (qeqb c 0) eqn:E.
    - apply qeqb_eq in E. subst c. apply val_nil.
    - rewrite val_cons, val_nil. cbn [mono_val]. ring.
  Qed.
  Lemma V_poly_of_lin l : V (poly_of_lin tiny l) = V (lin_terms l).
  Proof. unfold poly_of_lin. rewrite V_poly_from_iter. apply V_lin_iter. Qed.
  Lemma V_poly_of_quad q : V (poly_of_quad tiny q) = V (quad_terms q).
  Proof. unfold poly_of_quad. rewrite V_poly_from_iter. apply V_quad_iter. Qed.
  Lemma V_poly_add a b : V (poly_add tiny a b) = V a + V b.
  Proof.
    unfold poly_add, val. rewrite (merge_val_exact ids_eqb ids_eqb_spec (mono_val rho) tiny _ TE).
    apply valg_app.
  Qed.
  Lemma V_poly_scale p k : V (poly_scale p k) = V p * k.
  Proof.
    unfold poly_scale. destruct (qeqb k 0) eqn:E.
    - apply qeqb_eq in E. subst k. rewrite val_nil. ring.
    - induction p as [|[m c] p IH]; cbn [map fst snd]; [rewrite val_nil; ring|].
      rewrite !val_cons, IH. ring.
  Qed.
  Lemma V_poly_neg p : V (poly_neg p) = - V p.
  Proof. unfold poly_neg. rewrite V_poly_scale. ring. Qed.
  Lemma V_poly_sub a b : V (poly_sub tiny a b) = V a - V b.
  Proof. unfold poly_sub. rewrite V_poly_add, V_poly_neg. ring. Qed.
  Lemma V_poly_mul a b : V (poly_mul tiny a b) = V a * V b.
  Proof. unfold poly_mul. rewrite V_mul_iters, !V_poly_iter. reflexivity. Qed.

End Proofs.

(* ------------------------------------------------------------------ *)
(* Function-level dispatch and the operand table *)
Section Table.
  Variable tiny : num -> bool.
  Hypothesis TE : tiny_exact tiny.

  Definition fwf (f : function) : Prop := match f with FQuad q => qwf q | _ => True end.
  Definition owf (x : operand) : Prop :=
    match x with OQuad q => qwf q | OFn f => fwf f | _ => True end.

  Ltac den rho :=
    unfold denote; cbn [fn_terms];
    repeat first
      [ rewrite (V_lin_add tiny TE rho) | rewrite (V_lin_add_c rho) | rewrite (V_lin_scale rho)
      | rewrite (V_lin_mul tiny TE rho) | rewrite (V_quad_add_lin tiny TE rho) | rewrite (V_quad_add_c rho)
      | rewrite (V_quad_scale rho) | rewrite (V_quad_mul tiny TE rho) | rewrite (V_poly_add tiny TE rho)
      | rewrite (V_poly_of_c rho) | rewrite (V_poly_of_lin tiny TE rho) | rewrite (V_poly_of_quad tiny TE rho)
      | rewrite (V_poly_scale rho) | rewrite (V_poly_mul tiny TE rho) | rewrite (V_quad_of_lin rho)
      | rewrite (V_lin_neg rho) | rewrite (V_quad_neg rho) | rewrite (V_poly_neg rho)
      | rewrite (V_lin_single rho) | rewrite val_cons | rewrite val_nil ];
    cbn [mono_val].

  Theorem fn_add_sound f g h : fwf f -> fn_add tiny f g = Some h ->
    forall rho, denote h rho = denote f rho + denote g rho.
  Proof.
    intros W E rho.
    destruct f as [|a|la|qa|pa], g as [|b|lb|qb|pb]; cbn [fn_add] in E; try discriminate;
      inversion E; subst h; clear E; den rho; try ring.
    cbn [fwf] in W. rewrite (V_quad_add tiny TE rho _ _ W). ring.
  Qed.

  Theorem fn_mul_sound f g h : fn_mul tiny f g = Some h ->
    forall rho, denote h rho = denote f rho * denote g rho.
  Proof.
    intros E rho.
    destruct f as [|a|la|qa|pa], g as [|b|lb|qb|pb]; cbn [fn_mul] in E; try discriminate;
      inversion E; subst h; clear E; den rho; ring.
  Qed.

  Theorem fn_neg_sound f h : fn_neg tiny f = Some h -> forall rho, denote h rho = - denote f rho.
  Proof.
    unfold fn_neg. intros E rho. rewrite (fn_mul_sound _ _ _ E rho).
    unfold denote at 2; cbn [fn_terms]. rewrite val_cons, val_nil. cbn [mono_val]. ring.
  Qed.

  Theorem fn_sub_sound f g h : fwf f -> fn_sub tiny f g = Some h ->
    forall rho, denote h rho = denote f rho - denote g rho.
  Proof.
    unfold fn_sub. intros W E rho. destruct (fn_neg tiny g) as [g'|] eqn:N; [|discriminate].
    rewrite (fn_add_sound _ _ _ W E rho), (fn_neg_sound _ _ N rho). ring.
  Qed.

  Lemma odenote_lift x rho : odenote (lift x) rho = odenote x rho.
  Proof.
    destruct x; cbn [lift]; try reflexivity; unfold odenote; cbn [op_terms];
      rewrite (V_lin_single rho), val_cons, val_nil; cbn [mono_val]; ring.
  Qed.
  Lemma owf_lift x : owf x -> owf (lift x).
  Proof. destruct x; cbn [lift owf]; auto. Qed.

  Ltac oden rho :=
    unfold odenote; cbn [op_terms];
    change (fun f => val rho (fn_terms f)) with (fun f => denote f rho).

  Lemma wrap_some o z : wrap o = Some z -> exists f, o = Some f /\ z = OFn f.
  Proof. destruct o as [f|]; cbn [wrap]; [|discriminate]. intro E; inversion E. eauto. Qed.

  Theorem op_add0_sound x y z : owf x -> owf y -> op_add0 tiny x y = Some z ->
    forall rho, odenote z rho = odenote x rho + odenote y rho.
  Proof.
    intros Wx Wy E rho.
    destruct x as [a|i|i|la|qa|pa|fa], y as [b|j|j|lb|qb|pb|fb]; cbn [op_add0] in E; try discriminate;
      try (inversion E; subst z; clear E; unfold odenote; cbn [op_terms]; den rho; try ring;
           cbn [owf] in Wx; rewrite (V_quad_add tiny TE rho _ _ Wx); ring);
      apply wrap_some in E; destruct E as (h & E & ->); unfold odenote; cbn [op_terms];
      fold (denote h rho).
    all: try (rewrite (fn_add_sound _ _ _ Wx E rho); unfold denote; cbn [fn_terms]; try ring).
    all: try (rewrite (fn_add_sound _ _ _ Wy E rho); unfold denote; cbn [fn_terms]; try ring).
    all: rewrite ?val_cons, ?val_nil; cbn [mono_val]; try ring.
  Qed.

  Theorem op_add_sound x y z : owf x -> owf y -> op_add tiny x y = Some z ->
    forall rho, odenote z rho = odenote x rho + odenote y rho.
  Proof.
    unfold op_add. intros Wx Wy E rho.
    rewrite (op_add0_sound _ _ _ (owf_lift _ Wx) (owf_lift _ Wy) E rho), !odenote_lift. reflexivity.
  Qed.

  Theorem op_mul0_sound x y z : op_mul0 tiny x y = Some z ->
    forall rho, odenote z rho = odenote x rho * odenote y rho.
  Proof.
    intros E rho.
    destruct x as [a|i|i|la|qa|pa|fa], y as [b|j|j|lb|qb|pb|fb]; cbn [op_mul0] in E; try discriminate;
      try (inversion E; subst z; clear E; unfold odenote; cbn [op_terms]; den rho; ring);
      apply wrap_some in E; destruct E as (h & E & ->); unfold odenote; cbn [op_terms];
      fold (denote h rho); rewrite (fn_mul_sound _ _ _ E rho); unfold denote; cbn [fn_terms];
      rewrite ?val_cons, ?val_nil; cbn [mono_val]; ring.
  Qed.

  Theorem op_mul_sound x y z : op_mul tiny x y = Some z ->
    forall rho, odenote z rho = odenote x rho * odenote y rho.
  Proof.
    unfold op_mul. intros E rho. rewrite (op_mul0_sound _ _ _ E rho), !odenote_lift. reflexivity.
  Qed.

  Theorem op_neg_sound x z : op_neg tiny x = Some z -> forall rho, odenote z rho = - odenote x rho.
  Proof.
    unfold op_neg. intros E rho. rewrite <- (odenote_lift x rho).
    destruct (lift x) as [a|i|i|la|qa|pa|fa]; try discriminate;
      try (inversion E; subst z; clear E; unfold odenote; cbn [op_terms]; den rho; ring).
    apply wrap_some in E. destruct E as (h & E & ->). unfold odenote; cbn [op_terms].
    fold (denote h rho) (denote fa rho). apply (fn_neg_sound _ _ E rho).
  Qed.

  Lemma keys_zip3_map c r v (g : num -> num) :
    keys (zip3 c r (map g v)) = keys (zip3 c r v).
  Proof.
    revert r v; induction c as [|i c IH]; intros [|j r] [|x v]; cbn [map zip3 keys fst]; try reflexivity.
    unfold keys in IH. rewrite IH. reflexivity.
  Qed.
  Lemma qwf_neg q : qwf q -> qwf (quad_neg q).
  Proof.
    unfold qwf, quad_neg, quad_scale.
    assert (E : qeqb (- (1)) 0 = false) by reflexivity. rewrite E.
    unfold q_entries_cr; cbn [q_rows q_cols q_vals]. rewrite keys_zip3_map. auto.
  Qed.
  Lemma owf_neg y y' : owf y -> op_neg tiny y = Some y' -> owf y'.
  Proof.
    unfold op_neg. intros W E.
    pose proof (owf_lift _ W) as W'.
    destruct (lift y) as [a|i|i|la|qa|pa|fa]; try discriminate;
      try (inversion E; subst y'; cbn [owf]; auto; apply qwf_neg; exact W').
    apply wrap_some in E. destruct E as (h & E & ->). cbn [owf] in *.
    unfold fn_neg in E. destruct fa; cbn [fn_mul] in E; try discriminate; inversion E; subst h; cbn [fwf]; auto.
    apply qwf_neg. exact W'.
  Qed.

  Theorem op_sub_sound x y z : owf x -> owf y -> op_sub tiny x y = Some z ->
    forall rho, odenote z rho = odenote x rho - odenote y rho.
  Proof.
    unfold op_sub. intros Wx Wy E rho. destruct (sub_defined x y); [|discriminate].
    destruct (op_neg tiny y) as [y'|] eqn:N; [|discriminate].
    rewrite (op_add0_sound _ _ _ Wx (owf_neg _ _ Wy N) E rho), (op_neg_sound _ _ N rho). ring.
  Qed.

  (* the term iterator of a function sums to the function *)
  Theorem fn_iter_val f rho :
    val rho (match f with
             | FUnset => [] | FConst c => [([], c)] | FLin l => lin_iter l
             | FQuad q => quad_iter q | FPoly p => poly_iter p end) = denote f rho.
  Proof.
    unfold denote. destruct f; cbn [fn_terms]; try reflexivity.
    - apply V_lin_iter.
    - apply V_quad_iter.
    - apply V_poly_iter.
  Qed.

End Table.

(* residual form for an arbitrary dropping test: what Linear::add and Polynomial::add lose is
   exactly a list of accumulated coefficients that passed the test *)
Lemma lin_add_residual tiny a b rho :
  let d := resid_from N.eqb tiny [] (l_terms a ++ l_terms b) in
  Forall (fun kc => tiny (snd kc) = true) d /\
  val rho (lin_terms (lin_add tiny a b)) + valg rho d = val rho (lin_terms a) + val rho (lin_terms b).
Proof.
  split; [apply resid_from_tiny|].
  rewrite !V_lin. unfold lin_add; cbn [l_terms l_const].
  pose proof (merge_val N.eqb Neqb_spec rho tiny (l_terms a ++ l_terms b)) as E.
  rewrite valg_app in E.
  transitivity (valg rho (merge N.eqb tiny (l_terms a ++ l_terms b))
                + valg rho (resid_from N.eqb tiny [] (l_terms a ++ l_terms b))
                + (l_const a + l_const b)); [ring|].
  rewrite E. ring.
Qed.
Lemma poly_add_residual tiny (a b : polynomial) rho :
  let d := resid_from ids_eqb tiny [] (a ++ b) in
  Forall (fun kc => tiny (snd kc) = true) d /\
  val rho (poly_add tiny a b) + val rho d = val rho a + val rho b.
Proof.
  split; [apply resid_from_tiny|].
  unfold poly_add, val. rewrite (merge_val ids_eqb ids_eqb_spec (mono_val rho) tiny (a ++ b)).
  apply valg_app.
Qed.
