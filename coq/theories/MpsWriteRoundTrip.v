(* MpsWriteRoundTrip.v — C18, tier B: reading what the writer model wrote.

   For every well-formed linear instance I0 (boolean predicate [wfb]):
     write_mps I0 = WOk lines,
     load_lines lines = Ok (readback I0)           (an explicit instance), and
     same_problem I0 (readback I0) = None          (the comparator of RunC18.v).
   No bound on the number of variables, constraints, terms or on the ids (below 2^64).

   Layers of the proof:
     1. tokens: [split_ws] of the lines the writer builds;
     2. decimal ids: [read_u64 (print_N n) = Some n];
     3. one written line = one operation on the tables (ROWS, COLUMNS, RHS, BOUNDS);
     4. the tables after each section, in closed form;
     5. [convert] of the final tables = [readback];
     6. the comparator accepts [readback];
     7. print_num / read_f64 round trip for terminating decimals (discharges the number hypothesis). *)
Require Import Ommx.Num Ommx.Poly Ommx.Msg Ommx.Tree Ommx.Mps Ommx.MpsSpec Ommx.MpsProofs
  Ommx.RunC17 Ommx.RunC18.
From Coq Require Import String Ascii.
Close Scope string_scope.
Open Scope list_scope.
Local Open Scope string_scope.
Local Open Scope list_scope.

(* ================================================================== *)
(* 1. strings and tokens                                                *)

Lemma sapp_nil_r a : a +++ "" = a.
Proof. unfold sapp. induction a as [|c a IH]; cbn [append]; [reflexivity|]. rewrite IH. reflexivity. Qed.
Lemma sapp_assoc a b c : (a +++ b) +++ c = a +++ (b +++ c).
Proof. unfold sapp. induction a as [|x a IH]; cbn [append]; [reflexivity|]. rewrite IH. reflexivity. Qed.
Lemma sapp_cons x a b : String x a +++ b = String x (a +++ b).
Proof. reflexivity. Qed.
Lemma sapp_nil_l b : "" +++ b = b.
Proof. reflexivity. Qed.

(* no whitespace inside *)
Fixpoint nows (s : string) : bool :=
  match s with EmptyString => true | String c s' => negb (is_ws c) && nows s' end.
(* a token: non-empty, no whitespace *)
Definition tokb (s : string) : bool := negb (sempty s) && nows s.

Lemma nows_app a b : nows (a +++ b) = nows a && nows b.
Proof.
  induction a as [|c a IH]; [reflexivity|]. rewrite sapp_cons. cbn [nows]. rewrite IH.
  rewrite andb_assoc. reflexivity.
Qed.
Lemma sempty_app a b : sempty (a +++ b) = sempty a && sempty b.
Proof. destruct a; reflexivity. Qed.
Lemma tokb_app_l a b : tokb a = true -> nows b = true -> tokb (a +++ b) = true.
Proof.
  unfold tokb. intros Ha Hb. apply andb_true_iff in Ha. destruct Ha as [H1 H2].
  rewrite sempty_app, nows_app, H2, Hb. apply negb_true_iff in H1. rewrite H1. reflexivity.
Qed.
Lemma tokb_nows a : tokb a = true -> nows a = true.
Proof. unfold tokb. intro H. apply andb_true_iff in H. tauto. Qed.

Lemma split_aux_tok t s : nows t = true ->
  split_aux (t +++ s) = (t +++ fst (split_aux s), snd (split_aux s)).
Proof.
  induction t as [|c t IH]; intro H.
  - rewrite !sapp_nil_l. destruct (split_aux s); reflexivity.
  - cbn [nows] in H. apply andb_true_iff in H. destruct H as [Hc Ht]. apply negb_true_iff in Hc.
    rewrite sapp_cons. cbn [split_aux]. rewrite (IH Ht). rewrite Hc. rewrite sapp_cons. reflexivity.
Qed.

Lemma split_ws_ws c s : is_ws c = true -> split_ws (String c s) = split_ws s.
Proof.
  intro H. unfold split_ws. cbn [split_aux]. destruct (split_aux s) as [t ts]. rewrite H. reflexivity.
Qed.
Lemma split_ws_sp s : split_ws (String " "%char s) = split_ws s.
Proof. apply split_ws_ws. reflexivity. Qed.

Lemma split_ws_tok_ws t c s : tokb t = true -> is_ws c = true ->
  split_ws (t +++ String c s) = t :: split_ws s.
Proof.
  intros Ht Hc. unfold tokb in Ht. apply andb_true_iff in Ht. destruct Ht as [Hne Hn].
  unfold split_ws at 1. rewrite (split_aux_tok t _ Hn). cbn [split_aux].
  fold (split_ws s).
  assert (E : split_aux s = (fst (split_aux s), snd (split_aux s))) by (destruct (split_aux s); reflexivity).
  rewrite E, Hc. cbn [fst snd]. rewrite sapp_nil_r.
  apply negb_true_iff in Hne. rewrite Hne. f_equal.
  unfold split_ws. rewrite E. cbn [fst snd]. destruct (split_aux s) as [u us]. reflexivity.
Qed.
Lemma split_ws_tok_sp t s : tokb t = true -> split_ws (t +++ String " "%char s) = t :: split_ws s.
Proof. intro H. apply split_ws_tok_ws; [exact H|reflexivity]. Qed.
Lemma split_ws_tok_end t : tokb t = true -> split_ws t = [t].
Proof.
  intro Ht. unfold tokb in Ht. apply andb_true_iff in Ht. destruct Ht as [Hne Hn].
  rewrite <- (sapp_nil_r t) at 1. unfold split_ws. rewrite (split_aux_tok t _ Hn). cbn [split_aux fst snd].
  rewrite sapp_nil_r. apply negb_true_iff in Hne. rewrite Hne. reflexivity.
Qed.

Lemma blank_ws c s : is_ws c = true -> blank (String c s) = blank s.
Proof. intro H. unfold blank, trim. cbn [trim_start]. rewrite H. reflexivity. Qed.
Lemma blank_sp s : blank (String " "%char s) = blank s.
Proof. apply blank_ws. reflexivity. Qed.
Lemma blank_nonws c s : is_ws c = false -> blank (String c s) = false.
Proof. intro H. unfold blank, trim. cbn [trim_start]. rewrite H. cbn [trim_end]. rewrite H. reflexivity. Qed.
Lemma blank_tok t s : tokb t = true -> blank (t +++ s) = false.
Proof.
  unfold tokb. destruct t as [|c t]; [discriminate|]. cbn [sempty negb nows andb]. intro H.
  apply andb_true_iff in H. destruct H as [H _]. apply negb_true_iff in H.
  rewrite sapp_cons. apply blank_nonws. exact H.
Qed.

Lemma strip_prefix_app p s : strip_prefix p (p +++ s) = Some s.
Proof.
  induction p as [|c p IH]; [reflexivity|]. rewrite sapp_cons. cbn [strip_prefix].
  rewrite Ascii.eqb_refl. exact IH.
Qed.

(* ================================================================== *)
(* 2. decimal natural numbers                                           *)

Definition dchar (d : N) : ascii := ascii_of_N (48 + d).

Lemma digit_cases (d : N) : (d < 10)%N ->
  d = 0%N \/ d = 1%N \/ d = 2%N \/ d = 3%N \/ d = 4%N \/ d = 5%N \/ d = 6%N \/ d = 7%N \/ d = 8%N \/ d = 9%N.
Proof. lia. Qed.
Ltac digits d H :=
  let C := fresh in
  pose proof (digit_cases d H) as C;
  repeat (destruct C as [C|C]; [subst d; reflexivity|]); subst d; reflexivity.

Lemma digit_of_dchar d : (d < 10)%N -> digit_of (dchar d) = Some d.
Proof. intro H. digits d H. Qed.
Lemma is_ws_dchar d : (d < 10)%N -> is_ws (dchar d) = false.
Proof. intro H. digits d H. Qed.
Lemma dchar_not_plus d : (d < 10)%N -> Ascii.eqb (dchar d) "+"%char = false.
Proof. intro H. digits d H. Qed.

Lemma print_N_aux_spec : forall f n acc, (n < 2 ^ N.of_nat (S f))%N ->
  (exists k, (0 < k)%N /\ forall a c,
      read_digits (print_N_aux (S f) n acc) a c = read_digits acc (a * 10 ^ k + n)%N (c + k)%N) /\
  (exists d s, (d < 10)%N /\ print_N_aux (S f) n acc = String (dchar d) s) /\
  nows (print_N_aux (S f) n acc) = nows acc.
Proof.
  induction f as [|f IH]; intros n acc Hn.
  - assert (Hd : (n / 10 = 0)%N) by (apply N.div_small; cbn in Hn; lia).
    assert (Hm : (n mod 10 = n)%N) by (apply N.mod_small; cbn in Hn; lia).
    cbn [print_N_aux]. rewrite Hd, Hm. cbn [N.eqb].
    assert (L : (n < 10)%N) by (cbn in Hn; lia).
    split; [|split].
    + exists 1%N. split; [lia|]. intros a c. cbn [read_digits]. fold (dchar n).
      rewrite (digit_of_dchar n L). rewrite N.pow_1_r. reflexivity.
    + exists n, acc. split; [exact L|reflexivity].
    + cbn [nows]. fold (dchar n). rewrite (is_ws_dchar n L). reflexivity.
  - assert (L : (n mod 10 < 10)%N) by (apply N.mod_lt; lia).
    change (print_N_aux (S (S f)) n acc)
      with (if (n / 10 =? 0)%N then String (dchar (n mod 10)) acc
            else print_N_aux (S f) (n / 10)%N (String (dchar (n mod 10)) acc)).
    destruct (n / 10 =? 0)%N eqn:E.
    + apply N.eqb_eq in E.
      assert (Hm : (n mod 10 = n)%N).
      { pose proof (N.div_mod n 10). lia. }
      split; [|split].
      * exists 1%N. split; [lia|]. intros a c. cbn [read_digits].
        rewrite (digit_of_dchar _ L). rewrite Hm. rewrite N.pow_1_r. reflexivity.
      * exists (n mod 10)%N, acc. split; [exact L|reflexivity].
      * cbn [nows]. rewrite (is_ws_dchar _ L). reflexivity.
    + assert (Hq : (n / 10 < 2 ^ N.of_nat (S f))%N).
      { apply N.div_lt_upper_bound; [lia|].
        replace (N.of_nat (S (S f))) with (N.succ (N.of_nat (S f))) in Hn by lia.
        rewrite N.pow_succ_r' in Hn. lia. }
      destruct (IH (n / 10)%N (String (dchar (n mod 10)) acc) Hq) as [[k [Hk R]] [[d [s [Hd Es]]] W]].
      split; [|split].
      * exists (k + 1)%N. split; [lia|]. intros a c. rewrite R. cbn [read_digits].
        rewrite (digit_of_dchar _ L). f_equal; [|lia].
        rewrite N.pow_add_r. pose proof (N.div_mod n 10). lia.
      * exists d, s. split; [exact Hd|exact Es].
      * rewrite W. cbn [nows]. rewrite (is_ws_dchar _ L). reflexivity.
Qed.

Lemma print_N_fuel n : (n < 2 ^ N.of_nat (S (N.to_nat (N.log2 n))))%N.
Proof.
  replace (N.of_nat (S (N.to_nat (N.log2 n)))) with (N.succ (N.log2 n)) by lia.
  destruct (N.eq_dec n 0) as [->|Hn]; [reflexivity|].
  apply N.log2_spec. lia.
Qed.

Lemma print_N_spec n :
  (exists k, (0 < k)%N /\ read_digits (print_N n) 0 0 = (n, k, "")) /\
  (exists d s, (d < 10)%N /\ print_N n = String (dchar d) s) /\
  nows (print_N n) = true.
Proof.
  unfold print_N.
  destruct (print_N_aux_spec (N.to_nat (N.log2 n)) n "" (print_N_fuel n)) as [[k [Hk R]] [D W]].
  split; [|split; [exact D|exact W]].
  exists k. split; [exact Hk|]. rewrite R. cbn [read_digits]. rewrite N.mul_0_l, !N.add_0_l. reflexivity.
Qed.

Lemma tokb_print_N n : tokb (print_N n) = true.
Proof.
  destruct (print_N_spec n) as [_ [[d [s [_ E]]] W]]. unfold tokb. rewrite W, E. reflexivity.
Qed.

Definition u64max : N := 18446744073709551616%N.

Lemma read_u64_print_N n : (n < u64max)%N -> read_u64 (print_N n) = Some n.
Proof.
  intro H. destruct (print_N_spec n) as [[k [Hk R]] [[d [s [Hd E]]] _]].
  unfold read_u64.
  assert (R0 : match print_N n with
               | String c s' => if Ascii.eqb c "+"%char then s' else print_N n
               | EmptyString => print_N n
               end = print_N n).
  { rewrite E. cbv beta iota. rewrite (dchar_not_plus d Hd). reflexivity. }
  rewrite R0, R.
  assert (K : (k =? 0)%N = false) by (apply N.eqb_neq; lia). rewrite K. cbn [sempty negb orb].
  unfold u64max in H. apply N.ltb_lt in H. rewrite H. reflexivity.
Qed.

Lemma parse_id_tag_print p n : (n < u64max)%N -> parse_id_tag p (p +++ print_N n) = Some n.
Proof.
  intro H. unfold parse_id_tag. rewrite strip_prefix_app, (read_u64_print_N n H), String.eqb_refl. reflexivity.
Qed.

Lemma name_inj p a b : (a < u64max)%N -> (b < u64max)%N -> p +++ print_N a = p +++ print_N b -> a = b.
Proof.
  intros Ha Hb E. pose proof (parse_id_tag_print p a Ha) as Pa. rewrite E, (parse_id_tag_print p b Hb) in Pa.
  congruence.
Qed.

(* ================================================================== *)
(* 3. printed numbers are tokens; the numbers that read back             *)

Lemma nows_zeros n : nows (zeros n) = true.
Proof. induction n as [|n IH]; [reflexivity|]. cbn [zeros nows]. rewrite IH. reflexivity. Qed.

Lemma tokb_print_num q : tokb (print_num q) = true.
Proof.
  unfold print_num. destruct (find_k 64 (Z.pos (Qden q)) 0) as [k|]; [|reflexivity].
  set (ip := print_N _). set (fp := print_N _).
  assert (Hi : tokb ip = true) by apply tokb_print_N.
  assert (Hf : nows fp = true) by (apply tokb_nows, tokb_print_N).
  assert (T : nows (if (k =? 0)%Z then "" else "." +++ pad_left (Z.to_nat k) fp) = true).
  { destruct (k =? 0)%Z; [reflexivity|]. rewrite nows_app. unfold pad_left. rewrite nows_app, nows_zeros, Hf. reflexivity. }
  destruct (Qnum q <? 0)%Z.
  - apply tokb_app_l; [reflexivity|]. rewrite nows_app, T, (tokb_nows _ Hi). reflexivity.
  - rewrite sapp_nil_l. apply tokb_app_l; assumption.
Qed.
Lemma tokb_print_ext x : tokb (print_ext x) = true.
Proof. destruct x; try reflexivity. apply tokb_print_num. Qed.

(* the number q survives printing and reading (exact decimal).  Boolean, so that it can be
   evaluated on a given instance; section 12 proves it for every number the printer prints as a
   terminating decimal ([num_okb_printable]) *)
Definition num_okb (q : num) : bool :=
  match read_f64 (print_num q) with Some (Fin q') => qeqb q' q | _ => false end.
Definition ext_okb (x : ext) : bool := match x with Fin q => num_okb q | _ => true end.

Lemma num_okb_read q : num_okb q = true -> read_f64 (print_num q) = Some (Fin q).
Proof.
  unfold num_okb. destruct (read_f64 (print_num q)) as [[| q'| |]|]; try discriminate.
  intro H. apply qeqb_eq in H. subst. reflexivity.
Qed.
Lemma ext_okb_read x : ext_okb x = true -> read_ext (print_ext x) = Ok x.
Proof.
  destruct x as [|q| |]; intro H; try reflexivity.
  unfold read_ext. cbn [print_ext]. rewrite (num_okb_read q H). reflexivity.
Qed.
Lemma num_okb_fin q : num_okb q = true -> read_fin (print_num q) = Ok q.
Proof. intro H. unfold read_fin. rewrite (num_okb_read q H). reflexivity. Qed.

(* ================================================================== *)
(* 4. one written line = one operation on the tables                    *)

Definition ST (cur : cursor) (b : bool) (m : mps) : pstate :=
  {| p_cur := cur; p_int := b; p_wait := false; p_done := false; p_free := []; p_mps := m |}.

Lemma run_lines_app l1 : forall l2 st,
  run_lines (l1 ++ l2) st = let? st' := run_lines l1 st in run_lines l2 st'.
Proof.
  induction l1 as [|x l1 IH]; intros l2 st; cbn [app run_lines rbind]; [reflexivity|].
  destruct (step st x); cbn [rbind]; [apply IH|reflexivity].
Qed.

Lemma step_fields cur b m line :
  blank line = false -> first_is "*"%char line = false -> first_is " "%char line = true ->
  step (ST cur b m) line = read_fields (ST cur b m) line (split_ws line).
Proof. intros H1 H2 H3. unfold step. cbn [p_done p_wait ST]. rewrite H1, H2, H3. reflexivity. Qed.

Lemma step_header cur b m line :
  blank line = false -> first_is "*"%char line = false -> first_is " "%char line = false ->
  step (ST cur b m) line = read_header (ST cur b m) line.
Proof. intros H1 H2 H3. unfold step. cbn [p_done p_wait ST]. rewrite H1, H2, H3. reflexivity. Qed.

Lemma step_section cur b m :
  step (ST cur b m) "ROWS" = Ok (ST CRows b m) /\
  step (ST cur b m) "COLUMNS" = Ok (ST CColumns b m) /\
  step (ST cur b m) "RHS" = Ok (ST CRhs b m) /\
  step (ST cur b m) "BOUNDS" = Ok (ST CBounds b m) /\
  step (ST cur b m) "ENDATA" = Ok (ST CEnd b m) /\
  step (ST cur b m) "" = Ok (ST cur b m).
Proof. repeat split; reflexivity. Qed.

(* whitespace runs *)
Fixpoint allws (s : string) : bool :=
  match s with EmptyString => true | String c s' => is_ws c && allws s' end.
Definition wsb (s : string) : bool := negb (sempty s) && allws s.

Lemma split_ws_allws w s : allws w = true -> split_ws (w +++ s) = split_ws s.
Proof.
  induction w as [|c w IH]; intro H; [reflexivity|]. cbn [allws] in H. apply andb_true_iff in H.
  destruct H as [Hc Hw]. rewrite sapp_cons, (split_ws_ws c _ Hc). apply IH. exact Hw.
Qed.
Lemma split_ws_tok_wsb t w s : tokb t = true -> wsb w = true ->
  split_ws (t +++ w +++ s) = t :: split_ws s.
Proof.
  intros Ht Hw. unfold wsb in Hw. destruct w as [|c w]; [discriminate|]. cbn [sempty negb allws andb] in Hw.
  apply andb_true_iff in Hw. destruct Hw as [Hc Hw]. rewrite sapp_cons.
  rewrite (split_ws_tok_ws t c _ Ht Hc). f_equal. apply split_ws_allws. exact Hw.
Qed.
Lemma blank_allws w s : allws w = true -> blank (w +++ s) = blank s.
Proof.
  induction w as [|c w IH]; intro H; [reflexivity|]. cbn [allws] in H. apply andb_true_iff in H.
  destruct H as [Hc Hw]. rewrite sapp_cons, (blank_ws c _ Hc). apply IH. exact Hw.
Qed.

Lemma split_2 w0 t1 w1 t2 : allws w0 = true -> tokb t1 = true -> wsb w1 = true -> tokb t2 = true ->
  split_ws (w0 +++ t1 +++ w1 +++ t2) = [t1; t2].
Proof.
  intros. rewrite split_ws_allws, split_ws_tok_wsb, split_ws_tok_end by assumption. reflexivity.
Qed.
Lemma split_3 w0 t1 w1 t2 w2 t3 :
  allws w0 = true -> tokb t1 = true -> wsb w1 = true -> tokb t2 = true -> wsb w2 = true -> tokb t3 = true ->
  split_ws (w0 +++ t1 +++ w1 +++ t2 +++ w2 +++ t3) = [t1; t2; t3].
Proof.
  intros. rewrite split_ws_allws, !split_ws_tok_wsb, split_ws_tok_end by assumption. reflexivity.
Qed.
Lemma split_4 w0 t1 w1 t2 w2 t3 w3 t4 :
  allws w0 = true -> tokb t1 = true -> wsb w1 = true -> tokb t2 = true -> wsb w2 = true -> tokb t3 = true ->
  wsb w3 = true -> tokb t4 = true ->
  split_ws (w0 +++ t1 +++ w1 +++ t2 +++ w2 +++ t3 +++ w3 +++ t4) = [t1; t2; t3; t4].
Proof.
  intros. rewrite split_ws_allws, !split_ws_tok_wsb, split_ws_tok_end by assumption. reflexivity.
Qed.
Lemma blank_line w0 t1 s : allws w0 = true -> tokb t1 = true -> blank (w0 +++ t1 +++ s) = false.
Proof. intros. rewrite blank_allws by assumption. apply blank_tok. assumption. Qed.

(* the tables in explicit form *)
Definition MPS (n : string) (mx : bool) (o : string) (c : list (string * num))
  (a : list (string * list (string * num))) (rb : list (string * num)) (e g l : list string) (k : mcols) : mps :=
  {| m_name := n; m_max := mx; m_obj := o; m_c := c;
     m_rows := {| r_a := a; r_b := rb; r_eq := e; r_ge := g; r_le := l |}; m_cols := k |}.

(* ---- header lines ---- *)
Lemma step_name n0 : step pstate0 ("NAME " +++ n0) =
  Ok (ST CName false (MPS (trim (" " +++ n0)) false "" [] [] [] [] [] [] cols0)).
Proof. reflexivity. Qed.
Lemma step_sense nm (mxs : bool) :
  step (ST CName false (MPS nm false "" [] [] [] [] [] [] cols0)) ("OBJSENSE " +++ (if mxs then "MAX" else "MIN")) =
  Ok (ST CName false (MPS nm mxs "" [] [] [] [] [] [] cols0)).
Proof. destruct mxs; reflexivity. Qed.

(* ---- ROWS ---- *)
Lemma step_row_obj b n mx c a rb e g l k :
  step (ST CRows b (MPS n mx "" c a rb e g l k)) " N OBJ" = Ok (ST CRows b (MPS n mx "OBJ" c a rb e g l k)).
Proof. reflexivity. Qed.

Lemma step_row b n mx o c a rb e g l k (le : bool) name : tokb name = true ->
  step (ST CRows b (MPS n mx o c a rb e g l k)) (" " +++ (if le then "L" else "E") +++ " " +++ name) =
  Ok (ST CRows b (MPS n mx o c (insert name [] a) rb
                      (if le then e else sadd name e) g (if le then sadd name l else l) k)).
Proof.
  intro Hn.
  assert (Ht : tokb (if le then "L" else "E") = true) by (destruct le; reflexivity).
  rewrite step_fields; [|apply blank_line; [reflexivity|exact Ht]|reflexivity|reflexivity].
  rewrite split_2; [|reflexivity|exact Ht|reflexivity|exact Hn].
  destruct le; reflexivity.
Qed.

(* ---- COLUMNS ---- *)
Definition dcl (v : string) (b : bool) (k : mcols) : mcols :=
  {| c_vars := sadd v (c_vars k);
     c_int := if b then sadd v (c_int k) else c_int k;
     c_bin := c_bin k;
     c_real := if b then c_real k else sadd v (c_real k);
     c_u := c_u k; c_l := c_l k |}.

Definition eline (v r n : string) : string := "    " +++ v +++ "  " +++ r +++ "  " +++ n.

Lemma step_entry_pre b m v r n : tokb v = true -> tokb r = true -> tokb n = true ->
  (r =? "'MARKER'") = false ->
  step (ST CColumns b m) (eline v r n) =
  let? m' := add_coef [] v (r, n) (declare_col v b m) in Ok (ST CColumns b m').
Proof.
  intros Hv Hr Hn Hm. unfold eline.
  rewrite step_fields; [|apply blank_line; [reflexivity|exact Hv]|reflexivity|reflexivity].
  rewrite split_3; [|reflexivity|exact Hv|reflexivity|exact Hr|reflexivity|exact Hn].
  unfold read_fields. cbn [p_cur ST]. unfold parse_column. cbn [len35 negb]. rewrite Hm.
  cbn [rbind text_pairs add_coefs p_free p_int p_mps ST].
  destruct (add_coef [] v (r, n) (declare_col v b m)); reflexivity.
Qed.

Lemma step_entry_obj b n mx c a rb e g l k v q : tokb v = true -> num_okb q = true ->
  step (ST CColumns b (MPS n mx "OBJ" c a rb e g l k)) (eline v "OBJ" (print_num q)) =
  Ok (ST CColumns b (MPS n mx "OBJ" (insert v q c) a rb e g l (dcl v b k))).
Proof.
  intros Hv Hq. rewrite step_entry_pre; [|exact Hv|reflexivity|apply tokb_print_num|reflexivity].
  unfold add_coef. rewrite (num_okb_fin q Hq). reflexivity.
Qed.

Lemma step_entry_row b n mx c a rb e g l k v r q es : tokb v = true -> tokb r = true -> num_okb q = true ->
  (r =? "'MARKER'") = false -> (r =? "OBJ") = false -> lookup r a = Some es ->
  step (ST CColumns b (MPS n mx "OBJ" c a rb e g l k)) (eline v r (print_num q)) =
  Ok (ST CColumns b (MPS n mx "OBJ" c (insert r (insert v q es) a) rb e g l (dcl v b k))).
Proof.
  intros Hv Hr Hq Hm Ho Hl. rewrite step_entry_pre; [|exact Hv|exact Hr|apply tokb_print_num|exact Hm].
  unfold add_coef. rewrite (num_okb_fin q Hq).
  cbn [rbind declare_col m_obj m_rows MPS r_a smem existsb]. rewrite Ho, Hl. reflexivity.
Qed.

Lemma step_marker b m counter org :
  step (ST CColumns b m) (marker_line counter org) = Ok (ST CColumns org m).
Proof.
  unfold marker_line.
  change ("    MARK" +++ print_N counter +++ "   'MARKER'      " +++ (if org then "'INTORG'" else "'INTEND'"))
    with ("    " +++ ("MARK" +++ print_N counter) +++ "   " +++ "'MARKER'" +++ "      " +++
          (if org then "'INTORG'" else "'INTEND'")).
  assert (T1 : tokb ("MARK" +++ print_N counter) = true).
  { apply tokb_app_l; [reflexivity|apply tokb_nows, tokb_print_N]. }
  assert (T3 : tokb (if org then "'INTORG'" else "'INTEND'") = true) by (destruct org; reflexivity).
  rewrite step_fields; [|apply blank_line; [reflexivity|exact T1]|reflexivity|reflexivity].
  rewrite split_3; [|reflexivity|exact T1|reflexivity|reflexivity|reflexivity|exact T3].
  destruct org; reflexivity.
Qed.

(* ---- RHS ---- *)
Lemma step_rhs b n mx o c a rb e g l k r q : tokb r = true -> num_okb q = true ->
  step (ST CRhs b (MPS n mx o c a rb e g l k)) ("  RHS1    " +++ r +++ "   " +++ print_num q) =
  Ok (ST CRhs b (MPS n mx o c a (insert r q rb) e g l k)).
Proof.
  intros Hr Hq.
  change ("  RHS1    " +++ r +++ "   " +++ print_num q)
    with ("  " +++ "RHS1" +++ "    " +++ r +++ "   " +++ print_num q).
  rewrite step_fields; [|apply blank_line; reflexivity|reflexivity|reflexivity].
  rewrite split_3; [|reflexivity|reflexivity|reflexivity|exact Hr|reflexivity|apply tokb_print_num].
  unfold read_fields. cbn [p_cur ST len35 negb tl parse_pairs]. rewrite (num_okb_fin q Hq). reflexivity.
Qed.

(* ---- BOUNDS ---- *)
(* the statements the writer produces: UP/LO/UI/LI with a readable value, or FR *)
Definition stmt_okb (s : bstmt) : bool :=
  tokb (b_col s) &&
  match b_kw s with
  | UP | LO | UI | LI => ext_okb (b_val s)
  | FR => match b_val s with Fin q => qeqb q 0 | _ => false end
  | _ => false
  end.

Lemma step_bound b m s : stmt_okb s = true ->
  step (ST CBounds b m) (stmt_line s) = Ok (ST CBounds b (set_cols m (apply_bound (m_cols m) s))).
Proof.
  destruct s as [kw x v]. unfold stmt_okb. cbn [b_col b_kw b_val]. intro H.
  apply andb_true_iff in H. destruct H as [Hx Hk]. unfold stmt_line. cbn [b_col b_kw b_val].
  assert (Tk : tokb (kw_word kw) = true) by (destruct kw; reflexivity).
  destruct (kw_needs_value kw) eqn:NV.
  - change ("  " +++ kw_word kw +++ " BND1    " +++ x +++ "  " +++ print_ext v)
      with ("  " +++ kw_word kw +++ " " +++ "BND1" +++ "    " +++ x +++ "  " +++ print_ext v).
    rewrite step_fields; [|apply blank_line; [reflexivity|exact Tk]|reflexivity|reflexivity].
    rewrite split_4; [|reflexivity|exact Tk|reflexivity|reflexivity|reflexivity|exact Hx|reflexivity|apply tokb_print_ext].
    unfold read_fields. cbn [p_cur ST]. unfold parse_bound.
    destruct kw; try discriminate; cbn [kw_word kw_of String.eqb Ascii.eqb Bool.eqb kw_needs_value];
      rewrite (ext_okb_read v Hk); reflexivity.
  - change ("  " +++ kw_word kw +++ " BND1    " +++ x)
      with ("  " +++ kw_word kw +++ " " +++ "BND1" +++ "    " +++ x).
    rewrite step_fields; [|apply blank_line; [reflexivity|exact Tk]|reflexivity|reflexivity].
    rewrite split_3; [|reflexivity|exact Tk|reflexivity|reflexivity|reflexivity|exact Hx].
    destruct kw; try discriminate.
    destruct v as [|q| |]; try discriminate. apply qeqb_eq in Hk. subst q. reflexivity.
Qed.

(* ================================================================== *)
(* 5. association lists                                                 *)

Lemma lookup_none {V} k (m : list (string * V)) : lookup k m = None <-> ~ In k (map fst m).
Proof.
  induction m as [|[k' v] m IH]; cbn [lookup map fst In]; [tauto|].
  destruct (k =? k') eqn:E.
  - apply String.eqb_eq in E. subst. split; [discriminate|]. intro H. exfalso. apply H. left. reflexivity.
  - apply String.eqb_neq in E. rewrite IH. split; [intros H [H1|H1]; [congruence|contradiction]|tauto].
Qed.
Lemma insert_fresh {V} k (v : V) m : ~ In k (map fst m) -> insert k v m = m ++ [(k, v)].
Proof.
  induction m as [|[k' v'] m IH]; cbn [insert map fst In app]; intro H; [reflexivity|].
  destruct (k =? k') eqn:E.
  - apply String.eqb_eq in E. subst. exfalso. apply H. left. reflexivity.
  - rewrite IH; [reflexivity|tauto].
Qed.
Lemma lookup_app_fresh {V} k (m1 m2 : list (string * V)) :
  ~ In k (map fst m1) -> lookup k (m1 ++ m2) = lookup k m2.
Proof.
  induction m1 as [|[k' v'] m1 IH]; cbn [lookup map fst In app]; intro H; [reflexivity|].
  destruct (k =? k') eqn:E.
  - apply String.eqb_eq in E. subst. exfalso. apply H. left. reflexivity.
  - apply IH. tauto.
Qed.
Lemma insert_app_fresh {V} k (v w : V) m1 m2 :
  ~ In k (map fst m1) -> insert k v (m1 ++ (k, w) :: m2) = m1 ++ (k, v) :: m2.
Proof.
  induction m1 as [|[k' v'] m1 IH]; cbn [insert map fst In app]; intro H.
  - rewrite String.eqb_refl. reflexivity.
  - destruct (k =? k') eqn:E.
    + apply String.eqb_eq in E. subst. exfalso. apply H. left. reflexivity.
    + rewrite IH; [reflexivity|tauto].
Qed.
Lemma sadd_idem v l : sadd v (sadd v l) = sadd v l.
Proof. unfold sadd at 1. rewrite smem_sadd_same. reflexivity. Qed.
Lemma dcl_idem v b k : dcl v b (dcl v b k) = dcl v b k.
Proof.
  unfold dcl. cbn [c_vars c_int c_bin c_real c_u c_l]. rewrite sadd_idem.
  destruct b; rewrite sadd_idem; reflexivity.
Qed.
Lemma smem_in x l : smem x l = true <-> In x l.
Proof.
  unfold smem. rewrite existsb_exists. split.
  - intros [y [Hy E]]. apply String.eqb_eq in E. subst. exact Hy.
  - intro H. exists x. split; [exact H|apply String.eqb_refl].
Qed.
Lemma sadd_fresh x l : ~ In x l -> sadd x l = l ++ [x].
Proof.
  intro H. unfold sadd. destruct (smem x l) eqn:E; [|reflexivity]. apply smem_in in E. contradiction.
Qed.

Definition is_nil {X} (l : list X) : bool := match l with [] => true | _ => false end.

(* ================================================================== *)
(* 6. what the writer writes, in closed form                            *)

Definition linb (f : function) : bool := match as_linear f with Some _ => true | None => false end.
Definition lin_of_fn (f : function) : linear := match as_linear f with Some l => l | None => lin0 end.
Lemma linb_as f : linb f = true -> as_linear f = Some (lin_of_fn f).
Proof. unfold linb, lin_of_fn. destruct (as_linear f); [reflexivity|discriminate]. Qed.

Definition isint (v : dvar) : bool := ((dv_kind v =? 1) || (dv_kind v =? 2))%N.
Definition cf (v : dvar) (l : linear) : num := coef_sum (dv_id v) (l_terms l).
Definition ent (v : dvar) (l : linear) : list (string * num) :=
  if qeqb (cf v l) 0 then [] else [(dvar_name v, cf v l)].
Definition ents (vs : list dvar) (l : linear) : list (string * num) := flat_map (fun v => ent v l) vs.
Definition elines (v : dvar) (r : string) (l : linear) : list string :=
  map (fun e => eline (fst e) r (print_num (snd e))) (ent v l).

Lemma w_col_entry_eq v r f : linb f = true ->
  w_col_entry (dv_id v) (dvar_name v) r f = WOk (elines v r (lin_of_fn f)).
Proof.
  intro H. unfold w_col_entry. rewrite (linb_as f H). unfold elines, ent, cf.
  destruct (qeqb (coef_sum (dv_id v) (l_terms (lin_of_fn f))) 0); reflexivity.
Qed.

Definition clin (c : cons) : linear := lin_of_fn (cn_fn c).
Definition clines (v : dvar) (cs : list cons) : list string :=
  flat_map (fun c => elines v (constr_name c) (clin c)) cs.

Lemma w_col_constraints_eq v cs : forallb (fun c => linb (cn_fn c)) cs = true ->
  w_col_constraints (dv_id v) (dvar_name v) cs = WOk (clines v cs).
Proof.
  induction cs as [|c cs IH]; intro H; [reflexivity|]. cbn [forallb] in H. apply andb_true_iff in H.
  destruct H as [Hc Hcs]. cbn [w_col_constraints]. rewrite (w_col_entry_eq v _ _ Hc), (IH Hcs). reflexivity.
Qed.

Definition rhs_lines (cs : list cons) : list string :=
  flat_map (fun c => rhs_line (constr_name c) (l_const (clin c))) cs.
Lemma w_rhs_constraints_eq cs : forallb (fun c => linb (cn_fn c)) cs = true ->
  w_rhs_constraints cs = WOk (rhs_lines cs).
Proof.
  induction cs as [|c cs IH]; intro H; [reflexivity|]. cbn [forallb] in H. apply andb_true_iff in H.
  destruct H as [Hc Hcs]. cbn [w_rhs_constraints]. rewrite (linb_as _ Hc), (IH Hcs). reflexivity.
Qed.

(* the variable the writer looks up for a used id *)
Definition var_or (I0 : inst) (id : N) : dvar :=
  match var_by_id I0 id with Some v => v
  | None => {| dv_id := id; dv_kind := 0; dv_bound := None; dv_name := None |} end.
Lemma w_bounds_loop_eq I0 ids :
  forallb (fun id => match var_by_id I0 id with Some _ => true | None => false end) ids = true ->
  w_bounds_loop I0 ids = WOk (flat_map (fun id => bound_lines (var_or I0 id)) ids).
Proof.
  induction ids as [|id ids IH]; intro H; [reflexivity|]. cbn [forallb] in H. apply andb_true_iff in H.
  destruct H as [Hi Hr]. cbn [w_bounds_loop flat_map]. unfold var_or at 1.
  destruct (var_by_id I0 id); [|discriminate]. rewrite (IH Hr). reflexivity.
Qed.

(* ================================================================== *)
(* 7. the sections, one after the other                                 *)

Lemma tokb_cname c : tokb (constr_name c) = true.
Proof. unfold constr_name. apply tokb_app_l; [reflexivity|apply tokb_nows, tokb_print_N]. Qed.
Lemma tokb_vname v : tokb (dvar_name v) = true.
Proof. unfold dvar_name. apply tokb_app_l; [reflexivity|apply tokb_nows, tokb_print_N]. Qed.
Lemma cname_not_marker c : (constr_name c =? "'MARKER'") = false.
Proof. reflexivity. Qed.
Lemma cname_not_obj c : (constr_name c =? "OBJ") = false.
Proof. reflexivity. Qed.

(* ---- ROWS ---- *)
Definition is_le (c : cons) : bool := (cn_eq c =? 2)%N.
Definition rows_lines (cs : list cons) : list string :=
  map (fun c => " " +++ (if (cn_eq c =? 2)%N then "L" else "E") +++ " " +++ constr_name c) cs.
Definition rowsA (cs : list cons) (a : list (string * list (string * num))) :=
  fold_left (fun a c => insert (constr_name c) [] a) cs a.
Definition rowsE (cs : list cons) (e : list string) :=
  fold_left (fun e c => if is_le c then e else sadd (constr_name c) e) cs e.
Definition rowsL (cs : list cons) (l : list string) :=
  fold_left (fun l c => if is_le c then sadd (constr_name c) l else l) cs l.

Lemma rows_phase b n mx o c rb g k cs : forall a e l,
  run_lines (rows_lines cs) (ST CRows b (MPS n mx o c a rb e g l k)) =
  Ok (ST CRows b (MPS n mx o c (rowsA cs a) rb (rowsE cs e) g (rowsL cs l) k)).
Proof.
  induction cs as [|x cs IH]; intros a e l; [reflexivity|].
  cbn [rows_lines map run_lines]. rewrite (step_row b n mx o c a rb e g l k (cn_eq x =? 2)%N _ (tokb_cname x)).
  cbn [rbind]. fold (rows_lines cs). rewrite IH. reflexivity.
Qed.

Lemma rowsA_closed cs : forall a, NoDup (map fst a ++ map constr_name cs) ->
  rowsA cs a = a ++ map (fun c => (constr_name c, [])) cs.
Proof.
  induction cs as [|x cs IH]; intros a H; cbn [rowsA fold_left map]; [rewrite app_nil_r; reflexivity|].
  fold (rowsA cs (insert (constr_name x) [] a)).
  assert (Hx : ~ In (constr_name x) (map fst a)).
  { intro Hi. apply NoDup_remove_2 in H. apply H. apply in_or_app. left. exact Hi. }
  rewrite (insert_fresh _ _ _ Hx). rewrite IH.
  - rewrite <- app_assoc. reflexivity.
  - rewrite map_app. cbn [map fst]. rewrite <- app_assoc. cbn [app]. exact H.
Qed.

Lemma rowsE_mem x cs : forall e,
  smem x (rowsE cs e) = smem x e || existsb (fun c => (constr_name c =? x) && negb (is_le c)) cs.
Proof.
  induction cs as [|c cs IH]; intro e; cbn [rowsE fold_left existsb]; [rewrite orb_false_r; reflexivity|].
  fold (rowsE cs (if is_le c then e else sadd (constr_name c) e)). rewrite IH.
  destruct (is_le c); cbn [negb]; [rewrite andb_false_r; reflexivity|]. rewrite andb_true_r.
  destruct (string_dec (constr_name c) x) as [E|E].
  - rewrite E, smem_sadd_same, String.eqb_refl. rewrite orb_true_r. reflexivity.
  - rewrite (smem_sadd_other _ _ _ E). apply String.eqb_neq in E. rewrite E. reflexivity.
Qed.
Lemma rowsL_mem x cs : forall l,
  smem x (rowsL cs l) = smem x l || existsb (fun c => (constr_name c =? x) && is_le c) cs.
Proof.
  induction cs as [|c cs IH]; intro l; cbn [rowsL fold_left existsb]; [rewrite orb_false_r; reflexivity|].
  fold (rowsL cs (if is_le c then sadd (constr_name c) l else l)). rewrite IH.
  destruct (is_le c); [|rewrite andb_false_r; reflexivity]. rewrite andb_true_r.
  destruct (string_dec (constr_name c) x) as [E|E].
  - rewrite E, smem_sadd_same, String.eqb_refl. rewrite orb_true_r. reflexivity.
  - rewrite (smem_sadd_other _ _ _ E). apply String.eqb_neq in E. rewrite E. reflexivity.
Qed.

(* ---- COLUMNS ---- *)
Definition rowT (done : list dvar) (c : cons) : string * list (string * num) :=
  (constr_name c, ents done (clin c)).
Definition tabA (done : list dvar) (cs : list cons) := map (rowT done) cs.

Lemma tabA_keys done cs : map fst (tabA done cs) = map constr_name cs.
Proof. unfold tabA. rewrite map_map. reflexivity. Qed.
Lemma ents_keys done l x : In x (map fst (ents done l)) -> In x (map dvar_name done).
Proof.
  induction done as [|v done IH]; cbn [ents flat_map map]; [tauto|]. rewrite map_app, in_app_iff.
  intros [H|H]; [left|right; apply IH; exact H].
  unfold ent in H. destruct (qeqb (cf v l) 0); cbn [map fst In] in H; tauto.
Qed.
Lemma ents_app d1 d2 l : ents (d1 ++ d2) l = ents d1 l ++ ents d2 l.
Proof. unfold ents. apply flat_map_app. Qed.
Lemma ents_one v l : ents [v] l = ent v l.
Proof. unfold ents. cbn [flat_map]. apply app_nil_r. Qed.

Section Column.
  Variables (b : bool) (n : string) (mx : bool) (rb : list (string * num)) (e g l : list string).
  Variables (done : list dvar) (v : dvar).
  Hypothesis fresh : ~ In (dvar_name v) (map dvar_name done).

  Lemma sweep : forall cs2 cs1 c0 k,
    NoDup (map constr_name (cs1 ++ cs2)) ->
    forallb (fun c => qeqb (cf v (clin c)) 0 || num_okb (cf v (clin c))) cs2 = true ->
    run_lines (clines v cs2)
      (ST CColumns b (MPS n mx "OBJ" c0 (tabA (done ++ [v]) cs1 ++ tabA done cs2) rb e g l k)) =
    Ok (ST CColumns b (MPS n mx "OBJ" c0 (tabA (done ++ [v]) (cs1 ++ cs2)) rb e g l
          (if is_nil (clines v cs2) then k else dcl (dvar_name v) b k))).
  Proof.
    induction cs2 as [|c cs2 IH]; intros cs1 c0 k ND OK.
    - cbn [clines flat_map run_lines is_nil tabA map]. rewrite !app_nil_r. reflexivity.
    - cbn [forallb] in OK. apply andb_true_iff in OK. destruct OK as [OKc OK].
      assert (ND' : NoDup (map constr_name ((cs1 ++ [c]) ++ cs2))) by (rewrite <- app_assoc; exact ND).
      assert (Hc : ~ In (constr_name c) (map fst (tabA (done ++ [v]) cs1))).
      { rewrite tabA_keys. rewrite map_app in ND. cbn [map] in ND. apply NoDup_remove_2 in ND.
        intro Hi. apply ND. apply in_or_app. left. exact Hi. }
      cbn [clines flat_map]. fold (clines v cs2). unfold elines, ent.
      destruct (qeqb (cf v (clin c)) 0) eqn:Z.
      + cbn [map app].
        assert (E : tabA (done ++ [v]) cs1 ++ tabA done (c :: cs2) =
                    tabA (done ++ [v]) (cs1 ++ [c]) ++ tabA done cs2).
        { unfold tabA. rewrite map_app, <- app_assoc. cbn [map app]. f_equal. f_equal.
          unfold rowT. f_equal. rewrite ents_app, ents_one. unfold ent. rewrite Z. symmetry. apply app_nil_r. }
        rewrite E, (IH (cs1 ++ [c]) c0 k ND' OK). rewrite <- app_assoc. reflexivity.
      + cbn [orb] in OKc. cbn [map app fst snd run_lines].
        change (tabA done (c :: cs2)) with ((constr_name c, ents done (clin c)) :: tabA done cs2).
        rewrite (step_entry_row b n mx c0 _ rb e g l k (dvar_name v) (constr_name c) (cf v (clin c))
                   (ents done (clin c)) (tokb_vname v) (tokb_cname c) OKc (cname_not_marker c) (cname_not_obj c)).
        2:{ rewrite (lookup_app_fresh _ _ _ Hc). cbn [lookup]. rewrite String.eqb_refl. reflexivity. }
        cbn [rbind]. rewrite (insert_app_fresh _ _ _ _ _ Hc).
        assert (Hv : ~ In (dvar_name v) (map fst (ents done (clin c)))).
        { intro Hi. apply fresh. eapply ents_keys. exact Hi. }
        rewrite (insert_fresh _ _ _ Hv).
        assert (E : tabA (done ++ [v]) cs1 ++
                    (constr_name c, ents done (clin c) ++ [(dvar_name v, cf v (clin c))]) :: tabA done cs2 =
                    tabA (done ++ [v]) (cs1 ++ [c]) ++ tabA done cs2).
        { unfold tabA. rewrite map_app, <- app_assoc. cbn [map app]. f_equal. f_equal.
          unfold rowT. f_equal. rewrite ents_app, ents_one. unfold ent. rewrite Z. reflexivity. }
        rewrite E, (IH (cs1 ++ [c]) c0 _ ND' OK). rewrite <- app_assoc. cbn [is_nil].
        rewrite dcl_idem. destruct (is_nil (clines v cs2)); reflexivity.
  Qed.
End Column.

Definition objl (I0 : inst) : linear := lin_of_fn (in_obj I0).
Definition vlines (I0 : inst) (v : dvar) : list string :=
  elines v "OBJ" (objl I0) ++ clines v (in_cons I0).
Definition has (I0 : inst) (v : dvar) : bool := negb (is_nil (vlines I0 v)).
Definition colsT (I0 : inst) (vs : list dvar) (k : mcols) : mcols :=
  fold_left (fun k v => if has I0 v then dcl (dvar_name v) (isint v) k else k) vs k.

(* the numbers on the column lines of v read back *)
Definition col_nums_okb (I0 : inst) (v : dvar) : bool :=
  (qeqb (cf v (objl I0)) 0 || num_okb (cf v (objl I0))) &&
  forallb (fun c => qeqb (cf v (clin c)) 0 || num_okb (cf v (clin c))) (in_cons I0).

Lemma column_v I0 b n mx rb e g l done v k :
  ~ In (dvar_name v) (map dvar_name done) ->
  NoDup (map constr_name (in_cons I0)) ->
  col_nums_okb I0 v = true ->
  run_lines (vlines I0 v)
    (ST CColumns b (MPS n mx "OBJ" (ents done (objl I0)) (tabA done (in_cons I0)) rb e g l k)) =
  Ok (ST CColumns b (MPS n mx "OBJ" (ents (done ++ [v]) (objl I0)) (tabA (done ++ [v]) (in_cons I0)) rb e g l
        (if is_nil (vlines I0 v) then k else dcl (dvar_name v) b k))).
Proof.
  intros fresh ND OK. unfold col_nums_okb in OK. apply andb_true_iff in OK. destruct OK as [OKo OKc].
  unfold vlines. rewrite run_lines_app.
  change (tabA done (in_cons I0)) with (tabA (done ++ [v]) [] ++ tabA done (in_cons I0)).
  rewrite ents_app, ents_one. unfold elines, ent.
  destruct (qeqb (cf v (objl I0)) 0) eqn:Z.
  - cbn [map run_lines rbind app]. rewrite app_nil_r.
    rewrite (sweep b n mx rb e g l done v fresh (in_cons I0) [] _ k ND OKc). reflexivity.
  - cbn [orb] in OKo. cbn [map fst snd run_lines].
    rewrite (step_entry_obj b n mx _ _ rb e g l k (dvar_name v) _ (tokb_vname v) OKo). cbn [rbind].
    assert (Hv : ~ In (dvar_name v) (map fst (ents done (objl I0)))).
    { intro Hi. apply fresh. eapply ents_keys. exact Hi. }
    rewrite (insert_fresh _ _ _ Hv).
    rewrite (sweep b n mx rb e g l done v fresh (in_cons I0) [] _ _ ND OKc). cbn [app is_nil].
    rewrite dcl_idem. destruct (is_nil (clines v (in_cons I0))); reflexivity.
Qed.

Definition mark_of (block is_int : bool) (counter : N) : list string :=
  if is_int then (if block then [] else [marker_line counter true])
  else (if block then [marker_line counter false] else []).
Definition counter_of (block is_int : bool) (counter : N) : N :=
  if is_int then (if block then counter else counter + 1)%N
  else (if block then counter + 1 else counter)%N.
Fixpoint cols_lines (I0 : inst) (vs : list dvar) (block : bool) (counter : N) : list string :=
  match vs with
  | [] => if block then [marker_line counter false] else []
  | v :: vs' => mark_of block (isint v) counter ++ vlines I0 v ++
                cols_lines I0 vs' (isint v) (counter_of block (isint v) counter)
  end.

Lemma w_columns_loop_eq I0 : linb (in_obj I0) = true ->
  forallb (fun c => linb (cn_fn c)) (in_cons I0) = true ->
  forall vs block counter, w_columns_loop I0 vs block counter = WOk (cols_lines I0 vs block counter).
Proof.
  intros Ho Hc. induction vs as [|v vs IH]; intros block counter; [reflexivity|].
  cbn [w_columns_loop cols_lines]. fold (isint v).
  rewrite (w_col_entry_eq v OBJ_NAME _ Ho), (w_col_constraints_eq v _ Hc).
  unfold mark_of, counter_of, vlines, objl.
  destruct (isint v), block; rewrite IH; cbn [app]; rewrite <- ?app_assoc; reflexivity.
Qed.

Lemma run_mark block is_int counter m :
  run_lines (mark_of block is_int counter) (ST CColumns block m) = Ok (ST CColumns is_int m).
Proof.
  unfold mark_of. destruct is_int, block; cbn [run_lines]; rewrite ?step_marker; reflexivity.
Qed.

Lemma cols_phase I0 n mx rb e g l :
  NoDup (map constr_name (in_cons I0)) ->
  forall vs done block counter k,
  NoDup (map dvar_name (done ++ vs)) ->
  forallb (col_nums_okb I0) vs = true ->
  exists b',
  run_lines (cols_lines I0 vs block counter)
    (ST CColumns block (MPS n mx "OBJ" (ents done (objl I0)) (tabA done (in_cons I0)) rb e g l k)) =
  Ok (ST CColumns b' (MPS n mx "OBJ" (ents (done ++ vs) (objl I0)) (tabA (done ++ vs) (in_cons I0)) rb e g l
        (colsT I0 vs k))).
Proof.
  intros NDc. induction vs as [|v vs IH]; intros done block counter k ND OK.
  - rewrite app_nil_r. cbn [cols_lines colsT fold_left]. destruct block.
    + exists false. cbn [run_lines]. rewrite step_marker. reflexivity.
    + exists false. reflexivity.
  - cbn [forallb] in OK. apply andb_true_iff in OK. destruct OK as [OKv OK].
    assert (fresh : ~ In (dvar_name v) (map dvar_name done)).
    { rewrite map_app in ND. cbn [map] in ND. apply NoDup_remove_2 in ND. intro Hi. apply ND.
      apply in_or_app. left. exact Hi. }
    assert (ND' : NoDup (map dvar_name ((done ++ [v]) ++ vs))) by (rewrite <- app_assoc; exact ND).
    destruct (IH (done ++ [v]) (isint v) (counter_of block (isint v) counter)
                 (if is_nil (vlines I0 v) then k else dcl (dvar_name v) (isint v) k) ND' OK) as [b' R].
    exists b'. cbn [cols_lines]. rewrite run_lines_app, run_mark. cbn [rbind]. rewrite run_lines_app.
    rewrite (column_v I0 (isint v) n mx rb e g l done v k fresh NDc OKv). cbn [rbind].
    rewrite R. rewrite <- app_assoc. cbn [app colsT fold_left]. unfold has.
    destruct (is_nil (vlines I0 v)); reflexivity.
Qed.

(* ---- RHS ---- *)
Definition rhs_ent (name : string) (c : num) : list (string * num) :=
  if qeqb c 0 then [] else [(name, - c)].
Definition rhs_text (e : string * num) : string := "  RHS1    " +++ fst e +++ "   " +++ print_num (snd e).
Definition rbT (es : list (string * num)) (rb : list (string * num)) :=
  fold_left (fun rb e => insert (fst e) (snd e) rb) es rb.

Lemma rhs_line_ent name c : rhs_line name c = map rhs_text (rhs_ent name c).
Proof. unfold rhs_line, rhs_ent. destruct (qeqb c 0); reflexivity. Qed.
Lemma flat_map_map {X Y Z} (f : Y -> Z) (g : X -> list Y) l :
  flat_map (fun x => map f (g x)) l = map f (flat_map g l).
Proof. induction l as [|x l IH]; cbn [flat_map map]; [reflexivity|]. rewrite map_app, IH. reflexivity. Qed.

Lemma rhs_phase b n mx o c a e g l k es : forall rb,
  forallb (fun e => tokb (fst e) && num_okb (snd e)) es = true ->
  run_lines (map rhs_text es) (ST CRhs b (MPS n mx o c a rb e g l k)) =
  Ok (ST CRhs b (MPS n mx o c a (rbT es rb) e g l k)).
Proof.
  induction es as [|[r q] es IH]; intros rb H; [reflexivity|].
  cbn [forallb fst snd] in H. apply andb_true_iff in H. destruct H as [H1 H2].
  apply andb_true_iff in H1. destruct H1 as [Hr Hq].
  cbn [map run_lines]. unfold rhs_text at 1. cbn [fst snd].
  rewrite (step_rhs b n mx o c a rb e g l k r q Hr Hq). cbn [rbind]. rewrite (IH _ H2). reflexivity.
Qed.

Lemma rbT_lookup x es : forall rb, NoDup (map fst es) ->
  lookup x (rbT es rb) = match lookup x es with Some q => Some q | None => lookup x rb end.
Proof.
  induction es as [|[k q] es IH]; intros rb ND; [reflexivity|].
  cbn [map fst] in ND. inversion ND as [|? ? Hn Hd]; subst.
  cbn [rbT fold_left fst snd lookup]. fold (rbT es (insert k q rb)). rewrite (IH _ Hd).
  destruct (x =? k) eqn:E.
  - apply String.eqb_eq in E. subst x.
    assert (Z : lookup k es = None) by (apply lookup_none; exact Hn). rewrite Z. apply lookup_insert_same.
  - apply String.eqb_neq in E. rewrite (lookup_insert_other k x q rb) by congruence. reflexivity.
Qed.

Definition rhs_ents (xs : list (string * num)) : list (string * num) :=
  flat_map (fun x => rhs_ent (fst x) (snd x)) xs.
Lemma rhs_ents_keys xs k : In k (map fst (rhs_ents xs)) -> In k (map fst xs).
Proof.
  induction xs as [|[k' v'] xs IH]; cbn [rhs_ents flat_map map fst snd]; [tauto|].
  fold (rhs_ents xs). rewrite map_app, in_app_iff. intros [H|H]; [|right; apply IH; exact H].
  unfold rhs_ent in H. destruct (qeqb v' 0); cbn [map fst In] in H; [tauto|]. left. tauto.
Qed.
Lemma rhs_ents_nodup xs : NoDup (map fst xs) -> NoDup (map fst (rhs_ents xs)).
Proof.
  induction xs as [|[k v] xs IH]; cbn [rhs_ents flat_map map fst snd]; intro ND; [constructor|].
  fold (rhs_ents xs). inversion ND as [|? ? Hn Hd]; subst.
  unfold rhs_ent. destruct (qeqb v 0); cbn [map fst app]; [apply IH; exact Hd|].
  constructor; [|apply IH; exact Hd]. intro Hi. apply Hn. apply rhs_ents_keys. exact Hi.
Qed.
Lemma rhs_ents_lookup xs : NoDup (map fst xs) -> forall k v, In (k, v) xs ->
  lookup k (rhs_ents xs) = if qeqb v 0 then None else Some (- v).
Proof.
  induction xs as [|[k' v'] xs IH]; intros ND k v Hin; [destruct Hin|].
  cbn [map fst] in ND. inversion ND as [|? ? Hn Hd]; subst.
  cbn [rhs_ents flat_map fst snd]. fold (rhs_ents xs). destruct Hin as [E|Hin].
  - inversion E; subst. unfold rhs_ent. destruct (qeqb v 0); cbn [app lookup].
    + apply lookup_none. intro Hi. apply Hn. apply rhs_ents_keys. exact Hi.
    + rewrite String.eqb_refl. reflexivity.
  - assert (N : k <> k').
    { intro E. subst k'. apply Hn. apply in_map_iff. exists (k, v). split; [reflexivity|exact Hin]. }
    unfold rhs_ent. destruct (qeqb v' 0); cbn [app lookup]; [apply IH; assumption|].
    apply String.eqb_neq in N. rewrite N. apply IH; assumption.
Qed.
Lemma rhs_of_rbT xs : NoDup (map fst xs) -> forall k v, In (k, v) xs ->
  rhs_of (rbT (rhs_ents xs) []) k = - v.
Proof.
  intros ND k v Hin. unfold rhs_of. rewrite (rbT_lookup k _ [] (rhs_ents_nodup xs ND)).
  rewrite (rhs_ents_lookup xs ND k v Hin). destruct (qeqb v 0) eqn:Z; [|reflexivity].
  apply qeqb_eq in Z. subst v. cbn [lookup]. ring.
Qed.

(* ---- BOUNDS ---- *)
Lemma bounds_phase b ss : forall m, forallb stmt_okb ss = true ->
  run_lines (map stmt_line ss) (ST CBounds b m) =
  Ok (ST CBounds b (set_cols m (fold_left apply_bound ss (m_cols m)))).
Proof.
  induction ss as [|s ss IH]; intros m H.
  - destruct m. reflexivity.
  - cbn [forallb] in H. apply andb_true_iff in H. destruct H as [Hs Hr].
    cbn [map run_lines]. rewrite (step_bound b m s Hs). cbn [rbind]. rewrite (IH _ Hr). reflexivity.
Qed.

Definition bound_okb (v : dvar) : bool :=
  match dv_bound v with Some (lo, up) => ext_okb lo && ext_okb up | None => true end.
Lemma num_okb_01 : num_okb 0 = true /\ num_okb 1 = true.
Proof. split; vm_compute; reflexivity. Qed.
Lemma written_stmts_ok v : bound_okb v = true -> forallb stmt_okb (written_stmts v) = true.
Proof.
  unfold bound_okb, written_stmts. destruct (dv_bound v) as [[lo up]|].
  - intro H. apply andb_true_iff in H. destruct H as [Hl Hu].
    destruct ((dv_kind v =? 1) || (dv_kind v =? 2))%N; cbn [forallb]; unfold stmt_okb; cbn [b_col b_kw b_val];
      rewrite (tokb_vname v), Hl, Hu; reflexivity.
  - intros _. destruct (dv_kind v =? 1)%N; cbn [forallb]; unfold stmt_okb; cbn [b_col b_kw b_val ext_okb];
      rewrite (tokb_vname v); [rewrite (proj1 num_okb_01), (proj2 num_okb_01)|]; reflexivity.
Qed.

(* ================================================================== *)
(* 8. the whole text                                                    *)

Definition written (I0 : inst) : list string :=
  w_beginning I0 ++ w_rows I0 ++ ("COLUMNS" :: cols_lines I0 (in_dvars I0) false 0) ++
  ("RHS" :: rhs_line OBJ_NAME (l_const (objl I0)) ++ rhs_lines (in_cons I0)) ++
  ("BOUNDS" :: flat_map (fun id => bound_lines (var_or I0 id)) (used_ids I0)) ++ ["ENDATA"; ""].

Definition wf_lin (I0 : inst) : bool :=
  linb (in_obj I0) && forallb (fun c => linb (cn_fn c)) (in_cons I0).
Definition wf_used (I0 : inst) : bool :=
  forallb (fun id => match var_by_id I0 id with Some _ => true | None => false end) (used_ids I0).

Lemma write_mps_eq I0 : wf_lin I0 = true -> wf_used I0 = true -> write_mps I0 = WOk (written I0).
Proof.
  unfold wf_lin, wf_used. intros H Hu. apply andb_true_iff in H. destruct H as [Ho Hc].
  unfold write_mps. rewrite (w_columns_loop_eq I0 Ho Hc). unfold w_rhs.
  rewrite (w_rhs_constraints_eq _ Hc), (linb_as _ Ho), (w_bounds_loop_eq I0 _ Hu). reflexivity.
Qed.

Lemma step_ROWS cur b m : step (ST cur b m) "ROWS" = Ok (ST CRows b m). Proof. reflexivity. Qed.
Lemma step_COLUMNS cur b m : step (ST cur b m) "COLUMNS" = Ok (ST CColumns b m). Proof. reflexivity. Qed.
Lemma step_RHS cur b m : step (ST cur b m) "RHS" = Ok (ST CRhs b m). Proof. reflexivity. Qed.
Lemma step_BOUNDS cur b m : step (ST cur b m) "BOUNDS" = Ok (ST CBounds b m). Proof. reflexivity. Qed.
Lemma step_ENDATA cur b m : step (ST cur b m) "ENDATA" = Ok (ST CEnd b m). Proof. reflexivity. Qed.
Lemma step_empty cur b m : step (ST cur b m) "" = Ok (ST cur b m). Proof. reflexivity. Qed.

Fixpoint nodupb_in (l : list N) : NoDup l <-> nodupb l = true.
Proof.
  destruct l as [|x l]; cbn [nodupb].
  - split; [reflexivity|constructor].
  - rewrite andb_true_iff, negb_true_iff, <- nodupb_in. split.
    + intro H. inversion H as [|? ? Hn Hd]; subst. split; [|exact Hd].
      apply not_true_is_false. intro M. apply Hn. unfold mem in M. apply existsb_exists in M.
      destruct M as [y [Hy E]]. apply N.eqb_eq in E. subst. exact Hy.
    + intros [Hn Hd]. constructor; [|exact Hd]. intro Hi.
      assert (M : mem x l = true) by (unfold mem; apply existsb_exists; exists x; split; [exact Hi|apply N.eqb_refl]).
      congruence.
Qed.

Lemma NoDup_map_on {X Y} (f : X -> Y) l :
  (forall a b, In a l -> In b l -> f a = f b -> a = b) -> NoDup l -> NoDup (map f l).
Proof.
  induction l as [|x l IH]; intros Hinj ND; cbn [map]; [constructor|].
  inversion ND as [|? ? Hn Hd]; subst. constructor.
  - intro Hi. apply in_map_iff in Hi. destruct Hi as [y [E Hy]].
    assert (y = x) by (apply Hinj; [right; exact Hy|left; reflexivity|exact E]). subst. contradiction.
  - apply IH; [|exact Hd]. intros a b' Ha Hb. apply Hinj; right; assumption.
Qed.

Definition wf_ids (I0 : inst) : bool :=
  nodupb (map cn_id (in_cons I0)) && nodupb (map dv_id (in_dvars I0)) &&
  forallb (fun c => (cn_id c <? u64max)%N) (in_cons I0) &&
  forallb (fun v => (dv_id v <? u64max)%N) (in_dvars I0).

Lemma wf_ids_facts I0 : wf_ids I0 = true ->
  NoDup (map cn_id (in_cons I0)) /\ NoDup (map dv_id (in_dvars I0)) /\
  (forall c, In c (in_cons I0) -> (cn_id c < u64max)%N) /\
  (forall v, In v (in_dvars I0) -> (dv_id v < u64max)%N).
Proof.
  unfold wf_ids. intro H. repeat (apply andb_true_iff in H; destruct H as [H ?]).
  repeat split.
  - apply nodupb_in. assumption.
  - apply nodupb_in. assumption.
  - intros c Hc. match goal with H : forallb _ (in_cons I0) = true |- _ => rewrite forallb_forall in H; apply N.ltb_lt; apply (H c Hc) end.
  - intros v Hv. match goal with H : forallb _ (in_dvars I0) = true |- _ => rewrite forallb_forall in H; apply N.ltb_lt; apply (H v Hv) end.
Qed.

Lemma cnames_nodup cs : NoDup (map cn_id cs) -> (forall c, In c cs -> (cn_id c < u64max)%N) ->
  NoDup (map constr_name cs).
Proof.
  intros ND B. change (map constr_name cs) with (map (fun c => CONSTR_PREFIX +++ print_N (cn_id c)) cs).
  rewrite <- (map_map cn_id (fun i => CONSTR_PREFIX +++ print_N i)).
  apply NoDup_map_on; [|exact ND]. intros a b' Ha Hb E.
  apply in_map_iff in Ha. destruct Ha as [ca [<- Hca]]. apply in_map_iff in Hb. destruct Hb as [cb [<- Hcb]].
  eapply name_inj; [apply B; exact Hca|apply B; exact Hcb|exact E].
Qed.
Lemma vnames_nodup vs : NoDup (map dv_id vs) -> (forall v, In v vs -> (dv_id v < u64max)%N) ->
  NoDup (map dvar_name vs).
Proof.
  intros ND B. change (map dvar_name vs) with (map (fun v => VAR_PREFIX +++ print_N (dv_id v)) vs).
  rewrite <- (map_map dv_id (fun i => VAR_PREFIX +++ print_N i)).
  apply NoDup_map_on; [|exact ND]. intros a b' Ha Hb E.
  apply in_map_iff in Ha. destruct Ha as [ca [<- Hca]]. apply in_map_iff in Hb. destruct Hb as [cb [<- Hcb]].
  eapply name_inj; [apply B; exact Hca|apply B; exact Hcb|exact E].
Qed.

(* the numbers that are printed *)
Definition rhs_xs (I0 : inst) : list (string * num) :=
  (OBJ_NAME, l_const (objl I0)) :: map (fun c => (constr_name c, l_const (clin c))) (in_cons I0).
Definition wf_nums (I0 : inst) : bool :=
  forallb (col_nums_okb I0) (in_dvars I0) &&
  forallb (fun x => qeqb (snd x) 0 || num_okb (- snd x)) (rhs_xs I0) &&
  forallb (fun id => bound_okb (var_or I0 id)) (used_ids I0).

(* the tables after the last line *)
Definition nameT (I0 : inst) : string :=
  trim (" " +++ match in_name I0 with Some n => n | None => "Converted OMMX problem" end).
Definition BS (I0 : inst) : list bstmt := flat_map (fun id => written_stmts (var_or I0 id)) (used_ids I0).
Definition KT (I0 : inst) : mcols :=
  finish_cols (fold_left apply_bound (BS I0) (colsT I0 (in_dvars I0) cols0)).
Definition RB (I0 : inst) : list (string * num) := rbT (rhs_ents (rhs_xs I0)) [].
Definition tablesT (I0 : inst) : mps :=
  MPS (nameT I0) (in_sense I0 =? 2)%N "OBJ" (ents (in_dvars I0) (objl I0)) (tabA (in_dvars I0) (in_cons I0))
      (RB I0) (rowsE (in_cons I0) []) [] (rowsL (in_cons I0) []) (KT I0).

Lemma flat_map_of_map {X Y Z} (g : X -> Y) (f : Y -> list Z) l :
  flat_map f (map g l) = flat_map (fun x => f (g x)) l.
Proof. induction l as [|x l IH]; cbn [map flat_map]; [reflexivity|]. rewrite IH. reflexivity. Qed.

Lemma rhs_text_all I0 :
  rhs_line OBJ_NAME (l_const (objl I0)) ++ rhs_lines (in_cons I0) = map rhs_text (rhs_ents (rhs_xs I0)).
Proof.
  unfold rhs_xs, rhs_ents. cbn [flat_map fst snd]. rewrite map_app, <- rhs_line_ent. f_equal.
  unfold rhs_lines. rewrite flat_map_of_map. cbn [fst snd]. rewrite <- flat_map_map.
  apply flat_map_ext. intro c. apply rhs_line_ent.
Qed.

Lemma rhs_ents_ok xs :
  forallb (fun x => tokb (fst x)) xs = true ->
  forallb (fun x => qeqb (snd x) 0 || num_okb (- snd x)) xs = true ->
  forallb (fun e => tokb (fst e) && num_okb (snd e)) (rhs_ents xs) = true.
Proof.
  induction xs as [|[k v] xs IH]; intros H1 H2; [reflexivity|].
  cbn [forallb fst snd] in H1, H2. apply andb_true_iff in H1. destruct H1 as [Hk H1].
  apply andb_true_iff in H2. destruct H2 as [Hv H2].
  cbn [rhs_ents flat_map fst snd]. fold (rhs_ents xs). rewrite forallb_app, (IH H1 H2), andb_true_r.
  unfold rhs_ent. destruct (qeqb v 0); [reflexivity|]. cbn [orb] in Hv. cbn [forallb fst snd].
  rewrite Hk, Hv. reflexivity.
Qed.

Theorem parse_written I0 :
  wf_ids I0 = true -> wf_nums I0 = true -> parse_lines (written I0) = Ok (tablesT I0).
Proof.
  intros Hids Hnums. destruct (wf_ids_facts I0 Hids) as [NDc [NDv [Bc Bv]]].
  pose proof (cnames_nodup _ NDc Bc) as NDcn. pose proof (vnames_nodup _ NDv Bv) as NDvn.
  unfold wf_nums in Hnums. apply andb_true_iff in Hnums. destruct Hnums as [Hnums Hb].
  apply andb_true_iff in Hnums. destruct Hnums as [Hcols Hrhs].
  unfold parse_lines, written.
  (* NAME, OBJSENSE *)
  rewrite run_lines_app. cbn [w_beginning run_lines]. rewrite step_name. cbn [rbind].
  rewrite step_sense. cbn [rbind].
  (* ROWS *)
  rewrite run_lines_app. unfold w_rows. cbn [run_lines]. rewrite step_ROWS. cbn [rbind].
  rewrite step_row_obj. cbn [rbind].
  change (map (fun c => " " +++ (if (cn_eq c =? 2)%N then "L" else "E") +++ " " +++ constr_name c) (in_cons I0))
    with (rows_lines (in_cons I0)).
  rewrite rows_phase. cbn [rbind].
  rewrite rowsA_closed by exact NDcn. cbn [app].
  change (map (fun c => (constr_name c, [])) (in_cons I0)) with (tabA [] (in_cons I0)).
  (* COLUMNS *)
  cbn [run_lines]. rewrite step_COLUMNS. cbn [rbind]. rewrite run_lines_app.
  destruct (cols_phase I0 (nameT I0) (in_sense I0 =? 2)%N [] (rowsE (in_cons I0) []) [] (rowsL (in_cons I0) [])
              NDcn (in_dvars I0) [] false 0%N cols0 NDvn Hcols) as [b' R].
  change (ents [] (objl I0)) with (@nil (string * num)) in R. cbn [app] in R.
  fold (nameT I0). rewrite R. cbn [rbind].
  (* RHS *)
  cbn [run_lines]. rewrite step_RHS. cbn [rbind]. rewrite run_lines_app.
  rewrite rhs_text_all. rewrite rhs_phase.
  2:{ apply rhs_ents_ok; [|exact Hrhs]. unfold rhs_xs. cbn [forallb fst]. apply andb_true_iff. split; [reflexivity|].
      apply forallb_forall. intros x Hx. apply in_map_iff in Hx. destruct Hx as [c [<- _]]. apply tokb_cname. }
  cbn [rbind].
  (* BOUNDS, ENDATA *)
  cbn [run_lines]. rewrite step_BOUNDS. cbn [rbind]. rewrite run_lines_app.
  assert (E : flat_map (fun id => bound_lines (var_or I0 id)) (used_ids I0) = map stmt_line (BS I0)).
  { unfold BS. rewrite <- flat_map_map. apply flat_map_ext. intro id. apply bound_lines_are_stmts. }
  rewrite E. rewrite bounds_phase.
  2:{ unfold BS. apply forallb_forall. intros s Hs. apply in_flat_map in Hs. destruct Hs as [id [Hid Hs]].
      rewrite forallb_forall in Hb. pose proof (written_stmts_ok _ (Hb id Hid)) as W.
      rewrite forallb_forall in W. apply W. exact Hs. }
  cbn [rbind run_lines]. rewrite step_ENDATA. cbn [rbind]. rewrite step_empty. cbn [rbind].
  reflexivity.
Qed.

(* ================================================================== *)
(* 9. convert of the final tables                                       *)

Definition declared (I0 : inst) : list dvar := filter (has I0) (in_dvars I0).

Lemma apply_bound_vars c s : c_vars (apply_bound c s) = c_vars c.
Proof. destruct s as [k x v]. destruct k; reflexivity. Qed.
Lemma fold_bound_vars ss : forall c, c_vars (fold_left apply_bound ss c) = c_vars c.
Proof. induction ss as [|s ss IH]; intro c; cbn [fold_left]; [reflexivity|]. rewrite IH. apply apply_bound_vars. Qed.
Lemma finish_cols_vars c : c_vars (finish_cols c) = c_vars c.
Proof. unfold finish_cols. destruct (fold_left _ _ _). reflexivity. Qed.

Lemma colsT_vars I0 vs : forall k, NoDup (c_vars k ++ map dvar_name vs) ->
  c_vars (colsT I0 vs k) = c_vars k ++ map dvar_name (filter (has I0) vs).
Proof.
  induction vs as [|v vs IH]; intros k ND; cbn [colsT fold_left filter map]; [rewrite app_nil_r; reflexivity|].
  fold (colsT I0 vs (if has I0 v then dcl (dvar_name v) (isint v) k else k)).
  assert (Hv : ~ In (dvar_name v) (c_vars k)).
  { cbn [map] in ND. apply NoDup_remove_2 in ND. intro Hi. apply ND. apply in_or_app. left. exact Hi. }
  destruct (has I0 v).
  - rewrite IH; cbn [dcl c_vars]; rewrite (sadd_fresh _ _ Hv).
    + cbn [map]. rewrite <- app_assoc. reflexivity.
    + rewrite <- app_assoc. exact ND.
  - apply IH. cbn [map] in ND. apply NoDup_remove_1 in ND. exact ND.
Qed.

Lemma KT_vars I0 : NoDup (map dvar_name (in_dvars I0)) -> c_vars (KT I0) = map dvar_name (declared I0).
Proof.
  intro ND. unfold KT. rewrite finish_cols_vars, fold_bound_vars, colsT_vars; [reflexivity|exact ND].
Qed.

Lemma parse_var_names vs : (forall v, In v vs -> (dv_id v < u64max)%N) ->
  existsb (fun x => match parse_id_tag VAR_PREFIX x with None => true | Some _ => false end) (map dvar_name vs) = false /\
  flat_map (fun x => match parse_id_tag VAR_PREFIX x with Some i => [(i, x)] | None => [] end) (map dvar_name vs)
  = map (fun v => (dv_id v, dvar_name v)) vs.
Proof.
  induction vs as [|v vs IH]; intro B; [split; reflexivity|].
  destruct IH as [IH1 IH2]; [intros w Hw; apply B; right; exact Hw|].
  assert (P : parse_id_tag VAR_PREFIX (dvar_name v) = Some (dv_id v)).
  { unfold dvar_name. apply parse_id_tag_print. apply B. left. reflexivity. }
  cbn [map existsb flat_map]. rewrite P, IH1, IH2. split; reflexivity.
Qed.
Lemma parse_con_names (X : Type) (f : cons -> X) cs : (forall c, In c cs -> (cn_id c < u64max)%N) ->
  existsb (fun x => match parse_id_tag CONSTR_PREFIX (fst x) with None => true | Some _ => false end)
          (map (fun c => (constr_name c, f c)) cs) = false /\
  flat_map (fun e => match parse_id_tag CONSTR_PREFIX (fst e) with Some i => [(i, e)] | None => [] end)
           (map (fun c => (constr_name c, f c)) cs)
  = map (fun c => (cn_id c, (constr_name c, f c))) cs.
Proof.
  induction cs as [|c cs IH]; intro B; [split; reflexivity|].
  destruct IH as [IH1 IH2]; [intros w Hw; apply B; right; exact Hw|].
  assert (P : parse_id_tag CONSTR_PREFIX (constr_name c) = Some (cn_id c)).
  { unfold constr_name. apply parse_id_tag_print. apply B. left. reflexivity. }
  cbn [map existsb flat_map fst]. rewrite P, IH1, IH2. split; reflexivity.
Qed.

Definition dvT (I0 : inst) (v : dvar) : dvar :=
  {| dv_id := dv_id v; dv_kind := get_dvar_kind (KT I0) (dvar_name v);
     dv_bound := Some (get_dvar_bound (KT I0) (dvar_name v)); dv_name := None |}.
Definition dvsT (I0 : inst) : list dvar := map (dvT I0) (declared I0).
Definition idsT (I0 : inst) : list (string * N) := map (fun v => (dvar_name v, dv_id v)) (declared I0).

Lemma convert_dvars_KT I0 : NoDup (map dvar_name (in_dvars I0)) ->
  (forall v, In v (in_dvars I0) -> (dv_id v < u64max)%N) ->
  convert_dvars (KT I0) = (dvsT I0, idsT I0).
Proof.
  intros ND B. unfold convert_dvars. rewrite (KT_vars I0 ND).
  destruct (parse_var_names (declared I0)) as [P1 P2].
  { intros v Hv. apply B. unfold declared in Hv. apply filter_In in Hv. tauto. }
  rewrite P1, P2, !map_map. reflexivity.
Qed.

Definition idents (vs : list dvar) (l : linear) : list (N * num) :=
  flat_map (fun v => if qeqb (cf v l) 0 then [] else [(dv_id v, cf v l)]) vs.

Lemma convert_terms_ents ids vs l :
  (forall v, In v vs -> qeqb (cf v l) 0 = false -> lookup (dvar_name v) ids = Some (dv_id v)) ->
  convert_terms ids (ents vs l) = Ok (idents vs l).
Proof.
  induction vs as [|v vs IH]; intro H; [reflexivity|].
  cbn [ents idents flat_map]. fold (ents vs l). fold (idents vs l). unfold ent.
  destruct (qeqb (cf v l) 0) eqn:Z; cbn [app].
  - apply IH. intros w Hw. apply H. right. exact Hw.
  - cbn [convert_terms]. rewrite (H v (or_introl eq_refl) Z). rewrite IH; [reflexivity|].
    intros w Hw. apply H. right. exact Hw.
Qed.

Lemma lookup_names vs v : In v vs ->
  (forall w, In w vs -> dvar_name w = dvar_name v -> dv_id w = dv_id v) ->
  lookup (dvar_name v) (map (fun v => (dvar_name v, dv_id v)) vs) = Some (dv_id v).
Proof.
  induction vs as [|w vs IH]; intros Hin Hinj; [destruct Hin|]. cbn [map lookup].
  destruct (dvar_name v =? dvar_name w) eqn:E.
  - apply String.eqb_eq in E. f_equal. apply Hinj; [left; reflexivity|congruence].
  - destruct Hin as [->|Hin]; [rewrite String.eqb_refl in E; discriminate|].
    apply IH; [exact Hin|]. intros u Hu. apply Hinj. right. exact Hu.
Qed.

Lemma is_nil_in {X} (x : X) l : In x l -> is_nil l = false.
Proof. destruct l; [intros []|reflexivity]. Qed.
Lemma has_obj I0 v : qeqb (cf v (objl I0)) 0 = false -> has I0 v = true.
Proof.
  intro Z. unfold has, vlines. apply negb_true_iff.
  apply (is_nil_in (eline (dvar_name v) "OBJ" (print_num (cf v (objl I0))))).
  apply in_or_app. left. unfold elines, ent. rewrite Z. left. reflexivity.
Qed.
Lemma has_con I0 v c : In c (in_cons I0) -> qeqb (cf v (clin c)) 0 = false -> has I0 v = true.
Proof.
  intros Hc Z. unfold has, vlines. apply negb_true_iff.
  apply (is_nil_in (eline (dvar_name v) (constr_name c) (print_num (cf v (clin c))))).
  apply in_or_app. right. unfold clines. apply in_flat_map. exists c. split; [exact Hc|].
  unfold elines, ent. rewrite Z. left. reflexivity.
Qed.

Lemma existsb_unique {X} (key : X -> string) (P : X -> bool) cs c :
  NoDup (map key cs) -> In c cs -> existsb (fun c' => (key c' =? key c) && P c') cs = P c.
Proof.
  induction cs as [|x cs IH]; intros ND Hin; [destruct Hin|].
  cbn [map] in ND. inversion ND as [|? ? Hn Hd]; subst. cbn [existsb]. destruct Hin as [->|Hin].
  - rewrite String.eqb_refl. cbn [andb]. destruct (P c); [reflexivity|]. cbn [orb].
    apply not_true_is_false. intro T. apply existsb_exists in T. destruct T as [y [Hy T]].
    apply andb_true_iff in T. destruct T as [T _]. apply String.eqb_eq in T.
    apply Hn. rewrite <- T. apply in_map. exact Hy.
  - assert (E : (key x =? key c) = false).
    { apply String.eqb_neq. intro E. apply Hn. rewrite E. apply in_map. exact Hin. }
    rewrite E. cbn [andb orb]. apply IH; assumption.
Qed.

Lemma rmap_map {W X Y} (h : W -> X) (f : X -> res Y) (g : W -> Y) l :
  (forall x, In x l -> f (h x) = Ok (g x)) -> rmap f (map h l) = Ok (map g l).
Proof.
  induction l as [|x l IH]; intro H; [reflexivity|]. cbn [rmap map].
  rewrite (H x (or_introl eq_refl)). cbn [rbind]. rewrite IH; [reflexivity|].
  intros y Hy. apply H. right. exact Hy.
Qed.

Definition consT (I0 : inst) (c : cons) : cons :=
  {| cn_id := cn_id c; cn_eq := if is_le c then 2%N else 1%N;
     cn_fn := mk_function (idents (in_dvars I0) (clin c)) (l_const (clin c)); cn_name := None |}.

Definition readback (I0 : inst) : inst :=
  {| in_sense := if (in_sense I0 =? 2)%N then 2%N else 1%N;
     in_obj := mk_function (idents (in_dvars I0) (objl I0)) (l_const (objl I0));
     in_dvars := dvsT I0;
     in_cons := map (consT I0) (in_cons I0);
     in_name := if sempty (nameT I0) then None else Some (nameT I0) |}.

Lemma rhs_xs_nodup I0 : NoDup (map constr_name (in_cons I0)) -> NoDup (map fst (rhs_xs I0)).
Proof.
  intro ND. unfold rhs_xs. cbn [map fst]. rewrite map_map. cbn [fst]. constructor; [|exact ND].
  intro Hi. apply in_map_iff in Hi. destruct Hi as [c [E _]].
  pose proof (cname_not_obj c) as N. rewrite E in N. discriminate.
Qed.

Lemma Qc_opp_opp (x : num) : - - x = x. Proof. ring. Qed.

Theorem convert_tables I0 : wf_ids I0 = true -> convert (tablesT I0) = Ok (readback I0).
Proof.
  intro Hids. destruct (wf_ids_facts I0 Hids) as [NDc [NDv [Bc Bv]]].
  pose proof (cnames_nodup _ NDc Bc) as NDcn. pose proof (vnames_nodup _ NDv Bv) as NDvn.
  pose proof (rhs_xs_nodup I0 NDcn) as NDx.
  assert (LK : forall v, In v (in_dvars I0) -> has I0 v = true -> lookup (dvar_name v) (idsT I0) = Some (dv_id v)).
  { intros v Hv Hh. unfold idsT. apply lookup_names.
    - unfold declared. apply filter_In. split; assumption.
    - intros w Hw E. unfold declared in Hw. apply filter_In in Hw. destruct Hw as [Hw _].
      unfold dvar_name in E. eapply name_inj; [apply Bv; exact Hw|apply Bv; exact Hv|exact E]. }
  unfold convert, tablesT. cbn [m_cols m_rows m_max m_name MPS].
  rewrite (convert_dvars_KT I0 NDvn Bv).
  (* objective *)
  unfold convert_objective. cbn [m_c m_rows m_obj r_b MPS].
  rewrite (convert_terms_ents (idsT I0) (in_dvars I0) (objl I0)).
  2:{ intros v Hv Z. apply LK; [exact Hv|apply has_obj; exact Z]. }
  cbn [rbind]. unfold RB. rewrite (rhs_of_rbT _ NDx "OBJ" (l_const (objl I0))) by (left; reflexivity).
  rewrite Qc_opp_opp.
  (* constraints *)
  unfold convert_constraints. cbn [r_a].
  destruct (parse_con_names _ (fun c => ents (in_dvars I0) (clin c)) (in_cons I0) Bc) as [P1 P2].
  change (tabA (in_dvars I0) (in_cons I0))
    with (map (fun c => (constr_name c, ents (in_dvars I0) (clin c))) (in_cons I0)).
  rewrite P1, P2.
  rewrite (rmap_map _ _ (consT I0)); [reflexivity|].
  intros c Hc. cbn [fst snd]. unfold convert_constraint.
  rewrite (convert_terms_ents (idsT I0) (in_dvars I0) (clin c)).
  2:{ intros v Hv Z. apply LK; [exact Hv|apply (has_con I0 v c Hc Z)]. }
  cbn [rbind]. cbn [r_b].
  rewrite (rhs_of_rbT _ NDx (constr_name c) (l_const (clin c))).
  2:{ right. apply in_map_iff. exists c. split; [reflexivity|exact Hc]. }
  unfold convert_row_type. cbn [r_eq r_le r_ge].
  rewrite rowsE_mem, rowsL_mem. cbn [smem existsb orb].
  rewrite (existsb_unique constr_name (fun c => negb (is_le c)) _ c NDcn Hc).
  rewrite (existsb_unique constr_name is_le _ c NDcn Hc).
  unfold consT. destruct (is_le c); cbn [negb convert_inequality]; rewrite Qc_opp_opp; reflexivity.
Qed.

Theorem load_written I0 :
  wf_ids I0 = true -> wf_nums I0 = true -> load_lines (written I0) = Ok (readback I0).
Proof.
  intros H1 H2. unfold load_lines. rewrite (parse_written I0 H1 H2). cbn [rbind].
  apply convert_tables. exact H1.
Qed.

(* ================================================================== *)
(* 10. the comparator of RunC18 accepts [readback]                      *)

(* ---- coefficient sums and the comparator's test of linear forms ---- *)
Fixpoint csum (id : N) (ts : list (N * num)) : num :=
  match ts with
  | [] => 0
  | (k, c) :: ts' => (if (k =? id)%N then c else 0) + csum id ts'
  end.
Lemma coef_sum_csum id ts : coef_sum id ts = csum id ts.
Proof.
  unfold coef_sum.
  assert (G : forall acc, fold_left (fun acc t => if (fst t =? id)%N then acc + snd t else acc) ts acc
                          = acc + csum id ts).
  { induction ts as [|[k c] ts IH]; intro acc; cbn [fold_left csum fst snd]; [ring|].
    rewrite IH. destruct (k =? id)%N; ring. }
  rewrite G. ring.
Qed.
Lemma csum_app id a b : csum id (a ++ b) = csum id a + csum id b.
Proof. induction a as [|[k c] a IH]; cbn [app csum]; [ring|]. rewrite IH. ring. Qed.
Lemma csum_neg id b : csum id (map (fun kc => (fst kc, - snd kc)) b) = - csum id b.
Proof.
  induction b as [|[k c] b IH]; cbn [map csum fst snd]; [ring|]. rewrite IH. destruct (k =? id)%N; ring.
Qed.
Lemma csum_notin id ts : ~ In id (map fst ts) -> csum id ts = 0.
Proof.
  induction ts as [|[k c] ts IH]; cbn [map fst In csum]; intro H; [reflexivity|].
  destruct (k =? id)%N eqn:E; [apply N.eqb_eq in E; tauto|]. rewrite IH; [ring|tauto].
Qed.

Lemma getd_upd k k' v m : getd N.eqb k (upd N.eqb k' v m) = if (k =? k')%N then v else getd N.eqb k m.
Proof.
  unfold getd. induction m as [|[j c] m IH]; cbn [upd Poly.find].
  - destruct (k =? k')%N; reflexivity.
  - destruct (k' =? j)%N eqn:E; cbn [Poly.find].
    + apply N.eqb_eq in E. subst j. destruct (k =? k')%N; reflexivity.
    + destruct (k =? j)%N eqn:E2; [|exact IH].
      apply N.eqb_eq in E2. subst j. rewrite N.eqb_sym, E. reflexivity.
Qed.

Lemma merge_never_getd l : forall m k,
  getd N.eqb k (merge_from N.eqb never m l) = getd N.eqb k m + csum k l.
Proof.
  induction l as [|[j c] l IH]; intros m k; [rewrite merge_from_nil; cbn [csum]; ring|].
  rewrite merge_from_cons, IH. unfold mstep. cbn [fst snd never csum]. rewrite getd_upd.
  rewrite (N.eqb_sym j k). destruct (k =? j)%N eqn:E; [apply N.eqb_eq in E; subst; ring|ring].
Qed.

Lemma getd_in k c m : NoDup (keys m) -> In (k, c) m -> getd N.eqb k m = c.
Proof.
  unfold getd. induction m as [|[j d] m IH]; intros ND Hin; [destruct Hin|].
  cbn [keys map fst] in ND. inversion ND as [|? ? Hn Hd]; subst. cbn [Poly.find].
  destruct Hin as [E|Hin].
  - inversion E; subst. rewrite N.eqb_refl. reflexivity.
  - destruct (k =? j)%N eqn:E.
    + apply N.eqb_eq in E. subst j. exfalso. apply Hn. apply in_map_iff. exists (k, c). split; [reflexivity|exact Hin].
    + apply IH; assumption.
Qed.

Lemma idterms_eqb_complete a b : (forall id, csum id a = csum id b) -> idterms_eqb a b = true.
Proof.
  intro H. unfold idterms_eqb. apply forallb_forall. intros [k c] Hin. cbn [snd]. apply qeqb_eq.
  pose proof (merge_nodup N.eqb N.eqb_eq (fun _ => 0) never (a ++ map (fun kc => (fst kc, - snd kc)) b)) as ND.
  rewrite <- (getd_in k c _ ND Hin). unfold merge. rewrite merge_never_getd.
  rewrite csum_app, csum_neg, H. unfold getd. cbn [Poly.find]. ring.
Qed.

Lemma csum_idents_notin id vs l : ~ In id (map dv_id vs) -> csum id (idents vs l) = 0.
Proof.
  intro H. apply csum_notin. intro Hi. apply H. clear H. unfold idents in Hi.
  apply in_map_iff in Hi. destruct Hi as [[k c] [E Hi]]. cbn [fst] in E. subst k.
  apply in_flat_map in Hi. destruct Hi as [v [Hv Hi]].
  destruct (qeqb (cf v l) 0); [destruct Hi|]. destruct Hi as [E|[]]. inversion E; subst.
  apply in_map. exact Hv.
Qed.
Lemma csum_idents_in vs l : NoDup (map dv_id vs) -> forall v, In v vs ->
  csum (dv_id v) (idents vs l) = cf v l.
Proof.
  induction vs as [|w vs IH]; intros ND v Hin; [destruct Hin|].
  cbn [map] in ND. inversion ND as [|? ? Hn Hd]; subst.
  cbn [idents flat_map]. fold (idents vs l). rewrite csum_app. destruct Hin as [->|Hin].
  - rewrite (csum_idents_notin _ vs l Hn).
    destruct (qeqb (cf v l) 0) eqn:Z; cbn [csum].
    + apply qeqb_eq in Z. rewrite Z. ring.
    + rewrite N.eqb_refl. ring.
  - rewrite (IH Hd v Hin).
    assert (E : (dv_id w =? dv_id v)%N = false).
    { apply N.eqb_neq. intro E. apply Hn. rewrite E. apply in_map. exact Hin. }
    destruct (qeqb (cf w l) 0); cbn [csum]; rewrite ?E; ring.
Qed.

Lemma as_linear_mk ts c : as_linear (mk_function ts c) = Some {| l_terms := ts; l_const := c |}.
Proof. destruct ts; reflexivity. Qed.

Lemma lin_eqb_readback f vs : linb f = true -> NoDup (map dv_id vs) ->
  (forall id, In id (map fst (l_terms (lin_of_fn f))) -> In id (map dv_id vs)) ->
  lin_eqb f (mk_function (idents vs (lin_of_fn f)) (l_const (lin_of_fn f))) = true.
Proof.
  intros Hl ND Hsub. unfold lin_eqb. rewrite (linb_as f Hl), as_linear_mk. cbn [l_terms l_const].
  apply andb_true_iff. split; [|apply qeqb_eq; reflexivity].
  apply idterms_eqb_complete. intro id.
  destruct (in_dec N.eq_dec id (map dv_id vs)) as [Hi|Hn].
  - apply in_map_iff in Hi. destruct Hi as [v [<- Hv]]. rewrite (csum_idents_in vs _ ND v Hv).
    unfold cf. symmetry. apply coef_sum_csum.
  - rewrite (csum_idents_notin id vs _ Hn). apply csum_notin. intro Hi. apply Hn. apply Hsub. exact Hi.
Qed.

(* ---- the ids of a linear form are used ids; used ids are defined ---- *)
Lemma bt_add_keys i c m j : In j (map fst (bt_add i c m)) -> j = i \/ In j (map fst m).
Proof.
  induction m as [|[k d] m IH]; cbn [bt_add map fst In]; [intuition congruence|].
  destruct (i =? k)%N eqn:E; cbn [map fst In]; [intuition congruence|].
  destruct (i <? k)%N; cbn [map fst In]; [intuition congruence|]. intros [H|H]; [tauto|]. apply IH in H. tauto.
Qed.
Lemma poly_as_linear_ids p : forall ts c l, poly_as_linear p ts c = Some l ->
  forall i, In i (map fst (l_terms l)) -> In i (map fst ts) \/ In i (flat_map fst p).
Proof.
  induction p as [|[m q] p IH]; intros ts c l H i Hi; cbn [poly_as_linear] in H.
  - inversion H; subst. cbn [l_terms] in Hi. left. exact Hi.
  - destruct m as [|j [|j' m']]; [| |discriminate]; cbn [flat_map fst].
    + destruct (IH _ _ _ H i Hi) as [G|G]; [left; exact G|right; exact G].
    + destruct (IH _ _ _ H i Hi) as [G|G]; [|right; right; exact G].
      apply bt_add_keys in G. destruct G as [->|G]; [right; left; reflexivity|left; exact G].
Qed.
Lemma as_linear_ids f l : as_linear f = Some l ->
  forall i, In i (map fst (l_terms l)) -> In i (fn_used f).
Proof.
  intros H i Hi. destruct f as [|c|l0|q|p]; cbn [as_linear fn_used] in *.
  - inversion H; subst. destruct Hi.
  - inversion H; subst. destruct Hi.
  - inversion H; subst. exact Hi.
  - destruct (forallb tiny_eps (q_vals q)); [|discriminate]. inversion H; subst.
    apply in_or_app. left. destruct (q_lin q); [exact Hi|destruct Hi].
  - destruct (poly_as_linear_ids p [] 0 l H i Hi) as [[]|G]. exact G.
Qed.

Lemma ins_sorted_in x i l : In x (ins_sorted i l) <-> x = i \/ In x l.
Proof.
  induction l as [|j l IH]; cbn [ins_sorted In]; [intuition|].
  destruct (i =? j)%N eqn:E.
  - apply N.eqb_eq in E. subst j. cbn [In]. intuition.
  - destruct (i <? j)%N; cbn [In]; [intuition|]. rewrite IH. intuition.
Qed.
Lemma fold_ins_sorted_in x l : In x (fold_right ins_sorted [] l) <-> In x l.
Proof.
  induction l as [|i l IH]; cbn [fold_right In]; [tauto|]. rewrite ins_sorted_in, IH. intuition.
Qed.

Lemma var_by_id_some I0 id v : var_by_id I0 id = Some v -> In v (in_dvars I0) /\ dv_id v = id.
Proof.
  unfold var_by_id.
  assert (G : forall l acc, fold_left (fun acc v => if (dv_id v =? id)%N then Some v else acc) l acc = Some v ->
                            acc = Some v \/ (In v l /\ dv_id v = id)).
  { induction l as [|w l IH]; intros acc H; cbn [fold_left] in H; [left; exact H|].
    apply IH in H. destruct H as [H|[H1 H2]]; [|right; split; [right; exact H1|exact H2]].
    destruct (dv_id w =? id)%N eqn:E; [|left; exact H].
    inversion H; subst. right. split; [left; reflexivity|apply N.eqb_eq; exact E]. }
  intro H. apply G in H. destruct H as [H|H]; [discriminate|exact H].
Qed.
Lemma NoDup_map_elem {X Y} (f : X -> Y) l a b :
  NoDup (map f l) -> In a l -> In b l -> f a = f b -> a = b.
Proof.
  induction l as [|x l IH]; intros ND Ha Hb E; [destruct Ha|].
  cbn [map] in ND. inversion ND as [|? ? Hn Hd]; subst.
  destruct Ha as [->|Ha], Hb as [->|Hb]; [reflexivity| | |apply IH; assumption].
  - exfalso. apply Hn. rewrite E. apply in_map. exact Hb.
  - exfalso. apply Hn. rewrite <- E. apply in_map. exact Ha.
Qed.

Section Used.
  Variable I0 : inst.
  Hypothesis Hused : wf_used I0 = true.
  Hypothesis NDv : NoDup (map dv_id (in_dvars I0)).

  Lemma used_defined id : In id (used_ids I0) ->
    exists v, var_by_id I0 id = Some v /\ In v (in_dvars I0) /\ dv_id v = id /\ var_or I0 id = v.
  Proof.
    intro Hi. unfold wf_used in Hused. rewrite forallb_forall in Hused. specialize (Hused id Hi).
    destruct (var_by_id I0 id) as [v|] eqn:E; [|discriminate]. exists v.
    destruct (var_by_id_some I0 id v E) as [H1 H2]. repeat split; try assumption.
    unfold var_or. rewrite E. reflexivity.
  Qed.

  Lemma var_or_self v : In v (in_dvars I0) -> In (dv_id v) (used_ids I0) -> var_or I0 (dv_id v) = v.
  Proof.
    intros Hv Hu. destruct (used_defined _ Hu) as [w [_ [Hw [E ->]]]].
    apply (NoDup_map_elem dv_id (in_dvars I0)); assumption.
  Qed.

  Lemma obj_ids_used i : linb (in_obj I0) = true ->
    In i (map fst (l_terms (objl I0))) -> In i (used_ids I0).
  Proof.
    intros Hl Hi. unfold used_ids. apply fold_ins_sorted_in. apply in_or_app. left.
    apply (as_linear_ids _ _ (linb_as _ Hl)). exact Hi.
  Qed.
  Lemma con_ids_used c i : In c (in_cons I0) -> linb (cn_fn c) = true ->
    In i (map fst (l_terms (clin c))) -> In i (used_ids I0).
  Proof.
    intros Hc Hl Hi. unfold used_ids. apply fold_ins_sorted_in. apply in_or_app. right.
    apply in_flat_map. exists c. split; [exact Hc|].
    apply (as_linear_ids _ _ (linb_as _ Hl)). exact Hi.
  Qed.
  Lemma used_in_dvars i : In i (used_ids I0) -> In i (map dv_id (in_dvars I0)).
  Proof.
    intro Hi. destruct (used_defined i Hi) as [v [_ [Hv [E _]]]]. rewrite <- E. apply in_map. exact Hv.
  Qed.
End Used.

Lemma nz_ids_spec f id : In id (nz_ids f) ->
  linb f = true /\ In id (map fst (l_terms (lin_of_fn f))) /\
  qeqb (coef_sum id (l_terms (lin_of_fn f))) 0 = false.
Proof.
  unfold nz_ids, linb, lin_of_fn. destruct (as_linear f) as [l|]; [|intros []].
  intro H. apply filter_In in H. destruct H as [H1 H2]. apply negb_true_iff in H2. auto.
Qed.
Lemma used_nz_spec I0 id : In id (used_nz I0) ->
  In id (nz_ids (in_obj I0)) \/ exists c, In c (in_cons I0) /\ In id (nz_ids (cn_fn c)).
Proof.
  unfold used_nz. rewrite fold_ins_sorted_in, in_app_iff, in_flat_map. tauto.
Qed.

(* ---- the column tables before BOUNDS ---- *)
Lemma colsT_ulb I0 vs : forall k,
  c_u (colsT I0 vs k) = c_u k /\ c_l (colsT I0 vs k) = c_l k /\ c_bin (colsT I0 vs k) = c_bin k.
Proof.
  induction vs as [|w vs IH]; intro k; cbn [colsT fold_left]; [auto|].
  fold (colsT I0 vs (if has I0 w then dcl (dvar_name w) (isint w) k else k)).
  destruct (IH (if has I0 w then dcl (dvar_name w) (isint w) k else k)) as [H1 [H2 H3]].
  rewrite H1, H2, H3. destruct (has I0 w); auto.
Qed.
Lemma smem_sadd x y l : smem x (sadd y l) = (y =? x) || smem x l.
Proof.
  destruct (string_dec y x) as [->|N].
  - rewrite smem_sadd_same, String.eqb_refl. reflexivity.
  - rewrite (smem_sadd_other _ _ _ N). apply String.eqb_neq in N. rewrite N. reflexivity.
Qed.
Lemma colsT_int I0 x vs : forall k,
  smem x (c_int (colsT I0 vs k)) =
  smem x (c_int k) || existsb (fun w => (dvar_name w =? x) && (has I0 w && isint w)) vs.
Proof.
  induction vs as [|w vs IH]; intro k; cbn [colsT fold_left existsb]; [rewrite orb_false_r; reflexivity|].
  fold (colsT I0 vs (if has I0 w then dcl (dvar_name w) (isint w) k else k)). rewrite IH.
  destruct (has I0 w), (isint w); cbn [dcl c_int andb]; rewrite ?smem_sadd, ?andb_false_r, ?andb_true_r;
    cbn [orb]; rewrite ?orb_assoc; try reflexivity.
  rewrite (orb_comm (dvar_name w =? x)). reflexivity.
Qed.
Lemma colsT_real I0 x vs : forall k,
  smem x (c_real (colsT I0 vs k)) =
  smem x (c_real k) || existsb (fun w => (dvar_name w =? x) && (has I0 w && negb (isint w))) vs.
Proof.
  induction vs as [|w vs IH]; intro k; cbn [colsT fold_left existsb]; [rewrite orb_false_r; reflexivity|].
  fold (colsT I0 vs (if has I0 w then dcl (dvar_name w) (isint w) k else k)). rewrite IH.
  destruct (has I0 w), (isint w); cbn [dcl c_real andb negb]; rewrite ?smem_sadd, ?andb_false_r, ?andb_true_r;
    cbn [orb]; rewrite ?orb_assoc; try reflexivity.
  rewrite (orb_comm (dvar_name w =? x)). reflexivity.
Qed.

(* ---- value domains ---- *)
Definition dom_okb (v : dvar) : bool :=
  match dv_bound v with
  | Some (lo, up) =>
      negb (is_nan lo) && negb (is_nan up) &&
      (if (dv_kind v =? 1)%N then eleb (Fin 0) lo && eleb up (Fin 1) else true)
  | None => true
  end.
Lemma dom_okb_facts v : dom_okb v = true ->
  no_nan (dv_bound v) /\ binary_bound_ok (dv_kind v) (dv_bound v).
Proof.
  unfold dom_okb, no_nan, binary_bound_ok. destruct (dv_bound v) as [[lo up]|]; [|auto].
  intro H. apply andb_true_iff in H. destruct H as [H H3]. apply andb_true_iff in H. destruct H as [H1 H2].
  apply negb_true_iff in H1. apply negb_true_iff in H2. split; [auto|]. intro K. rewrite K in H3.
  cbn [N.eqb Pos.eqb] in H3. apply andb_true_iff in H3. exact H3.
Qed.

Lemma read_domain_any v : no_nan (dv_bound v) -> binary_bound_ok (dv_kind v) (dv_bound v) ->
  read_domain (isint v) (dvar_name v) (written_stmts v) = domain (dv_kind v) (dv_bound v).
Proof.
  intros Hn Hb.
  destruct (N.eq_dec (dv_kind v) 1) as [K1|K1]; [apply domain_roundtrip; auto|].
  destruct (N.eq_dec (dv_kind v) 2) as [K2|K2]; [apply domain_roundtrip; auto|].
  apply N.eqb_neq in K1. apply N.eqb_neq in K2.
  unfold read_domain, written_stmts, col_fold, isint, domain. rewrite K1, K2.
  destruct (dv_bound v) as [[lo up]|]; cbn [orb fold_left b_col b_kw b_val]; rewrite !String.eqb_refl; reflexivity.
Qed.

Lemma eeqb_refl x : is_nan x = false -> eeqb x x = true.
Proof. destruct x; try reflexivity; [|discriminate]. intros _. apply qeqb_eq. reflexivity. Qed.
Lemma dom_eqb_refl_domain v : no_nan (dv_bound v) -> binary_bound_ok (dv_kind v) (dv_bound v) ->
  dom_eqb (domain (dv_kind v) (dv_bound v)) (domain (dv_kind v) (dv_bound v)) = true.
Proof.
  intros Hn Hb. unfold domain, no_nan, binary_bound_ok in *.
  destruct (dv_bound v) as [[lo up]|]; destruct (dv_kind v =? 1)%N eqn:K1.
  - apply N.eqb_eq in K1. destruct (Hb K1) as [H0 H1]. rewrite (emax_ge lo H0), (emin_le up H1).
    destruct Hn as [N1 N2]. unfold dom_eqb. rewrite (eeqb_refl _ N1), (eeqb_refl _ N2). reflexivity.
  - destruct Hn as [N1 N2]. unfold dom_eqb. rewrite (eeqb_refl _ N1), (eeqb_refl _ N2).
    destruct (dv_kind v =? 2)%N; reflexivity.
  - reflexivity.
  - destruct (dv_kind v =? 2)%N; reflexivity.
Qed.

(* ---- the BOUNDS statements of the other variables do not matter ---- *)
Lemma col_fold_app x a b s : col_fold x (a ++ b) s = col_fold x b (col_fold x a s).
Proof. unfold col_fold. apply fold_left_app. Qed.
Lemma col_fold_other w x s : dvar_name w <> x -> col_fold x (written_stmts w) s = s.
Proof.
  intro N. apply String.eqb_neq in N. unfold written_stmts, col_fold.
  destruct (dv_bound w) as [[lo up]|]; [|destruct (dv_kind w =? 1)%N];
    cbn [fold_left b_col]; rewrite ?N; reflexivity.
Qed.
Lemma col_fold_idem v s :
  col_fold (dvar_name v) (written_stmts v) (col_fold (dvar_name v) (written_stmts v) s) =
  col_fold (dvar_name v) (written_stmts v) s.
Proof.
  unfold written_stmts, col_fold.
  destruct (dv_bound v) as [[lo up]|]; [destruct ((dv_kind v =? 1) || (dv_kind v =? 2))%N|destruct (dv_kind v =? 1)%N];
    cbn [fold_left b_col b_kw b_val]; rewrite !String.eqb_refl; destruct s; reflexivity.
Qed.
Lemma col_fold_flat_after v ws : (forall w, In w ws -> dvar_name w = dvar_name v -> w = v) ->
  forall s, col_fold (dvar_name v) (flat_map written_stmts ws) (col_fold (dvar_name v) (written_stmts v) s)
            = col_fold (dvar_name v) (written_stmts v) s.
Proof.
  induction ws as [|w ws IH]; intros Hu s; [reflexivity|]. cbn [flat_map]. rewrite col_fold_app.
  destruct (string_dec (dvar_name w) (dvar_name v)) as [E|N].
  - rewrite (Hu w (or_introl eq_refl) E), col_fold_idem. apply IH. intros u Hu'. apply Hu. right. exact Hu'.
  - rewrite (col_fold_other w _ _ N). apply IH. intros u Hu'. apply Hu. right. exact Hu'.
Qed.
Lemma col_fold_flat v ws : In v ws -> (forall w, In w ws -> dvar_name w = dvar_name v -> w = v) ->
  forall s, col_fold (dvar_name v) (flat_map written_stmts ws) s = col_fold (dvar_name v) (written_stmts v) s.
Proof.
  induction ws as [|w ws IH]; intros Hin Hu s; [destruct Hin|]. cbn [flat_map]. rewrite col_fold_app.
  destruct (string_dec (dvar_name w) (dvar_name v)) as [E|N].
  - rewrite (Hu w (or_introl eq_refl) E). apply col_fold_flat_after. intros u Hu'. apply Hu. right. exact Hu'.
  - rewrite (col_fold_other w _ _ N). destruct Hin as [->|Hin]; [congruence|].
    apply IH; [exact Hin|]. intros u Hu'. apply Hu. right. exact Hu'.
Qed.

Lemma find_map_unique {X Y} (idf : X -> N) (h : X -> Y) (idg : Y -> N) l x :
  (forall y, idg (h y) = idf y) -> NoDup (map idf l) -> In x l ->
  List.find (fun y' => (idg y' =? idf x)%N) (map h l) = Some (h x).
Proof.
  intros Hg. induction l as [|y l IH]; intros ND Hin; [destruct Hin|].
  cbn [map] in ND. inversion ND as [|? ? Hn Hd]; subst. cbn [map List.find]. rewrite Hg.
  destruct Hin as [->|Hin]; [rewrite N.eqb_refl; reflexivity|].
  assert (E : (idf y =? idf x)%N = false).
  { apply N.eqb_neq. intro E. apply Hn. rewrite E. apply in_map. exact Hin. }
  rewrite E. apply IH; assumption.
Qed.
Lemma NoDup_map_filter {X Y} (f : X -> Y) p l : NoDup (map f l) -> NoDup (map f (filter p l)).
Proof.
  induction l as [|x l IH]; intro ND; [constructor|]. cbn [map] in ND. inversion ND as [|? ? Hn Hd]; subst.
  cbn [filter]. destruct (p x); [|apply IH; exact Hd]. cbn [map]. constructor; [|apply IH; exact Hd].
  intro Hi. apply Hn. apply in_map_iff in Hi. destruct Hi as [y [E Hy]]. apply filter_In in Hy.
  rewrite <- E. apply in_map. tauto.
Qed.

Definition wf_kinds (I0 : inst) : bool :=
  ((in_sense I0 =? 1) || (in_sense I0 =? 2))%N &&
  forallb (fun c => ((cn_eq c =? 1) || (cn_eq c =? 2))%N) (in_cons I0).
Definition wf_dom (I0 : inst) : bool := forallb (fun id => dom_okb (var_or I0 id)) (used_nz I0).

Section Comparator.
  Variable I0 : inst.
  Hypothesis Hlin : wf_lin I0 = true.
  Hypothesis Hused : wf_used I0 = true.
  Hypothesis Hids : wf_ids I0 = true.

  Lemma KT_domain v : In v (in_dvars I0) -> has I0 v = true -> In (dv_id v) (used_ids I0) ->
    let s := col_fold (dvar_name v) (written_stmts v) (cstate0 (isint v)) in
    get_dvar_bound (KT I0) (dvar_name v) = eff_bounds s /\
    get_dvar_kind (KT I0) (dvar_name v) = kind_code (final_kind s).
  Proof.
    intros Hv Hh Hu. destruct (wf_ids_facts I0 Hids) as [NDc [NDv [Bc Bv]]].
    pose proof (vnames_nodup _ NDv Bv) as NDvn.
    destruct (colsT_ulb I0 (in_dvars I0) cols0) as [U1 [U2 U3]].
    pose proof (bounds_fold (colsT I0 (in_dvars I0) cols0) (BS I0) (dvar_name v) (isint v) U1 U2) as BF.
    assert (E : col_fold (dvar_name v) (BS I0) (cstate0 (isint v)) =
                col_fold (dvar_name v) (written_stmts v) (cstate0 (isint v))).
    { unfold BS. rewrite <- (flat_map_of_map (var_or I0) written_stmts). apply col_fold_flat.
      - rewrite <- (var_or_self I0 Hused NDv v Hv Hu). apply in_map. exact Hu.
      - intros w Hw E. apply in_map_iff in Hw. destruct Hw as [id [<- Hid]].
        destruct (used_defined I0 Hused id Hid) as [w [_ [Hw [_ Ew]]]]. rewrite Ew in *.
        apply (NoDup_map_elem dv_id (in_dvars I0)); try assumption.
        unfold dvar_name in E. eapply name_inj; [apply Bv; exact Hw|apply Bv; exact Hv|exact E]. }
    unfold KT. rewrite <- E. apply BF.
    - rewrite colsT_int. cbn [cols0 c_int smem existsb orb].
      rewrite (existsb_unique dvar_name (fun w => has I0 w && isint w) _ v NDvn Hv), Hh. reflexivity.
    - rewrite U3. reflexivity.
    - rewrite colsT_real. cbn [cols0 c_real smem existsb orb].
      rewrite (existsb_unique dvar_name (fun w => has I0 w && negb (isint w)) _ v NDvn Hv), Hh. reflexivity.
  Qed.

  Hypothesis Hkinds : wf_kinds I0 = true.
  Hypothesis Hdom : wf_dom I0 = true.

  Theorem same_problem_readback : same_problem I0 (readback I0) = None.
  Proof.
    destruct (wf_ids_facts I0 Hids) as [NDc [NDv [Bc Bv]]].
    pose proof Hlin as Hl. unfold wf_lin in Hl. apply andb_true_iff in Hl. destruct Hl as [Lo Lc].
    rewrite forallb_forall in Lc.
    pose proof Hkinds as Hk. unfold wf_kinds in Hk. apply andb_true_iff in Hk. destruct Hk as [Ks Kc].
    rewrite forallb_forall in Kc.
    unfold same_problem. cbn [readback in_sense in_obj in_cons in_dvars].
    (* sense *)
    assert (X1 : ((if (in_sense I0 =? 2)%N then 2%N else 1%N) =? in_sense I0)%N = true).
    { apply orb_true_iff in Ks. destruct Ks as [K|K]; apply N.eqb_eq in K; rewrite K; reflexivity. }
    rewrite X1. cbn [negb].
    (* objective *)
    assert (X2 : lin_eqb (in_obj I0) (mk_function (idents (in_dvars I0) (objl I0)) (l_const (objl I0))) = true).
    { unfold objl. apply lin_eqb_readback; [exact Lo|exact NDv|].
      intros id Hi. apply (used_in_dvars I0 Hused). apply (obj_ids_used I0 id Lo Hi). }
    rewrite X2. cbn [negb].
    (* constraints *)
    assert (X3 : nodupb (map cn_id (map (consT I0) (in_cons I0))) = true).
    { rewrite map_map. change (map (fun x => cn_id (consT I0 x)) (in_cons I0)) with (map cn_id (in_cons I0)).
      apply nodupb_in. exact NDc. }
    rewrite X3. cbn [negb]. rewrite map_length, Nat.eqb_refl. cbn [negb].
    assert (X5 : forallb (fun c =>
         match List.find (fun c' => (cn_id c' =? cn_id c)%N) (map (consT I0) (in_cons I0)) with
         | None => false
         | Some c' => (cn_eq c' =? cn_eq c)%N && lin_eqb (cn_fn c) (cn_fn c')
         end) (in_cons I0) = true).
    { apply forallb_forall. intros c Hc.
      rewrite (find_map_unique cn_id (consT I0) cn_id (in_cons I0) c (fun _ => eq_refl) NDc Hc).
      cbn [consT cn_eq cn_fn]. apply andb_true_iff. split.
      - unfold is_le. specialize (Kc c Hc). apply orb_true_iff in Kc.
        destruct Kc as [K|K]; apply N.eqb_eq in K; rewrite K; reflexivity.
      - unfold clin. apply lin_eqb_readback; [apply Lc; exact Hc|exact NDv|].
        intros id Hi. apply (used_in_dvars I0 Hused). apply (con_ids_used I0 c id Hc (Lc c Hc) Hi). }
    rewrite X5. cbn [negb].
    (* decision variables *)
    assert (NDd : NoDup (map dv_id (declared I0))) by (apply NoDup_map_filter; exact NDv).
    assert (X6 : nodupb (map dv_id (dvsT I0)) = true).
    { unfold dvsT. rewrite map_map. change (map (fun x => dv_id (dvT I0 x)) (declared I0)) with (map dv_id (declared I0)).
      apply nodupb_in. exact NDd. }
    rewrite X6. cbn [negb].
    assert (X7 : forallb (fun id =>
         match var_by_id I0 id, List.find (fun v => (dv_id v =? id)%N) (dvsT I0) with
         | Some v, Some v' =>
             dom_eqb (domain (dv_kind v) (dv_bound v)) (domain (dv_kind v') (dv_bound v'))
         | _, _ => false
         end) (used_nz I0) = true).
    { apply forallb_forall. intros id Hid.
      (* the function in which id has a non-zero coefficient *)
      assert (NZ : exists f, linb f = true /\ In id (map fst (l_terms (lin_of_fn f))) /\
                             qeqb (coef_sum id (l_terms (lin_of_fn f))) 0 = false /\
                             (f = in_obj I0 \/ exists c, In c (in_cons I0) /\ f = cn_fn c)).
      { destruct (used_nz_spec I0 id Hid) as [H|[c [Hc H]]]; apply nz_ids_spec in H;
          destruct H as [H1 [H2 H3]].
        - exists (in_obj I0). auto.
        - exists (cn_fn c). repeat split; auto. right. exists c. auto. }
      destruct NZ as [f [Lf [Kf [Zf Wf]]]].
      assert (Uid : In id (used_ids I0)).
      { destruct Wf as [->|[c [Hc ->]]]; [apply (obj_ids_used I0 id Lf Kf)|apply (con_ids_used I0 c id Hc Lf Kf)]. }
      destruct (used_defined I0 Hused id Uid) as [v [Ev [Hv [Eid Evo]]]]. rewrite Ev. subst id.
      assert (Hh : has I0 v = true).
      { destruct Wf as [->|[c [Hc ->]]]; [apply has_obj|apply (has_con I0 v c Hc)]; exact Zf. }
      assert (Hd : In v (declared I0)) by (apply filter_In; split; assumption).
      unfold dvsT. rewrite (find_map_unique dv_id (dvT I0) dv_id (declared I0) v (fun _ => eq_refl) NDd Hd).
      cbn [dvT dv_kind dv_bound].
      destruct (KT_domain v Hv Hh Uid) as [B1 B2]. rewrite B1, B2.
      unfold wf_dom in Hdom. rewrite forallb_forall in Hdom. specialize (Hdom _ Hid). rewrite Evo in Hdom.
      destruct (dom_okb_facts v Hdom) as [Hn Hb].
      change (domain (kind_code (final_kind (col_fold (dvar_name v) (written_stmts v) (cstate0 (isint v)))))
                     (Some (eff_bounds (col_fold (dvar_name v) (written_stmts v) (cstate0 (isint v))))))
        with (read_domain (isint v) (dvar_name v) (written_stmts v)).
      rewrite (read_domain_any v Hn Hb). apply dom_eqb_refl_domain; assumption. }
    rewrite X7. reflexivity.
  Qed.
End Comparator.

(* ================================================================== *)
(* 11. the round trip                                                   *)

(* well-formed linear instance:
   wf_lin    objective and constraints are linear (as_linear succeeds);
   wf_used   every id occurring in a function is the id of a decision variable
             (wf_lin && wf_used is exactly "the writer accepts", see [wfb_write_iff]);
   wf_ids    constraint ids and variable ids are pairwise distinct and below 2^64;
   wf_nums   every number that is printed (non-zero summed coefficients, negated non-zero
             constants, finite bounds of used variables) survives print_num / read_f64;
   wf_kinds  sense is 1 or 2, equality kinds are 1 or 2;
   wf_dom    a used variable (non-zero coefficient somewhere) has no NaN bound, and if it is
             binary with a bound, the bound lies within [0, 1]. *)
Definition wfb (I0 : inst) : bool :=
  wf_lin I0 && wf_used I0 && wf_ids I0 && wf_nums I0 && wf_kinds I0 && wf_dom I0.

Theorem C18_roundtrip : forall I0, wfb I0 = true ->
  exists lines,
    write_mps I0 = WOk lines /\
    load_lines lines = Ok (readback I0) /\
    same_problem I0 (readback I0) = None.
Proof.
  intros I0 H. unfold wfb in H.
  apply andb_true_iff in H. destruct H as [H H6]. apply andb_true_iff in H. destruct H as [H H5].
  apply andb_true_iff in H. destruct H as [H H4]. apply andb_true_iff in H. destruct H as [H H3].
  apply andb_true_iff in H. destruct H as [H1 H2].
  exists (written I0). split; [|split].
  - apply write_mps_eq; assumption.
  - apply load_written; assumption.
  - apply same_problem_readback; assumption.
Qed.

(* in the form the runner RunC18.run_C18 computes its "model write -> model read" verdict *)
Corollary C18_roundtrip_verdict : forall I0 lines, wfb I0 = true -> write_mps I0 = WOk lines ->
  match load_lines lines with Ok I' => same_problem I0 I' = None | Err _ => False end.
Proof.
  intros I0 lines H W. destruct (C18_roundtrip I0 H) as [l [W' [Ld S]]].
  rewrite W' in W. inversion W; subst. rewrite Ld. exact S.
Qed.

(* the writer accepts exactly the linear instances whose used ids are defined *)
Theorem wfb_write_iff : forall I0,
  (exists lines, write_mps I0 = WOk lines) /\ linb (in_obj I0) = true <->
  wf_lin I0 && wf_used I0 = true.
Proof.
  intro I0. split.
  - intros [[lines W] Lo]. apply andb_true_iff.
    assert (Lc : forallb (fun c => linb (cn_fn c)) (in_cons I0) = true).
    { unfold write_mps in W. destruct (w_columns_loop I0 (in_dvars I0) false 0); [|discriminate].
      unfold w_rhs in W. destruct (w_rhs_constraints (in_cons I0)) eqn:R; [|discriminate].
      clear W. revert x0 R. induction (in_cons I0) as [|c cs IH]; intros ls R; [reflexivity|].
      cbn [w_rhs_constraints] in R. cbn [forallb]. unfold linb at 1.
      destruct (as_linear (cn_fn c)); [|discriminate]. cbn [andb].
      destruct (w_rhs_constraints cs) eqn:R'; [|discriminate]. eapply IH. reflexivity. }
    assert (Hl : wf_lin I0 = true) by (unfold wf_lin; rewrite Lo, Lc; reflexivity).
    split; [exact Hl|].
    unfold write_mps in W. destruct (w_columns_loop I0 (in_dvars I0) false 0); [|discriminate].
    destruct (w_rhs I0); [|discriminate].
    destruct (w_bounds_loop I0 (used_ids I0)) eqn:B; [|discriminate]. clear W.
    unfold wf_used. revert x1 B. induction (used_ids I0) as [|id ids IH]; intros ls B; [reflexivity|].
    cbn [w_bounds_loop] in B. cbn [forallb]. destruct (var_by_id I0 id); [|discriminate]. cbn [andb].
    destruct (w_bounds_loop I0 ids) eqn:B'; [|discriminate]. eapply IH. reflexivity.
  - intro H. apply andb_true_iff in H. destruct H as [Hl Hu]. split.
    + exists (written I0). apply write_mps_eq; assumption.
    + unfold wf_lin in Hl. apply andb_true_iff in Hl. tauto.
Qed.

(* ---- non-vacuity: a mixed instance (binary / integer / continuous, bounds absent, finite,
   half-infinite, negative; repeated ids in a term list; a constant-only constraint; a polynomial
   message of degree 1; non-contiguous ids; maximisation) is well formed ---- *)
Definition ex_inst : inst :=
  {| in_sense := 2;
     in_obj := FLin {| l_terms := [(1%N, qz 3); (7%N, Q2Qc (-1 # 8)); (1%N, qz 2); (9%N, qz 0)]; l_const := qz 7 |};
     in_dvars :=
       [ {| dv_id := 1; dv_kind := 1; dv_bound := None; dv_name := None |};
         {| dv_id := 7; dv_kind := 3; dv_bound := Some (NInf, Fin (Q2Qc (5 # 2))); dv_name := None |};
         {| dv_id := 4; dv_kind := 2; dv_bound := Some (Fin (qz (-3)), Fin (qz 10)); dv_name := Some "y" |};
         {| dv_id := 9; dv_kind := 3; dv_bound := None; dv_name := None |};
         {| dv_id := 30; dv_kind := 1; dv_bound := Some (Fin (qz 0), Fin (qz 1)); dv_name := None |} ];
     in_cons :=
       [ {| cn_id := 0; cn_eq := 1;
            cn_fn := FLin {| l_terms := [(7%N, qz 1); (4%N, qz 2); (30%N, qz 5)]; l_const := qz (-4) |}; cn_name := None |};
         {| cn_id := 12; cn_eq := 2;
            cn_fn := FPoly [([4%N], qz 1); ([], Q2Qc (3 # 4)); ([1%N], qz (-1))]; cn_name := None |};
         {| cn_id := 3; cn_eq := 2; cn_fn := FConst (qz 1); cn_name := None |} ];
     in_name := Some "ex" |}.

Example ex_inst_wf : wfb ex_inst = true.
Proof. vm_compute. reflexivity. Qed.
Example ex_inst_roundtrip :
  exists lines, write_mps ex_inst = WOk lines /\ load_lines lines = Ok (readback ex_inst) /\
                same_problem ex_inst (readback ex_inst) = None.
Proof. apply C18_roundtrip. exact ex_inst_wf. Qed.
Example ex_inst_nontrivial :
  List.length (in_dvars (readback ex_inst)) = 4%nat /\ List.length (in_cons (readback ex_inst)) = 3%nat /\
  List.length (written ex_inst) = 38%nat.
Proof. vm_compute. repeat split. Qed.

(* ================================================================== *)
(* 12. discharging [num_okb]: every number the printer prints as a       *)
(*     terminating decimal (fewer than 64 fractional digits) reads back  *)

Lemma print_N_spec_gen n : exists k, (0 < k)%N /\
  forall a c, read_digits (print_N n) a c = ((a * 10 ^ k + n)%N, (c + k)%N, "").
Proof.
  unfold print_N.
  destruct (print_N_aux_spec (N.to_nat (N.log2 n)) n "" (print_N_fuel n)) as [[k [Hk R]] _].
  exists k. split; [exact Hk|]. intros a c. rewrite R. reflexivity.
Qed.

Lemma read_digits_app s : forall a c a' c' t,
  read_digits s a c = (a', c', "") -> read_digits (s +++ t) a c = read_digits t a' c'.
Proof.
  induction s as [|x s IH]; intros a c a' c' t H.
  - cbn [read_digits] in H. inversion H; subst. reflexivity.
  - rewrite sapp_cons. cbn [read_digits] in *. destruct (digit_of x); [apply IH; exact H|discriminate].
Qed.
Lemma read_digits_count s : forall a c a' c',
  read_digits s a c = (a', c', "") -> c' = (c + N.of_nat (String.length s))%N.
Proof.
  induction s as [|x s IH]; intros a c a' c' H; cbn [read_digits String.length] in *.
  - inversion H; subst. lia.
  - destruct (digit_of x); [|discriminate]. apply IH in H. lia.
Qed.
Lemma read_digits_zeros z : forall t a c,
  read_digits (zeros z +++ t) a c = read_digits t (a * 10 ^ N.of_nat z)%N (c + N.of_nat z)%N.
Proof.
  induction z as [|z IH]; intros t a c.
  - cbn [zeros]. rewrite sapp_nil_l. f_equal; cbn; lia.
  - cbn [zeros]. rewrite sapp_cons. cbn [read_digits].
    change (digit_of "0"%char) with (Some 0%N). cbv beta iota. rewrite IH. f_equal.
    + rewrite Nat2N.inj_succ, N.pow_succ_r'. lia.
    + lia.
Qed.

Lemma print_N_aux_length : forall f n acc j, (n < 2 ^ N.of_nat (S f))%N -> (0 < j)%nat ->
  (n < 10 ^ N.of_nat j)%N ->
  (String.length (print_N_aux (S f) n acc) <= j + String.length acc)%nat.
Proof.
  induction f as [|f IH]; intros n acc j Hn Hj Hlt.
  - assert (Hd : (n / 10 = 0)%N) by (apply N.div_small; cbn in Hn; lia).
    cbn [print_N_aux]. rewrite Hd. cbn [N.eqb String.length]. lia.
  - change (print_N_aux (S (S f)) n acc)
      with (if (n / 10 =? 0)%N then String (dchar (n mod 10)) acc
            else print_N_aux (S f) (n / 10)%N (String (dchar (n mod 10)) acc)).
    destruct (n / 10 =? 0)%N eqn:E; [cbn [String.length]; lia|].
    apply N.eqb_neq in E.
    assert (Hq : (n / 10 < 2 ^ N.of_nat (S f))%N).
    { apply N.div_lt_upper_bound; [lia|].
      replace (N.of_nat (S (S f))) with (N.succ (N.of_nat (S f))) in Hn by lia.
      rewrite N.pow_succ_r' in Hn. lia. }
    destruct j as [|j]; [lia|].
    destruct j as [|j].
    { exfalso. apply E. apply N.div_small. cbn in Hlt. lia. }
    assert (Hlt' : (n / 10 < 10 ^ N.of_nat (S j))%N).
    { apply N.div_lt_upper_bound; [lia|].
      replace (N.of_nat (S (S j))) with (N.succ (N.of_nat (S j))) in Hlt by lia.
      rewrite N.pow_succ_r' in Hlt. exact Hlt. }
    pose proof (IH (n / 10)%N (String (dchar (n mod 10)) acc) (S j) Hq (Nat.lt_0_succ j) Hlt') as L.
    cbn [String.length] in L. lia.
Qed.
Lemma print_N_length n j : (0 < j)%nat -> (n < 10 ^ N.of_nat j)%N -> (String.length (print_N n) <= j)%nat.
Proof.
  intros Hj Hlt. unfold print_N.
  pose proof (print_N_aux_length (N.to_nat (N.log2 n)) n "" j (print_N_fuel n) Hj Hlt) as L.
  cbn [String.length] in L. lia.
Qed.

Lemma dchar_not_minus d : (d < 10)%N -> Ascii.eqb (dchar d) "-"%char = false.
Proof. intro H. digits d H. Qed.
Lemma lower_dchar_i d : (d < 10)%N -> Ascii.eqb (lower (dchar d)) "i"%char = false.
Proof. intro H. digits d H. Qed.
Lemma lower_dchar_n d : (d < 10)%N -> Ascii.eqb (lower (dchar d)) "n"%char = false.
Proof. intro H. digits d H. Qed.

(* the prefix [read_f64] performs before the digits, on a string that starts with a digit *)
Lemma starts_digit_sign d s : (d < 10)%N -> read_sign (String (dchar d) s) = (false, String (dchar d) s).
Proof. intro H. cbn [read_sign]. rewrite (dchar_not_minus d H), (dchar_not_plus d H). reflexivity. Qed.
Lemma starts_digit_words d s : (d < 10)%N ->
  ((slower (String (dchar d) s) =? "inf") || (slower (String (dchar d) s) =? "infinity") = false) /\
  (slower (String (dchar d) s) =? "nan") = false.
Proof.
  intro H. cbn [slower String.eqb]. rewrite (lower_dchar_i d H), (lower_dchar_n d H). split; reflexivity.
Qed.

Definition dec_text (neg : bool) (ip : N) (tail : string) : string :=
  (if neg then "-" else "") +++ print_N ip +++ tail.

Lemma read_f64_dec_text neg ip tail :
  read_f64 (dec_text neg ip tail) =
  let '(n1, k1, r1) := read_digits (print_N ip +++ tail) 0%N 0%N in
  let '(n2, k2, r2) :=
    match r1 with
    | String c r1' => if Ascii.eqb c "."%char then read_digits r1' n1 0%N else (n1, 0%N, r1)
    | EmptyString => (n1, 0%N, r1)
    end in
  if (k1 + k2 =? 0)%N then None
  else
    match r2 with
    | EmptyString => Some (Fin (dec_value neg n2 k2 false 0%N))
    | String c r3 =>
        if Ascii.eqb (lower c) "e"%char then
          let '(eneg, r4) := read_sign r3 in
          let '(e, ke, r5) := read_digits r4 0%N 0%N in
          if (ke =? 0)%N || negb (sempty r5) then None
          else Some (Fin (dec_value neg n2 k2 eneg e))
        else None
    end.
Proof.
  destruct (print_N_spec ip) as [_ [[d [s [Hd E]]] _]].
  assert (S : read_sign (dec_text neg ip tail) = (neg, print_N ip +++ tail)).
  { unfold dec_text. destruct neg; [reflexivity|]. rewrite sapp_nil_l, E, sapp_cons. apply starts_digit_sign. exact Hd. }
  unfold read_f64. rewrite S.
  destruct (starts_digit_words d (s +++ tail) Hd) as [W1 W2].
  rewrite E, sapp_cons, W1, W2. reflexivity.
Qed.

Lemma read_f64_int neg ip :
  read_f64 (dec_text neg ip "") = Some (Fin (dec_value neg ip 0 false 0)).
Proof.
  rewrite read_f64_dec_text. rewrite sapp_nil_r.
  destruct (print_N_spec_gen ip) as [k [Hk R]]. rewrite R.
  rewrite N.mul_0_l, !N.add_0_l, N.add_0_r.
  assert (K : (k =? 0)%N = false) by (apply N.eqb_neq; lia). rewrite K. reflexivity.
Qed.

Lemma read_f64_frac neg ip fp j : (0 < j)%nat -> (fp < 10 ^ N.of_nat j)%N ->
  read_f64 (dec_text neg ip ("." +++ pad_left j (print_N fp))) =
  Some (Fin (dec_value neg (ip * 10 ^ N.of_nat j + fp) (N.of_nat j) false 0)).
Proof.
  intros Hj Hfp. rewrite read_f64_dec_text.
  destruct (print_N_spec_gen ip) as [k [Hk R]].
  rewrite (read_digits_app _ _ _ _ _ _ (R 0%N 0%N)).
  rewrite N.mul_0_l, !N.add_0_l.
  rewrite sapp_cons, sapp_nil_l. cbn [read_digits].
  change (digit_of "."%char) with (@None N). cbv beta iota.
  change (Ascii.eqb "."%char "."%char) with true. cbv beta iota.
  unfold pad_left. rewrite read_digits_zeros.
  destruct (print_N_spec_gen fp) as [kf [Hkf Rf]]. rewrite Rf.
  pose proof (read_digits_count _ _ _ _ _ (Rf 0%N 0%N)) as C. rewrite N.add_0_l in C.
  pose proof (print_N_length fp j Hj Hfp) as Len.
  assert (Ek : (0 + N.of_nat (j - String.length (print_N fp)) + kf = N.of_nat j)%N) by lia.
  rewrite Ek.
  assert (Em : (ip * 10 ^ N.of_nat (j - String.length (print_N fp)) * 10 ^ kf + fp = ip * 10 ^ N.of_nat j + fp)%N).
  { rewrite <- N.mul_assoc, <- N.pow_add_r. f_equal. f_equal. f_equal. lia. }
  rewrite Em.
  assert (K : (k + N.of_nat j =? 0)%N = false) by (apply N.eqb_neq; lia). rewrite K. reflexivity.
Qed.

Lemma find_k_spec d : forall fuel k0 k, find_k fuel d k0 = Some k ->
  (k0 <= k)%Z /\ ((10 ^ k) mod d = 0)%Z.
Proof.
  induction fuel as [|f IH]; intros k0 k H; cbn [find_k] in H; [discriminate|].
  destruct ((10 ^ k0) mod d =? 0)%Z eqn:E.
  - inversion H; subst. split; [lia|apply Z.eqb_eq; exact E].
  - apply IH in H. destruct H as [H1 H2]. split; [lia|exact H2].
Qed.

Definition printable (q : num) : bool :=
  match find_k 64 (Z.pos (Qden q)) 0 with Some _ => true | None => false end.

Lemma dec_value_int (neg : bool) (z : Z) : (0 <= z)%Z ->
  dec_value neg (Z.to_N z) 0 false 0 = Q2Qc (inject_Z (if neg then - z else z)).
Proof.
  intro Hz. unfold dec_value. change (Z.of_N 0) with 0%Z. change (0 - 0)%Z with 0%Z.
  change (0 <=? 0)%Z with true. cbv iota. change (10 ^ 0)%Z with 1%Z. rewrite Z2N.id by exact Hz.
  rewrite Z.mul_1_r. destruct neg; [|reflexivity].
  apply Qc_is_canon. rewrite !this_Q2Qc. unfold inject_Z, Qopp, Qeq. cbn [Qnum Qden]. lia.
Qed.

Theorem num_okb_printable q : printable q = true -> num_okb q = true.
Proof.
  unfold printable, num_okb. destruct q as [[qn qd] Hc]. unfold print_num. cbn [this Qnum Qden].
  destruct (find_k 64 (Z.pos qd) 0) as [k|] eqn:Fk; [|discriminate]. intros _.
  destruct (find_k_spec _ _ _ _ Fk) as [Hk0 Hdiv].
  set (d := Z.pos qd) in *.
  assert (Hd : (0 < d)%Z) by (unfold d; lia).
  assert (P10 : (0 < 10 ^ k)%Z) by (apply Z.pow_pos_nonneg; lia).
  set (m := (Z.abs qn * 10 ^ k / d)%Z).
  assert (Hm : (m * d = Z.abs qn * 10 ^ k)%Z).
  { unfold m. apply Z.mod_divide in Hdiv; [|lia]. destruct Hdiv as [e He]. rewrite He.
    rewrite Z.mul_assoc, Z.div_mul by lia. ring. }
  assert (Hm0 : (0 <= m)%Z) by (unfold m; apply Z.div_pos; [|exact Hd]; apply Z.mul_nonneg_nonneg; lia).
  pose proof (Z.div_mod m (10 ^ k) ltac:(lia)) as DM.
  pose proof (Z.mod_pos_bound m (10 ^ k) P10) as MB.
  assert (Hip : (0 <= m / 10 ^ k)%Z) by (apply Z.div_pos; lia).
  fold (dec_text (qn <? 0)%Z (Z.to_N (m / 10 ^ k))
          (if (k =? 0)%Z then "" else "." +++ pad_left (Z.to_nat k) (print_N (Z.to_N (m mod 10 ^ k))))).
  destruct (k =? 0)%Z eqn:K0.
  - (* an integer *)
    apply Z.eqb_eq in K0. subst k. rewrite read_f64_int.
    change (10 ^ 0)%Z with 1%Z in *. rewrite Z.div_1_r in *.
    assert (D1 : d = 1%Z).
    { destruct (Z.eq_dec d 1) as [E|E]; [exact E|]. rewrite Z.mod_1_l in Hdiv by lia. lia. }
    rewrite (dec_value_int _ _ Hm0). apply qeqb_eq. apply Qc_is_canon. rewrite this_Q2Qc. cbn [this].
    unfold inject_Z, Qeq. cbn [Qnum Qden]. fold d. rewrite D1 in *.
    destruct (qn <? 0)%Z eqn:Sg; [apply Z.ltb_lt in Sg|apply Z.ltb_ge in Sg]; lia.
  - apply Z.eqb_neq in K0.
    assert (Jpos : (0 < Z.to_nat k)%nat) by lia.
    assert (Fb : (Z.to_N (m mod 10 ^ k) < 10 ^ N.of_nat (Z.to_nat k))%N).
    { apply N2Z.inj_lt. rewrite N2Z.inj_pow, Z2N.id by lia. rewrite nat_N_Z, Z2Nat.id by lia.
      change (Z.of_N 10) with 10%Z. lia. }
    rewrite (read_f64_frac _ _ _ _ Jpos Fb).
    apply qeqb_eq. unfold dec_value.
    assert (EZ : Z.of_N (Z.to_N (m / 10 ^ k) * 10 ^ N.of_nat (Z.to_nat k) + Z.to_N (m mod 10 ^ k)) = m).
    { rewrite N2Z.inj_add, N2Z.inj_mul, N2Z.inj_pow, !Z2N.id by lia. rewrite nat_N_Z, Z2Nat.id by lia.
      change (Z.of_N 10) with 10%Z. lia. }
    rewrite EZ. rewrite nat_N_Z, Z2Nat.id by lia. cbn [Z.of_N].
    assert (EX : (0 - k <? 0)%Z = true) by (apply Z.ltb_lt; lia).
    assert (EL : (0 <=? 0 - k)%Z = false) by (apply Z.leb_gt; lia). rewrite EL.
    replace (- (0 - k))%Z with k by lia.
    apply Qc_is_canon. rewrite this_Q2Qc. cbn [this].
    destruct (qn <? 0)%Z eqn:Sg; [apply Z.ltb_lt in Sg|apply Z.ltb_ge in Sg];
      unfold Qopp, Qeq; cbn [Qnum Qden]; rewrite Z2Pos.id by lia; fold d; lia.
Qed.

(* hence [wf_nums] follows from: every printed number is a terminating decimal the printer handles *)
Definition ext_printable (x : ext) : bool := match x with Fin q => printable q | _ => true end.
Definition wf_printable (I0 : inst) : bool :=
  forallb (fun v => (qeqb (cf v (objl I0)) 0 || printable (cf v (objl I0))) &&
                    forallb (fun c => qeqb (cf v (clin c)) 0 || printable (cf v (clin c))) (in_cons I0))
          (in_dvars I0) &&
  forallb (fun x => qeqb (snd x) 0 || printable (- snd x)) (rhs_xs I0) &&
  forallb (fun id => match dv_bound (var_or I0 id) with
                     | Some (lo, up) => ext_printable lo && ext_printable up | None => true end) (used_ids I0).

Lemma forallb_impl {X} (p q : X -> bool) l : (forall x, p x = true -> q x = true) ->
  forallb p l = true -> forallb q l = true.
Proof. intros H Hp. rewrite forallb_forall in *. intros x Hx. apply H. apply Hp. exact Hx. Qed.
Lemma or_printable a q : a || printable q = true -> a || num_okb q = true.
Proof. destruct a; [reflexivity|]. cbn [orb]. apply num_okb_printable. Qed.

Theorem wf_printable_nums I0 : wf_printable I0 = true -> wf_nums I0 = true.
Proof.
  unfold wf_printable, wf_nums. intro H.
  apply andb_true_iff in H. destruct H as [H H3]. apply andb_true_iff in H. destruct H as [H1 H2].
  apply andb_true_iff. split; [apply andb_true_iff; split|].
  - revert H1. apply forallb_impl. intros v Hv. unfold col_nums_okb.
    apply andb_true_iff in Hv. destruct Hv as [Ha Hb]. apply andb_true_iff. split.
    + apply or_printable. exact Ha.
    + revert Hb. apply forallb_impl. intros c. apply or_printable.
  - revert H2. apply forallb_impl. intros x. apply or_printable.
  - revert H3. apply forallb_impl. intros id. unfold bound_okb.
    destruct (dv_bound (var_or I0 id)) as [[lo up]|]; [|reflexivity]. intro Hb.
    apply andb_true_iff in Hb. destruct Hb as [Hl Hu]. apply andb_true_iff. split.
    + destruct lo; try reflexivity. apply num_okb_printable. exact Hl.
    + destruct up; try reflexivity. apply num_okb_printable. exact Hu.
Qed.

(* the round trip, with no assumption left about the number printer / parser *)
Definition wfb_dec (I0 : inst) : bool :=
  wf_lin I0 && wf_used I0 && wf_ids I0 && wf_printable I0 && wf_kinds I0 && wf_dom I0.

Theorem C18_roundtrip_decimal : forall I0, wfb_dec I0 = true ->
  exists lines,
    write_mps I0 = WOk lines /\
    load_lines lines = Ok (readback I0) /\
    same_problem I0 (readback I0) = None.
Proof.
  intros I0 H. apply C18_roundtrip. unfold wfb_dec in H. unfold wfb.
  apply andb_true_iff in H. destruct H as [H H6]. apply andb_true_iff in H. destruct H as [H H5].
  apply andb_true_iff in H. destruct H as [H H4]. rewrite H, (wf_printable_nums I0 H4), H5, H6. reflexivity.
Qed.

Example ex_inst_wf_dec : wfb_dec ex_inst = true.
Proof. vm_compute. reflexivity. Qed.

Print Assumptions C18_roundtrip.
Print Assumptions C18_roundtrip_verdict.
Print Assumptions wfb_write_iff.
Print Assumptions num_okb_printable.
Print Assumptions C18_roundtrip_decimal.
